// C03 — Galerkin coarse levels, R == P^H and rebuild histories for std::complex<double> values:
// {aggregation, smoothed_aggregation, smoothed_aggr_emin} x {spai0, damped_jacobi, gauss_seidel} (ruge_stuben does not support complex values).
// See c03_valuetypes.hpp.
#include "c03_valuetypes.hpp"
using namespace c03v;

template <template <class> class C>
static void with_relax(vf::Tape &t, vf::Ctx &c) {
    switch (t.u(0, 2)) {
    case 0: run_history<cplx, C, rx::spai0>(t, c); break;
    case 1: run_history<cplx, C, rx::damped_jacobi>(t, c); break;
    default: run_history<cplx, C, rx::gauss_seidel>(t, c); break;
    }
}
static void prop_history(vf::Tape &t, vf::Ctx &c) {
    switch (t.u(0, 2)) { // word 0: smoothed aggregation (the prolongation carries complex weights)
    case 0: with_relax<co::smoothed_aggregation>(t, c); break;
    case 1: with_relax<co::aggregation>(t, c); break;
    default: with_relax<co::smoothed_aggr_emin>(t, c); break;
    }
}
static std::vector<vf::Prop> props() {
    return {
        vf::Prop("history", prop_history, 1200, 16000, 100, 60, {1}, 1, 4),
        vf::Prop("history_t17", prop_history, 100, 2000, 100, 60, {17}, 1, 2),
    };
}
static std::vector<vf::Enum> enums() { return {}; }
VF_MAIN(props(), enums())
