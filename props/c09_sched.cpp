// C09 (part 1) — the static level schedules of the parallel Gauss-Seidel sweep and of the
// level-scheduled triangular solves never put two dependent rows into one level.
//
// Observation: the per-thread task tables, read through the AMGCL_VERIF friend accessor.
// Oracles:
//   (1) schedule invariant: every row once; for every a_ij != 0 (i != j) the row that must be
//       processed first (serial sweep order: true dependencies AND anti-dependencies for
//       Gauss-Seidel, true dependencies for the strictly triangular factors) sits in a strictly
//       earlier level.  Levels are separated by barriers and a row writes only its own unknown,
//       so the invariant implies that every interleaving gives the serial result.
//   (2) harness-owned scheduler: the tables are executed by the harness with the rows of each level
//       in a generated order (and reversed); result must equal the serial sweep bitwise
//       (Gauss-Seidel) / the in-order execution bitwise and the serial solve up to rounding (ILU).
//   (3) the real OpenMP execution equals the serial sweep (bitwise for Gauss-Seidel).
#include <amgcl/backend/builtin.hpp>
#include <amgcl/adapter/crs_tuple.hpp>
#include <amgcl/relaxation/gauss_seidel.hpp>
#include <amgcl/relaxation/detail/ilu_solve.hpp>
#include <amgcl/value_type/static_matrix.hpp>
#include "../common/harness.hpp"
#include "../common/gen.hpp"
#include "../common/amgcl_util.hpp"
#include "../common/access.hpp"

using namespace vf;
typedef amgcl::backend::builtin<double> B;
typedef amgcl_verif::access acc;

// level of every row reconstructed from the task tables; checks "every row exactly once"
template <class Sweep>
std::vector<ptrdiff_t> levels_of(const Sweep &s, ptrdiff_t n, const char *what) {
    std::vector<ptrdiff_t> lev(n, -1);
    size_t nlev = s.tasks.empty() ? 0 : s.tasks[0].size();
    VF_REQUIRE(static_cast<int>(s.tasks.size()) == s.nthreads, what << ": task table has " << s.tasks.size() << " threads, nthreads=" << s.nthreads);
    for (int t = 0; t < s.nthreads; ++t) {
        VF_REQUIRE(s.tasks[t].size() == nlev, what << ": thread " << t << " has " << s.tasks[t].size() << " levels, thread 0 has " << nlev << " (barrier count would differ: deadlock)");
        for (size_t l = 0; l < nlev; ++l) {
            for (ptrdiff_t r = s.tasks[t][l].beg; r < s.tasks[t][l].end; ++r) {
                VF_REQUIRE(r >= 0 && r < static_cast<ptrdiff_t>(s.ord[t].size()), what << ": task range outside the row table");
                ptrdiff_t i = s.ord[t][r];
                VF_REQUIRE(i >= 0 && i < n, what << ": row index " << i << " out of range");
                VF_REQUIRE(lev[i] < 0, what << ": row " << i << " scheduled twice");
                lev[i] = static_cast<ptrdiff_t>(l);
            }
        }
    }
    for (ptrdiff_t i = 0; i < n; ++i) VF_REQUIRE(lev[i] >= 0, what << ": row " << i << " is never scheduled");
    return lev;
}

// the reordered matrix copy inside the tables must be the rows of A
template <class Sweep>
void require_rows_copied(const Sweep &s, const Csr<double> &A, const char *what) {
    for (int t = 0; t < s.nthreads; ++t)
        for (size_t r = 0; r < s.ord[t].size(); ++r) {
            ptrdiff_t i = s.ord[t][r], b = s.ptr[t][r], e = s.ptr[t][r + 1];
            VF_REQUIRE(e - b == A.ptr[i + 1] - A.ptr[i], what << ": row " << i << " copied with wrong length");
            for (ptrdiff_t j = b; j < e; ++j)
                VF_REQUIRE(s.col[t][j] == A.col[A.ptr[i] + (j - b)] && s.val[t][j] == A.val[A.ptr[i] + (j - b)], what << ": row " << i << " copied wrongly");
        }
}

// execute a Gauss-Seidel schedule with a generated order inside each level
template <class Sweep>
void run_gs(const Sweep &s, const std::vector<double> &rhs, std::vector<double> &x, Tape *t, bool reversed) {
    size_t nlev = s.tasks.empty() ? 0 : s.tasks[0].size();
    for (size_t l = 0; l < nlev; ++l) {
        std::vector<std::pair<int, ptrdiff_t>> rows;
        for (int th = 0; th < s.nthreads; ++th) for (ptrdiff_t r = s.tasks[th][l].beg; r < s.tasks[th][l].end; ++r) rows.push_back(std::make_pair(th, r));
        if (reversed) std::reverse(rows.begin(), rows.end());
        if (t) for (size_t a = rows.size(); a > 1; --a) std::swap(rows[a - 1], rows[t->pick(a)]);
        for (auto &tr : rows) {
            int th = tr.first; ptrdiff_t r = tr.second;
            ptrdiff_t i = s.ord[th][r];
            double D = 1.0, X = rhs[i];
            for (ptrdiff_t j = s.ptr[th][r]; j < s.ptr[th][r + 1]; ++j) {
                ptrdiff_t c = s.col[th][j]; double v = s.val[th][j];
                if (c == i) D = v; else X -= v * x[c];
            }
            x[i] = (1.0 / D) * X;
        }
    }
}

template <bool lower, class Solve>
void run_tri(const Solve &s, std::vector<double> &x, Tape *t, bool reversed) {
    size_t nlev = s.tasks.empty() ? 0 : s.tasks[0].size();
    for (size_t l = 0; l < nlev; ++l) {
        std::vector<std::pair<int, ptrdiff_t>> rows;
        for (int th = 0; th < s.nthreads; ++th) for (ptrdiff_t r = s.tasks[th][l].beg; r < s.tasks[th][l].end; ++r) rows.push_back(std::make_pair(th, r));
        if (reversed) std::reverse(rows.begin(), rows.end());
        if (t) for (size_t a = rows.size(); a > 1; --a) std::swap(rows[a - 1], rows[t->pick(a)]);
        for (auto &tr : rows) {
            int th = tr.first; ptrdiff_t r = tr.second;
            ptrdiff_t i = s.ord[th][r];
            double X = 0;
            for (ptrdiff_t j = s.ptr[th][r]; j < s.ptr[th][r + 1]; ++j) X += s.val[th][j] * x[s.col[th][j]];
            if (lower) x[i] -= X; else x[i] = s.D[th][r] * (x[i] - X);
        }
    }
}

// ---------------------------------------------------------------- matrices
// general square matrix with structurally present non-zero diagonal; pattern from a random graph with
// independent deletion of each direction (structural non-symmetry), or from an explicit bitmask
static Csr<double> gs_matrix_random(Tape &t, Ctx &c, bool &nonsym) {
    int nmax = t.chance(1, 3) ? 300 : 40;
    Graph g = gen_graph(t, nmax);
    int q = static_cast<int>(t.u(0, 4)); // deletion probability q/8 per direction
    std::vector<std::map<ptrdiff_t, double>> rows(g.n);
    nonsym = false;
    bool exact = t.b();
    for (auto &e : g.edges) {
        bool k1 = !t.chance(q, 8), k2 = !t.chance(q, 8);
        if (k1) rows[e.first][e.second] = exact ? -t.ival(1, 3) : -t.logu(0.1, 10);
        if (k2) rows[e.second][e.first] = exact ? -t.ival(1, 3) : -t.logu(0.1, 10);
        if (k1 != k2) nonsym = true;
    }
    // rows without a stored diagonal entry are relaxed with D = I by the serial and by the level-scheduled sweep alike
    // (gauss_seidel.hpp initialises D with the identity for every row): valid input for thread-count independence
    bool nodiag = t.chance(1, 4); int ndrop = 0;
    for (int i = 0; i < g.n; ++i) {
        double s = 0; for (auto &kv : rows[i]) s += std::abs(kv.second);
        double d = exact ? std::ldexp(1.0, static_cast<int>(std::ceil(std::log2(s + 1.0))) + static_cast<int>(t.u(0, 1))) : (s + t.logu(0.1, 2));
        if (nodiag && t.chance(1, 3)) { ++ndrop; continue; }
        rows[i][i] = d;
    }
    c.label("fam:" + g.family);
    if (ndrop) c.label("rows-without-stored-diagonal");
    c.desc << g.family << " n=" << g.n << " q=" << q << "/8 " << (exact ? "exact" : "real") << " rows_without_diagonal=" << ndrop;
    return from_triplets<double>(g.n, g.n, rows);
}

static Csr<double> matrix_from_mask(int n, uint32_t mask, bool &nonsym, uint32_t nodiag = 0) {
    std::vector<std::map<ptrdiff_t, double>> rows(n);
    int b = 0;
    for (int i = 0; i < n; ++i) for (int j = 0; j < n; ++j) {
        if (i == j) { if (!(nodiag >> i & 1)) rows[i][i] = 4.0 * (1 + i % 2); continue; }
        if (mask >> b & 1) rows[i][j] = -1.0 - 0.25 * ((i * 7 + j * 3) % 4);
        ++b;
    }
    nonsym = false;
    for (int i = 0; i < n; ++i) for (int j = 0; j < n; ++j) if (i != j && (rows[i].count(j) != 0) != (rows[j].count(i) != 0)) nonsym = true;
    return from_triplets<double>(n, n, rows);
}

static void check_gs(const Csr<double> &A, Tape &t, Ctx &c, bool nonsym) {
    typedef amgcl::relaxation::gauss_seidel<B> GS;
    const ptrdiff_t n = A.n;
    auto a = to_crs<double>(A);
    GS::params pp; pp.serial = false;
    GS::params ps; ps.serial = true;
    GS par(*a, pp, B::params()), ser(*a, ps, B::params());
    VF_REQUIRE(c.threads >= 4, "harness: this prop needs >= 4 threads");
    VF_REQUIRE(!par.is_serial, "parallel sweep not selected with " << c.threads << " threads");
    auto fw = acc::gs_forward(par); auto bw = acc::gs_backward(par);
    VF_REQUIRE(fw && bw, "no schedule tables");
    std::vector<ptrdiff_t> lf = levels_of(*fw, n, "gauss_seidel forward schedule");
    std::vector<ptrdiff_t> lb = levels_of(*bw, n, "gauss_seidel backward schedule");
    require_rows_copied(*fw, A, "gauss_seidel forward schedule");
    require_rows_copied(*bw, A, "gauss_seidel backward schedule");
    ptrdiff_t maxlev = 0;
    for (ptrdiff_t i = 0; i < n; ++i) {
        maxlev = std::max(maxlev, lf[i]);
        for (ptrdiff_t j = A.ptr[i]; j < A.ptr[i + 1]; ++j) {
            ptrdiff_t k = A.col[j];
            if (k == i) continue;
            // forward sweep visits rows in increasing order: row min(i,k) must be finished before row max(i,k) starts
            // (k<i: i reads the new x_k; k>i: i reads the old x_k, so k must not be updated before i is done)
            if (k < i) VF_REQUIRE(lf[k] < lf[i], "forward sweep: row " << i << " reads x[" << k << "] (updated earlier in the serial sweep) but level(" << k << ")=" << lf[k] << " >= level(" << i << ")=" << lf[i]);
            else       VF_REQUIRE(lf[i] < lf[k], "forward sweep: row " << i << " reads the old x[" << k << "] but row " << k << " is in level " << lf[k] << " <= level(" << i << ")=" << lf[i] << " (anti-dependency)");
            if (k > i) VF_REQUIRE(lb[k] < lb[i], "backward sweep: row " << i << " reads x[" << k << "] (updated earlier in the serial sweep) but level(" << k << ")=" << lb[k] << " >= level(" << i << ")=" << lb[i]);
            else       VF_REQUIRE(lb[i] < lb[k], "backward sweep: row " << i << " reads the old x[" << k << "] but row " << k << " is in level " << lb[k] << " <= level(" << i << ")=" << lb[i] << " (anti-dependency)");
        }
    }
    c.nontrivial = nonsym || maxlev >= 2;
    c.label(nonsym ? "struct-nonsym" : "struct-sym");
    c.label(maxlev >= 2 ? "levels>=3" : "levels<3");
    c.desc << " nnz=" << A.nnz() << " levels=" << maxlev + 1 << " threads=" << c.threads << " A=" << dump_small(A, 6);

    // (2)+(3): execution
    std::vector<double> rhs = gen_vec(t, n, 1), x0 = gen_vec(t, n, 1), tmp(n);
    for (int dir = 0; dir < 2; ++dir) {
        std::vector<double> xs = x0, xp = x0, xa = x0, xb = x0, xc = x0;
        if (dir == 0) { ser.apply_pre(*a, rhs, xs, tmp); par.apply_pre(*a, rhs, xp, tmp); run_gs(*fw, rhs, xa, nullptr, false); run_gs(*fw, rhs, xb, nullptr, true); run_gs(*fw, rhs, xc, &t, false); }
        else          { ser.apply_post(*a, rhs, xs, tmp); par.apply_post(*a, rhs, xp, tmp); run_gs(*bw, rhs, xa, nullptr, false); run_gs(*bw, rhs, xb, nullptr, true); run_gs(*bw, rhs, xc, &t, false); }
        const char *d = dir == 0 ? "forward" : "backward";
        for (ptrdiff_t i = 0; i < n; ++i) {
            VF_REQUIRE(memcmp(&xa[i], &xs[i], 8) == 0, d << " schedule executed level by level differs from the serial sweep at x[" << i << "]: " << xa[i] << " vs " << xs[i]);
            VF_REQUIRE(memcmp(&xb[i], &xs[i], 8) == 0, d << " schedule with rows of each level in reverse order differs from the serial sweep at x[" << i << "]: " << xb[i] << " vs " << xs[i]);
            VF_REQUIRE(memcmp(&xc[i], &xs[i], 8) == 0, d << " schedule with rows of each level in generated order differs from the serial sweep at x[" << i << "]: " << xc[i] << " vs " << xs[i]);
            VF_REQUIRE(memcmp(&xp[i], &xs[i], 8) == 0, d << " OpenMP sweep differs from the serial sweep at x[" << i << "]: " << xp[i] << " vs " << xs[i]);
        }
    }
}

static void prop_gs_random(Tape &t, Ctx &c) {
    bool nonsym;
    Csr<double> A = gs_matrix_random(t, c, nonsym);
    check_gs(A, t, c, nonsym);
}
static void prop_gs_mask(Tape &t, Ctx &c) {
    int n = static_cast<int>(t.u(1, 5));
    uint32_t mask = static_cast<uint32_t>(t.u(0, (1u << (n * (n - 1))) - 1));
    // third word: 0 .. 2^(n+1)-1 -> every diagonal stored; 2^(n+1) + m -> rows in bit mask m have no stored diagonal
    int64_t dw = t.u(0, 3 * (int64_t(1) << n) - 1);
    uint32_t nodiag = dw >= (int64_t(2) << n) ? static_cast<uint32_t>(dw - (int64_t(2) << n)) : 0;
    bool nonsym;
    Csr<double> A = matrix_from_mask(n, mask, nonsym, nodiag);
    if (nodiag) c.label("rows-without-stored-diagonal");
    c.desc << "mask n=" << n << " mask=" << mask << " nodiag=" << nodiag;
    check_gs(A, t, c, nonsym);
}

// ---------------------------------------------------------------- ILU triangular solves
static void check_ilu(const Csr<double> &L, const Csr<double> &U, const std::vector<double> &D, bool exact, Tape &t, Ctx &c) {
    typedef amgcl::relaxation::detail::ilu_solve<B> S;
    const ptrdiff_t n = L.n;
    auto l = to_crs<double>(L), u = to_crs<double>(U);
    auto d = std::make_shared<amgcl::backend::numa_vector<double>>(D);
    auto l2 = to_crs<double>(L), u2 = to_crs<double>(U);
    auto d2 = std::make_shared<amgcl::backend::numa_vector<double>>(D);
    S::params pp; pp.serial = false;
    S::params ps; ps.serial = true;
    S par(l, u, d, pp), ser(l2, u2, d2, ps);
    auto lo = acc::ilu_lower(par); auto up = acc::ilu_upper(par);
    VF_REQUIRE(lo && up, "no level-scheduled tables with serial=false");
    std::vector<ptrdiff_t> ll = levels_of(*lo, n, "lower triangular schedule");
    std::vector<ptrdiff_t> lu = levels_of(*up, n, "upper triangular schedule");
    require_rows_copied(*lo, L, "lower triangular schedule");
    require_rows_copied(*up, U, "upper triangular schedule");
    ptrdiff_t maxlev = 0;
    for (ptrdiff_t i = 0; i < n; ++i) {
        maxlev = std::max(maxlev, std::max(ll[i], lu[i]));
        for (ptrdiff_t j = L.ptr[i]; j < L.ptr[i + 1]; ++j)
            VF_REQUIRE(ll[L.col[j]] < ll[i], "lower solve: row " << i << " reads x[" << L.col[j] << "] but level(" << L.col[j] << ")=" << ll[L.col[j]] << " >= level(" << i << ")=" << ll[i]);
        for (ptrdiff_t j = U.ptr[i]; j < U.ptr[i + 1]; ++j)
            VF_REQUIRE(lu[U.col[j]] < lu[i], "upper solve: row " << i << " reads x[" << U.col[j] << "] but level(" << U.col[j] << ")=" << lu[U.col[j]] << " >= level(" << i << ")=" << lu[i]);
    }
    for (int th = 0; th < up->nthreads; ++th) for (size_t r = 0; r < up->ord[th].size(); ++r)
        VF_REQUIRE(up->D[th][r] == D[up->ord[th][r]], "upper schedule: diagonal of row " << up->ord[th][r] << " copied wrongly");
    c.nontrivial = maxlev >= 2 && (L.nnz() + U.nnz()) >= 3;
    c.label(maxlev >= 2 ? "levels>=3" : "levels<3");
    c.desc << " n=" << n << " nnzL=" << L.nnz() << " nnzU=" << U.nnz() << " levels=" << maxlev + 1 << " threads=" << c.threads << (exact ? " exact" : " real") << " L=" << dump_small(L, 6) << " U=" << dump_small(U, 6);

    std::vector<double> x0 = gen_vec(t, n, exact ? 1 : 2);
    std::vector<double> xs = x0, xp = x0, xa = x0, xb = x0, xc = x0;
    ser.solve(xs); par.solve(xp);
    run_tri<true>(*lo, xa, nullptr, false); run_tri<false>(*up, xa, nullptr, false);
    run_tri<true>(*lo, xb, nullptr, true);  run_tri<false>(*up, xb, nullptr, true);
    run_tri<true>(*lo, xc, &t, false);      run_tri<false>(*up, xc, &t, false);
    // interleaving independence: any order inside a level gives bitwise the in-order result, and so does OpenMP
    for (ptrdiff_t i = 0; i < n; ++i) {
        VF_REQUIRE(memcmp(&xb[i], &xa[i], 8) == 0, "triangular schedule: reversed order inside levels changes x[" << i << "]: " << xb[i] << " vs " << xa[i]);
        VF_REQUIRE(memcmp(&xc[i], &xa[i], 8) == 0, "triangular schedule: generated order inside levels changes x[" << i << "]: " << xc[i] << " vs " << xa[i]);
        VF_REQUIRE(memcmp(&xp[i], &xa[i], 8) == 0, "OpenMP level-scheduled solve differs from the level-by-level execution at x[" << i << "]: " << xp[i] << " vs " << xa[i]);
    }
    // serial vs level-scheduled: same sums in a different association -> bitwise on exact values, rounding bound otherwise
    if (exact) {
        for (ptrdiff_t i = 0; i < n; ++i) VF_REQUIRE(xp[i] == xs[i], "level-scheduled solve differs from the serial solve on exactly representable data at x[" << i << "]: " << xp[i] << " vs " << xs[i]);
    } else {
        // forward error bound for triangular solves: |dx| <= c n u |T^-1||T||x| ; computed with the comparison matrices
        // M(L), M(U): y = M(U)^-1 D (M(L)^-1 |x0|) bounds every partial sum that occurs
        std::vector<long double> y(n);
        for (ptrdiff_t i = 0; i < n; ++i) { long double s = std::abs(x0[i]); for (ptrdiff_t j = L.ptr[i]; j < L.ptr[i + 1]; ++j) s += std::abs(static_cast<long double>(L.val[j])) * y[L.col[j]]; y[i] = s; }
        for (ptrdiff_t i = n - 1; i >= 0; --i) { long double s = y[i]; for (ptrdiff_t j = U.ptr[i]; j < U.ptr[i + 1]; ++j) s += std::abs(static_cast<long double>(U.val[j])) * y[U.col[j]]; y[i] = std::abs(static_cast<long double>(D[i])) * s; }
        for (ptrdiff_t i = 0; i < n; ++i) {
            long double bound = 8.0L * (n + 2) * 1.1102230246251565e-16L * y[i];
            VF_REQUIRE(std::abs(static_cast<long double>(xp[i]) - xs[i]) <= bound, "level-scheduled solve differs from the serial solve beyond rounding at x[" << i << "]: " << xp[i] << " vs " << xs[i] << " bound " << static_cast<double>(bound));
        }
    }
}

static void prop_ilu_random(Tape &t, Ctx &c) {
    int nmax = t.chance(1, 3) ? 300 : 40;
    Graph g = gen_graph(t, nmax);
    bool exact = t.b();
    int q = static_cast<int>(t.u(0, 4));
    std::vector<std::map<ptrdiff_t, double>> lr(g.n), ur(g.n);
    for (auto &e : g.edges) { // e.first < e.second
        if (!t.chance(q, 8)) lr[e.second][e.first] = exact ? t.ival(-2, 2) : t.uni(-0.9, 0.9);
        if (!t.chance(q, 8)) ur[e.first][e.second] = exact ? t.ival(-2, 2) : t.uni(-0.9, 0.9);
    }
    std::vector<double> D(g.n);
    for (auto &d : D) d = exact ? (g.n <= 12 ? std::ldexp(1.0, static_cast<int>(t.u(0, 2)) - 1) : 1.0) * (t.b() ? -1 : 1) : t.slogu(0.2, 2.0);
    if (exact && g.n > 60) { c.label("exact-large-skipped-to-real"); exact = false; } // keep exact products below 2^53
    Csr<double> L = from_triplets<double>(g.n, g.n, lr), U = from_triplets<double>(g.n, g.n, ur);
    if (exact) { // bound growth: integer data stay exact as long as magnitudes stay < 2^53; keep rows short
        double grow = 1; for (int i = 0; i < g.n; ++i) grow *= 1.0 + 2.0 * (L.ptr[i + 1] - L.ptr[i] + U.ptr[i + 1] - U.ptr[i]);
        if (grow > 1e12) { exact = false; c.label("exact-growth-to-real"); }
    }
    c.label("fam:" + g.family);
    c.desc << "ilu_solve " << g.family;
    check_ilu(L, U, D, exact, t, c);
}

static void prop_ilu_mask(Tape &t, Ctx &c) {
    int n = static_cast<int>(t.u(1, 5));
    uint32_t mask = static_cast<uint32_t>(t.u(0, (1u << (n * (n - 1))) - 1));
    std::vector<std::map<ptrdiff_t, double>> lr(n), ur(n);
    int b = 0;
    for (int i = 0; i < n; ++i) for (int j = 0; j < n; ++j) {
        if (i == j) continue;
        if (mask >> b & 1) { if (j < i) lr[i][j] = 1.0 + ((i + 2 * j) % 3); else ur[i][j] = -1.0 - ((2 * i + j) % 3); }
        ++b;
    }
    std::vector<double> D(n);
    for (int i = 0; i < n; ++i) D[i] = (i % 2) ? 0.5 : 2.0;
    c.desc << "ilu_solve mask n=" << n << " mask=" << mask;
    check_ilu(from_triplets<double>(n, n, lr), from_triplets<double>(n, n, ur), D, true, t, c);
}

static std::vector<Prop> props() {
    std::vector<int> th = {4, 5, 8, 17, 24};
    return {
        Prop("gs_random", prop_gs_random, 400, 4000, 100, 40, th, 1, 2),
        Prop("ilu_random", prop_ilu_random, 400, 4000, 100, 40, th, 1, 2),
        Prop("gs_mask", prop_gs_mask, 300, 3000, 100, 2, {4, 7}, 1, 1),
        Prop("ilu_mask", prop_ilu_mask, 300, 3000, 100, 2, {4, 7}, 1, 1),
    };
}

static std::vector<Enum> enums() {
    auto mk = [](const char *name, const char *prop, int threads) {
        Enum e; e.name = name; e.prop = prop; e.threads = threads;
        e.scope_quick = "all n x n off-diagonal sparsity patterns for n <= 4 (2^12 + 2^6 + 2^2 + 1 patterns)";
        e.scope_thorough = "all n x n off-diagonal sparsity patterns for n <= 5 (2^20 + 2^12 + ... patterns)";
        e.gen = [](const std::string &tier, const Emit &emit) {
            int nmax = tier == "thorough" ? 5 : 4;
            for (int n = 1; n <= nmax; ++n) for (uint32_t m = 0; m < (1u << (n * (n - 1))); ++m) emit({static_cast<uint32_t>(n - 1), m});
        };
        return e;
    };
    auto mkd = [](const char *name, int threads) {
        Enum e; e.name = name; e.prop = "gs_mask"; e.threads = threads;
        e.scope_quick = "all n x n off-diagonal sparsity patterns x all sets of rows without a stored diagonal entry, n <= 3 (plus n = 4 with every 5th pattern)";
        e.scope_thorough = "all n x n off-diagonal sparsity patterns x all sets of rows without a stored diagonal entry, n <= 4";
        e.gen = [](const std::string &tier, const Emit &emit) {
            for (int n = 1; n <= 4; ++n) for (uint32_t m = 0; m < (1u << (n * (n - 1))); ++m) {
                if (n == 4 && tier != "thorough" && m % 5 != 0) continue;
                for (uint32_t d = 1; d < (1u << n); ++d) emit({static_cast<uint32_t>(n - 1), m, (2u << n) + d});
            }
        };
        return e;
    };
    return {mkd("gs_all_patterns_nodiag_t4", 4), mkd("gs_all_patterns_nodiag_t5", 5), mk("gs_all_patterns_t4", "gs_mask", 4), mk("gs_all_patterns_t5", "gs_mask", 5), mk("ilu_all_patterns_t4", "ilu_mask", 4), mk("ilu_all_patterns_t5", "ilu_mask", 5)};
}

VF_MAIN(props(), enums())
