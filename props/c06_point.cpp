// C06 — every relaxation sweep equals its mathematical definition: point smoothers
// (damped Jacobi, Gauss-Seidel serial + level-scheduled, SPAI-0, SPAI-1, Chebyshev).
//
// Observation: the public apply_pre / apply_post / apply of each relaxation class constructed directly as
// R(A, params, backend_params).  Oracle: dense long-double definitions built from the CSR arrays (c06_common.hpp):
//   Jacobi        x + omega D^-1 (f - A x),  apply = D^-1 f   (block diagonal inverse for block values)
//   Gauss-Seidel  pre: (D+L) x' = f - U x,  post: (D+U) x' = f - L x (dense solves with the block triangles),
//                 apply = forward then backward sweep from 0; parallel (>= 4 threads) bitwise equal to serial
//   SPAI-0/1      M := columns of apply(e_j); pattern; row-wise normal equations of min |e_i^T - m_i^T A|_2; sweep = x + M (f - A x)
//   Chebyshev     x + q(B) S (f - A x) with B = S A, S = I or D^-1, q(t) = (1 - p(t))/t, p(t) = T_d((d - t)/c)/T_d(d/c),
//                 d, c from the Gershgorin (reference) or power-iteration bound the code computes; on symmetric A also
//                 through the eigen-decomposition: the error component along v_i is multiplied by p(lambda_i)
// Every sweep check is done from random (f, x) and at the exact solution (fixed point).
// Tolerance: componentwise  c u s_i  with s = |x| + |M^-1| (|f| + |A||x| + |A||x'|)  (the quantities the sweep adds up), c = 8 (N + 8).
#include "c06_common.hpp"   // includes the builtin backend and the value types first
#include <amgcl/relaxation/damped_jacobi.hpp>
#include <amgcl/relaxation/gauss_seidel.hpp>
#include <amgcl/relaxation/spai0.hpp>
#include <amgcl/relaxation/spai1.hpp>
#include <amgcl/relaxation/chebyshev.hpp>

using namespace c06;
namespace ab = amgcl::backend;
namespace ar = amgcl::relaxation;

template <class V> using NV = ab::numa_vector<typename VT<V>::rhs>;
template <class V> NV<V> to_nv(const std::vector<typename VT<V>::rhs> &x) { NV<V> y(x.size()); for (size_t i = 0; i < x.size(); ++i) y[i] = x[i]; return y; }
template <class V> std::vector<typename VT<V>::rhs> from_nv(const NV<V> &x) { std::vector<typename VT<V>::rhs> y(x.size()); for (size_t i = 0; i < x.size(); ++i) y[i] = x[i]; return y; }

// one generated system with its dense image
template <class V>
struct Sys {
    typedef typename VT<V>::rhs R;
    Csr<V> A; MatInfo mi;
    std::shared_ptr<ab::crs<V>> a;
    Dense<cld> Ad; Dense<ld> Aabs;
    ptrdiff_t n = 0, N = 0; // block rows, scalar unknowns
    void finish() { a = to_crs<V>(A); Ad = expand(A); Aabs = absd(Ad); n = A.n; N = Ad.n; }
};

enum Which { PRE, POST };

template <class V, class Relax>
std::vector<typename VT<V>::rhs> sweep(const Relax &R, const Sys<V> &s, Which w, const std::vector<typename VT<V>::rhs> &f, const std::vector<typename VT<V>::rhs> &x) {
    NV<V> F = to_nv<V>(f), X = to_nv<V>(x), T(x.size());
    for (size_t i = 0; i < x.size(); ++i) T[i] = amgcl::math::constant<typename VT<V>::rhs>(777.0); // scratch content must not matter
    if (w == PRE) R.apply_pre(*s.a, F, X, T); else R.apply_post(*s.a, F, X, T);
    VF_REQUIRE(bitwise_equal(from_nv<V>(F), f), "the sweep modified the right-hand side");
    return from_nv<V>(X);
}
template <class V, class Relax>
std::vector<typename VT<V>::rhs> apply_of(const Relax &R, const Sys<V> &s, const std::vector<typename VT<V>::rhs> &f) {
    NV<V> F = to_nv<V>(f), X(f.size());
    for (size_t i = 0; i < f.size(); ++i) X[i] = amgcl::math::constant<typename VT<V>::rhs>(-555.0); // apply must overwrite, not accumulate
    R.apply(*s.a, F, X);
    return from_nv<V>(X);
}
// M^-1 := columns of apply(e_j)
template <class V, class Relax>
Dense<cld> apply_matrix(const Relax &R, const Sys<V> &s) {
    Dense<cld> M(s.N, s.N);
    for (ptrdiff_t j = 0; j < s.N; ++j) {
        std::vector<cld> c = expand<V>(apply_of<V>(R, s, unit_vector<V>(s.n, j)));
        for (ptrdiff_t i = 0; i < s.N; ++i) M(i, j) = c[i];
    }
    return M;
}

// x + Minv (f - A x) and the componentwise scale of its rounding error
struct RefSweep { std::vector<cld> x; std::vector<ld> scale; };
// the action of M^-1: a dense matrix (also used, in absolute value, for the error scale) and optionally a more accurate
// way to apply it (block substitution for the Gauss-Seidel triangles, whose explicit inverse can be ill-conditioned)
struct MinvOp {
    Dense<cld> M;
    std::function<std::vector<cld>(const std::vector<cld> &)> solve;
    // optional additional error scale (already divided by the constant c of the caller) for smoothers whose rounding error is
    // not governed by |M^-1| alone: Chebyshev passes a running first-order error bound of its recurrence here
    std::function<std::vector<ld>(const std::vector<cld> &f, const std::vector<cld> &x)> extra_scale;
    MinvOp() {}
    MinvOp(const Dense<cld> &m) : M(m) {}
    std::vector<cld> operator()(const std::vector<cld> &r) const { return solve ? solve(r) : matvec(M, r); }
};
inline RefSweep ref_sweep(const Dense<cld> &Ad, const Dense<ld> &Aabs, const MinvOp &Mop, const std::vector<cld> &f, const std::vector<cld> &x) {
    const Dense<cld> &Minv = Mop.M;
    std::vector<cld> r = sub(f, matvec(Ad, x));
    RefSweep o; o.x = add(x, Mop(r));
    std::vector<ld> t = addv(addv(absv(f), mulabs(Aabs, absv(x))), mulabs(Aabs, absv(o.x)));
    o.scale = addv(absv(x), mulabs(absd(Minv), t));
    if (Mop.extra_scale) o.scale = addv(o.scale, Mop.extra_scale(f, x));
    // a floor for components that vanish exactly
    ld fl = 0; for (auto v : o.scale) fl = std::max(fl, v);
    for (auto &v : o.scale) v = std::max(v, fl * 1e-3L);
    return o;
}

// the generic "definition" check of one relaxation object: pre / post sweeps from random data and at the exact solution
template <class V, class Relax>
void check_sweeps(Tape &t, Ctx &, const std::string &what, const Relax &R, const Sys<V> &s, const MinvOp &Mpre, const MinvOp &Mpost) {
    typedef typename VT<V>::rhs Rh;
    const ld c = 8 * (s.N + 8);
    std::vector<Rh> f = gen_vector<V>(t, s.n), x = gen_vector<V>(t, s.n);
    std::vector<cld> fd = expand<V>(f), xd = expand<V>(x);
    for (int w = 0; w < 2; ++w) {
        const MinvOp &Mi = w == 0 ? Mpre : Mpost;
        std::string tag = what + (w == 0 ? " apply_pre" : " apply_post");
        RefSweep rs = ref_sweep(s.Ad, s.Aabs, Mi, fd, xd);
        std::vector<Rh> got = sweep<V>(R, s, w == 0 ? PRE : POST, f, x);
        calib.see(tag, worst_ratio<V>(got, rs.x, rs.scale) / static_cast<double>(c));
        require_close<V>(got, rs.x, rs.scale, c, tag + " from random (f, x) vs x + M^-1 (f - A x)");
        // fixed point: f := A x* (rounded once), sweep from x*
        std::vector<Rh> xs = gen_vector<V>(t, s.n, 2 + static_cast<int>(t.u(0, 1)));
        std::vector<cld> xsd = expand<V>(xs);
        std::vector<Rh> fs = pack<V>(matvec(s.Ad, xsd));
        RefSweep rf = ref_sweep(s.Ad, s.Aabs, Mi, expand<V>(fs), xsd);
        std::vector<Rh> g2 = sweep<V>(R, s, w == 0 ? PRE : POST, fs, xs);
        require_close<V>(g2, rf.x, rf.scale, c, tag + " at the exact solution vs reference");
        require_close<V>(g2, xsd, rf.scale, c + 4, tag + ": the exact solution is not a fixed point");
    }
}

template <class V>
Sys<V> gen_sys(Tape &t, Ctx &ctx, int nmax, bool dominant, const std::string &what) {
    Sys<V> s;
    s.A = gen_matrix<V>(t, nmax / VT<V>::B, dominant, s.mi);
    s.finish();
    ctx.desc << what << " " << describe_matrix(s.A, s.mi) << " threads=" << ctx.threads;
    label_matrix(ctx, s.A, s.mi);
    ctx.nontrivial = s.mi.offdiag_rows >= 2;
    return s;
}

// inverse of the (block) diagonal
template <class V>
Dense<cld> diag_inverse(const Sys<V> &s) {
    const int B = VT<V>::B;
    Dense<cld> Di(s.N, s.N);
    for (ptrdiff_t i = 0; i < s.n; ++i) {
        Dense<cld> blk(B, B), inv;
        for (int a = 0; a < B; ++a) for (int b = 0; b < B; ++b) blk(a, b) = s.Ad(i * B + a, i * B + b);
        bool ok = invert(blk, inv);
        VF_REQUIRE(ok, "harness: singular diagonal block generated");
        for (int a = 0; a < B; ++a) for (int b = 0; b < B; ++b) Di(i * B + a, i * B + b) = inv(a, b);
    }
    return Di;
}

// ================================================================= damped Jacobi
template <class V>
void prop_jacobi(Tape &t, Ctx &ctx) {
    typedef ab::builtin<V> B;
    Sys<V> s = gen_sys<V>(t, ctx, 60, t.b(), "damped_jacobi");
    double omega = t.chance(1, 4) ? 0.72 : t.uni(0.05, 1.6);
    ctx.desc << " damping=" << omega << " A=" << dump_small(s.A, 5);
    typename ar::damped_jacobi<B>::params prm; prm.damping = omega;
    ar::damped_jacobi<B> R(*s.a, prm, typename B::params());
    Dense<cld> Di = diag_inverse(s), M = Di;
    for (auto &v : M.a) v *= cld(omega, 0);
    check_sweeps<V>(t, ctx, "damped_jacobi", R, s, M, M);
    // apply() is the undamped diagonal solve
    Dense<cld> Ma = apply_matrix<V>(R, s);
    for (ptrdiff_t i = 0; i < s.N; ++i) for (ptrdiff_t j = 0; j < s.N; ++j)
        VF_REQUIRE(std::abs(Ma(i, j) - Di(i, j)) <= 16 * U * std::abs(Di(i, j)) + (Di(i, j) == cld() ? 0 : 0),
                   "damped_jacobi apply(e_" << j << ")[" << i << "] = " << static_cast<double>(Ma(i, j).real()) << " expected D^-1 entry " << static_cast<double>(Di(i, j).real()));
}

// ================================================================= Gauss-Seidel
template <class V>
Dense<cld> block_triangle(const Sys<V> &s, bool lower) { // D + L (lower) or D + U, in block terms
    const int B = VT<V>::B;
    Dense<cld> T(s.N, s.N);
    for (ptrdiff_t i = 0; i < s.N; ++i) for (ptrdiff_t j = 0; j < s.N; ++j) {
        ptrdiff_t bi = i / B, bj = j / B;
        if (bi == bj || (lower ? bj < bi : bj > bi)) T(i, j) = s.Ad(i, j);
    }
    return T;
}

template <class V>
void prop_gs(Tape &t, Ctx &ctx) {
    typedef ab::builtin<V> B; typedef typename VT<V>::rhs Rh;
    // with >= 4 threads (level-scheduled sweep) the cases are kept smaller: every level costs an OpenMP barrier
    const bool par = ctx.threads >= 4;
    Sys<V> s = gen_sys<V>(t, ctx, par ? 30 : 60, t.b(), "gauss_seidel");
    ctx.desc << " A=" << dump_small(s.A, 5);
    typename ar::gauss_seidel<B>::params ps; ps.serial = true;
    typename ar::gauss_seidel<B>::params pp; pp.serial = false;
    ar::gauss_seidel<B> Rs(*s.a, ps, typename B::params());
    ar::gauss_seidel<B> Rp(*s.a, pp, typename B::params());
    VF_REQUIRE(Rs.is_serial, "params.serial = true did not select the serial sweep");
    VF_REQUIRE(Rp.is_serial == (ctx.threads < 4), "parallel sweep selection: is_serial=" << Rp.is_serial << " with " << ctx.threads << " threads");
    ctx.label(Rp.is_serial ? "gs:serial-only" : "gs:level-scheduled");
    Dense<cld> Ml, Mu;
    bool ok = invert(block_triangle(s, true), Ml) && invert(block_triangle(s, false), Mu);
    VF_REQUIRE(ok, "harness: singular triangle");
    // reference sweeps by block substitution in long double (componentwise accurate whatever the growth)
    Dense<cld> Di = diag_inverse(s);
    const int Bs = VT<V>::B;
    auto subst = [&s, Di, Bs](bool lower) {
        return [&s, Di, Bs, lower](const std::vector<cld> &r) {
            std::vector<cld> y(s.N, cld());
            for (ptrdiff_t k = 0; k < s.n; ++k) {
                ptrdiff_t i = lower ? k : s.n - 1 - k;
                std::vector<cld> acc(Bs);
                for (int a = 0; a < Bs; ++a) {
                    cld v = r[i * Bs + a];
                    for (ptrdiff_t j = 0; j < s.N; ++j) { ptrdiff_t bj = j / Bs; if (lower ? bj < i : bj > i) v -= s.Ad(i * Bs + a, j) * y[j]; }
                    acc[a] = v;
                }
                for (int a = 0; a < Bs; ++a) { cld v = 0; for (int b = 0; b < Bs; ++b) v += Di(i * Bs + a, i * Bs + b) * acc[b]; y[i * Bs + a] = v; }
            }
            return y;
        };
    };
    MinvOp Ol(Ml), Ou(Mu); Ol.solve = subst(true); Ou.solve = subst(false);
    if (par) check_sweeps<V>(t, ctx, "gauss_seidel(level-scheduled)", Rp, s, Ol, Ou);
    else check_sweeps<V>(t, ctx, "gauss_seidel(serial)", Rs, s, Ol, Ou);
    // apply = forward sweep from zero followed by a backward sweep
    {
        std::vector<Rh> f = gen_vector<V>(t, s.n);
        std::vector<cld> fd = expand<V>(f);
        std::vector<cld> x1 = Ol(fd);
        RefSweep r2 = ref_sweep(s.Ad, s.Aabs, Ou, fd, x1);
        std::vector<ld> sc = addv(r2.scale, mulabs(absd(Ml), absv(fd)));
        require_close<V>(par ? apply_of<V>(Rp, s, f) : apply_of<V>(Rs, s, f), r2.x, sc, 16 * (s.N + 8), "gauss_seidel apply (forward then backward sweep from 0)");
    }
    // level-scheduled sweeps: bitwise equal to the serial ones (same operations per row, dependencies respected)
    for (int rep = 0; rep < (par ? 2 : 1); ++rep) {
        std::vector<Rh> f = gen_vector<V>(t, s.n), x = gen_vector<V>(t, s.n);
        for (int w = 0; w < 2; ++w) {
            std::vector<Rh> a1 = sweep<V>(Rs, s, w ? POST : PRE, f, x), a2 = sweep<V>(Rp, s, w ? POST : PRE, f, x);
            VF_REQUIRE(bitwise_equal(a1, a2), "gauss_seidel " << (w ? "backward" : "forward") << " sweep with " << ctx.threads << " threads differs from the serial sweep");
        }
        VF_REQUIRE(bitwise_equal(apply_of<V>(Rs, s, f), apply_of<V>(Rp, s, f)), "gauss_seidel apply with " << ctx.threads << " threads differs from the serial one");
    }
}

// ================================================================= SPAI-0
template <class V>
void prop_spai0(Tape &t, Ctx &ctx) {
    typedef ab::builtin<V> B;
    Sys<V> s = gen_sys<V>(t, ctx, 60, t.b(), "spai0");
    ctx.desc << " A=" << dump_small(s.A, 5);
    ar::spai0<B> R(*s.a, typename ar::spai0<B>::params(), typename B::params());
    Dense<cld> M = apply_matrix<V>(R, s);
    const int Bs = VT<V>::B;
    for (ptrdiff_t i = 0; i < s.N; ++i) for (ptrdiff_t j = 0; j < s.N; ++j)
        if (i / Bs != j / Bs) VF_REQUIRE(M(i, j) == cld(), "spai0: apply(e_" << j << ") has a non-zero outside the (block) diagonal at " << i);
    check_sweeps<V>(t, ctx, "spai0", R, s, M, M);
    if (Bs == 1) {
        // the least-squares minimiser of |e_i^T - m a_i^T|_2 over scalars m:  m = conj(a_ii) / sum_j |a_ij|^2
        for (ptrdiff_t i = 0; i < s.N; ++i) {
            ld den = 0; for (ptrdiff_t j = 0; j < s.N; ++j) den += std::norm(s.Ad(i, j));
            cld m = std::conj(s.Ad(i, i)) / den;
            // normal-equation residual  conj(a_i) . (m a_i - e_i)
            cld g = M(i, i) * den - std::conj(s.Ad(i, i));
            VF_REQUIRE(std::abs(g) <= 16 * (s.N + 8) * U * (std::abs(M(i, i)) * den + std::abs(s.Ad(i, i))),
                       "spai0 row " << i << ": m = (" << static_cast<double>(M(i, i).real()) << "," << static_cast<double>(M(i, i).imag()) << ") is not the least-squares minimiser ("
                                    << static_cast<double>(m.real()) << "," << static_cast<double>(m.imag()) << "); normal-equation residual " << static_cast<double>(std::abs(g)));
        }
    }
}

// block values: the minimiser of |E_i - M_i A_i|_F over all b x b blocks M_i is  a_ii^H (sum_j a_ij a_ij^H)^-1
static void prop_spai0_ls_block(Tape &t, Ctx &ctx) {
    typedef blk2 V; typedef ab::builtin<V> B;
    Sys<V> s = gen_sys<V>(t, ctx, 40, true, "spai0 block least squares");
    ctx.desc << " A=" << dump_small(s.A, 3);
    if (ctx.known("F-spai0-block-not-ls")) return;
    ar::spai0<B> R(*s.a, typename ar::spai0<B>::params(), typename B::params());
    Dense<cld> M = apply_matrix<V>(R, s);
    for (ptrdiff_t i = 0; i < s.n; ++i) {
        // normal equations  (M_i A_i - E_i) A_i^H = 0  with A_i the block row (2 x N)
        for (int a = 0; a < 2; ++a) for (int b = 0; b < 2; ++b) {
            cld g = 0; ld sc = 0;
            for (ptrdiff_t j = 0; j < s.N; ++j) {
                cld ma = M(2 * i + a, 2 * i) * s.Ad(2 * i, j) + M(2 * i + a, 2 * i + 1) * s.Ad(2 * i + 1, j) - cld(j == 2 * i + a ? 1 : 0, 0);
                g += ma * std::conj(s.Ad(2 * i + b, j));
                sc += (std::abs(M(2 * i + a, 2 * i)) * std::abs(s.Ad(2 * i, j)) + std::abs(M(2 * i + a, 2 * i + 1)) * std::abs(s.Ad(2 * i + 1, j)) + (j == 2 * i + a ? 1 : 0)) * std::abs(s.Ad(2 * i + b, j));
            }
            VF_REQUIRE(std::abs(g) <= 16 * (s.N + 8) * U * sc, "spai0<2x2 blocks> block row " << i << ": normal-equation residual (" << a << "," << b << ") = " << static_cast<double>(std::abs(g))
                       << " (scale " << static_cast<double>(sc) << "): M_i is not the Frobenius-norm minimiser on the block diagonal");
        }
    }
}

// ================================================================= SPAI-1
template <class V>
void prop_spai1(Tape &t, Ctx &ctx) {
    typedef ab::builtin<V> B;
    Sys<V> s = gen_sys<V>(t, ctx, 60, true, "spai1");
    ctx.desc << " A=" << dump_small(s.A, 5);
    ar::spai1<B> R(*s.a, typename ar::spai1<B>::params(), typename B::params());
    Dense<cld> M = apply_matrix<V>(R, s);
    Dense<int> P = block_pattern(s.A);
    for (ptrdiff_t i = 0; i < s.N; ++i) for (ptrdiff_t j = 0; j < s.N; ++j)
        if (!P(i, j)) VF_REQUIRE(M(i, j) == cld(), "spai1: M(" << i << "," << j << ") non-zero outside the pattern of A");
    check_sweeps<V>(t, ctx, "spai1", R, s, M, M);
    // row i: m minimises | A_I^T m - e_i |_2 over the entries I = pattern of row i  <=>  conj(A_I) (A_I^T m - e_i) = 0
    double worst = 0;
    for (ptrdiff_t i = 0; i < s.N; ++i) {
        std::vector<cld> res(s.N, cld()); std::vector<ld> rs(s.N, 0);
        for (ptrdiff_t q = 0; q < s.N; ++q) {
            cld v = cld(q == i ? -1 : 0, 0); ld a = q == i ? 1 : 0;
            for (ptrdiff_t p = 0; p < s.N; ++p) if (P(i, p)) { v += s.Ad(p, q) * M(i, p); a += std::abs(s.Ad(p, q)) * std::abs(M(i, p)); }
            res[q] = v; rs[q] = a;
        }
        for (ptrdiff_t p = 0; p < s.N; ++p) if (P(i, p)) {
            cld g = 0; ld sc = 0;
            for (ptrdiff_t q = 0; q < s.N; ++q) { g += std::conj(s.Ad(p, q)) * res[q]; sc += std::abs(s.Ad(p, q)) * rs[q]; }
            if (sc > 0) worst = std::max(worst, static_cast<double>(std::abs(g) / (U * sc)));
            VF_REQUIRE(std::abs(g) <= 64 * (s.N + 8) * U * sc, "spai1 row " << i << ": normal-equation residual for pattern entry " << p << " is " << static_cast<double>(std::abs(g))
                       << " (scale " << static_cast<double>(sc) << "): the row is not the least-squares minimiser on the pattern of A");
        }
    }
    calib.see("spai1 normal equations / (u scale)", worst);
}

// ================================================================= Chebyshev
// T_d(y) for real y by the closed forms (independent of any three-term recurrence)
static ld cheb_T(int d, ld y) {
    if (std::abs(y) <= 1) return std::cos(d * std::acos(y));
    ld v = std::cosh(d * std::acosh(std::abs(y)));
    return (y < 0 && (d & 1)) ? -v : v;
}

template <class V>
void prop_cheb(Tape &t, Ctx &ctx) {
    typedef ab::builtin<V> B; typedef typename VT<V>::rhs Rh;
    bool symmetric = VT<V>::B == 1 && !VT<V>::complex && t.b(); // symmetric real: additionally checked through the eigen-decomposition
    Sys<V> s;
    if (symmetric) {
        Graph g = gen_graph(t, 40);
        Csr<double> Ad = gen_mmat(t, g, 100.0, true);
        s.A.n = s.A.m = Ad.n; s.A.ptr = Ad.ptr; s.A.col = Ad.col; s.A.val.resize(Ad.val.size());
        for (size_t i = 0; i < Ad.val.size(); ++i) VT<V>::set(s.A.val[i], 0, 0, cld(Ad.val[i], 0));
        s.mi.family = g.family + "/spd"; s.mi.n = g.n; s.mi.offdiag_rows = static_cast<long>(g.edges.size());
        s.finish();
        ctx.desc << "chebyshev " << describe_matrix(s.A, s.mi) << " threads=" << ctx.threads;
        label_matrix(ctx, s.A, s.mi);
        ctx.nontrivial = g.edges.size() >= 2;
    } else s = gen_sys<V>(t, ctx, 40, t.b(), "chebyshev");
    typename ar::chebyshev<B>::params prm;
    prm.degree = static_cast<unsigned>(t.u(1, 6));
    prm.lower = t.chance(1, 3) ? 1.0f / 30 : static_cast<float>(t.uni(0.02, 0.9));
    prm.higher = t.chance(1, 2) ? 1.0f : static_cast<float>(t.uni(1.0, 1.3));
    prm.power_iters = t.chance(1, 3) ? static_cast<int>(t.u(1, 12)) : 0;
    prm.scale = t.b();
    ctx.desc << " degree=" << prm.degree << " lower=" << prm.lower << " higher=" << prm.higher << " power_iters=" << prm.power_iters << " scale=" << prm.scale << " A=" << dump_small(s.A, 5);
    ctx.label(prm.power_iters ? "cheb:power" : "cheb:gershgorin");
    ctx.label(prm.scale ? "cheb:scaled" : "cheb:unscaled");
    ctx.label("cheb:degree=" + std::to_string(prm.degree));
    ar::chebyshev<B> R(*s.a, prm, typename B::params());
    const int Bs = VT<V>::B;
    // spectrum bound the code is documented to use
    ld hi;
    Dense<cld> Di = diag_inverse(s);
    if (prm.power_iters == 0) {
        // Gershgorin: max_i sum_j |a_ij| (block: Frobenius norms), scaled: times |a_ii^-1|
        hi = 0;
        for (ptrdiff_t i = 0; i < s.n; ++i) {
            ld sum = 0;
            for (ptrdiff_t j = s.A.ptr[i]; j < s.A.ptr[i + 1]; ++j) { ld q = 0; for (int a = 0; a < Bs; ++a) for (int b = 0; b < Bs; ++b) q += std::norm(VT<V>::at(s.A.val[j], a, b)); sum += std::sqrt(q); }
            if (prm.scale) { ld q = 0; for (int a = 0; a < Bs; ++a) for (int b = 0; b < Bs; ++b) q += std::norm(Di(i * Bs + a, i * Bs + b)); sum *= std::sqrt(q); }
            hi = std::max(hi, sum);
        }
    } else {
        // the power iteration starts from a seeded random vector: take the library's own estimate (its bounds are the subject of C08)
        hi = prm.scale ? ab::spectral_radius<true>(*s.a, prm.power_iters) : ab::spectral_radius<false>(*s.a, prm.power_iters);
        if (!(hi > 0) || !(hi < 1e300)) { ctx.label("cheb:power-estimate-degenerate"); ctx.nontrivial = false; return; } // nilpotent-like matrix: estimate undefined (C08)
    }
    ld lo = hi * static_cast<ld>(prm.lower);
    hi *= static_cast<ld>(prm.higher);
    ld dd = 0.5L * (hi + lo), cc = 0.5L * (hi - lo);
    // B = S A and q_d(B) by the matrix recurrence derived from p(t) = T_d((dd - t)/cc)/T_d(dd/cc):
    //   E_k := T_k(dd/cc) I - T_k(Y) = Q_k B,  Y = (dd I - B)/cc;   Q_0 = 0, Q_1 = I/cc, Q_{k+1} = 2 T_k(dd/cc)/cc I + 2 Y Q_k - Q_{k-1}
    Dense<cld> Bm = prm.scale ? matmul(Di, s.Ad) : s.Ad;
    Dense<cld> Y(s.N, s.N);
    for (ptrdiff_t i = 0; i < s.N; ++i) for (ptrdiff_t j = 0; j < s.N; ++j) Y(i, j) = (cld(i == j ? dd : 0, 0) - Bm(i, j)) / cld(cc, 0);
    int deg = static_cast<int>(prm.degree);
    std::vector<ld> T(deg + 1); T[0] = 1; if (deg >= 1) T[1] = dd / cc; for (int k = 1; k < deg; ++k) T[k + 1] = 2 * (dd / cc) * T[k] - T[k - 1];
    Dense<cld> Q0(s.N, s.N), Q1 = identity(s.N);
    for (auto &v : Q1.a) v /= cld(cc, 0);
    for (int k = 1; k < deg; ++k) {
        Dense<cld> YQ = matmul(Y, Q1), Q2(s.N, s.N);
        for (ptrdiff_t i = 0; i < s.N; ++i) for (ptrdiff_t j = 0; j < s.N; ++j) Q2(i, j) = cld(i == j ? 2 * T[k] / cc : 0, 0) + cld(2, 0) * YQ(i, j) - Q0(i, j);
        Q0 = Q1; Q1 = Q2;
    }
    Dense<cld> Minv = Q1;
    for (auto &v : Minv.a) v /= cld(T[deg], 0);
    if (prm.scale) Minv = matmul(Minv, Di);
    // the closed form of T_d agrees with the recurrence used above (guards the reference itself)
    VF_REQUIRE(std::abs(cheb_T(deg, dd / cc) - T[deg]) <= 1e-12L * std::abs(T[deg]), "harness: Chebyshev reference inconsistent");
    // Rounding allowance of the recurrence.  The sweep is  for k < degree: r = S (f - A x); p = alpha_k r + beta_k p; x += p  with
    // alpha_0 = 1/d, alpha_1 = 2d/(2d^2 - c^2), alpha_k = 1/(d - alpha_{k-1} c^2/4), beta_k = alpha_k d - 1.  An error committed in
    // step k is carried through the remaining steps by the recurrence itself, so the allowance cannot be expressed by |M^-1| and the
    // data alone: it grows with the degree and with the coefficients (|beta_k| -> 1 when lower -> 1, large intermediate x_k when the
    // spectrum leaves [lo, hi]).  A running first-order bound in absolute values, evaluated on the long-double iterates, gives it:
    //   e_r = g (|f| + |A||x_k|) + |A| e_x            (g = longest row + 3 rounding errors per residual component)
    //   e_r = |S| e_r + (B + 1) |S||r|                (scaled variant; B = block size)
    //   e_p = |alpha_k| e_r + |beta_k| e_p + 8 (|alpha_k||r| + |beta_k||p|)    (two products, one sum, and the coefficients themselves
    //                                                  carry a few u: d and c come from a double-precision Gershgorin / power sum)
    //   e_x = e_x + e_p + |x_{k+1}|
    // and |x_computed - x_exact| <= 4 u e_x  (factor 4: second-order terms and the float -> double conversion of lower / higher).
    long rowmax = 0;
    for (ptrdiff_t i = 0; i < s.N; ++i) { long q = 0; for (ptrdiff_t j = 0; j < s.N; ++j) q += s.Ad(i, j) != cld(); rowmax = std::max(rowmax, q); }
    const ld g = static_cast<ld>(rowmax + 3), cref = 8 * (s.N + 8);
    Dense<ld> Dabs = absd(Di);
    const bool scaled = prm.scale;
    auto running_bound = [&s, Dabs, Di, g, cref, dd, cc, deg, scaled, Bs](const std::vector<cld> &f, const std::vector<cld> &x0) {
        std::vector<cld> x = x0, p(s.N, cld());
        std::vector<ld> ex(s.N, 0), ep(s.N, 0);
        ld alpha = 0, beta = 0;
        for (int k = 0; k < deg; ++k) {
            std::vector<cld> r = sub(f, matvec(s.Ad, x));
            std::vector<ld> er = mulabs(s.Aabs, ex), t0 = addv(absv(f), mulabs(s.Aabs, absv(x)));
            for (ptrdiff_t i = 0; i < s.N; ++i) er[i] += g * t0[i];
            if (scaled) {
                std::vector<ld> e2 = mulabs(Dabs, er), a2 = mulabs(Dabs, absv(r));
                for (ptrdiff_t i = 0; i < s.N; ++i) er[i] = e2[i] + (Bs + 1) * a2[i];
                r = matvec(Di, r);
            }
            if (k == 0) { alpha = 1 / dd; beta = 0; }
            else if (k == 1) { alpha = 2 * dd / (2 * dd * dd - cc * cc); beta = alpha * dd - 1; }
            else { alpha = 1 / (dd - 0.25L * alpha * cc * cc); beta = alpha * dd - 1; }
            for (ptrdiff_t i = 0; i < s.N; ++i) {
                ep[i] = std::abs(alpha) * er[i] + std::abs(beta) * ep[i] + 8 * (std::abs(alpha) * std::abs(r[i]) + std::abs(beta) * std::abs(p[i]));
                p[i] = cld(alpha, 0) * r[i] + cld(beta, 0) * p[i];
                x[i] += p[i];
                ex[i] += ep[i] + std::abs(x[i]);
            }
        }
        for (auto &v : ex) v *= 4 / cref; // the callers multiply every scale by their constant c >= cref
        return ex;
    };
    MinvOp Mop(Minv); Mop.extra_scale = running_bound;
    check_sweeps<V>(t, ctx, "chebyshev", R, s, Mop, Mop);
    // apply = one sweep from zero
    {
        std::vector<Rh> f = gen_vector<V>(t, s.n);
        std::vector<cld> fd = expand<V>(f), zero(s.N, cld());
        RefSweep r = ref_sweep(s.Ad, s.Aabs, Mop, fd, zero);
        std::vector<Rh> got = apply_of<V>(R, s, f);
        if (calib.on) { std::vector<ld> rb = running_bound(fd, zero); for (auto &v : rb) v *= cref / 4; calib.see("chebyshev apply err/(u running bound)", worst_ratio<V>(got, r.x, rb)); }
        require_close<V>(got, r.x, r.scale, 8 * (s.N + 8), "chebyshev apply (sweep from 0)");
    }
    if (symmetric && !prm.scale) {
        // eigen-decomposition A = V diag(lambda) V^T: one sweep multiplies the error component along v_i by p(lambda_i)
        Eigen::MatrixXd E(s.N, s.N);
        for (ptrdiff_t i = 0; i < s.N; ++i) for (ptrdiff_t j = 0; j < s.N; ++j) E(i, j) = static_cast<double>(s.Ad(i, j).real());
        Eigen::SelfAdjointEigenSolver<Eigen::MatrixXd> es(E);
        std::vector<Rh> xs = gen_vector<V>(t, s.n, 2), x0 = gen_vector<V>(t, s.n, 2);
        std::vector<cld> xsd = expand<V>(xs), x0d = expand<V>(x0);
        std::vector<Rh> fs = pack<V>(matvec(s.Ad, xsd));
        std::vector<Rh> x1 = sweep<V>(R, s, PRE, fs, x0);
        std::vector<cld> x1d = expand<V>(x1);
        ld enorm = 0, xnorm = 0; for (ptrdiff_t i = 0; i < s.N; ++i) { enorm += std::norm(x0d[i] - xsd[i]); xnorm += std::norm(xsd[i]); } enorm = std::sqrt(enorm); xnorm = std::sqrt(xnorm);
        ld pmax = 1;
        for (ptrdiff_t k = 0; k < s.N; ++k) pmax = std::max(pmax, std::abs(cheb_T(deg, (dd - static_cast<ld>(es.eigenvalues()(k))) / cc) / cheb_T(deg, dd / cc)));
        ld kap = std::abs(es.eigenvalues()(s.N - 1)) / std::max<ld>(1e-300L, std::abs(es.eigenvalues()(0)));
        for (ptrdiff_t k = 0; k < s.N; ++k) {
            ld lam = static_cast<ld>(es.eigenvalues()(k)), c0 = 0, c1 = 0;
            for (ptrdiff_t i = 0; i < s.N; ++i) { c0 += static_cast<ld>(es.eigenvectors()(i, k)) * (x0d[i] - xsd[i]).real(); c1 += static_cast<ld>(es.eigenvectors()(i, k)) * (x1d[i] - xsd[i]).real(); }
            ld p = cheb_T(deg, (dd - lam) / cc) / cheb_T(deg, dd / cc);
            // eigenvectors from Eigen are accurate to ~ N u / gap; the bound uses the whole error norm and the condition number (f = A x* is rounded once)
            VF_REQUIRE(std::abs(c1 - p * c0) <= 1e-10L * pmax * enorm + 64 * (s.N + 8) * U * std::max<ld>(1, kap) * pmax * (xnorm + enorm),
                       "chebyshev: error component along eigenvector " << k << " (lambda=" << static_cast<double>(lam) << ") went from " << static_cast<double>(c0) << " to " << static_cast<double>(c1)
                       << ", the degree-" << deg << " polynomial gives factor " << static_cast<double>(p));
        }
        ctx.label("cheb:eigen-decomposition");
    }
}

static std::vector<Prop> props() {
    return {
        Prop("jacobi_double", prop_jacobi<double>, 300, 3000, 100, 30, {1}, 1, 4),
        Prop("jacobi_complex", prop_jacobi<cplx>, 150, 1500, 100, 40, {1}, 1, 2),
        Prop("jacobi_blk2", prop_jacobi<blk2>, 150, 1500, 100, 60, {1}, 1, 2),
        Prop("gs_double", prop_gs<double>, 300, 3000, 100, 30, {1}, 1, 4),
        Prop("gs_complex", prop_gs<cplx>, 150, 1500, 100, 40, {1}, 1, 2),
        Prop("gs_blk2", prop_gs<blk2>, 150, 1500, 100, 60, {1}, 1, 2),
        // the same property under >= 4 threads: level-scheduled sweep vs definition and bitwise vs the serial sweep
        Prop("gs_par_double", prop_gs<double>, 80, 1500, 100, 30, {4, 5, 8}, 1, 2),
        Prop("gs_par_complex", prop_gs<cplx>, 40, 600, 100, 40, {4}, 1, 1),
        Prop("gs_par_blk2", prop_gs<blk2>, 40, 600, 100, 60, {5}, 1, 1),
        Prop("spai0_double", prop_spai0<double>, 300, 3000, 100, 30, {1}, 1, 4),
        Prop("spai0_complex", prop_spai0<cplx>, 200, 2000, 100, 40, {1}, 1, 2),
        Prop("spai0_blk2", prop_spai0<blk2>, 150, 1500, 100, 60, {1}, 1, 2),
        Prop("spai0_ls_blk2", prop_spai0_ls_block, 60, 600, 100, 60, {1}, 1, 1),
        Prop("spai1_double", prop_spai1<double>, 300, 3000, 100, 30, {1}, 1, 4),
        Prop("spai1_complex", prop_spai1<cplx>, 150, 1500, 100, 40, {1}, 1, 2),
        Prop("cheb_double", prop_cheb<double>, 300, 3000, 100, 30, {1}, 1, 4),
        Prop("cheb_complex", prop_cheb<cplx>, 150, 1500, 100, 40, {1}, 1, 2),
        Prop("cheb_blk2", prop_cheb<blk2>, 150, 1500, 100, 60, {1}, 1, 2),
    };
}
static std::vector<Enum> enums() { return {}; }
VF_MAIN(props(), enums())
