// C04 — reference computations and checks shared by the C04 harness TUs.
//
// Everything here is recomputed from the CSR arrays of the input matrix in long double, independently of
// amgcl's kernels.  The only amgcl entities used as sub-oracles are named where they are used
// (plain_aggregates on the harness-built pointwise matrix; spectral_radius for power_iters>0; both are
// themselves checked, here and in C08).
#pragma once
#include <algorithm>
#include <cmath>
#include <map>
#include <set>
#include <string>
#include <tuple>
#include <vector>
#include <amgcl/backend/builtin.hpp>
#include <amgcl/coarsening/plain_aggregates.hpp>
#include <amgcl/coarsening/pointwise_aggregates.hpp>
#include <amgcl/coarsening/aggregation.hpp>
#include <amgcl/coarsening/smoothed_aggregation.hpp>
#include <amgcl/coarsening/smoothed_aggr_emin.hpp>
#include <amgcl/coarsening/ruge_stuben.hpp>
#include "../common/harness.hpp"
#include "../common/gen.hpp"
#include "../common/dense.hpp"
#include "../common/amgcl_util.hpp"
#include "c03_c04_matgen.hpp"

namespace c04 {
using namespace vf;
typedef amgcl::backend::builtin<double> Backend;
typedef amgcl::backend::crs<double> Mat;
typedef long double ld;
static const ld U = 1.1102230246251565404e-16L; // 2^-53

typedef std::map<ptrdiff_t, ld> LRow;
typedef std::vector<LRow> LMat;

inline LMat lmat(const Csr<double> &A) {
    LMat M(A.n);
    for (ptrdiff_t i = 0; i < A.n; ++i) for (ptrdiff_t j = A.ptr[i]; j < A.ptr[i + 1]; ++j) M[i][A.col[j]] += A.val[j];
    return M;
}

inline void require_unique_cols(const Csr<double> &P, const std::string &what) {
    for (ptrdiff_t i = 0; i < P.n; ++i) {
        std::set<ptrdiff_t> S;
        for (ptrdiff_t j = P.ptr[i]; j < P.ptr[i + 1]; ++j) {
            VF_REQUIRE(P.col[j] >= 0 && P.col[j] < P.m, what << ": column " << P.col[j] << " out of range [0," << P.m << ") in row " << i);
            VF_REQUIRE(S.insert(P.col[j]).second, what << ": duplicate column " << P.col[j] << " in row " << i);
        }
    }
}

// R must be the adjoint (= transpose for real values) of P, entry for entry, bitwise
inline void require_transpose(const Csr<double> &P, const Csr<double> &R, const std::string &what) {
    VF_REQUIRE(R.n == P.m && R.m == P.n, what << ": R is " << R.n << "x" << R.m << ", P is " << P.n << "x" << P.m);
    VF_REQUIRE(R.nnz() == P.nnz(), what << ": nnz(R)=" << R.nnz() << " nnz(P)=" << P.nnz());
    std::vector<std::map<ptrdiff_t, double>> pt(P.m);
    for (ptrdiff_t i = 0; i < P.n; ++i) for (ptrdiff_t j = P.ptr[i]; j < P.ptr[i + 1]; ++j) pt[P.col[j]][i] = P.val[j];
    for (ptrdiff_t i = 0; i < R.n; ++i) for (ptrdiff_t j = R.ptr[i]; j < R.ptr[i + 1]; ++j) {
        auto it = pt[i].find(R.col[j]);
        VF_REQUIRE(it != pt[i].end(), what << ": R(" << i << "," << R.col[j] << ") has no counterpart in P");
        VF_REQUIRE(std::memcmp(&it->second, &R.val[j], sizeof(double)) == 0, what << ": R(" << i << "," << R.col[j] << ")=" << R.val[j] << " but P(" << R.col[j] << "," << i << ")=" << it->second);
    }
}

// ---------------------------------------------------------------------------------------------------------
// strength of connection: a_ij is strong iff i != j and a_ij^2 > eps^2 * a_ii * a_jj   (strict)
// `exact`: all values and eps^2 are exactly representable and small, so the comparison itself is exact and a tie
// (equality) must come out "weak".  Otherwise entries within a relative 2^-22 of the threshold may go either way
// (eps is a float; squaring it in float or in double moves the threshold by 2^-24 relative).
struct StrengthStats { long strong = 0, weak = 0, ties = 0, boundary = 0; };

inline std::vector<char> check_strength(const Csr<double> &A, float eps, bool exact, const std::vector<char> &lib, const std::string &what, StrengthStats &st) {
    VF_REQUIRE(static_cast<ptrdiff_t>(lib.size()) == A.nnz(), what << ": strong_connection has " << lib.size() << " flags for " << A.nnz() << " non-zeros");
    std::vector<ld> dia(A.n, 0);
    for (ptrdiff_t i = 0; i < A.n; ++i) for (ptrdiff_t j = A.ptr[i]; j < A.ptr[i + 1]; ++j) if (A.col[j] == i) dia[i] = A.val[j];
    ld e2 = static_cast<ld>(eps) * static_cast<ld>(eps);
    std::vector<char> out(lib.size());
    for (ptrdiff_t i = 0; i < A.n; ++i) for (ptrdiff_t j = A.ptr[i]; j < A.ptr[i + 1]; ++j) {
        ptrdiff_t c = A.col[j];
        bool lf = lib[j] != 0;
        VF_REQUIRE(lib[j] == 0 || lib[j] == 1, what << ": flag value " << int(lib[j]));
        if (c == i) { VF_REQUIRE(!lf, what << ": diagonal entry of row " << i << " flagged strong"); out[j] = 0; ++st.weak; continue; }
        ld lhs = e2 * dia[i] * dia[c], rhs = static_cast<ld>(A.val[j]) * A.val[j];
        bool ref = rhs > lhs;
        bool tie = !exact && std::abs(lhs - rhs) <= std::ldexp(1.0L, -22) * std::max(std::abs(lhs), std::abs(rhs));
        if (exact && lhs == rhs) ++st.boundary;
        if (tie) { ++st.ties; out[j] = lf; }
        else {
            VF_REQUIRE(lf == ref, what << ": strong_connection of a(" << i << "," << c << ")=" << A.val[j] << " is " << lf << ", definition a_ij^2 > eps^2 a_ii a_jj gives " << ref
                       << " (eps=" << eps << " a_ii=" << static_cast<double>(dia[i]) << " a_jj=" << static_cast<double>(dia[c]) << ")");
            out[j] = ref;
        }
        if (out[j]) ++st.strong; else ++st.weak;
    }
    return out;
}

// ids: every id is negative or in [0,count); the non-negative ids are exactly 0..count-1 (every aggregate non-empty);
// id[i] >= 0  <=>  row i has a strong neighbour (only => when small aggregates may have been removed)
inline void check_partition(size_t count, const std::vector<ptrdiff_t> &id, const std::vector<char> &has_strong, bool iff, const std::string &what) {
    VF_REQUIRE(id.size() == has_strong.size(), what << ": id has " << id.size() << " entries for " << has_strong.size() << " rows");
    std::vector<char> seen(count, 0);
    for (size_t i = 0; i < id.size(); ++i) {
        if (id[i] >= 0) {
            VF_REQUIRE(static_cast<size_t>(id[i]) < count, what << ": id[" << i << "]=" << id[i] << " >= count=" << count);
            seen[id[i]] = 1;
            VF_REQUIRE(has_strong[i], what << ": variable " << i << " without a strong neighbour was put into aggregate " << id[i]);
        } else if (iff) {
            VF_REQUIRE(!has_strong[i], what << ": variable " << i << " has a strong neighbour but id=" << id[i]);
        }
    }
    for (size_t a = 0; a < count; ++a) VF_REQUIRE(seen[a], what << ": aggregate " << a << " of " << count << " is empty (ids not contiguous)");
}

// harness-built pointwise matrix: block (I,J) is present iff any stored entry falls into it, value = max |a|
inline Csr<double> ref_pointwise(const Csr<double> &K, int b) {
    ptrdiff_t np = K.n / b;
    std::vector<std::map<ptrdiff_t, double>> rows(np);
    for (ptrdiff_t i = 0; i < K.n; ++i) for (ptrdiff_t j = K.ptr[i]; j < K.ptr[i + 1]; ++j) {
        ptrdiff_t I = i / b, J = K.col[j] / b;
        auto it = rows[I].find(J);
        double a = std::abs(K.val[j]);
        if (it == rows[I].end()) rows[I][J] = a; else it->second = std::max(it->second, a);
    }
    return from_triplets<double>(np, K.m / b, rows);
}

struct Aggr {
    bool empty = false;          // the library signalled error::empty_level
    size_t count = 0;
    std::vector<ptrdiff_t> id;
    std::vector<char> strong;    // validated flags (library's value on near-ties)
    long removed = 0, naggr_nodes = 0, small_removed = 0;
    bool all_small = false;      // empty because every aggregate was smaller than min_aggregate
    StrengthStats st;
};

// Full check of plain_aggregates on the pointwise matrix and of pointwise_aggregates(K, eps, b, min_aggregate).
inline Aggr check_aggregates(const Csr<double> &K, float eps, int b, unsigned min_aggregate, bool exact, const std::string &what) {
    namespace co = amgcl::coarsening;
    Aggr out;
    VF_REQUIRE(K.n % b == 0, "harness: size not divisible by block size");
    Csr<double> Ap = b == 1 ? K : ref_pointwise(K, b);
    ptrdiff_t np = Ap.n;
    auto ap = to_crs<double>(Ap);
    co::plain_aggregates::params pprm; pprm.eps_strong = eps;
    // ---- plain aggregates on the pointwise matrix
    bool plain_empty = false;
    std::vector<ptrdiff_t> pid; std::vector<char> pstrong; size_t pcount = 0;
    try {
        co::plain_aggregates pa(*ap, pprm);
        pid = pa.id; pcount = pa.count;
        StrengthStats st;
        pstrong = check_strength(Ap, eps, exact, pa.strong_connection, what + " plain_aggregates", st);
        out.st = st;
        std::vector<char> has(np, 0);
        for (ptrdiff_t i = 0; i < np; ++i) for (ptrdiff_t j = Ap.ptr[i]; j < Ap.ptr[i + 1]; ++j) if (pstrong[j]) has[i] = 1;
        VF_REQUIRE(pcount > 0, what << " plain_aggregates: returned count=0 without signalling an empty level");
        check_partition(pcount, pid, has, true, what + " plain_aggregates");
        for (ptrdiff_t i = 0; i < np; ++i) VF_REQUIRE(pid[i] >= 0 || pid[i] == co::plain_aggregates::removed, what << " plain_aggregates: id[" << i << "]=" << pid[i] << " is neither an aggregate nor 'removed'");
    } catch (const amgcl::error::empty_level &) {
        plain_empty = true;
        // legitimate only when no entry at all is strong by the definition (near-ties: could go either way)
        std::vector<char> none(Ap.nnz(), 0);
        StrengthStats st;
        check_strength(Ap, eps, exact, none, what + " plain_aggregates(empty level)", st);
        out.st = st;
    }
    // ---- expected pointwise result
    std::vector<ptrdiff_t> eid(K.n, -1); size_t ecount = 0;
    if (!plain_empty) {
        std::vector<ptrdiff_t> sz(pcount, 0), renum(pcount, -1);
        for (ptrdiff_t i = 0; i < np; ++i) if (pid[i] >= 0) ++sz[pid[i]];
        size_t m = 0;
        for (size_t a = 0; a < pcount; ++a) {
            if (min_aggregate > 1 && static_cast<size_t>(b) * sz[a] < min_aggregate) { renum[a] = -1; out.small_removed += sz[a]; }
            else renum[a] = static_cast<ptrdiff_t>(m++);
        }
        ecount = m * b;
        for (ptrdiff_t ip = 0; ip < np; ++ip) for (int k = 0; k < b; ++k) {
            ptrdiff_t a = pid[ip] >= 0 ? renum[pid[ip]] : -1;
            eid[ip * b + k] = a >= 0 ? a * b + k : -1;
        }
    }
    // ---- the class under test
    auto kc = to_crs<double>(K);
    co::pointwise_aggregates::params prm; prm.eps_strong = eps; prm.block_size = static_cast<unsigned>(b);
    try {
        co::pointwise_aggregates pw(*kc, prm, min_aggregate);
        VF_REQUIRE(!plain_empty, what << " pointwise_aggregates: built aggregates although plain aggregation of the pointwise matrix has no strong connection");
        // every aggregate smaller than min_aggregate: nothing is left to coarsen, which must be signalled as an empty level
        // (a zero-column prolongation made amg build a 0x0 coarse level and crash in the direct solver; fixed in /repo by ef9207a)
        VF_REQUIRE(ecount > 0, what << " pointwise_aggregates: all " << pcount << " aggregates are smaller than min_aggregate=" << min_aggregate << " and were removed, but count=" << pw.count << " was returned instead of signalling an empty level");
        VF_REQUIRE(pw.count == ecount, what << " pointwise_aggregates: count=" << pw.count << " expected " << ecount << " (block_size*" << ecount / b << ")");
        VF_REQUIRE(static_cast<ptrdiff_t>(pw.id.size()) == K.n, what << " pointwise_aggregates: id size");
        VF_REQUIRE(static_cast<ptrdiff_t>(pw.strong_connection.size()) == K.nnz(), what << " pointwise_aggregates: strong_connection size");
        for (ptrdiff_t i = 0; i < K.n; ++i) {
            if (eid[i] >= 0) VF_REQUIRE(pw.id[i] == eid[i], what << " pointwise_aggregates: id[" << i << "]=" << pw.id[i] << " expected " << eid[i] << " (block_size*id_point+k)");
            else VF_REQUIRE(pw.id[i] < 0, what << " pointwise_aggregates: id[" << i << "]=" << pw.id[i] << " for a variable whose grid node is not aggregated");
        }
        // block unknowns travel together: same floor(id/b), id%b == k
        for (ptrdiff_t ip = 0; ip < np; ++ip) {
            bool in = pw.id[ip * b] >= 0;
            for (int k = 0; k < b; ++k) {
                ptrdiff_t v = pw.id[ip * b + k];
                VF_REQUIRE((v >= 0) == in, what << " pointwise_aggregates: unknowns of node " << ip << " are split between aggregated and not aggregated");
                if (in) VF_REQUIRE(v / b == pw.id[ip * b] / b && v % b == k, what << " pointwise_aggregates: unknown " << k << " of node " << ip << " has id " << v << ", unknown 0 has " << pw.id[ip * b]);
            }
        }
        // flags: entry of block (ip,cp) is strong iff (cp==ip or the point connection is strong) and it is not the scalar diagonal
        std::vector<std::map<ptrdiff_t, char>> ps(np);
        for (ptrdiff_t i = 0; i < np; ++i) for (ptrdiff_t j = Ap.ptr[i]; j < Ap.ptr[i + 1]; ++j) ps[i][Ap.col[j]] = pstrong[j];
        out.strong.resize(K.nnz());
        // "has a strong neighbour" is a statement about grid nodes: every unknown of a node inherits it
        std::vector<char> has(K.n, 0);
        for (ptrdiff_t ip = 0; ip < np; ++ip) for (ptrdiff_t j = Ap.ptr[ip]; j < Ap.ptr[ip + 1]; ++j) if (pstrong[j]) for (int k = 0; k < b; ++k) has[ip * b + k] = 1;
        for (ptrdiff_t i = 0; i < K.n; ++i) for (ptrdiff_t j = K.ptr[i]; j < K.ptr[i + 1]; ++j) {
            ptrdiff_t ip = i / b, cp = K.col[j] / b;
            bool e = (cp == ip || ps[ip][cp]) && K.col[j] != i;
            VF_REQUIRE((pw.strong_connection[j] != 0) == e, what << " pointwise_aggregates: strong_connection of entry (" << i << "," << K.col[j] << ") is " << int(pw.strong_connection[j]) << " expected " << e
                       << " (point connection (" << ip << "," << cp << ") " << (cp == ip ? "diagonal block" : ps[ip][cp] ? "strong" : "weak") << ")");
            out.strong[j] = e;
        }
        check_partition(pw.count, pw.id, has, min_aggregate <= 1, what + " pointwise_aggregates");
        out.count = pw.count; out.id = pw.id;
        for (ptrdiff_t i = 0; i < K.n; ++i) if (pw.id[i] < 0) ++out.removed;
        out.naggr_nodes = K.n - out.removed;
    } catch (const amgcl::error::empty_level &) {
        VF_REQUIRE(plain_empty || ecount == 0, what << " pointwise_aggregates: signalled an empty level although the pointwise matrix has strong connections and " << ecount / b << " aggregates reach min_aggregate=" << min_aggregate);
        out.empty = true;
        if (!plain_empty) out.all_small = true;
    }
    return out;
}

// ---------------------------------------------------------------------------------------------------------
// Tentative prolongation.  P: n x (k>0 ? k*count/b : count).  id/count from the (checked) aggregates.
// k == 0: one unit entry per aggregated row in column id[i]; constant reproduced on aggregated rows.
// k  > 0: rows of one block-aggregate a = id/b own columns [a*k,(a+1)*k); P^T P = I; P*Bc = B on aggregated rows.
// allow_short: aggregates with fewer rows than null-space vectors (d < k) are legal input of the public function
// tentative_prolongation(); then Q = [Q_d | 0], R = [R_d; 0]: columns d.. of the aggregate's block of P vanish, P*B_c = B still holds.
// (the coarsening classes never produce d < k: they pass min_aggregate = nullspace.cols)
struct TentStats { ld max_orth = 0, max_repro = 0; long aggregates = 0, short_aggregates = 0; ptrdiff_t max_d = 0; };

inline TentStats check_tentative(const Csr<double> &P, const std::vector<ptrdiff_t> &id, size_t count, int b, int k,
                                 const std::vector<double> &B, const std::vector<double> &Bc, const std::string &what, bool allow_short = false) {
    TentStats ts;
    ptrdiff_t n = static_cast<ptrdiff_t>(id.size());
    VF_REQUIRE(P.n == n, what << ": P has " << P.n << " rows for " << n << " variables");
    require_unique_cols(P, what);
    if (k == 0) {
        VF_REQUIRE(P.m == static_cast<ptrdiff_t>(count), what << ": P has " << P.m << " columns for " << count << " aggregates");
        std::vector<long> colcnt(count, 0);
        for (ptrdiff_t i = 0; i < n; ++i) {
            ptrdiff_t len = P.ptr[i + 1] - P.ptr[i];
            if (id[i] < 0) { VF_REQUIRE(len == 0, what << ": row " << i << " of a non-aggregated variable has " << len << " entries"); continue; }
            VF_REQUIRE(len == 1, what << ": row " << i << " has " << len << " entries (disjoint column supports need exactly one)");
            VF_REQUIRE(P.col[P.ptr[i]] == id[i], what << ": row " << i << " points to column " << P.col[P.ptr[i]] << " but belongs to aggregate " << id[i]);
            VF_REQUIRE(P.val[P.ptr[i]] == 1.0, what << ": row " << i << " value " << P.val[P.ptr[i]] << " (constant vector not reproduced)");
            ++colcnt[id[i]];
        }
        for (size_t a = 0; a < count; ++a) VF_REQUIRE(colcnt[a] > 0, what << ": column " << a << " of P is empty"); // P^T P diagonal with positive entries
        ts.aggregates = static_cast<long>(count);
        return ts;
    }
    VF_REQUIRE(count % b == 0, what << ": aggregate count " << count << " not a multiple of block size " << b);
    ptrdiff_t nba = static_cast<ptrdiff_t>(count) / b;
    VF_REQUIRE(P.m == nba * k, what << ": P has " << P.m << " columns, expected nullspace.cols*aggregates = " << nba * k);
    VF_REQUIRE(static_cast<ptrdiff_t>(Bc.size()) == nba * k * k, what << ": coarse null-space has " << Bc.size() << " values, expected " << nba * k * k);
    VF_REQUIRE(static_cast<ptrdiff_t>(B.size()) == n * k, "harness: B size");
    std::vector<std::vector<ptrdiff_t>> members(nba);
    for (ptrdiff_t i = 0; i < n; ++i) {
        ptrdiff_t len = P.ptr[i + 1] - P.ptr[i];
        if (id[i] < 0) { VF_REQUIRE(len == 0, what << ": row " << i << " of a non-aggregated variable has " << len << " entries"); continue; }
        ptrdiff_t a = id[i] / b;
        members[a].push_back(i);
        VF_REQUIRE(len == k, what << ": row " << i << " has " << len << " entries, expected nullspace.cols=" << k);
        for (ptrdiff_t j = P.ptr[i]; j < P.ptr[i + 1]; ++j)
            VF_REQUIRE(P.col[j] >= a * k && P.col[j] < (a + 1) * k, what << ": row " << i << " (aggregate " << a << ") has an entry in column " << P.col[j] << " owned by aggregate " << P.col[j] / k);
    }
    ts.aggregates = nba;
    for (ptrdiff_t a = 0; a < nba; ++a) {
        ptrdiff_t d = static_cast<ptrdiff_t>(members[a].size());
        ts.max_d = std::max(ts.max_d, d);
        if (!allow_short) VF_REQUIRE(d >= k, what << ": aggregate " << a << " has " << d << " rows, fewer than nullspace.cols=" << k << " (min_aggregate not honoured)");
        if (d < k) ++ts.short_aggregates;
        // R is min(d,k) x k: the rows d.. of the k x k coarse block carry no information and must be zero (they are read on the next level)
        for (ptrdiff_t q = d; q < k; ++q) for (int l = 0; l < k; ++l)
            VF_REQUIRE(Bc[a * k * k + q * k + l] == 0, what << ": coarse null-space block of aggregate " << a << " (" << d << " rows, " << k << " vectors): row " << q << " col " << l << " = " << Bc[a * k * k + q * k + l] << ", expected 0 (R has only " << d << " rows)");
        for (int q = 0; q < k * k; ++q) VF_REQUIRE(std::isfinite(Bc[a * k * k + q]), what << ": coarse null-space entry " << q << " of aggregate " << a << " (" << d << " rows, " << k << " vectors) is " << Bc[a * k * k + q]);
        // dense Q (d x k)
        std::vector<ld> Q(d * k, 0);
        for (ptrdiff_t r = 0; r < d; ++r) { ptrdiff_t i = members[a][r]; for (ptrdiff_t j = P.ptr[i]; j < P.ptr[i + 1]; ++j) Q[r * k + (P.col[j] - a * k)] = P.val[j]; }
        // orthonormal columns: |Q^T Q - I| <= c u, c = 32 (d + 4) k   (Householder QR, Higham Thm 19.13)
        ld tol_o = 32 * (d + 4) * k * U;
        for (int p = 0; p < k; ++p) for (int q = p; q < k; ++q) {
            ld s = 0; for (ptrdiff_t r = 0; r < d; ++r) s += Q[r * k + p] * Q[r * k + q];
            ld e = std::abs(s - (p == q && p < d ? 1 : 0));
            ts.max_orth = std::max(ts.max_orth, e / tol_o);
            VF_REQUIRE(e <= tol_o, what << ": aggregate " << a << " (P^T P)(" << p << "," << q << ") = " << static_cast<double>(s) << ", columns are not orthonormal (err " << static_cast<double>(e) << " > " << static_cast<double>(tol_o) << ")");
        }
        // reproduction: Q * Rfac == B_aggregate, columnwise bound c u ||B_agg(:,l)||_2
        for (int l = 0; l < k; ++l) {
            ld nrm = 0; for (ptrdiff_t r = 0; r < d; ++r) { ld v = B[members[a][r] * k + l]; nrm += v * v; }
            nrm = std::sqrt(nrm);
            ld tol_r = 32 * (d + 4) * k * U * nrm;
            for (ptrdiff_t r = 0; r < d; ++r) {
                ld s = 0; for (int q = 0; q < k; ++q) s += Q[r * k + q] * static_cast<ld>(Bc[a * k * k + q * k + l]);
                ld e = std::abs(s - static_cast<ld>(B[members[a][r] * k + l]));
                if (tol_r > 0) ts.max_repro = std::max(ts.max_repro, e / tol_r);
                VF_REQUIRE(e <= tol_r, what << ": (P*B_coarse)(" << members[a][r] << "," << l << ") = " << static_cast<double>(s) << " but B = " << B[members[a][r] * k + l]
                           << " (err " << static_cast<double>(e) << " > " << static_cast<double>(tol_r) << ", aggregate " << a << " with " << d << " rows)");
            }
        }
    }
    return ts;
}

// ---------------------------------------------------------------------------------------------------------
// Smoothed aggregation:  P == (I - omega D^-1 A_F) P_tent,   A_F: weak off-diagonals lumped into the diagonal, D = diag(A_F)
struct SaStats { long rows_checked = 0, zero_fdiag = 0, rowsum_rows = 0; ld worst = 0; };

inline SaStats check_sa_formula(const Csr<double> &A, const std::vector<char> &strong, const Csr<double> &Pt, const Csr<double> &P, double omega, ld omega_reltol,
                                bool check_rowsum, const std::vector<ptrdiff_t> &id, const std::string &what) {
    SaStats ss;
    VF_REQUIRE(P.n == A.n && P.m == Pt.m, what << ": P is " << P.n << "x" << P.m << ", P_tent is " << Pt.n << "x" << Pt.m);
    require_unique_cols(P, what);
    LMat pt = lmat(Pt);
    ld w = omega;
    for (ptrdiff_t i = 0; i < A.n; ++i) {
        ld dF = 0, dabs = 0; ptrdiff_t r = A.ptr[i + 1] - A.ptr[i];
        bool has_strong = false;
        for (ptrdiff_t j = A.ptr[i]; j < A.ptr[i + 1]; ++j) {
            if (A.col[j] == i || !strong[j]) { dF += A.val[j]; dabs += std::abs(static_cast<ld>(A.val[j])); }
            else has_strong = true;
        }
        // structural pattern: union of the P_tent rows of i and of its strong neighbours
        std::set<ptrdiff_t> pat;
        for (ptrdiff_t j = A.ptr[i]; j < A.ptr[i + 1]; ++j) if (A.col[j] == i || strong[j]) for (auto &kv : pt[A.col[j]]) pat.insert(kv.first);
        std::map<ptrdiff_t, double> got;
        for (ptrdiff_t j = P.ptr[i]; j < P.ptr[i + 1]; ++j) got[P.col[j]] = P.val[j];
        VF_REQUIRE(got.size() == pat.size(), what << ": row " << i << " of P has " << got.size() << " entries, (I - w D^-1 A_F) P_tent has " << pat.size());
        for (ptrdiff_t c : pat) VF_REQUIRE(got.count(c), what << ": row " << i << " of P lacks column " << c);
        // D (numerically) singular in this row: the documented formula is undefined (the sum that forms the filtered
        // diagonal cancels to rounding level, so it is zero or pure rounding noise depending on the summation order)
        if (std::abs(dF) <= 4 * (r + 1) * U * dabs) { ++ss.zero_fdiag; continue; }
        ld cond = dabs / std::abs(dF);
        ld dw = (omega_reltol + 4 * U) * std::abs(w); // uncertainty of omega itself (association of relax*(4/3)/rho, rounding of rho)
        LRow ref, scale;
        LRow wsens; // d P_ic / d omega
        for (auto &kv : pt[i]) { ref[kv.first] += (1 - w) * kv.second; scale[kv.first] += std::abs((1 - w) * kv.second); wsens[kv.first] += std::abs(kv.second); }
        ld strong_abs = 0, strong_sum = 0;
        for (ptrdiff_t j = A.ptr[i]; j < A.ptr[i + 1]; ++j) if (A.col[j] != i && strong[j]) {
            ld m = -w * static_cast<ld>(A.val[j]) / dF;
            strong_abs += std::abs(m); strong_sum += m;
            for (auto &kv : pt[A.col[j]]) { ref[kv.first] += m * kv.second; scale[kv.first] += (1 + cond) * std::abs(m * kv.second); wsens[kv.first] += std::abs(m / w * kv.second); }
        }
        for (ptrdiff_t c : pat) {
            ld tol = 8 * (r + 4) * U * scale[c] + dw * wsens[c];
            ld e = std::abs(static_cast<ld>(got[c]) - ref[c]);
            if (tol > 0) ss.worst = std::max(ss.worst, e / tol);
            VF_REQUIRE(e <= tol, what << ": P(" << i << "," << c << ") = " << got[c] << ", (I - w D^-1 A_F) P_tent gives " << static_cast<double>(ref[c]) << " (omega=" << omega << ", filtered diagonal " << static_cast<double>(dF)
                       << ", err " << static_cast<double>(e) << " > " << static_cast<double>(tol) << ")");
        }
        ++ss.rows_checked;
        if (check_rowsum && has_strong) {
            // zero row sum rows with a strong neighbour: interpolation weights sum to one
            ld rs = 0, rabs = 0; for (ptrdiff_t j = A.ptr[i]; j < A.ptr[i + 1]; ++j) { rs += A.val[j]; rabs += std::abs(static_cast<ld>(A.val[j])); }
            if (std::abs(rs) <= 4 * r * U * rabs) {
                VF_REQUIRE(id[i] >= 0, what << ": zero-row-sum row " << i << " with a strong neighbour is not aggregated");
                ld s = 0; for (auto &kv : got) s += kv.second;
                ld tol = 8 * (r + 4) * U * (1 + cond) * (std::abs(1 - w) + strong_abs) + std::abs(w * rs / dF) + dw * (1 + strong_abs / std::abs(w));
                VF_REQUIRE(std::abs(s - 1) <= tol, what << ": row " << i << " has zero row sum and a strong neighbour but its interpolation weights sum to " << static_cast<double>(s) << " (|err| " << static_cast<double>(std::abs(s - 1)) << " > " << static_cast<double>(tol) << ")");
                ++ss.rowsum_rows;
            }
        }
    }
    return ss;
}

// Ruge-Stuben: interpolation rows of zero-row-sum rows that have a strong (= negative off-diagonal) neighbour sum to one.
struct RsStats { long rowsum_rows = 0, boundary_rows = 0, empty_rows = 0, mixed_rows = 0; }; // mixed_rows: asserted rows that also have positive couplings

inline RsStats check_rs_rowsum(const Csr<double> &A, const Csr<double> &P, bool do_trunc, float eps_strong, float eps_trunc, const std::string &what) {
    RsStats rs;
    require_unique_cols(P, what);
    VF_REQUIRE(P.n == A.n, what << ": P has " << P.n << " rows");
    for (ptrdiff_t i = 0; i < A.n; ++i) {
        ld s = 0, sabs = 0, a_num = 0, b_num = 0, dia = 0, amin = 0; ptrdiff_t r = A.ptr[i + 1] - A.ptr[i];
        for (ptrdiff_t j = A.ptr[i]; j < A.ptr[i + 1]; ++j) {
            ld v = A.val[j]; s += v; sabs += std::abs(v);
            if (A.col[j] == i) dia = v; else if (v < 0) { a_num += v; amin = std::min(amin, v); } else b_num += v;
        }
        ptrdiff_t plen = P.ptr[i + 1] - P.ptr[i];
        if (a_num == 0) { // no negative off-diagonal: no strong neighbour; such a variable is F with an empty row or becomes C
            if (plen == 0) ++rs.empty_rows;
            continue;
        }
        // truncation boundary bookkeeping (label only): some strong entry sits exactly at eps_trunc * (most negative strong entry)
        if (do_trunc) {
            double thr = static_cast<double>(amin) * eps_trunc; bool hit = false;
            for (ptrdiff_t j = A.ptr[i]; j < A.ptr[i + 1]; ++j) if (A.col[j] != i && A.val[j] == thr && A.val[j] < static_cast<double>(amin) * eps_strong) hit = true;
            if (hit) ++rs.boundary_rows;
        }
        if (std::abs(s) > 4 * r * U * sabs) continue; // not a zero-row-sum row
        VF_REQUIRE(plen > 0, what << ": row " << i << " has a strong neighbour but an empty interpolation row");
        ld ps = 0; for (ptrdiff_t j = P.ptr[i]; j < P.ptr[i + 1]; ++j) ps += P.val[j];
        ld tol = 16 * (r + 6) * (r + 6) * U * (1 + (std::abs(dia) + b_num) / std::abs(a_num)) + std::abs(s / a_num);
        VF_REQUIRE(std::abs(ps - 1) <= tol, what << ": row " << i << " has zero row sum and a strong neighbour but its interpolation weights sum to " << static_cast<double>(ps)
                   << " (do_trunc=" << do_trunc << " eps_trunc=" << eps_trunc << ", |err| " << static_cast<double>(std::abs(ps - 1)) << " > " << static_cast<double>(tol) << ")");
        ++rs.rowsum_rows;
        if (b_num > 0 && plen > 0 && !(plen == 1 && P.val[P.ptr[i]] == 1.0)) ++rs.mixed_rows; // positive couplings lumped into the diagonal of an interpolated row
    }
    return rs;
}

// ---------------------------------------------------------------------------------------------------------
// Lifting:  transfer_operators(A (x) I_b, block_size = b)  ==  P(A) (x) I_b
inline std::map<std::pair<ptrdiff_t, ptrdiff_t>, double> entries(const Csr<double> &P, bool drop_zeros) {
    std::map<std::pair<ptrdiff_t, ptrdiff_t>, double> m;
    for (ptrdiff_t i = 0; i < P.n; ++i) for (ptrdiff_t j = P.ptr[i]; j < P.ptr[i + 1]; ++j) {
        if (drop_zeros && P.val[j] == 0) continue;
        m[std::make_pair(i, P.col[j])] = P.val[j];
    }
    return m;
}

inline Csr<double> lift(const Csr<double> &P, int b) { return cm::kron_identity(P, b); }

// bitwise comparison (stored zeros ignored when `drop_zeros`: A (x) I_b stored with explicit zero entries adds structural zeros to P)
inline void require_lifted_bitwise(const Csr<double> &Pb, const Csr<double> &P, int b, bool drop_zeros, const std::string &what) {
    Csr<double> L = lift(P, b);
    VF_REQUIRE(Pb.n == L.n && Pb.m == L.m, what << ": lifted operator is " << Pb.n << "x" << Pb.m << ", expected " << L.n << "x" << L.m);
    require_unique_cols(Pb, what);
    auto g = entries(Pb, drop_zeros), e = entries(L, drop_zeros);
    for (auto &kv : e) {
        auto it = g.find(kv.first);
        VF_REQUIRE(it != g.end(), what << ": entry (" << kv.first.first << "," << kv.first.second << ") = " << kv.second << " of P(A) (x) I_b is missing (scalar entry (" << kv.first.first / b << "," << kv.first.second / b << "))");
        VF_REQUIRE(std::memcmp(&it->second, &kv.second, sizeof(double)) == 0 || (drop_zeros && it->second == kv.second), what << ": entry (" << kv.first.first << "," << kv.first.second << ") = " << it->second << ", P(A) (x) I_b has " << kv.second
                   << " (diff " << it->second - kv.second << ")");
    }
    for (auto &kv : g) VF_REQUIRE(e.count(kv.first), what << ": extra entry (" << kv.first.first << "," << kv.first.second << ") = " << kv.second << " not in P(A) (x) I_b");
}

// energy-minimising smoothed aggregation: rounding model of  P = P_t - D^-1 A_F P_t Omega,  R = P_t^T - Omega P_t^T A_F D^-1,
// omega_c = <(A_F P_t)_c, (A_F D^-1 A_F P_t)_c> / ||(A_F D^-1 A_F P_t)_c||^2  -> entrywise tolerances for comparing two evaluations
struct EminModel {
    // the rounding model cannot bound the difference of two evaluations: a filtered diagonal or an omega denominator is pure
    // rounding noise (a sum that cancels to rounding level), so its value depends on the summation order
    bool unmodelled = false;
    bool guarded = false;           // an exactly vanishing filtered diagonal / denominator occurs (library convention: no smoothing contribution, omega = 0)
    LMat tolP, tolR;                // tolP[i][c], tolR[c][i]
};

// `exact`: integer / dyadic values, every sum below is exact in double as well, so "exactly zero" means the same thing in the
// library and here.  Otherwise a vanishing sum is indistinguishable from rounding noise and the case is left unmodelled.
inline EminModel emin_model(const Csr<double> &A, const std::vector<char> &strong, const Csr<double> &Pt, bool exact) {
    EminModel em;
    ptrdiff_t n = A.n, nc = Pt.m;
    LMat Af(n), pt = lmat(Pt);
    std::vector<ld> D(n, 0), dinv(n, 0);
    ld condmax = 1;
    for (ptrdiff_t i = 0; i < n; ++i) {
        for (ptrdiff_t j = A.ptr[i]; j < A.ptr[i + 1]; ++j) {
            if (A.col[j] == i || !strong[j]) D[i] += A.val[j]; else Af[i][A.col[j]] = A.val[j];
        }
        Af[i][i] = D[i];
        ld dabs = 0; for (ptrdiff_t j = A.ptr[i]; j < A.ptr[i + 1]; ++j) if (A.col[j] == i || !strong[j]) dabs += std::abs(static_cast<ld>(A.val[j]));
        if (D[i] == 0 && exact) { em.guarded = true; dinv[i] = 0; continue; }   // guarded: the row/column takes no part in the smoothing
        if (std::abs(D[i]) <= 4 * (A.ptr[i + 1] - A.ptr[i] + 1) * U * dabs) { em.unmodelled = true; return em; }
        dinv[i] = 1 / D[i];
        condmax = std::max(condmax, dabs / std::abs(D[i])); // the filtered diagonal is a sum that may cancel: relative error ~ cond * u
    }
    auto mul = [&](const LMat &X, const LMat &Y, bool absval, bool with_dinv) {
        LMat Z(X.size());
        for (size_t i = 0; i < X.size(); ++i) for (auto &a : X[i]) {
            ld f = a.second; if (with_dinv) f *= dinv[a.first]; if (absval) f = std::abs(f);
            for (auto &y : Y[a.first]) Z[i][y.first] += absval ? f * std::abs(y.second) : f * y.second;
        }
        return Z;
    };
    LMat AP = mul(Af, pt, false, false), APa = mul(Af, pt, true, false);
    LMat ADAP = mul(Af, AP, false, true), ADAPa = mul(Af, APa, true, true);
    std::vector<ld> num(nc, 0), den(nc, 0), NA(nc, 0), DA(nc, 0);
    for (ptrdiff_t i = 0; i < n; ++i) {
        for (auto &kv : ADAP[i]) { den[kv.first] += kv.second * kv.second; auto it = AP[i].find(kv.first); if (it != AP[i].end()) num[kv.first] += it->second * kv.second; }
        for (auto &kv : ADAPa[i]) { DA[kv.first] += kv.second * kv.second; auto it = APa[i].find(kv.first); if (it != APa[i].end()) NA[kv.first] += it->second * kv.second; }
    }
    ld g = 8 * (n + 8) * U * condmax;
    std::vector<ld> om(nc), dom(nc);
    for (ptrdiff_t c = 0; c < nc; ++c) {
        if (den[c] == 0 && exact) { em.guarded = true; om[c] = 0; dom[c] = 0; continue; }   // guarded: omega_c = 0
        if (den[c] == 0 || DA[c] * g >= den[c]) { em.unmodelled = true; return em; }
        om[c] = num[c] / den[c];
        dom[c] = g * (NA[c] / den[c] + std::abs(om[c]) * DA[c] / den[c]);
    }
    em.tolP.assign(n, LRow()); em.tolR.assign(nc, LRow());
    for (ptrdiff_t i = 0; i < n; ++i) {
        ld di = std::abs(dinv[i]);
        for (auto &kv : APa[i]) em.tolP[i][kv.first] = g * di * kv.second * std::abs(om[kv.first]) + di * kv.second * dom[kv.first];
        for (auto &kv : pt[i]) em.tolP[i][kv.first] += g * std::abs(kv.second);
    }
    // R(c,i): (P_t^T A_F)(c,i) / D_i * omega_c
    for (ptrdiff_t k = 0; k < n; ++k) for (auto &p : pt[k]) for (auto &a : Af[k]) {
        ptrdiff_t c = p.first, i = a.first;
        ld m = std::abs(p.second * a.second) * std::abs(dinv[i]);
        em.tolR[c][i] += g * m * std::abs(om[c]) + m * dom[c];
    }
    for (ptrdiff_t i = 0; i < n; ++i) for (auto &kv : pt[i]) em.tolR[kv.first][i] += g * std::abs(kv.second);
    return em;
}

// Xb (lifted evaluation) against X (x) I_b entrywise within 2*tol (both are rounded evaluations of the same formula)
inline ld require_lifted_within(const Csr<double> &Xb, const Csr<double> &X, int b, const LMat &tol, const std::string &what) {
    VF_REQUIRE(Xb.n == X.n * b && Xb.m == X.m * b, what << ": lifted operator is " << Xb.n << "x" << Xb.m << ", expected " << X.n * b << "x" << X.m * b);
    require_unique_cols(Xb, what);
    auto g = entries(Xb, false), e = entries(lift(X, b), false);
    ld worst = 0;
    for (auto &kv : e) {
        auto it = g.find(kv.first);
        VF_REQUIRE(it != g.end(), what << ": entry (" << kv.first.first << "," << kv.first.second << ") of X(A) (x) I_b is missing");
        ptrdiff_t i = kv.first.first / b, c = kv.first.second / b;
        auto tt = tol[i].find(c);
        ld tl = 2 * (tt == tol[i].end() ? 0 : tt->second);
        VF_REQUIRE(std::isfinite(it->second) && std::isfinite(kv.second), what << ": non-finite entry (" << kv.first.first << "," << kv.first.second << "): lifted " << it->second << ", scalar " << kv.second);
        ld err = std::abs(static_cast<ld>(it->second) - static_cast<ld>(kv.second));
        if (tl > 0) worst = std::max(worst, err / tl);
        VF_REQUIRE(err <= tl, what << ": entry (" << kv.first.first << "," << kv.first.second << ") = " << it->second << ", scalar coarsening lifted gives " << kv.second << " (|diff| " << static_cast<double>(err) << " > " << static_cast<double>(tl) << ")");
    }
    for (auto &kv : g) VF_REQUIRE(e.count(kv.first) || kv.second == 0, what << ": extra entry (" << kv.first.first << "," << kv.first.second << ") = " << kv.second);
    return worst;
}

} // namespace c04
