// C17 (row order part) — shared pieces: case generation and the bitwise comparison of two preconditioners.
#pragma once
#include <functional>
#include <map>
#include <memory>
#include "c17_common.hpp"

namespace c17 {

struct OrderCase {
    Csr<double> sorted, shuffled;   // same matrix; `shuffled` lists the entries of each row in a tape-chosen order
    bool changed = false;           // some row actually reordered
    bool nontrivial = false;        // some row with >= 3 entries out of ascending order
    std::vector<std::vector<double>> probes; // 3 vectors
    std::string family;
};

inline void finish_order_case(Tape &t, OrderCase &oc) {
    oc.shuffled = oc.sorted;
    oc.changed = shuffle_rows(t, oc.shuffled);
    oc.nontrivial = has_unsorted_row(oc.shuffled, 3);
    size_t n = static_cast<size_t>(oc.sorted.n);
    oc.probes.clear();
    oc.probes.push_back(gen_vec(t, n, 0));
    oc.probes.push_back(gen_vec(t, n, 2));
    oc.probes.push_back(gen_vec(t, n, static_cast<int>(t.u(1, 3))));
}

// SPD M-matrix on a graph (optionally structurally non-symmetric: still a row-wise diagonally dominant M-matrix)
inline OrderCase gen_order_case(Tape &t, int nmax, double max_contrast = 100.0) {
    OrderCase oc;
    Graph g = gen_graph(t, nmax, 0, 8);
    oc.family = g.family;
    Csr<double> M = gen_mmat(t, g, max_contrast, true);
    if (t.chance(1, 4)) { M = make_structurally_nonsym(t, M, static_cast<int>(t.u(1, 3))); oc.family += "+nonsym"; }
    oc.sorted = M;
    finish_order_case(t, oc);
    return oc;
}

// A' with the pattern of oc.sorted: diagonal grown by 10..50 % per row, off-diagonals shrunk by a common factor in [0.6,1] (or A' = A when
// `same`); returned with sorted rows and with the entries of every row in the order of oc.shuffled.
inline void perturbed_pair(Tape &t, const OrderCase &oc, bool same, Csr<double> &Ap, Csr<double> &Aps) {
    Ap = oc.sorted;
    if (!same) {
        double g = t.uni(0.6, 1.0);
        for (ptrdiff_t i = 0; i < Ap.n; ++i) { double di = 1.0 + t.uni(0.1, 0.5); for (ptrdiff_t j = Ap.ptr[i]; j < Ap.ptr[i + 1]; ++j) Ap.val[j] *= (Ap.col[j] == i ? di : g); }
    }
    Aps = oc.shuffled;
    for (ptrdiff_t i = 0; i < Ap.n; ++i) {
        std::map<ptrdiff_t, double> row; for (ptrdiff_t j = Ap.ptr[i]; j < Ap.ptr[i + 1]; ++j) row[Ap.col[j]] = Ap.val[j];
        for (ptrdiff_t j = Aps.ptr[i]; j < Aps.ptr[i + 1]; ++j) Aps.val[j] = row[Aps.col[j]];
    }
}

// Result of building + applying a preconditioner: either the outputs or the exception text
struct Applied {
    bool threw = false; std::string what;
    std::vector<std::vector<double>> y;
};

// build(A) must return a callable apply(rhs, x)
template <class Build>
Applied build_and_apply(const Csr<double> &A, const std::vector<std::vector<double>> &probes, const Build &build) {
    Applied r;
    try {
        auto apply = build(A);
        for (auto &f : probes) { std::vector<double> x(f.size(), 0.0); apply(f, x); r.y.push_back(x); }
    } catch (const vf::Fail &) { throw; }
      catch (const std::exception &e) { r.threw = true; r.what = e.what(); }
    return r;
}

// Development aid (not used by the checks): C17_MIN_DIFF=<x> makes only differences above x (relative 2-norm) or one-sided
// rejections fail, so that shrinking can look for a gross witness instead of a rounding-level one.  Default 0: bitwise.
inline double min_diff() { static const double v = getenv("C17_MIN_DIFF") ? atof(getenv("C17_MIN_DIFF")) : 0.0; return v; }

inline void require_bitwise_equal(Ctx &c, const Applied &s, const Applied &u, const std::string &what) {
    if (s.threw || u.threw) {
        VF_REQUIRE(s.threw && u.threw, what << ": built from " << (s.threw ? "SORTED" : "SHUFFLED") << " rows it throws \"" << (s.threw ? s.what : u.what)
                   << "\", built from the " << (s.threw ? "shuffled" : "sorted") << " rows of the same matrix it works");
        VF_REQUIRE(s.what == u.what, what << ": different rejections: \"" << s.what << "\" (sorted) vs \"" << u.what << "\" (shuffled)");
        c.label("rejected-both:" + what);
        return;
    }
    for (size_t k = 0; k < s.y.size(); ++k) {
        long double num = 0, den = 0; ptrdiff_t first = -1;
        for (size_t i = 0; i < s.y[k].size(); ++i) {
            if (!bits_equal(s.y[k][i], u.y[k][i]) && !(std::isnan(s.y[k][i]) && std::isnan(u.y[k][i]))) { if (first < 0) first = static_cast<ptrdiff_t>(i); }
            long double d = static_cast<long double>(s.y[k][i]) - u.y[k][i]; num += d * d; den += static_cast<long double>(s.y[k][i]) * s.y[k][i];
        }
        if (first >= 0 && min_diff() > 0 && std::sqrt(num / (den > 0 ? den : 1)) <= min_diff()) { c.label("differs-below-threshold:" + what); continue; }
        VF_REQUIRE(first < 0, what << ": apply() differs between the preconditioner built from sorted rows and the one built from the same rows in another order: vector " << k
                   << " entry " << first << " " << s.y[k][first] << " vs " << u.y[k][first] << ", relative 2-norm difference " << static_cast<double>(std::sqrt(num / (den > 0 ? den : 1))));
    }
    c.label("equal:" + what);
}

// largest relative 2-norm difference over the probe vectors (0 when both were rejected alike)
inline long double max_rel_diff(const Applied &s, const Applied &u) {
    long double worst = 0;
    if (s.threw || u.threw) return 0;
    for (size_t k = 0; k < s.y.size(); ++k) {
        long double num = 0, den = 0;
        for (size_t i = 0; i < s.y[k].size(); ++i) { long double d = static_cast<long double>(s.y[k][i]) - u.y[k][i]; num += d * d; den += static_cast<long double>(s.y[k][i]) * s.y[k][i]; }
        if (num > 0) worst = std::max(worst, std::sqrt(num / (den > 0 ? den : 1)));
    }
    return worst;
}

} // namespace c17
