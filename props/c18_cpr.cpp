// C18 (part 2) — CPR / CPR-DRS two-stage preconditioners.
//
// CPR: the inner preconditioners are `vf18::inner` objects (props/c18_common.hpp) whose action is a linear map chosen by
// the harness (representation independent: defined on the scalar unknowns), so
//      x == S f + Scatter * P( Fpp (f - A S f) )
// can be recomputed densely in long double.  Fpp is *observed* exactly (S := 0, P records its input for f = e_k), the
// pressure matrix App is the matrix handed to the PPrecond constructor.  Oracles:
//   * cpr: Fpp(ip, ip*b+i) = (D_ip^-1)(0,i) (first row of the inverse diagonal block, dense long double reference, bound
//     from the backward error of the b x b LU), App == sum_i Fpp(ip,ip*b+i) A(ip*b+i, jp*b) restricted to active rows;
//   * scalar input with block_size b and b x b block input give the same Fpp and App (==) and the same action;
//   * partial_update with the unchanged matrix (transfer update on and off) leaves apply() bitwise unchanged;
//   * cpr_drs: weights are 0 or the user weight, the first equation is never dropped, App == Fpp A Scatter, same formula,
//     scalar == block, partial_update unchanged.
// (deflated_solver: props/c18_defl.cpp)
#include <amgcl/backend/builtin.hpp>
#include <amgcl/value_type/static_matrix.hpp>
#include <amgcl/adapter/crs_tuple.hpp>
#include <amgcl/adapter/block_matrix.hpp>
#include <amgcl/preconditioner/cpr.hpp>
#include <amgcl/preconditioner/cpr_drs.hpp>
#include <amgcl/amg.hpp>
#include <amgcl/coarsening/smoothed_aggregation.hpp>
#include <amgcl/relaxation/spai0.hpp>
#include <amgcl/relaxation/ilu0.hpp>
#include <amgcl/relaxation/as_preconditioner.hpp>
#include "c18_common.hpp"

using namespace vf18;
typedef amgcl::backend::builtin<double> BK;
template <int B> struct BlockBackend { typedef amgcl::backend::builtin<amgcl::static_matrix<double, B, B>> type; };

// ------------------------------------------------------------------ generator: multi-phase style block system
struct CprCase {
    int b = 2;
    ptrdiff_t nb = 0, ne = 0, n = 0, N = 0; // cells, extra (inactive) block rows, scalar size, active scalar rows
    Csr<double> A;
    LD dA;
    long offblocks = 0, incomplete = 0;
    bool cell_to_well = false; // an active row has an entry in an inactive column
    std::string family;
    size_t active_rows_scalar = 0, active_rows_block = 0;
    // known inner actions
    LD MS, MP;
    bool s_scale = false; double omega = 1;
};

static CprCase gen_cpr_case(Tape &t) {
    CprCase cc;
    cc.b = 2 + static_cast<int>(t.u(0, 2));
    const int b = cc.b;
    Graph g = gen_graph(t, 10, 0, 8);
    cc.family = g.family; cc.nb = g.n;
    cc.ne = t.chance(1, 3) ? t.u(1, 2) : 0;
    const ptrdiff_t nbt = cc.nb + cc.ne;
    cc.n = nbt * b; cc.N = cc.nb * b;
    std::vector<std::map<ptrdiff_t, double>> rows(cc.n);
    auto diag_block = [&](ptrdiff_t I) {
        for (int i = 0; i < b; ++i) {
            double s = 0;
            for (int j = 0; j < b; ++j) if (j != i) {
                if (t.chance(1, 4)) { ++cc.incomplete; continue; }
                double v = t.uni(-1.0, 1.0); if (v == 0) v = 0.5;
                rows[I * b + i][I * b + j] = v; s += std::abs(v);
            }
            rows[I * b + i][I * b + i] = 1.0 + s * t.uni(1.25, 2.0);
        }
    };
    auto off_block = [&](ptrdiff_t I, ptrdiff_t J) {
        bool any = false;
        for (int i = 0; i < b; ++i) for (int j = 0; j < b; ++j) {
            if (t.chance(1, 3)) { ++cc.incomplete; continue; }
            rows[I * b + i][J * b + j] = t.slogu(0.05, 1.0); any = true;
        }
        if (any) ++cc.offblocks;
    };
    for (ptrdiff_t I = 0; I < nbt; ++I) diag_block(I);
    for (auto &e : g.edges) {
        if (!t.chance(1, 8)) off_block(e.first, e.second);
        if (!t.chance(1, 8)) off_block(e.second, e.first);
    }
    for (ptrdiff_t R = cc.nb; R < nbt; ++R) { // "well" rows couple to a few cells in both directions
        int k = static_cast<int>(t.u(1, 3));
        for (int a = 0; a < k; ++a) { ptrdiff_t I = static_cast<ptrdiff_t>(t.pick(cc.nb)); off_block(R, I); if (t.b()) { off_block(I, R); cc.cell_to_well = true; } }
    }
    cc.A = from_triplets<double>(cc.n, cc.n, rows);
    cc.dA = to_dense<ld>(cc.A);
    if (cc.ne > 0) { cc.active_rows_scalar = static_cast<size_t>(cc.N); cc.active_rows_block = static_cast<size_t>(cc.nb); }
    else if (t.b()) { cc.active_rows_scalar = static_cast<size_t>(cc.n); cc.active_rows_block = static_cast<size_t>(cc.nb); }
    // known inner preconditioner actions: diagonal + two cyclic off-diagonals (any fixed linear map would do)
    auto lin = [&](ptrdiff_t m) {
        LD M(m, m);
        double c1 = t.uni(-0.5, 0.5), c2 = t.uni(-0.5, 0.5);
        ptrdiff_t k = m > 2 ? 2 + static_cast<ptrdiff_t>(t.pick(m - 2)) : 0;
        for (ptrdiff_t i = 0; i < m; ++i) { M(i, i) += t.uni(0.2, 1.2); if (m > 1) M(i, (i + 1) % m) += c1; if (k) M(i, (i + k) % m) += c2; }
        return M;
    };
    cc.s_scale = t.chance(1, 4);
    cc.omega = cc.s_scale ? t.uni(0.1, 1.5) : 1.0;
    if (!cc.s_scale) cc.MS = lin(cc.n);
    cc.MP = lin(cc.nb);
    return cc;
}

template <class CPR>
static std::vector<double> apply_flat(const CPR &C, const std::vector<double> &f) {
    typedef typename CPR::backend_type::value_type V;
    typedef typename amgcl::math::rhs_of<V>::type R;
    const int B = amgcl::math::static_rows<V>::value;
    amgcl::backend::numa_vector<R> F(f.size() / B), X(f.size() / B);
    double *fp = reinterpret_cast<double *>(&F[0]), *xp = reinterpret_cast<double *>(&X[0]);
    for (size_t i = 0; i < f.size(); ++i) { fp[i] = f[i]; xp[i] = std::nan(""); }
    C.apply(F, X);
    return std::vector<double>(xp, xp + f.size());
}

struct CprObs {
    Csr<double> App;          // handed to PPrecond
    Dense<double> Fpp;        // np x n, observed
    std::vector<std::vector<double>> x; // apply results on the test vectors
    std::vector<LV> bound;              // rounding bound of each result w.r.t. the dense two-stage formula
};

static void set_S(Control &cS, const CprCase &cc) {
    if (cc.s_scale) { cS.mode = Control::SCALE; cS.omega = cc.omega; } else { cS.mode = Control::LINEAR; cS.M = cc.MS; }
}

// runs every check that concerns ONE representation; returns what was observed for the cross-representation comparison
template <class CPR, class MatrixArg, class Params>
static CprObs run_cpr(Ctx &c, const CprCase &cc, const MatrixArg &Aarg, Params prm, Control &cP, Control &cS, const std::vector<std::vector<double>> &fs,
                      bool drs, const std::vector<double> &weights, const std::string &rep, int update_mode) {
    const int b = cc.b; const ptrdiff_t n = cc.n, np = cc.nb, N = cc.N;
    prm.pprecond.ctl = &cP; prm.sprecond.ctl = &cS;
    CPR C(Aarg, prm);
    CprObs o;
    std::string why;
    VF_REQUIRE(cP.ctor_matrices.size() == 1 && cS.ctor_matrices.size() == 1, rep << ": inner preconditioners constructed " << cP.ctor_matrices.size() << "/" << cS.ctor_matrices.size() << " times");
    o.App = cP.ctor_matrices[0];
    VF_REQUIRE(o.App.n == np && o.App.m == np, rep << ": pressure matrix is " << o.App.n << "x" << o.App.m << ", expected " << np << "x" << np);
    { // the global preconditioner gets the full matrix
        Dense<double> a = to_dense<double>(cS.ctor_matrices[0]), r = to_dense<double>(cc.A);
        VF_REQUIRE(a.n == n && a.m == n, rep << ": SPrecond matrix shape");
        for (ptrdiff_t i = 0; i < n; ++i) for (ptrdiff_t j = 0; j < n; ++j) VF_REQUIRE(a(i, j) == r(i, j), rep << ": matrix handed to SPrecond differs from A at (" << i << "," << j << ")");
    }
    // ---- observe Fpp: S := 0, P records its input
    o.Fpp = Dense<double>(np, n);
    cS.mode = Control::ZERO; cP.mode = Control::PROBE; cP.preset.assign(np, 0.0); cP.log_rhs = true;
    for (ptrdiff_t k = 0; k < n; ++k) {
        std::vector<double> e(n, 0.0); e[k] = 1.0;
        cP.rhs_log.clear();
        std::vector<double> x = apply_flat(C, e);
        VF_REQUIRE(cP.rhs_log.size() == 1, rep << ": apply called PPrecond " << cP.rhs_log.size() << " times");
        for (ptrdiff_t ip = 0; ip < np; ++ip) o.Fpp(ip, k) = cP.rhs_log[0][ip];
        for (ptrdiff_t i = 0; i < n; ++i) VF_REQUIRE(x[i] == 0.0, rep << ": apply(e_" << k << ") with S=0 and P=0 gives x[" << i << "]=" << x[i]);
    }
    // ---- observe Scatter: S := 0, P answers e_ip
    for (ptrdiff_t ip = 0; ip < np; ++ip) {
        cP.preset.assign(np, 0.0); cP.preset[ip] = 1.0;
        std::vector<double> x = apply_flat(C, std::vector<double>(n, 0.0));
        for (ptrdiff_t i = 0; i < n; ++i) VF_REQUIRE(x[i] == (i == ip * b ? 1.0 : 0.0), rep << ": Scatter column " << ip << " has x[" << i << "]=" << x[i] << " (pressure is the first unknown of cell " << ip << ")");
    }
    cP.log_rhs = false; cP.rhs_log.clear();
    // ---- Fpp structure and values
    for (ptrdiff_t ip = 0; ip < np; ++ip) for (ptrdiff_t k = 0; k < n; ++k)
        if (k < ip * b || k >= (ip + 1) * b) VF_REQUIRE(o.Fpp(ip, k) == 0.0, rep << ": Fpp(" << ip << "," << k << ") = " << o.Fpp(ip, k) << " outside the diagonal block");
    for (ptrdiff_t ip = 0; ip < np; ++ip) {
        LD D(b, b);
        for (int i = 0; i < b; ++i) for (int j = 0; j < b; ++j) D(i, j) = cc.dA(ip * b + i, ip * b + j);
        if (!drs) {
            bool ok; LD Di = inverse(D, ok);
            VF_REQUIRE(ok, "generator: singular diagonal block");
            // w^T = e_1^T D^-1, i.e. D^T w = e_1 solved by LU without pivoting in double: |dw| <= 8 b^2 u |D^-T| |D^T| |w|
            LV w(b); for (int i = 0; i < b; ++i) w[i] = Di(0, i);
            //  + the reference's own (normwise) error: Gauss-Jordan in long double does not preserve structural zeros of the inverse
            LV bw = scalev(8 * b * b * U, matvec(absm(transposed(Di)), matvec(absm(transposed(D)), absv(w))));
            ld eref = 16 * b * std::ldexp(1.0L, -64) * norminf(Di) * norminf(D) * norminf(w);
            for (auto &v : bw) v += eref;
            for (int i = 0; i < b; ++i)
                VF_REQUIRE(std::abs(static_cast<ld>(o.Fpp(ip, ip * b + i)) - w[i]) <= bw[i], rep << ": Fpp(" << ip << "," << ip * b + i << ") = " << o.Fpp(ip, ip * b + i) << ", first row of the inverse diagonal block has "
                                                                                                 << static_cast<double>(w[i]) << " (bound " << static_cast<double>(bw[i]) << ")");
        } else {
            for (int i = 0; i < b; ++i) {
                double wgt = weights.empty() ? 1.0 : weights[ip * b + i], v = o.Fpp(ip, ip * b + i);
                if (i == 0) VF_REQUIRE(v == wgt, rep << ": DRS weight of the pressure equation of cell " << ip << " is " << v << ", expected " << wgt);
                else VF_REQUIRE(v == wgt || v == 0.0, rep << ": DRS weight (" << ip << "," << i << ") = " << v << " is neither 0 nor " << wgt);
            }
        }
    }
    // ---- pressure matrix == Fpp A Scatter on the active block pattern
    {
        Dense<int> pat(np, np);
        for (ptrdiff_t i = 0; i < N; ++i) for (ptrdiff_t j = cc.A.ptr[i]; j < cc.A.ptr[i + 1]; ++j) if (cc.A.col[j] < N) pat(i / b, cc.A.col[j] / b) = 1;
        Dense<int> got(np, np);
        LD dApp(np, np);
        for (ptrdiff_t i = 0; i < np; ++i) for (ptrdiff_t j = o.App.ptr[i]; j < o.App.ptr[i + 1]; ++j) {
            VF_REQUIRE(o.App.col[j] >= 0 && o.App.col[j] < np, rep << ": pressure matrix column out of range");
            VF_REQUIRE(!got(i, o.App.col[j]), rep << ": pressure matrix has a duplicate entry (" << i << "," << o.App.col[j] << ")");
            got(i, o.App.col[j]) = 1; dApp(i, o.App.col[j]) = o.App.val[j];
            VF_REQUIRE(pat(i, o.App.col[j]), rep << ": pressure matrix entry (" << i << "," << o.App.col[j] << ") outside the block pattern of A");
        }
        for (ptrdiff_t ip = 0; ip < np; ++ip) for (ptrdiff_t jp = 0; jp < np; ++jp) {
            ld ref = 0, mag = 0;
            for (int i = 0; i < b; ++i) { ld term = static_cast<ld>(o.Fpp(ip, ip * b + i)) * cc.dA(ip * b + i, jp * b); ref += term; mag += std::abs(term); }
            ld bd = 2 * (b + 1) * U * mag;
            VF_REQUIRE(std::abs(dApp(ip, jp) - ref) <= bd, rep << ": pressure matrix (" << ip << "," << jp << ") = " << static_cast<double>(dApp(ip, jp)) << ", Fpp A Scatter gives " << static_cast<double>(ref) << " (bound " << static_cast<double>(bd) << ")");
        }
    }
    // ---- the two-stage formula with known inner actions
    set_S(cS, cc); cP.mode = Control::LINEAR; cP.M = cc.MP;
    LD dF(np, n); for (ptrdiff_t i = 0; i < np; ++i) for (ptrdiff_t k = 0; k < n; ++k) dF(i, k) = o.Fpp(i, k);
    LD aA = absm(cc.dA), aF = absm(dF), aMP = absm(cc.MP);
    const ld g = static_cast<ld>(n + 2) * U;
    for (size_t q = 0; q < fs.size(); ++q) {
        LV f = tolv(fs[q]);
        LV s = cc.s_scale ? scalev(cc.omega, f) : matvec(cc.MS, f);
        LV es = scalev(2 * U, absv(s));
        LV r = subv(f, matvec(cc.dA, s));
        LV er = addv(scalev(g, addv(absv(f), matvec(aA, absv(s)))), matvec(aA, es));
        LV rp = matvec(dF, r);
        LV erp = addv(scalev((b + 2) * U, matvec(aF, absv(r))), matvec(aF, er));
        LV xp = matvec(cc.MP, rp);
        LV exp_ = addv(scalev(2 * U, absv(xp)), matvec(aMP, erp));
        LV ref = s, bd = es;
        for (ptrdiff_t ip = 0; ip < np; ++ip) { ref[ip * b] += xp[ip]; bd[ip * b] += exp_[ip] + 2 * U * std::abs(ref[ip * b]); }
        std::vector<double> x = apply_flat(C, fs[q]);
        for (ptrdiff_t i = 0; i < n; ++i)
            VF_REQUIRE(std::abs(static_cast<ld>(x[i]) - ref[i]) <= 4 * bd[i], rep << ": apply(f)[" << i << "] = " << x[i] << ", S f + Scatter P(Fpp(f - A S f)) = " << static_cast<double>(ref[i])
                                                                                  << " (bound " << static_cast<double>(4 * bd[i]) << "); f=" << show(fs[q]));
        o.x.push_back(x);
        o.bound.push_back(scalev(4, bd));
    }
    // ---- partial_update with the unchanged matrix leaves the action bitwise unchanged
    if (update_mode) {
        bool transfer = update_mode == 2;
        C.partial_update(Aarg, transfer);
        VF_REQUIRE(cS.ctor_matrices.size() == 2 && cP.ctor_matrices.size() == 1, rep << ": partial_update must rebuild SPrecond only (S " << cS.ctor_matrices.size() << ", P " << cP.ctor_matrices.size() << ")");
        for (size_t q = 0; q < fs.size(); ++q) {
            std::vector<double> x = apply_flat(C, fs[q]);
            VF_REQUIRE(memcmp(x.data(), o.x[q].data(), x.size() * sizeof(double)) == 0, rep << ": apply differs after partial_update(same matrix, update_transfer_ops=" << transfer << "); f=" << show(fs[q]));
        }
        c.label(transfer ? "partial_update:transfer" : "partial_update:no-transfer");
    }
    return o;
}

template <class P> static void set_drs_impl(P &p, double dd, double ps, const std::vector<double> &w, decltype(&P::eps_dd)) { p.eps_dd = dd; p.eps_ps = ps; p.weights = w; }
template <class P> static void set_drs_impl(P &, double, double, const std::vector<double> &, ...) {}
template <class P> static void set_drs(P &p, double dd, double ps, const std::vector<double> &w) { set_drs_impl(p, dd, ps, w, nullptr); }

template <template <class, class> class CPRT, int B>
static void cpr_both(Tape &t, Ctx &c, const CprCase &cc, bool drs) {
    typedef CPRT<inner<BK>, inner<BK>> Scalar;
    typedef typename BlockBackend<B>::type BBk;
    typedef CPRT<inner<BK>, inner<BBk>> Block;
    typedef amgcl::static_matrix<double, B, B> val_type;
    int nf = static_cast<int>(t.u(1, 3));
    std::vector<std::vector<double>> fs;
    for (int q = 0; q < nf; ++q) fs.push_back(gen_vec(t, cc.n, static_cast<int>(t.u(1, 3))));
    int update_mode = static_cast<int>(t.u(0, 5)) % 3; // 0 none, 1 partial_update(same, false), 2 partial_update(same, true)
    std::vector<double> weights;
    double eps_dd = 0.2, eps_ps = 0.02;
    if (drs) {
        if (t.chance(1, 2)) for (ptrdiff_t i = 0; i < cc.N; ++i) weights.push_back(t.uni(0.5, 1.5));
        static const double dd[] = {0.2, 0.0, 1.0, 5.0}, ps[] = {0.02, 0.0, 0.5, 2.0};
        eps_dd = dd[t.u(0, 3)]; eps_ps = ps[t.u(0, 3)];
        c.desc << " eps_dd=" << eps_dd << " eps_ps=" << eps_ps << " weights=" << (weights.empty() ? "none" : "user");
    }
    c.desc << " update_mode=" << update_mode << " nf=" << nf;
    auto tup = std::tie(cc.n, cc.A.ptr, cc.A.col, cc.A.val);
    Control cPs, cSs, cPb, cSb;
    typename Scalar::params ps_; ps_.block_size = B; ps_.active_rows = cc.active_rows_scalar;
    typename Block::params pb_; pb_.active_rows = cc.active_rows_block;
    set_drs(ps_, eps_dd, eps_ps, weights); set_drs(pb_, eps_dd, eps_ps, weights);
    // (regression replay/C18/cprdrs-partial-update-crash.case: the scalar CPR-DRS partial_update with update_transfer_ops used to dereference a null pressure matrix)
    CprObs os = run_cpr<Scalar>(c, cc, tup, ps_, cPs, cSs, fs, drs, weights, "scalar", update_mode);
    // block-valued input with inactive rows: the pressure matrix keeps the columns of the inactive block rows (known finding)
    if (cc.ne > 0 && cc.cell_to_well && c.known("F-cpr-block-active-rows")) return;
    CprObs ob = run_cpr<Block>(c, cc, amgcl::adapter::block_matrix<val_type>(tup), pb_, cPb, cSb, fs, drs, weights, "block", update_mode);
    // ---- scalar input with block_size b == b x b block input
    for (ptrdiff_t i = 0; i < cc.nb; ++i) for (ptrdiff_t k = 0; k < cc.n; ++k)
        VF_REQUIRE(os.Fpp(i, k) == ob.Fpp(i, k), "Fpp(" << i << "," << k << ") differs between scalar (" << os.Fpp(i, k) << ") and block (" << ob.Fpp(i, k) << ") input");
    Dense<double> as = to_dense<double>(os.App), ab = to_dense<double>(ob.App);
    for (ptrdiff_t i = 0; i < cc.nb; ++i) for (ptrdiff_t j = 0; j < cc.nb; ++j)
        VF_REQUIRE(as(i, j) == ab(i, j), "pressure matrix (" << i << "," << j << ") differs between scalar (" << as(i, j) << ") and block (" << ab(i, j) << ") input");
    // same action: both are within their rounding bound of the same dense formula (the block SpMV sums in another order)
    for (size_t q = 0; q < fs.size(); ++q) for (ptrdiff_t i = 0; i < cc.n; ++i)
        VF_REQUIRE(std::abs(static_cast<ld>(os.x[q][i]) - ob.x[q][i]) <= os.bound[q][i] + ob.bound[q][i],
                   "apply(f)[" << i << "] differs between scalar (" << os.x[q][i] << ") and block (" << ob.x[q][i] << ") input beyond rounding (" << static_cast<double>(os.bound[q][i] + ob.bound[q][i]) << ")");
}

template <template <class, class> class CPRT>
static void prop_cpr_any(Tape &t, Ctx &c, bool drs) {
    CprCase cc = gen_cpr_case(t);
    c.desc << (drs ? "cpr_drs" : "cpr") << " b=" << cc.b << " cells=" << cc.nb << " (" << cc.family << ") extra_block_rows=" << cc.ne << " n=" << cc.n << " active_rows=" << cc.active_rows_scalar
           << " offdiag_blocks=" << cc.offblocks << " missing_scalars=" << cc.incomplete << " S=" << (cc.s_scale ? "scale" : "linear") << " A=" << dump_small(cc.A, 8);
    c.nontrivial = cc.nb >= 2 && cc.offblocks > 0;
    c.label("b=" + std::to_string(cc.b));
    c.label(cc.ne ? (cc.cell_to_well ? "inactive-rows:coupled-both-ways" : "inactive-rows:one-way") : (cc.active_rows_scalar ? "active_rows=n" : "active_rows=0"));
    c.label("fam:" + cc.family);
    c.label(cc.incomplete ? "incomplete-blocks" : "full-blocks");
    switch (cc.b) {
    case 2: cpr_both<CPRT, 2>(t, c, cc, drs); break;
    case 3: cpr_both<CPRT, 3>(t, c, cc, drs); break;
    default: cpr_both<CPRT, 4>(t, c, cc, drs); break;
    }
}
static void prop_cpr(Tape &t, Ctx &c) { prop_cpr_any<amgcl::preconditioner::cpr>(t, c, false); }
static void prop_cpr_drs(Tape &t, Ctx &c) { prop_cpr_any<amgcl::preconditioner::cpr_drs>(t, c, true); }

// ------------------------------------------------------------------ real inner preconditioners: partial_update leaves the action unchanged
template <template <class, class> class CPRT>
static void prop_cpr_real_update(Tape &t, Ctx &c, bool drs) {
    typedef amgcl::amg<BK, amgcl::coarsening::smoothed_aggregation, amgcl::relaxation::spai0> PP;
    typedef amgcl::relaxation::as_preconditioner<BK, amgcl::relaxation::ilu0> SP;
    typedef CPRT<PP, SP> C;
    CprCase cc = gen_cpr_case(t);
    bool transfer = t.b();
    c.desc << (drs ? "cpr_drs" : "cpr") << "<amg,ilu0> partial_update b=" << cc.b << " cells=" << cc.nb << " extra=" << cc.ne << " transfer=" << transfer << " A=" << dump_small(cc.A, 8);
    c.nontrivial = cc.nb >= 2 && cc.offblocks > 0;
    c.label("b=" + std::to_string(cc.b));
    typename C::params prm; prm.block_size = cc.b; prm.active_rows = cc.active_rows_scalar;
    prm.pprecond.coarse_enough = static_cast<unsigned>(t.u(1, 4));
    auto tup = std::tie(cc.n, cc.A.ptr, cc.A.col, cc.A.val);
    C cpr(tup, prm);
    std::vector<double> f = gen_vec(t, cc.n, 2);
    std::vector<double> x0 = apply_flat(cpr, f);
    for (double v : x0) VF_REQUIRE(std::isfinite(v), "non-finite preconditioner output");
    cpr.partial_update(tup, transfer);
    std::vector<double> x1 = apply_flat(cpr, f);
    VF_REQUIRE(memcmp(x0.data(), x1.data(), x0.size() * sizeof(double)) == 0, "apply differs after partial_update(same matrix, update_transfer_ops=" << transfer << ")");
    c.label(transfer ? "partial_update:transfer" : "partial_update:no-transfer");
}
static void prop_cpr_real(Tape &t, Ctx &c) { prop_cpr_real_update<amgcl::preconditioner::cpr>(t, c, false); }
static void prop_cpr_drs_real(Tape &t, Ctx &c) { prop_cpr_real_update<amgcl::preconditioner::cpr_drs>(t, c, true); }

static std::vector<Prop> props() {
    return {
        Prop("cpr", prop_cpr, 350, 20000, 100, 25, {1}, 2, 8),
        Prop("cpr_drs", prop_cpr_drs, 250, 12000, 100, 25, {1}, 2, 8),
        Prop("cpr_real_update", prop_cpr_real, 150, 8000, 100, 20, {1}, 1, 4),
        Prop("cpr_drs_real_update", prop_cpr_drs_real, 100, 6000, 100, 20, {1}, 1, 4),
    };
}
static std::vector<Enum> enums() { return {}; }
VF_MAIN(props(), enums())
