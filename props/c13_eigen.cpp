// C13 (Eigen fixed-size blocks as value type, amgcl/value_type/eigen.hpp) — same oracles as c13_block.cpp:
// the block matrix obtained through adapter::block_matrix<Eigen::Matrix<double,B,B>> has exactly the entries of the
// scalar matrix, its SpMV agrees with the scalar product within the summation-order bound, and the solution of
// amg<builtin<Eigen block>> + BiCGStab has a truthful residual w.r.t. the scalar system and reaches the tolerance.
#include <amgcl/backend/builtin.hpp>
#include <amgcl/value_type/eigen.hpp>
#include <amgcl/value_type/static_matrix.hpp>
#include <amgcl/adapter/crs_tuple.hpp>
#include <amgcl/adapter/block_matrix.hpp>
#include <amgcl/make_solver.hpp>
#include <amgcl/amg.hpp>
#include <amgcl/coarsening/smoothed_aggregation.hpp>
#include <amgcl/relaxation/spai0.hpp>
#include <amgcl/solver/bicgstab.hpp>
#include "../common/harness.hpp"
#include "../common/gen.hpp"
#include "../common/dense.hpp"
#include "../common/amgcl_util.hpp"
#include "c13_common.hpp"

using namespace vf;
using namespace c13;
namespace ab = amgcl::backend;

template <int B>
static void prop_eigen(Tape &t, Ctx &c) {
    typedef Eigen::Matrix<double, B, B> blk;
    typedef Eigen::Matrix<double, B, 1> rhsb;
    typedef ab::builtin<blk> EB;
    BlockCase bc = gen_block_case(t, B, t.chance(1, 4) ? 6 : 48);
    const Csr<double> &A = bc.A;
    std::string fk; std::vector<double> f = gen_rhs(t, A, fk);
    std::vector<double> xv = gen_vec(t, A.n), y0 = gen_vec(t, A.n);
    double alpha = t.b() ? 1.0 : static_cast<double>(t.u(-3, 3)), beta = t.b() ? 0.0 : static_cast<double>(t.u(-3, 3));
    int cec = static_cast<int>(t.u(0, 2));
    unsigned ce = cec == 0 ? 12 : cec == 1 ? 4 : 3000;
    double tol = 1e-8; const size_t maxiter = 1000;
    c.desc << "eigen blocks b=" << B << " kind=" << bc.kind << " " << bc.family << " nb=" << bc.nb << " " << describe(A) << " incomplete=" << bc.incomplete << "/" << bc.blocks
           << " rhs=" << fk << " coarse_enough=" << ce << " alpha=" << alpha << " beta=" << beta << " A=" << dump_small(A, 8);
    c.nontrivial = bc.incomplete > 0 && bc.nb >= 2;
    c.label("eigen:b=" + std::to_string(B)); c.label("kind=" + std::to_string(bc.kind)); c.label("fam:" + bc.family); c.label(size_bucket(bc.nb));
    c.label(bc.incomplete ? "incomplete-block" : "all-blocks-full");

    size_t n = static_cast<size_t>(A.n);
    const ptrdiff_t nb = bc.nb;
    auto As = std::tie(n, A.ptr, A.col, A.val);
    auto Ab = amgcl::adapter::block_matrix<blk>(As);
    // ---- entries
    Dense<double> D(A.n, A.n); Dense<int> P(nb, nb);
    for (ptrdiff_t i = 0; i < A.n; ++i) for (ptrdiff_t j = A.ptr[i]; j < A.ptr[i + 1]; ++j) { D(i, A.col[j]) = A.val[j]; P(i / B, A.col[j] / B) = 1; }
    ab::crs<blk> Bc(Ab);
    require_wellformed(Bc, "crs<Eigen block>(block_matrix)", true, true);
    VF_REQUIRE(static_cast<ptrdiff_t>(Bc.nrows) == nb && static_cast<ptrdiff_t>(Bc.ncols) == nb && static_cast<long>(Bc.nnz) == bc.blocks, "crs<Eigen block>: shape/nnz " << Bc.nrows << "x" << Bc.ncols << " nnz " << Bc.nnz);
    for (ptrdiff_t I = 0; I < nb; ++I) {
        std::vector<int> seen(nb, 0);
        for (ptrdiff_t j = Bc.ptr[I]; j < Bc.ptr[I + 1]; ++j) {
            ptrdiff_t J = Bc.col[j]; seen[J] = 1;
            VF_REQUIRE(P(I, J), "crs<Eigen block>: block (" << I << "," << J << ") invented");
            for (int k = 0; k < B; ++k) for (int l = 0; l < B; ++l)
                VF_REQUIRE(Bc.val[j](k, l) == D(I * B + k, J * B + l), "crs<Eigen block>: block (" << I << "," << J << ") entry (" << k << "," << l << ") = " << Bc.val[j](k, l) << " scalar " << D(I * B + k, J * B + l));
        }
        for (ptrdiff_t J = 0; J < nb; ++J) VF_REQUIRE(seen[J] == P(I, J), "crs<Eigen block>: block (" << I << "," << J << ") missing");
    }
    // ---- SpMV (block vectors and reinterpreted scalar vectors)
    {
        std::vector<std::complex<long double>> ref; std::vector<long double> S;
        ref_spmv(A, xv, alpha, beta, y0, ref, S);
        long double cmax = 0; for (ptrdiff_t I = 0; I < nb; ++I) cmax = std::max<long double>(cmax, static_cast<long double>(Bc.ptr[I + 1] - Bc.ptr[I]));
        long double cb = 2 * (B * cmax + 4);
        std::vector<double> Y = y0;
        ab::spmv(alpha, Bc, xv, beta, Y);
        require_spmv(Y, ref, S, cb, "spmv(crs<Eigen block>, scalar vectors)");
        std::vector<rhsb> X(nb), Yb(nb);
        for (ptrdiff_t I = 0; I < nb; ++I) for (int k = 0; k < B; ++k) { X[I](k) = xv[I * B + k]; Yb[I](k) = y0[I * B + k]; }
        ab::spmv(alpha, Ab, X, beta, Yb);
        std::vector<double> Yf(A.n); for (ptrdiff_t I = 0; I < nb; ++I) for (int k = 0; k < B; ++k) Yf[I * B + k] = Yb[I](k);
        require_spmv(Yf, ref, S, cb, "spmv(block_matrix<Eigen block>, Eigen block vectors)");
    }
    // ---- solve (convergence is demanded on the model kinds only, see c13_block.cpp)
    c.label(bc.model() ? "model" : "non-model(truthfulness only)");
    try {
        typedef amgcl::make_solver<amgcl::amg<EB, amgcl::coarsening::smoothed_aggregation, amgcl::relaxation::spai0>, amgcl::solver::bicgstab<EB>> Solver;
        typename Solver::params p; p.solver.tol = tol; p.solver.maxiter = maxiter; p.precond.coarse_enough = ce;
        Solver solve(Ab, p);
        std::vector<double> x(n, 0.0);
        auto F = ab::reinterpret_as_rhs<blk>(f); auto X = ab::reinterpret_as_rhs<blk>(x);
        size_t iters; double resid;
        std::tie(iters, resid) = solve(Ab, F, X);
        require_truthful(c, "amg<Eigen block>+bicgstab", A, f, x, iters, resid, tol, maxiter, bc.model());
    } catch (const vf::Fail &) { throw; }
      catch (const std::runtime_error &e) {
        if (std::string(e.what()).find("in BiCGStab") != std::string::npos) c.label(bc.model() ? "breakdown(model):eigen" : "breakdown:eigen"); // see the triage note in c13_common.hpp
        else throw;
    }
}

// ---------------------------------------------------------------------------------------------------------------------------------
// Eigen blocks vs static_matrix blocks on systems with NON-symmetric blocks.
//  (a) value type level: math::adjoint of a block, backend::transpose of crs<Eigen block> == transpose of the scalar matrix, entry-exact;
//  (b) operator level: amg<builtin<Eigen block>> and amg<builtin<static_matrix>> run the same algorithms on the same block matrix, so the
//      hierarchies have the same shape and apply() agrees to rounding (eps_strong = 0: aggregates do not depend on rounding of block norms);
//      the Eigen formulation's solve has a truthful residual w.r.t. the scalar system and converges on the model kinds.
// System: a model block case (kinds 0-2) made non-symmetric: every off-diagonal scalar entry is scaled by an independent factor in
// [0.5,1] (row-wise diagonal dominance and the M-matrix sign pattern survive) and every diagonal block gets a skew part
// +s / -s (|s| <= 0.3 min(d_k,d_l), compensated on the diagonal).
template <int B>
static void prop_eigen_vs_static(Tape &t, Ctx &c) {
    typedef Eigen::Matrix<double, B, B> eblk;
    typedef amgcl::static_matrix<double, B, B> sblk;
    typedef ab::builtin<eblk> EB; typedef ab::builtin<sblk> SBk;
    BlockCase bc = gen_block_case(t, B, t.chance(1, 4) ? 6 : 40);
    const ptrdiff_t nb = bc.nb, n0 = bc.A.n;
    std::vector<std::map<ptrdiff_t, double>> rows(n0);
    for (ptrdiff_t i = 0; i < n0; ++i) for (ptrdiff_t j = bc.A.ptr[i]; j < bc.A.ptr[i + 1]; ++j) rows[i][bc.A.col[j]] = bc.A.val[j] * (bc.A.col[j] == i ? 1.0 : t.uni(0.5, 1.0));
    double skew = t.uni(0.05, 0.3);
    for (ptrdiff_t I = 0; I < nb; ++I) for (int k = 0; k < B; ++k) for (int l = k + 1; l < B; ++l) {
        ptrdiff_t a = I * B + k, b2 = I * B + l;
        double s = skew * std::min(rows[a][a], rows[b2][b2]) * (t.b() ? 1.0 : -1.0) * t.uni(0.3, 1.0);
        rows[a][b2] += s; rows[b2][a] -= s; rows[a][a] += std::abs(s); rows[b2][b2] += std::abs(s);
    }
    Csr<double> A = from_triplets<double>(n0, n0, rows);
    bool model = bc.model();
    std::string fk; std::vector<double> f = gen_rhs(t, A, fk);
    int cec = static_cast<int>(t.u(0, 2));
    unsigned ce = cec == 0 ? 8 : cec == 1 ? 3 : 3000;
    c.desc << "eigen vs static b=" << B << " kind=" << bc.kind << " " << bc.family << " nb=" << nb << " " << describe(A) << " skew=" << skew << " rhs=" << fk << " coarse_enough=" << ce << " A=" << dump_small(A, 8);
    // non-symmetric diagonal block present by construction (B >= 2, s != 0)
    c.nontrivial = nb >= 2;
    c.label("evs:b=" + std::to_string(B)); c.label("evs:kind=" + std::to_string(bc.kind)); c.label(model ? "model" : "non-model(truthfulness only)");

    size_t n = static_cast<size_t>(A.n);
    auto As = std::tie(n, A.ptr, A.col, A.val);
    ab::crs<eblk> Ke(amgcl::adapter::block_matrix<eblk>(As));
    ab::crs<sblk> Ks(amgcl::adapter::block_matrix<sblk>(As));
    // ---- (a) adjoint / transpose
    Dense<double> D(A.n, A.n);
    for (ptrdiff_t i = 0; i < A.n; ++i) for (ptrdiff_t j = A.ptr[i]; j < A.ptr[i + 1]; ++j) D(i, A.col[j]) = A.val[j];
    for (size_t j = 0; j < Ke.nnz; ++j) {
        eblk a = amgcl::math::adjoint(Ke.val[j]);
        for (int k = 0; k < B; ++k) for (int l = 0; l < B; ++l) VF_REQUIRE(a(k, l) == Ke.val[j](l, k), "math::adjoint(Eigen block): entry (" << k << "," << l << ") = " << a(k, l) << ", block has " << Ke.val[j](l, k) << " at (" << l << "," << k << ")");
    }
    auto Te = ab::transpose(Ke);
    auto Ts = ab::transpose(Ks);
    require_wellformed(*Te, "transpose(crs<Eigen block>)", true, true);
    VF_REQUIRE(Te->nnz == Ke.nnz && Te->nrows == Ke.ncols, "transpose(crs<Eigen block>): shape/nnz");
    for (ptrdiff_t I = 0; I < nb; ++I) for (ptrdiff_t j = Te->ptr[I]; j < Te->ptr[I + 1]; ++j) for (int k = 0; k < B; ++k) for (int l = 0; l < B; ++l) {
        double ref = D(Te->col[j] * B + l, I * B + k); // (A^T)(I*B+k, J*B+l) = A(J*B+l, I*B+k)
        VF_REQUIRE(Te->val[j](k, l) == ref, "transpose(crs<Eigen block>): block (" << I << "," << Te->col[j] << ") entry (" << k << "," << l << ") = " << Te->val[j](k, l) << ", scalar transpose has " << ref);
        VF_REQUIRE(Ts->col[j] == Te->col[j] && Ts->val[j](k, l) == ref, "transpose(crs<static_matrix>): block (" << I << "," << Ts->col[j] << ") entry (" << k << "," << l << ")");
    }
    // ---- (b) same hierarchy, same action
    typedef amgcl::amg<EB, amgcl::coarsening::smoothed_aggregation, amgcl::relaxation::spai0> AmgE;
    typedef amgcl::amg<SBk, amgcl::coarsening::smoothed_aggregation, amgcl::relaxation::spai0> AmgS;
    typename AmgE::params pe; pe.coarse_enough = ce; pe.coarsening.aggr.eps_strong = 0;
    typename AmgS::params ps; ps.coarse_enough = ce; ps.coarsening.aggr.eps_strong = 0;
    AmgE Pe(Ke, pe); AmgS Ps(Ks, ps);
    auto shape = [](const std::string &rep) { size_t p0 = rep.find("level     unknowns"); return p0 == std::string::npos ? rep : rep.substr(p0); }; // level table without memory figures? keep unknowns/nonzeros columns
    std::ostringstream oe, os; oe << Pe; os << Ps;
    auto table = [&](const std::string &rep) { // "level unknowns nonzeros" triples
        std::vector<long> v; std::istringstream is(shape(rep)); std::string line; std::getline(is, line); std::getline(is, line);
        while (std::getline(is, line)) { std::istringstream ls(line); long lv, un, nz; if (ls >> lv >> un >> nz) { v.push_back(lv); v.push_back(un); v.push_back(nz); } }
        return v;
    };
    std::vector<long> te = table(oe.str()), ts = table(os.str());
    VF_REQUIRE(!te.empty() && te == ts, "amg<Eigen block> and amg<static_matrix> build hierarchies of different shape for the same block matrix:\n" << oe.str() << "\nvs\n" << os.str());
    c.label("evs:levels=" + std::to_string(std::min<size_t>(te.size() / 3, 4)));
    long double worst = 0;
    for (int k = 0; k < 3; ++k) {
        std::vector<double> r = gen_vec(t, n, k == 0 ? 0 : 2), ye(n, 0.0), ys(n, 0.0);
        auto R = ab::reinterpret_as_rhs<eblk>(r); auto Ye = ab::reinterpret_as_rhs<eblk>(ye);
        Pe.apply(R, Ye);
        auto Rs = ab::reinterpret_as_rhs<sblk>(r); auto Ys = ab::reinterpret_as_rhs<sblk>(ys);
        Ps.apply(Rs, Ys);
        long double num = 0, den = 0;
        for (size_t i = 0; i < n; ++i) { VF_REQUIRE(std::isfinite(ye[i]) && std::isfinite(ys[i]), "non-finite preconditioner output"); long double d = static_cast<long double>(ye[i]) - ys[i]; num += d * d; den += static_cast<long double>(ys[i]) * ys[i]; }
        if (den > 0) worst = std::max(worst, std::sqrt(num / den));
    }
    // same algorithms, different rounding (Eigen inverts small blocks by cofactors, static_matrix by LU; product order): agreement to
    // c*u*n with c = 1000 (calibrated on the unchanged tree: ratio <= 10 in all of 15000 cases, see the labels)
    long double ratio = worst / (U * static_cast<long double>(n));
    c.label(ratio <= 10 ? "evs:diff<=10un" : ratio <= 1e3 ? "evs:diff<=1e3un" : "evs:diff>1e3un");
    VF_REQUIRE(ratio <= 1e3L, "amg<Eigen block>::apply differs from amg<static_matrix>::apply by " << static_cast<double>(worst) << " (relative 2-norm) on the same block matrix; rounding-level agreement expected (bound "
               << static_cast<double>(1e3L * U * n) << ")");
    // ---- solve with the Eigen formulation
    try {
        typedef amgcl::make_solver<AmgE, amgcl::solver::bicgstab<EB>> Solver;
        typename Solver::params p; p.solver.tol = 1e-8; p.solver.maxiter = 1000; p.precond = pe;
        auto Ab = amgcl::adapter::block_matrix<eblk>(As);
        Solver solve(Ab, p);
        std::vector<double> x(n, 0.0);
        auto F = ab::reinterpret_as_rhs<eblk>(f); auto X = ab::reinterpret_as_rhs<eblk>(x);
        size_t iters; double resid;
        std::tie(iters, resid) = solve(Ab, F, X);
        require_truthful(c, "amg<Eigen block>+bicgstab, non-symmetric blocks", A, f, x, iters, resid, 1e-8, 1000, model);
        c.label(iters <= 20 ? "evs:iters<=20" : iters <= 60 ? "evs:iters<=60" : "evs:iters>60");
    } catch (const vf::Fail &) { throw; }
      catch (const std::runtime_error &e) { if (std::string(e.what()).find("in BiCGStab") != std::string::npos) c.label(model ? "breakdown(model):evs" : "breakdown:evs"); else throw; }
}

static std::vector<Prop> props() {
    return {
        Prop("eigen2", prop_eigen<2>, 150, 3000, 100, 60, {1}, 1, 4),
        Prop("eigen3", prop_eigen<3>, 150, 3000, 100, 80, {1}, 1, 4),
        Prop("eigen4", prop_eigen<4>, 150, 3000, 100, 100, {1}, 1, 4),
        Prop("eigen_vs_static2", prop_eigen_vs_static<2>, 250, 4000, 100, 80, {1}, 1, 4),
        Prop("eigen_vs_static3", prop_eigen_vs_static<3>, 250, 4000, 100, 100, {1}, 1, 4),
    };
}
static std::vector<Enum> enums() { return {}; }

VF_MAIN(props(), enums())
