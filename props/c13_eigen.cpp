// C13 (Eigen fixed-size blocks as value type, amgcl/value_type/eigen.hpp) — same oracles as c13_block.cpp:
// the block matrix obtained through adapter::block_matrix<Eigen::Matrix<double,B,B>> has exactly the entries of the
// scalar matrix, its SpMV agrees with the scalar product within the summation-order bound, and the solution of
// amg<builtin<Eigen block>> + BiCGStab has a truthful residual w.r.t. the scalar system and reaches the tolerance.
#include <amgcl/backend/builtin.hpp>
#include <amgcl/value_type/eigen.hpp>
#include <amgcl/adapter/crs_tuple.hpp>
#include <amgcl/adapter/block_matrix.hpp>
#include <amgcl/make_solver.hpp>
#include <amgcl/amg.hpp>
#include <amgcl/coarsening/smoothed_aggregation.hpp>
#include <amgcl/relaxation/spai0.hpp>
#include <amgcl/solver/bicgstab.hpp>
#include "../common/harness.hpp"
#include "../common/gen.hpp"
#include "../common/dense.hpp"
#include "../common/amgcl_util.hpp"
#include "c13_common.hpp"

using namespace vf;
using namespace c13;
namespace ab = amgcl::backend;

template <int B>
static void prop_eigen(Tape &t, Ctx &c) {
    typedef Eigen::Matrix<double, B, B> blk;
    typedef Eigen::Matrix<double, B, 1> rhsb;
    typedef ab::builtin<blk> EB;
    BlockCase bc = gen_block_case(t, B, t.chance(1, 4) ? 6 : 48);
    const Csr<double> &A = bc.A;
    std::string fk; std::vector<double> f = gen_rhs(t, A, fk);
    std::vector<double> xv = gen_vec(t, A.n), y0 = gen_vec(t, A.n);
    double alpha = t.b() ? 1.0 : static_cast<double>(t.u(-3, 3)), beta = t.b() ? 0.0 : static_cast<double>(t.u(-3, 3));
    int cec = static_cast<int>(t.u(0, 2));
    unsigned ce = cec == 0 ? 12 : cec == 1 ? 4 : 3000;
    double tol = 1e-8; const size_t maxiter = 1000;
    c.desc << "eigen blocks b=" << B << " kind=" << bc.kind << " " << bc.family << " nb=" << bc.nb << " " << describe(A) << " incomplete=" << bc.incomplete << "/" << bc.blocks
           << " rhs=" << fk << " coarse_enough=" << ce << " alpha=" << alpha << " beta=" << beta << " A=" << dump_small(A, 8);
    c.nontrivial = bc.incomplete > 0 && bc.nb >= 2;
    c.label("eigen:b=" + std::to_string(B)); c.label("kind=" + std::to_string(bc.kind)); c.label("fam:" + bc.family); c.label(size_bucket(bc.nb));
    c.label(bc.incomplete ? "incomplete-block" : "all-blocks-full");

    size_t n = static_cast<size_t>(A.n);
    const ptrdiff_t nb = bc.nb;
    auto As = std::tie(n, A.ptr, A.col, A.val);
    auto Ab = amgcl::adapter::block_matrix<blk>(As);
    // ---- entries
    Dense<double> D(A.n, A.n); Dense<int> P(nb, nb);
    for (ptrdiff_t i = 0; i < A.n; ++i) for (ptrdiff_t j = A.ptr[i]; j < A.ptr[i + 1]; ++j) { D(i, A.col[j]) = A.val[j]; P(i / B, A.col[j] / B) = 1; }
    ab::crs<blk> Bc(Ab);
    require_wellformed(Bc, "crs<Eigen block>(block_matrix)", true, true);
    VF_REQUIRE(static_cast<ptrdiff_t>(Bc.nrows) == nb && static_cast<ptrdiff_t>(Bc.ncols) == nb && static_cast<long>(Bc.nnz) == bc.blocks, "crs<Eigen block>: shape/nnz " << Bc.nrows << "x" << Bc.ncols << " nnz " << Bc.nnz);
    for (ptrdiff_t I = 0; I < nb; ++I) {
        std::vector<int> seen(nb, 0);
        for (ptrdiff_t j = Bc.ptr[I]; j < Bc.ptr[I + 1]; ++j) {
            ptrdiff_t J = Bc.col[j]; seen[J] = 1;
            VF_REQUIRE(P(I, J), "crs<Eigen block>: block (" << I << "," << J << ") invented");
            for (int k = 0; k < B; ++k) for (int l = 0; l < B; ++l)
                VF_REQUIRE(Bc.val[j](k, l) == D(I * B + k, J * B + l), "crs<Eigen block>: block (" << I << "," << J << ") entry (" << k << "," << l << ") = " << Bc.val[j](k, l) << " scalar " << D(I * B + k, J * B + l));
        }
        for (ptrdiff_t J = 0; J < nb; ++J) VF_REQUIRE(seen[J] == P(I, J), "crs<Eigen block>: block (" << I << "," << J << ") missing");
    }
    // ---- SpMV (block vectors and reinterpreted scalar vectors)
    {
        std::vector<std::complex<long double>> ref; std::vector<long double> S;
        ref_spmv(A, xv, alpha, beta, y0, ref, S);
        long double cmax = 0; for (ptrdiff_t I = 0; I < nb; ++I) cmax = std::max<long double>(cmax, static_cast<long double>(Bc.ptr[I + 1] - Bc.ptr[I]));
        long double cb = 2 * (B * cmax + 4);
        std::vector<double> Y = y0;
        ab::spmv(alpha, Bc, xv, beta, Y);
        require_spmv(Y, ref, S, cb, "spmv(crs<Eigen block>, scalar vectors)");
        std::vector<rhsb> X(nb), Yb(nb);
        for (ptrdiff_t I = 0; I < nb; ++I) for (int k = 0; k < B; ++k) { X[I](k) = xv[I * B + k]; Yb[I](k) = y0[I * B + k]; }
        ab::spmv(alpha, Ab, X, beta, Yb);
        std::vector<double> Yf(A.n); for (ptrdiff_t I = 0; I < nb; ++I) for (int k = 0; k < B; ++k) Yf[I * B + k] = Yb[I](k);
        require_spmv(Yf, ref, S, cb, "spmv(block_matrix<Eigen block>, Eigen block vectors)");
    }
    // ---- solve (convergence is demanded on the model kinds only, see c13_block.cpp)
    c.label(bc.model() ? "model" : "non-model(truthfulness only)");
    try {
        typedef amgcl::make_solver<amgcl::amg<EB, amgcl::coarsening::smoothed_aggregation, amgcl::relaxation::spai0>, amgcl::solver::bicgstab<EB>> Solver;
        typename Solver::params p; p.solver.tol = tol; p.solver.maxiter = maxiter; p.precond.coarse_enough = ce;
        Solver solve(Ab, p);
        std::vector<double> x(n, 0.0);
        auto F = ab::reinterpret_as_rhs<blk>(f); auto X = ab::reinterpret_as_rhs<blk>(x);
        size_t iters; double resid;
        std::tie(iters, resid) = solve(Ab, F, X);
        require_truthful(c, "amg<Eigen block>+bicgstab", A, f, x, iters, resid, tol, maxiter, bc.model());
    } catch (const vf::Fail &) { throw; }
      catch (const std::runtime_error &e) {
        if (!bc.model() && std::string(e.what()).find("BiCGStab") != std::string::npos) c.label("breakdown:eigen");
        else throw;
    }
}

static std::vector<Prop> props() {
    return {
        Prop("eigen2", prop_eigen<2>, 150, 3000, 100, 60, {1}, 1, 4),
        Prop("eigen3", prop_eigen<3>, 150, 3000, 100, 80, {1}, 1, 4),
        Prop("eigen4", prop_eigen<4>, 150, 3000, 100, 100, {1}, 1, 4),
    };
}
static std::vector<Enum> enums() { return {}; }

VF_MAIN(props(), enums())
