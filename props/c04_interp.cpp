// C04 — interpolation is exact on the near-null space; aggregates partition the grid.
//
// Oracles (see c04_checks.hpp): strength flags recomputed from the definition a_ij^2 > eps^2 a_ii a_jj, partition
// validity predicates, tentative prolongation algebra (disjoint supports, P^T P = I, P*B_c = B) with Householder
// rounding bounds, smoothed aggregation against (I - w D^-1 A_F) P_tent evaluated in long double, row sums of the
// smoothed-aggregation and Ruge-Stuben interpolation, and the lifting identity P(A (x) I_b) = P(A) (x) I_b
// (bitwise for aggregation / smoothed aggregation, rounding model for the energy-minimising variant).
#include "c04_checks.hpp"

using namespace vf;
using namespace c04;
namespace co = amgcl::coarsening;

template <class C>
static bool run_transfer(C &cz, const Csr<double> &A, Csr<double> &P, Csr<double> &R) {
    auto a = to_crs<double>(A);
    try {
        auto pr = cz.transfer_operators(*a);
        require_wellformed(*std::get<0>(pr), "P");
        require_wellformed(*std::get<1>(pr), "R");
        P = from_crs(*std::get<0>(pr)); R = from_crs(*std::get<1>(pr));
        return true;
    } catch (const amgcl::error::empty_level &) { return false; }
}

// symmetric value families for the row-sum clauses: mmat, mmat-int, ddom-sym, ddom-sym-int and (three times) sym-mixed-zero:
// symmetric, mixed-sign off-diagonals, exactly zero row sums (dyadic values) -> F-rows whose positive couplings have no strong C-neighbour
static const unsigned SYM_FAMILIES = (1u << 0) | (1u << 1) | (1u << 6) | (1u << 7) | (1u << 8) | (1u << 9) | (1u << 10);

static bool dyadic_eps(float e) { return e == 0.5f || e == 0.25f || e == 0.125f; }

static Csr<double> negated(const Csr<double> &A) { Csr<double> B = A; for (auto &v : B.val) v = -v; return B; }

static int size_class(Tape &t, int small, int medium, int large) {
    switch (t.u(0, 3)) { case 0: return small; case 1: case 2: return medium; default: return large; }
}

static std::string bucket(ptrdiff_t n) { return n <= 8 ? "n<=8" : n <= 40 ? "n<=40" : n <= 120 ? "n<=120" : "n>120"; }

// null-space candidates: n x k, row major
static std::vector<double> gen_nullspace(Tape &t, ptrdiff_t n, int k, std::string &kind) {
    std::vector<double> B(static_cast<size_t>(n * k));
    int kd = static_cast<int>(t.u(0, 3));
    kind = kd == 0 ? "ones+uniform" : kd == 1 ? "uniform" : kd == 2 ? "wide" : "coords";
    for (ptrdiff_t i = 0; i < n; ++i) for (int l = 0; l < k; ++l) {
        double v;
        switch (kd) {
        case 0: v = l == 0 ? 1.0 : t.uni(-1.0, 1.0); break;
        case 1: v = t.uni(-1.0, 1.0); break;
        case 2: v = t.slogu(1e-4, 1e4); break;
        default: v = l == 0 ? 1.0 : std::pow(static_cast<double>(i % 17) + t.uni(0.0, 0.5), l); break; // polynomial-like modes
        }
        B[i * k + l] = v;
    }
    return B;
}

// block expansion of a scalar matrix: 0 A (x) I_b, 1 A (x) I_b with stored zeros, 2 A (x) dense block (some entries structurally absent)
static Csr<double> gen_block_form(Tape &t, const Csr<double> &A, int b, std::string &form, bool &integer_block) {
    integer_block = true;
    if (b == 1) { form = "scalar"; return A; }
    int f = static_cast<int>(t.u(0, 2));
    if (f == 0) { form = "kronI"; return cm::kron_identity(A, b, false); }
    if (f == 1) { form = "kronI+zeros"; return cm::kron_identity(A, b, true); }
    form = "kronDense";
    std::vector<double> Bk(b * b);
    bool ints = t.b();
    integer_block = ints;
    for (int p = 0; p < b; ++p) for (int q = 0; q < b; ++q) {
        if (p == q) Bk[p * b + q] = ints ? static_cast<double>(t.u(2, 4)) : t.uni(1.0, 2.0);
        else Bk[p * b + q] = t.chance(1, 4) ? 0.0 : (ints ? static_cast<double>(t.u(-1, 1)) : t.uni(-0.5, 0.5));
    }
    return cm::kron(A, b, Bk, false);
}

static void nt_labels(Ctx &c, const Aggr &ag, int b, int k) {
    bool multi = !ag.empty && ag.count / b >= 2;
    bool removed = ag.removed > 0;
    c.nontrivial = (multi && removed) || k >= 2 || b >= 2;
    c.label(ag.empty ? "aggr:empty-level" : multi ? "aggr:>=2" : "aggr:1");
    if (removed) c.label("has-removed-node");
    if (multi && removed) c.label("nt:multi+removed");
    if (ag.small_removed) c.label("small-aggregate-removed");
    if (ag.all_small) c.label("aggr:all-smaller-than-min_aggregate(empty-level)");
    if (ag.st.ties) c.label("strength-near-tie");
    if (ag.st.boundary) c.label("strength-boundary-hit");
    if (ag.st.strong && ag.st.weak > static_cast<long>(ag.id.size())) c.label("strong+weak-offdiag");
}

// ------------------------------------------------------------------ aggregates (random)
static void prop_aggregates(Tape &t, Ctx &c) {
    int b = t.b() ? 1 : static_cast<int>(t.u(2, 4));
    int nmax = b == 1 ? size_class(t, 8, 40, 300) : size_class(t, 5, 20, 100);
    cm::MatInfo info;
    Csr<double> A = cm::gen_matrix(t, nmax, info);
    bool neg = t.chance(1, 8);
    if (neg) A = negated(A);
    std::string form; bool intblock;
    Csr<double> K = gen_block_form(t, A, b, form, intblock);
    float eps = cm::gen_eps_strong(t);
    unsigned min_aggr = static_cast<unsigned>(t.u(0, 4));
    bool exact = info.integer && intblock && dyadic_eps(eps);
    c.desc << "aggregates " << info.family << "/" << info.graph << " n=" << A.n << " b=" << b << " form=" << form << " eps_strong=" << cm::fmt_float(eps) << " min_aggregate=" << min_aggr
           << (neg ? " negated" : "") << " threads=" << c.threads << " exact=" << exact << " K=" << dump_small(K, 10);
    Aggr ag = check_aggregates(K, eps, b, min_aggr, exact, "aggregates");
    nt_labels(c, ag, b, 0);
    c.label("fam:" + info.family); c.label("graph:" + info.graph); c.label("b=" + std::to_string(b)); c.label("form:" + form); c.label(bucket(A.n));
    c.label(exact ? "exact-threshold" : "rounded-threshold");
    if (!info.struct_symmetric) c.label("nonsym-pattern");
}

// ------------------------------------------------------------------ tentative prolongation (through aggregation::transfer_operators)
static void prop_tentative(Tape &t, Ctx &c) {
    int b = t.chance(2, 3) ? 1 : static_cast<int>(t.u(2, 3));
    int k = static_cast<int>(t.u(0, 4));
    int nmax = b == 1 ? size_class(t, 8, 40, 300) : size_class(t, 5, 20, 100);
    cm::MatInfo info;
    Csr<double> A = cm::gen_matrix(t, nmax, info);
    std::string form; bool intblock;
    Csr<double> K = gen_block_form(t, A, b, form, intblock);
    float eps = cm::gen_eps_strong(t);
    std::string bkind = "none";
    std::vector<double> B; if (k > 0) B = gen_nullspace(t, K.n, k, bkind);
    bool exact = info.integer && intblock && dyadic_eps(eps);
    c.desc << "tentative " << info.family << "/" << info.graph << " n=" << A.n << " b=" << b << " form=" << form << " eps_strong=" << cm::fmt_float(eps) << " nullspace.cols=" << k << " B:" << bkind
           << " threads=" << c.threads << " K=" << dump_small(K, 10);
    Aggr ag = check_aggregates(K, eps, b, static_cast<unsigned>(k), exact, "tentative/aggregates");
    nt_labels(c, ag, b, k);
    c.label("fam:" + info.family); c.label("b=" + std::to_string(b)); c.label("nullspace=" + std::to_string(k)); c.label(bucket(A.n)); if (k) c.label("B:" + bkind);
    typedef co::aggregation<Backend> C;
    C::params prm; prm.aggr.eps_strong = eps; prm.aggr.block_size = static_cast<unsigned>(b); prm.nullspace.cols = k; prm.nullspace.B = B;
    C cz(prm);
    Csr<double> P, R;
    bool ok = run_transfer(cz, K, P, R);
    VF_REQUIRE(ok == !ag.empty, "aggregation::transfer_operators " << (ok ? "returned operators" : "signalled an empty level") << " but the aggregates are " << (ag.empty ? "empty" : "not empty"));
    if (!ok) return;
    VF_REQUIRE(cz.prm.nullspace.cols == k, "nullspace.cols changed to " << cz.prm.nullspace.cols);
    TentStats ts = check_tentative(P, ag.id, ag.count, b, k, B, cz.prm.nullspace.B, "tentative prolongation");
    require_transpose(P, R, "aggregation R vs P");
    if (ts.max_d > k && k > 0) c.label("aggregate-larger-than-nullspace");
    if (k > 0 && ts.max_repro > 0.1) c.label("repro-err>0.1tol");
    if (k > 0 && ts.max_orth > 0.1) c.label("orth-err>0.1tol");
}

// ------------------------------------------------------------------ tentative_prolongation() called directly on an arbitrary partition
// (public function; aggregates may be smaller than the number of null-space vectors: regression for the QR::R over-read, fix 77a4205)
static void prop_tentative_direct(Tape &t, Ctx &c) {
    int b = t.chance(3, 4) ? 1 : 2;
    int k = static_cast<int>(t.u(1, 4));
    ptrdiff_t np = static_cast<ptrdiff_t>(t.u(1, t.b() ? 6 : 40));          // grid nodes
    int nba = static_cast<int>(t.u(1, std::max<ptrdiff_t>(1, np)));         // aggregates (many small ones when nba ~ np)
    std::vector<ptrdiff_t> pid(np);
    // every aggregate gets one node first (non-empty), the rest go to a tape-chosen aggregate or stay outside (-1 / -2)
    std::vector<ptrdiff_t> order(np); for (ptrdiff_t i = 0; i < np; ++i) order[i] = i;
    for (ptrdiff_t a = np; a > 1; --a) std::swap(order[a - 1], order[t.pick(a)]);
    for (ptrdiff_t i = 0; i < np; ++i) {
        if (i < nba) pid[order[i]] = i;
        else { int w = static_cast<int>(t.u(0, nba + 1)); pid[order[i]] = w < nba ? w : (w == nba ? -1 : -2); }
    }
    ptrdiff_t n = np * b; size_t count = static_cast<size_t>(nba) * b;
    std::vector<ptrdiff_t> id(n);
    for (ptrdiff_t ip = 0; ip < np; ++ip) for (int q = 0; q < b; ++q) id[ip * b + q] = pid[ip] >= 0 ? pid[ip] * b + q : pid[ip] * b + q; // negative stays negative
    for (ptrdiff_t i = 0; i < n; ++i) if (id[i] >= 0 && pid[i / b] < 0) id[i] = -1;
    std::string bkind; std::vector<double> B = gen_nullspace(t, n, k, bkind);
    std::vector<ptrdiff_t> sz(nba, 0); for (ptrdiff_t ip = 0; ip < np; ++ip) if (pid[ip] >= 0) sz[pid[ip]] += b;
    ptrdiff_t dmin = n, dmax = 0; long shortc = 0; for (int a = 0; a < nba; ++a) { dmin = std::min(dmin, sz[a]); dmax = std::max(dmax, sz[a]); if (sz[a] < k) ++shortc; }
    c.desc << "tentative_prolongation(direct) n=" << n << " block_size=" << b << " aggregates=" << nba << " rows per aggregate " << dmin << ".." << dmax << " nullspace.cols=" << k << " B:" << bkind << " threads=" << c.threads << " id={";
    if (n <= 16) for (ptrdiff_t i = 0; i < n; ++i) c.desc << (i ? " " : "") << id[i];
    c.desc << "}";
    c.nontrivial = k >= 2 && nba >= 1;
    c.label("nullspace=" + std::to_string(k)); c.label("b=" + std::to_string(b)); c.label(shortc ? "aggregate-smaller-than-nullspace" : "all-aggregates>=nullspace");
    if (dmin == 1) c.label("single-row-aggregate");
    co::nullspace_params ns; ns.cols = k; ns.B = B;
    auto P = co::tentative_prolongation<Mat>(static_cast<size_t>(n), count, id, ns, b);
    require_wellformed(*P, "tentative_prolongation");
    VF_REQUIRE(ns.cols == k, "nullspace.cols changed");
    TentStats ts = check_tentative(from_crs(*P), id, count, b, k, B, ns.B, "tentative_prolongation(direct)", true);
    VF_REQUIRE(ts.short_aggregates == shortc, "harness: short aggregate count");
}

// ------------------------------------------------------------------ lifting
static void lifting_checks(Ctx &c, const Csr<double> &A, const cm::MatInfo &info, int b, bool keep_zeros, float eps, int which, float relax, bool est) {
    Csr<double> K = cm::kron_identity(A, b, keep_zeros);
    bool exact = info.integer && dyadic_eps(eps);
    if (which == 0) {
        typedef co::aggregation<Backend> C;
        C::params p1; p1.aggr.eps_strong = eps; C::params pb = p1; pb.aggr.block_size = b;
        C c1(p1), cb(pb); Csr<double> P, R, Pb, Rb;
        bool ok1 = run_transfer(c1, A, P, R), okb = run_transfer(cb, K, Pb, Rb);
        VF_REQUIRE(ok1 == okb, "aggregation lifting: scalar coarsening " << (ok1 ? "succeeds" : "is empty") << " but block coarsening " << (okb ? "succeeds" : "is empty"));
        if (!ok1) { c.label("lift:empty"); return; }
        require_lifted_bitwise(Pb, P, b, keep_zeros, "aggregation P(A (x) I_b)");
        require_lifted_bitwise(Rb, R, b, keep_zeros, "aggregation R(A (x) I_b)");
        c.label("lift:aggregation");
    } else if (which == 1) {
        typedef co::smoothed_aggregation<Backend> C;
        C::params p1; p1.aggr.eps_strong = eps; p1.relax = relax; p1.estimate_spectral_radius = est; p1.power_iters = 0;
        C::params pb = p1; pb.aggr.block_size = b;
        C c1(p1), cb(pb); Csr<double> P, R, Pb, Rb;
        bool ok1 = run_transfer(c1, A, P, R), okb = run_transfer(cb, K, Pb, Rb);
        VF_REQUIRE(ok1 == okb, "smoothed_aggregation lifting: scalar coarsening " << (ok1 ? "succeeds" : "is empty") << " but block coarsening " << (okb ? "succeeds" : "is empty"));
        if (!ok1) { c.label("lift:empty"); return; }
        require_lifted_bitwise(Pb, P, b, keep_zeros, "smoothed_aggregation P(A (x) I_b)");
        require_lifted_bitwise(Rb, R, b, keep_zeros, "smoothed_aggregation R(A (x) I_b)");
        c.label("lift:smoothed_aggregation");
    } else {
        typedef co::smoothed_aggr_emin<Backend> C;
        C::params p1; p1.aggr.eps_strong = eps; C::params pb = p1; pb.aggr.block_size = b;
        // rounding model from the scalar problem
        Aggr ag = check_aggregates(A, eps, 1, 0, exact, "emin lifting/aggregates");
        if (ag.empty) {
            C cb(pb); Csr<double> Pb, Rb;
            VF_REQUIRE(!run_transfer(cb, K, Pb, Rb), "smoothed_aggr_emin lifting: scalar coarsening is empty but block coarsening succeeds");
            c.label("lift:empty"); return;
        }
        co::aggregation<Backend>::params pa; pa.aggr.eps_strong = eps;
        co::aggregation<Backend> ca(pa); Csr<double> Pt, Rt;
        VF_REQUIRE(run_transfer(ca, A, Pt, Rt), "harness: tentative prolongation unexpectedly empty");
        EminModel em = emin_model(A, ag.strong, Pt, info.integer); // exactness of the values (integer / dyadic), not of the strength threshold
        C c1(p1), cb(pb); Csr<double> P, R, Pb, Rb;
        bool ok1 = run_transfer(c1, A, P, R), okb = run_transfer(cb, K, Pb, Rb);
        VF_REQUIRE(ok1 && okb, "smoothed_aggr_emin lifting: empty level although aggregates exist");
        // a vanishing filtered diagonal / omega denominator must never produce inf/NaN (fixed in /repo by a58f297)
        for (const Csr<double> *X : {&P, &R, &Pb, &Rb}) for (double v : X->val) VF_REQUIRE(std::isfinite(v), "smoothed_aggr_emin: non-finite value " << v << " in a transfer operator");
        if (em.unmodelled) {
            // a filtered diagonal or a denominator of omega_c is rounding noise: the two evaluations are only comparable when they sum in the same order
            c.label("lift:emin-rounding-model-skipped");
            if (c.threads == 1) { require_lifted_bitwise(Pb, P, b, keep_zeros, "smoothed_aggr_emin (1 thread) P(A (x) I_b)"); require_lifted_bitwise(Rb, R, b, keep_zeros, "smoothed_aggr_emin (1 thread) R(A (x) I_b)"); }
            return;
        }
        if (em.guarded) c.label("lift:emin-guarded-zero-diagonal-or-denominator");
        ld w1 = require_lifted_within(Pb, P, b, em.tolP, "smoothed_aggr_emin P(A (x) I_b)");
        ld w2 = require_lifted_within(Rb, R, b, em.tolR, "smoothed_aggr_emin R(A (x) I_b)");
        c.label("lift:smoothed_aggr_emin");
        if (std::max(w1, w2) > 0.01) c.label("lift:emin-err>0.01tol");
        bool bit = true;
        { auto g = entries(Pb, true), e = entries(lift(P, b), true); if (g.size() != e.size()) bit = false; else for (auto &kv : e) { auto it = g.find(kv.first); if (it == g.end() || it->second != kv.second) { bit = false; break; } } }
        c.label(bit ? "lift:emin-bitwise-equal" : "lift:emin-rounding-differs");
    }
}

static void prop_lifting(Tape &t, Ctx &c) {
    int b = static_cast<int>(t.u(2, 4));
    int nmax = size_class(t, 6, 30, 100);
    cm::MatInfo info;
    Csr<double> A = cm::gen_matrix(t, nmax, info);
    float eps = cm::gen_eps_strong(t);
    bool keep_zeros = t.chance(1, 3);
    int which = static_cast<int>(t.u(0, 2));
    float relax = t.b() ? 1.0f : static_cast<float>(t.uni(0.5, 1.5));
    bool est = t.b();
    c.desc << "lifting " << (which == 0 ? "aggregation" : which == 1 ? "smoothed_aggregation" : "smoothed_aggr_emin") << " " << info.family << "/" << info.graph << " n=" << A.n << " b=" << b << " stored_zeros=" << keep_zeros
           << " eps_strong=" << cm::fmt_float(eps) << " relax=" << cm::fmt_float(relax) << " estimate_spectral_radius=" << est << " threads=" << c.threads << " A=" << dump_small(A, 10);
    c.nontrivial = A.nnz() > A.n; // block_size >= 2 always; need at least one off-diagonal coupling
    c.label("fam:" + info.family); c.label("b=" + std::to_string(b)); c.label(keep_zeros ? "stored-zeros" : "pure-kron"); c.label(bucket(A.n));
    if (!info.struct_symmetric) c.label("nonsym-pattern");
    lifting_checks(c, A, info, b, keep_zeros, eps, which, relax, est);
}

// ------------------------------------------------------------------ smoothed aggregation formula + row sums
static double sa_omega(const Csr<double> &K, float relax, bool est, int power_iters, ld &reltol, Ctx &c) {
    reltol = 0;
    if (!est) return static_cast<double>(relax) * (2.0 / 3);
    double rho;
    if (power_iters <= 0) { // Gershgorin bound of D^-1 A, recomputed
        ld r = 0;
        for (ptrdiff_t i = 0; i < K.n; ++i) { ld s = 0, d = 1; for (ptrdiff_t j = K.ptr[i]; j < K.ptr[i + 1]; ++j) { s += std::abs(static_cast<ld>(K.val[j])); if (K.col[j] == i) d = K.val[j]; } r = std::max(r, s / std::abs(d)); }
        rho = static_cast<double>(r); reltol = 4 * U * 64;
    } else { // power iteration from a pseudo-random start: the library routine (checked in C08) is the sub-oracle
        auto a = to_crs<double>(K);
        rho = amgcl::backend::spectral_radius<true>(*a, power_iters);
        reltol = c.threads > 1 ? 1e-12L : 4 * U; // the norm of the start vector is reduced in thread arrival order
        c.label("omega:power-iteration");
    }
    return static_cast<double>(relax) * (4.0 / 3) / rho;
}

static SaStats sa_checks(Ctx &c, const Csr<double> &K, const cm::MatInfo &info, bool intblock, int b, int k, const std::vector<double> &B, float eps, float relax, bool est, int power_iters, bool rowsum_domain) {
    SaStats none;
    bool exact = info.integer && intblock && dyadic_eps(eps);
    Aggr ag = check_aggregates(K, eps, b, static_cast<unsigned>(k), exact, "smoothed_aggregation/aggregates");
    nt_labels(c, ag, b, k);
    typedef co::smoothed_aggregation<Backend> C;
    C::params prm; prm.aggr.eps_strong = eps; prm.aggr.block_size = static_cast<unsigned>(b); prm.nullspace.cols = k; prm.nullspace.B = B;
    prm.relax = relax; prm.estimate_spectral_radius = est; prm.power_iters = power_iters;
    C cz(prm); Csr<double> P, R;
    bool ok = run_transfer(cz, K, P, R);
    VF_REQUIRE(ok == !ag.empty, "smoothed_aggregation::transfer_operators " << (ok ? "returned operators" : "signalled an empty level") << " but the aggregates are " << (ag.empty ? "empty" : "not empty"));
    if (!ok) return none;
    require_transpose(P, R, "smoothed_aggregation R vs P");
    VF_REQUIRE(cz.prm.aggr.eps_strong == eps * 0.5f, "eps_strong after one level is " << cz.prm.aggr.eps_strong << ", expected halved " << eps * 0.5f);
    // tentative prolongation with the same parameters (checked on its own)
    co::aggregation<Backend>::params pa; pa.aggr = prm.aggr; pa.nullspace = prm.nullspace;
    co::aggregation<Backend> ca(pa); Csr<double> Pt, Rt;
    VF_REQUIRE(run_transfer(ca, K, Pt, Rt), "harness: tentative prolongation unexpectedly empty");
    check_tentative(Pt, ag.id, ag.count, b, k, B, ca.prm.nullspace.B, "tentative prolongation");
    if (k > 0) {
        VF_REQUIRE(cz.prm.nullspace.B.size() == ca.prm.nullspace.B.size(), "coarse null-space size differs between aggregation and smoothed_aggregation");
        for (size_t i = 0; i < ca.prm.nullspace.B.size(); ++i) VF_REQUIRE(std::memcmp(&cz.prm.nullspace.B[i], &ca.prm.nullspace.B[i], sizeof(double)) == 0, "coarse null-space entry " << i << " differs between aggregation and smoothed_aggregation");
    }
    ld reltol; double omega = sa_omega(K, relax, est, power_iters, reltol, c);
    SaStats ss = check_sa_formula(K, ag.strong, Pt, P, omega, reltol, rowsum_domain && k == 0 && b == 1, ag.id, "smoothed_aggregation");
    if (ss.zero_fdiag) c.label("sa:zero-filtered-diagonal-row-skipped");
    if (ss.rowsum_rows) c.label("sa:rowsum-checked");
    if (ss.worst > 0.05) c.label("sa:err>0.05tol");
    return ss;
}

static void prop_sa(Tape &t, Ctx &c) {
    // one third of the cases aim at the row-sum clause: scalar, constant null-space, symmetric families
    bool rowsum_focus = t.chance(1, 3);
    int b = rowsum_focus || t.chance(3, 4) ? 1 : static_cast<int>(t.u(2, 3));
    int k = rowsum_focus || t.chance(1, 2) ? 0 : static_cast<int>(t.u(1, 3));
    int nmax = b == 1 ? size_class(t, 8, 40, 300) : size_class(t, 5, 20, 80);
    cm::MatInfo info;
    Csr<double> A = rowsum_focus ? cm::gen_matrix(t, nmax, info, SYM_FAMILIES, false) : cm::gen_matrix(t, nmax, info);
    std::string form; bool intblock;
    Csr<double> K = gen_block_form(t, A, b, form, intblock);
    float eps = cm::gen_eps_strong(t);
    float relax = t.b() ? 1.0f : static_cast<float>(t.uni(0.5, 1.5));
    bool est = t.b();
    int pit = est && t.chance(1, 3) ? static_cast<int>(t.u(1, 6)) : 0;
    std::string bkind = "none";
    std::vector<double> B; if (k > 0) B = gen_nullspace(t, K.n, k, bkind);
    c.desc << "smoothed_aggregation " << info.family << "/" << info.graph << " n=" << A.n << " b=" << b << " form=" << form << " eps_strong=" << cm::fmt_float(eps) << " relax=" << cm::fmt_float(relax)
           << " estimate_spectral_radius=" << est << " power_iters=" << pit << " nullspace.cols=" << k << " B:" << bkind << " symmetric=" << info.value_symmetric << " zero-row-sum rows=" << info.zero_rowsum_rows
           << " threads=" << c.threads << " K=" << dump_small(K, 10);
    c.label("fam:" + info.family); c.label("b=" + std::to_string(b)); c.label("nullspace=" + std::to_string(k)); c.label(bucket(A.n)); c.label(est ? (pit ? "omega:power" : "omega:gershgorin") : "omega:2/3");
    if (info.value_symmetric) c.label("symmetric-values");
    sa_checks(c, K, info, intblock, b, k, B, eps, relax, est, pit, info.value_symmetric);
}

// ------------------------------------------------------------------ Ruge-Stuben row sums (symmetric A), truncation boundary
static RsStats rs_checks(Ctx &c, const Csr<double> &A, float eps, bool do_trunc, float eps_trunc) {
    typedef co::ruge_stuben<Backend> C;
    C::params prm; prm.eps_strong = eps; prm.do_trunc = do_trunc; prm.eps_trunc = eps_trunc;
    C cz(prm); Csr<double> P, R;
    bool ok = run_transfer(cz, A, P, R);
    bool any_neg = false;
    for (ptrdiff_t i = 0; i < A.n; ++i) for (ptrdiff_t j = A.ptr[i]; j < A.ptr[i + 1]; ++j) if (A.col[j] != i && A.val[j] < 0) any_neg = true;
    RsStats none;
    if (!ok) { c.label("rs:empty-level"); return none; }
    (void)any_neg;
    require_transpose(P, R, "ruge_stuben R vs P");
    VF_REQUIRE(P.m < A.n || A.n <= 1 || !any_neg, "ruge_stuben: " << P.m << " coarse variables for " << A.n << " fine ones although strong connections exist");
    RsStats rs = check_rs_rowsum(A, P, do_trunc, eps, eps_trunc, "ruge_stuben");
    if (rs.rowsum_rows) c.label("rs:rowsum-checked");
    if (rs.mixed_rows) c.label("rs:rowsum-row-with-positive-coupling");
    if (rs.boundary_rows) c.label("rs:trunc-boundary-candidate");
    if (rs.empty_rows) c.label("rs:empty-interpolation-row");
    if (P.nnz() > P.n) c.label("rs:row-with->=2-weights");
    return rs;
}

static float gen_eps_trunc(Tape &t) {
    switch (t.u(0, 4)) { case 0: return 0.5f; case 1: return 0.2f; case 2: return 0.25f; case 3: return 0.75f; default: return static_cast<float>(t.uni(0.05, 0.95)); }
}

static void prop_rs(Tape &t, Ctx &c) {
    int nmax = size_class(t, 8, 40, 300);
    cm::MatInfo info;
    // symmetric families only (property domain)
    Csr<double> A = cm::gen_matrix(t, nmax, info, SYM_FAMILIES, false);
    float eps = t.b() ? 0.25f : cm::gen_eps_strong(t);
    bool do_trunc = !t.chance(1, 4);
    float eps_trunc = gen_eps_trunc(t);
    c.desc << "ruge_stuben " << info.family << "/" << info.graph << " n=" << A.n << " eps_strong=" << cm::fmt_float(eps) << " do_trunc=" << do_trunc << " eps_trunc=" << cm::fmt_float(eps_trunc)
           << " zero-row-sum rows=" << info.zero_rowsum_rows << " threads=" << c.threads << " A=" << dump_small(A, 10);
    VF_REQUIRE(info.value_symmetric, "harness: symmetric family produced a non-symmetric matrix");
    RsStats rs = rs_checks(c, A, eps, do_trunc, eps_trunc);
    c.nontrivial = rs.rowsum_rows > 0 && A.n >= 3;
    c.label("fam:" + info.family); c.label(bucket(A.n)); c.label(do_trunc ? "trunc" : "no-trunc"); if (info.integer) c.label("integer-valued");
    if (do_trunc && info.integer && rs.boundary_rows && rs.rowsum_rows) c.label("rs:integer-trunc-boundary");
}

// ------------------------------------------------------------------ exhaustive small scope
// tape: n-1, kind (0 symmetric pattern, 1 arbitrary pattern), mask, value class, eps choice
static Csr<double> small_matrix(int n, int kind, uint32_t mask, int vclass) {
    cm::Rows rows(n);
    auto w = [](int i, int j) { return static_cast<double>(1 + ((i * 7 + j * 13) % 4)); };
    int bit = 0;
    if (kind == 0) {
        for (int i = 0; i < n; ++i) for (int j = i + 1; j < n; ++j, ++bit) if (mask >> bit & 1) { rows[i][j] = w(i, j); rows[j][i] = w(i, j); }
    } else {
        for (int i = 0; i < n; ++i) for (int j = 0; j < n; ++j) { if (i == j) continue; if (mask >> bit & 1) rows[i][j] = w(std::min(i, j), std::max(i, j)) + (i > j ? (i + j) % 2 : 0); ++bit; }
    }
    for (int i = 0; i < n; ++i) {
        double sabs = 0, ssum = 0;
        for (auto &kv : rows[i]) {
            double v = kv.second; int j = static_cast<int>(kv.first);
            switch (vclass) {
            case 0: case 3: v = -v; break;                       // M-matrix signs
            case 1: v = ((i + j) & 1) ? -v : v; break;           // mixed signs (symmetric rule)
            case 4: v = ((i + j) % 3 == 0) ? 0.25 * v : -v; break; // mixed signs, small positive couplings (symmetric rule), zero row sums
            default: break;                                      // all positive
            }
            kv.second = v; sabs += std::abs(v); ssum += v;
        }
        if (vclass == 4) rows[i][i] = ssum < 0 ? -ssum : sabs + 1.0;  // class 4: zero row sums wherever the negative mass dominates (dyadic, exact)
        else rows[i][i] = vclass == 3 ? (sabs > 0 ? sabs : 1.0) : sabs + 1.0; // class 3: zero row sums
    }
    return cm::rows_to_csr(rows);
}

static void prop_small(Tape &t, Ctx &c) {
    int n = static_cast<int>(t.u(1, 6));
    int kind = static_cast<int>(t.u(0, 1));
    int bits = kind == 0 ? n * (n - 1) / 2 : n * (n - 1);
    uint32_t mask = static_cast<uint32_t>(t.u(0, (int64_t(1) << bits) - 1));
    int vclass = static_cast<int>(t.u(0, 4));
    float eps = t.u(0, 1) == 0 ? 0.08f : 0.5f;
    Csr<double> A = small_matrix(n, kind, mask, vclass);
    cm::MatInfo info; info.integer = true; info.family = "small"; info.value_symmetric = cm::is_value_symmetric(A); info.struct_symmetric = cm::is_struct_symmetric(A);
    static const char *vn[] = {"M-matrix", "mixed-sign", "all-positive", "zero-row-sum", "mixed-sign-zero-row-sum"};
    c.desc << "small n=" << n << (kind ? " arbitrary" : " symmetric") << " pattern mask=" << mask << " values=" << vn[vclass] << " eps_strong=" << cm::fmt_float(eps) << " A=" << dump_small(A, 8);
    c.label(std::string("val:") + vn[vclass]); c.label(kind ? "pattern:arbitrary" : "pattern:symmetric"); c.label("n=" + std::to_string(n));
    if (!info.struct_symmetric) c.label("nonsym-pattern");
    bool exact = dyadic_eps(eps);
    // aggregates, scalar and block forms
    Aggr ag = check_aggregates(A, eps, 1, 0, exact, "plain");
    nt_labels(c, ag, 1, 0);
    bool multi_removed = c.nontrivial;
    for (unsigned ma = 2; ma <= 3; ++ma) check_aggregates(A, eps, 1, ma, exact, "min_aggregate=" + std::to_string(ma));
    for (int b = 2; b <= (n <= 4 ? 3 : 2); ++b) {
        check_aggregates(cm::kron_identity(A, b, false), eps, b, 0, exact, "kronI b=" + std::to_string(b));
        check_aggregates(cm::kron_identity(A, b, true), eps, b, 3, exact, "kronI+zeros b=" + std::to_string(b));
        std::vector<double> Bk(b * b, 1.0); for (int p = 0; p < b; ++p) Bk[p * b + p] = 3.0; Bk[1] = 0.0; // structurally incomplete block
        check_aggregates(cm::kron(A, b, Bk), eps, b, 0, exact, "kronDense b=" + std::to_string(b));
    }
    // tentative prolongation with 0 and 2 null-space vectors
    for (int k = 0; k <= 2; k += 2) {
        typedef co::aggregation<Backend> C;
        std::vector<double> B; if (k) { B.resize(n * k); for (int i = 0; i < n; ++i) { B[i * k] = 1.0; B[i * k + 1] = static_cast<double>((i * 5) % 7) - 2.0; } }
        Aggr agk = check_aggregates(A, eps, 1, static_cast<unsigned>(k), exact, "aggregates");
        C::params prm; prm.aggr.eps_strong = eps; prm.nullspace.cols = k; prm.nullspace.B = B;
        C cz(prm); Csr<double> P, R;
        bool ok = run_transfer(cz, A, P, R);
        VF_REQUIRE(ok == !agk.empty, "aggregation::transfer_operators emptiness disagrees with the aggregates (nullspace.cols=" << k << ")");
        if (ok) { check_tentative(P, agk.id, agk.count, 1, k, B, cz.prm.nullspace.B, "tentative prolongation k=" + std::to_string(k)); require_transpose(P, R, "aggregation R vs P"); }
    }
    // smoothed aggregation formula and row sums; Ruge-Stuben row sums with and without truncation (symmetric values only)
    std::vector<double> noB;
    SaStats s1 = sa_checks(c, A, info, true, 1, 0, noB, eps, 1.0f, false, 0, info.value_symmetric);
    sa_checks(c, A, info, true, 1, 0, noB, eps, 0.75f, true, 0, info.value_symmetric);
    (void)s1;
    if (info.value_symmetric) {
        rs_checks(c, A, 0.25f, false, 0.2f);
        rs_checks(c, A, 0.25f, true, 0.5f);
        rs_checks(c, A, 0.25f, true, 0.2f);
        rs_checks(c, A, 0.25f, true, 0.25f);
    }
    // lifting
    for (int which = 0; which < 3; ++which) {
        lifting_checks(c, A, info, 2, false, eps, which, 1.0f, which == 1 && (mask & 1));
        if (n <= 4) lifting_checks(c, A, info, 3, true, eps, which, 1.0f, false);
    }
    c.nontrivial = multi_removed || A.nnz() > A.n; // block_size>=2 and nullspace dim 2 are exercised on every case with a coupling
}

static std::vector<Prop> props() {
    // the *_mt registrations run the same properties under 4 OpenMP threads (per-thread scratch vectors / markers in
    // pointwise_aggregates, tentative_prolongation, smoothed_aggregation, ruge_stuben); fewer cases, the algebra is the same
    return {
        Prop("aggregates", prop_aggregates, 5000, 50000, 100, 60, {1}, 2, 8),
        Prop("tentative", prop_tentative, 5000, 50000, 100, 80, {1}, 2, 8),
        Prop("tentative_direct", prop_tentative_direct, 5000, 50000, 100, 20, {1}, 2, 8),
        Prop("lifting", prop_lifting, 4000, 40000, 100, 40, {1}, 2, 8),
        Prop("smoothed_aggregation", prop_sa, 5000, 50000, 100, 80, {1}, 2, 8),
        Prop("ruge_stuben", prop_rs, 5000, 60000, 100, 40, {1}, 2, 8),
        Prop("aggregates_mt", prop_aggregates, 400, 8000, 100, 60, {4}, 1, 4),
        Prop("tentative_mt", prop_tentative, 400, 8000, 100, 80, {4}, 1, 4),
        Prop("lifting_mt", prop_lifting, 400, 8000, 100, 40, {4}, 1, 4),
        Prop("smoothed_aggregation_mt", prop_sa, 400, 8000, 100, 80, {4}, 1, 4),
        Prop("ruge_stuben_mt", prop_rs, 400, 8000, 100, 40, {4}, 1, 4),
        Prop("small", prop_small, 1000, 10000, 100, 1, {1}, 1, 2),
    };
}

static std::vector<Enum> enums() {
    Enum e;
    e.name = "small_all_patterns"; e.prop = "small";
    e.scope_quick = "all symmetric patterns on 1..5 nodes and all (structurally non-symmetric included) patterns on 1..3 nodes x 5 value classes {M-matrix, mixed sign, all-positive off-diagonals, zero row sums (M-matrix signs), zero row sums with mixed signs} x eps_strong {0.08, 0.5}";
    e.scope_thorough = "all symmetric patterns on 1..6 nodes and all patterns on 1..4 nodes x 5 value classes x eps_strong {0.08, 0.5}";
    e.gen = [](const std::string &tier, const Emit &emit) {
        int ns = tier == "thorough" ? 6 : 5, na = tier == "thorough" ? 4 : 3;
        for (int n = 1; n <= 6; ++n) for (int kind = 0; kind < 2; ++kind) {
            if (n > (kind ? na : ns)) continue;
            int bits = kind == 0 ? n * (n - 1) / 2 : n * (n - 1);
            for (uint32_t mask = 0; mask < (1u << bits); ++mask) for (uint32_t v = 0; v < 5; ++v) for (uint32_t e2 = 0; e2 < 2; ++e2)
                emit({static_cast<uint32_t>(n - 1), static_cast<uint32_t>(kind), mask, v, e2});
        }
    };
    return {e};
}

VF_MAIN(props(), enums())
