// C18 (part 1) — schur_pressure_correction realises its block formulas.
//
// Inner solvers are user-defined classes (props/c18_common.hpp, `inner<Backend>`) that solve densely in long double
// ("exact inner solves") or record what they are handed.  Oracles:
//   * the u/p sub-blocks reassemble to K: Kuu is the matrix handed to the USolver constructor; Kup, Kpu and Kpp are
//     recovered hook-free and *exactly* by probing the public matrix-free Schur operator spmv() (and apply() for
//     approx_schur) with unit vectors while the USolver records its right-hand side and answers with a preset vector;
//   * type 1: apply(K x) == x, type 2: apply(f) == block upper-triangular solve, for every pmask (vector, "%n:m", "<m",
//     ">m", raw pointer through the property tree), adjust_p in {0,1,2}; approx_schur=true: the same formulas with
//     S^ = Kpp - Kpu M Kup, M = 1/sum_j|Kuu_ij| (simplec_dia) or 1/diag(Kuu).  Reference: dense long double; bound:
//     first-order componentwise propagation of the rounding of every double-precision step (written next to the code);
//   * the matrix handed to the PSolver constructor is Kpp, Kpp - dia(Kpu M Kup) or Kpp - Kpu M Kup (adjust_p 0/1/2);
//   * a second prop uses real amgcl inner solvers (make_solver<as_preconditioner<ilu0|damped_jacobi>, gmres> at tol 1e-14).
#include <amgcl/backend/builtin.hpp>
#include <amgcl/adapter/crs_tuple.hpp>
#include <amgcl/make_solver.hpp>
#include <amgcl/solver/gmres.hpp>
#include <amgcl/relaxation/as_preconditioner.hpp>
#include <amgcl/relaxation/ilu0.hpp>
#include <amgcl/relaxation/damped_jacobi.hpp>
#include <amgcl/preconditioner/schur_pressure_correction.hpp>
#include <functional>
#include "c18_common.hpp"

using namespace vf18;
typedef amgcl::backend::builtin<double> BK;

// ------------------------------------------------------------------ generator
// connected graph with exactly n nodes
static Graph graph_n(Tape &t, int n) {
    Graph g; g.n = n;
    std::set<std::pair<int, int>> E;
    int fam = static_cast<int>(t.u(0, 3));
    switch (fam) {
    case 0: g.family = "path"; for (int i = 0; i + 1 < n; ++i) add_edge(E, i, i + 1); break;
    case 1: { g.family = "tree"; for (int i = 1; i < n; ++i) add_edge(E, i, static_cast<int>(t.pick(i)));
              int ch = static_cast<int>(t.u(0, std::max(0, n / 3))); for (int c = 0; c < ch; ++c) add_edge(E, static_cast<int>(t.pick(n)), static_cast<int>(t.pick(n))); break; }
    case 2: { g.family = "band"; int w = static_cast<int>(t.u(1, 3)); for (int i = 0; i < n; ++i) for (int d = 1; d <= w && i + d < n; ++d) add_edge(E, i, i + d); break; }
    default: { g.family = "grid"; int nx = std::max(1, static_cast<int>(std::sqrt(static_cast<double>(n))));
               for (int i = 0; i < n; ++i) { if ((i + 1) % nx != 0 && i + 1 < n) add_edge(E, i, i + 1); if (i + nx < n) add_edge(E, i, i + nx); } break; }
    }
    g.edges.assign(E.begin(), E.end());
    g.axis.assign(g.edges.size(), -1);
    return g;
}

static Csr<double> rand_sparse(Tape &t, ptrdiff_t n, ptrdiff_t m, bool allow_empty_cols) {
    // column-wise: every column of the n x m matrix gets 1..3 entries (0 allowed occasionally)
    std::vector<std::map<ptrdiff_t, double>> rows(n);
    for (ptrdiff_t j = 0; j < m; ++j) {
        int k = static_cast<int>(t.u(1, std::min<ptrdiff_t>(3, n)));
        if (allow_empty_cols && t.chance(1, 8)) k = 0;
        for (int a = 0; a < k; ++a) rows[t.pick(n)][j] = t.slogu(0.1, 2.0);
    }
    return from_triplets<double>(n, m, rows);
}

struct SchurCase {
    ptrdiff_t n = 0, nu = 0, np = 0;
    std::vector<char> pmask;
    std::string pattern;       // non-empty: handed over as pmask_pattern
    std::string layout;
    bool via_ptree = false;
    Csr<double> K, Kuu, Kup, Kpu, Kpp;
    std::vector<ptrdiff_t> uidx, pidx;
    int type = 1, adjust_p = 0; bool approx = false, simplec = false;
    int coupling = 0;          // 0 Kpu = Kup^T, Kpp = -T; 1 Kpu = -Kup^T, Kpp = T; 2 independent Kpu; 3 perturbed transpose; 4 none
    LD dKuu, dKup, dKpu, dKpp, Uinv, Seff, Sinv, dK, Kinv;
    LV Mdiag, Ldiag;
};

static Csr<double> transpose_csr(const Csr<double> &A, double scale) {
    std::vector<std::map<ptrdiff_t, double>> rows(A.m);
    for (ptrdiff_t i = 0; i < A.n; ++i) for (ptrdiff_t j = A.ptr[i]; j < A.ptr[i + 1]; ++j) rows[A.col[j]][i] = scale * A.val[j];
    return from_triplets<double>(A.m, A.n, rows);
}

static SchurCase gen_case(Tape &t, bool need_posdiag) {
    SchurCase s;
    int layout = static_cast<int>(t.u(0, 5));
    int numax = 20, npmax = 10;
    switch (layout) {
    case 0: case 1: case 2: case 4: {
        s.nu = t.u(1, numax); s.np = t.u(1, npmax); s.n = s.nu + s.np;
        s.pmask.assign(s.n, 0);
        if (layout == 0 || layout == 1) { for (ptrdiff_t i = s.nu; i < s.n; ++i) s.pmask[i] = 1; s.layout = layout == 0 ? "contiguous-u-first" : "pattern>"; if (layout == 1) s.pattern = ">" + std::to_string(s.nu); }
        else if (layout == 2) { for (ptrdiff_t i = 0; i < s.np; ++i) s.pmask[i] = 1; s.layout = "pattern<"; s.pattern = "<" + std::to_string(s.np); }
        else { // random positions
            std::vector<ptrdiff_t> pos(s.n); std::iota(pos.begin(), pos.end(), 0);
            for (ptrdiff_t k = 0; k < s.np; ++k) { size_t r = k + t.pick(s.n - k); std::swap(pos[k], pos[r]); s.pmask[pos[k]] = 1; }
            s.layout = "random-mask";
        }
        break; }
    default: { // interleaved: pressure at position `start` of every group of m unknowns
        int m = static_cast<int>(t.u(2, 5)), start = static_cast<int>(t.u(0, m - 1));
        s.n = t.u(start + 2, 30);
        s.pmask.assign(s.n, 0);
        for (ptrdiff_t i = start; i < s.n; i += m) s.pmask[i] = 1;
        if (layout == 3) { s.pattern = "%" + std::to_string(start) + ":" + std::to_string(m); s.layout = "pattern%"; } else s.layout = "interleaved-mask";
        for (ptrdiff_t i = 0; i < s.n; ++i) (s.pmask[i] ? s.np : s.nu)++;
        break; }
    }
    for (ptrdiff_t i = 0; i < s.n; ++i) (s.pmask[i] ? s.pidx : s.uidx).push_back(i);
    s.via_ptree = !s.pattern.empty() || t.chance(1, 3);
    s.type = 1 + static_cast<int>(t.u(0, 1));
    s.adjust_p = static_cast<int>(t.u(0, 2));
    s.approx = t.chance(1, 3);
    s.simplec = t.b();

    // Kuu: SPD M-matrix
    Graph gu = graph_n(t, static_cast<int>(s.nu));
    s.Kuu = gen_mmat(t, gu, 100.0, false);
    s.coupling = t.chance(1, 8) ? 4 : static_cast<int>(t.u(0, 3));
    if (need_posdiag && s.coupling == 0) s.coupling = 1;
    if (s.coupling == 4) { s.Kup.n = s.nu; s.Kup.m = s.np; s.Kup.ptr.assign(s.nu + 1, 0); s.Kpu.n = s.np; s.Kpu.m = s.nu; s.Kpu.ptr.assign(s.np + 1, 0); }
    else {
        s.Kup = rand_sparse(t, s.nu, s.np, true);
        if (s.coupling == 0) s.Kpu = transpose_csr(s.Kup, 1.0);
        else if (s.coupling == 1) s.Kpu = transpose_csr(s.Kup, -1.0);
        else if (s.coupling == 2) s.Kpu = transpose_csr(rand_sparse(t, s.nu, s.np, true), 1.0);
        else { s.Kpu = transpose_csr(s.Kup, 1.0); for (auto &v : s.Kpu.val) v *= t.uni(0.5, 1.5); }
    }
    // Kpp: T (SPD M-matrix, scaled) with a sign / diagonal lift that makes S and S^ nonsingular by construction
    Graph gp = graph_n(t, static_cast<int>(s.np));
    Csr<double> T = gen_mmat(t, gp, 10.0, false);
    double sigma = t.logu(0.01, 10.0);
    for (auto &v : T.val) v *= sigma;
    s.dKuu = to_dense<ld>(s.Kuu); s.dKup = to_dense<ld>(s.Kup); s.dKpu = to_dense<ld>(s.Kpu);
    bool ok = true;
    s.Uinv = inverse(s.dKuu, ok);
    VF_REQUIRE(ok, "generator: Kuu singular");
    s.Mdiag.assign(s.nu, 0);
    for (ptrdiff_t i = 0; i < s.nu; ++i) {
        if (s.simplec) { ld a = 0; for (ptrdiff_t j = 0; j < s.nu; ++j) a += std::abs(s.dKuu(i, j)); s.Mdiag[i] = 1 / a; }
        else s.Mdiag[i] = 1 / s.dKuu(i, i);
    }
    LD Xe = matmul(s.dKpu, matmul(s.Uinv, s.dKup)), Xa = matmul(s.dKpu, matmul(diagm(s.Mdiag), s.dKup));
    if (s.coupling == 0) for (auto &v : T.val) v = -v;          // S = -(T + B A^-1 B^T): negative definite
    else if (s.coupling == 2 || s.coupling == 3) {              // lift the diagonal: S, S^ strictly diagonally dominant
        for (ptrdiff_t i = 0; i < s.np; ++i) {
            ld a = 0, b = 0; for (ptrdiff_t j = 0; j < s.np; ++j) { a += std::abs(Xe(i, j)); b += std::abs(Xa(i, j)); }
            double lift = static_cast<double>(2 * std::max(a, b));
            for (ptrdiff_t j = T.ptr[i]; j < T.ptr[i + 1]; ++j) if (T.col[j] == i) T.val[j] += lift;
        }
    }
    s.Kpp = T;
    s.dKpp = to_dense<ld>(s.Kpp);
    s.Ldiag.assign(s.np, 0);
    for (ptrdiff_t i = 0; i < s.np; ++i) s.Ldiag[i] = Xa(i, i);
    s.Seff = subm(s.dKpp, s.approx ? Xa : Xe);
    s.Sinv = inverse(s.Seff, ok);
    VF_REQUIRE(ok, "generator: Schur complement singular");
    // assemble K
    std::vector<std::map<ptrdiff_t, double>> rows(s.n);
    auto put = [&](const Csr<double> &Bm, const std::vector<ptrdiff_t> &ri, const std::vector<ptrdiff_t> &ci) {
        for (ptrdiff_t i = 0; i < Bm.n; ++i) for (ptrdiff_t j = Bm.ptr[i]; j < Bm.ptr[i + 1]; ++j) rows[ri[i]][ci[Bm.col[j]]] = Bm.val[j];
    };
    put(s.Kuu, s.uidx, s.uidx); put(s.Kup, s.uidx, s.pidx); put(s.Kpu, s.pidx, s.uidx); put(s.Kpp, s.pidx, s.pidx);
    s.K = from_triplets<double>(s.n, s.n, rows);
    s.dK = to_dense<ld>(s.K);
    s.Kinv = inverse(s.dK, ok);
    VF_REQUIRE(ok, "generator: K singular");
    return s;
}

static void describe_case(const SchurCase &s, Ctx &c, const char *what) {
    c.desc << what << " n=" << s.n << " nu=" << s.nu << " np=" << s.np << " layout=" << s.layout << (s.pattern.empty() ? "" : " pattern='" + s.pattern + "'")
           << (s.via_ptree ? " via-ptree" : " via-struct") << " type=" << s.type << " adjust_p=" << s.adjust_p << " approx_schur=" << s.approx << " simplec_dia=" << s.simplec
           << " coupling=" << s.coupling << " pmask=";
    for (char m : s.pmask) c.desc << (m ? '1' : '0');
    c.desc << " K=" << dump_small(s.K, 10);
    c.label("layout:" + s.layout);
    c.label("type=" + std::to_string(s.type));
    c.label("adjust_p=" + std::to_string(s.adjust_p));
    c.label(s.approx ? "approx_schur" : "exact_schur");
    c.label(s.simplec ? "simplec_dia" : "plain_dia");
    c.label("coupling=" + std::to_string(s.coupling));
    c.label(s.via_ptree ? "params:ptree" : "params:struct");
    c.nontrivial = s.nu > 0 && s.np > 0 && s.Kup.nnz() > 0 && s.Kpu.nnz() > 0;
}

template <class Schur>
static typename Schur::params make_params(const SchurCase &s, boost::property_tree::ptree up, boost::property_tree::ptree pp) {
    typedef typename Schur::params P;
    if (s.via_ptree) {
        boost::property_tree::ptree p;
        p.put_child("usolver", up); p.put_child("psolver", pp);
        p.put("type", s.type); p.put("adjust_p", s.adjust_p); p.put("approx_schur", s.approx); p.put("simplec_dia", s.simplec);
        p.put("pmask_size", static_cast<size_t>(s.n));
        if (!s.pattern.empty()) p.put("pmask_pattern", s.pattern);
        else p.put("pmask", static_cast<void *>(const_cast<char *>(s.pmask.data())));
        return P(p);
    }
    P prm;
    prm.usolver = typename P::usolver_params(up); prm.psolver = typename P::psolver_params(pp);
    prm.type = s.type; prm.adjust_p = s.adjust_p; prm.approx_schur = s.approx; prm.simplec_dia = s.simplec;
    prm.pmask = s.pmask;
    return prm;
}

// ------------------------------------------------------------------ reference + rounding bound
// error of one dense long-double solve rounded to double: rounding of the result + backward error of GEPP in long double
// (iterative = true: an iterative solve in double cannot push the residual below the rounding level 8 n u |A||x| of its own
//  residual evaluation, so the backward error is measured in u instead of 2^-64)
static bool g_iterative = false;
static LV solve_err(const LD &Ainv, const LD &A, const LV &x) {
    const ld eps = g_iterative ? U : std::ldexp(1.0L, -64);
    LV e = scalev(2 * U, absv(x));
    LV t = matvec(absm(Ainv), matvec(absm(A), absv(x)));
    LV r = addv(e, scalev(8 * static_cast<ld>(A.n) * eps, t));
    // normwise floor for the reference itself (an explicit long-double inverse does not preserve structural zeros)
    ld floor_ = 16 * static_cast<ld>(A.n) * std::ldexp(1.0L, -64) * norminf(Ainv) * norminf(A) * norminf(x);
    for (auto &v : r) v += floor_;
    return r;
}

struct RefOut { LV u, p, bu, bp; };

// tau: relative residual an iterative inner solve is allowed to leave (0 for the dense inner solvers)
static RefOut schur_ref(const SchurCase &s, const LV &fu, const LV &fp, ld tau_u = 0, ld tau_p = 0) {
    RefOut r;
    const ld g = static_cast<ld>(s.n + 2) * U;               // one sparse matrix-vector product / axpy chain in double
    LD aU = absm(s.Uinv), aS = absm(s.Sinv), aKup = absm(s.dKup), aKpu = absm(s.dKpu);
    // iterative inner solves: ||rhs - A x||_2 <= tau ||rhs||_2  =>  |x - A^-1 rhs| <= |A^-1| 1 * tau * ||rhs||_2
    auto it_err = [&](const LD &aInv, const LV &rhs, ld tau) { ld nr = 0; for (auto v : rhs) nr += v * v; nr = std::sqrt(nr); LV ones(rhs.size(), tau * nr); return matvec(aInv, ones); };
    // error of the assembled / applied Schur operator, |dS| <= g (|Kpp| + 2|Ld| + 2 |Kpu| W |Kup|)
    LD W = s.approx ? diagm(absv(s.Mdiag)) : addm(aU, scalem(8 * static_cast<ld>(s.nu) * std::ldexp(1.0L, -64), matmul(aU, matmul(absm(s.dKuu), aU))));
    LD dS = addm(absm(s.dKpp), scalem(2, matmul(aKpu, matmul(W, aKup))));
    if (s.adjust_p == 1) for (ptrdiff_t i = 0; i < s.np; ++i) dS(i, i) += 2 * std::abs(s.Ldiag[i]);
    dS = scalem(g, dS);
    if (!s.approx && tau_u > 0) { // the matrix-free operator itself contains an inexact u-solve
        LD extra = matmul(aKpu, matmul(aU, aKup)); // crude: tau_u * sqrt(nu) * |Kpu||Uinv| 1 1^T |Kup| is bounded by this times nu
        dS = addm(dS, scalem(tau_u * static_cast<ld>(s.nu) * static_cast<ld>(s.nu), extra));
    }
    LV e3, gu, e4;
    if (s.type == 1) {
        LV u1 = matvec(s.Uinv, fu);
        LV e1 = addv(solve_err(s.Uinv, s.dKuu, u1), it_err(aU, fu, tau_u));
        LV gp = subv(fp, matvec(s.dKpu, u1));
        LV e2 = addv(scalev(g, addv(absv(fp), matvec(aKpu, absv(u1)))), matvec(aKpu, e1));
        r.p = matvec(s.Sinv, gp);
        e3 = addv(addv(matvec(aS, e2), solve_err(s.Sinv, s.Seff, r.p)), matvec(aS, matvec(dS, absv(r.p))));
        e3 = addv(e3, it_err(aS, gp, tau_p));
    } else {
        r.p = matvec(s.Sinv, fp);
        e3 = addv(solve_err(s.Sinv, s.Seff, r.p), matvec(aS, matvec(dS, absv(r.p))));
        e3 = addv(e3, it_err(aS, fp, tau_p));
    }
    gu = subv(fu, matvec(s.dKup, r.p));
    e4 = addv(scalev(g, addv(absv(fu), matvec(aKup, absv(r.p)))), matvec(aKup, e3));
    r.u = matvec(s.Uinv, gu);
    LV e5 = addv(addv(matvec(aU, e4), solve_err(s.Uinv, s.dKuu, r.u)), it_err(aU, gu, tau_u));
    r.bu = scalev(4, e5); r.bp = scalev(4, e3);
    return r;
}

static void split(const SchurCase &s, const LV &f, LV &fu, LV &fp) {
    fu.resize(s.nu); fp.resize(s.np);
    for (ptrdiff_t i = 0; i < s.nu; ++i) fu[i] = f[s.uidx[i]];
    for (ptrdiff_t i = 0; i < s.np; ++i) fp[i] = f[s.pidx[i]];
}
static LV join(const SchurCase &s, const LV &u, const LV &p) {
    LV x(s.n);
    for (ptrdiff_t i = 0; i < s.nu; ++i) x[s.uidx[i]] = u[i];
    for (ptrdiff_t i = 0; i < s.np; ++i) x[s.pidx[i]] = p[i];
    return x;
}

static double g_worst = 0; // calibration aid (printed with VF_C18_CALIB=1)

template <class Schur>
static bool check_apply(const SchurCase &s, const Schur &P, const std::vector<double> &f, const LV *xtrue, const std::string &what, ld tau_u = 0, ld tau_p = 0,
                        const std::function<bool()> &premise = nullptr) {
    std::vector<double> x(s.n, std::nan(""));
    amgcl::backend::numa_vector<double> F(f), X(x);
    P.apply(F, X);
    if (premise && !premise()) return false; // an inner solve missed the accuracy the reference assumes: nothing is claimed
    LV fu, fp; split(s, tolv(f), fu, fp);
    RefOut r = schur_ref(s, fu, fp, tau_u, tau_p);
    LV ref = join(s, r.u, r.p), bnd = join(s, r.bu, r.bp);
    for (ptrdiff_t i = 0; i < s.n; ++i) {
        ld err = std::abs(static_cast<ld>(X[i]) - ref[i]);
        if (bnd[i] > 0) g_worst = std::max(g_worst, static_cast<double>(err / bnd[i]));
        VF_REQUIRE(err <= bnd[i], what << ": apply(f)[" << i << "] = " << X[i] << ", dense block formula gives " << static_cast<double>(ref[i]) << " (|diff| " << static_cast<double>(err)
                                       << " > bound " << static_cast<double>(bnd[i]) << "); f=" << show(f));
    }
    if (xtrue) { // type 1 with the exact Schur complement: apply(K x) == x
        const ld eps_ld = std::ldexp(1.0L, -64);
        LV slack = matvec(absm(s.Kinv), addv(scalev(U, absv(tolv(f))), scalev(static_cast<ld>(s.n) * eps_ld, matvec(absm(s.dK), absv(*xtrue)))));
        for (ptrdiff_t i = 0; i < s.n; ++i) {
            ld err = std::abs(static_cast<ld>(X[i]) - (*xtrue)[i]), b = bnd[i] + 2 * slack[i];
            VF_REQUIRE(err <= b, what << ": apply(K x)[" << i << "] = " << X[i] << " but x[" << i << "] = " << static_cast<double>((*xtrue)[i]) << " (|diff| " << static_cast<double>(err) << " > bound " << static_cast<double>(b) << ")");
        }
    }
    return true;
}

static std::vector<double> gen_rhs(Tape &t, const SchurCase &s, LV *xtrue, int kind) {
    // kind 0: f = K x for a random x (xtrue returned); 1: unit vector; 2: random f
    std::vector<double> f(s.n, 0.0);
    if (kind == 0) {
        std::vector<double> x = gen_vec(t, s.n, static_cast<int>(t.u(1, 3)));
        *xtrue = tolv(x);
        f = tod(matvec(s.dK, *xtrue));
    } else if (kind == 1) f[t.pick(s.n)] = 1.0;
    else f = gen_vec(t, s.n, static_cast<int>(t.u(1, 3)));
    return f;
}

// ------------------------------------------------------------------ prop 1: dense inner solvers
typedef amgcl::preconditioner::schur_pressure_correction<inner<BK>, inner<BK>> SchurDense;

static bool same_matrix(const Csr<double> &got, const Csr<double> &ref, std::string &why) {
    if (got.n != ref.n || got.m != ref.m) { why = "shape"; return false; }
    Dense<double> a = to_dense<double>(got), b = to_dense<double>(ref);
    for (ptrdiff_t i = 0; i < a.n; ++i) for (ptrdiff_t j = 0; j < a.m; ++j) if (!(a(i, j) == b(i, j))) {
        std::ostringstream os; os << "entry (" << i << "," << j << ") = " << a(i, j) << ", expected " << b(i, j); why = os.str(); return false; }
    if (got.nnz() != ref.nnz()) { why = "number of stored entries " + std::to_string(got.nnz()) + " vs " + std::to_string(ref.nnz()); return false; }
    return true;
}

static void prop_schur_dense(Tape &t, Ctx &c) {
    g_iterative = false;
    SchurCase s = gen_case(t, false);
    describe_case(s, c, "schur(dense inner solvers)");
    Control cu, cp;
    boost::property_tree::ptree up, pp;
    up.put("ctl", static_cast<void *>(&cu)); pp.put("ctl", static_cast<void *>(&cp));
    auto prm = make_params<SchurDense>(s, up, pp);
    VF_REQUIRE(prm.pmask.size() == static_cast<size_t>(s.n), "params: pmask has " << prm.pmask.size() << " entries");
    for (ptrdiff_t i = 0; i < s.n; ++i) VF_REQUIRE((prm.pmask[i] != 0) == (s.pmask[i] != 0), "params: pmask[" << i << "] decoded from '" << s.pattern << "' is " << int(prm.pmask[i]));
    SchurDense P(std::tie(s.n, s.K.ptr, s.K.col, s.K.val), prm);

    // ---- sub-blocks reassemble to K
    std::string why;
    VF_REQUIRE(cu.ctor_matrices.size() == 1 && cp.ctor_matrices.size() == 1, "inner solvers constructed " << cu.ctor_matrices.size() << "/" << cp.ctor_matrices.size() << " times");
    VF_REQUIRE(same_matrix(cu.ctor_matrices[0], s.Kuu, why), "matrix handed to USolver is not Kuu: " << why);
    { // matrix handed to PSolver: Kpp adjusted as documented
        const Csr<double> &G = cp.ctor_matrices[0];
        VF_REQUIRE(G.n == s.np && G.m == s.np, "PSolver matrix shape " << G.n << "x" << G.m);
        LD got = to_dense<ld>(G), Xa = matmul(s.dKpu, matmul(diagm(s.Mdiag), s.dKup)), aXa = matmul(absm(s.dKpu), matmul(diagm(absv(s.Mdiag)), absm(s.dKup)));
        for (ptrdiff_t i = 0; i < s.np; ++i) for (ptrdiff_t j = 0; j < s.np; ++j) {
            ld ref = s.dKpp(i, j), b = 0;
            if (s.adjust_p == 1 && i == j) { ref -= Xa(i, i); b = 4 * static_cast<ld>(s.nu + 3) * U * (std::abs(s.dKpp(i, i)) + aXa(i, i)); }
            if (s.adjust_p == 2) { ref -= Xa(i, j); b = 4 * static_cast<ld>(s.nu + 3) * U * (std::abs(s.dKpp(i, j)) + aXa(i, j)); }
            VF_REQUIRE(std::abs(got(i, j) - ref) <= b, "matrix handed to PSolver (adjust_p=" << s.adjust_p << "): entry (" << i << "," << j << ") = " << static_cast<double>(got(i, j))
                                                        << ", documented formula gives " << static_cast<double>(ref) << " (bound " << static_cast<double>(b) << ")");
        }
    }
    Csr<double> rKup, rKpu, rKpp; // recovered
    {
        std::vector<std::map<ptrdiff_t, double>> kup(s.nu), kpu(s.np), kpp(s.np);
        amgcl::backend::numa_vector<double> e(s.np), y(s.np);
        if (!s.approx) {
            // y = S e_j through the public matrix-free operator; the USolver records Kup e_j and answers 0, resp. e_k
            cu.mode = Control::PROBE; cu.log_rhs = true;
            for (ptrdiff_t j = 0; j < s.np; ++j) {
                for (ptrdiff_t i = 0; i < s.np; ++i) { e[i] = i == j; y[i] = std::nan(""); }
                cu.preset.assign(s.nu, 0.0); cu.rhs_log.clear();
                amgcl::backend::spmv(1.0, P, e, 0.0, y);
                VF_REQUIRE(cu.rhs_log.size() == 1, "spmv called the USolver " << cu.rhs_log.size() << " times");
                for (ptrdiff_t i = 0; i < s.nu; ++i) if (cu.rhs_log[0][i] != 0) kup[i][j] = cu.rhs_log[0][i];
                for (ptrdiff_t i = 0; i < s.np; ++i) if (y[i] != 0) kpp[i][j] = y[i];
            }
            for (ptrdiff_t k = 0; k < s.nu; ++k) {
                for (ptrdiff_t i = 0; i < s.np; ++i) { e[i] = 0; y[i] = std::nan(""); }
                cu.preset.assign(s.nu, 0.0); cu.preset[k] = 1.0;
                amgcl::backend::spmv(1.0, P, e, 0.0, y);
                for (ptrdiff_t i = 0; i < s.np; ++i) if (y[i] != 0) kpu[i][k] = -y[i];
            }
            cu.mode = Control::EXACT; cu.log_rhs = false;
            c.label("reassembly:exact-all-blocks");
        } else if (s.type == 1) {
            // apply(0): U1 answers e_k -> P sees -Kpu e_k; P answers e_j -> U2 sees -Kup e_j
            cu.mode = Control::PROBE; cp.mode = Control::PROBE; cu.log_rhs = cp.log_rhs = true;
            amgcl::backend::numa_vector<double> f0(s.n), x(s.n);
            for (ptrdiff_t i = 0; i < s.n; ++i) f0[i] = 0;
            for (ptrdiff_t k = 0; k < std::max(s.nu, s.np); ++k) {
                cu.preset.assign(s.nu, 0.0); cp.preset.assign(s.np, 0.0); cu.rhs_log.clear(); cp.rhs_log.clear();
                if (k < s.nu) cu.preset[k] = 1.0;
                if (k < s.np) cp.preset[k] = 1.0;
                P.apply(f0, x);
                VF_REQUIRE(cu.rhs_log.size() == 2 && cp.rhs_log.size() == 1, "type 1 apply called U " << cu.rhs_log.size() << " and P " << cp.rhs_log.size() << " times");
                if (k < s.nu) for (ptrdiff_t i = 0; i < s.np; ++i) if (cp.rhs_log[0][i] != 0) kpu[i][k] = -cp.rhs_log[0][i];
                if (k < s.np) for (ptrdiff_t i = 0; i < s.nu; ++i) if (cu.rhs_log[1][i] != 0) kup[i][k] = -cu.rhs_log[1][i];
                // the scatter back: x = [preset u ; preset p]
                for (ptrdiff_t i = 0; i < s.nu; ++i) VF_REQUIRE(x[s.uidx[i]] == cu.preset[i], "scatter of u to x wrong at u-index " << i);
                for (ptrdiff_t i = 0; i < s.np; ++i) VF_REQUIRE(x[s.pidx[i]] == cp.preset[i], "scatter of p to x wrong at p-index " << i);
            }
            cu.mode = cp.mode = Control::EXACT; cu.log_rhs = cp.log_rhs = false;
            c.label("reassembly:exact-Kup-Kpu");
        } else c.label("reassembly:Kuu-only");
        rKup = from_triplets<double>(s.nu, s.np, kup); rKpu = from_triplets<double>(s.np, s.nu, kpu); rKpp = from_triplets<double>(s.np, s.np, kpp);
    }
    if (!s.approx || s.type == 1) {
        // structural zeros stored explicitly cannot be told from absent entries by probing: compare as dense matrices, entry for entry
        auto dense_same = [&](const Csr<double> &got, const Csr<double> &ref, const char *name) {
            Dense<double> a = to_dense<double>(got), b = to_dense<double>(ref);
            for (ptrdiff_t i = 0; i < a.n; ++i) for (ptrdiff_t j = 0; j < a.m; ++j)
                VF_REQUIRE(a(i, j) == b(i, j), "sub-block " << name << " recovered from the preconditioner: entry (" << i << "," << j << ") = " << a(i, j) << ", K has " << b(i, j));
        };
        dense_same(rKup, s.Kup, "Kup"); dense_same(rKpu, s.Kpu, "Kpu");
        if (!s.approx) {
            if (s.adjust_p != 1) dense_same(rKpp, s.Kpp, "Kpp");
            else { // (Kpp_ii - L_i) + L_i is evaluated in double
                Dense<double> a = to_dense<double>(rKpp), b = to_dense<double>(s.Kpp);
                for (ptrdiff_t i = 0; i < s.np; ++i) for (ptrdiff_t j = 0; j < s.np; ++j) {
                    ld bd = i == j ? 4 * static_cast<ld>(s.nu + 3) * U * (std::abs(s.dKpp(i, i)) + 2 * std::abs(s.Ldiag[i])) : 0;
                    VF_REQUIRE(std::abs(static_cast<ld>(a(i, j)) - b(i, j)) <= bd, "sub-block Kpp (adjust_p=1, P matrix + Ld): entry (" << i << "," << j << ") = " << a(i, j) << ", K has " << b(i, j));
                }
            }
        }
    }

    // ---- the matrix-free Schur operator: y = beta y0 + alpha S x against the dense S (also with approx_schur)
    {
        std::vector<double> xv = gen_vec(t, s.np, 2), y0 = gen_vec(t, s.np, 2);
        double alpha = t.ival(-2, 2), beta = t.ival(-2, 2);
        if (alpha == 0) alpha = 1;
        amgcl::backend::numa_vector<double> X(xv), Y(y0);
        amgcl::backend::spmv(alpha, P, X, beta, Y);
        LV sx = matvec(s.Seff, tolv(xv));
        const ld g = static_cast<ld>(s.n + 2) * U;
        LD W = s.approx ? diagm(absv(s.Mdiag)) : absm(s.Uinv);
        LD aS = addm(absm(s.dKpp), scalem(2, matmul(absm(s.dKpu), matmul(W, absm(s.dKup)))));
        if (s.adjust_p == 1) for (ptrdiff_t i = 0; i < s.np; ++i) aS(i, i) += 2 * std::abs(s.Ldiag[i]);
        LV mag = matvec(aS, absv(tolv(xv)));
        LV se = s.approx ? LV(s.np, 0) : matvec(absm(s.dKpu), solve_err(s.Uinv, s.dKuu, matvec(s.Uinv, matvec(s.dKup, tolv(xv)))));
        for (ptrdiff_t i = 0; i < s.np; ++i) {
            ld ref = beta * static_cast<ld>(y0[i]) + alpha * sx[i];
            ld b = 4 * (g * (std::abs(beta * y0[i]) + std::abs(alpha) * mag[i]) + std::abs(alpha) * se[i]);
            VF_REQUIRE(std::abs(static_cast<ld>(Y[i]) - ref) <= b, "spmv(alpha=" << alpha << ", beta=" << beta << ")[" << i << "] = " << Y[i] << ", dense Schur complement gives " << static_cast<double>(ref) << " (bound " << static_cast<double>(b) << ")");
        }
    }

    // ---- apply
    int nrhs = static_cast<int>(t.u(1, 3));
    for (int k = 0; k < nrhs; ++k) {
        LV xtrue;
        int kind = k == 0 ? 0 : static_cast<int>(t.u(0, 2));
        std::vector<double> f = gen_rhs(t, s, &xtrue, kind);
        bool identity_clause = kind == 0 && s.type == 1 && !s.approx;
        check_apply(s, P, f, identity_clause ? &xtrue : nullptr, "schur type " + std::to_string(s.type));
        if (identity_clause) c.label("clause:apply(Kx)==x");
    }
    VF_REQUIRE(cu.singular == 0 && cp.singular == 0, "an exact inner solve met a singular matrix (" << cu.singular << "/" << cp.singular << ")");
    // system_matrix() is K
    VF_REQUIRE(same_matrix(from_crs(P.system_matrix()), s.K, why), "system_matrix() differs from K: " << why);
    if (getenv("VF_C18_CALIB")) fprintf(stderr, "worst err/bound %.3g\n", g_worst);
}

// ------------------------------------------------------------------ prop 2: real amgcl inner solvers, tight GMRES
// The property's premise is EXACT inner solves.  An iterative inner solver may miss its tolerance (GMRES asked for 1e-14 on a
// system whose Krylov space is exhausted before the rounding level allows that accuracy divides by a vanishing Hessenberg pivot and
// returns NaN).  `checked<MS>` forwards to the real solver and measures, after every inner call, the relative residual the call
// left behind (with the same operator, in double).  A case in which any inner solve left more than the tau assumed by the
// reference is outside the premise: counted and not asserted.
struct InnerStats { double worst = 0; long calls = 0, bad = 0; };
template <class MS>
class checked {
  public:
    typedef typename MS::backend_type backend_type;
    typedef typename backend_type::matrix matrix;
    typedef typename backend_type::vector vector;
    typedef typename backend_type::value_type value_type;
    typedef typename backend_type::params backend_params;
    typedef typename amgcl::math::scalar_of<value_type>::type scalar_type;
    struct params {
        typename MS::params base; InnerStats *st;
        params() : st(nullptr) {}
        params(const boost::property_tree::ptree &p) : base(strip(p)), st(nullptr) { void *v = nullptr; v = p.get("stats", v); st = static_cast<InnerStats *>(v); }
        static boost::property_tree::ptree strip(boost::property_tree::ptree p) { p.erase("stats"); return p; }
        void get(boost::property_tree::ptree &p, const std::string &path = "") const { base.get(p, path); }
    } prm;
    template <class Matrix>
    checked(const Matrix &A, const params &p = params(), const backend_params &b = backend_params()) : prm(p), S(A, p.base, b), tmp(amgcl::backend::rows(S.system_matrix())) {}
    template <class Vec1, class Vec2>
    std::tuple<size_t, scalar_type> operator()(const Vec1 &rhs, Vec2 &&x) const { auto r = S(rhs, x); measure(S.system_matrix(), rhs, x); return r; }
    template <class Op, class Vec1, class Vec2>
    std::tuple<size_t, scalar_type> operator()(const Op &A, const Vec1 &rhs, Vec2 &&x) const { auto r = S(A, rhs, x); measure(A, rhs, x); return r; }
    const matrix &system_matrix() const { return S.system_matrix(); }
    std::shared_ptr<matrix> system_matrix_ptr() const { return S.system_matrix_ptr(); }
    size_t bytes() const { return S.bytes(); }
    friend std::ostream &operator<<(std::ostream &os, const checked &c) { return os << c.S; }
  private:
    MS S;
    mutable vector tmp;
    template <class Op, class Vec1, class Vec2>
    void measure(const Op &A, const Vec1 &rhs, const Vec2 &x) const {
        if (!prm.st) return;
        amgcl::backend::residual(rhs, A, x, tmp);
        long double rr = 0, ff = 0;
        for (size_t i = 0; i < tmp.size(); ++i) { rr += static_cast<long double>(tmp[i]) * tmp[i]; ff += static_cast<long double>(rhs[i]) * rhs[i]; }
        double rel = ff > 0 ? static_cast<double>(std::sqrt(rr / ff)) : static_cast<double>(std::sqrt(rr));
        ++prm.st->calls;
        if (!(rel == rel) || !std::isfinite(rel)) { ++prm.st->bad; prm.st->worst = std::numeric_limits<double>::infinity(); }
        else prm.st->worst = std::max(prm.st->worst, rel);
    }
};

template <template <class> class RU, template <class> class RP>
struct RealTypes {
    typedef checked<amgcl::make_solver<amgcl::relaxation::as_preconditioner<BK, RU>, amgcl::solver::gmres<BK>>> US;
    typedef checked<amgcl::make_solver<amgcl::relaxation::as_preconditioner<BK, RP>, amgcl::solver::gmres<BK>>> PS;
    typedef amgcl::preconditioner::schur_pressure_correction<US, PS> Schur;
};

template <class Schur>
static void run_real(Tape &t, Ctx &c, const SchurCase &s) {
    const double tol = 1e-14;
    boost::property_tree::ptree up, pp;
    InnerStats su, sp;
    up.put("stats", static_cast<void *>(&su)); pp.put("stats", static_cast<void *>(&sp));
    up.put("solver.tol", tol); up.put("solver.M", static_cast<unsigned>(s.nu + 2)); up.put("solver.maxiter", static_cast<unsigned>(4 * s.nu + 8));
    pp.put("solver.tol", tol); pp.put("solver.M", static_cast<unsigned>(s.np + 2)); pp.put("solver.maxiter", static_cast<unsigned>(4 * s.np + 8));
    auto prm = make_params<Schur>(s, up, pp);
    Schur P(std::tie(s.n, s.K.ptr, s.K.col, s.K.val), prm);
    int nrhs = static_cast<int>(t.u(1, 2));
    for (int k = 0; k < nrhs; ++k) {
        LV xtrue;
        int kind = k == 0 ? 0 : static_cast<int>(t.u(0, 2));
        std::vector<double> f = gen_rhs(t, s, &xtrue, kind);
        // GMRES stops at ||r|| < tol ||rhs|| or stagnates at the rounding level of its residual evaluation, c n u (|A||x|+|rhs|);
        // the reference models an inner solve that leaves a relative residual of at most tau = tol + 64 n u kappa-free slack
        ld tau = tol + 8 * static_cast<ld>(s.n) * U;
        bool identity_clause = kind == 0 && s.type == 1 && !s.approx;
        su = InnerStats(); sp = InnerStats();
        bool asserted = check_apply(s, P, f, identity_clause ? &xtrue : nullptr, "schur(gmres inner) type " + std::to_string(s.type), tau, tau,
                                    [&]() { return su.bad == 0 && sp.bad == 0 && su.worst <= static_cast<double>(tau) && sp.worst <= static_cast<double>(tau); });
        if (!asserted) { c.label(su.bad || sp.bad ? "inner-solve:non-finite(not asserted)" : "inner-solve:missed-tolerance(not asserted)"); c.nontrivial = false; continue; }
        c.label("inner-solves:within-tau");
        if (identity_clause) c.label("clause:apply(Kx)==x");
    }
    if (getenv("VF_C18_CALIB")) fprintf(stderr, "worst err/bound %.3g\n", g_worst);
}

static void prop_schur_gmres(Tape &t, Ctx &c) {
    g_iterative = true;
    SchurCase s = gen_case(t, true); // relaxations need a non-vanishing (here positive) diagonal in the adjusted Kpp
    describe_case(s, c, "schur(gmres inner solvers)");
    int inner_kind = static_cast<int>(t.u(0, 1));
    c.desc << " inner=" << (inner_kind ? "ilu0/ilu0" : "ilu0/damped_jacobi");
    c.label(inner_kind ? "inner:ilu0+ilu0" : "inner:ilu0+jacobi");
    if (inner_kind) run_real<RealTypes<amgcl::relaxation::ilu0, amgcl::relaxation::ilu0>::Schur>(t, c, s);
    else run_real<RealTypes<amgcl::relaxation::ilu0, amgcl::relaxation::damped_jacobi>::Schur>(t, c, s);
}

static std::vector<Prop> props() {
    return {
        Prop("schur_dense", prop_schur_dense, 700, 40000, 100, 20, {1}, 2, 8),
        Prop("schur_gmres", prop_schur_gmres, 300, 15000, 100, 20, {1}, 2, 8),
    };
}
static std::vector<Enum> enums() { return {}; }
VF_MAIN(props(), enums())
