// Shared by the C02 (cycle operator) and C01 (truthful convergence) harnesses:
//  * the friend accessor that reads the level list of an amg object (guard AMGCL_VERIF in /repo),
//  * a tape decoder for AMG configurations that are handed to the *runtime* interface as a property tree,
//  * column-by-column extraction of the cycle operator B and dense spectral helpers (Eigen).
#pragma once
#include <climits>
#include <cmath>
#include <sstream>
#include <string>
#include <vector>
#include <boost/property_tree/ptree.hpp>
#include <amgcl/backend/builtin.hpp>
#include <amgcl/amg.hpp>
#include <amgcl/coarsening/runtime.hpp>
#include <amgcl/relaxation/runtime.hpp>
#include <Eigen/Dense>
#include "../common/harness.hpp"
#include "../common/gen.hpp"
#include "../common/dense.hpp"
#include "../common/amgcl_util.hpp"

namespace amgcl_verif {
struct access {
    template <class AMG> static size_t nlevels(const AMG &a) { return a.levels.size(); }
    // f(rows, A (may be null on a direct coarse level), has_direct_solver, has_relaxation, has_P)
    template <class AMG, class F> static void for_levels(const AMG &a, F f) {
        for (auto &l : a.levels) f(l.rows(), l.A.get(), static_cast<bool>(l.solve), static_cast<bool>(l.relax), static_cast<bool>(l.P));
    }
    // f(level object): members A, relax, t, ... are read by the caller
    template <class AMG, class F> static void for_level_objects(const AMG &a, F f) { for (auto &l : a.levels) f(l); }
};
} // namespace amgcl_verif

namespace c02 {

using vf::Tape;
typedef boost::property_tree::ptree ptree;

static const double U = 1.1102230246251565e-16; // unit roundoff 2^-53

enum Coars { SA = 0, AGG = 1, EMIN = 2, RS = 3 };
static const char *coars_name[] = {"smoothed_aggregation", "aggregation", "smoothed_aggr_emin", "ruge_stuben"};
// order: the property's symmetric list first (0..6), then the two non-symmetric smoothers
enum Relax { SPAI0 = 0, JACOBI = 1, GS = 2, ILU0 = 3, ILUK = 4, ILUP = 5, CHEB = 6, SPAI1 = 7, ILUT = 8 };
static const char *relax_name[] = {"spai0", "damped_jacobi", "gauss_seidel", "ilu0", "iluk", "ilup", "chebyshev", "spai1", "ilut"};

struct AmgCfg {
    int coars = SA, relax = SPAI0;
    unsigned npre = 1, npost = 1, ncycle = 1, pre_cycles = 1, max_levels = UINT_MAX, coarse_enough = 3000;
    bool direct_coarse = true;
    bool defaults = false;       // leave every component parameter at its default (only the two types are written)
    // coarsening parameters (only those of the selected coarsening are written)
    bool set_eps = false; double eps_strong = 0.08;
    unsigned block_size = 1;     // coarsening.aggr.block_size (pointwise aggregation), aggregation-type coarsenings only
    bool set_over = false; double over_interp = 1.5;
    bool set_sa = false; double sa_relax = 1.0; bool est_rho = false; int sa_power_iters = 0;
    bool set_trunc = false; bool do_trunc = true; double eps_trunc = 0.2;
    // relaxation parameters
    bool set_damping = false; double damping = 1.0;
    bool set_k = false; int k = 1;
    bool set_ilut = false; double ilut_p = 2, ilut_tau = 1e-2;
    bool set_cheb = false; int cheb_degree = 5; double cheb_lower = 1.0 / 30; bool cheb_scale = false; int cheb_power_iters = 0; double cheb_higher = 1.0;
    bool set_serial = false; bool serial = true;

    double effective_over_interp() const { return set_over ? static_cast<double>(static_cast<float>(over_interp)) : 1.5; }
    bool symmetric_smoother() const { return relax <= CHEB; }

    // relaxation parameters below `pfx` ("relax" for amg, "" for as_preconditioner)
    void put_relax(ptree &p, const std::string &pfx) const {
        std::string d = pfx.empty() ? "" : pfx + ".";
        p.put(d + "type", relax_name[relax]);
        if (defaults) return;
        switch (relax) {
        case JACOBI: if (set_damping) p.put(d + "damping", damping); break;
        case GS: if (set_serial) p.put(d + "serial", serial); break;
        case ILU0: if (set_damping) p.put(d + "damping", damping); if (set_serial) p.put(d + "solve.serial", serial); break;
        case ILUK: case ILUP: if (set_damping) p.put(d + "damping", damping); if (set_k) p.put(d + "k", k); if (set_serial) p.put(d + "solve.serial", serial); break;
        case ILUT: if (set_damping) p.put(d + "damping", damping); if (set_ilut) { p.put(d + "p", ilut_p); p.put(d + "tau", ilut_tau); } if (set_serial) p.put(d + "solve.serial", serial); break;
        case CHEB: if (set_cheb) { p.put(d + "degree", cheb_degree); p.put(d + "lower", cheb_lower); p.put(d + "scale", cheb_scale); p.put(d + "power_iters", cheb_power_iters); p.put(d + "higher", cheb_higher); } break;
        default: break;
        }
    }
    // whole amg parameter tree below `pfx` ("" or "precond")
    void put_amg(ptree &p, const std::string &pfx) const {
        std::string d = pfx.empty() ? "" : pfx + ".";
        p.put(d + "coarsening.type", coars_name[coars]);
        put_relax(p, d + "relax");
        if (defaults) return;
        p.put(d + "coarse_enough", coarse_enough);
        if (max_levels != UINT_MAX) p.put(d + "max_levels", max_levels);
        if (!direct_coarse) p.put(d + "direct_coarse", false);
        p.put(d + "npre", npre); p.put(d + "npost", npost); p.put(d + "ncycle", ncycle); p.put(d + "pre_cycles", pre_cycles);
        if (coars == RS) {
            if (set_eps) p.put(d + "coarsening.eps_strong", eps_strong);
            if (set_trunc) { p.put(d + "coarsening.do_trunc", do_trunc); p.put(d + "coarsening.eps_trunc", eps_trunc); }
        } else {
            if (set_eps) p.put(d + "coarsening.aggr.eps_strong", eps_strong);
            if (block_size > 1) p.put(d + "coarsening.aggr.block_size", block_size);
            if (coars == AGG && set_over) p.put(d + "coarsening.over_interp", over_interp);
            if (coars == SA && set_sa) { p.put(d + "coarsening.relax", sa_relax); p.put(d + "coarsening.estimate_spectral_radius", est_rho); p.put(d + "coarsening.power_iters", sa_power_iters); }
        }
    }
    std::string str() const {
        std::ostringstream os;
        os << coars_name[coars] << "+" << relax_name[relax];
        if (defaults) { os << " (all defaults)"; return os.str(); }
        os << " npre=" << npre << " npost=" << npost << " ncycle=" << ncycle << " pre_cycles=" << pre_cycles << " coarse_enough=" << coarse_enough;
        if (max_levels != UINT_MAX) os << " max_levels=" << max_levels;
        if (!direct_coarse) os << " direct_coarse=0";
        if (set_eps) os << " eps_strong=" << eps_strong;
        if (block_size > 1 && coars != RS) os << " aggr.block_size=" << block_size;
        if (coars == AGG && set_over) os << " over_interp=" << over_interp;
        if (coars == SA && set_sa) os << " sa.relax=" << sa_relax << " est_rho=" << est_rho << " power_iters=" << sa_power_iters;
        if (coars == RS && set_trunc) os << " do_trunc=" << do_trunc << " eps_trunc=" << eps_trunc;
        if (set_damping && (relax == JACOBI || relax == ILU0 || relax == ILUK || relax == ILUP || relax == ILUT)) os << " damping=" << damping;
        if (set_k && (relax == ILUK || relax == ILUP)) os << " k=" << k;
        if (set_ilut && relax == ILUT) os << " p=" << ilut_p << " tau=" << ilut_tau;
        if (set_cheb && relax == CHEB) os << " degree=" << cheb_degree << " lower=" << cheb_lower << " scale=" << cheb_scale << " cheb.power_iters=" << cheb_power_iters << " higher=" << cheb_higher;
        if (set_serial && relax != SPAI0 && relax != SPAI1 && relax != JACOBI && relax != CHEB) os << " serial=" << serial;
        return os.str();
    }
};

// Component parameters inside their documented ranges.  `c02_domain`: the ranges of property C02
// (npre, npost in 1..3, pre_cycles in 1..2); otherwise the wider ranges of C01 (npre, npost 0..3 not both 0, pre_cycles 0..2).
inline void gen_component_params(Tape &t, AmgCfg &c, bool c02_domain) {
    if (c02_domain) { c.npre = static_cast<unsigned>(t.u(1, 3)); c.npost = t.chance(1, 3) ? static_cast<unsigned>(t.u(1, 3)) : c.npre; c.pre_cycles = static_cast<unsigned>(t.u(1, 2)); }
    else {
        c.npre = static_cast<unsigned>((t.u(0, 3) + 1) % 4); c.npost = static_cast<unsigned>((t.u(0, 3) + 1) % 4); // word 0 -> 1
        if (c.npre == 0 && c.npost == 0) c.npost = 1;
        c.pre_cycles = static_cast<unsigned>((t.u(0, 2) + 1) % 3);
    }
    c.ncycle = static_cast<unsigned>(t.u(1, 2));
    c.direct_coarse = !t.chance(1, 4);
    // coarsening
    static const double eps_set[] = {0.08, 0.04, 0.15, 0.25};
    if (t.chance(1, 3)) { c.set_eps = true; c.eps_strong = eps_set[t.pick(4)]; }
    if (c.coars == RS && !c.set_eps) c.eps_strong = 0.25;
    if (c.coars == AGG && t.chance(1, 2)) { c.set_over = true; static const double ov[] = {1.0, 1.5, 1.25, 1.9}; c.over_interp = ov[t.pick(4)]; }
    if (c.coars == SA && t.chance(1, 2)) { c.set_sa = true; static const double rl[] = {1.0, 0.5, 1.5}; c.sa_relax = rl[t.pick(3)]; c.est_rho = t.b(); c.sa_power_iters = c.est_rho && t.b() ? static_cast<int>(t.u(1, 8)) : 0; }
    if (c.coars == RS && t.chance(1, 2)) { c.set_trunc = true; c.do_trunc = t.b(); static const double tr[] = {0.2, 0.1, 0.4}; c.eps_trunc = tr[t.pick(3)]; }
    // relaxation
    if (t.chance(1, 2)) { c.set_damping = true; static const double dm[] = {1.0, 0.72, 0.5, 0.9}; c.damping = dm[t.pick(4)]; if (c.relax == JACOBI && c.damping == 1.0) c.damping = 0.72; }
    if (t.chance(1, 2)) { c.set_k = true; c.k = static_cast<int>(t.u(0, 3)); }
    if (t.chance(1, 2)) { c.set_ilut = true; static const double pp[] = {2, 1, 4}; static const double ta[] = {1e-2, 1e-1, 1e-4}; c.ilut_p = pp[t.pick(3)]; c.ilut_tau = ta[t.pick(3)]; }
    if (t.chance(1, 2)) { c.set_cheb = true; c.cheb_degree = static_cast<int>(t.u(1, 6)); static const double lo[] = {1.0 / 30, 0.1, 0.25, 0.02}; c.cheb_lower = lo[t.pick(4)]; c.cheb_scale = t.b(); }
    if (t.chance(1, 3)) { c.set_serial = true; c.serial = t.b(); }
    // Cost guard, not a domain restriction of the library: when coarsening stalls (n -> n-1 per level) a hierarchy has
    // hundreds of levels and a W-cycle costs ncycle^(levels-1) coarse visits; bound the depth so that a case terminates.
    if (c.ncycle >= 2 && c.max_levels > 10) c.max_levels = 10;
    else if (c.max_levels > 40) c.max_levels = 40;
}

typedef amgcl::backend::builtin<double> Backend;
typedef amgcl::amg<Backend, amgcl::runtime::coarsening::wrapper, amgcl::runtime::relaxation::wrapper> RtAmg;

struct LevelInfo { size_t levels = 0; std::vector<size_t> rows; bool direct = false; };
template <class AMG> LevelInfo level_info(const AMG &a) {
    LevelInfo li; li.levels = amgcl_verif::access::nlevels(a);
    amgcl_verif::access::for_levels(a, [&](size_t r, const auto *, bool solve, bool, bool) { li.rows.push_back(r); if (solve) li.direct = true; });
    return li;
}

// Known finding F-emin (NaN part).  smoothed_aggr_emin filters the weak connections of A into the diagonal (A_f) and
// computes for every aggregate c the damping  omega_c = (A_f P_c, A_f D^-1 A_f P_c) / ||A_f D^-1 A_f P_c||^2  without a
// guard.  When an aggregate is a whole connected component of A_f whose rows sum to zero (all links to the outside are
// weak and its nodes carry no diagonal shift) the column A_f P_c vanishes in exact arithmetic and omega_c = 0/0: in
// floating point the column holds rounding residues (or exact zeros), and omega_c becomes NaN (observed) or an arbitrary
// huge number.  smoothed_aggregation has no such quotient and guards its only division (`if (!is_zero(dia))`).
// The predicate re-derives the condition from the level matrices with the library's own public aggregation routine
// (eps_strong is halved after every level as in the coarsening object): an aggregate c is degenerate when
// max_i |(A_f P_tent)(i,c)| <= 1e-12 * max_{i in c} a_ii.  Returns an empty string when no level is degenerate.
// residue_only: report only the class that is still open after the repair a58f297 in /repo (exact zeros are guarded there:
// omega := 0 for a vanishing denominator, no smoothing for a vanishing filtered diagonal): an aggregate whose column of
// A_f P_tent consists of non-zero ROUNDING RESIDUES (|.| <= 1e-12 max a_ii).  Its omega is still a quotient of residues,
// i.e. an arbitrary, possibly huge number, and P / R (computed separately) differ by O(1): known finding F-emin-residue.
template <class AMG> std::string emin_degenerate(const AMG &a, double eps_strong, bool residue_only = false, unsigned block_size = 1) {
    std::string why; float eps = static_cast<float>(eps_strong); int lvl = 0;
    amgcl_verif::access::for_levels(a, [&](size_t, const amgcl::backend::crs<double> *A, bool, bool, bool hasP) {
        if (!A || !hasP || !why.empty()) { ++lvl; return; }
        for (size_t j = 0; j < A->nnz; ++j) if (!std::isfinite(A->val[j])) { ++lvl; return; } // only below an already degenerate level
        amgcl::coarsening::pointwise_aggregates::params ap; ap.eps_strong = eps; ap.block_size = block_size; // block_size 1: plain_aggregates
        size_t nc = 0; std::vector<ptrdiff_t> id; std::vector<char> strong;
        try { amgcl::coarsening::pointwise_aggregates ag(*A, ap, 0); nc = ag.count; id = ag.id; strong = ag.strong_connection; }
        catch (const amgcl::error::empty_level &) { ++lvl; return; }
        std::vector<double> colmax(nc, 0.0), diamax(nc, 0.0);
        for (size_t i = 0; i < A->nrows; ++i) {
            double D = 0, aii = 0;
            for (ptrdiff_t j = A->ptr[i]; j < A->ptr[i + 1]; ++j) { if (static_cast<size_t>(A->col[j]) == i) aii = A->val[j]; if (static_cast<size_t>(A->col[j]) == i || !strong[j]) D += A->val[j]; }
            if (id[i] >= 0) diamax[id[i]] = std::max(diamax[id[i]], std::abs(aii));
            // row i of A_f P_tent (P_tent(j, id[j]) = 1), accumulated per aggregate
            std::vector<std::pair<ptrdiff_t, double>> acc;
            for (ptrdiff_t j = A->ptr[i]; j < A->ptr[i + 1]; ++j) {
                size_t c = static_cast<size_t>(A->col[j]);
                double v; if (c == i) v = D; else if (strong[j]) v = A->val[j]; else continue;
                if (id[c] < 0) continue;
                bool found = false;
                for (auto &kv : acc) if (kv.first == id[c]) { kv.second += v; found = true; }
                if (!found) acc.push_back(std::make_pair(id[c], v));
            }
            for (auto &kv : acc) colmax[kv.first] = std::max(colmax[kv.first], std::abs(kv.second));
        }
        for (size_t cidx = 0; cidx < nc && why.empty(); ++cidx)
            if (colmax[cidx] <= 1e-12 * diamax[cidx] && !(residue_only && colmax[cidx] == 0)) { std::ostringstream os; os << "level " << lvl << ": aggregate " << cidx << " is an isolated zero-row-sum block of the filtered matrix, max|A_f P_tent(:,c)| = " << colmax[cidx] << " (omega = 0/0)"; why = os.str(); }
        // (b) a vanishing or negative filtered diagonal that is actually inverted: the row belongs to an aggregate or its
        // column is referenced by a strong entry of another row (possible for non-symmetric or non-M coarse operators only)
        if (why.empty() && !residue_only) {
            std::vector<char> referenced(A->nrows, 0);
            for (size_t i = 0; i < A->nrows; ++i) for (ptrdiff_t j = A->ptr[i]; j < A->ptr[i + 1]; ++j) if (static_cast<size_t>(A->col[j]) != i && strong[j]) referenced[A->col[j]] = 1;
            for (size_t i = 0; i < A->nrows && why.empty(); ++i) {
                double D = 0, aii = 0;
                for (ptrdiff_t j = A->ptr[i]; j < A->ptr[i + 1]; ++j) { if (static_cast<size_t>(A->col[j]) == i) aii = A->val[j]; if (static_cast<size_t>(A->col[j]) == i || !strong[j]) D += A->val[j]; }
                if ((id[i] >= 0 || referenced[i]) && !(D > 1e-12 * std::abs(aii))) { std::ostringstream os; os << "level " << lvl << ": filtered diagonal of row " << i << " is " << D << " (a_ii = " << aii << ") and is inverted"; why = os.str(); }
            }
        }
        eps *= 0.5f; ++lvl;
    });
    return why;
}

// Known finding F-emin-pointwise-isolated-column.  With coarsening.aggr.block_size = b > 1 a node (b consecutive unknowns) is
// aggregated as soon as ONE of its unknowns is strongly coupled to a neighbouring node; unknowns of the node that have no
// coupling into any strongly connected node are dragged along (with b = 1 such unknowns are "removed" and stay on the fine
// level).  If all members of a coarse column (aggregate a, component k) are of that kind, the column of A_f P_tent is
// D restricted to the members, the energy-minimising damping is omega = (D,D)/(D,D) = 1 and  P(:,c) = P_tent(:,c) -
// D^-1 A_f P_tent(:,c) omega = 0 (exactly, or 1e-16 by rounding): the Galerkin operator gets a zero row, the coarsest
// factorisation throws "Zero sum in skyline_lu" or the hierarchy becomes NaN.  smoothed_aggregation does the same for
// relax = 1.5 (omega = 1) only.  Returns a description of the first such column, empty if there is none.
template <class AMG> std::string pointwise_isolated_column(const AMG &a, double eps_strong, unsigned block_size) {
    std::string why; float eps = static_cast<float>(eps_strong); int lvl = 0;
    if (block_size <= 1) return why;
    amgcl_verif::access::for_levels(a, [&](size_t, const amgcl::backend::crs<double> *A, bool, bool, bool hasP) {
        if (!A || !hasP || !why.empty()) { ++lvl; return; }
        for (size_t j = 0; j < A->nnz; ++j) if (!std::isfinite(A->val[j])) { ++lvl; return; }
        if (A->nrows % block_size) { ++lvl; return; }
        amgcl::coarsening::pointwise_aggregates::params ap; ap.eps_strong = eps; ap.block_size = block_size;
        size_t nc = 0; std::vector<ptrdiff_t> id; std::vector<char> strong;
        try { amgcl::coarsening::pointwise_aggregates ag(*A, ap, 0); nc = ag.count; id = ag.id; strong = ag.strong_connection; } catch (const amgcl::error::empty_level &) { ++lvl; return; }
        std::vector<char> has_member(nc, 0), has_coupled(nc, 0);
        for (size_t i = 0; i < A->nrows; ++i) {
            if (id[i] < 0) continue;
            has_member[id[i]] = 1;
            for (ptrdiff_t j = A->ptr[i]; j < A->ptr[i + 1]; ++j) if (static_cast<size_t>(A->col[j]) != i && strong[j] && A->val[j] != 0) has_coupled[id[i]] = 1;
        }
        for (size_t cidx = 0; cidx < nc && why.empty(); ++cidx)
            if (has_member[cidx] && !has_coupled[cidx]) { std::ostringstream os; os << "level " << lvl << ": no member of coarse column " << cidx << " is coupled to a strongly connected node (omega = 1, P(:,c) = 0)"; why = os.str(); }
        eps *= 0.5f; ++lvl;
    });
    return why;
}

// Known finding F-emin-pointwise-rank-deficient (general form of the mechanism above).  With aggr.block_size = b > 1 the
// couplings INSIDE a node are never strong (the diagonal entry of the pointwise matrix is not a connection), so they are
// lumped into the filtered diagonal and A_f only couples unknowns of different nodes.  On a scalar problem viewed with b > 1
// (e.g. a chain: A_f decays into isolated pairs {2I-1, 2I} with zero row sums) the columns A_f P_tent(:,(a,0)) and
// A_f P_tent(:,(a,1)) of one aggregate are linearly dependent, energy minimisation gives omega = 1/2 and IDENTICAL columns
// P(:,(a,0)) = P(:,(a,1)) (or a zero column for isolated unknowns): P is rank deficient, the Galerkin operator singular, the
// coarsest factorisation throws "Zero sum in skyline_lu" / "Zero pivot in ILU" or the cycle is NaN.
// Predicate: some level below the finest has lambda_min(A_l) <= 1e-10 lambda_max(A_l) (the fine matrix is SPD, so this is
// rank deficiency of the transfer operators).  `a` must be built with direct_coarse = false so that every level keeps A_l.
template <class AMG> std::string coarse_level_singular(const AMG &a, double *max_cond = nullptr) {
    std::string why; int lvl = 0;
    amgcl_verif::access::for_levels(a, [&](size_t, const amgcl::backend::crs<double> *A, bool, bool, bool) {
        int me = lvl++;
        if (me == 0 || !A || !why.empty() || A->nrows == 0) return;
        Eigen::MatrixXd E = Eigen::MatrixXd::Zero(A->nrows, A->nrows); bool fin = true;
        for (size_t i = 0; i < A->nrows; ++i) for (ptrdiff_t j = A->ptr[i]; j < A->ptr[i + 1]; ++j) { E(i, A->col[j]) += A->val[j]; fin = fin && std::isfinite(A->val[j]); }
        if (!fin) { std::ostringstream os; os << "level " << me << " has non-finite entries"; why = os.str(); return; }
        Eigen::SelfAdjointEigenSolver<Eigen::MatrixXd> es(0.5 * (E + E.transpose()), Eigen::EigenvaluesOnly);
        double lo = es.eigenvalues()(0), hi = es.eigenvalues()(A->nrows - 1);
        if (max_cond && lo > 0) *max_cond = std::max(*max_cond, hi / lo);
        if (!(lo > 1e-10 * hi)) { std::ostringstream os; os << "level " << me << " (n=" << A->nrows << ") is singular: lambda_min=" << lo << " lambda_max=" << hi; why = os.str(); }
    });
    return why;
}

// Known finding F-rs-abseps.  ruge_stuben compares matrix entries with the ABSOLUTE constant eps = 2*DBL_EPSILON
// (connect(): a row whose most negative off-diagonal is above -eps gets no strong connections; interpolation: sums of
// off-diagonals are tested with "> eps"), so a hierarchy is not equivariant under scaling of A once an off-diagonal of
// some level comes within reach of 4.4e-16.  Returns the smallest |off-diagonal| * min(1, s) over all coarsened levels
// (the two hierarchies are exact scaled copies of each other down to the first level where a threshold is crossed).
template <class AMG> double rs_min_offdiag(const AMG &a, double s) {
    double m = 1e300;
    amgcl_verif::access::for_levels(a, [&](size_t, const amgcl::backend::crs<double> *A, bool, bool, bool) {
        // every level that keeps its matrix, also the one where coarsening STOPPED: it stops exactly when all off-diagonals are
        // below the absolute threshold (all rows become F, empty level), and the scaled hierarchy may coarsen further there
        if (!A) return;
        for (size_t i = 0; i < A->nrows; ++i) for (ptrdiff_t j = A->ptr[i]; j < A->ptr[i + 1]; ++j)
            if (static_cast<size_t>(A->col[j]) != i && A->val[j] != 0) m = std::min(m, std::abs(A->val[j]) * std::min(1.0, s));
    });
    return m;
}

// ---------------------------------------------------------------- dense helpers
typedef Eigen::MatrixXd Mat;
typedef Eigen::VectorXd Vec;

// Known finding F-smoother-coarse.  The premise of C02 (diagonally dominant M-matrix) holds on the finest level only:
// the coarse operators of smoothed aggregation / emin / Ruge-Stuben are SPD but in general neither M-matrices nor
// diagonally dominant, and the point smoothers with a fixed damping (damped Jacobi, SPAI-0) and the incomplete
// factorisations (ILU0/ILUK/ILUP: negative pivots, indefinite LU) are not guaranteed to converge on them.
// For every level below the finest one that carries a smoother the function extracts the smoother N_l (one pre-sweep
// from a zero guess, column by column, through the level's own relaxation object) and returns the largest spectral
// radius of I - N_l A_l; a value >= 1 means the smoother alone diverges on that level (Gauss-Seidel cannot, skipped).
template <class AMG> double worst_coarse_smoother_rho(const AMG &a, int *which_level = nullptr) {
    double worst = 0; int idx = 0;
    amgcl_verif::access::for_level_objects(a, [&](const auto &l) {
        int me = idx++;
        if (me == 0 || !l.relax || !l.A) return;
        const ptrdiff_t m = static_cast<ptrdiff_t>(l.rows());
        if (m == 0) return;
        amgcl::backend::numa_vector<double> e(m), x(m), tmp(m);
        for (ptrdiff_t i = 0; i < m; ++i) e[i] = 0;
        Mat N(m, m), Al = Mat::Zero(m, m);
        for (ptrdiff_t j = 0; j < m; ++j) {
            e[j] = 1; for (ptrdiff_t i = 0; i < m; ++i) { x[i] = 0; tmp[i] = 0; }
            l.relax->apply_pre(*l.A, e, x, tmp);
            e[j] = 0;
            for (ptrdiff_t i = 0; i < m; ++i) N(i, j) = x[i];
        }
        for (ptrdiff_t i = 0; i < m; ++i) for (ptrdiff_t j = l.A->ptr[i]; j < l.A->ptr[i + 1]; ++j) Al(i, l.A->col[j]) += l.A->val[j];
        Mat E = Mat::Identity(m, m) - N * Al;
        double r = 0;
        bool fin = true; for (ptrdiff_t i = 0; i < E.size(); ++i) fin = fin && std::isfinite(E.data()[i]);
        if (!fin) r = 1e300;
        else { Eigen::EigenSolver<Mat> es(E, false); for (ptrdiff_t i = 0; i < m; ++i) r = std::max(r, std::abs(es.eigenvalues()[i])); }
        if (r > worst) { worst = r; if (which_level) *which_level = me; }
    });
    return worst;
}

inline Mat to_eigen(const vf::Csr<double> &A) {
    Mat E = Mat::Zero(A.n, A.m);
    for (ptrdiff_t i = 0; i < A.n; ++i) for (ptrdiff_t j = A.ptr[i]; j < A.ptr[i + 1]; ++j) E(i, A.col[j]) += A.val[j];
    return E;
}

// B := [apply(e_1) ... apply(e_n)]
template <class P> Mat extract_operator(const P &prec, ptrdiff_t n) {
    Mat B(n, n);
    std::vector<double> e(n, 0.0), x(n);
    for (ptrdiff_t j = 0; j < n; ++j) {
        e[j] = 1.0;
        for (ptrdiff_t i = 0; i < n; ++i) x[i] = (i % 3) - 7.5; // apply() must overwrite, not accumulate
        prec.apply(e, x);
        e[j] = 0.0;
        for (ptrdiff_t i = 0; i < n; ++i) B(i, j) = x[i];
    }
    return B;
}

inline bool all_finite(const Mat &M) { for (ptrdiff_t i = 0; i < M.size(); ++i) if (!std::isfinite(M.data()[i])) return false; return true; }

// spectral radius of I - B A (general eigenvalues)
inline double rho_general(const Mat &B, const Mat &A) {
    ptrdiff_t n = A.rows(); if (n == 0) return 0;
    Mat E = Mat::Identity(n, n) - B * A;
    Eigen::EigenSolver<Mat> es(E, false);
    double r = 0; for (ptrdiff_t i = 0; i < n; ++i) r = std::max(r, std::abs(es.eigenvalues()[i]));
    return r;
}
// For symmetric B: eigenvalues of L^T B L (A = L L^T), similar to B A.  Returns (min, max).
inline bool eig_BA_symmetric(const Mat &B, const Mat &A, double &mu_min, double &mu_max) {
    Eigen::LLT<Mat> llt(A);
    if (llt.info() != Eigen::Success) return false;
    Mat L = llt.matrixL();
    Mat S = L.transpose() * (0.5 * (B + B.transpose())) * L;
    Eigen::SelfAdjointEigenSolver<Mat> es(0.5 * (S + S.transpose()), Eigen::EigenvaluesOnly);
    mu_min = es.eigenvalues()(0); mu_max = es.eigenvalues()(S.rows() - 1);
    return true;
}
inline void eig_sym(const Mat &S, double &lmin, double &lmax) {
    Eigen::SelfAdjointEigenSolver<Mat> es(0.5 * (S + S.transpose()), Eigen::EigenvaluesOnly);
    lmin = es.eigenvalues()(0); lmax = es.eigenvalues()(S.rows() - 1);
}

// deterministic vector from one tape word (splitmix64 stream): kind 0 ones, 1 small ints, 2 uniform(-1,1), 3 wide dynamic range
inline std::vector<double> seeded_vec(Tape &t, size_t n) {
    int kind = static_cast<int>(t.u(0, 3));
    uint64_t s = static_cast<uint64_t>(t.u(0, 0xffffffffLL)) * 0x9E3779B97F4A7C15ULL + 0x632BE59BD9B4E019ULL;
    auto next = [&]() { s += 0x9E3779B97F4A7C15ULL; uint64_t z = s; z = (z ^ (z >> 30)) * 0xBF58476D1CE4E5B9ULL; z = (z ^ (z >> 27)) * 0x94D049BB133111EBULL; return z ^ (z >> 31); };
    std::vector<double> x(n);
    for (size_t i = 0; i < n; ++i) {
        uint64_t z = next();
        double r = static_cast<double>(z >> 11) / 9007199254740992.0; // [0,1)
        switch (kind) {
        case 0: x[i] = 1.0; break;
        case 1: x[i] = static_cast<double>(static_cast<int>(z % 7) - 3); break;
        case 2: x[i] = 2 * r - 1; break;
        default: { double m = std::exp(std::log(1e6) * r - std::log(1e3)); x[i] = (next() & 1) ? -m : m; }
        }
    }
    bool nz = false; for (double v : x) nz = nz || v != 0;
    if (!nz && n) x[0] = 1.0;
    return x;
}

// Bulk data for large cases: a secondary tape whose words are a deterministic expansion (splitmix64) of ONE word of the
// main tape.  The case is still a function of the main tape only, but the main tape stays short, which keeps
// rapidcheck's shrinking affordable for cases that cost 10..100 ms each.  Mix sub.h back into the main hash after use.
inline Tape expand_tape(Tape &t, size_t words) {
    uint64_t s = static_cast<uint64_t>(t.u(0, 0xffffffffLL)) * 0x9E3779B97F4A7C15ULL + 0x2545F4914F6CDD1DULL;
    std::vector<uint32_t> w(words);
    for (size_t i = 0; i < words; ++i) { s += 0x9E3779B97F4A7C15ULL; uint64_t z = s; z = (z ^ (z >> 30)) * 0xBF58476D1CE4E5B9ULL; z = (z ^ (z >> 27)) * 0x94D049BB133111EBULL; w[i] = static_cast<uint32_t>((z ^ (z >> 31)) >> 16); }
    return Tape(w);
}

// A generated M-matrix case.  The MAIN tape carries only the size class, the size bound inside the class, the graph
// family and one seed word; the bulk (edges, weights, shifts) is decoded by vf::gen_graph / vf::gen_mmat from a sub-tape
// expanded from that seed.  cls_of_word maps the class word (0 .. size-1) to a class index, class k has n <= hi[k].
struct GenMat { vf::Graph g; vf::Csr<double> A; vf::MmatInfo mi; int cls = 0; int nmax = 1; };
inline GenMat gen_mmat_case(Tape &t, const std::vector<int> &cls_of_word, const std::vector<int> &lo, const std::vector<int> &hi,
                            double max_contrast, bool aniso, int fam_lo = 0, int fam_hi = 9) {
    GenMat m;
    m.cls = cls_of_word[t.pick(cls_of_word.size())];                       // word 0 -> first (smallest) class
    m.nmax = lo[m.cls] + static_cast<int>(t.u(0, hi[m.cls] - lo[m.cls]));  // word 0 -> lower end of the class
    int fam = static_cast<int>(t.u(fam_lo, fam_hi));
    Tape sub = expand_tape(t, 64 + 40 * static_cast<size_t>(m.nmax));
    m.g = vf::gen_graph(sub, m.nmax, fam, fam);
    m.A = vf::gen_mmat(sub, m.g, max_contrast, aniso, &m.mi);
    t.mix(sub.h);
    return m;
}

inline double norm2(const std::vector<double> &x) { long double s = 0; for (double v : x) s += static_cast<long double>(v) * v; return static_cast<double>(std::sqrt(s)); }

inline std::string bucket(double v, const std::vector<double> &edges, const std::string &pfx) {
    std::ostringstream os; os << pfx;
    for (size_t i = 0; i < edges.size(); ++i) if (v < edges[i]) { os << "<" << edges[i]; return os.str(); }
    os << ">=" << edges.back(); return os.str();
}

} // namespace c02
