// C14 (d) — shared machinery of the run-time vs compile-time equivalence executables.
#pragma once
#include <algorithm>
#include <cstring>
#include <memory>
#include "c14_components.hpp"
#include "../common/gen.hpp"

// reads the number of levels of an amg hierarchy through the guarded friend declaration (AMGCL_VERIF)
namespace amgcl_verif { struct access { template <class A> static size_t levels(const A &a) { return a.levels.size(); } }; }

namespace c14 {
using vf::Tape; using vf::Ctx;

struct System {
    size_t n = 0;
    std::vector<ptrdiff_t> ptr, col;
    std::vector<double> val, rhs, x0;
    std::string desc;
};

// The coefficients of a system are not what these properties are about, and a tape that spells out every edge weight makes a failing
// case shrink for many minutes (each of several thousand words is shrunk separately). The system is therefore decoded from a
// *derived* tape: one word of the case tape seeds a SplitMix64 stream that plays the role of the tape for vf::gen_graph / gen_mmat /
// gen_vec. Still a pure function of the case tape; word 0 gives the all-zero derived tape, i.e. the simplest system.
inline vf::Tape derived_tape(vf::Tape &t, size_t nwords = 24000) {
    uint32_t seed = static_cast<uint32_t>(t.u(0, 0xffffffffLL));
    std::vector<uint32_t> w(nwords, 0);
    if (seed) {
        uint64_t s = seed;
        for (auto &x : w) { s += 0x9E3779B97F4A7C15ULL; uint64_t z = s; z = (z ^ (z >> 30)) * 0xBF58476D1CE4E5B9ULL; z = (z ^ (z >> 27)) * 0x94D049BB133111EBULL; z ^= z >> 31; x = static_cast<uint32_t>(z >> 16); }
    }
    return vf::Tape(w);
}

// graph with at least nmin nodes: smaller generated graphs are replicated and chained
inline vf::Graph gen_graph_min(vf::Tape &t, int nmax, int nmin) {
    vf::Graph g = vf::gen_graph(t, nmax, 0, 8);
    if (g.n < nmin) {
        int r = (nmin + g.n - 1) / g.n, n0 = g.n;
        vf::Graph h; h.family = g.family + "*" + std::to_string(r); h.n = n0 * r;
        for (int k = 0; k < r; ++k) {
            for (auto &e : g.edges) h.edges.push_back(std::make_pair(e.first + k * n0, e.second + k * n0));
            if (k + 1 < r) h.edges.push_back(std::make_pair(k * n0 + n0 - 1, (k + 1) * n0));
        }
        std::sort(h.edges.begin(), h.edges.end());
        h.axis.assign(h.edges.size(), -1);
        g = h;
    }
    return g;
}

// SPD M-matrix on a generated graph with nmin..nmax nodes, right-hand side and initial guess
inline System gen_system(Tape &case_tape, int nmax = 400, int nmin = 50) {
    vf::Tape t = derived_tape(case_tape);
    vf::Graph g = gen_graph_min(t, nmax, nmin);
    vf::MmatInfo info;
    vf::Csr<double> A = vf::gen_mmat(t, g, 10.0, false, &info);
    System s; s.n = static_cast<size_t>(A.n); s.ptr = A.ptr; s.col = A.col; s.val = A.val;
    s.rhs = vf::gen_vec(t, s.n, static_cast<int>(t.u(0, 2)));
    bool nz = false; for (double v : s.rhs) nz = nz || v != 0;
    if (!nz) s.rhs[0] = 1.0;
    if (t.b()) s.x0 = vf::gen_vec(t, s.n, 2); else s.x0.assign(s.n, 0.0);
    std::ostringstream os; os << g.family << " n=" << s.n << " nnz=" << s.col.size() << " contrast=" << info.contrast;
    s.desc = os.str();
    return s;
}


// Development aid for writing regression files: with VF_FIND="text1;text2" in the environment a case whose description + labels contain
// all the texts is reported as a failure ("VF_FIND matched"), so that rapidcheck shrinks it and writes the .case file. Unset in every check run.
inline void find_case(Ctx &c) {
    const char *f = getenv("VF_FIND");
    if (!f || !*f) return;
    std::string d = c.desc.str(), pat(f);
    for (auto &l : c.labels) d += " [" + l + "]";
    size_t p = 0;
    while (p <= pat.size()) {
        size_t q = pat.find(';', p); if (q == std::string::npos) q = pat.size();
        if (q > p && d.find(pat.substr(p, q - p)) == std::string::npos) return;
        p = q + 1;
    }
    throw vf::Fail("VF_FIND matched");
}

struct Result {
    bool threw = false; std::string what;
    size_t iters = 0; double resid = 0; std::vector<double> x;
    size_t levels = 0;
};

// bitwise equality; two NaNs are equal whatever their sign/payload (which instruction produced the NaN is not an observable of the library)
inline bool same_bits(double a, double b) { return (a != a && b != b) || std::memcmp(&a, &b, sizeof a) == 0; }

inline void require_identical(const Result &rt, const Result &ct, const std::string &label) {
    VF_REQUIRE(rt.threw == ct.threw, label << ": run-time assembled solver " << (rt.threw ? "threw '" + rt.what + "'" : std::string("succeeded")) << " but the compile-time one "
               << (ct.threw ? "threw '" + ct.what + "'" : std::string("succeeded")));
    if (rt.threw) { VF_REQUIRE(rt.what == ct.what, label << ": different exceptions: '" << rt.what << "' vs '" << ct.what << "'"); return; }
    VF_REQUIRE(rt.iters == ct.iters, label << ": iterations " << rt.iters << " (run-time) vs " << ct.iters << " (compile-time)");
    VF_REQUIRE(same_bits(rt.resid, ct.resid), label << ": residual " << fmt(rt.resid) << " (run-time) vs " << fmt(ct.resid) << " (compile-time)");
    VF_REQUIRE(rt.x.size() == ct.x.size(), label << ": solution sizes differ");
    for (size_t i = 0; i < rt.x.size(); ++i)
        VF_REQUIRE(same_bits(rt.x[i], ct.x[i]), label << ": x[" << i << "] = " << fmt(rt.x[i]) << " (run-time) vs " << fmt(ct.x[i]) << " (compile-time), iterations " << rt.iters);
}

template <class S> struct LevelsOf { static size_t get(const S &) { return 0; } };
template <template <class> class C, template <class> class R> struct LevelsOf<amgcl::amg<B, C, R>> {
    static size_t get(const amgcl::amg<B, C, R> &a) { return amgcl_verif::access::levels(a); }
};
template <class P, class S> struct LevelsOf<amgcl::make_solver<P, S>> { static size_t get(const amgcl::make_solver<P, S> &s) { return LevelsOf<P>::get(s.precond()); } };

template <class Solver, class Prm>
Result run_solver(const System &s, const Prm &prm) {
    Result r;
    try {
        Solver solve(std::tie(s.n, s.ptr, s.col, s.val), prm);
        r.levels = LevelsOf<Solver>::get(solve);
        r.x = s.x0;
        std::tie(r.iters, r.resid) = solve(s.rhs, r.x);
    } catch (const std::exception &e) { r.threw = true; r.what = e.what(); }
    return r;
}

typedef std::vector<std::pair<std::string, std::string>> TypeKeys; // selector keys that turn the typed tree into the run-time tree

// One equivalence case: generated parameter values for the typed composite; the run-time composite gets the same tree plus the selectors.
template <class Typed, class Runtime>
void equiv_case(Tape &t, Ctx &c, const char *label, const TypeKeys &types, const char *amg_path) {
    System s = gen_system(t);
    Arena arena; ptree pt;
    GenCtx g(t, pt, arena);
    g.sane = true; g.rows = s.n;
    g.set_num = static_cast<int>(t.u(1, 3)); g.set_den = 3;
    typename Typed::params model;
    g.nodes.push_back(Node{"", false});
    GenV<typename Typed::params> gv{model, g, "", false};
    Desc<typename Typed::params>::visit(gv);
    if (amg_path) { // a small threshold so that the hierarchy has several levels; W-cycles only on shallow hierarchies (cost 2^levels)
        std::string ap(amg_path);
        unsigned ce = static_cast<unsigned>(t.u(2, 25));
        if (!pt.get_optional<std::string>(ap + "coarse_enough")) ++g.nset;
        pt.put(ap + "coarse_enough", ce);
        g.log << " " << ap << "coarse_enough:=" << ce;
        // with >= 2 near-null-space vectors a coarse level can have as many unknowns as the fine one (each aggregate gets
        // `cols` coarse unknowns), so the hierarchy may have tens of thousands of levels and amg::cycle recurses once per
        // level (stack overflow): cap the depth there as well (cost / resource guard, not an oracle change)
        bool wide_ns = pt.get(ap + "coarsening.nullspace.cols", 0) >= 2;
        if ((pt.get(ap + "ncycle", 1u) > 1 || wide_ns) && pt.get(ap + "max_levels", 1000u) > 6) {
            unsigned ml = static_cast<unsigned>(t.u(2, 6));
            if (!pt.get_optional<std::string>(ap + "max_levels")) ++g.nset;
            pt.put(ap + "max_levels", ml);
            g.log << " " << ap << "max_levels:=" << ml;
        }
    }
    ptree rt_pt = pt;
    for (auto &kv : types) rt_pt.put(kv.first, kv.second);
    // unknown keys at random depth of the run-time tree
    std::set<std::string> known = local_names(g.keys), injected;
    known.insert("type"); known.insert("class");
    int nextra = t.chance(1, 3) ? static_cast<int>(t.u(1, 2)) : 0;
    std::ostringstream xs;
    for (int i = 0; i < nextra; ++i) {
        std::string node = g.nodes[t.pick(g.nodes.size())].path;
        std::string nm = extra_name(t, g, known, injected);
        inject_extra(t, rt_pt, node, nm); injected.insert(nm);
        xs << " +" << node << nm;
    }
    c.desc << "equivalence " << label << " on " << s.desc << " set=" << g.nset << ":" << g.log.str() << " extra:" << xs.str() << " threads=" << c.threads;

    unknown_log().clear();
    typename Typed::params tprm(pt);
    VF_REQUIRE(unknown_log().empty(), label << ": known key '" << unknown_log()[0] << "' reported as unknown by the compile-time parameters");
    Result ct = run_solver<Typed>(s, tprm);
    unknown_log().clear();
    Result rt = run_solver<Runtime>(s, rt_pt);
    std::set<std::string> reported(unknown_log().begin(), unknown_log().end());

    c.nontrivial = g.nset >= 3 && !ct.threw && (amg_path == nullptr || ct.levels >= 2);
    c.label(std::string("combo:") + label);
    c.label(ct.threw ? "outcome:exception" : "outcome:solved");
    if (!ct.threw) { c.label("levels:" + std::to_string(std::min<size_t>(ct.levels, 5))); c.label(ct.iters <= 1 ? "iters:0-1" : ct.iters < 10 ? "iters:2-9" : "iters:10+"); }
    c.label(s.n < 100 ? "n:50-99" : s.n < 200 ? "n:100-199" : "n:200-400");
    if (nextra) c.label("extra-key");
    if (!g.bundles.empty()) c.label("nullspace");

    require_identical(rt, ct, label);
    if (!rt.threw) {
        for (auto &k : reported) VF_REQUIRE(injected.count(k), label << ": key '" << k << "' reported as unknown by the run-time interface although " << (known.count(k) ? "it is a parameter" : "it was never given"));
        for (auto &k : injected) VF_REQUIRE(reported.count(k), label << ": unknown key '" << k << "' silently dropped by the run-time interface; reported=" << set_to_string(reported));
    }
    find_case(c);
}


// A constructed object writes back the parameters it was constructed with (get_params / prm.get): used by the compile probes.
// `fix(g, pt, model, sys)` may add parameters that depend on the system (deflation vectors); `ex(obj, out)` calls the exporter.
template <class Obj, class Fix, class Export>
void object_export_case(Tape &t, Ctx &c, const char *label, Fix fix, Export ex) {
    System s = gen_system(t, 80, 12);
    Arena arena; ptree pt;
    GenCtx g(t, pt, arena);
    g.sane = true; g.rows = s.n;
    g.set_num = static_cast<int>(t.u(1, 3)); g.set_den = 3;
    typename Obj::params model;
    GenV<typename Obj::params> gv{model, g, "", false};
    Desc<typename Obj::params>::visit(gv);
    fix(g, pt, model, s);
    c.desc << "object export " << label << " on " << s.desc << " set=" << g.nset << ":" << g.log.str();
    c.nontrivial = g.nset >= 3;
    c.label(std::string("object:") + label);
    unknown_log().clear();
    typename Obj::params prm(pt);
    VF_REQUIRE(unknown_log().empty(), label << ": known key '" << unknown_log()[0] << "' reported as unknown");
    std::unique_ptr<Obj> obj;
    try { obj.reset(new Obj(std::tie(s.n, s.ptr, s.col, s.val), prm)); }
    catch (const std::exception &e) { c.label("construction-rejected"); c.nontrivial = false; c.desc << " rejected: " << e.what(); return; }
    { CmpV<typename Obj::params> cv{model, obj->prm, "", "parameters held by the constructed object"}; Desc<typename Obj::params>::visit(cv); }
    ptree out;
    ex(*obj, out);
    { ExpV<typename Obj::params> ev{obj->prm, out, "", {}}; Desc<typename Obj::params>::visit(ev); ev.finish(); }
}
struct NoFix { template <class P> void operator()(GenCtx &, ptree &, P &, const System &) const {} };

} // namespace c14
