// C01 sub-domain T for non-scalar-real value types (complex, 2x2 blocks): one templated property, reduced configuration
// set.  All dense reference algebra is done on the scalar expansion of the system (complex entries, n*B unknowns).
#pragma once
#include <complex>
#include <iomanip>
#include "c01_common.hpp"

namespace c01vt {

using namespace vf;
using namespace c02;
using namespace c01;
typedef std::complex<double> cplx;
typedef Eigen::MatrixXcd CMat;
typedef Eigen::VectorXcd CVec;

template <class Tr> struct Harness {
    typedef typename Tr::value_type V;
    typedef typename Tr::rhs_type R;
    typedef amgcl::backend::builtin<V> BE;
    typedef amgcl::amg<BE, amgcl::runtime::coarsening::wrapper, amgcl::runtime::relaxation::wrapper> Amg;
    typedef amgcl::make_solver<Amg, amgcl::runtime::solver::wrapper<BE>> AmgSolver;
    typedef amgcl::make_solver<amgcl::relaxation::as_preconditioner<BE, amgcl::runtime::relaxation::wrapper>, amgcl::runtime::solver::wrapper<BE>> RelSolver;
    static const int B = Tr::B;

    static Csr<cplx> expand(const Csr<V> &A) {
        std::vector<std::map<ptrdiff_t, cplx>> rows(A.n * B);
        for (ptrdiff_t i = 0; i < A.n; ++i) for (ptrdiff_t j = A.ptr[i]; j < A.ptr[i + 1]; ++j)
            for (int a = 0; a < B; ++a) for (int b = 0; b < B; ++b) rows[i * B + a][A.col[j] * B + b] += Tr::at(A.val[j], a, b);
        return from_triplets<cplx>(A.n * B, A.n * B, rows);
    }
    static std::vector<cplx> expand(const std::vector<R> &x) { std::vector<cplx> y(x.size() * B); for (size_t i = 0; i < x.size(); ++i) for (int a = 0; a < B; ++a) y[i * B + a] = Tr::get(x[i], a); return y; }
    static std::vector<R> pack(const CVec &y) { std::vector<R> x(y.size() / B); for (size_t i = 0; i < x.size(); ++i) for (int a = 0; a < B; ++a) Tr::set(x[i], a, y[i * B + a]); return x; }
    static CMat dense(const Csr<cplx> &A) { CMat E = CMat::Zero(A.n, A.m); for (ptrdiff_t i = 0; i < A.n; ++i) for (ptrdiff_t j = A.ptr[i]; j < A.ptr[i + 1]; ++j) E(i, A.col[j]) += A.val[j]; return E; }
    static double norm1(const CMat &M) { return M.cwiseAbs().colwise().sum().maxCoeff(); }
    static bool finite(const CMat &M) { for (ptrdiff_t i = 0; i < M.size(); ++i) if (!std::isfinite(M.data()[i].real()) || !std::isfinite(M.data()[i].imag())) return false; return true; }
    template <class P> static CMat extract(const P &prec, ptrdiff_t n) {
        CMat Bm(n * B, n * B); std::vector<R> e(n), x(n);
        for (ptrdiff_t i = 0; i < n; ++i) for (int a = 0; a < B; ++a) Tr::set(e[i], a, cplx(0));
        for (ptrdiff_t j = 0; j < n * B; ++j) {
            Tr::set(e[j / B], j % B, cplx(1));
            for (ptrdiff_t i = 0; i < n; ++i) for (int a = 0; a < B; ++a) Tr::set(x[i], a, cplx(7.5, 0));
            prec.apply(e, x);
            Tr::set(e[j / B], j % B, cplx(0));
            for (ptrdiff_t i = 0; i < n * B; ++i) Bm(i, j) = Tr::get(x[i / B], static_cast<int>(i % B));
        }
        return Bm;
    }
    static double vnorm(const std::vector<cplx> &x) { long double s = 0; for (auto &v : x) s += std::norm(std::complex<long double>(v.real(), v.imag())); return static_cast<double>(std::sqrt(s)); }

    static void prop(Tape &t, Ctx &c) {
        GenMat gm = gen_mmat_case(t, {0, 0, 1, 1, 2}, {1, 8, 30}, {10, 40, 100}, 30.0, true);
        std::string kind;
        Tape subm = expand_tape(t, 64 + 8 * static_cast<size_t>(gm.A.nnz()));
        Csr<V> A = Tr::make_matrix(subm, gm.A, kind); t.mix(subm.h);
        const ptrdiff_t n = A.n, N = n * B;
        Csr<cplx> As = expand(A);
        CMat D = dense(As);
        Eigen::PartialPivLU<CMat> lu(D);
        CMat Di = lu.inverse();
        double kappa1 = norm1(D) * norm1(Di);
        // well conditioned by construction: the value families keep (block) diagonal dominance; the bound is a safety net
        {
            double dmax = 0; for (ptrdiff_t i = 0; i < N; ++i) dmax = std::max(dmax, std::abs(D(i, i)));
            double delta = 3.0 * dmax / 1e4;
            for (int it = 0; it < 12 && !(kappa1 <= 1e4); ++it) {
                Tr::shift_diagonal(A, delta); delta *= 4;
                As = expand(A); D = dense(As); lu.compute(D); Di = lu.inverse(); kappa1 = norm1(D) * norm1(Di);
            }
        }
        VF_REQUIRE(kappa1 <= 1e4 && finite(Di), "generator defect: kappa_1 = " << kappa1);

        // rhs, initial guess
        int fkind = static_cast<int>(t.u(0, 1)), xkind = static_cast<int>(t.u(0, 2));
        CVec fv(N); { std::vector<double> re = seeded_vec(t, N), im = seeded_vec(t, N); for (ptrdiff_t i = 0; i < N; ++i) fv[i] = fkind == 0 ? cplx(1, 0) : cplx(re[i], Tr::is_complex ? im[i] : 0.0); }
        CVec xt = lu.solve(fv);
        CVec x0v = CVec::Zero(N);
        if (xkind == 2) { std::vector<double> p = seeded_vec(t, N); double pm = 0; for (double v : p) pm = std::max(pm, std::abs(v)); for (ptrdiff_t i = 0; i < N; ++i) x0v[i] = xt[i] + xt.cwiseAbs().maxCoeff() * p[i] / (pm > 0 ? pm : 1); }
        std::vector<R> f = pack(fv), x0 = pack(x0v);
        std::vector<cplx> fs = expand(f);
        double r0 = static_cast<double>(true_relres(As, fs, expand(x0))), G = std::max(1.0, r0);

        // configuration (reduced set)
        bool amg_class = !t.chance(1, 4);
        AmgCfg cfg; cfg.coars = Tr::coars(static_cast<int>(t.u(0, 2))); cfg.relax = Tr::relax(static_cast<int>(t.u(0, Tr::nrelax - 1)));
        int ce_mode = static_cast<int>(t.u(0, 3));
        cfg.coarse_enough = ce_mode == 0 ? static_cast<unsigned>(n) : static_cast<unsigned>(t.u(1, 8));
        cfg.npre = static_cast<unsigned>(t.u(1, 2)); cfg.npost = static_cast<unsigned>(t.u(1, 2)); cfg.ncycle = static_cast<unsigned>(t.u(1, 2)); cfg.pre_cycles = 1;
        cfg.max_levels = cfg.ncycle >= 2 ? 10 : 40;
        SolverCfg sc; sc.type = static_cast<int>(t.u(0, 7)); sc.left = t.b();
        gen_solver_params(t, sc, N);
        int mi_mode = static_cast<int>(t.u(0, 2));
        sc.maxiter = mi_mode == 0 ? static_cast<unsigned>(t.u(1, 20)) : mi_mode == 1 ? static_cast<unsigned>(t.u(0, 200)) : 100u;
        if (sc.maxiter == 0) sc.check_after = false;
        double tol_drawn = t.logu(1e-12, 1e-2);
        // ---- call form (read last): (i) solve(rhs, x), or (ii) solve(A2, rhs, x) with A2 = A with every diagonal entry / block
        // multiplied by 1 + delta_i, delta_i in [0,1): same family (dominance only grows), preconditioner still built for A.
        // From here on As, D, kappa1 describe the system that is solved.
        int call_mode = static_cast<int>(t.u(0, 3)); uint64_t pseed = static_cast<uint64_t>(t.u(0, 0xffffffffLL));
        const bool other = call_mode >= 2;
        Csr<V> A2 = A;
        if (other) {
            for (ptrdiff_t i = 0; i < n; ++i) for (ptrdiff_t j = A2.ptr[i]; j < A2.ptr[i + 1]; ++j) if (A2.col[j] == i) {
                uint64_t h = (static_cast<uint64_t>(i) + pseed) * 0x9E3779B97F4A7C15ULL; h ^= h >> 29; h *= 0xBF58476D1CE4E5B9ULL; h ^= h >> 32;
                A2.val[j] = (1.0 + static_cast<double>(h & 0xffffff) / 16777216.0) * A2.val[j];
            }
            As = expand(A2); D = dense(As); lu.compute(D); Di = lu.inverse(); kappa1 = norm1(D) * norm1(Di);
            r0 = static_cast<double>(true_relres(As, fs, expand(x0))); G = std::max(1.0, r0);
        }
        c.label(other ? "call:solve(A2,rhs,x)" : "call:solve(rhs,x)");
        if (other) c.label(xkind == 2 ? "A2:x0!=0" : "A2:x0==0");

        c.desc << "truthful<" << Tr::name() << "> " << gm.g.family << " n=" << n << " kind=" << kind << " kappa1=" << kappa1 << " f=" << fkind << " x0=" << xkind
               << " | " << (amg_class ? std::string("amg ") + coars_name[cfg.coars] + "+" + relax_name[cfg.relax] + " npre=" + std::to_string(cfg.npre) + " npost=" + std::to_string(cfg.npost) + " ncycle=" + std::to_string(cfg.ncycle) + " coarse_enough=" + std::to_string(cfg.coarse_enough) : std::string("relaxation ") + relax_name[cfg.relax]);
        c.label(std::string("solver:") + solver_name[sc.type]); if (sc.has_pside()) c.label(sc.left ? "pside:left" : "pside:right");
        c.label(amg_class ? std::string("coars:") + coars_name[cfg.coars] : std::string("class:relaxation")); c.label(std::string("relax:") + relax_name[cfg.relax]);
        c.label("kind:" + kind);

        auto put_precond = [&](ptree &p, const std::string &pfx) {
            std::string d = pfx.empty() ? "" : pfx + ".";
            if (amg_class) {
                p.put(d + "coarsening.type", coars_name[cfg.coars]); p.put(d + "relax.type", relax_name[cfg.relax]);
                p.put(d + "coarse_enough", cfg.coarse_enough); p.put(d + "npre", cfg.npre); p.put(d + "npost", cfg.npost); p.put(d + "ncycle", cfg.ncycle); p.put(d + "max_levels", cfg.max_levels);
            } else p.put(d + "type", relax_name[cfg.relax]);
        };
        auto Acrs = to_crs<V>(A);
        double K = kappa1, nB1 = 1, eta = 0; size_t levels = 1; bool precond_finite = true;
        CMat Mop; // operator of the recursions: A B (right) or B A (left)
        // relative accuracy of one preconditioner application (linearity defect, see c01_truth.cpp)
        auto probe = [&](const auto &P0, const CMat &Bm) {
            std::vector<R> v3(n), y(n), y3(n);
            for (ptrdiff_t i = 0; i < n; ++i) for (int a = 0; a < B; ++a) { Tr::set(v3[i], a, 3.0 * Tr::get(f[i], a)); Tr::set(y[i], a, cplx(0)); Tr::set(y3[i], a, cplx(0)); }
            P0.apply(f, y); P0.apply(v3, y3);
            CVec bv = Bm * fv; double d1 = 0, d2 = 0, m = 0;
            for (ptrdiff_t i = 0; i < N; ++i) { cplx yi = Tr::get(y[i / B], static_cast<int>(i % B)), y3i = Tr::get(y3[i / B], static_cast<int>(i % B)); d1 = std::max(d1, std::abs(y3i - 3.0 * yi)); d2 = std::max(d2, std::abs(bv[i] - yi)); m = std::max(m, std::abs(yi)); }
            if (m > 0 && std::isfinite(m)) eta = std::max(d1 / (3 * m), d2 / m);
        };
        try {
            ptree pp; put_precond(pp, "");
            CMat Bm;
            if (amg_class) { Amg P0(*Acrs, pp); levels = amgcl_verif::access::nlevels(P0); Bm = extract(P0, n); if (finite(Bm)) probe(P0, Bm); }
            else { amgcl::relaxation::as_preconditioner<BE, amgcl::runtime::relaxation::wrapper> P0(*Acrs, pp); Bm = extract(P0, n); if (finite(Bm)) probe(P0, Bm); }
            if (!finite(Bm)) precond_finite = false;
            if (finite(Bm)) {
                Mop = sc.is_left() ? CMat(Bm * D) : CMat(D * Bm);
                CMat AB = D * Bm; Eigen::PartialPivLU<CMat> lab(AB); CMat ABi = lab.inverse();
                nB1 = norm1(Bm);
                K = std::max(K, norm1(D) * nB1 * std::max(1.0, finite(ABi) ? norm1(ABi) : std::numeric_limits<double>::infinity()));
            } else K = std::numeric_limits<double>::infinity();
        } catch (const std::runtime_error &e) { c.label(std::string("setup-threw:") + e.what()); return; }
        if (!precond_finite) { c.label("precond-nonfinite"); return; } // not an operator: nothing can be claimed (see c01_truth.cpp)
        double ueff = eta > 1e3 * U ? eta : U;
        if (ueff > U) c.label("precond-unstable");
        c.label("levels=" + std::to_string(std::min<size_t>(levels, 5)));
        c.label(bucket(K / kappa1, {2, 10, 100, 1e4}, "K/kappa1"));
        bool left = sc.is_left();
        double unit = left ? std::max(1.0, nB1) : 1.0;
        sc.tol = std::min(0.5, std::max(tol_drawn, 4000.0 * ueff * K * (sc.maxiter + 2.0) * G * unit));
        c.desc << " | K=" << K << " | " << sc.str();

        ptree prm; sc.put(prm, "solver"); put_precond(prm, "precond");
        std::vector<R> x = x0; size_t iters = 0; double reported = 0;
        std::unique_ptr<AmgSolver> sa; std::unique_ptr<RelSolver> sr;
        try {
            if (amg_class) sa.reset(new AmgSolver(*Acrs, prm)); else sr.reset(new RelSolver(*Acrs, prm));
            if (other) { auto A2crs = to_crs<V>(A2); std::tie(iters, reported) = amg_class ? (*sa)(*A2crs, f, x) : (*sr)(*A2crs, f, x); }
            else std::tie(iters, reported) = amg_class ? (*sa)(f, x) : (*sr)(f, x);
        } catch (const std::runtime_error &e) { c.label(std::string("solve-threw:") + e.what()); return; }

        VF_REQUIRE(iters <= sc.iter_bound(), "iterations " << iters << " exceed maxiter=" << sc.maxiter << (sc.type == BICGSTABL ? " + L - 1" : ""));
        c.nontrivial = iters >= 2 && (levels >= 2 || !amg_class);
        c.label(bucket(static_cast<double>(iters), {1, 2, 10, 50}, "iters"));

        std::vector<cplx> xs = expand(x);
        double truth = static_cast<double>(true_relres(As, fs, xs));
        if (left && std::isfinite(truth)) {
            CVec rv(N); { Eigen::Map<const CVec> xv(xs.data(), N); rv = fv - D * xv; } // double; the long double value is used for the right-preconditioned comparison only
            std::vector<R> r = pack(rv), z(n);
            for (ptrdiff_t i = 0; i < n; ++i) for (int a = 0; a < B; ++a) Tr::set(z[i], a, cplx(0));
            if (amg_class) sa->precond().apply(r, z); else sr->precond().apply(r, z);
            truth = vnorm(expand(z)) / vnorm(fs);
        }
        if (!std::isfinite(reported) || !std::isfinite(truth)) {
            c.label("nonfinite");
            if (!std::isfinite(reported) && truth * vnorm(fs) >= 1e100) return;
            VF_REQUIRE(!std::isfinite(reported) && !std::isfinite(truth), "reported residual " << reported << " but the residual of the returned x is " << truth);
            return;
        }
        double diff = std::abs(reported - truth), big = std::max(reported, truth);
        // the gap of a carried residual scales with the largest residual of the history; the final one is part of it (divergence)
        double Gh = std::max(G, big / unit);
        double allow = 200.0 * ueff * K * (iters + 2.0) * Gh * unit * (left ? 4.0 : 1.0) + 64.0 * U; // left: the reference residual is formed in double
        c.label(reported < sc.tol ? "converged" : "not-converged");
        if (env_flag("VF_C01_TRACE")) std::cerr << "TRACE diff/allow=" << (diff - 0.01 * big) / allow << " K=" << K << " iters=" << iters << " " << sc.str() << "\n";
        // Known finding F-recursion-gap (see c01_truth.cpp): BiCGStab(L) / IDR(s) runs that perform at least as many products as the
        // numerical grade of (M, r0), M = A B resp. B A.  Class of inputs; nothing but the iteration budget is asserted inside.
        if (sc.type == IDRS || sc.type == BICGSTABL) {
            size_t matvecs = sc.type == BICGSTABL ? 2 * iters : iters + iters / std::max(1u, sc.s) + 1;
            CVec r0v = fv - D * x0v;
            if (left) { std::vector<R> rr = pack(r0v), z(n); for (ptrdiff_t i = 0; i < n; ++i) for (int a = 0; a < B; ++a) Tr::set(z[i], a, cplx(0)); if (amg_class) sa->precond().apply(rr, z); else sr->precond().apply(rr, z); std::vector<cplx> ze = expand(z); for (ptrdiff_t i = 0; i < N; ++i) r0v[i] = ze[i]; }
            size_t grade = numerical_grade(Mop, r0v, matvecs, 1e-6);
            c.label(matvecs >= grade ? "krylov:exhausted" : "krylov:not-exhausted");
            if (matvecs >= grade) { c.desc << " | F-recursion-gap: " << matvecs << " products, numerical grade " << grade; if (c.known("F-recursion-gap")) return; }
        }
        if (diff > 0.01 * big + allow && iters >= 2) {
            // largest residual of the history from truncated re-runs (see c01_truth.cpp), evaluated only when the plain bound fails
            double peak = Gh;
            for (size_t k = 1; k < iters; ++k) {
                SolverCfg sk = sc; sk.maxiter = static_cast<unsigned>(k); sk.smoothing = false;
                ptree pk; sk.put(pk, "solver"); put_precond(pk, "precond");
                std::vector<R> y = x0; size_t ik; double rk;
                try {
                    std::shared_ptr<amgcl::backend::crs<V>> A2k; if (other) A2k = to_crs<V>(A2);
                    if (amg_class) { AmgSolver s2(*Acrs, pk); std::tie(ik, rk) = other ? s2(*A2k, f, y) : s2(f, y); }
                    else { RelSolver s2(*Acrs, pk); std::tie(ik, rk) = other ? s2(*A2k, f, y) : s2(f, y); }
                } catch (const std::runtime_error &) { continue; }
                if (std::isfinite(rk)) peak = std::max(peak, rk / unit);
            }
            c.label(bucket(peak / Gh, {2, 100, 1e4}, "peak/G"));
            allow = 200.0 * ueff * K * (iters + 2.0) * peak * unit * (left ? 4.0 : 1.0) + 64.0 * U;
        }
        bool strict_a = diff <= 0.01 * big + allow;
        VF_REQUIRE(strict_a, "reported residual " << std::setprecision(10) << reported << " but true " << (left ? "preconditioned " : "") << "relative residual is " << truth
                   << " (difference " << diff << ", allowance " << 0.01 * big + allow << ", iters " << iters << ")");
        if (reported < sc.tol) {
            if (allow <= 0.06 * sc.tol) VF_REQUIRE(truth < 1.1 * sc.tol, "reported " << reported << " < tol " << sc.tol << " but true residual " << truth);
            else c.label("b-undecidable:ill-conditioned-call");
        }
    }
};

} // namespace c01vt
