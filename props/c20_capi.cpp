// C20 — the C interface (lib/amgcl.cpp, compiled into this executable) gives the C++ results.
//
// Oracle: the C++ run-time interface with exactly the types lib/amgcl.cpp instantiates
// (amg<builtin<double>, runtime coarsening, runtime relaxation> and make_solver<AMG, runtime solver>),
// constructed from a property tree the harness builds itself from the *text* each setter call is documented to store
// (ints "%d", floats "%.9g" i.e. a float, strings verbatim, JSON literals verbatim). Results are compared bitwise.
// The Fortran-style entry points get 1-based copies of ptr/col and must reproduce the 0-based results.
// All user arrays live in exact-size heap blocks (ASan twin: any read outside them is reported) and are compared
// with pristine copies afterwards.
#define C14_KEEP_DEFAULT_UNKNOWN_HOOK
#define C14_NO_RUNTIME_PRECOND
#define C14_NO_COMPOSITES
#include "c14_equiv.hpp"   // parameter table + generated systems (shared with C14)
#include <sys/stat.h>
#include <unistd.h>
#include <fstream>
#include "amgcl.h"

using namespace vf;
using namespace c14;

typedef RtAMG AMG;            // amgcl::amg<builtin<double>, runtime::coarsening::wrapper, runtime::relaxation::wrapper>
typedef RtSolverAMG Solver;   // amgcl::make_solver<AMG, runtime::solver::wrapper<builtin<double>>>

// ------------------------------------------------------------------------------------------------ parameter sets
struct Op { std::string key; char kind; int i; float f; std::string s; std::string text; }; // kind: i f s (setter) or j (JSON member, text is the JSON token)

static bool is_int(const std::string &s, long &v) { if (s.empty()) return false; char *e = nullptr; v = strtol(s.c_str(), &e, 10); return e && *e == 0 && v >= -100000 && v <= 100000; }
static bool is_real(const std::string &s, double &v) { if (s.empty()) return false; char *e = nullptr; v = strtod(s.c_str(), &e); return e && *e == 0; }

static void flatten(const ptree &p, const std::string &prefix, std::vector<std::pair<std::string, std::string>> &out) {
    for (auto &kv : p) {
        std::string path = prefix.empty() ? kv.first : prefix + "." + kv.first;
        if (kv.second.empty()) out.emplace_back(path, kv.second.data()); else flatten(kv.second, path, out);
    }
}

static std::string json_quote(const std::string &s) { std::string o = "\""; for (char ch : s) { if (ch == '"' || ch == '\\') o += '\\'; o += ch; } return o + "\""; }

// own JSON writer: numbers and booleans as JSON literals, everything else as strings
static void write_json_tree(std::ostream &os, const ptree &p, int indent) {
    os << "{\n";
    size_t k = 0;
    for (auto &kv : p) {
        os << std::string(indent + 2, ' ') << json_quote(kv.first) << ": ";
        if (!kv.second.empty()) write_json_tree(os, kv.second, indent + 2);
        else os << kv.second.data();
        os << (++k < p.size() ? ",\n" : "\n");
    }
    os << std::string(indent, ' ') << "}";
}

static std::string tmp_dir() {
    std::string f = __FILE__; // <verif>/props/c20_capi.cpp (absolute when built by bin/check)
    size_t p = f.rfind("/props/");
    std::string root = (p != std::string::npos && f[0] == '/') ? f.substr(0, p) : "/verif";
    std::string d = root + "/build"; mkdir(d.c_str(), 0755);
    d += "/tmp"; mkdir(d.c_str(), 0755);
    return d;
}

struct ParamSet {
    std::vector<Op> ops;          // in application order (JSON members first: the file is read before the setters are called)
    ptree json;                   // members that go through the JSON file (values are JSON tokens)
    bool use_json = false;
    ptree mirror;                 // what the handle must contain, built from documented text only
    int nondefault = 0;
    std::string log;
};

// turn a generated tree (path -> text) into C-API operations and the mirror tree
static ParamSet make_param_set(Tape &t, const ptree &generated) {
    ParamSet ps;
    std::vector<std::pair<std::string, std::string>> leaves;
    flatten(generated, "", leaves);
    int route = static_cast<int>(t.u(0, 2)); // 0 setters only, 1 JSON file only, 2 JSON file then setters (later calls override)
    std::ostringstream log;
    for (auto &lf : leaves) {
        bool via_json = route == 1 || (route == 2 && t.b());
        long iv; double dv;
        Op op; op.key = lf.first;
        std::string stored; // text the tree is documented to hold afterwards
        if (lf.second == "true" || lf.second == "false") {
            if (via_json) { op.kind = 'j'; op.text = lf.second; stored = lf.second; }
            else if (t.b()) { op.kind = 's'; op.s = lf.second; stored = lf.second; }
            else { op.kind = 'i'; op.i = lf.second == "true"; stored = std::to_string(op.i); }
        } else if (is_int(lf.second, iv)) {
            if (via_json) { op.kind = 'j'; op.text = std::to_string(iv); stored = op.text; }
            else if (t.chance(1, 4)) { op.kind = 's'; op.s = std::to_string(iv); stored = op.s; }
            else { op.kind = 'i'; op.i = static_cast<int>(iv); stored = std::to_string(op.i); }
        } else if (is_real(lf.second, dv)) {
            if (via_json) { op.kind = 'j'; op.text = fmt(dv); stored = op.text; }
            else if (t.chance(1, 4)) { op.kind = 's'; op.s = fmt(dv); stored = op.s; }
            else { op.kind = 'f'; op.f = static_cast<float>(dv); stored = fmt(op.f); } // a float: 9 significant digits survive
        } else {
            if (via_json) { op.kind = 'j'; op.text = json_quote(lf.second); stored = lf.second; }
            else { op.kind = 's'; op.s = lf.second; stored = lf.second; }
        }
        if (op.kind == 'j') { ps.json.put(op.key, op.text); ps.use_json = true; }
        ps.ops.push_back(op);
        ps.mirror.put(op.key, stored);
        log << " " << op.key << (op.kind == 'j' ? "@json=" : op.kind == 'i' ? "@seti=" : op.kind == 'f' ? "@setf=" : "@sets=") << stored;
        ++ps.nondefault;
    }
    if (route == 2 && ps.use_json && !ps.ops.empty() && t.b()) { // a setter overrides a value that came from the file
        // override an integer member if there is one
        for (auto &op : ps.ops) {
            long iv;
            if (op.kind == 'j' && is_int(op.text, iv) && iv > 1) {
                Op o2; o2.key = op.key; o2.kind = 'i'; o2.i = static_cast<int>(iv) - 1;
                ps.ops.push_back(o2); ps.mirror.put(o2.key, std::to_string(o2.i));
                log << " " << o2.key << "@seti(override)=" << o2.i;
                break;
            }
        }
    }
    ps.log = log.str();
    return ps;
}

static int json_counter = 0;

// applies the operations whose key starts with `strip` (prefix removed) to a fresh handle; `strip` = "" for the solver, "precond." for the preconditioner
static amgclHandle build_handle(const ParamSet &ps, const std::string &strip, ptree &mirror_out) {
    amgclHandle h = amgcl_params_create();
    mirror_out = strip.empty() ? ps.mirror : ps.mirror.get_child(strip.substr(0, strip.size() - 1), ptree());
    if (ps.use_json) {
        ptree j = strip.empty() ? ps.json : ps.json.get_child(strip.substr(0, strip.size() - 1), ptree());
        if (!j.empty()) {
            static const std::string dir = tmp_dir();
            std::string fn = dir + "/c20_" + std::to_string(getpid()) + "_" + std::to_string(++json_counter) + ".json";
            { std::ofstream f(fn.c_str()); write_json_tree(f, j, 0); f << "\n"; }
            amgcl_params_read_json(h, fn.c_str());
            unlink(fn.c_str());
        }
    }
    for (auto &op : ps.ops) {
        if (op.kind == 'j') continue;
        if (op.key.compare(0, strip.size(), strip) != 0) continue;
        std::string key = op.key.substr(strip.size());
        if (op.kind == 'i') amgcl_params_seti(h, key.c_str(), op.i);
        else if (op.kind == 'f') amgcl_params_setf(h, key.c_str(), op.f);
        else amgcl_params_sets(h, key.c_str(), op.s.c_str());
    }
    return h;
}

// ------------------------------------------------------------------------------------------------ user arrays
template <class T> struct Block { // exact-size heap block + pristine copy
    T *p; std::vector<T> orig;
    explicit Block(const std::vector<T> &v) : p(new T[v.size()]), orig(v) { std::copy(v.begin(), v.end(), p); }
    ~Block() { delete[] p; }
    Block(const Block &) = delete; Block &operator=(const Block &) = delete;
    bool unchanged() const { return orig.empty() || std::memcmp(p, orig.data(), orig.size() * sizeof(T)) == 0; }
};

struct CMatrix {
    int n; Block<int> ptr, col; Block<double> val;
    CMatrix(int n, const std::vector<int> &p, const std::vector<int> &c, const std::vector<double> &v) : n(n), ptr(p), col(c), val(v) {}
    bool unchanged() const { return ptr.unchanged() && col.unchanged() && val.unchanged(); }
};

static std::vector<int> plus1(const std::vector<int> &v) { std::vector<int> r(v); for (auto &x : r) x += 1; return r; }

struct Outcome1 { bool threw = false; std::string what; int iters = 0; double resid = 0; std::vector<double> x; };

static void require_same(const Outcome1 &got, const Outcome1 &ref, const std::string &what) {
    VF_REQUIRE(got.threw == ref.threw, what << ": " << (got.threw ? "threw '" + got.what + "'" : std::string("returned")) << " but the reference " << (ref.threw ? "threw '" + ref.what + "'" : std::string("returned")));
    if (got.threw) return;
    VF_REQUIRE(got.iters == ref.iters, what << ": iterations " << got.iters << " vs " << ref.iters);
    VF_REQUIRE(same_bits(got.resid, ref.resid), what << ": residual " << fmt(got.resid) << " vs " << fmt(ref.resid));
    VF_REQUIRE(got.x.size() == ref.x.size(), what << ": size");
    for (size_t i = 0; i < ref.x.size(); ++i) VF_REQUIRE(same_bits(got.x[i], ref.x[i]), what << ": x[" << i << "] = " << fmt(got.x[i]) << " vs " << fmt(ref.x[i]));
}

template <class F> static Outcome1 guarded(F f) { Outcome1 o; try { f(o); } catch (const std::exception &e) { o.threw = true; o.what = e.what(); } return o; }

// ------------------------------------------------------------------------------------------------ the property
static void prop_capi(Tape &t, Ctx &c) {
    // system: int indices, n <= 300, rows optionally unsorted; replacement matrix on the same graph with other coefficients
    Tape st = derived_tape(t); // the system is decoded from a derived tape (see c14_equiv.hpp): short case tapes, fast shrinking
    vf::Graph g = gen_graph_min(st, 300, 20);
    vf::Csr<double> A = vf::gen_mmat(st, g, 10.0, false), A2 = vf::gen_mmat(st, g, 10.0, false);
    bool unsorted = st.b() && vf::shuffle_rows(st, A);
    if (st.b()) vf::shuffle_rows(st, A2);
    const int n = static_cast<int>(A.n);
    std::vector<double> rhs = vf::gen_vec(st, n, static_cast<int>(st.u(0, 2)));
    { bool nz = false; for (double v : rhs) nz = nz || v != 0; if (!nz) rhs[0] = 1.0; }
    std::vector<double> x0 = st.b() ? vf::gen_vec(st, n, 2) : std::vector<double>(n, 0.0);

    // parameters: values for the run-time composite behind the C interface, all expressible as text
    bool null_handle = t.chance(1, 12); // NULL parameter handle: library defaults
    Arena arena; ptree gen;
    GenCtx gc(t, gen, arena);
    gc.sane = true; gc.rows = static_cast<size_t>(n); gc.no_pointers = true;
    gc.set_num = static_cast<int>(t.u(1, 3)); gc.set_den = 3;
    Solver::params model;
    if (!null_handle) {
        GenV<Solver::params> gv{model, gc, "", false};
        Desc<Solver::params>::visit(gv);
        gen.put("precond.coarse_enough", static_cast<unsigned>(t.u(2, 25)));
        if (gen.get("precond.ncycle", 1u) > 1 && gen.get("precond.max_levels", 1000u) > 6) gen.put("precond.max_levels", static_cast<unsigned>(t.u(2, 6)));
    }
    ParamSet ps = make_param_set(t, gen);
    c.desc << "C API " << g.family << " n=" << n << " nnz=" << A.nnz() << (unsorted ? " unsorted-rows" : "") << (null_handle ? " prm=NULL" : "") << " params:" << ps.log << " threads=" << c.threads;

    std::vector<int> ptr(A.ptr.begin(), A.ptr.end()), col(A.col.begin(), A.col.end()), ptr2(A2.ptr.begin(), A2.ptr.end()), col2(A2.col.begin(), A2.col.end());

    // ---- reference: the C++ run-time interface on harness-owned vectors, with the mirror tree
    ptree mirror_s = ps.mirror, mirror_p = ps.mirror.get_child("precond", ptree());
    size_t levels = 0;
    Outcome1 ref_apply = guarded([&](Outcome1 &o) {
        size_t nn = static_cast<size_t>(n);
        std::unique_ptr<AMG> P(null_handle ? new AMG(std::tie(nn, ptr, col, A.val)) : new AMG(std::tie(nn, ptr, col, A.val), mirror_p));
        levels = amgcl_verif::access::levels(*P);
        o.x.assign(n, 7.0);
        P->apply(rhs, o.x);
    });
    // the same call sequence as on the C handle below (a solver object may carry state from call to call, e.g. LGMRES with always_reset=false):
    // solve, solve, solve with the replacement matrix, solve
    std::unique_ptr<Solver> S;
    auto cpp_solve = [&](bool replacement) {
        return guarded([&](Outcome1 &o) {
            if (!S) throw std::runtime_error("construction failed");
            size_t nn = static_cast<size_t>(n);
            o.x = x0; size_t it;
            if (replacement) std::tie(it, o.resid) = (*S)(std::tie(nn, ptr2, col2, A2.val), rhs, o.x);
            else std::tie(it, o.resid) = (*S)(rhs, o.x);
            o.iters = static_cast<int>(it);
        });
    };
    Outcome1 ref_solve = guarded([&](Outcome1 &o) {
        size_t nn = static_cast<size_t>(n);
        S.reset(null_handle ? new Solver(std::tie(nn, ptr, col, A.val)) : new Solver(std::tie(nn, ptr, col, A.val), mirror_s));
        o = cpp_solve(false);
        if (o.threw) throw std::runtime_error(o.what);
    });
    Outcome1 ref_solve2 = cpp_solve(false), ref_mtx = cpp_solve(true), ref_solve3 = cpp_solve(false);
    S.reset();

    c.nontrivial = !null_handle && ps.nondefault >= 2 && levels >= 2 && !ref_solve.threw;
    c.label(null_handle ? "prm:NULL" : ps.use_json ? (ps.ops.size() > 0 && std::any_of(ps.ops.begin(), ps.ops.end(), [](const Op &o) { return o.kind != 'j'; }) ? "prm:json+setters" : "prm:json") : "prm:setters");
    c.label("levels:" + std::to_string(std::min<size_t>(levels, 5)));
    c.label(ref_solve.threw ? "outcome:exception" : ref_solve.iters <= 1 ? "iters:0-1" : ref_solve.iters < 10 ? "iters:2-9" : "iters:10+");
    c.label(unsorted ? "rows:unsorted" : "rows:sorted");
    c.label(n < 60 ? "n:20-59" : n < 150 ? "n:60-149" : "n:150-300");
    for (auto &op : ps.ops) if (op.kind == 'f') { c.label("has-setf"); break; }
    for (double v : ref_apply.x) if (v != v) { c.label("result:nan"); break; }

    // ---- the C interface on exact-size heap blocks
    CMatrix M(n, ptr, col, A.val), M2(n, ptr2, col2, A2.val), Mf(n, plus1(ptr), plus1(col), A.val), M2f(n, plus1(ptr2), plus1(col2), A2.val);
    Block<double> brhs(rhs);
    auto solve_x = [&]() { return std::unique_ptr<double[]>(new double[n]); };

    // preconditioner: create / apply / destroy, both index bases
    for (int base = 0; base < 2; ++base) {
        Outcome1 got = guarded([&](Outcome1 &o) {
            ptree dummy; amgclHandle prm = null_handle ? nullptr : build_handle(ps, "precond.", dummy);
            amgclHandle h = nullptr;
            try { h = base == 0 ? amgcl_precond_create(n, M.ptr.p, M.col.p, M.val.p, prm) : amgcl_precond_create_f(n, Mf.ptr.p, Mf.col.p, Mf.val.p, prm); }
            catch (...) { if (prm) amgcl_params_destroy(prm); throw; }
            if (prm) amgcl_params_destroy(prm); // the handle may be destroyed right after construction
            auto x = solve_x(); for (int i = 0; i < n; ++i) x[i] = 7.0;
            amgcl_precond_apply(h, brhs.p, x.get());
            o.x.assign(x.get(), x.get() + n);
            amgcl_precond_destroy(h);
        });
        require_same(got, ref_apply, base == 0 ? "amgcl_precond_create/apply vs C++ amg::apply" : "amgcl_precond_create_f/apply (1-based) vs C++ amg::apply");
    }
    // solver: create / solve / solve_mtx / destroy, both index bases and both calling conventions
    for (int base = 0; base < 2; ++base) {
        Outcome1 got_solve, got_solve_f, got_mtx;
        amgclHandle h = nullptr;
        got_solve = guarded([&](Outcome1 &o) {
            ptree dummy; amgclHandle prm = null_handle ? nullptr : build_handle(ps, "", dummy);
            try { h = base == 0 ? amgcl_solver_create(n, M.ptr.p, M.col.p, M.val.p, prm) : amgcl_solver_create_f(n, Mf.ptr.p, Mf.col.p, Mf.val.p, prm); }
            catch (...) { if (prm) amgcl_params_destroy(prm); throw; }
            if (prm) amgcl_params_destroy(prm);
            auto x = solve_x(); std::copy(x0.begin(), x0.end(), x.get());
            conv_info ci = amgcl_solver_solve(h, brhs.p, x.get());
            o.iters = ci.iterations; o.resid = ci.residual; o.x.assign(x.get(), x.get() + n);
        });
        require_same(got_solve, ref_solve, base == 0 ? "amgcl_solver_create/solve vs C++ make_solver" : "amgcl_solver_create_f/solve (1-based) vs C++ make_solver");
        if (h) {
            got_solve_f = guarded([&](Outcome1 &o) {
                auto x = solve_x(); std::copy(x0.begin(), x0.end(), x.get());
                conv_info ci; ci.iterations = -1; ci.residual = -1;
                amgcl_solver_solve_f(h, brhs.p, x.get(), &ci);
                o.iters = ci.iterations; o.resid = ci.residual; o.x.assign(x.get(), x.get() + n);
            });
            require_same(got_solve_f, ref_solve2, "amgcl_solver_solve_f (second solve on the handle) vs C++ make_solver");
            got_mtx = guarded([&](Outcome1 &o) {
                auto x = solve_x(); std::copy(x0.begin(), x0.end(), x.get());
                conv_info ci; ci.iterations = -1; ci.residual = -1;
                if (base == 0) ci = amgcl_solver_solve_mtx(h, M2.ptr.p, M2.col.p, M2.val.p, brhs.p, x.get());
                else amgcl_solver_solve_mtx_f(h, M2f.ptr.p, M2f.col.p, M2f.val.p, brhs.p, x.get(), &ci);
                o.iters = ci.iterations; o.resid = ci.residual; o.x.assign(x.get(), x.get() + n);
            });
            require_same(got_mtx, ref_mtx, base == 0 ? "amgcl_solver_solve_mtx (replacement matrix) vs C++ make_solver(A2, rhs, x)" : "amgcl_solver_solve_mtx_f (1-based replacement matrix) vs C++ make_solver(A2, rhs, x)");
            // after a replacement-matrix solve the construction matrix is still the system matrix
            Outcome1 again = guarded([&](Outcome1 &o) {
                auto x = solve_x(); std::copy(x0.begin(), x0.end(), x.get());
                conv_info ci = amgcl_solver_solve(h, brhs.p, x.get());
                o.iters = ci.iterations; o.resid = ci.residual; o.x.assign(x.get(), x.get() + n);
            });
            require_same(again, ref_solve3, "amgcl_solver_solve after solve_mtx vs the same call sequence in C++");
            amgcl_solver_destroy(h);
        }
    }
    VF_REQUIRE(M.unchanged() && M2.unchanged() && Mf.unchanged() && M2f.unchanged(), "the C interface modified a matrix array passed as const");
    VF_REQUIRE(brhs.unchanged(), "the C interface modified the right-hand side");
    find_case(c);
}

// parameter handles alone: every setter stores the documented text (observed through a solver that is built from it, see prop_capi),
// and create/destroy pairs do not leak (ASan twin, leak detection on)
static void prop_params_lifecycle(Tape &t, Ctx &c) {
    int k = static_cast<int>(t.u(0, 6));
    amgclHandle h = amgcl_params_create();
    for (int i = 0; i < k; ++i) {
        std::string key = std::string(t.b() ? "solver." : "precond.") + "k" + std::to_string(t.u(0, 3));
        switch (t.u(0, 2)) { case 0: amgcl_params_seti(h, key.c_str(), static_cast<int>(t.u(-5, 5))); break; case 1: amgcl_params_setf(h, key.c_str(), static_cast<float>(t.uni(-1, 1))); break; default: amgcl_params_sets(h, key.c_str(), "text"); }
    }
    amgcl_params_destroy(h);
    c.desc << "params create/" << k << " setters/destroy";
    c.nontrivial = false; // life-cycle only (leak check in the ASan twin); not counted as a non-trivial C20 case
    c.label("lifecycle");
}

static std::vector<Prop> props() {
    return {
        Prop("capi", prop_capi, 220, 3000, 100, 3, {1}, 4, 8),
        Prop("params_lifecycle", prop_params_lifecycle, 200, 1000, 100, 1, {1}, 1, 1),
    };
}
static std::vector<Enum> enums() { return {}; }
VF_MAIN(props(), enums())
