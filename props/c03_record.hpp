// C03 — observation of amgcl::amg without touching it:
//   * recording<C>::type<Backend>   coarsening policy that forwards to C<Backend> and logs deep copies of every
//                                   (A,P,R) returned by transfer_operators and every (A,P,R,A_c) seen by coarse_operator
//   * replaying::type<Backend>      coarsening policy that hands out a stored list of (P,R): "a fresh hierarchy
//                                   assembled from A' with those operators"
//   * amgcl_verif::access           the AMGCL_VERIF friend of amg<>: read access to the private level list
#pragma once
#include <memory>
#include <tuple>
#include <vector>
#include <amgcl/backend/builtin.hpp>
#include <amgcl/amg.hpp>
#include <amgcl/coarsening/detail/galerkin.hpp>
#include <amgcl/coarsening/detail/scaled_galerkin.hpp>
#include "../common/harness.hpp"
#include "../common/gen.hpp"
#include "../common/amgcl_util.hpp"

namespace c03 {
using vf::Csr;
typedef amgcl::backend::builtin<double> Backend;
typedef amgcl::backend::crs<double> Mat;

struct LevelView {
    size_t rows = 0, nonzeros = 0;
    std::shared_ptr<Mat> A, P, R, bP, bR;
    bool solve = false, relax = false;
};
} // namespace c03

namespace amgcl_verif {
struct access {
    template <class AMG>
    static std::vector<c03::LevelView> levels(const AMG &amg) {
        std::vector<c03::LevelView> v;
        for (const auto &l : amg.levels) {
            c03::LevelView w;
            w.rows = l.m_rows; w.nonzeros = l.m_nonzeros;
            w.A = l.A; w.P = l.P; w.R = l.R; w.bP = l.bP; w.bR = l.bR;
            w.solve = static_cast<bool>(l.solve); w.relax = static_cast<bool>(l.relax);
            v.push_back(w);
        }
        return v;
    }
};
} // namespace amgcl_verif

namespace c03 {

struct TransferRec { Csr<double> A, P, R; };          // as returned by transfer_operators (rows of P, R not yet sorted by amg)
struct CoarseRec { Csr<double> A, P, R, Ac; };        // arguments and result of coarse_operator (result not yet sorted by amg)
struct Log {
    std::vector<TransferRec> transfers;
    std::vector<CoarseRec> coarse;
    int empty_levels = 0;
    // A prolongation with zero columns (every aggregate smaller than nullspace.cols removed; defect fixed in /repo by ef9207a) makes amg
    // build a 0x0 coarse matrix and hand it to the direct solver, which dereferences a null pointer (process dies).  With the guard on,
    // the recording policy aborts the construction with ZeroCoarseLevel instead, so that a regression is reported as a clean failure.
    bool guard_zero_coarse = true;
    void clear() { transfers.clear(); coarse.clear(); empty_levels = 0; }
};
struct ZeroCoarseLevel { ptrdiff_t fine_rows; size_t level; };

template <template <class> class C>
struct recording {
    template <class B>
    struct type {
        typedef C<B> base_type;
        struct params : base_type::params {
            std::shared_ptr<Log> log;
            params() {}
            params(const typename base_type::params &p) : base_type::params(p) {}
        };
        base_type base;
        std::shared_ptr<Log> log;

        type(const params &p = params()) : base(static_cast<const typename base_type::params &>(p)), log(p.log) {}

        template <class Matrix>
        std::tuple<std::shared_ptr<Matrix>, std::shared_ptr<Matrix>> transfer_operators(const Matrix &A) {
            try {
                auto pr = base.transfer_operators(A);
                if (log && log->guard_zero_coarse && amgcl::backend::cols(*std::get<0>(pr)) == 0) throw ZeroCoarseLevel{static_cast<ptrdiff_t>(amgcl::backend::rows(A)), log->transfers.size()};
                if (log) { TransferRec r; r.A = vf::from_crs(A); r.P = vf::from_crs(*std::get<0>(pr)); r.R = vf::from_crs(*std::get<1>(pr)); log->transfers.push_back(std::move(r)); }
                return pr;
            } catch (const amgcl::error::empty_level &) {
                if (log) ++log->empty_levels;
                throw;
            }
        }

        template <class Matrix>
        std::shared_ptr<Matrix> coarse_operator(const Matrix &A, const Matrix &P, const Matrix &R) const {
            auto Ac = base.coarse_operator(A, P, R);
            if (log) { CoarseRec r; r.A = vf::from_crs(A); r.P = vf::from_crs(P); r.R = vf::from_crs(R); r.Ac = vf::from_crs(*Ac); log->coarse.push_back(std::move(r)); }
            return Ac;
        }
    };
};

struct StoredOps { std::vector<std::pair<Csr<double>, Csr<double>>> pr; };

struct replaying {
    template <class B>
    struct type {
        struct params {
            std::shared_ptr<const StoredOps> ops;
            bool scaled = false;   // plain aggregation: coarse operator re-scaled by `scale`
            float scale = 1.0f;
        };
        params prm;
        size_t next = 0;
        type(const params &p = params()) : prm(p) {}

        template <class Matrix>
        std::tuple<std::shared_ptr<Matrix>, std::shared_ptr<Matrix>> transfer_operators(const Matrix &A) {
            if (!prm.ops || next >= prm.ops->pr.size()) throw amgcl::error::empty_level();
            const auto &pr = prm.ops->pr[next++];
            if (static_cast<ptrdiff_t>(amgcl::backend::rows(A)) != pr.first.n) throw std::logic_error("replaying: stored prolongation does not fit the level matrix");
            std::shared_ptr<Matrix> P = vf::to_crs<double>(pr.first), R = vf::to_crs<double>(pr.second);
            return std::make_tuple(P, R);
        }

        template <class Matrix>
        std::shared_ptr<Matrix> coarse_operator(const Matrix &A, const Matrix &P, const Matrix &R) const {
            if (prm.scaled) return amgcl::coarsening::detail::scaled_galerkin(A, P, R, prm.scale);
            return amgcl::coarsening::detail::galerkin(A, P, R);
        }
    };
};

// bitwise equality of two CSR containers (structure and value bits)
inline bool same_bits(const Csr<double> &X, const Csr<double> &Y) {
    return X.n == Y.n && X.m == Y.m && X.ptr == Y.ptr && X.col == Y.col && X.val.size() == Y.val.size() &&
           (X.val.empty() || std::memcmp(X.val.data(), Y.val.data(), X.val.size() * sizeof(double)) == 0);
}
inline bool same_bits(const std::vector<double> &x, const std::vector<double> &y) {
    return x.size() == y.size() && (x.empty() || std::memcmp(x.data(), y.data(), x.size() * sizeof(double)) == 0);
}

} // namespace c03
