// C15 (part A) — call histories on make_solver<amg> and make_solver<as_preconditioner>.
// Model, clauses and the history decoder: props/c15_common.hpp; object kinds: props/c15_kinds.hpp.
#include "c15_kinds.hpp"

static std::vector<Prop> props() {
    return {
        Prop("hist_amg", run_history<KAmg>, 1500, 20000, 100, 12, {1}, 3, 8),
        Prop("hist_relax", run_history<KRelax>, 1500, 15000, 100, 12, {1}, 2, 8),
    };
}
static std::vector<Enum> enums() { return {}; }
VF_MAIN(props(), enums())
