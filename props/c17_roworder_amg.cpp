// C17 (row order, part 1) — amg (every coarsening x relaxation through the runtime interface),
// relaxation::as_preconditioner<R> for every relaxation, and make_solver: the object built from a matrix whose row
// entries are listed in an arbitrary order equals the one built from the sorted matrix.
// Oracle: apply() (resp. the whole solve) bitwise equal on 3 vectors, 1 thread; if one construction is rejected with an
// exception, the other must be rejected with the same one.
#include <boost/property_tree/ptree.hpp>
#include <amgcl/backend/builtin.hpp>
#include <amgcl/adapter/crs_tuple.hpp>
#include <amgcl/make_solver.hpp>
#include <amgcl/amg.hpp>
#include <amgcl/coarsening/runtime.hpp>
#include <amgcl/relaxation/runtime.hpp>
#include <amgcl/relaxation/as_preconditioner.hpp>
#include <amgcl/preconditioner/dummy.hpp>
#include <amgcl/solver/cg.hpp>
#include <amgcl/solver/bicgstab.hpp>
#include <map>
#include "c17_roworder.hpp"

using namespace vf;
using namespace c17;
namespace ab = amgcl::backend;
typedef ab::builtin<double> DB;
typedef amgcl::amg<DB, amgcl::runtime::coarsening::wrapper, amgcl::runtime::relaxation::wrapper> RtAmg;
typedef amgcl::relaxation::as_preconditioner<DB, amgcl::runtime::relaxation::wrapper> RtRelax;

static const char *COARSENING[] = {"ruge_stuben", "aggregation", "smoothed_aggregation", "smoothed_aggr_emin"};
static const char *RELAX[] = {"gauss_seidel", "ilu0", "iluk", "ilup", "ilut", "damped_jacobi", "spai0", "spai1", "chebyshev"};

static void common_labels(Ctx &c, const OrderCase &oc) {
    c.nontrivial = oc.nontrivial;
    c.label("fam:" + oc.family.substr(0, oc.family.find('+')));
    c.label(oc.nontrivial ? "row-out-of-order(>=3)" : (oc.changed ? "row-out-of-order(2)" : "rows-in-order"));
    c.label(size_bucket(oc.sorted.n));
}

static void prop_amg(Tape &t, Ctx &c) {
    int ci = static_cast<int>(t.u(0, 3)), ri = static_cast<int>(t.u(0, 8));
    OrderCase oc = gen_order_case(t, t.chance(1, 4) ? 10 : 120);
    int cec = static_cast<int>(t.u(0, 2));
    unsigned ce = cec == 0 ? 8 : cec == 1 ? 2 : 3000;
    bool direct = !t.chance(1, 4);
    int ncycle = t.chance(1, 4) ? 2 : 1;
    c.desc << "amg row order " << COARSENING[ci] << " x " << RELAX[ri] << " " << oc.family << " " << describe(oc.sorted) << " coarse_enough=" << ce << " direct_coarse=" << direct << " ncycle=" << ncycle
           << " changed=" << oc.changed << " A(shuffled)=" << dump_small(oc.shuffled, 8);
    common_labels(c, oc);
    c.label(std::string("coarsening:") + COARSENING[ci]); c.label(std::string("relax:") + RELAX[ri]);
    boost::property_tree::ptree prm;
    prm.put("coarsening.type", COARSENING[ci]); prm.put("relax.type", RELAX[ri]);
    prm.put("coarse_enough", ce); prm.put("direct_coarse", direct); prm.put("ncycle", ncycle);
    // a W-cycle costs 2^levels and a hierarchy may shrink by one unknown per level (coarse_enough = 2 on n = 120): cap the depth
    // for W-cycles (cost guard seen in the thorough tier: one case ran for > 45 min; not an oracle change)
    if (ncycle > 1) prm.put("max_levels", 6);
    size_t levels = 0;
    auto build = [&](const Csr<double> &A) {
        size_t n = static_cast<size_t>(A.n);
        auto P = std::make_shared<RtAmg>(std::tie(n, A.ptr, A.col, A.val), prm);
        std::ostringstream os; os << *P; std::string s = os.str();
        size_t pos = s.find("Number of levels:"); if (pos != std::string::npos) levels = static_cast<size_t>(std::atoi(s.c_str() + pos + 17));
        // the level-0 matrix must be the sorted matrix whatever the input order was
        const auto &K = P->system_matrix();
        require_wellformed(K, "amg::system_matrix", true, true);
        return [P](const std::vector<double> &f, std::vector<double> &x) { P->apply(f, x); };
    };
    Applied a = build_and_apply(oc.sorted, oc.probes, build);
    Applied b = build_and_apply(oc.shuffled, oc.probes, build);
    c.label("levels=" + std::to_string(std::min<size_t>(levels, 4)));
    require_bitwise_equal(c, a, b, std::string("amg<") + COARSENING[ci] + "," + RELAX[ri] + ">");
}

// amg::rebuild(const Matrix&): a hierarchy set up (allow_rebuild) for A and rebuilt for A' (same pattern, other values) from rows listed in
// an arbitrary order equals the one rebuilt from the sorted rows of A'.  Two objects, both constructed from the sorted A.
static void prop_amg_rebuild(Tape &t, Ctx &c) {
    int ci = static_cast<int>(t.u(0, 3));
    // relaxations that walk rows in storage order / factorise (gauss_seidel, ilu0, iluk, ilup, ilut) get extra weight
    static const int RMAP[] = {0, 1, 2, 3, 4, 5, 6, 7, 8, 0, 1, 2, 3, 4, 1, 4};
    int ri = RMAP[t.u(0, 15)];
    OrderCase oc = gen_order_case(t, t.chance(1, 4) ? 10 : 100);
    int cec = static_cast<int>(t.u(0, 2));
    unsigned ce = cec == 0 ? 8 : cec == 1 ? 2 : 3000;
    // A': diagonal grown by 10..50 % per row, off-diagonals shrunk by a common factor (still a diagonally dominant M-matrix)
    Csr<double> Ap = oc.sorted;
    double g = t.uni(0.6, 1.0);
    for (ptrdiff_t i = 0; i < Ap.n; ++i) { double di = 1.0 + t.uni(0.1, 0.5); for (ptrdiff_t j = Ap.ptr[i]; j < Ap.ptr[i + 1]; ++j) Ap.val[j] *= (Ap.col[j] == i ? di : g); }
    // the same A' with the row entries in the order of oc.shuffled
    Csr<double> Aps = oc.shuffled;
    for (ptrdiff_t i = 0; i < Ap.n; ++i) {
        std::map<ptrdiff_t, double> row; for (ptrdiff_t j = Ap.ptr[i]; j < Ap.ptr[i + 1]; ++j) row[Ap.col[j]] = Ap.val[j];
        for (ptrdiff_t j = Aps.ptr[i]; j < Aps.ptr[i + 1]; ++j) Aps.val[j] = row[Aps.col[j]];
    }
    c.desc << "amg rebuild row order " << COARSENING[ci] << " x " << RELAX[ri] << " " << oc.family << " " << describe(oc.sorted) << " coarse_enough=" << ce << " changed=" << oc.changed
           << " A'(shuffled)=" << dump_small(Aps, 8);
    common_labels(c, oc);
    c.label(std::string("rebuild:coarsening:") + COARSENING[ci]); c.label(std::string("rebuild:relax:") + RELAX[ri]);
    boost::property_tree::ptree prm;
    prm.put("coarsening.type", COARSENING[ci]); prm.put("relax.type", RELAX[ri]);
    prm.put("coarse_enough", ce); prm.put("allow_rebuild", true);
    const Csr<double> &A0 = oc.sorted;
    auto build = [&](const Csr<double> &A1) {
        size_t n = static_cast<size_t>(A0.n);
        auto P = std::make_shared<RtAmg>(std::tie(n, A0.ptr, A0.col, A0.val), prm);
        P->rebuild(std::tie(n, A1.ptr, A1.col, A1.val));
        require_wellformed(P->system_matrix(), "amg::system_matrix after rebuild", true, true);
        // the rebuilt level-0 matrix holds the values of A'
        const auto &K = P->system_matrix();
        VF_REQUIRE(static_cast<ptrdiff_t>(K.nnz) == Ap.nnz(), "amg::rebuild: level-0 nnz");
        for (ptrdiff_t j = 0; j < Ap.nnz(); ++j) VF_REQUIRE(K.col[j] == Ap.col[j] && bits_equal(K.val[j], Ap.val[j]), "amg::rebuild: level-0 entry " << j << " is (" << K.col[j] << "," << K.val[j] << "), A' (sorted) has ("
                                                             << Ap.col[j] << "," << Ap.val[j] << ")");
        return [P](const std::vector<double> &f, std::vector<double> &x) { P->apply(f, x); };
    };
    Applied a = build_and_apply(Ap, oc.probes, build);
    Applied b = build_and_apply(Aps, oc.probes, build);
    require_bitwise_equal(c, a, b, std::string("amg::rebuild<") + COARSENING[ci] + "," + RELAX[ri] + ">");
}

static void prop_relax(Tape &t, Ctx &c) {
    int ri = static_cast<int>(t.u(0, 8));
    OrderCase oc = gen_order_case(t, t.chance(1, 4) ? 10 : 120);
    c.desc << "as_preconditioner row order " << RELAX[ri] << " " << oc.family << " " << describe(oc.sorted) << " changed=" << oc.changed << " A(shuffled)=" << dump_small(oc.shuffled, 8);
    common_labels(c, oc);
    c.label(std::string("relax:") + RELAX[ri]);
    boost::property_tree::ptree prm; prm.put("type", RELAX[ri]);
    auto build = [&](const Csr<double> &A) {
        size_t n = static_cast<size_t>(A.n);
        auto P = std::make_shared<RtRelax>(std::tie(n, A.ptr, A.col, A.val), prm);
        require_wellformed(P->system_matrix(), "as_preconditioner::system_matrix", true, true);
        return [P](const std::vector<double> &f, std::vector<double> &x) { P->apply(f, x); };
    };
    Applied a = build_and_apply(oc.sorted, oc.probes, build);
    Applied b = build_and_apply(oc.shuffled, oc.probes, build);
    require_bitwise_equal(c, a, b, std::string("as_preconditioner<") + RELAX[ri] + ">");
}

// make_solver: the whole solve (two-argument form: iterates on the preconditioner's own copy) is bitwise reproducible
template <class Solver>
static void make_solver_case(Ctx &c, const OrderCase &oc, const typename Solver::params &prm, const std::string &what) {
    std::vector<size_t> its; std::vector<double> res;
    auto build = [&](const Csr<double> &A) {
        size_t n = static_cast<size_t>(A.n);
        auto S = std::make_shared<Solver>(std::tie(n, A.ptr, A.col, A.val), prm);
        return [S, &its, &res](const std::vector<double> &f, std::vector<double> &x) { size_t it; double r; std::tie(it, r) = (*S)(f, x); its.push_back(it); res.push_back(r); };
    };
    Applied a = build_and_apply(oc.sorted, oc.probes, build);
    Applied b = build_and_apply(oc.shuffled, oc.probes, build);
    require_bitwise_equal(c, a, b, what);
    if (!a.threw) {
        size_t k = oc.probes.size();
        VF_REQUIRE(its.size() == 2 * k, what << ": bookkeeping");
        for (size_t i = 0; i < k; ++i)
            VF_REQUIRE(its[i] == its[k + i] && (bits_equal(res[i], res[k + i]) || (std::isnan(res[i]) && std::isnan(res[k + i]))), what << ": iteration count / residual differ: " << its[i] << "," << res[i] << " (sorted) vs "
                       << its[k + i] << "," << res[k + i] << " (shuffled)");
    }
}

static void prop_make_solver(Tape &t, Ctx &c) {
    int ci = static_cast<int>(t.u(0, 3)), ri = static_cast<int>(t.u(0, 8));
    int kind = static_cast<int>(t.u(0, 3)); // 0 amg+cg, 1 amg+bicgstab, 2 relaxation+bicgstab, 3 dummy+cg
    OrderCase oc = gen_order_case(t, t.chance(1, 4) ? 10 : 100, 10.0);
    unsigned ce = t.b() ? 8 : 3000;
    c.desc << "make_solver row order kind=" << kind << " " << COARSENING[ci] << " x " << RELAX[ri] << " " << oc.family << " " << describe(oc.sorted) << " coarse_enough=" << ce
           << " changed=" << oc.changed << " A(shuffled)=" << dump_small(oc.shuffled, 8);
    common_labels(c, oc);
    boost::property_tree::ptree ap; ap.put("coarsening.type", COARSENING[ci]); ap.put("relax.type", RELAX[ri]); ap.put("coarse_enough", ce);
    boost::property_tree::ptree rp; rp.put("type", RELAX[ri]);
    if (kind == 0) {
        typedef amgcl::make_solver<RtAmg, amgcl::solver::cg<DB>> S; S::params p; p.precond = ap; p.solver.maxiter = 30;
        c.label("make_solver<amg,cg>");
        make_solver_case<S>(c, oc, p, "make_solver<amg,cg>");
    } else if (kind == 1) {
        typedef amgcl::make_solver<RtAmg, amgcl::solver::bicgstab<DB>> S; S::params p; p.precond = ap; p.solver.maxiter = 30;
        c.label("make_solver<amg,bicgstab>");
        make_solver_case<S>(c, oc, p, "make_solver<amg,bicgstab>");
    } else if (kind == 2) {
        typedef amgcl::make_solver<RtRelax, amgcl::solver::bicgstab<DB>> S; S::params p; p.precond = rp; p.solver.maxiter = 30;
        c.label("make_solver<relaxation,bicgstab>");
        make_solver_case<S>(c, oc, p, "make_solver<as_preconditioner,bicgstab>");
    } else {
        // preconditioner::dummy keeps the user's order in its copy; the two-argument solve then sums each row in that order,
        // so only agreement within rounding could be asked for -- it is not a preconditioner "built from" the matrix. Exercised for crashes only.
        typedef amgcl::make_solver<amgcl::preconditioner::dummy<DB>, amgcl::solver::cg<DB>> S; S::params p; p.solver.maxiter = 30;
        c.label("make_solver<dummy,cg>(no comparison)");
        size_t n = static_cast<size_t>(oc.shuffled.n);
        S s(std::tie(n, oc.shuffled.ptr, oc.shuffled.col, oc.shuffled.val), p);
        std::vector<double> x(n, 0.0); s(oc.probes[1], x);
    }
}

static std::vector<Prop> props() {
    return {
        Prop("amg", prop_amg, 900, 12000, 100, 40, {1}, 3, 8),
        Prop("amg_rebuild", prop_amg_rebuild, 600, 8000, 100, 40, {1}, 2, 8),
        Prop("relax", prop_relax, 500, 6000, 100, 40, {1}, 2, 8),
        Prop("make_solver", prop_make_solver, 400, 5000, 100, 40, {1}, 2, 8),
    };
}
static std::vector<Enum> enums() { return {}; }

VF_MAIN(props(), enums())
