// C03 — every coarse level is the (re-scaled) Galerkin product; rebuild keeps it so.
// Implementation shared by four TUs (c03_galerkin_{aggr,sa,emin,rs}.cpp), one coarsening each x 4 relaxations
// (recording hierarchy + replaying model = 8 amg instantiations per TU).
#pragma once
#include <amgcl/coarsening/aggregation.hpp>
#include <amgcl/coarsening/smoothed_aggregation.hpp>
#include <amgcl/coarsening/smoothed_aggr_emin.hpp>
#include <amgcl/coarsening/ruge_stuben.hpp>
#include <amgcl/relaxation/spai0.hpp>
#include <amgcl/relaxation/damped_jacobi.hpp>
#include <amgcl/relaxation/gauss_seidel.hpp>
#include <amgcl/relaxation/ilu0.hpp>
#include "c03_record.hpp"
#include "c03_c04_matgen.hpp"

namespace c03 {
using namespace vf;
namespace co = amgcl::coarsening;
namespace rx = amgcl::relaxation;
typedef long double ld;
static const ld U = 1.1102230246251565404e-16L; // 2^-53

// ------------------------------------------------------------------ per-coarsening knowledge
struct CoarseInfo {
    std::string name;
    bool r_is_adjoint = true;  // R == P^T entry for entry
    bool scaled = false;       // plain aggregation: A_c = (R A P) / over_interp
    float over_interp = 1.0f;
    int nullspace = 0;
    int block = 1;
};

struct Knobs { int b = 1; int k = 0; std::vector<double> B; };

inline void fill_aggr(co::pointwise_aggregates::params &a, co::nullspace_params &ns, Tape &t, const Knobs &kn, std::ostringstream &d) {
    a.eps_strong = cm::gen_eps_strong(t); a.block_size = static_cast<unsigned>(kn.b);
    ns.cols = kn.k; ns.B = kn.B;
    d << " eps_strong=" << cm::fmt_float(a.eps_strong) << " block_size=" << kn.b << " nullspace.cols=" << kn.k;
}

template <template <class> class C> struct Setup;
template <> struct Setup<co::aggregation> {
    static const bool aggregates = true;
    static void fill(co::aggregation<Backend>::params &p, Tape &t, const Knobs &kn, CoarseInfo &ci, std::ostringstream &d) {
        ci.name = "aggregation"; fill_aggr(p.aggr, p.nullspace, t, kn, d);
        static const float oi[] = {1.5f, 1.0f, 2.0f, 1.25f, 1.1f};
        int w = static_cast<int>(t.u(0, 5));
        p.over_interp = w < 5 ? oi[w] : static_cast<float>(t.uni(1.0, 2.0));
        ci.scaled = true; ci.over_interp = p.over_interp;
        d << " over_interp=" << cm::fmt_float(p.over_interp);
    }
};
template <> struct Setup<co::smoothed_aggregation> {
    static const bool aggregates = true;
    static void fill(co::smoothed_aggregation<Backend>::params &p, Tape &t, const Knobs &kn, CoarseInfo &ci, std::ostringstream &d) {
        ci.name = "smoothed_aggregation"; fill_aggr(p.aggr, p.nullspace, t, kn, d);
        p.relax = t.b() ? 1.0f : static_cast<float>(t.uni(0.5, 1.5));
        p.estimate_spectral_radius = t.b();
        p.power_iters = p.estimate_spectral_radius && t.chance(1, 3) ? static_cast<int>(t.u(1, 5)) : 0;
        d << " relax=" << cm::fmt_float(p.relax) << " estimate_spectral_radius=" << p.estimate_spectral_radius << " power_iters=" << p.power_iters;
    }
};
template <> struct Setup<co::smoothed_aggr_emin> {
    static const bool aggregates = true;
    static void fill(co::smoothed_aggr_emin<Backend>::params &p, Tape &t, const Knobs &kn, CoarseInfo &ci, std::ostringstream &d) {
        ci.name = "smoothed_aggr_emin"; ci.r_is_adjoint = false; fill_aggr(p.aggr, p.nullspace, t, kn, d);
    }
};
template <> struct Setup<co::ruge_stuben> {
    static const bool aggregates = false;
    static void fill(co::ruge_stuben<Backend>::params &p, Tape &t, const Knobs &, CoarseInfo &ci, std::ostringstream &d) {
        ci.name = "ruge_stuben";
        p.eps_strong = t.b() ? 0.25f : cm::gen_eps_strong(t);
        p.do_trunc = !t.chance(1, 3);
        static const float et[] = {0.2f, 0.5f, 0.25f};
        int w = static_cast<int>(t.u(0, 3));
        p.eps_trunc = w < 3 ? et[w] : static_cast<float>(t.uni(0.05, 0.9));
        d << " eps_strong=" << cm::fmt_float(p.eps_strong) << " do_trunc=" << p.do_trunc << " eps_trunc=" << cm::fmt_float(p.eps_trunc);
    }
};

template <template <class> class R> struct RelaxName;
template <> struct RelaxName<rx::spai0> { static const char *name() { return "spai0"; } };
template <> struct RelaxName<rx::damped_jacobi> { static const char *name() { return "damped_jacobi"; } };
template <> struct RelaxName<rx::gauss_seidel> { static const char *name() { return "gauss_seidel"; } };
template <> struct RelaxName<rx::ilu0> { static const char *name() { return "ilu0"; } };

// ------------------------------------------------------------------ reference triple product
struct Triple { std::vector<std::map<ptrdiff_t, ld>> val, abs; std::vector<std::map<ptrdiff_t, long>> cnt; };

inline Triple triple_product(const Csr<double> &R, const Csr<double> &A, const Csr<double> &P) {
    Triple T; T.val.resize(R.n); T.abs.resize(R.n); T.cnt.resize(R.n);
    for (ptrdiff_t i = 0; i < R.n; ++i)
        for (ptrdiff_t jr = R.ptr[i]; jr < R.ptr[i + 1]; ++jr) {
            ptrdiff_t k = R.col[jr]; ld r = R.val[jr];
            for (ptrdiff_t ja = A.ptr[k]; ja < A.ptr[k + 1]; ++ja) {
                ptrdiff_t l = A.col[ja]; ld ra = r * static_cast<ld>(A.val[ja]);
                for (ptrdiff_t jp = P.ptr[l]; jp < P.ptr[l + 1]; ++jp) {
                    ld v = ra * static_cast<ld>(P.val[jp]);
                    T.val[i][P.col[jp]] += v; T.abs[i][P.col[jp]] += std::abs(v); ++T.cnt[i][P.col[jp]];
                }
            }
        }
    return T;
}

inline bool all_finite(const Csr<double> &X) { for (double v : X.val) if (!std::isfinite(v)) return false; return true; }

// A_c == s * (R A P): every entry within 4 (terms + 4) u * s * sum|r||a||p|; entries outside the structural pattern must be exactly zero
inline ld require_galerkin(const Csr<double> &Ac, const Csr<double> &R, const Csr<double> &A, const Csr<double> &P, bool scaled, float over_interp, const std::string &what) {
    VF_REQUIRE(R.m == A.n && A.m == P.n && A.n == A.m, what << ": shapes R " << R.n << "x" << R.m << ", A " << A.n << "x" << A.m << ", P " << P.n << "x" << P.m);
    VF_REQUIRE(Ac.n == R.n && Ac.m == P.m, what << ": coarse matrix is " << Ac.n << "x" << Ac.m << ", R*A*P is " << R.n << "x" << P.m);
    // the factor is the single precision quotient 1/over_interp (the parameter is a float; scaled_galerkin takes a float)
    ld s = 1;
    if (scaled) { float sf = 1 / over_interp; s = sf; VF_REQUIRE(std::abs(static_cast<ld>(sf) - 1 / static_cast<ld>(over_interp)) <= std::ldexp(1.0L, -23) / over_interp, "harness: float quotient"); }
    Triple T = triple_product(R, A, P);
    ld worst = 0;
    std::vector<std::map<ptrdiff_t, double>> got(Ac.n);
    for (ptrdiff_t i = 0; i < Ac.n; ++i) for (ptrdiff_t j = Ac.ptr[i]; j < Ac.ptr[i + 1]; ++j) {
        VF_REQUIRE(Ac.col[j] >= 0 && Ac.col[j] < Ac.m, what << ": column out of range");
        VF_REQUIRE(got[i].insert(std::make_pair(Ac.col[j], Ac.val[j])).second, what << ": duplicate entry (" << i << "," << Ac.col[j] << ") in the coarse matrix");
    }
    for (ptrdiff_t i = 0; i < Ac.n; ++i) {
        for (auto &kv : T.val[i]) {
            ptrdiff_t j = kv.first;
            ld ref = s * kv.second, S = s * T.abs[i][j], tol = 4 * (T.cnt[i][j] + 4) * U * S;
            auto it = got[i].find(j);
            ld g = it == got[i].end() ? 0 : static_cast<ld>(it->second);
            ld e = std::abs(g - ref);
            if (tol > 0) worst = std::max(worst, e / tol);
            VF_REQUIRE(e <= tol, what << ": A_c(" << i << "," << j << ") = " << (it == got[i].end() ? std::string("<not stored>") : std::to_string(it->second)) << " but " << (scaled ? "(R*A*P)/over_interp" : "R*A*P") << " = " << static_cast<double>(ref)
                       << " (|diff| " << static_cast<double>(e) << " > " << static_cast<double>(tol) << ", " << T.cnt[i][j] << " terms, sum|r||a||p| = " << static_cast<double>(T.abs[i][j]) << ")");
        }
        for (auto &kv : got[i]) if (!T.val[i].count(kv.first)) VF_REQUIRE(kv.second == 0, what << ": A_c(" << i << "," << kv.first << ") = " << kv.second << " lies outside the pattern of R*A*P");
    }
    return worst;
}

inline void require_adjoint(const Csr<double> &P, const Csr<double> &R, const std::string &what) {
    VF_REQUIRE(R.n == P.m && R.m == P.n && R.nnz() == P.nnz(), what << ": R " << R.n << "x" << R.m << " nnz " << R.nnz() << " vs P " << P.n << "x" << P.m << " nnz " << P.nnz());
    std::vector<std::map<ptrdiff_t, double>> pt(P.m);
    for (ptrdiff_t i = 0; i < P.n; ++i) for (ptrdiff_t j = P.ptr[i]; j < P.ptr[i + 1]; ++j) pt[P.col[j]][i] = P.val[j];
    for (ptrdiff_t i = 0; i < R.n; ++i) for (ptrdiff_t j = R.ptr[i]; j < R.ptr[i + 1]; ++j) {
        auto it = pt[i].find(R.col[j]);
        VF_REQUIRE(it != pt[i].end(), what << ": R(" << i << "," << R.col[j] << ") has no counterpart in P");
        VF_REQUIRE(std::memcmp(&it->second, &R.val[j], sizeof(double)) == 0, what << ": R(" << i << "," << R.col[j] << ") = " << R.val[j] << " but P(" << R.col[j] << "," << i << ") = " << it->second);
    }
}

// ------------------------------------------------------------------ matrices of a history
// perturbation of the scalar matrix that keeps the construction invariant (diagonal dominance with the original slack pattern)
inline Csr<double> perturb(Tape &t, const Csr<double> &A0, bool drop) {
    cm::Rows rows(A0.n);
    for (ptrdiff_t i = 0; i < A0.n; ++i) {
        double d0 = 0, s0 = 0, s1 = 0, extra = 0;
        for (ptrdiff_t j = A0.ptr[i]; j < A0.ptr[i + 1]; ++j) {
            if (A0.col[j] == i) { d0 = A0.val[j]; continue; }
            double v = A0.val[j] * t.uni(0.5, 1.5);
            s0 += std::abs(A0.val[j]);
            if (drop && t.chance(1, 4)) { extra += std::abs(v); continue; } // other pattern: entry removed, its mass stays on the diagonal
            rows[i][A0.col[j]] = v; s1 += std::abs(v);
        }
        double slack = std::abs(d0) - s0; if (slack < 0) slack = 0;
        double d1 = s1 + extra + slack * t.uni(0.5, 2.0);
        if (d1 == 0) d1 = std::abs(d0);
        rows[i][i] = d0 < 0 ? -d1 : d1;
    }
    return cm::rows_to_csr(rows);
}

inline Csr<double> scaled_copy(const Csr<double> &A, int k) { Csr<double> B = A; for (auto &v : B.val) v = std::ldexp(v, k); return B; }

struct Expand { // scalar matrix -> system matrix handed to amg (block expansion, optional row shuffle)
    int b = 1; std::vector<double> Bk; bool shuffle = false; std::vector<uint32_t> shuffle_words;
    Csr<double> operator()(const Csr<double> &A) const {
        Csr<double> K = b == 1 ? A : cm::kron(A, b, Bk);
        if (shuffle) { Tape ts(shuffle_words); shuffle_rows(ts, K); }
        return K;
    }
};

template <class AMG>
static std::vector<double> amg_apply(const AMG &amg, const std::vector<double> &v) {
    std::vector<double> x(v.size(), 0.0);
    amg.apply(v, x);
    return x;
}

// ------------------------------------------------------------------ the property
template <template <class> class C, template <class> class Rlx>
void run_history(Tape &t, Ctx &c) {
    typedef typename recording<C>::template type<Backend> RecC;
    typedef amgcl::amg<Backend, recording<C>::template type, Rlx> AMG;
    typedef amgcl::amg<Backend, replaying::type, Rlx> FreshAMG;

    // ---- matrix
    int nmax; switch (t.u(0, 3)) { case 0: nmax = 12; break; case 1: case 2: nmax = 60; break; default: nmax = 200; }
    cm::MatInfo info;
    Knobs kn; Expand ex;
    if (Setup<C>::aggregates) {
        if (t.chance(1, 6)) { kn.b = 2; nmax = std::max(4, nmax / 2); }
        kn.k = t.chance(1, 3) ? static_cast<int>(t.u(1, 2)) : 0;
    }
    Csr<double> A0 = cm::gen_matrix(t, nmax, info);
    if (kn.b > 1) { double beta = t.uni(-0.5, 0.5); ex.b = 2; ex.Bk = {1.0, beta, beta, 1.0}; }
    ex.shuffle = t.chance(1, 4);
    if (ex.shuffle) for (int i = 0; i < 64; ++i) ex.shuffle_words.push_back(static_cast<uint32_t>(t.u(0, 1 << 20)));
    Csr<double> K0 = ex(A0);
    ptrdiff_t n = K0.n;
    if (kn.k > 0) { kn.B.resize(n * kn.k); for (ptrdiff_t i = 0; i < n; ++i) for (int l = 0; l < kn.k; ++l) kn.B[i * kn.k + l] = l == 0 ? t.uni(0.5, 1.5) : t.uni(-1.0, 1.0); }

    // ---- parameters
    std::ostringstream pd;
    CoarseInfo ci; ci.nullspace = kn.k; ci.block = kn.b;
    typename AMG::params prm;
    auto log = std::make_shared<Log>();
    prm.coarsening.log = log;
    Setup<C>::fill(prm.coarsening, t, kn, ci, pd);
    {
        static const unsigned ce[] = {2, 0, 1, 3, 5, 2, 1, 3, 10, 4, 30};
        int w = static_cast<int>(t.u(0, 12));
        prm.coarse_enough = w < 11 ? ce[w] : w == 11 ? static_cast<unsigned>(n / 2) : 3000u; // 3000 is the library default (single level here)
        int ml = static_cast<int>(t.u(0, 9));
        prm.max_levels = ml == 0 || ml > 5 ? std::numeric_limits<unsigned>::max() : ml == 5 ? 6u : static_cast<unsigned>(ml);
        if (kn.k >= 2 && prm.max_levels > 4) prm.max_levels = 4; // cost guard: with >=2 null-space vectors a level may fail to shrink (F-nullspace-no-shrink); keep the hierarchy finite
        prm.direct_coarse = !t.chance(1, 4);
        prm.npre = static_cast<unsigned>(t.u(1, 3)) % 3;   // 1,2,0
        prm.npost = static_cast<unsigned>(t.u(1, 3)) % 3;
        prm.ncycle = static_cast<unsigned>(t.u(1, 2));
        { int w = static_cast<int>(t.u(0, 9)); prm.pre_cycles = w == 9 ? 0u : (w == 1 || w == 2) ? 2u : 1u; } // pre_cycles=0 makes apply a plain copy: rare
        prm.allow_rebuild = !t.chance(1, 10);
        // a W-cycle costs ncycle^levels coarse solves: keep the depth bounded when ncycle > 1 (slowly coarsening graphs reach dozens of levels)
        if (prm.ncycle > 1 && prm.max_levels > 6) prm.max_levels = 6;
    }
    // ---- history
    int hlen = static_cast<int>(t.u(0, 8));
    // zero-copy use: the hierarchy is built from a shared_ptr (amg keeps the user's matrix, no copy, no sorting) and the history may change the
    // values of the installed system matrix IN PLACE and call rebuild() with that same pointer
    bool zero_copy = t.b();
    if (zero_copy && ex.shuffle) K0 = sorted_copy(K0); // the shared_ptr constructor does not sort: hand over sorted rows
    c.desc << "history " << ci.name << " x " << RelaxName<Rlx>::name() << " " << info.family << "/" << info.graph << " n=" << n << (zero_copy ? " (zero-copy: built from shared_ptr)" : ex.shuffle ? " (unsorted input rows)" : "") << pd.str()
           << " coarse_enough=" << prm.coarse_enough << " max_levels=" << prm.max_levels << " direct_coarse=" << prm.direct_coarse << " npre=" << prm.npre << " npost=" << prm.npost
           << " ncycle=" << prm.ncycle << " pre_cycles=" << prm.pre_cycles << " allow_rebuild=" << prm.allow_rebuild << " threads=" << c.threads << " ops=" << hlen << " K=" << dump_small(K0, 12) << " |";
    c.label("coarsening:" + ci.name); c.label(std::string("relax:") + RelaxName<Rlx>::name()); c.label("fam:" + info.family);
    c.label(n <= 12 ? "n<=12" : n <= 60 ? "n<=60" : "n>60");
    if (kn.b > 1) c.label("block_size=2"); if (kn.k) c.label("nullspace=" + std::to_string(kn.k)); if (zero_copy) c.label("zero-copy-construction"); else if (ex.shuffle) c.label("unsorted-input");
    if (!info.struct_symmetric) c.label("nonsym-pattern");

    // ---- construction
    std::unique_ptr<AMG> amg;
    {
        auto k0 = to_crs<double>(K0);
        try { if (zero_copy) amg.reset(new AMG(k0, prm)); else amg.reset(new AMG(*k0, prm)); }
        catch (const ZeroCoarseLevel &z) {
            // the recording policy stops the construction here: amg would go on to build a 0 x 0 coarse matrix and crash in the direct
            // solver (that was the defect fixed by ef9207a: all aggregates smaller than nullspace.cols must be signalled as an empty level)
            VF_REQUIRE(false, "level " << z.level << " with " << z.fine_rows << " unknowns got a prolongation with 0 columns instead of an empty-level signal");
        }
        catch (const std::runtime_error &e) { c.label("ctor-rejected"); c.desc << " constructor rejected the matrix: " << e.what(); return; } // clean rejection (zero pivot in ILU / skyline LU)
    }
    std::vector<LevelView> lv = amgcl_verif::access::levels(*amg);
    const size_t L = lv.size(), T = log->transfers.size();
    if (zero_copy) VF_REQUIRE(lv.size() >= 1 && lv[0].A && same_bits(from_crs(*amg->system_matrix_ptr()), K0), "zero-copy construction: the installed system matrix differs from the matrix handed over");
    c.label("levels=" + std::to_string(std::min<size_t>(L, 5)) + (L >= 5 ? "+" : ""));
    VF_REQUIRE(L >= 1, "hierarchy has no level");
    VF_REQUIRE(log->coarse.size() == T, "transfer_operators succeeded " << T << " times but coarse_operator was called " << log->coarse.size() << " times");
    VF_REQUIRE(L == T + 1, "hierarchy has " << L << " levels after " << T << " successful coarsening steps");
    VF_REQUIRE(log->empty_levels <= 1, "more than one empty level signalled");

    bool finite = true;
    for (auto &r : log->coarse) finite = finite && all_finite(r.P) && all_finite(r.R) && all_finite(r.Ac);
    // (smoothed_aggr_emin used to produce inf/NaN operators for a vanishing filtered diagonal / omega denominator: fixed in /repo by a58f297,
    //  regression replay/C03/emin-nonfinite.case)
    VF_REQUIRE(finite, "transfer or coarse operators contain non-finite values");

    Csr<double> K0s = sorted_copy(K0);
    ld worst = 0;
    std::string no_shrink; // first coarsening step that did not shrink (only possible with nullspace.cols >= 2)
    auto check_levels = [&](const std::vector<LevelView> &v, const Log &lg, const Csr<double> &Ks, bool construction, const std::string &when) {
        // chain of matrices: level 0 holds the sorted system matrix, level l+1 holds sort_rows(coarse_operator(level l))
        size_t ncoarse = lg.coarse.size();
        Csr<double> cur = Ks;
        for (size_t l = 0; l < v.size(); ++l) {
            VF_REQUIRE(static_cast<ptrdiff_t>(v[l].rows) == cur.n, when << ": level " << l << " reports " << v[l].rows << " rows, its matrix has " << cur.n);
            if (v[l].A) {
                require_wellformed(*v[l].A, when + ": level matrix", true, true);
                VF_REQUIRE(same_bits(from_crs(*v[l].A), cur), when << ": matrix held by level " << l << " differs from " << (l == 0 ? "the (row-sorted) system matrix" : "the sorted result of coarse_operator on the level above"));
            } else VF_REQUIRE(v[l].solve && l + 1 == v.size() && l > 0, when << ": level " << l << " holds no matrix but is not a direct-solver coarsest level");
            if (l < ncoarse) {
                const CoarseRec &r = lg.coarse[l];
                VF_REQUIRE(same_bits(r.A, cur), when << ": coarse_operator on level " << l << " was given a matrix different from the level matrix");
                if (construction) {
                    const TransferRec &tr = lg.transfers[l];
                    VF_REQUIRE(same_bits(tr.A, cur), when << ": transfer_operators on level " << l << " was given a matrix different from the level matrix");
                    VF_REQUIRE(same_bits(r.P, sorted_copy(tr.P)) && same_bits(r.R, sorted_copy(tr.R)), when << ": coarse_operator on level " << l << " did not receive the (row-sorted) operators returned by transfer_operators");
                    if (ci.r_is_adjoint) require_adjoint(tr.P, tr.R, when + ": level " + std::to_string(l) + " restriction");
                    VF_REQUIRE(tr.P.n == cur.n && tr.R.m == cur.n && tr.P.m == tr.R.n, when << ": level " << l << " transfer operator shapes P " << tr.P.n << "x" << tr.P.m << " R " << tr.R.n << "x" << tr.R.m);
                    // level sizes strictly decrease.  With >= 2 near-null-space vectors a step can keep the size (every aggregate has exactly
                    // nullspace.cols unknowns, nothing removed): listed finding F-nullspace-no-shrink, asserted at the end of the case so that
                    // every other check still runs first.  Growth, or a non-shrinking step with <= 1 vectors, is a plain violation.
                    VF_REQUIRE(tr.P.m <= cur.n, when << ": level " << l + 1 << " has " << tr.P.m << " unknowns, more than level " << l << " (" << cur.n << ")");
                    if (tr.P.m == cur.n && ci.nullspace >= 2) { if (no_shrink.empty()) { std::ostringstream os; os << "level " << l + 1 << " has " << tr.P.m << " unknowns, level " << l << " has " << cur.n << " (sizes must strictly decrease; nullspace.cols=" << ci.nullspace << ")"; no_shrink = os.str(); } }
                    else VF_REQUIRE(tr.P.m < cur.n, when << ": level " << l + 1 << " has " << tr.P.m << " unknowns, level " << l << " has " << cur.n << " (sizes must strictly decrease)");
                }
                VF_REQUIRE(v[l].P && v[l].R, when << ": level " << l << " lacks transfer operators");
                VF_REQUIRE(same_bits(from_crs(*v[l].P), r.P) && same_bits(from_crs(*v[l].R), r.R), when << ": operators stored in level " << l << " differ from those used for the coarse operator");
                ld w = require_galerkin(r.Ac, r.R, r.A, r.P, ci.scaled, ci.over_interp, when + ": level " + std::to_string(l + 1));
                worst = std::max(worst, w);
                cur = sorted_copy(r.Ac);
            } else {
                VF_REQUIRE(l + 1 == v.size(), when << ": level " << l << " is not the last one but has no coarse operator");
                VF_REQUIRE(!v[l].P && !v[l].R && !v[l].bP && !v[l].bR, when << ": last level carries transfer operators");
            }
            if (l + 1 < v.size()) VF_REQUIRE(v[l].relax && !v[l].solve, when << ": intermediate level " << l << " must own a smoother and no direct solver");
        }
        VF_REQUIRE(ncoarse + 1 == v.size(), when << ": " << ncoarse << " coarse operators for " << v.size() << " levels");
        // last level: direct solver iff it is small enough and direct_coarse is set
        const LevelView &last = v.back();
        bool small = last.rows <= prm.coarse_enough;
        VF_REQUIRE(last.solve == (small && prm.direct_coarse), when << ": last level has " << last.rows << " unknowns, coarse_enough=" << prm.coarse_enough << ", direct_coarse=" << prm.direct_coarse << " but "
                   << (last.solve ? "a direct solver" : "no direct solver"));
        VF_REQUIRE(last.solve != last.relax, when << ": last level must have exactly one of direct solver / smoother");
        if (!last.solve) VF_REQUIRE(last.A, when << ": smoother on the last level without a matrix");
    };
    check_levels(lv, *log, K0s, true, "construction");
    if (lv.back().rows > prm.coarse_enough)
        VF_REQUIRE(L >= prm.max_levels || log->empty_levels == 1, "coarsening stopped at " << lv.back().rows << " > coarse_enough unknowns without reaching max_levels=" << prm.max_levels << " or an empty level");
    else VF_REQUIRE(log->empty_levels == 0, "an empty level was signalled although the hierarchy ends at a small level");
    for (size_t l = 0; l < L; ++l) {
        if (l < T) VF_REQUIRE(static_cast<bool>(lv[l].bP) == prm.allow_rebuild && static_cast<bool>(lv[l].bR) == prm.allow_rebuild, "level " << l << ": retained build operators present=" << static_cast<bool>(lv[l].bP) << " allow_rebuild=" << prm.allow_rebuild);
        if (lv[l].bP) VF_REQUIRE(same_bits(from_crs(*lv[l].bP), log->coarse[l].P) && same_bits(from_crs(*lv[l].bR), log->coarse[l].R), "level " << l << ": retained operators differ from the ones used");
    }
    c.label(lv.back().solve ? "last:direct" : "last:smoother");
    if (log->empty_levels) c.label("stopped:empty-level"); else if (lv.back().rows > prm.coarse_enough) c.label("stopped:max_levels");

    // operators for the model hierarchy
    auto ops = std::make_shared<StoredOps>();
    for (size_t l = 0; l < T; ++l) ops->pr.push_back(std::make_pair(log->coarse[l].P, log->coarse[l].R));
    typename FreshAMG::params fprm;
    fprm.relax = prm.relax; fprm.coarse_enough = prm.coarse_enough; fprm.direct_coarse = prm.direct_coarse; fprm.max_levels = prm.max_levels;
    fprm.npre = prm.npre; fprm.npost = prm.npost; fprm.ncycle = prm.ncycle; fprm.pre_cycles = prm.pre_cycles; fprm.allow_rebuild = prm.allow_rebuild;
    fprm.coarsening.ops = ops; fprm.coarsening.scaled = ci.scaled; fprm.coarsening.scale = 1 / ci.over_interp;

    // snapshot for "transfer operators unchanged"
    std::vector<LevelView> lv0 = lv;
    std::vector<Csr<double>> P0, R0;
    for (size_t l = 0; l < T; ++l) { P0.push_back(log->coarse[l].P); R0.push_back(log->coarse[l].R); }

    // ---- run the history
    std::vector<double> v0 = gen_vec(t, static_cast<size_t>(n), 2);
    std::vector<std::pair<std::vector<double>, std::vector<double>>> orig_io; // (input, output) pairs observed while the matrix is the original one
    orig_io.push_back(std::make_pair(v0, amg_apply(*amg, v0)));
    { // the freshly built hierarchy itself acts like the model assembled from its own operators
        auto k0 = to_crs<double>(K0);
        FreshAMG fresh(*k0, fprm);
        VF_REQUIRE(amgcl_verif::access::levels(fresh).size() == L, "model hierarchy has a different number of levels");
        VF_REQUIRE(same_bits(amg_apply(fresh, v0), orig_io[0].second), "construction: apply differs from a hierarchy assembled from the same operators");
    }
    bool is_orig = true, changed_then_applied = false, pending_changed = false;
    Csr<double> Kcur = K0;
    int rebuilds = 0, applies = 0;
    for (int op = 0; op < hlen; ++op) {
        // 0 apply, 1 rebuild(perturbed values), 2 rebuild(scaled 2^k), 3 rebuild(original), 4 rebuild(other pattern): a freshly allocated matrix is passed;
        // zero-copy histories also draw 5..7: change the values of the installed system matrix in place (damp off-diagonals / scale 2^k / restore the
        // original values) and call rebuild() with the very same shared_ptr
        int kind = static_cast<int>(t.u(0, zero_copy ? 7 : 4));
        if (kind >= 5 && !prm.allow_rebuild) kind -= 4; // a refused rebuild must leave everything untouched: do not alias-modify the matrix then
        if (kind == 0) {
            std::vector<double> v = gen_vec(t, static_cast<size_t>(n));
            c.desc << " apply";
            std::vector<double> x = amg_apply(*amg, v);
            auto kc = to_crs<double>(Kcur);
            FreshAMG fresh(*kc, fprm);
            VF_REQUIRE(same_bits(x, amg_apply(fresh, v)), "op " << op << ": apply(v) differs from a fresh hierarchy assembled from the current matrix with the same transfer operators");
            VF_REQUIRE(same_bits(x, amg_apply(*amg, v)), "op " << op << ": apply(v) is not repeatable");
            if (is_orig) orig_io.push_back(std::make_pair(v, x));
            if (pending_changed) changed_then_applied = true;
            ++applies;
            continue;
        }
        Csr<double> Knew;
        if (kind == 1) { Knew = ex(perturb(t, A0, false)); c.desc << " rebuild(perturbed)"; c.label("op:rebuild-perturbed"); }
        else if (kind == 2) { int k = static_cast<int>(t.u(1, 6)); k = k <= 3 ? k : 3 - k; Knew = scaled_copy(K0, k); c.desc << " rebuild(2^" << k << "*A)"; c.label("op:rebuild-scaled"); }
        else if (kind == 3) { Knew = K0; c.desc << " rebuild(original)"; c.label("op:rebuild-original"); }
        else if (kind == 4) { Knew = ex(perturb(t, A0, true)); c.desc << " rebuild(other pattern)"; c.label("op:rebuild-other-pattern"); }
        std::shared_ptr<Mat> alias; // non-null: in-place modification of the installed matrix + rebuild(same pointer)
        if (kind >= 5) {
            Csr<double> cur = sorted_copy(Kcur);
            if (kind == 7 && !(cur.ptr == K0s.ptr && cur.col == K0s.col)) { kind = 3; Knew = K0; c.desc << " rebuild(original)"; c.label("op:rebuild-original"); } // pattern was changed meanwhile: not restorable in place
            else {
                alias = amg->system_matrix_ptr();
                VF_REQUIRE(alias && same_bits(from_crs(*alias), cur), "op " << op << ": the installed system matrix is not the (row-sorted) current matrix");
                if (kind == 5) {
                    Knew = cur;
                    for (ptrdiff_t i = 0; i < Knew.n; ++i) { double g = t.uni(1.0, 2.0); for (ptrdiff_t j = Knew.ptr[i]; j < Knew.ptr[i + 1]; ++j) Knew.val[j] *= Knew.col[j] == i ? g : t.uni(0.5, 1.0); }
                    c.desc << " in-place(damp)+rebuild(same ptr)"; c.label("op:inplace-perturbed");
                } else if (kind == 6) { int k = static_cast<int>(t.u(1, 6)); k = k <= 3 ? k : 3 - k; Knew = scaled_copy(cur, k); c.desc << " in-place(2^" << k << ")+rebuild(same ptr)"; c.label("op:inplace-scaled"); }
                else { Knew = K0s; c.desc << " in-place(original values)+rebuild(same ptr)"; c.label("op:inplace-original"); }
            }
        }
        auto kc = to_crs<double>(Knew);
        if (!prm.allow_rebuild) {
            bool threw = false;
            try { amg->rebuild(*kc); } catch (const std::logic_error &) { threw = true; } catch (const std::runtime_error &) { threw = true; }
            VF_REQUIRE(threw, "rebuild() without allow_rebuild did not fail");
            c.label("rebuild-refused(allow_rebuild=0)");
            VF_REQUIRE(same_bits(amg_apply(*amg, v0), orig_io[0].second), "a refused rebuild changed the preconditioner");
            continue;
        }
        log->clear();
        bool rebuilt = true; std::string why;
        try {
            if (alias) { for (ptrdiff_t j = 0; j < Knew.nnz(); ++j) alias->val[j] = Knew.val[j]; amg->rebuild(alias); }
            else amg->rebuild(*kc);
        } catch (const std::runtime_error &e) { rebuilt = false; why = e.what(); }
        std::unique_ptr<FreshAMG> fresh;
        bool fresh_ok = true;
        try { fresh.reset(new FreshAMG(*kc, fprm)); } catch (const std::runtime_error &) { fresh_ok = false; }
        VF_REQUIRE(rebuilt == fresh_ok, "op " << op << ": rebuild " << (rebuilt ? "succeeded" : "failed (" + why + ")") << " but assembling a fresh hierarchy from the same matrix and operators " << (fresh_ok ? "succeeded" : "failed"));
        if (!rebuilt) { c.label("rebuild-rejected"); c.desc << " (rejected: " << why << ")"; break; } // the object is in an unspecified state after a throwing rebuild
        ++rebuilds;
        bool restored = (kind == 3 || kind == 7);
        Kcur = Knew; is_orig = restored; pending_changed = !restored;
        if (alias) { VF_REQUIRE(amg->system_matrix_ptr() == alias, "op " << op << ": rebuild(same pointer) replaced the installed system matrix object"); c.label("rebuild-same-pointer"); }
        bool fin = true; for (auto &r : log->coarse) fin = fin && all_finite(r.Ac);
        VF_REQUIRE(fin, "op " << op << ": rebuild produced non-finite coarse matrices");
        std::vector<LevelView> lw = amgcl_verif::access::levels(*amg);
        std::string when = "op " + std::to_string(op) + " (after rebuild)";
        VF_REQUIRE(lw.size() == L, when << ": number of levels changed from " << L << " to " << lw.size());
        VF_REQUIRE(log->transfers.empty() && log->empty_levels == 0, when << ": rebuild recomputed transfer operators");
        for (size_t l = 0; l < L; ++l) {
            VF_REQUIRE(lw[l].P == lv0[l].P && lw[l].R == lv0[l].R && lw[l].bP == lv0[l].bP && lw[l].bR == lv0[l].bR, when << ": level " << l << " transfer operator objects were replaced");
            if (l < T) VF_REQUIRE(same_bits(from_crs(*lw[l].bP), P0[l]) && same_bits(from_crs(*lw[l].bR), R0[l]) && same_bits(from_crs(*lw[l].P), P0[l]) && same_bits(from_crs(*lw[l].R), R0[l]),
                                  when << ": level " << l << " transfer operators changed");
            VF_REQUIRE(lw[l].solve == lv0[l].solve && lw[l].relax == lv0[l].relax && static_cast<bool>(lw[l].A) == static_cast<bool>(lv0[l].A), when << ": level " << l << " changed its solver/smoother/matrix layout");
        }
        check_levels(lw, *log, sorted_copy(Knew), false, when);
        // model: fresh hierarchy from A' with those operators
        std::vector<LevelView> lf = amgcl_verif::access::levels(*fresh);
        VF_REQUIRE(lf.size() == L, when << ": model hierarchy has " << lf.size() << " levels");
        for (size_t l = 0; l < L; ++l) if (lw[l].A) VF_REQUIRE(lf[l].A && same_bits(from_crs(*lw[l].A), from_crs(*lf[l].A)), when << ": level " << l << " matrix differs from the model hierarchy");
        std::vector<double> x = amg_apply(*amg, v0);
        VF_REQUIRE(same_bits(x, amg_apply(*fresh, v0)), when << ": apply(v0) differs from a fresh hierarchy assembled from A' with the same transfer operators");
        if (pending_changed) changed_then_applied = true;
        if (restored) for (auto &io : orig_io) VF_REQUIRE(same_bits(amg_apply(*amg, io.first), io.second), when << ": rebuild(original) did not restore the original action");
        else if (same_bits(x, orig_io[0].second)) c.label("changed-matrix-same-action"); // not asserted; label only
    }
    c.nontrivial = L >= 2 && changed_then_applied && prm.pre_cycles >= 1;
    if (rebuilds) c.label("rebuilds>=1"); if (rebuilds >= 3) c.label("rebuilds>=3"); if (applies) c.label("applies>=1");
    if (c.nontrivial) c.label("nt:changed-rebuild-then-apply");
    if (prm.pre_cycles == 0) c.label("pre_cycles=0");
    if (worst > 0.05) c.label("galerkin-err>0.05tol");
    if (worst > 0.5) c.label("galerkin-err>0.5tol");
    // ---- last: the strict-decrease clause in the listed region (all other assertions of this case have passed at this point)
    if (!no_shrink.empty()) {
        c.label("nullspace>=2:level-did-not-shrink");
        if (c.known("F-nullspace-no-shrink")) return;
        VF_REQUIRE(false, "construction: " << no_shrink << " - with max_levels unlimited the setup would not terminate");
    }
}

// one coarsening per TU (compile time); the relaxation is decoded from the tape
template <template <class> class C0>
void prop_history(Tape &t, Ctx &c) {
    switch (t.u(0, 3)) {
    case 0: run_history<C0, rx::spai0>(t, c); break;
    case 1: run_history<C0, rx::damped_jacobi>(t, c); break;
    case 2: run_history<C0, rx::gauss_seidel>(t, c); break;
    default: run_history<C0, rx::ilu0>(t, c); break;
    }
}

} // namespace c03

#define C03_TU(COARSENING)                                                                                                  \
    static std::vector<vf::Prop> props() {                                                                                  \
        /* 1 thread: spgemm_saad; 17 threads: product() switches to spgemm_rmerge */                                        \
        return {                                                                                                            \
            vf::Prop("history", c03::prop_history<amgcl::coarsening::COARSENING>, 1500, 20000, 100, 60, {1}, 1, 4),        \
            vf::Prop("history_t17", c03::prop_history<amgcl::coarsening::COARSENING>, 150, 2500, 100, 60, {17}, 1, 2),     \
        };                                                                                                                  \
    }                                                                                                                       \
    static std::vector<vf::Enum> enums() { return {}; }                                                                     \
    VF_MAIN(props(), enums())
