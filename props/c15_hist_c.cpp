// C15 (part C) — call histories on nested make_solver and deflated_solver.
// Model, clauses and the history decoder: props/c15_common.hpp; object kinds: props/c15_kinds.hpp.
#include "c15_kinds.hpp"

static std::vector<Prop> props() {
    return {
        Prop("hist_nested", run_history<KNested>, 1000, 10000, 100, 12, {1}, 2, 8),
        Prop("hist_deflated", run_history<KDeflated>, 1000, 10000, 100, 12, {1}, 2, 8),
    };
}
static std::vector<Enum> enums() { return {}; }
VF_MAIN(props(), enums())
