// C19 round-trip properties (valid files): write with the library, read back, compare bitwise; every row range
// equals the slice of the full read; symmetric storage expands to the full matrix; binary layout of mm2bin.
#pragma once
#include "c19_oracle.hpp"

namespace c19 {

template <class V> void label_common(Ctx &c, const Csr<V> &A, const Classes &cl, bool sorted) {
    c.label(std::string("val:") + VT<V>::name());
    for (auto &s : cl) c.label(s);
    bool empty_row = false;
    for (ptrdiff_t i = 0; i < A.n; ++i) empty_row = empty_row || A.ptr[i] == A.ptr[i + 1];
    if (A.n > 0 && empty_row) c.label("shape:empty-row");
    if (A.n == 1 && A.m == 1) c.label("shape:1x1");
    if (A.n == 0 || A.m == 0) c.label("shape:empty-dim");
    c.label(A.n == A.m ? "shape:square" : "shape:rectangular");
    c.label(sorted ? "rows:sorted-input" : "rows:unsorted-input");
}

// ------------------------------------------------------------------ MatrixMarket sparse
template <class V, class Idx>
void rt_mm_sparse_idx(Tape &t, Ctx &c, const Csr<V> &A, bool sorted, bool via_tuple) {
    std::string path = scratch_file("rt.mtx");
    write_mm_sparse(path, A, via_tuple);
    Csr<V> S = sorted ? A : vf::sorted_copy(A);
    std::vector<Idx> eptr(S.ptr.begin(), S.ptr.end()), ecol(S.col.begin(), S.col.end());

    SpRead<Idx, V> F = read_sp<Idx, V>(path);
    validate_sp(F, -1, -1, "full read");
    VF_REQUIRE(F.sparse && !F.sym && F.cx == amgcl::is_complex<V>::value && F.integer == std::is_integral<V>::value, "banner flags wrong: sparse=" << F.sparse << " sym=" << F.sym << " complex=" << F.cx << " integer=" << F.integer);
    VF_REQUIRE(static_cast<ptrdiff_t>(F.rows) == A.n && static_cast<ptrdiff_t>(F.cols) == A.m && static_cast<ptrdiff_t>(F.hrows) == A.n && static_cast<ptrdiff_t>(F.hcols) == A.m,
               "sizes: read " << F.rows << "x" << F.cols << " (header " << F.hrows << "x" << F.hcols << "), written " << A.n << "x" << A.m);
    VF_REQUIRE(F.ptr == eptr, "ptr differs after the round trip");
    VF_REQUIRE(F.col == ecol, "col differs after the round trip");
    VF_REQUIRE(F.val.size() == S.val.size(), "number of values differs");
    for (size_t k = 0; k < S.val.size(); ++k)
        VF_REQUIRE(bits_equal(F.val[k], S.val[k]), "value " << k << " written " << VT<V>::show(S.val[k]) << " read back " << VT<V>::show(F.val[k]));

    Ranges rs = gen_ranges(t, A.n);
    for (auto &r : rs) {
        std::ostringstream w; w << "range read [" << r.first << "," << r.second << ")";
        SpRead<Idx, V> R = read_sp<Idx, V>(path, r.first, r.second);
        validate_sp(R, r.first, r.second, w.str());
        ptrdiff_t bb, ee; bounds(r.first, r.second, A.n, bb, ee);
        require_slice(F.ptr, F.col, F.val, R.ptr, R.col, R.val, bb, ee, w.str());
    }
    c.label("ranges:" + std::string(A.n <= 5 ? "all" : "sampled"));
}

template <class V>
void prop_rt_mm_sparse(Tape &t, Ctx &c) {
    Classes cl; bool sorted;
    Csr<V> A = gen_matrix<V>(t, true, sorted, cl);
    bool idx32 = t.b(), via_tuple = t.b();
    c.desc << "mm sparse round trip <" << VT<V>::name() << "," << (idx32 ? "int" : "ptrdiff_t") << "> " << vf::describe(A) << (sorted ? " sorted" : " unsorted")
           << (via_tuple && A.n == A.m ? " tuple" : " crs") << " ptr=" << dump_vals<long long>(std::vector<long long>(A.ptr.begin(), A.ptr.end()), 10)
           << " col=" << dump_vals<long long>(std::vector<long long>(A.col.begin(), A.col.end()), 10) << " val=" << dump_vals(A.val);
    c.nontrivial = A.nnz() >= 2 && A.n >= 2;
    label_common(c, A, cl, sorted);
    c.label(idx32 ? "idx:int" : "idx:ptrdiff_t");
    if (idx32) rt_mm_sparse_idx<V, int>(t, c, A, sorted, via_tuple);
    else rt_mm_sparse_idx<V, ptrdiff_t>(t, c, A, sorted, via_tuple);
}

// ------------------------------------------------------------------ MatrixMarket dense
template <class V>
void prop_rt_mm_dense(Tape &t, Ctx &c) {
    Classes cl;
    int cls = static_cast<int>(t.u(0, 2));
    size_t n = static_cast<size_t>(t.u(0, cls == 0 ? 3 : cls == 1 ? 8 : 24)), m = static_cast<size_t>(t.u(0, 4));
    if (m == 0 && !t.chance(1, 8)) m = 1; // mostly vectors (right-hand sides), sometimes a 0-column array
    std::vector<V> v(n * m);
    for (auto &x : v) x = VT<V>::gen(t, true, cl);
    c.desc << "mm dense round trip <" << VT<V>::name() << "> " << n << "x" << m << " val=" << dump_vals(v);
    c.nontrivial = n >= 2 && m >= 1;
    c.label(std::string("val:") + VT<V>::name());
    for (auto &s : cl) c.label(s);
    c.label(m == 1 ? "dense:vector" : m == 0 ? "dense:no-columns" : "dense:multi-column");
    std::string path = scratch_file("rt.mtx");
    io::mm_write(fresh(path), v.data(), n, m);
    DnRead<V> F = read_dn<V>(path);
    validate_dn(F, -1, -1, "full read");
    VF_REQUIRE(!F.sparse && !F.sym && F.cx == amgcl::is_complex<V>::value && F.integer == std::is_integral<V>::value, "banner flags wrong");
    VF_REQUIRE(F.rows == n && F.cols == m && F.hrows == n && F.hcols == m, "sizes: read " << F.rows << "x" << F.cols << ", written " << n << "x" << m);
    for (size_t k = 0; k < v.size(); ++k) VF_REQUIRE(bits_equal(F.val[k], v[k]), "value " << k << " written " << VT<V>::show(v[k]) << " read back " << VT<V>::show(F.val[k]));
    Ranges rs = gen_ranges(t, static_cast<ptrdiff_t>(n));
    for (auto &r : rs) {
        std::ostringstream w; w << "range read [" << r.first << "," << r.second << ")";
        DnRead<V> R = read_dn<V>(path, r.first, r.second);
        validate_dn(R, r.first, r.second, w.str());
        ptrdiff_t bb, ee; bounds(r.first, r.second, static_cast<ptrdiff_t>(n), bb, ee);
        require_dense_slice(F.val, m, R.val, bb, ee, w.str());
    }
}

// ------------------------------------------------------------------ symmetric storage, written by the harness
template <class V, class Idx>
void rt_symmetric_read(Tape &t, const std::string &path, const Csr<V> &E) {
    SpRead<Idx, V> F = read_sp<Idx, V>(path);
    validate_sp(F, -1, -1, "full read (symmetric)");
    VF_REQUIRE(F.sparse && F.sym, "banner flags: symmetric file not recognised");
    VF_REQUIRE(static_cast<ptrdiff_t>(F.rows) == E.n && static_cast<ptrdiff_t>(F.cols) == E.n, "sizes " << F.rows << "x" << F.cols << " expected " << E.n);
    VF_REQUIRE(F.ptr == std::vector<Idx>(E.ptr.begin(), E.ptr.end()), "expanded ptr differs from the explicit full matrix");
    VF_REQUIRE(F.col == std::vector<Idx>(E.col.begin(), E.col.end()), "expanded col differs from the explicit full matrix");
    for (size_t k = 0; k < E.val.size(); ++k) VF_REQUIRE(bits_equal(F.val[k], E.val[k]), "expanded value " << k << " = " << VT<V>::show(F.val[k]) << " expected " << VT<V>::show(E.val[k]));
    Ranges rs = gen_ranges(t, E.n);
    for (auto &r : rs) {
        std::ostringstream w; w << "range read [" << r.first << "," << r.second << ") (symmetric)";
        SpRead<Idx, V> R = read_sp<Idx, V>(path, r.first, r.second);
        validate_sp(R, r.first, r.second, w.str());
        ptrdiff_t bb, ee; bounds(r.first, r.second, E.n, bb, ee);
        require_slice(F.ptr, F.col, F.val, R.ptr, R.col, R.val, bb, ee, w.str());
    }
}

template <class V>
void prop_rt_symmetric(Tape &t, Ctx &c) {
    Classes cl;
    int cls = static_cast<int>(t.u(0, 2));
    ptrdiff_t n = t.u(1, cls == 0 ? 3 : cls == 1 ? 6 : 14);
    // lower triangle (i >= j), unique positions
    std::map<std::pair<ptrdiff_t, ptrdiff_t>, V> L;
    int dens = static_cast<int>(t.u(0, 2));
    for (ptrdiff_t i = 0; i < n; ++i) {
        if (!t.chance(1, 4)) L[std::make_pair(i, i)] = VT<V>::gen(t, true, cl);
        ptrdiff_t k = t.u(0, dens == 0 ? 1 : dens == 1 ? 3 : i);
        for (ptrdiff_t a = 0; a < k && i > 0; ++a) { ptrdiff_t j = static_cast<ptrdiff_t>(t.pick(i)); L[std::make_pair(i, j)] = VT<V>::gen(t, true, cl); }
    }
    std::vector<std::pair<std::pair<ptrdiff_t, ptrdiff_t>, V>> ent(L.begin(), L.end());
    bool shuffled = t.chance(1, 2);
    if (shuffled) for (size_t a = ent.size(); a > 1; --a) std::swap(ent[a - 1], ent[t.pick(a)]);
    int style = static_cast<int>(t.u(0, 2));
    int ncomment = static_cast<int>(t.u(0, 2));
    std::ostringstream f;
    f << "%%MatrixMarket matrix coordinate " << (amgcl::is_complex<V>::value ? "complex" : std::is_integral<V>::value ? "integer" : "real") << " symmetric\n";
    for (int k = 0; k < ncomment; ++k) f << "% comment line " << k << " 9 9 9\n";
    f << n << " " << n << " " << ent.size() << "\n";
    for (auto &e : ent) f << e.first.first + 1 << " " << e.first.second + 1 << " " << fmt_val(e.second, style) << "\n";
    std::string path = scratch_file("sym.mtx");
    write_bytes(path, f.str());
    // explicit expansion
    std::vector<std::map<ptrdiff_t, V>> rows(n);
    size_t offdiag = 0;
    for (auto &e : L) { rows[e.first.first][e.first.second] = e.second; if (e.first.first != e.first.second) { rows[e.first.second][e.first.first] = e.second; ++offdiag; } }
    Csr<V> E = vf::from_triplets<V>(n, n, rows);
    bool idx32 = t.b();
    c.desc << "mm symmetric <" << VT<V>::name() << "> n=" << n << " stored=" << ent.size() << " offdiag=" << offdiag << (shuffled ? " shuffled" : " ordered") << " style=" << style << " comments=" << ncomment
           << " file=" << (f.str().size() <= 300 ? f.str() : std::string("(long)"));
    c.nontrivial = offdiag >= 1 && n >= 2;
    c.label(std::string("val:") + VT<V>::name());
    for (auto &s : cl) c.label(s);
    c.label(shuffled ? "sym:shuffled-entries" : "sym:ordered-entries");
    if (ncomment) c.label("sym:comment-lines");
    if (idx32) rt_symmetric_read<V, int>(t, path, E); else rt_symmetric_read<V, ptrdiff_t>(t, path, E);
}

// ------------------------------------------------------------------ binary CRS
template <class S, class P, class C, class V>
void prop_rt_bin_crs(Tape &t, Ctx &c) {
    Classes cl; bool sorted;
    Csr<V> A = gen_matrix<V>(t, false, sorted, cl);
    c.desc << "binary crs round trip <" << VT<V>::name() << ",size" << sizeof(S) << ",ptr" << sizeof(P) << "> " << vf::describe(A) << (sorted ? " sorted" : " unsorted") << " val=" << dump_vals(A.val);
    c.nontrivial = A.nnz() >= 2 && A.n >= 2;
    label_common(c, A, cl, sorted);
    if (A.nnz() == 0) c.label("bin:no-nonzeros");
    std::string path = scratch_file("rt.bin");
    write_bin_crs<S, P, C, V>(path, A);
    Csr<V> E = sorted ? A : vf::sorted_copy(A);
    std::vector<P> eptr(E.ptr.begin(), E.ptr.end()); std::vector<C> ecol(E.col.begin(), E.col.end());
    CrsRead<S, P, C, V> F = read_bc<S, P, C, V>(path);
    validate_bc(F, -1, -1, "full read_crs");
    VF_REQUIRE(static_cast<ptrdiff_t>(F.n) == A.n, "read_crs n=" << F.n << " written " << A.n);
    VF_REQUIRE(io::crs_size<S>(path) == static_cast<S>(A.n), "crs_size " << io::crs_size<S>(path) << " written " << A.n);
    VF_REQUIRE(F.ptr == eptr && F.col == ecol, "structure differs after the binary round trip");
    VF_REQUIRE(vec_bits_equal(F.val, E.val), "values differ after the binary round trip");
    Ranges rs = gen_ranges(t, A.n);
    for (auto &r : rs) {
        std::ostringstream w; w << "read_crs rows [" << r.first << "," << r.second << ")";
        CrsRead<S, P, C, V> R = read_bc<S, P, C, V>(path, r.first, r.second);
        VF_REQUIRE(static_cast<ptrdiff_t>(R.n) == A.n, w.str() << ": n=" << R.n);
        validate_bc(R, r.first, r.second, w.str());
        ptrdiff_t bb, ee; bounds(r.first, r.second, A.n, bb, ee);
        require_slice(F.ptr, F.col, F.val, R.ptr, R.col, R.val, bb, ee, w.str());
    }
}

// ------------------------------------------------------------------ binary dense
template <class S, class V>
void prop_rt_bin_dense(Tape &t, Ctx &c) {
    Classes cl;
    int cls = static_cast<int>(t.u(0, 2));
    size_t n = static_cast<size_t>(t.u(0, cls == 0 ? 3 : cls == 1 ? 8 : 40)), m = static_cast<size_t>(t.u(0, 4));
    if (m == 0 && !t.chance(1, 8)) m = 1;
    std::vector<V> v(n * m);
    for (auto &x : v) x = VT<V>::gen(t, false, cl);
    c.desc << "binary dense round trip <" << VT<V>::name() << "> " << n << "x" << m << " val=" << dump_vals(v);
    c.nontrivial = n >= 2 && m >= 1;
    c.label(std::string("val:") + VT<V>::name());
    for (auto &s : cl) c.label(s);
    if (v.empty()) c.label("bin:no-values");
    std::string path = scratch_file("rt.bin");
    write_bin_dense<S, V>(path, n, m, v);
    BdRead<S, V> F = read_bd<S, V>(path);
    validate_bd(F, -1, -1, "full read_dense");
    S dn, dm; io::dense_size(path, dn, dm);
    VF_REQUIRE(static_cast<size_t>(F.n) == n && static_cast<size_t>(F.m) == m && static_cast<size_t>(dn) == n && static_cast<size_t>(dm) == m, "sizes: read_dense " << F.n << "x" << F.m << " dense_size " << dn << "x" << dm << " written " << n << "x" << m);
    VF_REQUIRE(vec_bits_equal(F.val, v), "values differ after the binary round trip");
    Ranges rs = gen_ranges(t, static_cast<ptrdiff_t>(n));
    for (auto &r : rs) {
        std::ostringstream w; w << "read_dense rows [" << r.first << "," << r.second << ")";
        BdRead<S, V> R = read_bd<S, V>(path, r.first, r.second);
        VF_REQUIRE(static_cast<size_t>(R.n) == n && static_cast<size_t>(R.m) == m, w.str() << ": sizes " << R.n << "x" << R.m);
        validate_bd(R, r.first, r.second, w.str());
        ptrdiff_t bb, ee; bounds(r.first, r.second, static_cast<ptrdiff_t>(n), bb, ee);
        require_dense_slice(F.val, m, R.val, bb, ee, w.str());
    }
}

} // namespace c19
