// C17 — helpers: generic "this adapter describes the same operator as the source CSR" checks.
#pragma once
#include <algorithm>
#include <cstring>
#include <complex>
#include <string>
#include <vector>
#include <amgcl/backend/builtin.hpp>
#include "../common/harness.hpp"
#include "../common/gen.hpp"
#include "../common/dense.hpp"
#include "../common/amgcl_util.hpp"

namespace c17 {
using namespace vf;
namespace ab = amgcl::backend;
static const long double U = 1.1102230246251565404e-16L; // 2^-53

// Row-iterator protocol probe: three rows (not necessarily distinct) whose iterators are opened at once and advanced in an
// interleaved, tape-chosen order.  An adapter whose iterators share state (a common row buffer, a pointer into another
// iterator) shows a row that differs from the one a single pass sees.
struct Schedule {
    int k = 0;                           // number of simultaneously open iterators (0: no probe)
    ptrdiff_t rows[3] = {0, 0, 0};
    std::vector<unsigned char> order;    // which iterator to advance next (cyclic)
};
inline Schedule gen_schedule(Tape &t, ptrdiff_t nrows) {
    Schedule sc;
    if (nrows < 1) return sc;
    sc.k = 3;
    // word 0 -> rows 0,1,2 (distinct when they exist); otherwise any rows, repeats allowed
    bool consecutive = !t.b();
    for (int q = 0; q < 3; ++q) sc.rows[q] = consecutive ? std::min<ptrdiff_t>(q, nrows - 1) : static_cast<ptrdiff_t>(t.pick(static_cast<size_t>(nrows)));
    if (consecutive && nrows > 3) { ptrdiff_t off = static_cast<ptrdiff_t>(t.pick(static_cast<size_t>(nrows - 2))); for (int q = 0; q < 3; ++q) sc.rows[q] += off; }
    int len = static_cast<int>(t.u(1, 24));
    sc.order.resize(len);
    for (auto &o : sc.order) o = static_cast<unsigned char>(t.u(0, 2));
    return sc;
}

// Open sc.k iterators at once, advance them interleaved, return the (col, value) sequences each of them produced.
// Iterators are held in named locals: some adapters' iterators must not be copied or moved (guaranteed elision only).
template <class M, class Entry, class Get>
void walk_interleaved(const M &m, const Schedule &sc, std::vector<Entry> out[3], const Get &get) {
    auto i0 = ab::row_begin(m, sc.rows[0]);
    auto i1 = ab::row_begin(m, sc.rows[1]);
    auto i2 = ab::row_begin(m, sc.rows[2]);
    size_t step = 0;
    while (static_cast<bool>(i0) || static_cast<bool>(i1) || static_cast<bool>(i2)) {
        int p = sc.order[step++ % sc.order.size()];
        for (int tries = 0; tries < 3; ++tries, p = (p + 1) % 3) {
            if (p == 0 && static_cast<bool>(i0)) { out[0].push_back(get(i0)); ++i0; break; }
            if (p == 1 && static_cast<bool>(i1)) { out[1].push_back(get(i1)); ++i1; break; }
            if (p == 2 && static_cast<bool>(i2)) { out[2].push_back(get(i2)); ++i2; break; }
        }
    }
}

struct Source {
    Schedule sched;
    Csr<double> A;                       // the matrix as the user holds it (storage order matters)
    std::vector<double> x, y0;           // SpMV probe
    double alpha = 1, beta = 0;
    std::vector<long double> ref, S;     // alpha*A*x + beta*y0 and its absolute scale
    ptrdiff_t maxlen = 0;
    void finish() {
        ref.assign(A.n, 0); S.assign(A.n, 0); maxlen = 0;
        for (ptrdiff_t i = 0; i < A.n; ++i) {
            long double s = 0, a = 0;
            for (ptrdiff_t j = A.ptr[i]; j < A.ptr[i + 1]; ++j) { s += static_cast<long double>(A.val[j]) * x[A.col[j]]; a += std::abs(static_cast<long double>(A.val[j]) * x[A.col[j]]); }
            ref[i] = alpha * s + beta * static_cast<long double>(y0[i]);
            S[i] = std::abs(alpha) * a + std::abs(beta * static_cast<long double>(y0[i]));
            maxlen = std::max(maxlen, A.ptr[i + 1] - A.ptr[i]);
        }
    }
};

inline bool bits_equal(double a, double b) { return std::memcmp(&a, &b, sizeof a) == 0; }

// rows / cols / nonzeros / row iteration.  same_order: the adapter walks the user's arrays, so the sequence of (col,val)
// must be the stored one; otherwise (formats that sort on assembly) the multiset per row must agree.
template <class M>
void require_same_rows(const M &m, const Source &src, const std::string &what, bool exact_nnz, bool same_order) {
    const Csr<double> &A = src.A;
    VF_REQUIRE(static_cast<ptrdiff_t>(ab::rows(m)) == A.n, what << ": rows() = " << ab::rows(m) << ", source has " << A.n);
    VF_REQUIRE(static_cast<ptrdiff_t>(ab::cols(m)) == A.m, what << ": cols() = " << ab::cols(m) << ", source has " << A.m);
    if (exact_nnz) VF_REQUIRE(static_cast<ptrdiff_t>(ab::nonzeros(m)) == A.nnz(), what << ": nonzeros() = " << ab::nonzeros(m) << ", source has " << A.nnz());
    for (ptrdiff_t i = 0; i < A.n; ++i) {
        std::vector<std::pair<ptrdiff_t, double>> got, exp;
        for (auto a = ab::row_begin(m, i); a; ++a) got.push_back(std::make_pair(static_cast<ptrdiff_t>(a.col()), static_cast<double>(a.value())));
        for (ptrdiff_t j = A.ptr[i]; j < A.ptr[i + 1]; ++j) exp.push_back(std::make_pair(A.col[j], A.val[j]));
        VF_REQUIRE(got.size() == exp.size(), what << ": row " << i << " has " << got.size() << " entries, source has " << exp.size());
        if (!same_order) {
            auto lt = [](const std::pair<ptrdiff_t, double> &a, const std::pair<ptrdiff_t, double> &b) { return a.first < b.first || (a.first == b.first && a.second < b.second); };
            std::sort(got.begin(), got.end(), lt); std::sort(exp.begin(), exp.end(), lt);
        }
        for (size_t k = 0; k < got.size(); ++k)
            VF_REQUIRE(got[k].first == exp[k].first && bits_equal(got[k].second, exp[k].second), what << ": row " << i << " entry " << k << " is (" << got[k].first << "," << got[k].second
                       << "), source has (" << exp[k].first << "," << exp[k].second << ")");
    }
    // several iterators alive at once, advanced interleaved
    if (src.sched.k && A.n > 0) {
        typedef std::pair<ptrdiff_t, double> E;
        std::vector<E> got[3];
        walk_interleaved(m, src.sched, got, [](const typename std::decay<decltype(ab::row_begin(m, 0))>::type &a) { return E(static_cast<ptrdiff_t>(a.col()), static_cast<double>(a.value())); });
        for (int q = 0; q < 3; ++q) {
            ptrdiff_t i = src.sched.rows[q];
            std::vector<E> exp;
            for (ptrdiff_t j = A.ptr[i]; j < A.ptr[i + 1]; ++j) exp.push_back(E(A.col[j], A.val[j]));
            if (!same_order) {
                auto lt = [](const E &a, const E &b) { return a.first < b.first || (a.first == b.first && a.second < b.second); };
                std::sort(got[q].begin(), got[q].end(), lt); std::sort(exp.begin(), exp.end(), lt);
            }
            VF_REQUIRE(got[q].size() == exp.size(), what << ": with 3 row iterators open (rows " << src.sched.rows[0] << "," << src.sched.rows[1] << "," << src.sched.rows[2] << ") iterator " << q
                       << " yields " << got[q].size() << " entries for row " << i << ", the row has " << exp.size());
            for (size_t k = 0; k < exp.size(); ++k)
                VF_REQUIRE(got[q][k].first == exp[k].first && bits_equal(got[q][k].second, exp[k].second), what << ": with 3 row iterators open (rows " << src.sched.rows[0] << "," << src.sched.rows[1] << ","
                           << src.sched.rows[2] << ") iterator " << q << " on row " << i << " yields (" << got[q][k].first << "," << got[q][k].second << ") as entry " << k << ", the row has ("
                           << exp[k].first << "," << exp[k].second << ")");
        }
    }
}

inline void require_spmv_result(const std::vector<double> &y, const Source &src, const std::string &what) {
    long double c = 2 * (static_cast<long double>(src.maxlen) + 3);
    for (ptrdiff_t i = 0; i < src.A.n; ++i) {
        long double err = std::abs(static_cast<long double>(y[i]) - src.ref[i]);
        VF_REQUIRE(err <= c * U * src.S[i], what << ": SpMV row " << i << " = " << y[i] << ", reference " << static_cast<double>(src.ref[i]) << " |err| " << static_cast<double>(err)
                   << " bound " << static_cast<double>(c * U * src.S[i]));
    }
}

// SpMV directly on the adapter (only for types with builtin matrix ops)
template <class M>
void require_spmv(const M &m, const Source &src, const std::string &what) {
    std::vector<double> y = src.y0;
    ab::spmv(src.alpha, m, src.x, src.beta, y);
    require_spmv_result(y, src, what);
}

// the generic copy into the library's own CRS: well formed, same entries in the same order as the adapter lists them, same SpMV
template <class V, class C, class P, class M>
void require_copy(const M &m, const Source &src, const std::string &what, bool same_order) {
    ab::crs<V, C, P> K(m);
    require_wellformed(K, what + " -> crs copy");
    VF_REQUIRE(static_cast<ptrdiff_t>(K.nnz) == src.A.nnz(), what << " -> crs copy: nnz " << K.nnz << ", source has " << src.A.nnz());
    require_same_rows(K, src, what + " -> crs copy", true, same_order);
    require_spmv(K, src, what + " -> crs copy");
}

template <class M>
void require_operator(const M &m, const Source &src, const std::string &what, bool exact_nnz = true, bool same_order = true) {
    require_same_rows(m, src, what, exact_nnz, same_order);
    require_spmv(m, src, what);
    require_copy<double, ptrdiff_t, ptrdiff_t>(m, src, what, same_order);
}

template <class T> std::vector<T> conv(const std::vector<ptrdiff_t> &v) { return std::vector<T>(v.begin(), v.end()); }

// is some row (>= minlen entries) stored out of ascending column order?
template <class V>
bool has_unsorted_row(const Csr<V> &A, ptrdiff_t minlen = 3) {
    for (ptrdiff_t i = 0; i < A.n; ++i) {
        if (A.ptr[i + 1] - A.ptr[i] < minlen) continue;
        for (ptrdiff_t j = A.ptr[i] + 1; j < A.ptr[i + 1]; ++j) if (A.col[j - 1] > A.col[j]) return true;
    }
    return false;
}

inline std::string size_bucket(ptrdiff_t n) { return n <= 8 ? "n<=8" : n <= 40 ? "n<=40" : n <= 150 ? "n<=150" : n <= 600 ? "n<=600" : "n>600"; }

// recursively updated residual vs true residual: same allowance as in C13 (see props/c13_common.hpp)
inline long double drift_allowance(const Csr<double> &A, const std::vector<double> &f, const std::vector<double> &x, size_t iters) {
    long double an = 0, xn = 0, fn = 0; ptrdiff_t m = 0;
    for (ptrdiff_t i = 0; i < A.n; ++i) { long double s = 0; for (ptrdiff_t j = A.ptr[i]; j < A.ptr[i + 1]; ++j) s += std::abs(A.val[j]); an = std::max(an, s); m = std::max(m, A.ptr[i + 1] - A.ptr[i]); }
    for (auto &v : x) xn = std::max<long double>(xn, std::abs(v));
    for (auto &v : f) fn += static_cast<long double>(v) * v;
    fn = std::sqrt(fn);
    if (fn == 0) return 0;
    return 8 * (m + 4) * static_cast<long double>(iters + 1) * U * an * xn * std::sqrt(static_cast<long double>(A.n)) / fn;
}

} // namespace c17
