// Shared by the C01 harnesses (truthful convergence): solver configurations for the runtime interface, matrix
// families beyond vf::gen_mmat (upwind convection, model-problem graphs of a prescribed size), condition numbers,
// and the truthfulness oracle.
#pragma once
#include "c02_common.hpp"
#include <amgcl/make_solver.hpp>
#include <amgcl/solver/runtime.hpp>
#include <amgcl/preconditioner/runtime.hpp>
#include <amgcl/relaxation/as_preconditioner.hpp>

namespace c01 {

using vf::Tape;
using vf::Csr;
using c02::ptree;
using c02::U;

enum Solver { CG = 0, BICGSTAB = 1, BICGSTABL = 2, GMRES = 3, LGMRES = 4, FGMRES = 5, IDRS = 6, RICHARDSON = 7 };
static const char *solver_name[] = {"cg", "bicgstab", "bicgstabl", "gmres", "lgmres", "fgmres", "idrs", "richardson"};

struct SolverCfg {
    int type = CG;
    bool defaults = false;  // write only the type (and pside when left)
    bool left = false;      // only meaningful when has_pside()
    unsigned maxiter = 100; double tol = 1e-8;
    unsigned M = 30, K = 3; bool always_reset = true;
    int L = 2; double delta = 0; bool convex = true;
    unsigned s = 4; double omega = 0.7; bool smoothing = false, replacement = false;
    bool check_after = false;
    double damping = 1.0;
    bool has_pside() const { return type == BICGSTAB || type == BICGSTABL || type == GMRES || type == LGMRES; }
    bool is_left() const { return has_pside() && left; }
    unsigned iter_bound() const { return type == BICGSTABL ? maxiter + static_cast<unsigned>(L) - 1 : maxiter; }
    void put(ptree &p, const std::string &pfx) const {
        std::string d = pfx.empty() ? "" : pfx + ".";
        p.put(d + "type", solver_name[type]);
        if (has_pside() && left) p.put(d + "pside", "left");
        if (defaults) return;
        p.put(d + "maxiter", maxiter); p.put(d + "tol", tol);
        switch (type) {
        case BICGSTAB: p.put(d + "check_after", check_after); break;
        case BICGSTABL: p.put(d + "L", L); p.put(d + "delta", delta); p.put(d + "convex", convex); break;
        case GMRES: case FGMRES: p.put(d + "M", M); break;
        case LGMRES: p.put(d + "M", M); p.put(d + "K", K); p.put(d + "always_reset", always_reset); break;
        case IDRS: p.put(d + "s", s); p.put(d + "omega", omega); p.put(d + "smoothing", smoothing); p.put(d + "replacement", replacement); break;
        case RICHARDSON: p.put(d + "damping", damping); break;
        default: break;
        }
    }
    std::string str() const {
        std::ostringstream os; os << solver_name[type];
        if (has_pside()) os << (left ? "/left" : "/right");
        if (defaults) { os << " (defaults)"; return os.str(); }
        os << " maxiter=" << maxiter << " tol=" << tol;
        switch (type) {
        case BICGSTAB: os << " check_after=" << check_after; break;
        case BICGSTABL: os << " L=" << L << " delta=" << delta << " convex=" << convex; break;
        case GMRES: case FGMRES: os << " M=" << M; break;
        case LGMRES: os << " M=" << M << " K=" << K << " always_reset=" << always_reset; break;
        case IDRS: os << " s=" << s << " omega=" << omega << " smoothing=" << smoothing << " replacement=" << replacement; break;
        case RICHARDSON: os << " damping=" << damping; break;
        default: break;
        }
        return os.str();
    }
};

// method parameters inside their documented ranges (L >= 1, s <= n, M >= 1); tolerance and budget are set by the caller
inline void gen_solver_params(Tape &t, SolverCfg &c, ptrdiff_t n) {
    c.M = t.chance(1, 2) ? static_cast<unsigned>(t.u(1, 40)) : 30;
    c.K = t.chance(1, 2) ? static_cast<unsigned>(t.u(0, 4)) : 3;
    c.always_reset = !t.chance(1, 4);
    c.L = t.chance(1, 2) ? static_cast<int>(t.u(1, 4)) : 2;
    static const double dl[] = {0, 1e-2, 1e-1, 1e-4};
    c.delta = dl[t.pick(4)]; c.convex = !t.chance(1, 3);
    c.s = static_cast<unsigned>(std::min<ptrdiff_t>(n, t.chance(1, 2) ? t.u(1, 8) : 4));
    static const double om[] = {0.7, 0, 0.5, 0.9};
    c.omega = om[t.pick(4)]; c.smoothing = t.chance(1, 3); c.replacement = t.chance(1, 3);
    c.check_after = t.chance(1, 3);
    static const double dm[] = {1.0, 0.8, 0.5};
    c.damping = dm[t.pick(3)];
}

// ---------------------------------------------------------------- matrices
// first-order upwind convection on top of an M-matrix: for every edge a flow direction and a Peclet-like strength
// pe in [0, pe_max] relative to the edge weight |a_ij|; the downstream row gets  +pe|a_ij| on the diagonal and -pe|a_ij|
// towards the upstream node.  Off-diagonals stay <= 0 and every row sum is unchanged: still a row diagonally dominant
// non-singular M-matrix, but no longer symmetric.
inline Csr<double> add_convection(Tape &t, const Csr<double> &A, double pe_max, double *pe_out = nullptr) {
    Csr<double> B = A;
    double pe = t.uni(0.1, pe_max);
    std::vector<ptrdiff_t> diag(A.n, -1);
    for (ptrdiff_t i = 0; i < A.n; ++i) for (ptrdiff_t j = A.ptr[i]; j < A.ptr[i + 1]; ++j) if (A.col[j] == i) diag[i] = j;
    int mode = static_cast<int>(t.u(0, 1)); // 0: flow from lower to higher index, 1: random direction per edge
    for (ptrdiff_t i = 0; i < A.n; ++i) for (ptrdiff_t j = A.ptr[i]; j < A.ptr[i + 1]; ++j) {
        ptrdiff_t c = A.col[j];
        if (c >= i) continue; // each edge once, seen from the higher index i (entry a_ic, c < i)
        bool up_is_c = mode == 0 ? true : t.b();
        double w = pe * std::abs(A.val[j]);
        if (up_is_c) { B.val[j] -= w; B.val[diag[i]] += w; }               // row i is downstream of c
        else { // row c is downstream of i: modify a_ci and a_cc
            for (ptrdiff_t k = A.ptr[c]; k < A.ptr[c + 1]; ++k) if (A.col[k] == i) { B.val[k] -= w; B.val[diag[c]] += w; }
        }
    }
    if (pe_out) *pe_out = pe;
    return B;
}

// Model-problem graphs of sub-domain M with n inside (nlo, nhi]: 0 grid2 (5-point), 1 grid2x9 (9-point), 2 grid3 (7-point),
// 3 bounded-degree random graph (ring + random chords: connected, degree >= 2, expected degree d in [3,6]).
// Grids have at least 8 points per axis: a genuinely 2-D/3-D problem, no chains.
inline vf::Graph gen_model_graph(Tape &t, int nlo, int nhi) {
    vf::Graph g; std::set<std::pair<int, int>> E; std::map<std::pair<int, int>, int> ax;
    int fam = static_cast<int>(t.u(0, 3));
    auto grid = [&](int nx, int ny, int nz, bool diag) {
        g.n = nx * ny * nz;
        auto id = [&](int i, int j, int k) { return (k * ny + j) * nx + i; };
        for (int k = 0; k < nz; ++k) for (int j = 0; j < ny; ++j) for (int i = 0; i < nx; ++i) {
            if (i + 1 < nx) vf::add_edge(E, id(i, j, k), id(i + 1, j, k));
            if (j + 1 < ny) vf::add_edge(E, id(i, j, k), id(i, j + 1, k));
            if (k + 1 < nz) vf::add_edge(E, id(i, j, k), id(i, j, k + 1));
            if (diag && i + 1 < nx && j + 1 < ny) { vf::add_edge(E, id(i, j, k), id(i + 1, j + 1, k)); vf::add_edge(E, id(i + 1, j, k), id(i, j + 1, k)); }
        }
    };
    int n = static_cast<int>(t.u(nlo + 1, nhi));
    switch (fam) {
    case 0: case 1: {
        g.family = fam == 0 ? "grid2" : "grid2x9";
        int s = static_cast<int>(std::floor(std::sqrt(static_cast<double>(n))));
        int nx = std::max(8, static_cast<int>(t.u(std::max(8, s / 2), s))); int ny = std::max(8, n / nx);
        while (nx * ny <= nlo) ++ny;
        grid(nx, ny, 1, fam == 1); break; }
    case 2: {
        g.family = "grid3";
        int s = static_cast<int>(std::floor(std::cbrt(static_cast<double>(n))));
        int nx = std::max(8, static_cast<int>(t.u(std::max(8, (2 * s) / 3), s))), ny = std::max(8, static_cast<int>(t.u(std::max(8, (2 * s) / 3), s)));
        int nz = std::max(8, n / (nx * ny));
        while (nx * ny * nz <= nlo) ++nz;
        grid(nx, ny, nz, false); break; }
    default: {
        g.family = "randgraph"; g.n = n;
        int deg = static_cast<int>(t.u(3, 6));
        for (int i = 0; i < n; ++i) vf::add_edge(E, i, (i + 1) % n);
        long chords = static_cast<long>(n) * (deg - 2) / 2;
        for (long e = 0; e < chords; ++e) vf::add_edge(E, static_cast<int>(t.pick(n)), static_cast<int>(t.pick(n)));
        break; }
    }
    g.edges.assign(E.begin(), E.end());
    g.axis.assign(g.edges.size(), -1);
    return g;
}

// ---------------------------------------------------------------- conditioning
// kappa_1(A) = ||A||_1 ||A^-1||_1 densely (n <= a few hundred)
inline double kappa1_dense(const Csr<double> &A) {
    c02::Mat E = c02::to_eigen(A);
    Eigen::PartialPivLU<c02::Mat> lu(E);
    c02::Mat Ai = lu.inverse();
    return E.cwiseAbs().colwise().sum().maxCoeff() * Ai.cwiseAbs().colwise().sum().maxCoeff();
}

// Certified upper bound of kappa_inf(A) for a non-singular M-matrix (A^-1 >= 0 entrywise): for any z > 0 with
// A z >= theta > 0 componentwise,  ||A^-1||_inf = max_i (A^-1 1)_i <= max_i z_i / theta.  z comes from an (untrusted)
// approximate solve; the two inequalities are verified here in long double, so the bound does not depend on the solver.
// Returns 0 when z does not certify anything.
inline double kappa_inf_certified(const Csr<double> &A, const std::vector<double> &z) {
    long double theta = 1e300L, zmax = 0, anorm = 0;
    for (ptrdiff_t i = 0; i < A.n; ++i) {
        if (!(z[i] > 0) || !std::isfinite(z[i])) return 0;
        long double s = 0, rs = 0;
        for (ptrdiff_t j = A.ptr[i]; j < A.ptr[i + 1]; ++j) { s += static_cast<long double>(A.val[j]) * z[A.col[j]]; rs += std::abs(static_cast<long double>(A.val[j])); }
        theta = std::min(theta, s); zmax = std::max<long double>(zmax, z[i]); anorm = std::max(anorm, rs);
    }
    if (!(theta > 0)) return 0;
    return static_cast<double>(anorm * zmax / theta);
}

// Numerical grade of (M, v): the first j for which the Arnoldi process started with v produces a sub-diagonal entry
// h_{j+1,j} <= tau * max_k h_{k+1,k}, i.e. the Krylov space K_j(M, v) is M-invariant up to tau; maxsteps + 1 if that does not
// happen within maxsteps steps.  Modified Gram-Schmidt with one re-orthogonalisation; dense, for the small systems of sub-domain T.
template <class MatT, class VecT> size_t numerical_grade(const MatT &M, VecT v, size_t maxsteps, double tau) {
    const ptrdiff_t n = M.rows();
    double nv = v.norm(); if (!(nv > 0) || !std::isfinite(nv)) return 0;
    std::vector<VecT> Q; Q.push_back(v / nv);
    double hmax = 0;
    for (size_t j = 1; j <= maxsteps && static_cast<ptrdiff_t>(j) <= n; ++j) {
        VecT w = M * Q.back();
        for (int pass = 0; pass < 2; ++pass) for (auto &q : Q) w -= q * q.dot(w);
        double h = w.norm();
        if (!std::isfinite(h)) return j;
        if (h <= tau * hmax || h == 0) return j;
        hmax = std::max(hmax, h);
        Q.push_back(w / h);
    }
    return static_cast<ptrdiff_t>(maxsteps) >= n ? static_cast<size_t>(n) : maxsteps + 1;
}

// ---------------------------------------------------------------- oracle pieces
template <class V> struct Res { long double rel = 0; std::vector<V> r; };
// r = f - A x in long double, rounded to working precision for a subsequent precond().apply; rel = ||r||_2/||f||_2
inline Res<double> residual_ld(const Csr<double> &A, const std::vector<double> &f, const std::vector<double> &x) {
    Res<double> o; o.r.resize(A.n); long double rr = 0, ff = 0;
    for (ptrdiff_t i = 0; i < A.n; ++i) {
        long double s = f[i];
        for (ptrdiff_t j = A.ptr[i]; j < A.ptr[i + 1]; ++j) s -= static_cast<long double>(A.val[j]) * x[A.col[j]];
        o.r[i] = static_cast<double>(s); rr += s * s; ff += static_cast<long double>(f[i]) * f[i];
    }
    o.rel = ff > 0 ? std::sqrt(rr / ff) : std::sqrt(rr);
    return o;
}

inline bool finite_vec(const std::vector<double> &x) { for (double v : x) if (!std::isfinite(v)) return false; return true; }

} // namespace c01
