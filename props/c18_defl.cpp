// C18 (part 3) — deflated_solver.
//
// project() leaves Z^T (b - A x) = 0 within a stated first-order rounding bound and moves x only inside span(Z);
// apply() = precond().apply followed by project() (bitwise); operator()(f,x) and operator()(A,f,x) return a solution whose
// true residual w.r.t. the ORIGINAL system (long double) is the reported one up to the residual gap of the Krylov recurrences.
// Preconditioners: a known linear map / scaled identity (vf18::inner) and a real amg.
// Calibration aid: with VF_C18_CALIB=1 the projection-bound assertions only record the worst defect/bound ratio (printed at exit);
// never set by bin/check.
#include <amgcl/backend/builtin.hpp>
#include <amgcl/adapter/crs_tuple.hpp>
#include <amgcl/deflated_solver.hpp>
#include <amgcl/amg.hpp>
#include <amgcl/coarsening/smoothed_aggregation.hpp>
#include <amgcl/relaxation/spai0.hpp>
#include <amgcl/solver/runtime.hpp>
#include "c18_common.hpp"

using namespace vf18;
typedef amgcl::backend::builtin<double> BK;

// ------------------------------------------------------------------ deflated solver
typedef amgcl::amg<BK, amgcl::coarsening::smoothed_aggregation, amgcl::relaxation::spai0> DAmg;
typedef amgcl::runtime::solver::wrapper<BK> DSolver;

struct DeflCase {
    ptrdiff_t n = 0; int k = 1;
    Csr<double> A; LD dA;
    std::vector<double> Z; // [k x n]
    std::string family; int zmode = 0;
    int nonsym = 0; // 0 symmetric (SPD M-matrix), 1 M + skew convection, 2 M + skew convection + diagonal lift
    std::string solver; double tol = 1e-8;
};

static DeflCase gen_defl(Tape &t) {
    DeflCase d;
    Graph g = gen_graph(t, 40, 0, 8);
    d.family = g.family;
    d.A = gen_mmat(t, g, 100.0, true);
    d.n = g.n; d.dA = to_dense<ld>(d.A);
    d.k = static_cast<int>(t.u(1, std::min<ptrdiff_t>(5, d.n)));
    d.zmode = static_cast<int>(t.u(0, 2));
    d.Z.assign(static_cast<size_t>(d.k) * d.n, 0.0);
    // contiguous chunks; the first index of chunk j is its anchor row: Z(anchor_j, j) = 1, |Z(anchor_j, l)| <= 0.2 for l != j  => full rank
    std::vector<ptrdiff_t> start(d.k + 1);
    for (int j = 0; j <= d.k; ++j) start[j] = d.n * j / d.k;
    for (int j = 0; j < d.k; ++j) for (ptrdiff_t i = start[j]; i < start[j + 1]; ++i) d.Z[j * d.n + i] = d.zmode == 2 ? static_cast<double>(1 + (i - start[j]) % 3) : 1.0;
    if (d.zmode == 1) for (int j = 0; j < d.k; ++j) for (ptrdiff_t i = 0; i < d.n; ++i) {
        bool anchor_own = i == start[j];
        if (!anchor_own) d.Z[j * d.n + i] += t.uni(-0.2, 0.2);
    }
    static const char *sv[] = {"cg", "fgmres", "gmres", "bicgstab", "lgmres", "idrs", "bicgstabl"};
    d.solver = sv[t.u(0, 6)];
    static const double tols[] = {1e-8, 1e-6, 1e-10, 1e-4};
    d.tol = tols[t.u(0, 3)];
    // non-symmetric variants (convection-diffusion style): A = M + S (+ D) with S skew-symmetric (central convection,
    // s_ij = -s_ji = c_e) and optionally D >= 0 diagonal (upwind-like lift).  The symmetric part stays the SPD matrix M (+ D), so
    // x^T A x > 0: A is nonsingular and Z^T A Z is nonsingular (and non-symmetric) for every full-rank Z.
    d.nonsym = static_cast<int>(t.u(0, 2));
    if (d.nonsym) {
        std::vector<std::map<ptrdiff_t, double>> rows(d.n);
        for (ptrdiff_t i = 0; i < d.n; ++i) for (ptrdiff_t j = d.A.ptr[i]; j < d.A.ptr[i + 1]; ++j) rows[i][d.A.col[j]] = d.A.val[j];
        double pe = t.logu(0.1, 3.0);
        for (auto &e : g.edges) {
            double c = pe * std::abs(rows[e.first][e.second]) * t.uni(0.2, 1.0);
            if (t.b()) c = -c;
            rows[e.first][e.second] += c; rows[e.second][e.first] -= c;
            if (d.nonsym == 2) { rows[e.first][e.first] += std::abs(c); rows[e.second][e.second] += std::abs(c); }
        }
        d.A = from_triplets<double>(d.n, d.n, rows);
        d.dA = to_dense<ld>(d.A);
    }
    return d;
}

// |Z^T (b - A x')| after x' = x0 + Z E^-1 Z^T (b - A x0) evaluated in double: first-order bound, see the comments
// xb (optional): componentwise bound for x1 itself against the dense x0 + Z E^-1 Z^T (b - A x0).  The computed correction is
// Z d_c with d_c = fl(E_c^-1 fl(Z^T fl(b - A x0))), so its error is |Z| dd with
//   dd = |E^-1| (|Z|^T dr + dg) + |E^-1| dE |E^-1| |g| + (k+2) u |E^-1| |g|,   dr = (n+2) u (|b| + |A||x0|),
// i.e. of order u (|x0| + |Z||E^-1||Z|^T (|b| + |A||x0|)) — NOT u |result|: when Z^T (b - A x0) vanishes (or x0 + Z d cancels)
// the rounding of the residual still passes through E^-1.  Plus the rounding of the linear combination itself.
static LV project_bound(const DeflCase &d, const LV &b, const LV &x0, const LV &x1, LV *xb = nullptr) {
    const ptrdiff_t n = d.n; const int k = d.k;
    LD Z(n, k); for (int j = 0; j < k; ++j) for (ptrdiff_t i = 0; i < n; ++i) Z(i, j) = d.Z[j * n + i];
    LD Zt = transposed(Z), aZ = absm(Z), aZt = absm(Zt), aA = absm(d.dA);
    LD E = matmul(Zt, matmul(d.dA, Z));
    bool ok; LD Ei = inverse(E, ok);
    VF_REQUIRE(ok, "generator: Z^T A Z singular");
    LD aE = absm(E), aEi = absm(Ei);
    const ld g = static_cast<ld>(n + 2) * U;
    LV r0 = subv(b, matvec(d.dA, x0));
    LV dr = scalev(g, addv(absv(b), matvec(aA, absv(x0))));               // residual in double
    LV gq = matvec(Zt, r0);
    LV dg = addv(scalev(g, matvec(aZt, absv(r0))), matvec(aZt, dr));       // inner products
    // E is assembled in double (|dE| <= 2 g |Z|^T|A||Z|) and inverted by LU with partial pivoting followed by triangular solves
    // with the unit vectors: every column of the computed inverse solves (E + dE_j) x_j = e_j with |dE_j| <= gamma_{3k} P^T |L||U|
    // (Higham, ASNA Thm 9.4).  |L||U| is NOT bounded by a multiple of |E| entry by entry (zero or cancelling entries of E), which is
    // what the first version of this bound assumed; it is formed here from a long-double LU with the same pivoting rule.
    LD LU = E; std::vector<ptrdiff_t> perm(k);
    for (int i = 0; i < k; ++i) perm[i] = i;
    for (int c0 = 0; c0 < k; ++c0) {
        int pv = c0; for (int i = c0 + 1; i < k; ++i) if (std::abs(LU(perm[i], c0)) > std::abs(LU(perm[pv], c0))) pv = i;
        std::swap(perm[c0], perm[pv]);
        for (int i = c0 + 1; i < k; ++i) { ld f = LU(perm[i], c0) / LU(perm[c0], c0); LU(perm[i], c0) = f; for (int j = c0 + 1; j < k; ++j) LU(perm[i], j) -= f * LU(perm[c0], j); }
    }
    LD aLU(k, k); // P^T |L||U|, rows back in the original order
    for (int i = 0; i < k; ++i) for (int j = 0; j < k; ++j) { ld sum = 0; for (int m = 0; m <= std::min(i, j); ++m) sum += (m == i ? 1 : std::abs(LU(perm[i], m))) * std::abs(LU(perm[m], j)); aLU(perm[i], j) = sum; }
    LD dE = addm(scalem(2 * g, matmul(aZt, matmul(aA, aZ))), scalem(3 * k * U / (1 - 3 * k * U), aLU));
    LV dd = addv(addv(matvec(aEi, dg), matvec(aEi, matvec(dE, matvec(aEi, absv(gq))))), scalev((k + 2) * U, matvec(aEi, absv(gq))));
    LV dx = scalev((k + 3) * U, addv(absv(x0), addv(absv(x1), matvec(aZ, matvec(aEi, absv(gq))))));
    LV bd = addv(matvec(aE, dd), matvec(aZt, matvec(aA, dx)));
    if (xb) {
        LV e = addv(matvec(aZ, dd), dx);
        // the long-double reference itself (explicit inverse of E): normwise floor
        ld eref = 16 * static_cast<ld>(k) * std::ldexp(1.0L, -64) * norminf(Ei) * norminf(E) * norminf(matvec(aZ, matvec(aEi, absv(gq))));
        for (auto &v : e) v = 4 * (v + eref);
        *xb = e;
    }
    // evaluation of the tested quantity itself is done in long double
    return scalev(4, bd);
}

static void prop_deflated(Tape &t, Ctx &c);
static double g_worst = 0, g_worst_x = 0; // calibration aid: worst |z^T r| / bound seen by this process (VF_C18_CALIB=1 prints it)
struct CalibPrinter { ~CalibPrinter() { if (getenv("VF_C18_CALIB")) fprintf(stderr, "worst projection defect/bound %.4g, x/bound %.4g\n", g_worst, g_worst_x); } } g_calib_printer;

static std::vector<Prop> props() {
    return {
        Prop("deflated", prop_deflated, 600, 40000, 100, 12, {1}, 2, 8),
    };
}
static std::vector<Enum> enums() { return {}; }

template <class Obj>
static void deflated_checks(Tape &t, Ctx &c, const DeflCase &d, const Obj &S, const std::function<double(const std::vector<double> &, ptrdiff_t)> &precond_ref) {
    const ptrdiff_t n = d.n; const int k = d.k;
    auto ztr = [&](const LV &b, const LV &x) { LV r = subv(b, matvec(d.dA, x)); LV q(k, 0); for (int j = 0; j < k; ++j) for (ptrdiff_t i = 0; i < n; ++i) q[j] += static_cast<ld>(d.Z[j * n + i]) * r[i]; return q; };
    // ---- project
    {
        std::vector<double> b = gen_vec(t, n, static_cast<int>(t.u(1, 3))), x0 = gen_vec(t, n, static_cast<int>(t.u(1, 3)));
        if (t.chance(1, 4)) std::fill(x0.begin(), x0.end(), 0.0);
        amgcl::backend::numa_vector<double> B(b), X(x0);
        S.project(B, X);
        std::vector<double> x1(X.data(), X.data() + n);
        LV xbnd;
        LV q = ztr(tolv(b), tolv(x1)), bd = project_bound(d, tolv(b), tolv(x0), tolv(x1), &xbnd);
        for (int j = 0; j < k; ++j) if (bd[j] > 0) g_worst = std::max(g_worst, static_cast<double>(std::abs(q[j]) / bd[j]));
        for (int j = 0; j < k; ++j)
            VF_REQUIRE(getenv("VF_C18_CALIB") || std::abs(q[j]) <= bd[j], "project: z_" << j << "^T (b - A x) = " << static_cast<double>(q[j]) << " after projection (bound " << static_cast<double>(bd[j]) << "), before: " << static_cast<double>(ztr(tolv(b), tolv(x0))[j]));
        // the projection changes x only inside span(Z): x1 - x0 = Z d with d = E^-1 Z^T r0 (checked through the dense formula)
        LD Z(n, k); for (int j = 0; j < k; ++j) for (ptrdiff_t i = 0; i < n; ++i) Z(i, j) = d.Z[j * n + i];
        bool ok; LD Ei = inverse(matmul(transposed(Z), matmul(d.dA, Z)), ok);
        LV dref = matvec(Ei, ztr(tolv(b), tolv(x0)));
        LV xr = addv(tolv(x0), matvec(Z, dref));
        for (ptrdiff_t i = 0; i < n; ++i) {
            ld err = std::abs(static_cast<ld>(x1[i]) - xr[i]);
            if (xbnd[i] > 0) g_worst_x = std::max(g_worst_x, static_cast<double>(err / xbnd[i]));
            VF_REQUIRE(getenv("VF_C18_CALIB") || err <= xbnd[i], "project: x[" << i << "] = " << x1[i] << ", x0 + Z E^-1 Z^T (b - A x0) = " << static_cast<double>(xr[i]) << " (|diff| " << static_cast<double>(err) << " > bound " << static_cast<double>(xbnd[i]) << ")");
        }
    }
    // ---- apply = precondition, then project
    {
        std::vector<double> b = gen_vec(t, n, static_cast<int>(t.u(1, 3)));
        amgcl::backend::numa_vector<double> B(b), X(n), X0(n);
        for (ptrdiff_t i = 0; i < n; ++i) X[i] = X0[i] = std::nan("");
        S.apply(B, X);
        S.precond().apply(B, X0);
        std::vector<double> x1(X.data(), X.data() + n), x0(X0.data(), X0.data() + n);
        if (precond_ref) for (ptrdiff_t i = 0; i < n; ++i) VF_REQUIRE(x0[i] == precond_ref(b, i), "precond().apply is not the preconditioner handed in");
        LV q = ztr(tolv(b), tolv(x1)), bd = project_bound(d, tolv(b), tolv(x0), tolv(x1));
        for (int j = 0; j < k; ++j) if (bd[j] > 0) g_worst = std::max(g_worst, static_cast<double>(std::abs(q[j]) / bd[j]));
        for (int j = 0; j < k; ++j)
            VF_REQUIRE(getenv("VF_C18_CALIB") || std::abs(q[j]) <= bd[j], "apply: z_" << j << "^T (b - A x) = " << static_cast<double>(q[j]) << " (bound " << static_cast<double>(bd[j]) << ")");
        // and it equals project(precond(b)) bitwise
        amgcl::backend::numa_vector<double> X2(x0);
        S.project(B, X2);
        VF_REQUIRE(memcmp(X2.data(), x1.data(), n * sizeof(double)) == 0, "apply(b) != project(b, precond(b))");
    }
    // ---- solve: the answer solves the ORIGINAL system with the reported residual
    for (int variant = 0; variant < 2; ++variant) {
        std::vector<double> f = gen_vec(t, n, static_cast<int>(t.u(1, 3)));
        ld nf = 0; for (double v : f) nf += static_cast<ld>(v) * v; nf = std::sqrt(nf);
        if (!(nf > 1e-10)) { f[0] = 1.0; nf = 0; for (double v : f) nf += static_cast<ld>(v) * v; nf = std::sqrt(nf); }
        std::vector<double> x0 = t.b() ? std::vector<double>(n, 0.0) : gen_vec(t, n, 2);
        amgcl::backend::numa_vector<double> F(f), X(x0);
        size_t iters; double resid;
        try {
            if (variant == 0) std::tie(iters, resid) = S(F, X);
            else std::tie(iters, resid) = S(std::tie(d.n, d.A.ptr, d.A.col, d.A.val), F, X);
        } catch (const std::runtime_error &e) { // documented breakdown exits of the BiCG-type methods (non-symmetric systems)
            // An exact breakdown (zero rho / sigma / omega, IDR(s) zero M[k,k]) reported by an exception is a clean, documented outcome of
            // the BiCG-type methods on any system (C13/C17 accept it as well); C18 claims nothing about a solve that did not return.
            // cg and the gmres family have no such exit: an exception from them is a failure.
            VF_REQUIRE(d.solver == "bicgstab" || d.solver == "bicgstabl" || d.solver == "idrs", d.solver << " threw on a " << (d.nonsym ? "non-symmetric" : "SPD") << " system: " << e.what());
            c.label(std::string("solve:threw:") + e.what());
            continue;
        }
        std::vector<double> x(X.data(), X.data() + n);
        long double tr = true_relres(d.A, f, x);
        // residual gap of recurrence-updated residuals: c u (iters+1) n (||A|| max||x_k|| + ||f||)/||f||; the iterates of the
        // SPD / M-matrix systems generated here stay within ||x0|| + ||x|| + ||A^-1 f||
        bool ok; LD Ai = inverse(d.dA, ok);
        ld xs = norminf(tolv(x)) + norminf(tolv(x0)) + norminf(matvec(Ai, tolv(f)));
        ld gap = 16 * U * static_cast<ld>(iters + 2) * static_cast<ld>(n) * (norminf(d.dA) * xs + norminf(tolv(f))) * std::sqrt(static_cast<ld>(n)) / nf;
        bool cg_nonsym = d.solver == "cg" && d.nonsym; // CG is not defined for non-symmetric systems: may diverge, nothing is claimed
        if (!d.nonsym || (d.solver == "gmres" || d.solver == "fgmres" || d.solver == "lgmres"))
            VF_REQUIRE(std::isfinite(resid), d.solver << ": non-finite residual reported on a positive definite system");
        // "returns the solution of the original system": the true residual on the ORIGINAL system is what the solver claims.
        //  * gmres, fgmres, lgmres recompute the residual before they return: held to the reported value on both sides;
        //  * cg updates the residual by recurrence; its iterates are bounded through the monotone energy norm of the error,
        //    max_k ||x_k|| <= ||x*|| + sqrt(kappa) ||x0 - x*||, so the gap above is widened by sqrt(kappa_inf(A)) and the claim is
        //    one-sided: true residual <= max(tol, reported) + gap;
        //  * bicgstab, bicgstabl, idrs: the residual gap depends on unobservable peaks of the intermediate iterates (IDR(s) was seen
        //    to report 8.6e-9 at a true 2.4e-8 with tol 1e-8 on a well conditioned system); that drift is a property of the Krylov
        //    method, with or without deflation, and is C01's subject.  Counted, not asserted here.
        bool recomputed = d.solver == "gmres" || d.solver == "fgmres" || d.solver == "lgmres";
        if (recomputed)
            VF_REQUIRE(std::abs(tr - static_cast<ld>(resid)) <= gap + 1e-3L * static_cast<ld>(resid),
                       d.solver << (variant ? " (A,f,x)" : " (f,x)") << ": reported relative residual " << resid << " but ||f - A x||/||f|| = " << static_cast<double>(tr) << " on the original system (iters " << iters << ", allowed gap " << static_cast<double>(gap) << ")");
        else if (d.solver == "cg" && !cg_nonsym) {
            ld gcg = gap * std::sqrt(norminf(Ai) * norminf(d.dA));
            VF_REQUIRE(tr <= std::max<ld>(resid, d.tol) * (1 + 1e-3L) + gcg,
                       d.solver << (variant ? " (A,f,x)" : " (f,x)") << ": reported relative residual " << resid << " (tol " << d.tol << ") but ||f - A x||/||f|| = " << static_cast<double>(tr) << " on the original system (iters " << iters << ", allowed gap " << static_cast<double>(gcg) << ")");
        } else c.label("solve:recurrence-residual(not asserted)");
        if (resid <= d.tol) c.label("solve:converged"); else c.label("solve:not-converged");
    }
}

static void prop_deflated(Tape &t, Ctx &c) {
    DeflCase d = gen_defl(t);
    int pk = static_cast<int>(t.u(0, 2)); // 0 known linear preconditioner, 1 scaled identity, 2 real amg
    c.desc << "deflated_solver n=" << d.n << " (" << d.family << (d.nonsym ? ",nonsym" + std::to_string(d.nonsym) : "") << ") nvec=" << d.k << " zmode=" << d.zmode << " solver=" << d.solver << " tol=" << d.tol << " precond=" << pk << " A=" << dump_small(d.A, 8);
    c.nontrivial = d.n > d.k && d.A.nnz() > d.n;
    c.label("nvec=" + std::to_string(d.k)); c.label("solver:" + d.solver);
    c.label(d.nonsym ? (d.k >= 2 ? "nonsymmetric,nvec>=2" : "nonsymmetric,nvec=1") : "symmetric"); c.label("zmode=" + std::to_string(d.zmode)); c.label("precond=" + std::to_string(pk));
    boost::property_tree::ptree sp; sp.put("type", d.solver); sp.put("tol", d.tol); sp.put("maxiter", 200);
    if (d.solver == "idrs") sp.put("s", static_cast<unsigned>(std::min<ptrdiff_t>(4, d.n)));
    auto tup = std::tie(d.n, d.A.ptr, d.A.col, d.A.val);
    std::vector<double> Zc = d.Z; // params hold a non-const pointer
    if (pk == 2) {
        typedef amgcl::deflated_solver<DAmg, DSolver> DS;
        DS::params prm; prm.nvec = d.k; prm.vec = Zc.data(); prm.solver = sp;
        prm.precond.coarse_enough = static_cast<unsigned>(t.u(1, 10));
        DS S(tup, prm);
        deflated_checks(t, c, d, S, nullptr);
    } else {
        typedef amgcl::deflated_solver<inner<BK>, DSolver> DS;
        Control ctl;
        LD MP(d.n, d.n);
        if (pk == 0) { ctl.mode = Control::LINEAR; for (ptrdiff_t i = 0; i < d.n; ++i) MP(i, i) = 1 / d.dA(i, i); ctl.M = MP; } // Jacobi, SPD
        else { ctl.mode = Control::SCALE; ctl.omega = t.uni(0.2, 1.5); }
        DS::params prm; prm.nvec = d.k; prm.vec = Zc.data(); prm.solver = sp; prm.precond.ctl = &ctl;
        DS S(tup, prm);
        double om = ctl.omega;
        if (pk == 0) deflated_checks(t, c, d, S, [&](const std::vector<double> &b, ptrdiff_t i) { return static_cast<double>(MP(i, i) * static_cast<ld>(b[i])); });
        else deflated_checks(t, c, d, S, [om](const std::vector<double> &b, ptrdiff_t i) { return om * b[i]; });
    }
}

VF_MAIN(props(), enums())
