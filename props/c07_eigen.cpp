// C07 (part 3) — Eigen backend (amgcl/backend/eigen.hpp): spmv, residual, axpby, axpbypcz, vmul, lin_comb, copy,
// clear, inner_product on Eigen::Map<SparseMatrix<RowMajor>> / Eigen::Matrix<T,Dynamic,1> for float, double,
// complex<double>; and the builtin backend with Eigen::Matrix<double,b,b> block values (amgcl/value_type/eigen.hpp).
#include <amgcl/value_type/eigen.hpp>
#include <amgcl/backend/eigen.hpp>
#include "c07_common.hpp"

namespace c07 {
// element trait for fixed-size Eigen matrices (row-major flattening k = i*cols + j, like static_matrix)
template <class S, int R, int C>
struct ET<Eigen::Matrix<S, R, C>> {
    typedef Eigen::Matrix<S, R, C> E;
    typedef S scalar;
    static const int rows = R, cols = C, N = R * C;
    static const bool cplx = false;
    static RC get(const E &e, int k) { return RC(static_cast<Ref>(e(k / C, k % C))); }
    static void gen(Tape &t, E &e, bool exact, int m) { for (int k = 0; k < N; ++k) e(k / C, k % C) = gen_real<S>(t, exact, m); }
    static void poison(Tape &t, E &e) { for (int k = 0; k < N; ++k) e(k / C, k % C) = poison_scalar<S>(t); }
    static bool finite(const E &e) { return e.allFinite(); }
    static bool same(const E &a, const E &b) { return a == b; }
    static std::string name() { return "Eigen::Matrix<" + std::string(sname<S>()) + "," + std::to_string(R) + "," + std::to_string(C) + ">"; }
};
template <class S, int R, int C>
struct ET<Eigen::Matrix<std::complex<S>, R, C>> {
    typedef Eigen::Matrix<std::complex<S>, R, C> E;
    typedef S scalar;
    static const int rows = R, cols = C, N = R * C;
    static const bool cplx = true;
    static RC get(const E &e, int k) { return RC(static_cast<Ref>(e(k / C, k % C).real()), static_cast<Ref>(e(k / C, k % C).imag())); }
    static void gen(Tape &t, E &e, bool exact, int m) { for (int k = 0; k < N; ++k) { S re = gen_real<S>(t, exact, m), im = gen_real<S>(t, exact, m); e(k / C, k % C) = std::complex<S>(re, im); } }
    static void poison(Tape &t, E &e) { for (int k = 0; k < N; ++k) { S re = poison_scalar<S>(t), im = poison_scalar<S>(t); e(k / C, k % C) = std::complex<S>(re, im); } }
    static bool finite(const E &e) { return e.allFinite(); }
    static bool same(const E &a, const E &b) { return a == b; }
    static std::string name() { return "Eigen::Matrix<complex<" + std::string(sname<S>()) + ">," + std::to_string(R) + "," + std::to_string(C) + ">"; }
};
} // namespace c07

using namespace c07;
typedef std::complex<double> cplx;

template <class T> Eigen::Matrix<T, Eigen::Dynamic, 1> to_eigen(const std::vector<T> &x) {
    Eigen::Matrix<T, Eigen::Dynamic, 1> v(static_cast<Eigen::Index>(x.size()));
    for (size_t i = 0; i < x.size(); ++i) v[static_cast<Eigen::Index>(i)] = x[i];
    return v;
}
template <class EV> Flat eflat(const EV &x) {
    typedef typename EV::Scalar T;
    Flat f; for (Eigen::Index i = 0; i < x.size(); ++i) f.push_back(ET<T>::get(x[i], 0));
    return f;
}
template <class EV> bool efinite(const EV &x) { for (Eigen::Index i = 0; i < x.size(); ++i) if (!ET<typename EV::Scalar>::finite(x[i])) return false; return true; }

// one prop covers every primitive of the Eigen backend; op chosen by the tape
template <class T>
void prop_eigen(Tape &t, Ctx &c) {
    typedef typename ET<T>::scalar S;
    typedef ab::eigen<T> Backend;
    typedef typename Backend::vector EV;
    const bool cplxv = ET<T>::cplx;
    bool exact = !t.b();
    int op = static_cast<int>(t.u(0, 9)); // 0,1 spmv  2 residual  3 axpby  4 axpbypcz  5 vmul  6 lin_comb  7 copy  8 clear  9 inner_product
    Coef<T> k1 = gen_coef<T>(t, exact), k2 = gen_coef<T>(t, exact), k3 = gen_coef<T>(t, exact);
    Cmp cmp{exact, unit_roundoff<S>(), cplxv};
    c.desc << "eigen<" << ET<T>::name() << "> threads=" << c.threads << (exact ? " exact" : " real");
    c.label(exact ? "mode:exact" : "mode:real");
    typename Backend::params prm;
    if (op <= 2) {
        ptrdiff_t n, m; gen_shape(t, n, m, 120);
        bool sorted = !t.b();
        Csr<T> A = gen_matrix<T>(t, n, m, exact, sorted);
        c.desc << " " << describe(A) << (sorted ? " sorted" : " unsorted") << " A=" << dump_vals(A);
        c.label(n == 0 ? "zero-rows" : m == 0 ? "zero-cols" : n != m ? "rectangular" : "square");
        auto a = to_crs<T>(A);
        auto Ae = Backend::copy_matrix(a, prm);
        VF_REQUIRE(ab::rows(*Ae) == static_cast<size_t>(n) && ab::cols(*Ae) == static_cast<size_t>(m) && ab::nonzeros(*Ae) == static_cast<size_t>(A.nnz()), "eigen copy_matrix: shape/nnz");
        std::vector<T> xh = gen_vec<T>(t, m, exact, 5);
        Flat xf = flat(xh), ax; std::vector<Ref> absum; std::vector<int> terms;
        ref_matvec(A, xf, ax, absum, terms);
        ab::numa_vector<T> xb(xh);
        auto xs = Backend::copy_vector(xb, prm);
        if (op <= 1) {
            Coef<T> alpha = k1, beta = k2;
            std::vector<T> y0 = gen_vec<T>(t, n, exact, 5);
            bool poisoned = beta.cls == 0; if (poisoned) poison_vec(t, y0);
            c.desc << " spmv alpha=" << alpha.r << " beta=" << beta.r << (poisoned ? " y:=non-finite" : "") << " x=" << dump_vec(xh);
            c.label(std::string("spmv beta:") + cls_name(beta.cls));
            c.nontrivial = n > 0 && (poisoned || (n != m && A.nnz() > 0) || (alpha.cls == 3 && beta.cls == 3 && A.nnz() > 0));
            Flat yf = poisoned ? Flat(n) : flat(y0), ref(n); std::vector<Ref> scale(n);
            for (size_t i = 0; i < ref.size(); ++i) {
                ref[i] = alpha.r * ax[i]; scale[i] = mag(alpha.r) * absum[i];
                if (!poisoned) { ref[i] = ref[i] + beta.r * yf[i]; scale[i] += mag(beta.r) * mag(yf[i]); }
            }
            EV ys = to_eigen(y0);
            ab::spmv(alpha.v, *Ae, *xs, beta.v, ys);
            VF_REQUIRE(efinite(ys), "eigen spmv: non-finite output (beta=" << beta.r << ")");
            cmp.check(eflat(ys), ref, scale, terms, "eigen spmv y=alpha*A*x+beta*y");
        } else {
            std::vector<T> fh = gen_vec<T>(t, n, exact, 5), r0(n); poison_vec(t, r0);
            c.desc << " residual"; c.label("residual");
            c.nontrivial = n > 0 && A.nnz() > 0;
            Flat ff = flat(fh), ref(n); std::vector<Ref> scale(n);
            for (size_t i = 0; i < ref.size(); ++i) { ref[i] = ff[i] - ax[i]; scale[i] = mag(ff[i]) + absum[i]; }
            EV fs = to_eigen(fh), rs = to_eigen(r0);
            ab::residual(fs, *Ae, *xs, rs);
            VF_REQUIRE(efinite(rs), "eigen residual: non-finite output");
            cmp.check(eflat(rs), ref, scale, terms, "eigen residual r=f-A*x");
        }
        return;
    }
    int cls = static_cast<int>(t.u(0, 2));
    size_t n = static_cast<size_t>(t.u(0, cls == 0 ? 4 : cls == 1 ? 30 : 300));
    c.desc << " n=" << n;
    std::vector<int> terms(n, 0);
    switch (op) {
    case 3: {
        Coef<T> a = k1, b = k2;
        std::vector<T> xh = gen_vec<T>(t, n, exact, 9), y0 = gen_vec<T>(t, n, exact, 9);
        bool poisoned = b.cls == 0; if (poisoned) poison_vec(t, y0);
        c.desc << " axpby a=" << a.r << " b=" << b.r << (poisoned ? " y:=non-finite" : ""); c.label(std::string("axpby b:") + cls_name(b.cls));
        c.nontrivial = n > 0 && (poisoned || (a.cls == 3 && b.cls == 3));
        Flat xf = flat(xh), yf = poisoned ? Flat(n) : flat(y0), ref(n); std::vector<Ref> scale(n);
        for (size_t i = 0; i < n; ++i) { ref[i] = a.r * xf[i]; scale[i] = mag(a.r) * mag(xf[i]); if (!poisoned) { ref[i] = ref[i] + b.r * yf[i]; scale[i] += mag(b.r) * mag(yf[i]); } }
        EV xs = to_eigen(xh), ys = to_eigen(y0);
        ab::axpby(a.v, xs, b.v, ys);
        VF_REQUIRE(efinite(ys), "eigen axpby: non-finite output (b=" << b.r << ")");
        cmp.check(eflat(ys), ref, scale, terms, "eigen axpby");
        break; }
    case 4: {
        Coef<T> a = k1, b = k2, cc = k3;
        std::vector<T> xh = gen_vec<T>(t, n, exact, 9), yh = gen_vec<T>(t, n, exact, 9), z0 = gen_vec<T>(t, n, exact, 9);
        bool poisoned = cc.cls == 0; if (poisoned) poison_vec(t, z0);
        c.desc << " axpbypcz a=" << a.r << " b=" << b.r << " c=" << cc.r << (poisoned ? " z:=non-finite" : ""); c.label(std::string("axpbypcz c:") + cls_name(cc.cls));
        c.nontrivial = n > 0 && (poisoned || (a.cls == 3 && b.cls == 3));
        Flat xf = flat(xh), yf = flat(yh), zf = poisoned ? Flat(n) : flat(z0), ref(n); std::vector<Ref> scale(n);
        for (size_t i = 0; i < n; ++i) {
            ref[i] = a.r * xf[i] + b.r * yf[i]; scale[i] = mag(a.r) * mag(xf[i]) + mag(b.r) * mag(yf[i]);
            if (!poisoned) { ref[i] = ref[i] + cc.r * zf[i]; scale[i] += mag(cc.r) * mag(zf[i]); }
        }
        EV xs = to_eigen(xh), ys = to_eigen(yh), zs = to_eigen(z0);
        ab::axpbypcz(a.v, xs, b.v, ys, cc.v, zs);
        VF_REQUIRE(efinite(zs), "eigen axpbypcz: non-finite output (c=" << cc.r << ")");
        cmp.check(eflat(zs), ref, scale, terms, "eigen axpbypcz");
        break; }
    case 5: {
        Coef<T> a = k1, b = k2;
        std::vector<T> xh = gen_vec<T>(t, n, exact, 9), yh = gen_vec<T>(t, n, exact, 9), z0 = gen_vec<T>(t, n, exact, 9);
        bool poisoned = b.cls == 0; if (poisoned) poison_vec(t, z0);
        c.desc << " vmul a=" << a.r << " b=" << b.r << (poisoned ? " z:=non-finite" : ""); c.label(std::string("vmul b:") + cls_name(b.cls));
        c.nontrivial = n > 0 && (poisoned || (a.cls == 3 && b.cls == 3));
        Flat xf = flat(xh), yf = flat(yh), zf = poisoned ? Flat(n) : flat(z0), ref(n); std::vector<Ref> scale(n);
        for (size_t i = 0; i < n; ++i) {
            ref[i] = a.r * xf[i] * yf[i]; scale[i] = mag(a.r) * mag(xf[i]) * mag(yf[i]); terms[i] = 1;
            if (!poisoned) { ref[i] = ref[i] + b.r * zf[i]; scale[i] += mag(b.r) * mag(zf[i]); }
        }
        EV xs = to_eigen(xh), ys = to_eigen(yh), zs = to_eigen(z0);
        ab::vmul(a.v, xs, ys, b.v, zs);
        VF_REQUIRE(efinite(zs), "eigen vmul: non-finite output (b=" << b.r << ")");
        cmp.check(eflat(zs), ref, scale, terms, "eigen vmul");
        break; }
    case 6: {
        size_t nv = static_cast<size_t>(t.u(1, 5));
        Coef<T> alpha = k1;
        std::vector<Coef<T>> cf; std::vector<T> coefs; std::vector<std::shared_ptr<EV>> vs; std::vector<Flat> vf;
        for (size_t j = 0; j < nv; ++j) { cf.push_back(j == 0 ? k2 : j == 1 ? k3 : gen_coef<T>(t, exact)); coefs.push_back(cf.back().v); std::vector<T> h = gen_vec<T>(t, n, exact, 9); vf.push_back(flat(h)); vs.push_back(std::make_shared<EV>(to_eigen(h))); }
        std::vector<T> y0 = gen_vec<T>(t, n, exact, 9);
        bool poisoned = alpha.cls == 0; if (poisoned) poison_vec(t, y0);
        c.desc << " lin_comb nv=" << nv << " alpha=" << alpha.r << (poisoned ? " y:=non-finite" : ""); c.label(std::string("lin_comb alpha:") + cls_name(alpha.cls));
        c.nontrivial = n > 0 && (poisoned || nv >= 2);
        Flat yf = poisoned ? Flat(n) : flat(y0), ref(n); std::vector<Ref> scale(n);
        for (size_t i = 0; i < n; ++i) {
            RC s; Ref as = 0;
            for (size_t j = 0; j < nv; ++j) { s = s + cf[j].r * vf[j][i]; as += mag(cf[j].r) * mag(vf[j][i]); }
            if (!poisoned) { s = s + alpha.r * yf[i]; as += mag(alpha.r) * mag(yf[i]); }
            ref[i] = s; scale[i] = as; terms[i] = static_cast<int>(2 * nv);
        }
        EV ys = to_eigen(y0);
        ab::lin_comb(nv, coefs, vs, alpha.v, ys);
        VF_REQUIRE(efinite(ys), "eigen lin_comb: non-finite output (alpha=" << alpha.r << ")");
        cmp.check(eflat(ys), ref, scale, terms, "eigen lin_comb");
        break; }
    case 7: {
        std::vector<T> xh = gen_vec<T>(t, n, exact, 9), y0(n); poison_vec(t, y0);
        c.desc << " copy"; c.label("copy"); c.nontrivial = n > 0;
        EV xs = to_eigen(xh), ys = to_eigen(y0);
        ab::copy(xs, ys);
        Flat g = eflat(ys), r = flat(xh);
        for (size_t i = 0; i < n; ++i) VF_REQUIRE(g[i].re == r[i].re && g[i].im == r[i].im, "eigen copy: component " << i);
        // copy_vector from the builtin backend
        ab::numa_vector<T> xb(xh);
        auto xv = Backend::copy_vector(xb, prm);
        Flat g2 = eflat(*xv);
        VF_REQUIRE(g2.size() == n, "eigen copy_vector: size");
        for (size_t i = 0; i < n; ++i) VF_REQUIRE(g2[i].re == r[i].re && g2[i].im == r[i].im, "eigen copy_vector: component " << i);
        break; }
    case 8: {
        std::vector<T> x0(n); poison_vec(t, x0);
        c.desc << " clear"; c.label("clear"); c.nontrivial = n > 0;
        EV xs = to_eigen(x0);
        ab::clear(xs);
        Flat g = eflat(xs);
        for (size_t i = 0; i < n; ++i) VF_REQUIRE(iszero(g[i]), "eigen clear: component " << i << " = " << g[i]);
        break; }
    default: {
        std::vector<T> xh = gen_vec<T>(t, n, exact, 9), yh = gen_vec<T>(t, n, exact, 9);
        c.desc << " inner_product x=" << dump_vec(xh) << " y=" << dump_vec(yh); c.label("inner_product");
        c.nontrivial = n >= 2;
        Flat xf = flat(xh), yf = flat(yh);
        RC ref; Ref as = 0;
        for (size_t i = 0; i < n; ++i) { ref = ref + xf[i] * conj(yf[i]); as += mag(xf[i]) * mag(yf[i]); }
        EV xs = to_eigen(xh), ys = to_eigen(yh);
        T got = ab::inner_product(xs, ys);
        RC g = ET<T>::get(got, 0);
        // plain (possibly vectorised) dot product: n*u*sum|x_i y_i|
        Ref tol = 2 * static_cast<Ref>(n + 2) * unit_roundoff<S>() * as * (cplxv ? 4 : 1);
        if (exact) VF_REQUIRE(g.re == ref.re && g.im == ref.im, "eigen inner_product = " << g << ", sum x_i*conj(y_i) = " << ref << " (exact operands; conjugate-linear in the second argument)");
        else VF_REQUIRE(std::max(rabs(g.re - ref.re), rabs(g.im - ref.im)) <= tol, "eigen inner_product = " << g << ", reference " << ref << " bound " << ld(tol));
        break; }
    }
}

typedef Eigen::Matrix<double, 2, 2> eblk2;
typedef Eigen::Matrix<double, 3, 3> eblk3;
typedef Eigen::Matrix<cplx, 2, 2> ecblk2;

static std::vector<Prop> props() {
    std::vector<int> th = {1, 4};
    return {
        Prop("eigen_double", prop_eigen<double>, 3000, 30000, 100, 120, th, 2, 4),
        Prop("eigen_float", prop_eigen<float>, 2000, 20000, 100, 120, {1}, 1, 2),
        Prop("eigen_complex", prop_eigen<cplx>, 2000, 20000, 100, 120, {1}, 1, 2),
        Prop("matvec_eblk2", prop_matvec<eblk2>, 1000, 10000, 100, 150, th, 1, 2),
        Prop("vecops_eblk2", prop_vecops<eblk2>, 1000, 10000, 100, 150, th, 1, 2),
        Prop("inner_eblk2", prop_inner<eblk2>, 500, 5000, 100, 60, th, 1, 2),
        Prop("matvec_eblk3", prop_matvec<eblk3>, 800, 8000, 100, 150, th, 1, 2),
        Prop("vecops_eblk3", prop_vecops<eblk3>, 800, 8000, 100, 150, {1}, 1, 2),
        Prop("matvec_ecblk2", prop_matvec<ecblk2>, 600, 6000, 100, 150, {1}, 1, 2),
        Prop("inner_ecblk2", prop_inner<ecblk2>, 600, 6000, 100, 60, {1, 4}, 1, 2),
    };
}
static std::vector<Enum> enums() { return {}; }

VF_MAIN(props(), enums())
