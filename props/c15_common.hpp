// C15 — solver and preconditioner objects are reusable; calls do not leak state.
//
// Model-based (stateful) harness.  One tape decodes: a system, the configuration of ONE long-lived object, and a
// HISTORY of <= 10 calls on it.  The model of call i is a freshly constructed object (same matrix, same parameters,
// plus the last rebuild, if any) that executes only call i; the result of the old object must be BITWISE the result
// of the fresh one (iterations, residual, x — or the same exception).  Further clauses per call: zero rhs => x = 0 in
// 0 iterations; converged initial guess => 0 iterations and x unchanged (==); rhs / matrix arrays memcmp-unchanged.
//
// Every heap allocation of the process is filled with a byte chosen by the tape (0x00 / 0xFF / 0xAA / 0x55), so scratch
// memory a fresh object never wrote is different from what an old object left behind (heap-content model, DESIGN 3.6).
#pragma once
#include <cstdlib>
#include <cstring>
#include <new>
#include <memory>
#include <string>
#include <tuple>
#include <vector>
#include <boost/property_tree/ptree.hpp>
#include <amgcl/backend/builtin.hpp>
#include <amgcl/adapter/crs_tuple.hpp>
#include "../common/harness.hpp"
#include "../common/gen.hpp"
#include "../common/dense.hpp"
#include "../common/amgcl_util.hpp"

// ------------------------------------------------------------------ poisoned allocator
namespace vf15 { static unsigned char g_fill = 0; }
static void *vf15_alloc(std::size_t n) {
    void *p = std::malloc(n ? n : 1);
    if (!p) throw std::bad_alloc();
    std::memset(p, vf15::g_fill, n);
    return p;
}
void *operator new(std::size_t n) { return vf15_alloc(n); }
void *operator new[](std::size_t n) { return vf15_alloc(n); }
void *operator new(std::size_t n, const std::nothrow_t &) noexcept { void *p = std::malloc(n ? n : 1); if (p) std::memset(p, vf15::g_fill, n); return p; }
void *operator new[](std::size_t n, const std::nothrow_t &) noexcept { void *p = std::malloc(n ? n : 1); if (p) std::memset(p, vf15::g_fill, n); return p; }
void operator delete(void *p) noexcept { std::free(p); }
void operator delete[](void *p) noexcept { std::free(p); }
void operator delete(void *p, std::size_t) noexcept { std::free(p); }
void operator delete[](void *p, std::size_t) noexcept { std::free(p); }
void operator delete(void *p, const std::nothrow_t &) noexcept { std::free(p); }
void operator delete[](void *p, const std::nothrow_t &) noexcept { std::free(p); }

namespace vf15 {
using namespace vf;
typedef long double ld;
typedef std::vector<double> vec;
typedef boost::property_tree::ptree ptree;

// ------------------------------------------------------------------ systems
struct Sys {
    ptrdiff_t n = 0;
    Csr<double> A;
    std::string family;
    bool nonsym = false;
    int b = 1;                 // block size of the structure (cpr / block kinds)
    std::vector<char> pmask;   // schur
    ptrdiff_t nu = 0, np = 0;
    vec Z; int nvec = 0;       // deflated
};

// connected graph with exactly n nodes
inline Graph graph_n(Tape &t, int n) {
    Graph g; g.n = n;
    std::set<std::pair<int, int>> E;
    int fam = static_cast<int>(t.u(0, 3));
    switch (fam) {
    case 0: g.family = "path"; for (int i = 0; i + 1 < n; ++i) add_edge(E, i, i + 1); break;
    case 1: { g.family = "tree"; for (int i = 1; i < n; ++i) add_edge(E, i, static_cast<int>(t.pick(i)));
              int ch = static_cast<int>(t.u(0, std::max(0, n / 3))); for (int c = 0; c < ch; ++c) add_edge(E, static_cast<int>(t.pick(n)), static_cast<int>(t.pick(n))); break; }
    case 2: { g.family = "band"; int w = static_cast<int>(t.u(1, 3)); for (int i = 0; i < n; ++i) for (int d = 1; d <= w && i + d < n; ++d) add_edge(E, i, i + d); break; }
    default: { g.family = "grid"; int nx = std::max(1, static_cast<int>(std::sqrt(static_cast<double>(n))));
               for (int i = 0; i < n; ++i) { if ((i + 1) % nx != 0 && i + 1 < n) add_edge(E, i, i + 1); if (i + nx < n) add_edge(E, i, i + nx); } break; }
    }
    g.edges.assign(E.begin(), E.end());
    g.axis.assign(g.edges.size(), -1);
    return g;
}

// M-matrix, optionally with first-order upwind convection (non-symmetric, still weakly diagonally dominant)
inline Csr<double> gen_matrix(Tape &t, const Graph &g, bool allow_nonsym, bool *nonsym = nullptr) {
    Csr<double> M = gen_mmat(t, g, 100.0, true);
    bool ns = allow_nonsym && t.chance(1, 3);
    if (nonsym) *nonsym = ns;
    if (!ns) return M;
    std::vector<std::map<ptrdiff_t, double>> rows(M.n);
    for (ptrdiff_t i = 0; i < M.n; ++i) for (ptrdiff_t j = M.ptr[i]; j < M.ptr[i + 1]; ++j) rows[i][M.col[j]] = M.val[j];
    double pe = t.logu(0.1, 10.0);
    for (auto &e : g.edges) { double c = pe * t.uni(0.2, 1.0); rows[e.second][e.first] -= c; rows[e.second][e.second] += c; }
    return from_triplets<double>(M.n, M.n, rows);
}

// A (x) Bm with an SPD, strictly diagonally dominant b x b Bm: block structured SPD system
inline Csr<double> kron_block(Tape &t, const Csr<double> &M, int b) {
    std::vector<double> Bm(b * b, 0.0);
    for (int i = 0; i < b; ++i) for (int j = i + 1; j < b; ++j) { double v = t.uni(-0.6, 0.6); Bm[i * b + j] = Bm[j * b + i] = v; }
    for (int i = 0; i < b; ++i) { double s = 0; for (int j = 0; j < b; ++j) if (j != i) s += std::abs(Bm[i * b + j]); Bm[i * b + i] = 1.0 + s * t.uni(1.25, 2.0); }
    std::vector<std::map<ptrdiff_t, double>> rows(M.n * b);
    for (ptrdiff_t i = 0; i < M.n; ++i) for (ptrdiff_t j = M.ptr[i]; j < M.ptr[i + 1]; ++j)
        for (int p = 0; p < b; ++p) for (int q = 0; q < b; ++q) if (Bm[p * b + q] != 0) rows[i * b + p][M.col[j] * b + q] = M.val[j] * Bm[p * b + q];
    return from_triplets<double>(M.n * b, M.n * b, rows);
}

// alternative system matrices for solve(A', rhs, x): kind 0 2A, 1 same pattern other values, 2 other graph (same n),
// hostile: 3 cyclic permutation matrix, 4 pattern of A with zero values (singular), 5 singular graph Laplacian of A
inline Csr<double> gen_alt(Tape &t, const Sys &s, int kind, std::string &name) {
    const Csr<double> &A = s.A;
    Csr<double> B = A;
    switch (kind) {
    case 0: name = "2A"; for (auto &v : B.val) v *= 2; break;
    case 1: { name = "rowscaled"; for (ptrdiff_t i = 0; i < A.n; ++i) { double r = t.uni(0.5, 2.0); for (ptrdiff_t j = A.ptr[i]; j < A.ptr[i + 1]; ++j) B.val[j] *= r; } break; }
    case 2: { name = "other-graph"; Graph g = graph_n(t, static_cast<int>(A.n / s.b)); Csr<double> M = gen_mmat(t, g, 100.0, false); B = s.b > 1 ? kron_block(t, M, s.b) : M; break; }
    case 3: { name = "permutation"; std::vector<std::map<ptrdiff_t, double>> rows(A.n); for (ptrdiff_t i = 0; i < A.n; ++i) rows[i][(i + 1) % A.n] = 1.0; B = from_triplets<double>(A.n, A.n, rows); break; }
    case 4: name = "zero-values"; for (auto &v : B.val) v = 0; break;
    default: { name = "singular-laplacian";
        for (ptrdiff_t i = 0; i < A.n; ++i) { double sum = 0; ptrdiff_t d = -1; for (ptrdiff_t j = A.ptr[i]; j < A.ptr[i + 1]; ++j) { if (A.col[j] == i) d = j; else sum += A.val[j]; } if (d >= 0) B.val[d] = -sum; }
        break; }
    }
    return B;
}

// ------------------------------------------------------------------ configuration of the long-lived object
struct Cfg {
    ptree solver;             // runtime::solver::wrapper parameters of the outer solver
    ptree amg;                // amg parameters (coarsening.type, relax.type, ...)
    ptree relax;              // relaxation parameters for as_preconditioner
    ptree inner1, inner2;     // inner solver parameter trees (schur usolver/psolver, nested inner solver)
    std::string type, coarsening, relaxation;
    double tol = 1e-8; size_t maxiter = 100;
    bool lgmres_noreset = false, check_after = false, ns_search = false, left = false;
    std::string text;
};

inline const char *const *solver_names() { static const char *n[] = {"cg", "bicgstab", "bicgstabl", "gmres", "fgmres", "lgmres", "idrs", "richardson"}; return n; }

// parameters of one iterative solver; `outer`: full variation incl. the documented exception and too-small maxiter
inline ptree gen_solver(Tape &t, ptrdiff_t n, bool outer, Cfg *cfg, std::string *text) {
    ptree p;
    std::string type = solver_names()[t.u(0, 7)];
    static const double tols[] = {1e-8, 1e-6, 1e-4, 1e-10};
    static const unsigned mi[] = {100, 100, 1, 2, 3, 5, 20, 100};
    double tol = outer ? tols[t.u(0, 3)] : (t.b() ? 1e-2 : 1e-4);
    unsigned maxiter = outer ? mi[t.u(0, 7)] : static_cast<unsigned>(t.u(1, 6));
    p.put("type", type); p.put("tol", tol); p.put("maxiter", maxiter);
    std::ostringstream os; os << type << "(tol=" << tol << ",maxiter=" << maxiter;
    bool left = false, noreset = false, check_after = false, ns = false;
    if (type == "bicgstab" || type == "bicgstabl" || type == "gmres" || type == "lgmres") { left = t.chance(1, 3); p.put("pside", left ? "left" : "right"); os << ",pside=" << (left ? "left" : "right"); }
    if (type == "bicgstab") { check_after = outer && t.chance(1, 6); p.put("check_after", check_after); os << ",check_after=" << check_after; }
    if (type == "bicgstabl") { int L = static_cast<int>(t.u(1, 4)); bool convex = t.b(); p.put("L", L); p.put("convex", convex); if (t.chance(1, 4)) p.put("delta", 0.1); os << ",L=" << L << ",convex=" << convex; }
    if (type == "gmres" || type == "fgmres" || type == "lgmres") { static const unsigned Ms[] = {30, 1, 2, 5, 10}; unsigned M = Ms[t.u(0, 4)]; p.put("M", M); os << ",M=" << M; }
    if (type == "lgmres") { unsigned K = static_cast<unsigned>(t.u(0, 3)); p.put("K", K); noreset = outer && t.chance(1, 5); p.put("always_reset", !noreset); os << ",K=" << K << ",always_reset=" << !noreset; }
    if (type == "idrs") { unsigned s = static_cast<unsigned>(t.u(1, std::min<ptrdiff_t>(n, 6))); static const double om[] = {0.7, 0.0, 0.9}; double omega = om[t.u(0, 2)]; bool sm = t.b(), rep = t.b();
        p.put("s", s); p.put("omega", omega); p.put("smoothing", sm); p.put("replacement", rep); os << ",s=" << s << ",omega=" << omega << ",smoothing=" << sm << ",replacement=" << rep; }
    if (type == "richardson") { double d = t.uni(0.3, 1.0); p.put("damping", d); os << ",damping=" << d; }
    if (outer) { ns = t.chance(1, 12); if (ns) { p.put("ns_search", true); os << ",ns_search"; } }
    os << ")";
    if (cfg) { cfg->type = type; cfg->tol = tol; cfg->maxiter = maxiter; cfg->left = left; cfg->lgmres_noreset = noreset; cfg->check_after = check_after; cfg->ns_search = ns; }
    if (text) *text += os.str();
    return p;
}

// relaxation parameters; `blockval`: only those that support block value types
inline ptree gen_relax(Tape &t, bool blockval, std::string *name) {
    static const char *all[] = {"spai0", "gauss_seidel", "ilu0", "chebyshev", "damped_jacobi", "iluk", "ilut", "ilup", "spai1"};
    static const char *blk[] = {"spai0", "ilu0", "chebyshev", "damped_jacobi", "iluk", "ilut", "ilup"};
    std::string r = blockval ? blk[t.u(0, 6)] : all[t.u(0, 8)];
    ptree p; p.put("type", r);
    if (r == "chebyshev" && t.b()) p.put("degree", 3u);
    if (r == "iluk" && t.b()) p.put("k", 2);
    if (r == "damped_jacobi" && t.b()) p.put("damping", 0.6);
    if (name) *name = r;
    return p;
}

inline ptree gen_amg(Tape &t, bool blockval, Cfg *cfg, std::string *text) {
    static const char *call[] = {"smoothed_aggregation", "ruge_stuben", "aggregation", "smoothed_aggr_emin"};
    static const char *cblk[] = {"smoothed_aggregation", "aggregation", "smoothed_aggr_emin"};
    std::string c = blockval ? cblk[t.u(0, 2)] : call[t.u(0, 3)];
    std::string r;
    ptree p; p.put("coarsening.type", c);
    p.put_child("relax", gen_relax(t, blockval, &r));
    static const unsigned ce[] = {3000, 2, 4, 10};
    unsigned coarse_enough = ce[t.u(0, 3)];
    p.put("coarse_enough", coarse_enough);
    bool direct = !t.chance(1, 4);
    p.put("direct_coarse", direct);
    unsigned npre = static_cast<unsigned>(t.u(0, 2)), npost = static_cast<unsigned>(t.u(0, 2)), ncycle = 1 + static_cast<unsigned>(t.u(0, 1));
    static const unsigned pcs[] = {1, 2, 0};
    unsigned pre_cycles = pcs[t.u(0, 2)];
    // a W-cycle costs 2^levels coarse visits; slowly coarsening graphs (star, diagonal) give one level per node, so the
    // number of levels is capped whenever ncycle = 2 (pure cost guard, otherwise unlimited or 1,2,3,5)
    static const unsigned mls[] = {0, 1, 2, 3, 5};
    unsigned max_levels = mls[t.u(0, 4)];
    if (ncycle > 1 && max_levels == 0) max_levels = 5;
    if (max_levels) p.put("max_levels", max_levels);
    p.put("npre", (npre + 1) % 3); p.put("npost", (npost + 1) % 3); p.put("ncycle", ncycle); p.put("pre_cycles", pre_cycles);
    std::ostringstream os; os << "amg(" << c << "," << r << ",coarse_enough=" << coarse_enough << ",direct=" << direct << ",npre=" << (npre + 1) % 3 << ",npost=" << (npost + 1) % 3 << ",ncycle=" << ncycle << ",pre_cycles=" << pre_cycles << ",max_levels=" << max_levels << ")";
    if (cfg) { cfg->coarsening = c; cfg->relaxation = r; }
    if (text) *text += os.str();
    return p;
}

// ------------------------------------------------------------------ call results
struct Res {
    bool threw = false; std::string what;
    size_t iters = 0; double resid = 0;
    vec x;
};

inline bool same(const Res &a, const Res &b, std::string &why) {
    std::ostringstream os;
    if (a.threw != b.threw) { os << "old object " << (a.threw ? "threw '" + a.what + "'" : "returned") << ", fresh object " << (b.threw ? "threw '" + b.what + "'" : "returned"); why = os.str(); return false; }
    if (a.threw) { if (a.what != b.what) { why = "exceptions differ: '" + a.what + "' vs '" + b.what + "'"; return false; } return true; }
    if (a.iters != b.iters) { os << "iterations " << a.iters << " (old) vs " << b.iters << " (fresh)"; why = os.str(); return false; }
    if (memcmp(&a.resid, &b.resid, sizeof(double)) != 0) { os.precision(17); os << "residual " << a.resid << " (old) vs " << b.resid << " (fresh), iterations " << a.iters; why = os.str(); return false; }
    if (a.x.size() != b.x.size()) { why = "size"; return false; }
    for (size_t i = 0; i < a.x.size(); ++i) if (memcmp(&a.x[i], &b.x[i], sizeof(double)) != 0) { os.precision(17); os << "x[" << i << "] = " << a.x[i] << " (old) vs " << b.x[i] << " (fresh), iterations " << a.iters << ", residual " << a.resid; why = os.str(); return false; }
    return true;
}

enum Op { SOLVE0 = 0, SOLVE_X0, SOLVE_NEAR, SOLVE_ALT, PAPPLY, APPLY, REBUILD, ZERO_RHS, CONVERGED, NANRHS, HOSTILE_ALT, HARD, NOPS };
inline const char *op_name(int o) { static const char *n[] = {"solve(f,0)", "solve(f,x0)", "solve(near-guess)", "solve(A',f,x0)", "precond.apply", "apply", "rebuild", "zero-rhs", "converged-guess", "nan/inf-rhs", "solve(hostile A')", "solve(hard)"}; return n[o]; }

struct Call {
    int op = 0;
    vec rhs, x0;
    Csr<double> A;      // SOLVE_ALT / HOSTILE_ALT / REBUILD
    std::string note;
    bool guess_ok = false;
};

inline ld norm2(const vec &v) { ld s = 0; for (double x : v) s += static_cast<ld>(x) * x; return std::sqrt(s); }

// ------------------------------------------------------------------ the history runner
// K provides: Obj, name(), gen_sys(t), gen_cfg(t, sys, cfg), make(sys, cfg), solve, solveA, apply, papply, rebuild, has_*.
template <class K>
void run_history(Tape &t, Ctx &c) {
    static const unsigned char fills[] = {0x00, 0xFF, 0xAA, 0x55};
    g_fill = 0;
    unsigned char fill = fills[t.u(0, 3)];
    Sys sys = K::gen_sys(t);
    Cfg cfg;
    K::gen_cfg(t, sys, cfg);
    int h = static_cast<int>(t.u(1, 10));
    const ptrdiff_t n = sys.n;
    c.desc << K::name() << " n=" << n << " (" << sys.family << (sys.nonsym ? ",nonsym" : "") << ") fill=0x" << std::hex << int(fill) << std::dec << " " << cfg.text << " history[" << h << "]:";
    c.label(std::string("kind:") + K::name()); c.label("solver:" + cfg.type);
    if (!cfg.coarsening.empty()) c.label("coarsening:" + cfg.coarsening);
    if (!cfg.relaxation.empty()) c.label("relax:" + cfg.relaxation);
    c.label(cfg.maxiter <= 5 ? "maxiter<=5" : "maxiter>=20");

    g_fill = fill;
    struct FillGuard { ~FillGuard() { g_fill = 0; } } guard;
    std::shared_ptr<typename K::Obj> obj;
    try { obj = K::make(sys, cfg); }
    catch (const std::exception &e) { // a setup that fails does so for the fresh objects too: nothing to compare
        VF_REQUIRE(std::string(e.what()).rfind("harness:", 0) != 0, e.what());
        c.label(std::string("ctor-threw:") + e.what()); c.desc << " constructor threw: " << e.what(); return;
    }
    const Csr<double> A0 = sys.A;
    const vec Z0 = sys.Z;
    Csr<double> Acur = sys.A, Arb; bool rebuilt = false;
    bool seen_fail = false, fail_then_normal = false; long mismatches = 0; std::string first_mismatch;

    auto exec = [&](typename K::Obj &o, const Call &cl, vec &rhs_buf, Csr<double> &Abuf) {
        Res r; r.x = cl.x0;
        try {
            switch (cl.op) {
            case PAPPLY: r.x.assign(n, std::nan("")); K::papply(o, rhs_buf, r.x); break;
            case APPLY: r.x.assign(n, std::nan("")); K::apply(o, rhs_buf, r.x); break;
            case REBUILD: K::rebuild(o, Abuf); r.x.clear(); break;
            case SOLVE_ALT: case HOSTILE_ALT: std::tie(r.iters, r.resid) = K::solveA(o, Abuf, rhs_buf, r.x); break;
            default: std::tie(r.iters, r.resid) = K::solve(o, rhs_buf, r.x);
            }
        } catch (const std::exception &e) { r.threw = true; r.what = e.what(); }
        return r;
    };

    // A hierarchy that contains NaN (smoothed_aggr_emin without a guard for a vanishing filtered diagonal, listed as F-emin
    // under C01) maps the zero vector to NaN; BiCGStab(L) ends every solve with x += P*X (X = 0 for a converged guess), so
    // the "returned unchanged" clause presupposes a preconditioner that is a finite linear operator.  Kinds without access
    // to the preconditioner (make_block_solver) do not assert the clause with the emin coarsening.
    auto finite_precond = [&](typename K::Obj &o) {
        if (!K::has_papply) return cfg.coarsening != "smoothed_aggr_emin";
        vec z(n, 0.0), y(n, 0.0);
        try { K::papply(o, z, y); } catch (const std::exception &) { return false; }
        for (double v : y) if (!std::isfinite(v)) return false;
        return true;
    };
    for (int i = 0; i < h; ++i) {
        Call cl;
        cl.op = static_cast<int>(t.u(0, NOPS - 1));
        if (cl.op == PAPPLY && !K::has_papply) cl.op = SOLVE_X0;
        if (cl.op == APPLY && !K::has_apply) cl.op = SOLVE0;
        if (cl.op == REBUILD && !K::has_rebuild) cl.op = SOLVE_NEAR;
        // ---- arguments
        auto xtrue_rhs = [&](vec &xt) { xt = gen_vec(t, n, static_cast<int>(t.u(1, 2))); Dense<ld> D = to_dense<ld>(Acur); std::vector<ld> f = matvec(D, std::vector<ld>(xt.begin(), xt.end())); vec r(n); for (ptrdiff_t k = 0; k < n; ++k) r[k] = static_cast<double>(f[k]); return r; };
        switch (cl.op) {
        case SOLVE0: cl.rhs = gen_vec(t, n, static_cast<int>(t.u(0, 3))); cl.x0.assign(n, 0.0); break;
        case SOLVE_X0: case PAPPLY: case APPLY: cl.rhs = gen_vec(t, n, static_cast<int>(t.u(1, 3))); cl.x0 = gen_vec(t, n, 2); break;
        case SOLVE_NEAR: { vec xt; cl.rhs = xtrue_rhs(xt); cl.x0 = xt; double eps = t.logu(1e-9, 1e-3); for (auto &v : cl.x0) v *= 1 + eps * t.uni(-1.0, 1.0); break; }
        case SOLVE_ALT: case HOSTILE_ALT: {
            int k = cl.op == SOLVE_ALT ? static_cast<int>(t.u(0, 2)) : 3 + static_cast<int>(t.u(0, 2));
            cl.A = gen_alt(t, sys, k, cl.note);
            cl.rhs = gen_vec(t, n, static_cast<int>(t.u(1, 3)));
            if (cl.op == HOSTILE_ALT && t.b()) { std::fill(cl.rhs.begin(), cl.rhs.end(), 0.0); cl.rhs[t.pick(n)] = 1.0; cl.note += ",f=e_k"; }
            cl.x0 = t.b() ? vec(n, 0.0) : gen_vec(t, n, 2);
            break; }
        case REBUILD: { int k = static_cast<int>(t.u(0, 1)); cl.A = gen_alt(t, sys, k, cl.note); break; }
        case ZERO_RHS: cl.rhs.assign(n, 0.0); cl.x0 = t.b() ? gen_vec(t, n, 2) : vec(n, 0.0); break;
        case CONVERGED: {
            cl.rhs = gen_vec(t, n, static_cast<int>(t.u(1, 3)));
            if (!(norm2(cl.rhs) > 1e-6)) cl.rhs[0] = 1.0;
            std::vector<ld> xs; Dense<ld> D = to_dense<ld>(Acur);
            if (dense_solve(D, std::vector<ld>(cl.rhs.begin(), cl.rhs.end()), xs)) {
                cl.x0.resize(n); for (ptrdiff_t k = 0; k < n; ++k) cl.x0[k] = static_cast<double>(xs[k]);
                // does the guess satisfy the tolerance with a margin that dominates the rounding of the library's own residual evaluation?
                ld eps = std::max<ld>(static_cast<ld>(cfg.tol) * norm2(cl.rhs), std::numeric_limits<double>::min());
                ld tr = true_relres(Acur, cl.rhs, cl.x0) * norm2(cl.rhs);
                ld slack = 0; for (ptrdiff_t r = 0; r < n; ++r) { ld s = std::abs(cl.rhs[r]); for (ptrdiff_t j = Acur.ptr[r]; j < Acur.ptr[r + 1]; ++j) s += std::abs(static_cast<ld>(Acur.val[j]) * cl.x0[Acur.col[j]]); slack += s * s; }
                slack = std::sqrt(slack) * static_cast<ld>(n + 2) * 1.2e-16L;
                cl.guess_ok = std::isfinite(static_cast<double>(tr)) && tr + slack <= 0.25L * eps;
            } else cl.x0.assign(n, 0.0);
            break; }
        case NANRHS: { cl.rhs = gen_vec(t, n, 2); static const double bad[] = {std::numeric_limits<double>::quiet_NaN(), std::numeric_limits<double>::infinity(), -std::numeric_limits<double>::infinity()};
            int kb = static_cast<int>(t.u(0, 2)); cl.rhs[t.pick(n)] = bad[kb]; cl.note = kb == 0 ? "nan" : "inf"; cl.x0 = t.b() ? vec(n, 0.0) : gen_vec(t, n, 2); break; }
        default: { cl.rhs = gen_vec(t, n, 3); cl.x0 = gen_vec(t, n, 3); break; } // HARD: 6 decades of dynamic range in f and x0
        }
        c.desc << " [" << i << "] " << op_name(cl.op) << (cl.note.empty() ? "" : "{" + cl.note + "}");
        c.label(std::string("op:") + op_name(cl.op));

        // ---- the call on the long-lived object
        vec rhs_old = cl.rhs; Csr<double> A_old = cl.A;
        Res ro = exec(*obj, cl, rhs_old, A_old);
        // arguments must be unchanged
        VF_REQUIRE(rhs_old.size() == cl.rhs.size() && (cl.rhs.empty() || memcmp(rhs_old.data(), cl.rhs.data(), cl.rhs.size() * sizeof(double)) == 0), "call " << i << " " << op_name(cl.op) << ": right-hand side modified");
        VF_REQUIRE(A_old.ptr == cl.A.ptr && A_old.col == cl.A.col && A_old.val.size() == cl.A.val.size() && (cl.A.val.empty() || memcmp(A_old.val.data(), cl.A.val.data(), cl.A.val.size() * sizeof(double)) == 0), "call " << i << " " << op_name(cl.op) << ": matrix A' modified");
        VF_REQUIRE(sys.A.ptr == A0.ptr && sys.A.col == A0.col && memcmp(sys.A.val.data(), A0.val.data(), A0.val.size() * sizeof(double)) == 0, "call " << i << ": system matrix arrays modified");
        VF_REQUIRE(sys.Z.size() == Z0.size() && (Z0.empty() || memcmp(sys.Z.data(), Z0.data(), Z0.size() * sizeof(double)) == 0), "call " << i << ": deflation vectors modified");

        // ---- the model: a fresh object (plus the last rebuild) executes only this call
        std::shared_ptr<typename K::Obj> fresh = K::make(sys, cfg);
        if (rebuilt) { Csr<double> tmp = Arb; K::rebuild(*fresh, tmp); }
        vec rhs_new = cl.rhs; Csr<double> A_new = cl.A;
        Res rf = exec(*fresh, cl, rhs_new, A_new);
        std::string why;
        if (!same(ro, rf, why)) {
            ++mismatches;
            if (first_mismatch.empty()) { std::ostringstream os; os << "call " << i << " " << op_name(cl.op) << (cl.note.empty() ? "" : "{" + cl.note + "}") << ": " << why; first_mismatch = os.str(); }
            // LGMRES with always_reset=false is the documented exception: counted, not asserted
            VF_REQUIRE(cfg.lgmres_noreset, "result differs from a freshly constructed object: " << first_mismatch);
        }
        if (cl.op == REBUILD && !ro.threw) { rebuilt = true; Arb = cl.A; Acur = cl.A; }

        // ---- clauses on the call itself
        bool is_solve = cl.op != PAPPLY && cl.op != APPLY && cl.op != REBUILD;
        if (cl.op == ZERO_RHS && !ro.threw) {
            if (cfg.ns_search) c.label("zero-rhs:ns_search(documented opt-out)");
            else {
                VF_REQUIRE(ro.iters == 0, "call " << i << ": zero right-hand side took " << ro.iters << " iterations");
                for (ptrdiff_t k = 0; k < n; ++k) VF_REQUIRE(ro.x[k] == 0.0, "call " << i << ": zero right-hand side returned x[" << k << "] = " << ro.x[k]);
                c.label("clause:zero-rhs");
            }
        }
        if (cl.op == CONVERGED && !ro.threw) {
            if (!cl.guess_ok) c.label("converged-guess:margin-too-small(not asserted)");
            else if (cfg.check_after) c.label("converged-guess:check_after(documented to iterate once)");
            else if (cfg.left) c.label("converged-guess:left-preconditioned-norm(not asserted)");
            else if (!finite_precond(*fresh)) c.label("converged-guess:preconditioner-maps-0-to-NaN(not asserted)");
            else {
                VF_REQUIRE(ro.iters == 0, "call " << i << ": initial guess with ||f - A x0|| <= tol ||f|| / 4 took " << ro.iters << " iterations (residual " << ro.resid << ")");
                if (K::projects_first) c.label("converged-guess:projection-precedes-solve(x not compared)");
                else {
                    for (ptrdiff_t k = 0; k < n; ++k) VF_REQUIRE(ro.x[k] == cl.x0[k], "call " << i << ": converged initial guess changed: x[" << k << "] = " << ro.x[k] << " was " << cl.x0[k]);
                    c.label("clause:converged-guess");
                }
            }
        }
        // ---- classification for the non-triviality rule
        bool finite_x = true; for (double v : ro.x) finite_x = finite_x && std::isfinite(v);
        bool failing = ro.threw || (is_solve && (!std::isfinite(ro.resid) || !finite_x || ro.resid > cfg.tol));
        bool normal = !ro.threw && finite_x && (!is_solve || (std::isfinite(ro.resid) && ro.resid <= cfg.tol));
        if (ro.threw) c.label("fail:threw:" + ro.what);
        else if (is_solve && (!std::isfinite(ro.resid) || !finite_x)) c.label("fail:non-finite");
        else if (is_solve && ro.resid > cfg.tol) c.label(ro.iters >= cfg.maxiter ? "fail:maxiter" : "fail:not-converged");
        if (normal && seen_fail) fail_then_normal = true;
        if (failing) seen_fail = true;
    }
    c.nontrivial = fail_then_normal;
    if (fail_then_normal) c.label("history:fail-then-normal");
    if (cfg.lgmres_noreset) {
        c.label(mismatches ? "lgmres-noreset:differs-from-fresh" : "lgmres-noreset:equal-to-fresh");
        c.excluded = "documented-exception:lgmres-always_reset=false";
    }
}

} // namespace vf15
