// C10 (extension d) — composite preconditioners, value type double, every inner component chosen at run time.
//
//   0 make_solver<runtime::preconditioner, solver>: class dummy / nested (a make_solver used as preconditioner, up to two
//     levels of nesting) / amg / relaxation
//   1 preconditioner::schur_pressure_correction<USolver, PSolver> (both make_solver<runtime::preconditioner, solver>): random
//     pressure mask with at least one pressure and one flow unknown, given as a raw array or as pattern "%s:m", "<m", ">m";
//     type 1/2, approx_schur, adjust_p 0/1/2, simplec_dia
//   2 preconditioner::cpr<amg, relaxation>      block_size 2..3, n = block_size * cells, now and then active_rows < n
//   3 preconditioner::cpr_drs<amg, relaxation>  + eps_dd, eps_ps, optional weights array
//   4 deflated_solver<runtime::preconditioner, solver>: SPD M-matrix, 1..4 deflation vectors (weighted subdomain indicators)
// The hierarchies of these classes are private: observables are the printed summary (levels, sizes, memory), preconditioner
// applications and two solves, or the exception text.  User-owned parameter arrays (pmask, weights, deflation vectors,
// near-null-space) must be bit-identical afterwards.  Differential over heap fills / allocation histories and sanitizer twin
// as in c10_determinism.cpp (see c10_common.hpp).  make_block_solver is covered by c10_block.cpp.
#include <amgcl/preconditioner/runtime.hpp>
#include <amgcl/preconditioner/dummy.hpp>
#include <amgcl/preconditioner/schur_pressure_correction.hpp>
#include <amgcl/preconditioner/cpr.hpp>
#include <amgcl/preconditioner/cpr_drs.hpp>
#include <amgcl/deflated_solver.hpp>
#include "c10_common.hpp"

using namespace c10;
namespace ab = amgcl::backend;
typedef ab::builtin<double> B;
typedef amgcl::runtime::preconditioner<B> RP;
typedef amgcl::runtime::solver::wrapper<B> IS;
typedef amgcl::make_solver<RP, IS> RS;
typedef amgcl::amg<B, amgcl::runtime::coarsening::wrapper, amgcl::runtime::relaxation::wrapper> AMG;
typedef amgcl::relaxation::as_preconditioner<B, amgcl::runtime::relaxation::wrapper> RLX;
typedef amgcl::preconditioner::schur_pressure_correction<RS, RS> Schur;
typedef amgcl::preconditioner::cpr<AMG, RLX> CPR;
typedef amgcl::preconditioner::cpr_drs<AMG, RLX> DRS;
typedef amgcl::deflated_solver<RP, IS> DEFL;

static const char *KIND[] = {"runtime-precond", "schur_pressure_correction", "cpr", "cpr_drs", "deflated_solver"};

struct Case {
    int kind = 0;
    Csr<double> A;
    ptree prm;
    std::vector<PrecondCfg> pcs; // every amg/relaxation leaf (each may own a near-null-space array)
    SolverCfg sc;
    std::vector<char> pmask; bool pmask_ptr = false;   // schur
    std::vector<double> weights;                       // cpr_drs
    std::vector<double> Z; int nvec = 0;                // deflated
    std::vector<double> f, v1;
    std::vector<uint32_t> prehist;
    std::ostringstream cfg;
};

// runtime::preconditioner parameters under `pre`; rows = size of the matrix it will be built for
static void gen_rp(Tape &t, Case &cs, const std::string &pre, int rows, int depth, int dummy_w) {
    int k = static_cast<int>(t.u(0, 7)); // 0..2 amg/relaxation (gen_precond decides), 3..4 dummy, 5..7 nested
    if (k >= 3 && k <= 4 && dummy_w == 0) k = 0;
    if (k >= 5 && depth >= 2) k = 0;
    if (k <= 2) { cs.pcs.push_back(gen_precond(t, cs.prm, pre, PrecondOpts(rows).cls())); cs.cfg << "{" << cs.pcs.back().str() << "}"; }
    else if (k <= 4) { cs.prm.put(pre + "class", "dummy"); cs.cfg << "{dummy}"; }
    else {
        cs.prm.put(pre + "class", "nested");
        cs.cfg << "{nested ";
        SolverCfg s = gen_solver(t, cs.prm, pre + "solver.", rows, 4, false);
        cs.cfg << s.str() << " ";
        gen_rp(t, cs, pre + "precond.", rows, depth + 1, dummy_w);
        cs.cfg << "}";
    }
}
// make_solver<runtime::preconditioner, solver> used as an inner solver (few iterations)
static void gen_rs(Tape &t, Case &cs, const std::string &pre, int rows) {
    SolverCfg s = gen_solver(t, cs.prm, pre + "solver.", rows, 4, false);
    cs.cfg << "[" << s.str() << " ";
    gen_rp(t, cs, pre + "precond.", rows, 1, 1);
    cs.cfg << "]";
}

template <class S> static void observe(Digest &D, const S &s, const Case &cs, size_t &levels) {
    observe_print(D, s);
    levels = printed_levels(D);
    observe_apply(D, s.precond(), cs.f, cs.v1, 0.0);
    observe_solves(D, s, cs.f, 0.0, !cs.sc.stateful);
}

static void execute(const Case &cs, Digest &D, bool pre, size_t &levels) {
    if (pre) prehistory(cs.prehist);
    const size_t n = static_cast<size_t>(cs.A.n);
    std::vector<std::vector<double>> ns(cs.pcs.size());
    // user-owned parameter arrays: exact-size heap blocks
    size_t npm = cs.pmask.size(), nw = cs.weights.size(), nz = cs.Z.size();
    char *pmask = new char[npm ? npm : 1]; double *weights = new double[nw ? nw : 1]; double *Z = new double[nz ? nz : 1];
    if (npm) std::memcpy(pmask, cs.pmask.data(), npm);
    if (nw) std::memcpy(weights, cs.weights.data(), nw * sizeof(double));
    if (nz) std::memcpy(Z, cs.Z.data(), nz * sizeof(double));
    Csr<double> T = cs.A;
    std::string fail;
    try {
        ptree prm = cs.prm;
        for (size_t k = 0; k < cs.pcs.size(); ++k) bind_nullspace(cs.pcs[k], prm, ns[k]);
        auto Tt = std::tie(n, T.ptr, T.col, T.val);
        switch (cs.kind) {
        case 0: { RS S(Tt, prm); observe(D, S, cs, levels); } break;
        case 1: {
            if (cs.pmask_ptr) prm.put("precond.pmask", static_cast<void *>(pmask));
            amgcl::make_solver<Schur, IS> S(Tt, prm); observe(D, S, cs, levels);
        } break;
        case 2: { amgcl::make_solver<CPR, IS> S(Tt, prm); observe(D, S, cs, levels); } break;
        case 3: {
            if (nw) { prm.put("precond.weights", static_cast<void *>(weights)); prm.put("precond.weights_size", nw); }
            amgcl::make_solver<DRS, IS> S(Tt, prm); observe(D, S, cs, levels);
        } break;
        default: {
            prm.put("nvec", cs.nvec); prm.put("vec", Z);
            DEFL S(Tt, prm);
            observe_print(D, S);
            levels = printed_levels(D);
            observe_apply(D, S, cs.f, cs.v1, 0.0); // deflated_solver::apply = precondition + project
            observe_solves(D, S, cs.f, 0.0, !cs.sc.stateful);
        } break;
        }
    } catch (const vf::Fail &e) { fail = e.what();
    } catch (const amgcl::error::empty_level &) { D.exc("empty_level");
    } catch (const std::exception &e) { D.exc(e.what()); }
    bool same = (!npm || std::memcmp(pmask, cs.pmask.data(), npm) == 0) && (!nw || std::memcmp(weights, cs.weights.data(), nw * sizeof(double)) == 0) && (!nz || std::memcmp(Z, cs.Z.data(), nz * sizeof(double)) == 0)
                && T.ptr == cs.A.ptr && T.col == cs.A.col && std::memcmp(T.val.data(), cs.A.val.data(), T.val.size() * sizeof(double)) == 0;
    delete[] pmask; delete[] weights; delete[] Z;
    if (!fail.empty()) throw vf::Fail(fail);
    VF_REQUIRE(same, KIND[cs.kind] << ": a user-owned array (matrix, pmask, weights or deflation vectors) was modified");
    for (size_t k = 0; k < cs.pcs.size(); ++k) VF_REQUIRE(ns[k] == (cs.pcs[k].ns_cols ? cs.pcs[k].ns : std::vector<double>()), "the user's near-null-space array was modified");
}

static void decode(Tape &t, Ctx &c, Case &cs, bool &structured, bool &degenerate) {
    cs.kind = static_cast<int>(t.u(0, 4));
    int cls; std::string dclass;
    int vcls = static_cast<int>(t.u(0, 2));
    bool shuffled = false;
    std::ostringstream extra;
    if (cs.kind == 0) {
        Graph g = gen_class_graph(t, 64, cls, dclass);
        cs.A = gen_sdd(t, g, vcls);
        int k = static_cast<int>(t.u(0, 9)); // mostly dummy / nested: plain amg and relaxation are the subject of the other harnesses
        if (k <= 2) { cs.prm.put("precond.class", "dummy"); cs.cfg << "{dummy}"; c.label("top:dummy"); }
        else if (k <= 7) {
            cs.prm.put("precond.class", "nested"); cs.cfg << "{nested ";
            SolverCfg s = gen_solver(t, cs.prm, "precond.solver.", g.n, 4, false); cs.cfg << s.str() << " ";
            gen_rp(t, cs, "precond.precond.", g.n, 1, 1); cs.cfg << "}"; c.label("top:nested");
        } else { cs.pcs.push_back(gen_precond(t, cs.prm, "precond.", PrecondOpts(g.n).cls())); cs.cfg << "{" << cs.pcs.back().str() << "}"; c.label("top:amg/relaxation"); }
        structured = g.n >= 2 && cs.A.nnz() > g.n;
    } else if (cs.kind == 1) {
        Graph g = gen_class_graph(t, 48, cls, dclass);
        if (g.n < 2) { g = Graph(); g.n = 2; g.family = "2x2-diagonal"; dclass = "2x2"; }
        cs.A = gen_sdd(t, g, vcls);
        shuffled = t.b() ? shuffle_rows(t, cs.A) : false;
        int n = g.n, form = static_cast<int>(t.u(0, 3));
        cs.pmask.assign(n, 0);
        cs.prm.put("precond.pmask_size", n);
        if (form == 0) { // raw array: random positions, at least one of each kind
            for (int i = 0; i < n; ++i) cs.pmask[i] = t.chance(1, 3) ? 1 : 0;
            int ip = static_cast<int>(t.pick(n)), iu = static_cast<int>(t.pick(n - 1)); if (iu >= ip) ++iu;
            cs.pmask[ip] = 1; cs.pmask[iu] = 0;
            cs.pmask_ptr = true; extra << " pmask=array";
        } else if (form == 1) { // "%start:stride" (single-digit start, as the parser expects); stride >= 2 or start >= 1 keeps a flow unknown
            int start = static_cast<int>(t.u(0, std::min(9, n - 1))), stride = static_cast<int>(t.u(start == 0 ? 2 : 1, 5));
            for (int i = start; i < n; i += stride) cs.pmask[i] = 1;
            std::string pat = "%" + std::to_string(start) + ":" + std::to_string(stride);
            cs.prm.put("precond.pmask_pattern", pat); extra << " pmask=" << pat;
        } else {
            int m = static_cast<int>(t.u(1, n - 1));
            for (int i = 0; i < n; ++i) cs.pmask[i] = form == 2 ? (i < m) : (i >= m);
            std::string pat = (form == 2 ? "<" : ">") + std::to_string(m);
            cs.prm.put("precond.pmask_pattern", pat); extra << " pmask=" << pat;
        }
        int np = 0; for (char m : cs.pmask) np += m; int nu = n - np;
        int type = static_cast<int>(t.u(1, 2)), adjust_p = static_cast<int>(t.u(0, 2)); bool approx = t.b(), simplec = t.b();
        cs.prm.put("precond.type", type); cs.prm.put("precond.adjust_p", adjust_p); cs.prm.put("precond.approx_schur", approx); cs.prm.put("precond.simplec_dia", simplec);
        extra << " np=" << np << " nu=" << nu << " type=" << type << " adjust_p=" << adjust_p << " approx_schur=" << approx << " simplec_dia=" << simplec;
        cs.cfg << "U"; gen_rs(t, cs, "precond.usolver.", nu);
        cs.cfg << " P"; gen_rs(t, cs, "precond.psolver.", np);
        bool up = false, pu = false;
        for (ptrdiff_t i = 0; i < cs.A.n; ++i) for (ptrdiff_t j = cs.A.ptr[i]; j < cs.A.ptr[i + 1]; ++j) { if (!cs.pmask[i] && cs.pmask[cs.A.col[j]]) up = true; if (cs.pmask[i] && !cs.pmask[cs.A.col[j]]) pu = true; }
        structured = up && pu;
        c.label("pmask-form=" + std::to_string(form)); c.label("schur-type=" + std::to_string(type)); c.label("adjust_p=" + std::to_string(adjust_p));
        if (np == 1 || nu == 1) c.label("single-unknown-part");
        if (!up && !pu) c.label("uncoupled-parts");
    } else if (cs.kind == 2 || cs.kind == 3) {
        int bs = static_cast<int>(t.u(2, 3));
        Graph g = gen_class_graph(t, 60 / bs, cls, dclass);
        int fill8 = static_cast<int>(t.u(2, 8)); bool dense_diag = !t.chance(1, 4);
        auto rows = gen_block_sdd_rows(t, g, bs, vcls, fill8, dense_diag);
        int n = g.n * bs;
        cs.A = from_triplets<double>(n, n, rows);
        shuffled = t.b() ? shuffle_rows(t, cs.A) : false;
        cs.prm.put("precond.block_size", bs);
        int N = n;
        if (g.n >= 2 && t.chance(1, 6)) { N = bs * static_cast<int>(t.u(1, g.n - 1)); cs.prm.put("precond.active_rows", N); c.label("active_rows<n"); }
        extra << " block_size=" << bs << " cells=" << g.n << " active_rows=" << (N == n ? 0 : N);
        if (cs.kind == 3) {
            if (t.b()) { double e = t.uni(0.0, 1.0); cs.prm.put("precond.eps_dd", e); extra << " eps_dd=" << e; }
            if (t.b()) { double e = t.uni(0.0, 0.5); cs.prm.put("precond.eps_ps", e); extra << " eps_ps=" << e; }
            if (t.chance(1, 3)) { cs.weights.resize(N); for (auto &w : cs.weights) w = t.uni(0.1, 2.0); extra << " weights"; c.label("drs-weights"); }
        }
        cs.cfg << "P"; cs.pcs.push_back(gen_precond(t, cs.prm, "precond.pprecond.", PrecondOpts(N / bs).amg_only()));
        cs.cfg << "{" << cs.pcs.back().str() << "} S";
        int ri = static_cast<int>(t.u(0, 8)); cs.prm.put("precond.sprecond.type", RELAX[ri]); gen_relax_params(t, cs.prm, "precond.sprecond.", ri);
        cs.cfg << "{" << RELAX[ri] << "}";
        structured = g.n >= 2 && !g.edges.empty();
        c.label("block_size=" + std::to_string(bs)); c.label(std::string("sprecond:") + RELAX[ri]);
    } else {
        Graph g = gen_class_graph(t, 64, cls, dclass);
        cs.A = gen_mmat(t, g, 10.0, false);
        shuffled = t.b() ? shuffle_rows(t, cs.A) : false;
        int n = g.n;
        cs.nvec = static_cast<int>(t.u(1, std::min(n, 4)));
        cs.Z.assign(static_cast<size_t>(cs.nvec) * n, 0.0);
        bool weighted = t.b();
        // contiguous, non-empty subdomains: the vectors are linearly independent, Z^T A Z is SPD
        for (int i = 0; i < n; ++i) { int d = static_cast<int>(static_cast<long>(i) * cs.nvec / n); cs.Z[static_cast<size_t>(d) * n + i] = weighted ? static_cast<double>(t.u(1, 3)) : 1.0; }
        extra << " nvec=" << cs.nvec << (weighted ? " weighted" : "");
        gen_rp(t, cs, "precond.", n, 1, 1);
        structured = n > cs.nvec && cs.A.nnz() > n;
        c.label("nvec=" + std::to_string(cs.nvec));
        vcls = 0;
    }
    int n = static_cast<int>(cs.A.n);
    cs.sc = gen_solver(t, cs.prm, "solver.", n, cs.kind == 1 ? 10 : 25, true);
    cs.f = gen_vec(t, n, static_cast<int>(t.u(0, 3)));
    cs.v1 = gen_vec(t, n, 2);
    cs.prehist = gen_prehist(t);
    degenerate = cls <= 3 || vcls == 2;
    for (auto &q : cs.pcs) degenerate = degenerate || q.degenerate();
    c.label(std::string("kind:") + KIND[cs.kind]); c.label("class:" + dclass); c.label(std::string("vals:") + vcls_name(vcls)); c.label(shuffled ? "rows:shuffled" : "rows:sorted");
    c.label(std::string("s:") + SOLVER[cs.sc.si]);
    for (auto &q : cs.pcs) { c.label(q.single_level ? "leaf:relaxation" : std::string("leaf:amg:") + COARSE[q.ci]); if (q.ns_cols) c.label("nullspace"); }
    if (cs.pcs.empty()) c.label("leaf:dummy-only");
    c.desc << KIND[cs.kind] << " " << dclass << " n=" << n << " nnz=" << cs.A.nnz() << " vcls=" << vcls << (shuffled ? " shuffled" : "") << extra.str() << " | " << cs.cfg.str() << " | " << cs.sc.str() << " prehist=" << cs.prehist.size()
           << " A=" << dump_small(cs.A, 6);
}

static void prop_determinism_composite(Tape &t, Ctx &c) {
    Case cs; bool structured = false, degenerate = false;
    decode(t, c, cs, structured, degenerate);
    uint64_t rseed = static_cast<uint64_t>(t.u(1, 1 << 30));
    size_t levels = 0;
    differential(c, rseed, [&](Digest &D, bool pre) { execute(cs, D, pre, levels); }, true);
    c.label("levels=" + std::to_string(std::min<size_t>(levels, 4)));
    if (structured) c.label("structured");
    c.nontrivial = degenerate || levels >= 2 || structured;
}

static std::vector<Prop> props() {
    return {Prop("determinism_composite", prop_determinism_composite, 1500, 15000, 100, 40, {1}, 4, 12)};
}
static std::vector<Enum> enums() { return {}; }
VF_MAIN(props(), enums())
