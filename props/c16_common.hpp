// C16 — helpers shared by c16_lu.cpp and c16_qr.cpp.
#pragma once
#include <complex>
#include <fstream>
#include <iterator>
#include <string>
#include <vector>
#include <unistd.h>
#include "../common/harness.hpp"
#include "../common/gen.hpp"
#include "../common/dense.hpp"

namespace c16 {
using namespace vf;
typedef std::complex<double> cplx;
typedef std::complex<long double> lcplx;
static const long double U53 = 0x1p-53L; // unit roundoff of double

// libgomp's default spinning wait policy makes multi-thread jobs crawl on an oversubscribed machine; the policy is read when
// libgomp is loaded, so select passive waiting by re-executing once before main().  Results do not depend on the policy.
#ifndef VF_FUZZ
namespace {
struct PassiveOmpWait {
    PassiveOmpWait() {
        if (getenv("OMP_WAIT_POLICY")) return;
        setenv("OMP_WAIT_POLICY", "passive", 1);
        std::ifstream f("/proc/self/cmdline", std::ios::binary);
        std::string s((std::istreambuf_iterator<char>(f)), std::istreambuf_iterator<char>());
        std::vector<std::string> args;
        for (size_t b = 0; b < s.size();) { size_t e = s.find('\0', b); if (e == std::string::npos) e = s.size(); args.push_back(s.substr(b, e - b)); b = e + 1; }
        if (args.empty()) return;
        std::vector<char *> argv;
        for (auto &a : args) argv.push_back(const_cast<char *>(a.c_str()));
        argv.push_back(nullptr);
        execv("/proc/self/exe", argv.data());
    }
} passive_omp_wait_;
} // namespace
#endif

inline lcplx L(cplx z) { return lcplx(z.real(), z.imag()); }
inline std::string zs(cplx z) { std::ostringstream os; os.precision(17); if (z.imag() == 0) os << z.real(); else os << "(" << z.real() << "," << z.imag() << ")"; return os.str(); }

// random permutation of 0..n-1 from the tape (Fisher-Yates); word 0 everywhere -> a fixed rotation-free order
inline std::vector<int> gen_perm(Tape &t, int n) {
    std::vector<int> p(n);
    for (int i = 0; i < n; ++i) p[i] = i;
    for (int i = n; i > 1; --i) std::swap(p[i - 1], p[t.pick(i)]);
    return p;
}
inline bool is_permutation_of_n(const std::vector<int> &p, int n, std::string &why) {
    if (static_cast<int>(p.size()) != n) { why = "size " + std::to_string(p.size()); return false; }
    std::vector<char> seen(n, 0);
    for (int i = 0; i < n; ++i) {
        if (p[i] < 0 || p[i] >= n) { why = "perm[" + std::to_string(i) + "]=" + std::to_string(p[i]) + " out of range"; return false; }
        if (seen[p[i]]) { why = "node " + std::to_string(p[i]) + " appears twice"; return false; }
        seen[p[i]] = 1;
    }
    return true;
}

} // namespace c16
