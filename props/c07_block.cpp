// C07 (part 2) — block_crs backend (block sizes 1..5, matrix sizes NOT divisible by the block size) and the
// builtin_hybrid backend (scalar matrix converted to block values, scalar vectors): spmv and residual equal
// y = alpha*A*x + beta*y and r = f - A*x of the ORIGINAL scalar matrix.  Machinery and oracles: c07_common.hpp.
#include <amgcl/backend/block_crs.hpp>
#include <amgcl/backend/builtin_hybrid.hpp>
#include "c07_common.hpp"

using namespace c07;

// ------------------------------------------------------------------ block_crs
template <class T>
void prop_bcrs(Tape &t, Ctx &c) {
    bool exact = !t.b();
    int op = static_cast<int>(t.u(0, 2)) == 2 ? 1 : 0;
    Coef<T> alpha = gen_coef<T>(t, exact), beta = gen_coef<T>(t, exact);
    size_t bs = static_cast<size_t>(t.u(1, 5));
    ptrdiff_t n, m; gen_shape(t, n, m, 120);
    bool sorted = !t.b();
    Csr<T> A = gen_matrix<T>(t, n, m, exact, sorted);
    bool ragged = bs > 1 && ((n % static_cast<ptrdiff_t>(bs)) != 0 || (m % static_cast<ptrdiff_t>(bs)) != 0);
    c.desc << "block_crs<" << sname<T>() << "> bs=" << bs << " threads=" << c.threads << " " << describe(A) << (exact ? " exact" : " real") << (sorted ? " sorted" : " unsorted") << " A=" << dump_vals(A);
    c.label(exact ? "mode:exact" : "mode:real"); c.label("bs=" + std::to_string(bs));
    c.label(ragged ? "ragged" : "divisible");
    if (n % static_cast<ptrdiff_t>(bs)) c.label("ragged-rows");
    if (m % static_cast<ptrdiff_t>(bs)) c.label("ragged-cols");
    c.label(n == 0 ? "zero-rows" : m == 0 ? "zero-cols" : n != m ? "rectangular" : "square");
    Cmp cmp{exact, unit_roundoff<T>(), false};
    auto a = to_crs<T>(A);
    typename ab::block_crs<T>::params prm(bs);
    auto Ab = ab::block_crs<T>::copy_matrix(a, prm);
    VF_REQUIRE(ab::rows(*Ab) == static_cast<size_t>(n) && ab::cols(*Ab) == static_cast<size_t>(m), "block_crs: rows/cols " << ab::rows(*Ab) << "x" << ab::cols(*Ab));
    // the converted matrix holds exactly the entries of A (zero padding elsewhere)
    {
        std::map<std::pair<ptrdiff_t, ptrdiff_t>, T> ent;
        for (ptrdiff_t i = 0; i < n; ++i) for (ptrdiff_t j = A.ptr[i]; j < A.ptr[i + 1]; ++j) ent[{i, A.col[j]}] = A.val[j];
        VF_REQUIRE(Ab->ptr.size() == Ab->brows + 1 && Ab->ptr[0] == 0, "block_crs: ptr array");
        for (size_t ib = 0; ib < Ab->brows; ++ib) {
            std::set<ptrdiff_t> seen;
            for (ptrdiff_t jb = Ab->ptr[ib]; jb < Ab->ptr[ib + 1]; ++jb) {
                VF_REQUIRE(Ab->col[jb] >= 0 && static_cast<size_t>(Ab->col[jb]) < Ab->bcols, "block_crs: block column " << Ab->col[jb] << " out of range");
                VF_REQUIRE(seen.insert(Ab->col[jb]).second, "block_crs: duplicate block column in block row " << ib);
                for (size_t p = 0; p < bs; ++p) for (size_t q = 0; q < bs; ++q) {
                    ptrdiff_t i = ib * bs + p, j = Ab->col[jb] * bs + q;
                    T v = Ab->val[jb * bs * bs + p * bs + q];
                    auto it = ent.find({i, j});
                    T expect = it == ent.end() ? T(0) : it->second;
                    VF_REQUIRE(v == expect, "block_crs: stored value at (" << i << "," << j << ") = " << v << " expected " << expect);
                    if (it != ent.end()) ent.erase(it);
                }
            }
        }
        VF_REQUIRE(ent.empty(), "block_crs: " << ent.size() << " entries of A missing, first (" << ent.begin()->first.first << "," << ent.begin()->first.second << ")");
    }
    std::vector<T> xh = gen_vec<T>(t, m, exact, 5);
    Flat xf = flat(xh), ax; std::vector<Ref> absum; std::vector<int> terms;
    ref_matvec(A, xf, ax, absum, terms);
    if (op == 0) {
        std::vector<T> y0 = gen_vec<T>(t, n, exact, 5);
        bool poisoned = beta.cls == 0; if (poisoned) poison_vec(t, y0);
        c.desc << " spmv alpha=" << alpha.r << " beta=" << beta.r << (poisoned ? " y:=non-finite" : "") << " x=" << dump_vec(xh) << (poisoned ? "" : " y=" + dump_vec(y0));
        c.label(std::string("spmv beta:") + cls_name(beta.cls)); c.label(std::string("spmv alpha:") + cls_name(alpha.cls));
        c.nontrivial = n > 0 && ((ragged && A.nnz() > 0) || poisoned);
        Flat yf = poisoned ? Flat(n) : flat(y0), ref(n); std::vector<Ref> scale(n);
        for (size_t i = 0; i < ref.size(); ++i) {
            ref[i] = alpha.r * ax[i]; scale[i] = mag(alpha.r) * absum[i];
            if (!poisoned) { ref[i] = ref[i] + beta.r * yf[i]; scale[i] += mag(beta.r) * mag(yf[i]); }
        }
        ab::numa_vector<T> xs(xh), ys(y0); // exact sizes n and m: any access past the ragged edge is out of bounds (ASan twin)
        ab::spmv(alpha.v, *Ab, xs, beta.v, ys);
        VF_REQUIRE(all_finite(ys), "block_crs spmv: non-finite output (beta=" << beta.r << ")");
        cmp.check(flat(ys), ref, scale, terms, "block_crs spmv y=alpha*A*x+beta*y");
    } else {
        std::vector<T> fh = gen_vec<T>(t, n, exact, 5), r0(n); poison_vec(t, r0);
        c.desc << " residual f=" << dump_vec(fh) << " x=" << dump_vec(xh);
        c.label("residual");
        c.nontrivial = n > 0 && A.nnz() > 0;
        Flat ff = flat(fh), ref(n); std::vector<Ref> scale(n);
        for (size_t i = 0; i < ref.size(); ++i) { ref[i] = ff[i] - ax[i]; scale[i] = mag(ff[i]) + absum[i]; }
        ab::numa_vector<T> fs(fh), xs(xh), rs(r0);
        ab::residual(fs, *Ab, xs, rs);
        VF_REQUIRE(all_finite(rs), "block_crs residual: non-finite output");
        cmp.check(flat(rs), ref, scale, terms, "block_crs residual r=f-A*x");
    }
}

// ------------------------------------------------------------------ builtin_hybrid
template <int B>
void prop_hybrid(Tape &t, Ctx &c) {
    typedef amgcl::static_matrix<double, B, B> Blk;
    typedef ab::builtin_hybrid<Blk> Backend;
    bool exact = !t.b();
    int op = static_cast<int>(t.u(0, 2)) == 2 ? 1 : 0;
    Coef<double> alpha = gen_coef<double>(t, exact), beta = gen_coef<double>(t, exact);
    int cls = static_cast<int>(t.u(0, 2));
    int hi = cls == 0 ? 2 : cls == 1 ? 8 : 40;
    ptrdiff_t nb = t.u(0, hi), mb = t.b() ? t.u(0, hi) : nb;
    int off = t.chance(1, 8) ? static_cast<int>(t.u(1, B - 1)) : 0; // size not divisible by the block size: must be rejected cleanly
    ptrdiff_t n = nb * B + off, m = mb * B;
    Csr<double> A = gen_matrix<double>(t, n, m, exact, true); // amg sorts every matrix before Backend::copy_matrix
    c.desc << "builtin_hybrid<" << B << "x" << B << "> threads=" << c.threads << " " << describe(A) << (exact ? " exact" : " real") << " A=" << dump_vals(A);
    c.label(exact ? "mode:exact" : "mode:real");
    auto a = to_crs<double>(A);
    typename Backend::params prm;
    if (off) {
        c.label("indivisible-size-rejected");
        bool thrown = false;
        try { auto Ab = Backend::copy_matrix(a, prm); } catch (const std::runtime_error &) { thrown = true; }
        VF_REQUIRE(thrown, "builtin_hybrid::copy_matrix accepted a " << n << "x" << m << " matrix with block size " << B);
        return;
    }
    auto Ab = Backend::copy_matrix(a, prm);
    require_wellformed(*Ab, "builtin_hybrid::copy_matrix", true, true);
    VF_REQUIRE(static_cast<ptrdiff_t>(Ab->nrows) == nb && static_cast<ptrdiff_t>(Ab->ncols) == mb, "builtin_hybrid: block shape " << Ab->nrows << "x" << Ab->ncols);
    { // block matrix holds exactly the entries of A
        std::map<std::pair<ptrdiff_t, ptrdiff_t>, double> ent;
        for (ptrdiff_t i = 0; i < n; ++i) for (ptrdiff_t j = A.ptr[i]; j < A.ptr[i + 1]; ++j) ent[{i, A.col[j]}] = A.val[j];
        for (ptrdiff_t ib = 0; ib < nb; ++ib) for (ptrdiff_t jb = Ab->ptr[ib]; jb < Ab->ptr[ib + 1]; ++jb)
            for (int p = 0; p < B; ++p) for (int q = 0; q < B; ++q) {
                auto it = ent.find({ib * B + p, Ab->col[jb] * B + q});
                double expect = it == ent.end() ? 0.0 : it->second;
                VF_REQUIRE(Ab->val[jb](p, q) == expect, "builtin_hybrid: block entry (" << ib * B + p << "," << Ab->col[jb] * B + q << ") = " << Ab->val[jb](p, q) << " expected " << expect);
                if (it != ent.end()) ent.erase(it);
            }
        VF_REQUIRE(ent.empty(), "builtin_hybrid: " << ent.size() << " entries of A missing from the block matrix");
    }
    Cmp cmp{exact, unit_roundoff<double>(), false};
    std::vector<double> xh = gen_vec<double>(t, m, exact, 5);
    Flat xf = flat(xh), ax; std::vector<Ref> absum; std::vector<int> terms;
    ref_matvec(A, xf, ax, absum, terms);
    for (auto &k : terms) k = k + B; // the block kernel also adds the zero padding of incomplete blocks
    if (op == 0) {
        std::vector<double> y0 = gen_vec<double>(t, n, exact, 5);
        bool poisoned = beta.cls == 0; if (poisoned) poison_vec(t, y0);
        c.desc << " spmv alpha=" << alpha.r << " beta=" << beta.r << (poisoned ? " y:=non-finite" : "");
        c.label(std::string("spmv beta:") + cls_name(beta.cls));
        c.nontrivial = n > 0 && A.nnz() > 0;
        Flat yf = poisoned ? Flat(n) : flat(y0), ref(n); std::vector<Ref> scale(n);
        for (size_t i = 0; i < ref.size(); ++i) {
            ref[i] = alpha.r * ax[i]; scale[i] = mag(alpha.r) * absum[i];
            if (!poisoned) { ref[i] = ref[i] + beta.r * yf[i]; scale[i] += mag(beta.r) * mag(yf[i]); }
        }
        typename Backend::vector xs(xh), ys(y0); // numa_vector<double>: the scalar vectors of the hybrid backend
        ab::spmv(alpha.v, *Ab, xs, beta.v, ys);
        VF_REQUIRE(all_finite(ys), "builtin_hybrid spmv: non-finite output (beta=" << beta.r << ")");
        cmp.check(flat(ys), ref, scale, terms, "builtin_hybrid spmv (block matrix, scalar vectors)");
        if (exact) { // identical to the scalar builtin backend on exact data
            ab::numa_vector<double> y2(y0); ab::spmv(alpha.v, *a, xs, beta.v, y2);
            require_same(y2, ys, "builtin_hybrid spmv vs scalar builtin spmv");
            // the converse mix: SCALAR matrix applied to BLOCK-valued vectors (reinterpreted as scalars)
            typedef amgcl::static_matrix<double, B, 1> RB;
            ab::numa_vector<RB> xb(static_cast<size_t>(mb)), yb(static_cast<size_t>(nb));
            for (ptrdiff_t i = 0; i < mb; ++i) for (int p = 0; p < B; ++p) xb[i](p) = xh[i * B + p];
            for (ptrdiff_t i = 0; i < nb; ++i) for (int p = 0; p < B; ++p) yb[i](p) = y0[i * B + p];
            ab::spmv(alpha.v, *a, xb, beta.v, yb);
            require_same(yb, ys, "scalar matrix with block-valued vectors vs scalar vectors");
            c.label("scalar-matrix-block-vectors");
        }
    } else {
        std::vector<double> fh = gen_vec<double>(t, n, exact, 5), r0(n); poison_vec(t, r0);
        c.desc << " residual";
        c.label("residual");
        c.nontrivial = n > 0 && A.nnz() > 0;
        Flat ff = flat(fh), ref(n); std::vector<Ref> scale(n);
        for (size_t i = 0; i < ref.size(); ++i) { ref[i] = ff[i] - ax[i]; scale[i] = mag(ff[i]) + absum[i]; }
        typename Backend::vector fs(fh), xs(xh), rs(r0);
        ab::residual(fs, *Ab, xs, rs);
        VF_REQUIRE(all_finite(rs), "builtin_hybrid residual: non-finite output");
        cmp.check(flat(rs), ref, scale, terms, "builtin_hybrid residual (block matrix, scalar vectors)");
    }
}

static std::vector<Prop> props() {
    std::vector<int> th = {1, 4};
    return {
        Prop("bcrs_double", prop_bcrs<double>, 2500, 25000, 100, 120, th, 2, 4),
        Prop("bcrs_float", prop_bcrs<float>, 1500, 15000, 100, 120, th, 1, 2),
        Prop("hybrid_2", prop_hybrid<2>, 1200, 12000, 100, 120, th, 1, 2),
        Prop("hybrid_3", prop_hybrid<3>, 1000, 10000, 100, 120, th, 1, 2),
        Prop("hybrid_4", prop_hybrid<4>, 1000, 10000, 100, 120, th, 1, 2),
    };
}
static std::vector<Enum> enums() { return {}; }

VF_MAIN(props(), enums())
