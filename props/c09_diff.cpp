// C09 (part 2) — thread-count differential: the same generated case is executed under
// omp_set_num_threads(T) for T in {1,2,3,4,5,8,16,17,24,32} inside one process and the results are compared:
// bitwise where the property says bitwise, within a stated rounding bound where it allows rounding.
#include <complex>
#include <boost/property_tree/ptree.hpp>
#include <amgcl/value_type/complex.hpp>
#include <amgcl/backend/builtin.hpp>
#include <amgcl/adapter/crs_tuple.hpp>
#include <amgcl/amg.hpp>
#include <amgcl/make_solver.hpp>
#include <amgcl/coarsening/runtime.hpp>
#include <amgcl/relaxation/runtime.hpp>
#include <amgcl/solver/runtime.hpp>
#include <amgcl/relaxation/gauss_seidel.hpp>
#include "../common/harness.hpp"
#include "../common/gen.hpp"
#include "../common/dense.hpp"
#include "../common/amgcl_util.hpp"
#include "../common/access.hpp"

using namespace vf;
namespace ab = amgcl::backend;
typedef ab::builtin<double> B;
typedef amgcl_verif::access acc;
typedef amgcl::amg<B, amgcl::runtime::coarsening::wrapper, amgcl::runtime::relaxation::wrapper> AMG;

static const int TH[] = {1, 2, 3, 4, 5, 8, 16, 17, 24, 32};
static const int NTH = 10;
// hierarchies are built under a subset (every algorithm switch has a count on each side: 3|4 serial/level-scheduled, 16|17 SpGEMM)
static const int HQ[] = {0, 1, 2, 3, 4, 6, 7, 8};   // indices into TH: 1,2,3,4,5,16,17,24
static const int NHQ = 8;

static bool same_bits(const std::vector<double> &a, const std::vector<double> &b) {
    return a.size() == b.size() && (a.empty() || memcmp(a.data(), b.data(), a.size() * sizeof(double)) == 0);
}
static bool same_csr(const Csr<double> &a, const Csr<double> &b) {
    return a.n == b.n && a.m == b.m && a.ptr == b.ptr && a.col == b.col && same_bits(a.val, b.val);
}
// |a-b| <= tol * scale entrywise, same structure
static bool close_csr(const Csr<double> &a, const Csr<double> &b, double tol, std::string &why) {
    if (!(a.n == b.n && a.m == b.m && a.ptr == b.ptr && a.col == b.col)) { why = "structure differs"; return false; }
    double mx = 0; for (double v : a.val) mx = std::max(mx, std::abs(v));
    for (size_t i = 0; i < a.val.size(); ++i) if (!(std::abs(a.val[i] - b.val[i]) <= tol * mx) && !(std::isnan(a.val[i]) && std::isnan(b.val[i]))) { std::ostringstream os; os << "value " << i << ": " << a.val[i] << " vs " << b.val[i] << " (max " << mx << ")"; why = os.str(); return false; }
    return true;
}

// random real sparse matrix (values are NOT exactly representable sums, so summation order is visible)
static Csr<double> gen_real_sparse(Tape &t, ptrdiff_t n, ptrdiff_t m, bool sorted) {
    Csr<double> A = gen_sparse_int(t, n, m, 1, sorted);
    for (auto &v : A.val) v = t.slogu(1e-2, 1e2);
    return A;
}

// ------------------------------------------------------------------ kernels
static void prop_kernels(Tape &t, Ctx &c) {
    int cls = static_cast<int>(t.u(0, 2));
    ptrdiff_t hi = cls == 0 ? 6 : cls == 1 ? 40 : 250;
    ptrdiff_t n = t.u(1, hi), k = t.u(1, hi), m = t.u(1, hi);
    Csr<double> A = gen_real_sparse(t, n, k, t.b()), Bm = gen_real_sparse(t, k, m, true), A2 = gen_real_sparse(t, n, k, t.b());
    std::vector<double> x = gen_vec(t, k, 3), y0 = gen_vec(t, n, 3), z = gen_vec(t, n, 3);
    double alpha = t.slogu(0.1, 10), beta = t.b() ? 0.0 : t.slogu(0.1, 10);
    c.desc << "kernels " << describe(A, "A") << " " << describe(Bm, "B") << " alpha=" << alpha << " beta=" << beta;
    long acc_entries = 0; { std::vector<int> cnt(m); for (ptrdiff_t i = 0; i < n; ++i) { std::fill(cnt.begin(), cnt.end(), 0); for (ptrdiff_t j = A.ptr[i]; j < A.ptr[i + 1]; ++j) for (ptrdiff_t l = Bm.ptr[A.col[j]]; l < Bm.ptr[A.col[j] + 1]; ++l) if (++cnt[Bm.col[l]] >= 3) ++acc_entries; } }
    c.nontrivial = A.nnz() >= 2 && Bm.nnz() >= 2;
    c.label(acc_entries ? "product-has-3term-sum" : "product-no-3term-sum");

    std::vector<Csr<double>> prod(NTH), tr(NTH), sm(NTH);
    std::vector<std::vector<double>> sp(NTH), res(NTH), ax(NTH), ax3(NTH), vm(NTH);
    std::vector<double> ip(NTH), gersh(NTH);
    for (int q = 0; q < NTH; ++q) {
        set_threads(TH[q]);
        auto a = to_crs<double>(A), b = to_crs<double>(Bm), a2 = to_crs<double>(A2);
        prod[q] = from_crs(*ab::product(*a, *b, true));
        tr[q] = from_crs(*ab::transpose(*a));
        sm[q] = from_crs(*ab::sum(alpha, *a, beta, *a2, true));
        std::vector<double> y = y0; ab::spmv(alpha, *a, x, beta, y); sp[q] = y;
        std::vector<double> r(n); ab::residual(y0, *a, x, r); res[q] = r;
        std::vector<double> w = z; ab::axpby(alpha, y0, beta, w); ax[q] = w;
        std::vector<double> w3 = z; ab::axpbypcz(alpha, y0, beta, z, 0.5, w3); ax3[q] = w3;
        std::vector<double> w4 = z; ab::vmul(alpha, y0, z, beta, w4); vm[q] = w4;
        ip[q] = ab::inner_product(y0, z);
    }
    set_threads(c.threads);
    for (int q = 1; q < NTH; ++q) {
        VF_REQUIRE(same_csr(tr[q], tr[0]), "transpose differs between 1 and " << TH[q] << " threads");
        VF_REQUIRE(same_csr(sm[q], sm[0]), "sum differs between 1 and " << TH[q] << " threads");
        VF_REQUIRE(same_bits(sp[q], sp[0]), "spmv differs between 1 and " << TH[q] << " threads");
        VF_REQUIRE(same_bits(res[q], res[0]), "residual differs between 1 and " << TH[q] << " threads");
        VF_REQUIRE(same_bits(ax[q], ax[0]), "axpby differs between 1 and " << TH[q] << " threads");
        VF_REQUIRE(same_bits(ax3[q], ax3[0]), "axpbypcz differs between 1 and " << TH[q] << " threads");
        VF_REQUIRE(same_bits(vm[q], vm[0]), "vmul differs between 1 and " << TH[q] << " threads");
        // product: bitwise inside {1..16} (marker algorithm) and inside {17..32} (row-merge algorithm)
        int ref = TH[q] <= 16 ? 0 : 7;
        VF_REQUIRE(same_csr(prod[q], prod[ref]), "product differs between " << TH[ref] << " and " << TH[q] << " threads");
    }
    // inner product: cross-thread reduction -> rounding bound n*u*sum|x_i y_i|
    long double ref = 0, sabs = 0;
    for (ptrdiff_t i = 0; i < n; ++i) { ref += static_cast<long double>(y0[i]) * z[i]; sabs += std::abs(static_cast<long double>(y0[i]) * z[i]); }
    for (int q = 0; q < NTH; ++q)
        VF_REQUIRE(std::abs(ip[q] - ref) <= (n + 4) * 1.2e-16L * sabs, "inner_product at " << TH[q] << " threads: " << ip[q] << " vs " << static_cast<double>(ref));
    // across the 16/17 switch the product may differ by summation order only
    std::string why;
    VF_REQUIRE(close_csr(prod[7], prod[0], 64 * 2.3e-16 * (k + 1), why), "product differs beyond rounding between 16 and 17 threads: " << why);
}

// ------------------------------------------------------------------ kernels on complex values (the element inner product is not symmetric there)
typedef std::complex<double> Z;
static bool same_bits_z(const std::vector<Z> &a, const std::vector<Z> &b) {
    return a.size() == b.size() && (a.empty() || memcmp(a.data(), b.data(), a.size() * sizeof(Z)) == 0);
}
static bool same_csr_z(const Csr<Z> &a, const Csr<Z> &b) {
    return a.n == b.n && a.m == b.m && a.ptr == b.ptr && a.col == b.col && same_bits_z(a.val, b.val);
}
static Csr<Z> gen_complex_sparse(Tape &t, ptrdiff_t n, ptrdiff_t m, bool sorted) {
    Csr<double> P = gen_sparse_int(t, n, m, 1, sorted);
    Csr<Z> A; A.n = P.n; A.m = P.m; A.ptr = P.ptr; A.col = P.col; A.val.resize(P.val.size());
    for (auto &v : A.val) v = Z(t.slogu(1e-2, 1e2), t.chance(1, 8) ? 0.0 : t.slogu(1e-2, 1e2));
    return A;
}
static std::vector<Z> gen_vec_z(Tape &t, size_t n) {
    std::vector<double> re = gen_vec(t, n, 3), im = gen_vec(t, n, 3);
    std::vector<Z> v(n); for (size_t i = 0; i < n; ++i) v[i] = Z(re[i], im[i]);
    return v;
}
static void prop_kernels_complex(Tape &t, Ctx &c) {
    int cls = static_cast<int>(t.u(0, 2));
    ptrdiff_t hi = cls == 0 ? 6 : cls == 1 ? 40 : 200;
    ptrdiff_t n = t.u(1, hi), k = t.u(1, hi), m = t.u(1, hi);
    Csr<Z> A = gen_complex_sparse(t, n, k, t.b()), Bm = gen_complex_sparse(t, k, m, true);
    std::vector<Z> x = gen_vec_z(t, k), y0 = gen_vec_z(t, n), z = gen_vec_z(t, n);
    Z alpha(t.slogu(0.1, 10), t.slogu(0.1, 10)), beta = t.b() ? Z(0.0) : Z(t.slogu(0.1, 10), t.slogu(0.1, 10));
    c.desc << "complex kernels n=" << n << " k=" << k << " m=" << m << " nnz(A)=" << A.nnz() << " nnz(B)=" << Bm.nnz() << " alpha=" << alpha << " beta=" << beta;
    bool genuinely_complex = false;
    for (ptrdiff_t i = 0; i < n; ++i) if ((y0[i] * std::conj(z[i])).imag() != 0) genuinely_complex = true;
    c.nontrivial = A.nnz() >= 2 && Bm.nnz() >= 2 && genuinely_complex;
    c.label(genuinely_complex ? "inner-product-not-real" : "inner-product-real");
    std::vector<Csr<Z>> prod(NTH), tr(NTH);
    std::vector<std::vector<Z>> sp(NTH), res(NTH), ax(NTH), ax3(NTH), vm(NTH);
    std::vector<Z> ip(NTH);
    for (int q = 0; q < NTH; ++q) {
        set_threads(TH[q]);
        auto a = to_crs<Z>(A), b = to_crs<Z>(Bm);
        prod[q] = from_crs(*ab::product(*a, *b, true));
        tr[q] = from_crs(*ab::transpose(*a));
        std::vector<Z> y = y0; ab::spmv(alpha, *a, x, beta, y); sp[q] = y;
        std::vector<Z> r(n); ab::residual(y0, *a, x, r); res[q] = r;
        std::vector<Z> w = z; ab::axpby(alpha, y0, beta, w); ax[q] = w;
        std::vector<Z> w3 = z; ab::axpbypcz(alpha, y0, beta, z, Z(0.5, -0.25), w3); ax3[q] = w3;
        std::vector<Z> w4 = z; ab::vmul(alpha, y0, z, beta, w4); vm[q] = w4;
        ip[q] = ab::inner_product(y0, z);
    }
    set_threads(c.threads);
    for (int q = 1; q < NTH; ++q) {
        VF_REQUIRE(same_csr_z(tr[q], tr[0]), "complex transpose differs between 1 and " << TH[q] << " threads");
        VF_REQUIRE(same_bits_z(sp[q], sp[0]), "complex spmv differs between 1 and " << TH[q] << " threads");
        VF_REQUIRE(same_bits_z(res[q], res[0]), "complex residual differs between 1 and " << TH[q] << " threads");
        VF_REQUIRE(same_bits_z(ax[q], ax[0]), "complex axpby differs between 1 and " << TH[q] << " threads");
        VF_REQUIRE(same_bits_z(ax3[q], ax3[0]), "complex axpbypcz differs between 1 and " << TH[q] << " threads");
        VF_REQUIRE(same_bits_z(vm[q], vm[0]), "complex vmul differs between 1 and " << TH[q] << " threads");
        int ref = TH[q] <= 16 ? 0 : 7;
        VF_REQUIRE(same_csr_z(prod[q], prod[ref]), "complex product differs between " << TH[ref] << " and " << TH[q] << " threads");
    }
    // inner product <x,y> = sum x_i conj(y_i): the same value at every thread count up to the summation-order rounding bound
    std::complex<long double> ref(0, 0); long double sabs = 0;
    for (ptrdiff_t i = 0; i < n; ++i) {
        std::complex<long double> a(y0[i].real(), y0[i].imag()), b(z[i].real(), -z[i].imag());
        ref += a * b; sabs += std::abs(a) * std::abs(b);
    }
    for (int q = 0; q < NTH; ++q) {
        std::complex<long double> g(ip[q].real(), ip[q].imag());
        VF_REQUIRE(std::abs(g - ref) <= (n + 8) * 2.5e-16L * sabs, "complex inner_product at " << TH[q] << " threads: " << ip[q] << " vs (" << static_cast<double>(ref.real()) << "," << static_cast<double>(ref.imag()) << ") [1 thread: " << ip[0] << "]");
    }
}

// product bitwise across the 16 -> 17 thread switch (property demands it; see known finding F-rmerge)
static void prop_product_cross(Tape &t, Ctx &c) {
    int cls = static_cast<int>(t.u(0, 1));
    ptrdiff_t hi = cls == 0 ? 8 : 80;
    ptrdiff_t n = t.u(1, hi), k = t.u(1, hi), m = t.u(1, hi);
    Csr<double> A = gen_real_sparse(t, n, k, true), Bm = gen_real_sparse(t, k, m, true);
    c.desc << "product 16 vs 17 threads " << describe(A, "A") << " " << describe(Bm, "B") << " A=" << dump_small(A, 4) << " B=" << dump_small(Bm, 4);
    set_threads(16); auto a = to_crs<double>(A), b = to_crs<double>(Bm);
    Csr<double> p16 = from_crs(*ab::product(*a, *b, true));
    set_threads(17);
    Csr<double> p17 = from_crs(*ab::product(*a, *b, true));
    set_threads(c.threads);
    c.nontrivial = A.nnz() >= 3 && Bm.nnz() >= 3;
    if (same_csr(p16, p17)) { c.label("cross-equal"); return; }
    c.label("cross-differs");
    std::string why;
    VF_REQUIRE(close_csr(p16, p17, 64 * 2.3e-16 * (k + 1), why), "product differs beyond rounding between 16 and 17 threads: " << why);
    // differs only in the last bits: the listed finding
    if (c.known("F-rmerge")) return;
    VF_REQUIRE(false, "product(A,B) is not bitwise identical for 16 and 17 threads (row-merge SpGEMM sums in a different order)");
}

// ------------------------------------------------------------------ Gauss-Seidel sweeps
static void prop_gs(Tape &t, Ctx &c) {
    Graph g = gen_graph(t, t.chance(1, 3) ? 300 : 40);
    int q8 = static_cast<int>(t.u(0, 4));
    std::vector<std::map<ptrdiff_t, double>> rows(g.n);
    bool nonsym = false;
    for (auto &e : g.edges) { bool k1 = !t.chance(q8, 8), k2 = !t.chance(q8, 8); if (k1) rows[e.first][e.second] = -t.logu(0.1, 10); if (k2) rows[e.second][e.first] = -t.logu(0.1, 10); nonsym = nonsym || k1 != k2; }
    for (int i = 0; i < g.n; ++i) { double s = 0; for (auto &kv : rows[i]) s += std::abs(kv.second); rows[i][i] = s + t.logu(0.1, 2); }
    Csr<double> A = from_triplets<double>(g.n, g.n, rows);
    std::vector<double> rhs = gen_vec(t, g.n, 2), x0 = gen_vec(t, g.n, 2), tmp(g.n);
    c.desc << "gauss_seidel " << g.family << " n=" << g.n << " nnz=" << A.nnz() << (nonsym ? " nonsym" : " sym");
    c.nontrivial = A.nnz() > g.n + 2;
    c.label(nonsym ? "struct-nonsym" : "struct-sym");
    typedef amgcl::relaxation::gauss_seidel<B> GS;
    std::vector<std::vector<double>> pre(NTH), post(NTH), app(NTH);
    for (int q = 0; q < NTH; ++q) {
        set_threads(TH[q]);
        auto a = to_crs<double>(A);
        GS gs(*a, GS::params(), B::params());
        VF_REQUIRE(gs.is_serial == (TH[q] < 4), "serial fallback below 4 threads: is_serial=" << gs.is_serial << " at " << TH[q] << " threads");
        std::vector<double> x = x0; gs.apply_pre(*a, rhs, x, tmp); pre[q] = x;
        x = x0; gs.apply_post(*a, rhs, x, tmp); post[q] = x;
        x = x0; gs.apply(*a, rhs, x); app[q] = x;
    }
    set_threads(c.threads);
    for (int q = 1; q < NTH; ++q) {
        VF_REQUIRE(same_bits(pre[q], pre[0]), "Gauss-Seidel forward sweep differs between 1 and " << TH[q] << " threads");
        VF_REQUIRE(same_bits(post[q], post[0]), "Gauss-Seidel backward sweep differs between 1 and " << TH[q] << " threads");
        VF_REQUIRE(same_bits(app[q], app[0]), "Gauss-Seidel apply differs between 1 and " << TH[q] << " threads");
    }
}

// ------------------------------------------------------------------ hierarchies
struct Hier { std::vector<Csr<double>> A, P, R; std::vector<std::vector<double>> app; std::string exc; };

static Hier build(const Csr<double> &A, const boost::property_tree::ptree &prm_, const std::vector<std::vector<double>> &rhs,
                  const std::vector<double> &ns = std::vector<double>(), int ns_cols = 0) {
    Hier h;
    auto tup = std::make_tuple(static_cast<size_t>(A.n), A.ptr, A.col, A.val);
    boost::property_tree::ptree prm = prm_;
    std::vector<double> nsc = ns; // the coarsening overwrites the user's near-null-space array: a fresh copy per build
    if (ns_cols) {
        prm.put("coarsening.nullspace.cols", ns_cols);
        prm.put("coarsening.nullspace.rows", static_cast<int>(A.n));
        prm.put("coarsening.nullspace.B", static_cast<void *>(nsc.data()));
    }
    // an exception of the setup (e.g. a singular coarsest matrix with linearly dependent near-null-space vectors) is an outcome
    // like any other: it has to be the same at every thread count
    try {
        AMG amg(tup, prm);
        for (const auto &l : acc::levels(amg)) {
            if (l.A) h.A.push_back(from_crs(*l.A));
            if (l.P) h.P.push_back(from_crs(*l.P));
            if (l.R) h.R.push_back(from_crs(*l.R));
        }
        for (auto &f : rhs) { std::vector<double> x(A.n, 0.0); amg.apply(f, x); h.app.push_back(x); }
    } catch (const std::exception &e) { h = Hier(); h.exc = std::string("exception: ") + e.what(); }
    return h;
}

static const char *COARSE[] = {"aggregation", "smoothed_aggregation", "ruge_stuben", "smoothed_aggr_emin"};
static const char *RELAX[] = {"spai0", "damped_jacobi", "gauss_seidel", "chebyshev", "ilu0", "spai1"};

// group: 0 -> compare inside {1..16} and inside {17..32} (bitwise list); returns via VF_REQUIRE
static void prop_hierarchy(Tape &t, Ctx &c) {
    Graph g = gen_graph(t, t.chance(1, 3) ? 400 : 100, 0, 8);
    Csr<double> A = gen_mmat(t, g, 100.0, true);
    int ci = static_cast<int>(t.u(0, 3)), ri = static_cast<int>(t.u(0, 5));
    boost::property_tree::ptree prm;
    prm.put("coarsening.type", COARSE[ci]);
    prm.put("relax.type", RELAX[ri]);
    int ce = static_cast<int>(t.u(1, 40));
    prm.put("coarse_enough", ce);
    prm.put("ncycle", static_cast<int>(t.u(1, 2)));
    prm.put("npre", static_cast<int>(t.u(1, 2)));
    prm.put("npost", static_cast<int>(t.u(1, 2)));
    if (t.b()) prm.put("direct_coarse", false);
    if (ci == 1 && t.b()) prm.put("coarsening.estimate_spectral_radius", true); // Gershgorin (power_iters = 0): max-reduction, order independent
    std::vector<std::vector<double>> rhs = {gen_vec(t, g.n, 0), gen_vec(t, g.n, 2)};
    // near-null-space with 2..3 vectors (read last: saved cases keep their meaning): the tentative prolongation runs one dense QR
    // per aggregate with a QR object per thread, so which thread handled the previous aggregate must not matter. The depth is
    // capped there (a step need not shrink the level, listed finding F-nullspace-no-shrink of C03).
    int ns_cols = 0; std::vector<double> ns;
    // not for emin: its setup is thread-independent only up to rounding, and with several near-null-space vectors its coarse
    // operators are often numerically singular (actions ~1e65), where a rounding-level comparison means nothing (seed-12345 alarm)
    if (ci != 2 && ci != 3 && t.chance(1, 3)) {
        ns_cols = static_cast<int>(t.u(2, 3));
        ns.resize(static_cast<size_t>(g.n) * ns_cols);
        for (int i = 0; i < g.n; ++i) for (int v = 0; v < ns_cols; ++v) ns[i * ns_cols + v] = v == 0 ? 1.0 : t.uni(-1, 1) + (v == 1 ? i : 0.1 * i * i) / std::max(1, g.n);
        prm.put("max_levels", static_cast<int>(t.u(2, 4)));
        c.label("nullspace");
    }
    c.desc << "hierarchy " << COARSE[ci] << "+" << RELAX[ri] << " " << g.family << " n=" << g.n << " nnz=" << A.nnz() << " coarse_enough=" << ce << " ns_cols=" << ns_cols;
    c.label(std::string("c:") + COARSE[ci]); c.label(std::string("r:") + RELAX[ri]);
    // emin accumulates omega in a critical section and ILU switches serial<->level-scheduled at 4 threads: rounding allowed there
    bool setup_bitwise = ci != 3;
    bool apply_bitwise = setup_bitwise && ri != 4;
    std::vector<Hier> H(NTH);
    for (int qq = 0; qq < NHQ; ++qq) { int q = HQ[qq]; set_threads(TH[q]); H[q] = build(A, prm, rhs, ns, ns_cols); }
    set_threads(c.threads);
    {   // outcome class first: exceptions
        bool any_exc = false; for (int qq = 0; qq < NHQ; ++qq) any_exc = any_exc || !H[HQ[qq]].exc.empty();
        if (any_exc) {
            c.label("setup-exception");
            // where the setup is only thread-independent up to rounding (emin) an exactly singular pivot may or may not be hit
            if (setup_bitwise) for (int qq = 1; qq < NHQ; ++qq)
                VF_REQUIRE(H[HQ[qq]].exc == H[0].exc, "setup outcome differs between 1 and " << TH[HQ[qq]] << " threads: '" << H[0].exc << "' vs '" << H[HQ[qq]].exc << "'");
            c.nontrivial = false; c.desc << " -> " << H[0].exc;
            return;
        }
    }
    size_t nl = H[0].A.size();
    c.nontrivial = nl >= 2;
    c.label(nl >= 3 ? "levels>=3" : nl == 2 ? "levels=2" : "levels=1");
    for (int qq = 1; qq < NHQ; ++qq) {
        int q = HQ[qq];
        int ref = TH[q] <= 16 ? 0 : 7; // bitwise inside each SpGEMM-algorithm group; the cross-group clause is prop hierarchy_cross
        if (q == 7) continue;
        VF_REQUIRE(H[q].A.size() == H[ref].A.size() && H[q].P.size() == H[ref].P.size(), "number of levels differs between " << TH[ref] << " and " << TH[q] << " threads");
        for (size_t l = 0; l < H[q].P.size(); ++l) {
            std::string why;
            if (setup_bitwise) {
                VF_REQUIRE(same_csr(H[q].P[l], H[ref].P[l]), "prolongation on level " << l << " differs between " << TH[ref] << " and " << TH[q] << " threads");
                VF_REQUIRE(same_csr(H[q].R[l], H[ref].R[l]), "restriction on level " << l << " differs between " << TH[ref] << " and " << TH[q] << " threads");
            } else {
                VF_REQUIRE(close_csr(H[q].P[l], H[ref].P[l], 1e-9, why), "prolongation on level " << l << " differs beyond rounding between " << TH[ref] << " and " << TH[q] << " threads: " << why);
            }
        }
        for (size_t l = 0; l < H[q].A.size(); ++l) {
            std::string why;
            if (setup_bitwise) VF_REQUIRE(same_csr(H[q].A[l], H[ref].A[l]), "matrix on level " << l << " differs between " << TH[ref] << " and " << TH[q] << " threads");
            else VF_REQUIRE(close_csr(H[q].A[l], H[ref].A[l], 1e-9, why), "matrix on level " << l << " differs beyond rounding between " << TH[ref] << " and " << TH[q] << " threads: " << why);
        }
        for (size_t v = 0; v < rhs.size(); ++v) {
            if (apply_bitwise) VF_REQUIRE(same_bits(H[q].app[v], H[ref].app[v]), "preconditioner action differs between " << TH[ref] << " and " << TH[q] << " threads");
            else {
                double mx = 0; for (double xx : H[ref].app[v]) mx = std::max(mx, std::abs(xx));
                for (size_t i = 0; i < H[q].app[v].size(); ++i)
                    VF_REQUIRE(std::abs(H[q].app[v][i] - H[ref].app[v][i]) <= 1e-8 * mx, "preconditioner action differs beyond rounding between " << TH[ref] << " and " << TH[q] << " threads at " << i << ": " << H[q].app[v][i] << " vs " << H[ref].app[v][i]);
            }
        }
    }
    // cross-group: rounding only (the bitwise demand across 16/17 is prop hierarchy_cross)
    for (size_t l = 0; l < std::min(H[7].A.size(), H[0].A.size()); ++l) {
        std::string why;
        VF_REQUIRE(H[7].A.size() == H[0].A.size(), "number of levels differs between 1 and 17 threads");
        VF_REQUIRE(close_csr(H[7].A[l], H[0].A[l], 1e-9, why), "matrix on level " << l << " differs beyond rounding between 1 and 17 threads: " << why);
    }
}

static void prop_hierarchy_cross(Tape &t, Ctx &c) {
    Graph g = gen_graph(t, 150, 0, 8);
    Csr<double> A = gen_mmat(t, g, 100.0, true);
    int ci = static_cast<int>(t.u(0, 2)), ri = static_cast<int>(t.u(0, 2));
    boost::property_tree::ptree prm;
    prm.put("coarsening.type", COARSE[ci]);
    prm.put("relax.type", RELAX[ri]);
    int ce = static_cast<int>(t.u(1, 20));
    prm.put("coarse_enough", ce);
    std::vector<std::vector<double>> rhs = {gen_vec(t, g.n, 2)};
    c.desc << "hierarchy 16 vs 17 threads " << COARSE[ci] << "+" << RELAX[ri] << " " << g.family << " n=" << g.n << " coarse_enough=" << ce << " A=" << dump_small(A, 8);
    set_threads(16); Hier h16 = build(A, prm, rhs);
    set_threads(17); Hier h17 = build(A, prm, rhs);
    set_threads(c.threads);
    if (!h16.exc.empty() || !h17.exc.empty()) { c.label("setup-exception"); VF_REQUIRE(h16.exc == h17.exc, "setup outcome differs between 16 and 17 threads: '" << h16.exc << "' vs '" << h17.exc << "'"); c.nontrivial = false; return; }
    c.nontrivial = h16.A.size() >= 2;
    VF_REQUIRE(h16.A.size() == h17.A.size(), "number of levels differs between 16 and 17 threads");
    bool same = true;
    for (size_t l = 0; l < h16.A.size(); ++l) same = same && same_csr(h16.A[l], h17.A[l]);
    for (size_t l = 0; l < h16.P.size(); ++l) same = same && same_csr(h16.P[l], h17.P[l]);
    same = same && same_bits(h16.app[0], h17.app[0]);
    if (same) { c.label("cross-equal"); return; }
    c.label("cross-differs");
    for (size_t l = 0; l < h16.A.size(); ++l) { std::string why; VF_REQUIRE(close_csr(h16.A[l], h17.A[l], 1e-9, why), "hierarchy differs beyond rounding between 16 and 17 threads: level " << l << " " << why); }
    if (c.known("F-rmerge")) return;
    VF_REQUIRE(false, "hierarchy is not bitwise identical for 16 and 17 threads (Galerkin product computed by a different SpGEMM algorithm)");
}

// ------------------------------------------------------------------ full solves
static void prop_solve(Tape &t, Ctx &c) {
    Graph g = gen_graph(t, 400, 1, 5);
    Csr<double> A = gen_mmat(t, g, 10.0, false);
    static const char *SOLVER[] = {"cg", "bicgstab", "idrs", "gmres"};
    int si = static_cast<int>(t.u(0, 3)), ci = static_cast<int>(t.u(0, 2));
    boost::property_tree::ptree prm;
    prm.put("precond.coarsening.type", COARSE[ci]);
    prm.put("precond.relax.type", "spai0");
    prm.put("precond.coarse_enough", static_cast<int>(t.u(5, 60)));
    prm.put("solver.type", SOLVER[si]);
    prm.put("solver.tol", 1e-8);
    prm.put("solver.maxiter", 200);
    if (si == 2) prm.put("solver.s", std::max(1, std::min(4, g.n))); // IDR(s) needs s <= n (s shadow vectors are orthonormalised in R^n)
    std::vector<double> f = gen_vec(t, g.n, 2);
    bool nz = false; for (double v : f) nz = nz || v != 0; if (!nz && g.n) f[0] = 1;
    c.desc << "solve " << SOLVER[si] << " + " << COARSE[ci] << "/spai0 " << g.family << " n=" << g.n;
    c.label(std::string("s:") + SOLVER[si]);
    typedef amgcl::make_solver<AMG, amgcl::runtime::solver::wrapper<B>> Solver;
    static const int T3[] = {1, 4, 17};
    std::vector<std::vector<double>> X(3);
    std::vector<size_t> its(3); std::vector<double> rs(3);
    for (int q = 0; q < 3; ++q) {
        set_threads(T3[q]);
        auto tup = std::make_tuple(static_cast<size_t>(A.n), A.ptr, A.col, A.val);
        Solver S(tup, prm);
        std::vector<double> x(A.n, 0.0);
        std::tie(its[q], rs[q]) = S(f, x);
        X[q] = x;
    }
    set_threads(c.threads);
    c.nontrivial = its[0] >= 2;
    // diagonally dominant SPD M-matrix: every run must converge and be truthful; solutions agree within tol * kappa
    // kappa bound for these matrices (Gershgorin): lambda_max <= 2 max d_i, lambda_min >= min shift... use residual-based comparison instead
    for (int q = 0; q < 3; ++q) {
        long double rt = true_relres(A, f, X[q]);
        VF_REQUIRE(rs[q] < 1e-8, SOLVER[si] << " did not converge at " << T3[q] << " threads: reported " << rs[q] << " after " << its[q] << " iterations");
        VF_REQUIRE(rt < 1.5e-8L, SOLVER[si] << " at " << T3[q] << " threads: reported " << rs[q] << " but true residual " << static_cast<double>(rt));
    }
    // x_a - x_b solves A d = r_b - r_a with ||r|| <= tol ||f||  =>  ||A (x_a - x_b)|| <= 2.5e-8 ||f||
    for (int q = 1; q < 3; ++q) {
        std::vector<double> d(A.n), zero(A.n, 0.0);
        for (ptrdiff_t i = 0; i < A.n; ++i) d[i] = X[q][i] - X[0][i];
        long double num = 0, den = 0;
        for (ptrdiff_t i = 0; i < A.n; ++i) { long double s = 0; for (ptrdiff_t j = A.ptr[i]; j < A.ptr[i + 1]; ++j) s += static_cast<long double>(A.val[j]) * d[A.col[j]]; num += s * s; den += static_cast<long double>(f[i]) * f[i]; }
        VF_REQUIRE(std::sqrt(num) <= 3e-8L * std::sqrt(den), "solutions at 1 and " << T3[q] << " threads differ by more than the tolerance allows: ||A dx||/||f|| = " << static_cast<double>(std::sqrt(num / den)));
    }
}

static std::vector<Prop> props() {
    return {
        Prop("kernels", prop_kernels, 120, 2500, 100, 40, {1}, 2, 4),
        Prop("kernels_complex", prop_kernels_complex, 120, 2500, 100, 40, {1}, 2, 4),
        Prop("gs", prop_gs, 80, 1500, 100, 40, {1}, 2, 4),
        Prop("hierarchy", prop_hierarchy, 30, 600, 100, 60, {1}, 4, 8),
        Prop("solve", prop_solve, 25, 400, 100, 40, {1}, 2, 4),
        Prop("product_cross", prop_product_cross, 80, 1000, 100, 30, {1}, 1, 2),
        Prop("hierarchy_cross", prop_hierarchy_cross, 30, 400, 100, 30, {1}, 1, 2),
    };
}
static std::vector<Enum> enums() { return {}; }
VF_MAIN(props(), enums())
