// C01, sub-domain T — a reported convergence is truthful (real-valued builtin backend, runtime interface).
//
//  truthful          8 solvers x {left,right} x {amg: 4 coarsenings x 9 relaxations x cycle/level parameters | single-level
//                    relaxation through runtime::preconditioner} x solver parameters, n <= 400, kappa_1(A) <= 1e4 (dense):
//                    (a) reported residual == true residual ||f - A x|| / ||f|| (long double, caller's arrays) within
//                        0.01 max(reported, true) + 10 u kappa_1 (iters + 2) G,   G = max(1, initial relative residual);
//                        left preconditioning: compared with ||P (f - A x)|| / ||f||, P applied through precond().apply
//                    (b) reported < tol  =>  true < 1.1 tol          (c) iters <= maxiter (+ L - 1 for BiCGStab(L))
//  richardson_rate   (d) the stationary iteration converges at the rate of the cycle: per-step A-norm bound with
//                        rho = rho(I - w B A) from the extracted cycle operator, and the iteration count to tol.
#include <iomanip>
#include "c01_common.hpp"

using namespace vf;
using namespace c02;
using namespace c01;

typedef amgcl::runtime::solver::wrapper<Backend> SolverW;
typedef amgcl::make_solver<RtAmg, SolverW> AmgSolver;
typedef amgcl::make_solver<amgcl::runtime::preconditioner<Backend>, SolverW> RelSolver; // class=relaxation -> relaxation::as_preconditioner

static const double KAPPA_MAX = 1e4;
// Constant of the rounding allowance  ALLOW_C u K (iters + 2) G.  DESIGN proposed 10; calibration over 4e5 cases showed the
// recursion-based methods exceeding it near (finite) termination on tiny systems, where their small dense sub-problems
// degenerate (BiCGStab(L=3) on n = 2: 155 u K; IDR(s) up to 18 x (10 u K iters peak)), while everything else stays below
// 0.07 x that.  200 keeps a margin of > 10 over every observation; the tolerance floor is 20 x the allowance as before.
static const double ALLOW_C = 200.0;

// SPD or row-dominant non-symmetric M-matrix with kappa_1 <= 1e4 by construction: if the drawn matrix is worse
// conditioned a uniform diagonal shift is added (||A^-1||_inf <= 1/min row sum for a row diagonally dominant M-matrix).
struct System { Graph g; Csr<double> A; MmatInfo mi; double pe = 0; double kappa1 = 0; bool shifted = false; Mat dense; };
static System gen_system(Tape &t, const std::vector<int> &cls_of_word, const std::vector<int> &lo, const std::vector<int> &hi, bool allow_convection) {
    System S;
    GenMat gm = gen_mmat_case(t, cls_of_word, lo, hi, 30.0, true);
    S.g = gm.g; S.A = gm.A; S.mi = gm.mi;
    if (allow_convection && t.chance(1, 3)) { Tape sub = expand_tape(t, 16 + static_cast<size_t>(S.A.nnz())); S.A = add_convection(sub, S.A, 4.0, &S.pe); t.mix(sub.h); }
    S.kappa1 = kappa1_dense(S.A);
    double dmax = 0; for (ptrdiff_t i = 0; i < S.A.n; ++i) for (ptrdiff_t j = S.A.ptr[i]; j < S.A.ptr[i + 1]; ++j) if (S.A.col[j] == i) dmax = std::max(dmax, S.A.val[j]);
    double delta = 2.0 * dmax / (KAPPA_MAX - 1.0) * 1.5;
    for (int it = 0; it < 12 && !(S.kappa1 <= KAPPA_MAX); ++it) {
        for (ptrdiff_t i = 0; i < S.A.n; ++i) for (ptrdiff_t j = S.A.ptr[i]; j < S.A.ptr[i + 1]; ++j) if (S.A.col[j] == i) S.A.val[j] += delta;
        S.kappa1 = kappa1_dense(S.A); S.shifted = true; delta *= 4;
    }
    S.dense = to_eigen(S.A);
    return S;
}

static void prop_truthful(Tape &t, Ctx &c) {
    System S = gen_system(t, {0, 0, 1, 1, 1, 2, 2, 3}, {1, 10, 50, 150}, {12, 60, 150, 400}, true);
    const Csr<double> &A = S.A; const ptrdiff_t n = A.n;
    VF_REQUIRE(S.kappa1 <= KAPPA_MAX, "generator defect: kappa_1 = " << S.kappa1);

    // ---- right-hand side and initial guess
    Eigen::PartialPivLU<Mat> lu(S.dense);
    int fkind = static_cast<int>(t.u(0, 2)); // 0 ones, 1 random, 2 A x_true
    std::vector<double> f(n, 1.0), xt(n, 0.0);
    if (fkind == 1) f = seeded_vec(t, n);
    else if (fkind == 2) { std::vector<double> y = seeded_vec(t, n); Eigen::Map<const Vec> yv(y.data(), n); Vec fv = S.dense * yv; for (ptrdiff_t i = 0; i < n; ++i) f[i] = fv[i]; if (norm2(f) < 1e-10) f.assign(n, 1.0); }
    { Eigen::Map<const Vec> fv(f.data(), n); Vec xs = lu.solve(fv); for (ptrdiff_t i = 0; i < n; ++i) xt[i] = xs[i]; }
    int xkind = static_cast<int>(t.u(0, 3)); // 0,1 zero; 2 random around the solution; 3 near-solution
    std::vector<double> x0(n, 0.0);
    if (xkind >= 2) {
        std::vector<double> p = seeded_vec(t, n); double pm = 0, xm = 0; for (ptrdiff_t i = 0; i < n; ++i) { pm = std::max(pm, std::abs(p[i])); xm = std::max(xm, std::abs(xt[i])); }
        double amp = xkind == 2 ? 1.0 : 1e-6;
        for (ptrdiff_t i = 0; i < n; ++i) x0[i] = xt[i] + amp * xm * p[i] / (pm > 0 ? pm : 1);
    }
    double r0 = static_cast<double>(true_relres(A, f, x0));
    double G = std::max(1.0, r0); // recomputed below when another matrix is solved

    // ---- configuration
    bool amg_class = !t.chance(1, 4);
    AmgCfg cfg; cfg.coars = static_cast<int>(t.u(0, 3)); cfg.relax = static_cast<int>(t.u(0, 8));
    int ce_mode = static_cast<int>(t.u(0, 7));
    cfg.coarse_enough = ce_mode == 0 ? static_cast<unsigned>(n) : ce_mode <= 5 ? static_cast<unsigned>(t.u(1, 12)) : static_cast<unsigned>(t.u(1, std::max<ptrdiff_t>(1, n / 3)));
    if (t.chance(1, 4)) cfg.max_levels = static_cast<unsigned>(t.u(1, 4));
    gen_component_params(t, cfg, false);
    SolverCfg sc; sc.type = static_cast<int>(t.u(0, 7)); sc.left = t.b();
    gen_solver_params(t, sc, n);
    int mi_mode = static_cast<int>(t.u(0, 3));
    sc.maxiter = mi_mode == 0 ? static_cast<unsigned>(t.u(1, 20)) : mi_mode == 1 ? static_cast<unsigned>(t.u(0, 200)) : mi_mode == 2 ? 100u : static_cast<unsigned>(t.u(0, 3));
    if (sc.maxiter == 0) sc.check_after = false; // with maxiter = 0 check_after returns the placeholder 2 eps by construction
    double tol_drawn = t.logu(1e-12, 1e-2);
    // ---- call form (read last so that older saved tapes keep their meaning): (i) solve(rhs, x) with the setup matrix, or
    // (ii) solve(A2, rhs, x), documented for slowly changing coefficients: the preconditioner stays the one built for A, the
    // system solved is A2 = same pattern, every edge weight scaled by a factor in [0.5, 2] (symmetric in (i,j)), row sums kept
    // or enlarged by a diagonal shift: still a (row) diagonally dominant M-matrix of the generated family.
    int call_mode = static_cast<int>(t.u(0, 3)); // 0,1: (i); 2: (ii) edge weights; 3: (ii) edge weights + diagonal shift
    uint64_t pseed = static_cast<uint64_t>(t.u(0, 0xffffffffLL));
    const bool other = call_mode >= 2;
    Csr<double> A2 = S.A;
    if (other) {
        auto h01 = [&](uint64_t a, uint64_t b) { uint64_t h = (a * 0x9E3779B97F4A7C15ULL) ^ ((b + pseed) * 0xBF58476D1CE4E5B9ULL); h ^= h >> 29; h *= 0x94D049BB133111EBULL; h ^= h >> 32; return static_cast<double>(h & 0xffffff) / 16777216.0; };
        for (ptrdiff_t i = 0; i < n; ++i) {
            double add = 0; ptrdiff_t dpos = -1;
            for (ptrdiff_t j = A2.ptr[i]; j < A2.ptr[i + 1]; ++j) {
                ptrdiff_t col = A2.col[j];
                if (col == i) { dpos = j; continue; }
                double g = std::exp(std::log(4.0) * h01(static_cast<uint64_t>(std::min(i, col)), static_cast<uint64_t>(std::max(i, col))) - std::log(2.0)); // in [0.5, 2]
                double nv = A2.val[j] * g; add += std::abs(nv) - std::abs(A2.val[j]); A2.val[j] = nv;
            }
            if (dpos >= 0) { A2.val[dpos] += add; if (call_mode == 3) A2.val[dpos] *= 1.0 + h01(static_cast<uint64_t>(i), 0x51ed27ULL); }
        }
    }
    const Csr<double> &As = other ? A2 : S.A;             // the system that is solved
    const Mat Asd = other ? to_eigen(A2) : S.dense;
    const double kappaS = other ? kappa1_dense(A2) : S.kappa1;
    if (other) { r0 = static_cast<double>(true_relres(As, f, x0)); G = std::max(1.0, r0); }
    c.label(other ? "call:solve(A2,rhs,x)" : "call:solve(rhs,x)");
    if (other) c.label(xkind >= 2 ? "A2:x0!=0" : "A2:x0==0");

    c.desc << (other ? "[solve(A2,f,x), kappa1(A2)=" + std::to_string(kappaS) + "] " : "") << "truthful " << S.g.family << " n=" << n << " nnz=" << A.nnz() << " contrast=" << S.mi.contrast << " aniso=" << S.mi.aniso << " pe=" << S.pe << (S.shifted ? " +shift" : "")
           << " kappa1=" << S.kappa1 << " f=" << fkind << " x0=" << xkind << " r0=" << r0 << " | " << (amg_class ? "amg " + cfg.str() : std::string("relaxation ") + relax_name[cfg.relax]) << " A=" << dump_small(A, 6);
    c.label(std::string("solver:") + solver_name[sc.type]);
    if (sc.has_pside()) c.label(sc.left ? "pside:left" : "pside:right");
    c.label(amg_class ? std::string("coars:") + coars_name[cfg.coars] : std::string("class:relaxation"));
    c.label(std::string("relax:") + relax_name[cfg.relax]);
    c.label(S.pe > 0 ? "matrix:convdiff" : "matrix:spd");
    c.label(bucket(S.kappa1, {10, 100, 1000}, "kappa1"));
    c.label(bucket(static_cast<double>(n), {13, 61, 151}, "n"));

    // ---- conditioning of the call.  The recursions run on A B (right) or B A (left), B = the preconditioner: one
    // application of B carries an error u ||B|| ||y|| with ||y|| <= ||(A B)^-1|| ||f||, which A maps into the residual, so the
    // gap between a carried and the true residual scales with  K = ||A||_1 ||B||_1 max(1, ||(A B)^-1||_1)  (= kappa_1(A)
    // when B = A^-1, about 2 kappa_1(A) for Jacobi; astronomically large for a degenerate hierarchy).  B is extracted
    // column by column from a preconditioner built with the same parameters.
    ptree pprm; if (amg_class) cfg.put_amg(pprm, ""); else { pprm.put("class", "relaxation"); cfg.put_relax(pprm, ""); }
    auto Acrs = to_crs<double>(A);
    double K = kappaS, nB1 = 1, eta = 0; size_t levels = 1;
    Mat Mop; // the operator the recursions of the solver run on: A2 B (right preconditioning) or B A2 (left)
    // eta: relative accuracy with which the preconditioner is applied, measured as the linearity defect
    // ||P(3 v) - 3 P(v)|| / ||P(3 v)|| and ||B v - P(v)|| / ||P(v)|| on two probe vectors.  A few u for a numerically stable
    // cycle; hierarchies with huge, mutually cancelling transfer operators (emin on non-symmetric matrices: 5e-4) apply
    // an operator of moderate norm with a large error, and that error, not u, is what the recursions of the solvers see.
    auto probe = [&](const auto &P0, const Mat &B) {
        for (int k = 0; k < 2; ++k) {
            std::vector<double> v(n), v3(n), y(n, 0.0), y3(n, 0.0);
            for (ptrdiff_t i = 0; i < n; ++i) { v[i] = k == 0 ? f[i] : ((i % 3 == 0) ? 1.0 : (i % 3 == 1) ? -0.5 : 0.25); v3[i] = 3 * v[i]; }
            P0.apply(v, y); P0.apply(v3, y3);
            Eigen::Map<const Vec> vv(v.data(), n); Vec bv = B * vv;
            double d1 = 0, d2 = 0, m = 0;
            for (ptrdiff_t i = 0; i < n; ++i) { d1 = std::max(d1, std::abs(y3[i] - 3 * y[i])); d2 = std::max(d2, std::abs(bv[i] - y[i])); m = std::max(m, std::abs(y[i])); }
            if (m > 0 && std::isfinite(m)) eta = std::max(eta, std::max(d1 / (3 * m), d2 / m));
        }
    };
    bool precond_finite = true;
    try {
        Mat B;
        if (amg_class) {
            RtAmg P0(*Acrs, pprm); levels = level_info(P0).levels;
            // degenerate aggregate / non-positive filtered diagonal (former finding F-emin, fixed in /repo by a58f297): labelled, asserted
            if (cfg.coars == EMIN) { std::string why = emin_degenerate(P0, cfg.eps_strong); if (!why.empty()) { c.label("emin:degenerate"); c.desc << " | emin degenerate: " << why; } }
            B = extract_operator(P0, n);
            if (all_finite(B)) probe(P0, B);
        } else { amgcl::runtime::preconditioner<Backend> P0(*Acrs, pprm); B = extract_operator(P0, n); if (all_finite(B)) probe(P0, B); }
        if (all_finite(B)) {
            Mop = sc.is_left() ? Mat(B * Asd) : Mat(Asd * B);
            Mat AB = Asd * B; // B belongs to the setup matrix, the recursions run on A2 B
            Eigen::PartialPivLU<Mat> lab(AB);
            Mat ABi = lab.inverse();
            double nA = Asd.cwiseAbs().colwise().sum().maxCoeff(), nB = B.cwiseAbs().colwise().sum().maxCoeff();
            double nABi = all_finite(ABi) ? ABi.cwiseAbs().colwise().sum().maxCoeff() : std::numeric_limits<double>::infinity();
            K = std::max(K, nA * nB * std::max(1.0, nABi)); nB1 = nB;
        } else precond_finite = false;
    } catch (const std::runtime_error &e) { c.label(std::string("setup-threw:") + e.what()); return; }
    // A preconditioner that maps finite vectors to NaN/inf is not an operator; nothing can be claimed about a solve with it
    // (BiCGStab(L) e.g. adds P*0 = NaN to an already converged x and returns the initial residual).  Counted, not asserted.
    if (!precond_finite) { c.label("precond-nonfinite"); return; }
    double ueff = eta > 1e3 * U ? eta : U;
    if (ueff > U) c.label("precond-unstable");
    c.label("levels=" + std::to_string(std::min<size_t>(levels, 5)));
    c.label(bucket(K / kappaS, {2, 10, 100, 1e4}, "K/kappa1"));
    double tol_floor = 20.0 * ALLOW_C * ueff * K * (sc.maxiter + 2.0) * G * (sc.is_left() ? std::max(1.0, nB1) : 1.0);
    sc.tol = std::min(0.5, std::max(tol_drawn, tol_floor));
    c.desc << " | K=" << K << " | " << sc.str();

    ptree prm; sc.put(prm, "solver");
    std::vector<double> x = x0;
    size_t iters = 0; double reported = 0;
    std::unique_ptr<AmgSolver> sa; std::unique_ptr<RelSolver> sr;
    std::shared_ptr<amgcl::backend::crs<double>> A2crs;
    try {
        if (amg_class) { cfg.put_amg(prm, "precond"); sa.reset(new AmgSolver(*Acrs, prm)); }
        else { prm.put("precond.class", "relaxation"); cfg.put_relax(prm, "precond"); sr.reset(new RelSolver(*Acrs, prm)); }
        if (other) { A2crs = to_crs<double>(A2); std::tie(iters, reported) = amg_class ? (*sa)(*A2crs, f, x) : (*sr)(*A2crs, f, x); }
        else std::tie(iters, reported) = amg_class ? (*sa)(f, x) : (*sr)(f, x);
    } catch (const std::runtime_error &e) { c.label(std::string("solve-threw:") + e.what()); return; } // breakdown: nothing is returned, nothing is claimed

    // ---- (c) iteration budget
    VF_REQUIRE(iters <= sc.iter_bound(), "iterations " << iters << " exceed maxiter=" << sc.maxiter << (sc.type == BICGSTABL ? " + L - 1" : ""));
    c.nontrivial = iters >= 2 && (levels >= 2 || !amg_class);
    c.label(bucket(static_cast<double>(iters), {1, 2, 10, 50}, "iters"));

    // ---- (a) truthfulness
    Res<double> tr = residual_ld(As, f, x);
    double truth = static_cast<double>(tr.rel);
    bool left = sc.is_left();
    if (left && finite_vec(tr.r)) {
        std::vector<double> z(n, 0.0);
        if (amg_class) sa->precond().apply(tr.r, z); else sr->precond().apply(tr.r, z);
        truth = norm2(z) / norm2(f);
    }
    if (!std::isfinite(reported) || !std::isfinite(truth)) {
        c.label("nonfinite");
        // a diverged iterate whose residual norm overflows in double (sum of squares > DBL_MAX) is truthfully "non-finite"
        // although the long double reference still represents it
        if (!std::isfinite(reported) && truth * norm2(f) >= 1e100) return;
        VF_REQUIRE(!std::isfinite(reported) && !std::isfinite(truth), "reported residual " << reported << " but the " << (left ? "preconditioned " : "") << "residual of the returned x is " << truth);
        return;
    }
    // left preconditioning measures P r: a rounding error dr of the residual appears as B dr
    double unit = left ? std::max(1.0, nB1) : 1.0;
    double diff = std::abs(reported - truth), big = std::max(reported, truth);
    G = std::max(G, big / unit); // the gap of a carried residual scales with the largest residual of the history; the final one is part of it (divergence)
    double allow = ALLOW_C * ueff * K * (iters + 2.0) * G * unit + 64.0 * U;
    c.label(reported < sc.tol ? "converged" : "not-converged");
    if (diff > 0.001 * big) c.label("drift>0.1%");
    if (diff > 0.01 * big + allow && iters >= 2) {
        // The gap of a recursively updated residual is bounded by u K iters max_k ||r_k|| / ||f|| (the residual history may
        // peak far above its initial value, notably for IDR(s)/BiCGStab).  The history is observable from outside: the
        // same solve truncated after k = 1 .. iters-1 iterations reports ||r_k||.  Evaluated only when the plain bound fails.
        double peak = G;
        for (size_t k = 1; k < iters; ++k) {
            SolverCfg sk = sc; sk.maxiter = static_cast<unsigned>(k); if (sk.maxiter == 0) sk.check_after = false;
            sk.smoothing = false; // IDR(s) residual smoothing reports a monotone envelope; the recursion underneath (same x_k, r_k) is what peaks
            ptree pk; sk.put(pk, "solver");
            std::vector<double> y = x0; size_t ik; double rk;
            try {
                if (amg_class) { cfg.put_amg(pk, "precond"); AmgSolver s2(*Acrs, pk); std::tie(ik, rk) = other ? s2(*A2crs, f, y) : s2(f, y); }
                else { pk.put("precond.class", "relaxation"); cfg.put_relax(pk, "precond"); RelSolver s2(*Acrs, pk); std::tie(ik, rk) = other ? s2(*A2crs, f, y) : s2(f, y); }
            } catch (const std::runtime_error &) { continue; }
            if (std::isfinite(rk)) peak = std::max(peak, rk / unit);
            if (env_flag("VF_C01_TRACE")) std::cerr << "TRACE history k=" << k << " iters=" << ik << " reported=" << rk << " true=" << static_cast<double>(true_relres(As, f, y)) << "\n";
        }
        c.label(bucket(peak / G, {2, 100, 1e4}, "peak/G"));
        allow = ALLOW_C * ueff * K * (iters + 2.0) * peak * unit + 64.0 * U;
    }
    if (env_flag("VF_C01_TRACE")) std::cerr << "TRACE diff/allow=" << (allow > 0 ? (diff - 0.01 * big) / allow : 0) << " reldiff=" << (big > 0 ? diff / big : 0) << " K=" << K << " kappa1=" << S.kappa1 << " iters=" << iters << " " << sc.str() << " | " << (amg_class ? cfg.str() : std::string("relaxation ") + relax_name[cfg.relax]) << "\n";
    // Known finding F-recursion-gap.  BiCGStab(L) and IDR(s) carry a recursively updated residual and solve small dense
    // sub-problems (the (L+1)x(L+1) Gram matrix of the MR polynomial, the s x s matrix P^T G) that become singular when the
    // Krylov space is exhausted.  Only an exactly zero pivot is guarded (precondition(!is_zero(..))) and the stopping test is
    // the carried residual itself, so a run whose tolerance is not met at exhaustion continues with garbage: the carried
    // residual then has nothing to do with the true one -- under-reported by 6 orders (BiCGStab(L=3), 2x2 system, kappa_1 = 12:
    // 4.6e-16 < tol = 1.6e-11, true 7.6e-10) or blown up and off by percents (BiCGStab(L=4), n = 5, 8 products in the single
    // outer iteration: reported 141.2, true 143.2).  The region is a class of INPUTS: the run performs at least as many
    // matrix-vector products as the numerical grade g of (M, r0), M = A B resp. B A, r0 the (preconditioned) initial residual,
    // g = first Arnoldi step with h_{j+1,j} <= 1e-6 max h.  Nothing can be bounded inside (the amplification of a near
    // breakdown is unbounded); the iteration budget (c) is asserted above.  Outside the class the strict bound applies.
    if (sc.type == IDRS || sc.type == BICGSTABL) {
        size_t matvecs = sc.type == BICGSTABL ? 2 * iters : iters + iters / std::max(1u, sc.s) + 1;
        Vec r0v(n); { Res<double> ri = residual_ld(As, f, x0); for (ptrdiff_t i = 0; i < n; ++i) r0v[i] = ri.r[i]; }
        if (left) { std::vector<double> rr(r0v.data(), r0v.data() + n), z(n, 0.0); if (amg_class) sa->precond().apply(rr, z); else sr->precond().apply(rr, z); for (ptrdiff_t i = 0; i < n; ++i) r0v[i] = z[i]; }
        size_t grade = numerical_grade(Mop, r0v, matvecs, 1e-6);
        c.label(matvecs >= grade ? "krylov:exhausted" : "krylov:not-exhausted");
        if (matvecs >= grade) { c.desc << " | F-recursion-gap: " << matvecs << " products, numerical grade " << grade; if (c.known("F-recursion-gap")) return; }
    }
    bool strict_a = diff <= 0.01 * big + allow;
    VF_REQUIRE(strict_a, "reported residual " << std::setprecision(10) << reported << " but true " << (left ? "preconditioned " : "") << "relative residual is " << truth
               << " (difference " << diff << ", allowance " << 0.01 * big + allow << ", iters " << iters << ")");
    // ---- (b) a value below the tolerance means solved (decidable when the rounding allowance is small against tol)
    if (reported < sc.tol) {
        if (allow <= 0.06 * sc.tol) VF_REQUIRE(truth < 1.1 * sc.tol, "reported " << reported << " < tol " << sc.tol << " but true residual " << truth);
        else c.label("b-undecidable:ill-conditioned-call");
    }
}

// ---------------------------------------------------------------- (d) Richardson converges at the rate of the cycle
static void prop_richardson(Tape &t, Ctx &c) {
    System S = gen_system(t, {0, 1, 1, 2}, {1, 10, 40}, {12, 50, 150}, false);
    const Csr<double> &A = S.A; const ptrdiff_t n = A.n;
    AmgCfg cfg; cfg.coars = static_cast<int>(t.u(0, 3)); cfg.relax = static_cast<int>(t.u(0, 6)); // symmetric smoother list
    int ce_mode = static_cast<int>(t.u(0, 7));
    cfg.coarse_enough = ce_mode == 0 ? static_cast<unsigned>(n) : ce_mode <= 5 ? static_cast<unsigned>(t.u(1, 8)) : static_cast<unsigned>(t.u(1, std::max<ptrdiff_t>(1, n / 3)));
    gen_component_params(t, cfg, true);
    cfg.npost = cfg.npre;
    static const double dm[] = {1.0, 0.8, 0.5};
    double w = dm[t.pick(3)];
    std::vector<double> f = seeded_vec(t, n);
    double tol_drawn = t.logu(1e-10, 1e-2);
    // unsymmetric cycles V/W(0,nu), V/W(nu,0), npre != npost (read last: older saved tapes keep their meaning)
    { int z = static_cast<int>(t.u(0, 7)); if (z >= 4 && z <= 6) cfg.npre = 0; else if (z == 7) cfg.npost = 0; }
    const bool symcycle = cfg.npre == cfg.npost;

    c.desc << "richardson " << S.g.family << " n=" << n << " contrast=" << S.mi.contrast << " kappa1=" << S.kappa1 << " | " << cfg.str() << " | damping=" << w << " A=" << dump_small(A, 6);
    c.label(std::string("coars:") + coars_name[cfg.coars]); c.label(std::string("relax:") + relax_name[cfg.relax]);

    auto Acrs = to_crs<double>(A);
    auto make = [&](unsigned maxiter, double tol) {
        ptree prm; cfg.put_amg(prm, "precond"); prm.put("solver.type", "richardson"); prm.put("solver.damping", w); prm.put("solver.maxiter", maxiter); prm.put("solver.tol", tol);
        return std::unique_ptr<AmgSolver>(new AmgSolver(*Acrs, prm));
    };
    std::unique_ptr<AmgSolver> step;
    try { step = make(1, 0.0); } catch (const std::runtime_error &e) { c.label(std::string("setup-threw:") + e.what()); return; }
    LevelInfo li = level_info(step->precond());
    c.label("levels=" + std::to_string(std::min<size_t>(li.levels, 5)));
    if (cfg.coars == EMIN) { std::string why = emin_degenerate(step->precond(), cfg.eps_strong); if (!why.empty()) { c.label("emin:degenerate"); c.desc << " | emin degenerate: " << why; } }
    // class still open after the repair (F-emin-residue, see c02_common.hpp / C02): labelled; no violation of clause (d) was found in it (450 cases), so it is asserted
    if (cfg.coars == EMIN && !emin_degenerate(step->precond(), cfg.eps_strong, true).empty()) c.label("emin:residue-aggregate");

    Mat B = extract_operator(step->precond(), n);
    VF_REQUIRE(all_finite(B), "cycle operator has non-finite entries");
    double amin, amax; eig_sym(S.dense, amin, amax); double kappa2 = amax / amin;
    if (!symcycle) {
        // Unsymmetric cycle (npre != npost, in particular V/W(0,nu)): I - w B A is not self-adjoint in the A inner product, so
        // only the convergence part of the clause is decided: for Galerkin hierarchies and A-norm convergent smoothers
        // ||S^npost (I - P B_c R A) S^npre||_A < 1, hence rho(I - w B A) < 1 for 0 < w <= 1 and the iteration must make progress.
        Mat E = Mat::Identity(n, n) - w * (B * S.dense);
        Eigen::EigenSolver<Mat> es(E, false); double rho = 0; for (ptrdiff_t i = 0; i < n; ++i) rho = std::max(rho, std::abs(es.eigenvalues()[i]));
        c.label("cycle:unsymmetric"); if (cfg.npre == 0) c.label("npre=0,ncycle=" + std::to_string(cfg.ncycle) + ",pre_cycles=" + std::to_string(cfg.pre_cycles));
        c.label(bucket(rho, {0.1, 0.5, 0.9, 1.0}, "rho"));
        c.desc << " | levels=" << li.levels << " rho=" << rho;
        c.nontrivial = li.levels >= 2;
        // known-finding regions of C02 in which contraction is not claimed (same predicates as props/c02_cycle.cpp)
        double ov = cfg.effective_over_interp();
        bool coarsest_psd = li.direct || (cfg.relax != GS && (cfg.npre + cfg.npost) % 2 == 0) || (cfg.relax == GS && cfg.npre == cfg.npost);
        bool provable = coarsest_psd && (cfg.ncycle >= 2 || std::pow(ov, static_cast<double>(li.levels) - 1.0) < 2.0);
        if (cfg.coars == AGG && ov > 1.0 && li.levels >= 2 && !provable) { if (c.known("F-agg")) return; }
        if (cfg.relax != GS && li.levels >= 2 && worst_coarse_smoother_rho(step->precond()) >= 1.0) { if (c.known("F-smoother-coarse")) return; }
        if (cfg.coars == EMIN && !emin_degenerate(step->precond(), cfg.eps_strong, true).empty()) { if (c.known("F-emin-residue")) return; }
        VF_REQUIRE(rho < 1.0 - 1e-10, "Richardson does not converge: rho(I - w B A) = " << std::setprecision(12) << rho << " for a " << (cfg.ncycle == 1 ? "V" : "W") << "(" << cfg.npre << "," << cfg.npost << ") cycle with " << li.levels << " levels, pre_cycles=" << cfg.pre_cycles);
        if (rho <= 0.9) { // the iteration itself: 40 steps reduce the error (rho^40 < 0.015; a factor 2 is left for the non-normal transient)
            Eigen::PartialPivLU<Mat> lu(S.dense); Eigen::Map<const Vec> fv(f.data(), n); Vec xs = lu.solve(fv);
            auto anorm = [&](const std::vector<double> &x) { Vec e(n); for (ptrdiff_t i = 0; i < n; ++i) e[i] = x[i] - xs[i]; return std::sqrt(std::max(0.0, e.dot(S.dense * e))); };
            std::vector<double> x(n, 0.0); double e0 = anorm(x);
            for (int k = 0; k < 40; ++k) { size_t it; double rep; std::tie(it, rep) = (*step)(f, x); if (it == 0) break; }
            double e40 = anorm(x);
            VF_REQUIRE(e40 <= 0.5 * e0 + 1e4 * U * kappa2 * e0, "Richardson made no progress in 40 steps: ||e||_A " << e0 << " -> " << e40 << " although rho = " << rho);
        }
        return;
    }
    double mu_min, mu_max; VF_REQUIRE(eig_BA_symmetric(B, S.dense, mu_min, mu_max), "Cholesky of A failed");
    double rho = std::max(std::abs(1 - w * mu_min), std::abs(1 - w * mu_max));
    c.label(bucket(rho, {0.1, 0.5, 0.9, 1.0}, "rho"));
    c.desc << " | levels=" << li.levels << " rho=" << rho;

    // ---- per-step bound  ||e_{k+1}||_A <= (rho + 1e-10) ||e_k||_A  (I - w B A is self-adjoint in the A inner product)
    Eigen::PartialPivLU<Mat> lu(S.dense);
    Eigen::Map<const Vec> fv(f.data(), n); Vec xs = lu.solve(fv);
    auto anorm = [&](const std::vector<double> &x) { Vec e(n); for (ptrdiff_t i = 0; i < n; ++i) e[i] = x[i] - xs[i]; return std::sqrt(std::max(0.0, e.dot(S.dense * e))); };
    std::vector<double> x(n, 0.0);
    double e_prev = anorm(x), e0 = e_prev; int steps = 0;
    double floor_ = 1e4 * U * kappa2 * e0 + 1e-300; // below this the error is dominated by rounding in the residual / the reference solution
    for (int k = 0; k < 25 && e_prev > floor_ && std::isfinite(e_prev) && e_prev < 1e100 * e0; ++k) {
        size_t it; double rep; std::tie(it, rep) = (*step)(f, x);
        VF_REQUIRE(it <= 1, "richardson with maxiter=1 made " << it << " iterations");
        if (it == 0) break; // residual exactly below DBL_MIN
        double e_new = anorm(x);
        VF_REQUIRE(e_new <= (rho + 1e-10) * e_prev + floor_, "Richardson step " << k << ": ||e||_A went from " << e_prev << " to " << e_new << " = factor " << e_new / e_prev << " > rho(I - w B A) = " << rho);
        e_prev = e_new; ++steps;
    }
    c.nontrivial = steps >= 2 && li.levels >= 2;
    c.label(bucket(static_cast<double>(steps), {2, 10, 25}, "steps"));

    // ---- iteration count to tolerance for rho < 1 (x0 = 0):  ||r_k|| / ||f|| <= sqrt(kappa2) rho^k
    if (rho < 1.0 - 1e-6) {
        double tol = std::max(tol_drawn, 1e4 * U * kappa2);
        double kbound = std::ceil(std::log(tol / std::sqrt(kappa2)) / std::log(rho)) + 1;
        if (rho < 1e-12) kbound = 2;
        if (kbound <= 400) {
            unsigned maxiter = static_cast<unsigned>(kbound) + 5;
            auto full = make(maxiter, tol);
            std::vector<double> y(n, 0.0); size_t it; double rep; std::tie(it, rep) = (*full)(f, y);
            c.label("count-clause");
            VF_REQUIRE(rep < tol, "Richardson did not reach tol=" << tol << " in " << maxiter << " iterations although rho=" << rho << " predicts " << kbound << " (reported " << rep << ")");
            VF_REQUIRE(static_cast<double>(it) <= kbound, "Richardson needed " << it << " iterations, rate bound gives " << kbound << " (rho=" << rho << ", tol=" << tol << ", kappa2=" << kappa2 << ")");
            double truth = static_cast<double>(true_relres(A, f, y));
            VF_REQUIRE(truth < 1.1 * tol + 10 * U * S.kappa1 * (it + 2.0), "Richardson reported " << rep << " but true residual " << truth);
        } else c.label("count-clause-skipped:slow");
    } else c.label("rho>=1:per-step-only");
}

static std::vector<Prop> props() {
    return {
        Prop("truthful", prop_truthful, 3000, 40000, 100, 4, {1}, 8, 16),
        Prop("richardson_rate", prop_richardson, 1500, 15000, 100, 2, {1}, 4, 8),
    };
}
static std::vector<Enum> enums() { return {}; }

VF_MAIN(props(), enums())
