// C06 — shared helpers: value-type traits (double / complex / 2x2 block), matrix families, dense long-double images.
// Everything that plays the role of an oracle here is dense algebra in std::complex<long double>; no amgcl code is used
// for reference results (amgcl types appear only as containers handed to the library).
#pragma once
#include <complex>
#include <amgcl/backend/builtin.hpp>
#include <amgcl/value_type/static_matrix.hpp>
#include <amgcl/value_type/complex.hpp>
#include <Eigen/Dense>
#include "../common/harness.hpp"
#include "../common/gen.hpp"
#include "../common/dense.hpp"
#include "../common/amgcl_util.hpp"

namespace c06 {
using namespace vf;

// OpenMP barriers spin by default; on a loaded machine a level-scheduled sweep (one barrier per level, >= 4 threads)
// then costs milliseconds per barrier (measured: 80 cases in 444 s vs 1 s).  libgomp reads OMP_WAIT_POLICY when it is
// loaded, so the executable re-executes itself once with OMP_WAIT_POLICY=passive unless the caller already chose a policy.
struct PassiveOmp {
    PassiveOmp() {
        if (getenv("OMP_WAIT_POLICY") || getenv("VF_NO_REEXEC")) return;
        setenv("OMP_WAIT_POLICY", "passive", 1); setenv("VF_NO_REEXEC", "1", 1);
        std::ifstream f("/proc/self/cmdline", std::ios::binary);
        std::string all((std::istreambuf_iterator<char>(f)), std::istreambuf_iterator<char>());
        std::vector<std::string> args; std::string cur;
        for (char ch : all) { if (ch == '\0') { args.push_back(cur); cur.clear(); } else cur += ch; }
        if (!cur.empty()) args.push_back(cur);
        if (args.empty()) return;
        std::vector<char *> argv;
        for (auto &a : args) argv.push_back(const_cast<char *>(a.c_str()));
        argv.push_back(nullptr);
        execv("/proc/self/exe", argv.data());
    }
};
static PassiveOmp passive_omp_instance;

typedef long double ld;
typedef std::complex<long double> cld;
typedef std::complex<double> cplx;
typedef amgcl::static_matrix<double, 2, 2> blk2;
static const ld U = 1.1102230246251565e-16L; // 2^-53

template <class V> struct VT;
template <> struct VT<double> {
    static const int B = 1; static const bool complex = false;
    typedef double rhs;
    static const char *name() { return "double"; }
    static cld at(const double &v, int, int) { return cld(v, 0); }
    static cld rat(const rhs &v, int) { return cld(v, 0); }
    static void rset(rhs &v, int, cld x) { v = static_cast<double>(x.real()); }
    static void set(double &v, int, int, cld x) { v = static_cast<double>(x.real()); }
    static double zero() { return 0.0; }
};
template <> struct VT<cplx> {
    static const int B = 1; static const bool complex = true;
    typedef cplx rhs;
    static const char *name() { return "complex"; }
    static cld at(const cplx &v, int, int) { return cld(v.real(), v.imag()); }
    static cld rat(const rhs &v, int) { return cld(v.real(), v.imag()); }
    static void rset(rhs &v, int, cld x) { v = cplx(static_cast<double>(x.real()), static_cast<double>(x.imag())); }
    static void set(cplx &v, int, int, cld x) { v = cplx(static_cast<double>(x.real()), static_cast<double>(x.imag())); }
    static cplx zero() { return cplx(); }
};
template <> struct VT<blk2> {
    static const int B = 2; static const bool complex = false;
    typedef amgcl::static_matrix<double, 2, 1> rhs;
    static const char *name() { return "blk2"; }
    static cld at(const blk2 &v, int i, int j) { return cld(v(i, j), 0); }
    static cld rat(const rhs &v, int i) { return cld(v(i), 0); }
    static void rset(rhs &v, int i, cld x) { v(i) = static_cast<double>(x.real()); }
    static void set(blk2 &v, int i, int j, cld x) { v(i, j) = static_cast<double>(x.real()); }
    static blk2 zero() { blk2 z; for (int i = 0; i < 4; ++i) z(i) = 0; return z; }
};

// ---------------------------------------------------------------- dense images
template <class V>
Dense<cld> expand(const Csr<V> &A) {
    const int B = VT<V>::B;
    Dense<cld> D(A.n * B, A.m * B);
    for (ptrdiff_t i = 0; i < A.n; ++i) for (ptrdiff_t j = A.ptr[i]; j < A.ptr[i + 1]; ++j)
        for (int a = 0; a < B; ++a) for (int b = 0; b < B; ++b) D(i * B + a, A.col[j] * B + b) += VT<V>::at(A.val[j], a, b);
    return D;
}
template <class V>
std::vector<cld> expand(const std::vector<typename VT<V>::rhs> &x) {
    const int B = VT<V>::B;
    std::vector<cld> y(x.size() * B);
    for (size_t i = 0; i < x.size(); ++i) for (int a = 0; a < B; ++a) y[i * B + a] = VT<V>::rat(x[i], a);
    return y;
}
template <class V>
Dense<int> block_pattern(const Csr<V> &A) {
    Dense<int> P(A.n, A.m);
    for (ptrdiff_t i = 0; i < A.n; ++i) for (ptrdiff_t j = A.ptr[i]; j < A.ptr[i + 1]; ++j) P(i, A.col[j]) = 1;
    return P;
}
inline Dense<ld> absd(const Dense<cld> &A) { Dense<ld> R(A.n, A.m); for (size_t i = 0; i < A.a.size(); ++i) R.a[i] = std::abs(A.a[i]); return R; }
inline std::vector<ld> absv(const std::vector<cld> &x) { std::vector<ld> r(x.size()); for (size_t i = 0; i < x.size(); ++i) r[i] = std::abs(x[i]); return r; }
inline ld maxabs(const std::vector<cld> &x) { ld m = 0; for (auto &v : x) m = std::max(m, std::abs(v)); return m; }
inline ld maxabs(const std::vector<ld> &x) { ld m = 0; for (auto &v : x) m = std::max(m, std::abs(v)); return m; }
inline std::vector<cld> sub(const std::vector<cld> &a, const std::vector<cld> &b) { std::vector<cld> c(a.size()); for (size_t i = 0; i < a.size(); ++i) c[i] = a[i] - b[i]; return c; }
inline std::vector<cld> add(const std::vector<cld> &a, const std::vector<cld> &b) { std::vector<cld> c(a.size()); for (size_t i = 0; i < a.size(); ++i) c[i] = a[i] + b[i]; return c; }
inline Dense<cld> identity(ptrdiff_t n) { Dense<cld> I(n, n); for (ptrdiff_t i = 0; i < n; ++i) I(i, i) = 1; return I; }

// inverse by Gauss-Jordan with partial pivoting (long double); false if singular
inline bool invert(const Dense<cld> &A, Dense<cld> &Ai) {
    ptrdiff_t n = A.n; Dense<cld> W = A; Ai = identity(n);
    for (ptrdiff_t k = 0; k < n; ++k) {
        ptrdiff_t p = k; ld best = std::abs(W(k, k));
        for (ptrdiff_t i = k + 1; i < n; ++i) if (std::abs(W(i, k)) > best) { best = std::abs(W(i, k)); p = i; }
        if (best == 0) return false;
        if (p != k) for (ptrdiff_t j = 0; j < n; ++j) { std::swap(W(k, j), W(p, j)); std::swap(Ai(k, j), Ai(p, j)); }
        cld piv = W(k, k);
        for (ptrdiff_t j = 0; j < n; ++j) { W(k, j) /= piv; Ai(k, j) /= piv; }
        for (ptrdiff_t i = 0; i < n; ++i) if (i != k) { cld f = W(i, k); if (f == cld()) continue; for (ptrdiff_t j = 0; j < n; ++j) { W(i, j) -= f * W(k, j); Ai(i, j) -= f * Ai(k, j); } }
    }
    return true;
}

// ---------------------------------------------------------------- value generation
template <class V> struct Gen;
template <> struct Gen<double> {
    // magnitude m with a random sign (mode 0: always negative, M-matrix like)
    static double off(Tape &t, int mode) { if (mode == 2) { double v = t.ival(1, 3); return t.b() ? -v : v; } double m = t.logu(0.05, 2.0); return (mode == 0 || t.b()) ? -m : m; }
    static double mag(const double &v) { return std::abs(v); }
    static double dia(Tape &t, int mode, double s, bool dominant) {
        if (mode == 2) { double v = std::ceil(s) + t.ival(1, 3); return (dominant || !t.chance(1, 4)) ? v : -v; }
        double d = dominant ? s * (1 + t.logu(0.02, 2.0)) + (s == 0 ? t.logu(0.1, 10.0) : 0) : (s == 0 ? 1.0 : s) * t.uni(0.6, 1.5); // not dominant, but no astronomic growth in a sweep
        return (mode != 0 && t.chance(1, 4)) ? -d : d;
    }
};
template <> struct Gen<cplx> {
    static cplx ph(Tape &t, double m) { double a = t.uni(0, 6.283185307179586); return cplx(m * std::cos(a), m * std::sin(a)); }
    static cplx off(Tape &t, int mode) { if (mode == 2) return cplx(t.ival(-2, 2), t.ival(1, 2)); return ph(t, t.logu(0.05, 2.0)); }
    static double mag(const cplx &v) { return std::abs(v); }
    static cplx dia(Tape &t, int mode, double s, bool dominant) {
        if (mode == 2) return cplx(std::ceil(s) + t.ival(1, 3), t.ival(-2, 2));
        double d = dominant ? s * (1 + t.logu(0.02, 2.0)) + (s == 0 ? t.logu(0.1, 10.0) : 0) : (s == 0 ? 1.0 : s) * t.uni(0.6, 1.5);
        return ph(t, d); // non-real diagonal on purpose (SPAI-0 adjoint, Jacobi)
    }
};
template <> struct Gen<blk2> {
    static blk2 off(Tape &t, int mode) {
        blk2 v; bool any = false;
        for (int i = 0; i < 4; ++i) { v(i) = t.chance(1, 4) ? 0.0 : (mode == 2 ? t.ival(-2, 2) : t.slogu(0.05, 2.0)); any = any || v(i) != 0; }
        if (!any) v(0) = 1; // structurally incomplete blocks are fine, an all-zero block would be a structural entry without effect
        return v;
    }
    static double mag(const blk2 &v) { double s = 0; for (int i = 0; i < 4; ++i) s += std::abs(v(i)); return s; } // >= every induced norm of the block
    static blk2 dia(Tape &t, int mode, double s, bool dominant) {
        // D = c I + E with |E| entries <= 0.3 c: invertible, and block diagonally dominant when c (1 - 0.6) >= s
        double c = dominant ? 2.5 * s * (1 + t.logu(0.02, 2.0)) + (s == 0 ? t.logu(0.1, 10.0) : 0) : (s == 0 ? 1.0 : s) * t.uni(0.6, 1.5);
        if (mode == 2) c = std::ceil(2.5 * s) + t.ival(2, 4); // >= 2 with |off-diagonal entries| <= 1: never singular
        blk2 v;
        for (int i = 0; i < 2; ++i) for (int j = 0; j < 2; ++j) v(i, j) = (i == j ? c : 0.0) + (mode == 2 ? 0.0 : c * t.uni(-0.3, 0.3));
        if (mode == 2) { v(0, 1) = t.ival(-1, 1); v(1, 0) = t.ival(-1, 1); }
        return v;
    }
};

struct MatInfo { std::string family; int mode = 0; bool dominant = true; bool nonsym = false; int n = 0; long offdiag_rows = 0; };

// Square matrix with a structurally present, invertible diagonal on a generated graph pattern.
//   mode 0: negative off-diagonals (M-matrix like), 1: mixed signs / phases, 2: small integers (exact arithmetic family)
//   dominant: strictly (block) diagonally dominant rows (needed by the ILU family and SPAI-1); otherwise arbitrary non-zero diagonal
//   structural non-symmetry: each a_ij of an edge is dropped independently with probability q/8
template <class V>
Csr<V> gen_matrix(Tape &t, int nmax, bool dominant, MatInfo &info, int fam_lo = 0, int fam_hi = 9) {
    Graph g = gen_graph(t, nmax, fam_lo, fam_hi);
    int n = g.n;
    int mode = static_cast<int>(t.u(0, 2));
    int q8 = t.b() ? static_cast<int>(t.u(1, 4)) : 0;
    std::vector<std::map<ptrdiff_t, V>> rows(n);
    std::vector<double> s(n, 0.0);
    for (auto &e : g.edges) {
        bool k1 = !(q8 && t.chance(q8, 8)), k2 = !(q8 && t.chance(q8, 8));
        if (k1) { V v = Gen<V>::off(t, mode); rows[e.first][e.second] = v; s[e.first] += Gen<V>::mag(v); }
        if (k2) { V v = Gen<V>::off(t, mode); rows[e.second][e.first] = v; s[e.second] += Gen<V>::mag(v); }
        if (k1 != k2) info.nonsym = true;
    }
    for (int i = 0; i < n; ++i) { if (!rows[i].empty()) ++info.offdiag_rows; rows[i][i] = Gen<V>::dia(t, mode, s[i], dominant); }
    info.family = g.family; info.mode = mode; info.dominant = dominant; info.n = n;
    return from_triplets<V>(n, n, rows);
}

template <class V>
std::vector<typename VT<V>::rhs> gen_vector(Tape &t, size_t n, int kind = -1) {
    typedef typename VT<V>::rhs R;
    if (kind < 0) kind = static_cast<int>(t.u(0, 3));
    std::vector<R> x(n);
    for (size_t i = 0; i < n; ++i) for (int a = 0; a < VT<V>::B; ++a) {
        double re = 0, im = 0;
        switch (kind) {
        case 0: re = 1; break;
        case 1: re = static_cast<double>(t.u(-3, 3)); if (VT<V>::complex) im = static_cast<double>(t.u(-3, 3)); break;
        case 2: re = t.uni(-1, 1); if (VT<V>::complex) im = t.uni(-1, 1); break;
        default: re = t.slogu(1e-2, 1e2); if (VT<V>::complex) im = t.slogu(1e-2, 1e2); break;
        }
        VT<V>::rset(x[i], a, cld(re, im));
    }
    return x;
}
template <class V>
std::vector<typename VT<V>::rhs> unit_vector(size_t n, size_t j) { // j indexes scalar unknowns
    typedef typename VT<V>::rhs R;
    std::vector<R> x(n);
    for (size_t i = 0; i < n; ++i) for (int a = 0; a < VT<V>::B; ++a) VT<V>::rset(x[i], a, cld(i * VT<V>::B + a == j ? 1 : 0, 0));
    return x;
}
template <class V>
std::vector<typename VT<V>::rhs> pack(const std::vector<cld> &y) {
    typedef typename VT<V>::rhs R;
    const int B = VT<V>::B;
    std::vector<R> x(y.size() / B);
    for (size_t i = 0; i < x.size(); ++i) for (int a = 0; a < B; ++a) VT<V>::rset(x[i], a, y[i * B + a]);
    return x;
}
template <class R>
bool bitwise_equal(const std::vector<R> &a, const std::vector<R> &b) { return a.size() == b.size() && (a.empty() || std::memcmp(a.data(), b.data(), a.size() * sizeof(R)) == 0); }

template <class V>
std::string describe_matrix(const Csr<V> &A, const MatInfo &mi) {
    std::ostringstream os;
    os << VT<V>::name() << " " << mi.family << " n=" << A.n << " nnz=" << A.nnz() << " mode=" << mi.mode << (mi.dominant ? " ddom" : " general") << (mi.nonsym ? " struct-nonsym" : "");
    return os.str();
}
template <class V>
void label_matrix(Ctx &c, const Csr<V> &A, const MatInfo &mi) {
    c.label(std::string("val:") + VT<V>::name());
    c.label("fam:" + mi.family);
    c.label(mi.nonsym ? "struct-nonsym" : "struct-sym");
    c.label(mi.mode == 0 ? "mode:mmat" : mi.mode == 1 ? "mode:mixed" : "mode:ints");
    c.label(A.n <= 3 ? "n<=3" : A.n <= 10 ? "n<=10" : A.n <= 30 ? "n<=30" : "n<=60");
}

// Componentwise comparison of a library vector with the dense reference:  |got - ref|_i <= c u scale_i  (scale given per scalar unknown)
template <class V>
void require_close(const std::vector<typename VT<V>::rhs> &got, const std::vector<cld> &ref, const std::vector<ld> &scale, ld c, const std::string &what) {
    std::vector<cld> g = expand<V>(got);
    VF_REQUIRE(g.size() == ref.size(), what << ": size");
    for (size_t i = 0; i < g.size(); ++i) {
        ld e = std::abs(g[i] - ref[i]);
        VF_REQUIRE(e <= c * U * scale[i] || (e != e ? false : e == 0), what << ": component " << i << " = (" << static_cast<double>(g[i].real()) << "," << static_cast<double>(g[i].imag())
                   << "), dense reference (" << static_cast<double>(ref[i].real()) << "," << static_cast<double>(ref[i].imag()) << "), |diff| = " << static_cast<double>(e)
                   << " > " << static_cast<double>(c) << " u * " << static_cast<double>(scale[i]));
    }
}
// |A| |x| style scale helpers
inline std::vector<ld> mulabs(const Dense<ld> &A, const std::vector<ld> &x) { std::vector<ld> y(A.n, 0); for (ptrdiff_t i = 0; i < A.n; ++i) { ld s = 0; for (ptrdiff_t j = 0; j < A.m; ++j) s += A(i, j) * x[j]; y[i] = s; } return y; }
inline std::vector<ld> addv(const std::vector<ld> &a, const std::vector<ld> &b) { std::vector<ld> c(a.size()); for (size_t i = 0; i < a.size(); ++i) c[i] = a[i] + b[i]; return c; }

// calibration aid: C06_CALIB=1 prints the largest observed error / scale ratios at exit
struct Calib {
    std::map<std::string, double> mx;
    bool on = getenv("C06_CALIB") != nullptr;
    void see(const std::string &k, double r) { if (on) { double &m = mx[k]; if (r > m) m = r; } }
    ~Calib() { if (on) for (auto &kv : mx) fprintf(stderr, "CALIB %s %.3g\n", kv.first.c_str(), kv.second); }
};
static Calib calib;
template <class V>
double worst_ratio(const std::vector<typename VT<V>::rhs> &got, const std::vector<cld> &ref, const std::vector<ld> &scale) {
    std::vector<cld> g = expand<V>(got); double w = 0;
    for (size_t i = 0; i < g.size(); ++i) { ld e = std::abs(g[i] - ref[i]); if (e > 0) w = std::max(w, static_cast<double>(e / (U * scale[i]))); }
    return w;
}

} // namespace c06
