// C03 — Galerkin coarse levels and rebuild histories: smoothed_aggregation x {spai0, damped_jacobi, gauss_seidel, ilu0}.
// See c03_galerkin.hpp (property, oracles) and c03_record.hpp (recording / replaying policies, friend accessor).
#include "c03_galerkin.hpp"
C03_TU(smoothed_aggregation)
