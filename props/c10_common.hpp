// C10 (extension) — machinery shared by the translation units that widen the poisoned-allocator differential of
// c10_determinism.cpp to other value types, adapters and composite preconditioners.
//
// One *execution* of a case builds every library object afresh, records everything observable about it in a byte
// string (Digest: tagged sections) and destroys the objects again.  differential() executes the case with every
// fresh heap block filled with 0x00 / 0xFF / 0xAA / a pseudo-random stream and after a generated allocation
// pre-history and requires the byte strings to be identical; sections called "second-X" must repeat section "X"
// (same object applied twice to the same input).  In the sanitizer build the fills are left to ASan (0xBE), the
// case is executed twice (second time after the pre-history), compared, and LeakSanitizer is asked for leaks.
//
// Include AFTER the amgcl value_type headers the TU needs.
#pragma once
#define VF_POISON_IMPLEMENT
#include "../common/poison.hpp"
#include <complex>
#include <functional>
#include <sstream>
#include <boost/property_tree/ptree.hpp>
#include <amgcl/backend/builtin.hpp>
#include <amgcl/adapter/crs_tuple.hpp>
#include <amgcl/amg.hpp>
#include <amgcl/make_solver.hpp>
#include <amgcl/coarsening/runtime.hpp>
#include <amgcl/relaxation/runtime.hpp>
#include <amgcl/relaxation/as_preconditioner.hpp>
#include <amgcl/solver/runtime.hpp>
#include "../common/harness.hpp"
#include "../common/gen.hpp"
#include "../common/amgcl_util.hpp"
#include "../common/access.hpp"

namespace c10 {

using namespace vf;
typedef boost::property_tree::ptree ptree;
typedef amgcl_verif::access acc;

// ------------------------------------------------------------------------------------------------ digest
struct Digest {
    std::string d;
    std::vector<std::pair<std::string, size_t>> sec;
    void section(const std::string &name) { sec.push_back({name, d.size()}); d += "|#" + name + ":"; }
    void bytes(const void *p, size_t n) { if (n) d.append(static_cast<const char *>(p), n); }
    void text(const std::string &s) { d += s; }
    template <class T> void pod(const T &v) { bytes(&v, sizeof v); }
    template <class T> void vec(const std::vector<T> &v) { size_t n = v.size(); pod(n); if (n) bytes(v.data(), n * sizeof(T)); }
    template <class V, class C, class P> void crs(const amgcl::backend::crs<V, C, P> &M, const char *tag) {
        d += tag;
        size_t sz[3] = {M.nrows, M.ncols, M.nnz};
        bytes(sz, sizeof sz);
        if (M.ptr) bytes(M.ptr, (M.nrows + 1) * sizeof(P));
        if (M.nnz && M.col) bytes(M.col, M.nnz * sizeof(C));
        if (M.nnz && M.val) bytes(M.val, M.nnz * sizeof(V));
    }
    void exc(const std::string &what) { d += "|EXC:" + what; }
    bool threw() const { return d.find("|EXC:") != std::string::npos; }
    std::string exc_text() const { size_t p = d.find("|EXC:"); return p == std::string::npos ? std::string() : d.substr(p, 160); }
    // byte range of a section (up to the start of the next one)
    bool range(const std::string &name, size_t &b, size_t &e) const {
        for (size_t i = 0; i < sec.size(); ++i) if (sec[i].first == name) { b = sec[i].second; e = i + 1 < sec.size() ? sec[i + 1].second : d.size(); return true; }
        return false;
    }
    std::string where(size_t pos) const { std::string w = "setup"; for (auto &s : sec) if (s.second <= pos) w = s.first; return w; }
};

// hierarchy of an amg (any backend built on builtin crs): level matrices and which solver each level owns
template <class AMG> void dump_hier(Digest &D, const AMG &amg) {
    size_t nl = 0;
    for (const auto &l : acc::levels(amg)) {
        ++nl;
        if (l.A) D.crs(*l.A, "|A");
        if (l.P) D.crs(*l.P, "|P");
        if (l.R) D.crs(*l.R, "|R");
        D.text(l.solve ? "|direct" : "|nodirect");
        D.text(l.relax ? "|relax" : "|norelax");
    }
    D.pod(nl);
}
template <class AMG> size_t n_levels(const AMG &amg) { return acc::nlevels(amg); }

// allocation pre-history: shifts addresses and leaves freed, dirty blocks behind
inline void prehistory(const std::vector<uint32_t> &ph) {
    std::vector<char *> held;
    for (uint32_t w : ph) { size_t n = 1 + w % 5000; char *p = new char[n]; memset(p, 0x5A, n); if (w & 1) held.push_back(p); else delete[] p; }
    for (char *p : held) delete[] p;
}
inline std::vector<uint32_t> gen_prehist(Tape &t) {
    std::vector<uint32_t> ph;
    int nh = static_cast<int>(t.u(0, 12));
    for (int i = 0; i < nh; ++i) ph.push_back(static_cast<uint32_t>(t.u(0, 1 << 20)));
    return ph;
}

struct PoisonGuard { PoisonGuard(int fill, uint64_t seed) { poison_set(fill, seed); } ~PoisonGuard() { poison_set(-1); } };

// exec(D, with_prehistory): one complete execution of the case. Library exceptions are caught inside and recorded with D.exc().
typedef std::function<void(Digest &, bool)> Exec;

inline void differential(Ctx &c, uint64_t rseed, const Exec &exec, bool check_repeat = true) {
    auto run = [&](int fill, bool pre) { Digest D; { PoisonGuard g(fill, rseed); exec(D, pre); } return D; };
    Digest ref = run(poison_active() ? 0x00 : -1, false);
    c.label(ref.threw() ? "outcome:exception" : "outcome:result");
    if (check_repeat && !ref.threw()) {
        for (auto &s : ref.sec) {
            size_t b1, e1, b2, e2;
            if (s.first.compare(0, 7, "second-") != 0 || !ref.range(s.first.substr(7), b1, e1) || !ref.range(s.first, b2, e2)) continue;
            size_t h1 = s.first.size() - 7 + 3, h2 = s.first.size() + 3; // skip the section headers "|#name:"
            VF_REQUIRE(ref.d.substr(b1 + h1, e1 - b1 - h1) == ref.d.substr(b2 + h2, e2 - b2 - h2),
                       "'" << s.first.substr(7) << "' repeated with the same object and the same input differs from the first time (state leaks between calls)");
        }
    }
    auto compare = [&](const Digest &d, const char *how) {
        if (d.d == ref.d) return;
        size_t pos = 0; while (pos < d.d.size() && pos < ref.d.size() && d.d[pos] == ref.d[pos]) ++pos;
        std::string e0 = ref.exc_text(), e1 = d.exc_text();
        VF_REQUIRE(false, "result depends on heap contents: " << how << " changes the " << ref.where(pos) << " (first difference at byte " << pos << " of " << ref.d.size() << "/" << d.d.size() << ")"
                   << (e0 != e1 ? " outcome '" + e0 + "' vs '" + e1 + "'" : ""));
    };
    if (!poison_active()) { // sanitizer build: sanitizer reports are the oracle; one more execution after another allocation history
        Digest d = run(-1, true);
        compare(d, "a different allocation history (sanitizer build)");
        VF_REQUIRE(!leaks_found(), "LeakSanitizer: memory leaked by this case");
        return;
    }
    static const int FILLS[] = {0xFF, 0xAA, 256, 0x00};
    static const char *NAMES[] = {"fresh memory filled with 0xFF", "fresh memory filled with 0xAA", "fresh memory filled with random bytes", "fresh memory filled with 0x00 after another allocation history"};
    for (int q = 0; q < 4; ++q) compare(run(FILLS[q], q == 3 || (q & 1)), NAMES[q]);
}

// ------------------------------------------------------------------------------------------------ configurations
static const char *COARSE[] = {"smoothed_aggregation", "aggregation", "ruge_stuben", "smoothed_aggr_emin"};
static const char *RELAX[] = {"spai0", "damped_jacobi", "gauss_seidel", "ilu0", "iluk", "ilup", "ilut", "chebyshev", "spai1"};
static const char *SOLVER[] = {"cg", "bicgstab", "bicgstabl", "gmres", "fgmres", "lgmres", "idrs", "richardson", "preonly"};

struct PrecondCfg {
    bool single_level = false;
    int ci = 0, ri = 0, ce = 3000, ml = 100, ncycle = 1;
    int ns_cols = 0;
    std::vector<double> ns;      // near-null-space, row-major rows x ns_cols (user-owned array, handed over through the property tree)
    std::string ns_path;         // "<prefix>coarsening.nullspace"
    bool degenerate() const { return !single_level && (ml == 1 || ce <= 2 || ns_cols >= 2); }
    std::string str() const {
        std::ostringstream os;
        if (single_level) os << "relaxation/" << RELAX[ri]; else os << COARSE[ci] << "/" << RELAX[ri] << " coarse_enough=" << ce << " max_levels=" << ml << " ncycle=" << ncycle << " ns=" << ns_cols;
        return os.str();
    }
};

// relaxation parameters that exist for the chosen type only (unknown keys would only print warnings)
inline void gen_relax_params(Tape &t, ptree &p, const std::string &pre, int ri) {
    if (!t.chance(1, 3)) return;
    switch (ri) {
    case 1: p.put(pre + "damping", t.uni(0.3, 1.0)); break;
    case 3: p.put(pre + "damping", t.uni(0.5, 1.0)); break;
    case 4: p.put(pre + "k", static_cast<int>(t.u(0, 2))); break;
    case 5: p.put(pre + "k", static_cast<int>(t.u(0, 2))); break;
    case 6: p.put(pre + "p", static_cast<int>(t.u(1, 4))); p.put(pre + "tau", t.logu(1e-4, 1e-1)); break;
    case 7: p.put(pre + "degree", static_cast<int>(t.u(1, 5))); if (t.b()) p.put(pre + "power_iters", static_cast<int>(t.u(1, 5))); if (t.b()) p.put(pre + "scale", true); break;
    default: break;
    }
}

// AMG (runtime coarsening + relaxation) or a single-level relaxation under `pre` ("precond." ...).
struct PrecondOpts {
    int ns_rows = 0;          // scalar rows of the near-null-space array (unknowns * block size); 0 = never generate a near-null-space
    bool with_class = false;  // the target is amgcl::runtime::preconditioner<>: write "class" too
    int ns_mult = 1;          // generated nullspace.cols are multiples of this (block value types go through coarsening::as_scalar, which
                              // needs naggr*cols divisible by the block size); one case in eight ignores it (clean rejection expected)
    bool rs_ok = true, spai1_ok = true; // the backend supports ruge_stuben / spai1; if not, they are still chosen now and then (the rejection is an outcome)
    bool allow_single = true; // false: the target type is an amg; a drawn "single level" becomes max_levels = 1
    PrecondOpts(int ns_rows_ = 0) : ns_rows(ns_rows_) {}
    PrecondOpts &cls(bool v = true) { with_class = v; return *this; }
    PrecondOpts &mult(int m) { ns_mult = m; return *this; }
    PrecondOpts &no_rs() { rs_ok = false; return *this; }
    PrecondOpts &no_spai1() { spai1_ok = false; return *this; }
    PrecondOpts &amg_only() { allow_single = false; return *this; }
};
inline PrecondCfg gen_precond(Tape &t, ptree &p, const std::string &pre, const PrecondOpts &o) {
    const int ns_rows = o.ns_rows, ns_mult = o.ns_mult; const bool with_class = o.with_class;
    PrecondCfg q;
    q.ci = static_cast<int>(t.u(0, 3)); q.ri = static_cast<int>(t.u(0, 8));
    if (q.ci == 2 && !o.rs_ok && !t.chance(1, 4)) q.ci = static_cast<int>(t.pick(2));
    if (q.ri == 8 && !o.spai1_ok && !t.chance(1, 4)) q.ri = static_cast<int>(t.pick(8));
    q.single_level = t.chance(1, 6);
    static const int CE[] = {3000, 0, 1, 2, 5, 20};
    static const int ML[] = {100, 1, 2, 3};
    q.ce = CE[t.pick(6)]; q.ml = ML[t.pick(4)];
    if (q.single_level && !o.allow_single) { q.single_level = false; q.ml = 1; }
    if (with_class) p.put(pre + "class", q.single_level ? "relaxation" : "amg");
    std::string rp = q.single_level ? pre : pre + "relax.";
    if (!q.single_level) {
        p.put(pre + "coarsening.type", COARSE[q.ci]);
        p.put(pre + "coarse_enough", q.ce);
        if (t.b()) p.put(pre + "direct_coarse", false);
        int npre = static_cast<int>(t.u(0, 2)), npost = static_cast<int>(t.u(0, 2));
        if (npre + npost == 0) npre = 1;
        p.put(pre + "npre", npre); p.put(pre + "npost", npost);
        int ncycle = static_cast<int>(t.u(1, 2));
        if (q.ci != 2 && ns_rows > 0 && t.chance(1, 3)) { // near-null-space, possibly wider than an aggregate
            int k = static_cast<int>(t.u(1, 3));
            q.ns_cols = (ns_mult > 1 && !t.chance(1, 8)) ? ns_mult * std::min(k, 2) : k;
            q.ns.resize(static_cast<size_t>(ns_rows) * q.ns_cols);
            for (int i = 0; i < ns_rows; ++i) for (int v = 0; v < q.ns_cols; ++v) q.ns[static_cast<size_t>(i) * q.ns_cols + v] = v == 0 ? 1.0 : t.uni(-1, 1) + (v == 1 ? i : i * i * 0.1);
            q.ns_path = pre + "coarsening.nullspace";
            p.put(q.ns_path + ".cols", q.ns_cols);
            p.put(q.ns_path + ".rows", ns_rows);
        }
        // with >= 2 near-null-space vectors a level may shrink by a single unknown: cap the depth (recursion, W-cycle cost 2^levels)
        if (q.ns_cols >= 2 && q.ml > 3) q.ml = 3;
        p.put(pre + "max_levels", q.ml);
        q.ncycle = q.ml <= 3 ? ncycle : 1;
        p.put(pre + "ncycle", q.ncycle);
        if (q.ci == 1 && t.b()) p.put(pre + "coarsening.aggr.eps_strong", t.uni(0.0, 0.9));
        if (q.ci == 0 && t.chance(1, 4)) { p.put(pre + "coarsening.estimate_spectral_radius", true); p.put(pre + "coarsening.power_iters", static_cast<int>(t.u(0, 4))); }
        if (q.ci == 2 && t.chance(1, 4)) { p.put(pre + "coarsening.do_trunc", t.b()); p.put(pre + "coarsening.eps_trunc", t.uni(0.0, 0.5)); }
    }
    p.put(rp + "type", RELAX[q.ri]);
    gen_relax_params(t, p, rp, q.ri);
    return q;
}

// hand the (per execution) copy of the near-null-space array over; `copy` must out-live the constructor call
inline void bind_nullspace(const PrecondCfg &q, ptree &p, std::vector<double> &copy) {
    if (!q.ns_cols) return;
    copy = q.ns;
    p.put(q.ns_path + ".B", static_cast<void *>(copy.data()));
}

struct SolverCfg {
    int si = 0, maxiter = 1;
    bool stateful = false; // lgmres with always_reset=false keeps augmentation vectors: a second solve legitimately differs
    std::string str() const { return std::string(SOLVER[si]) + " maxiter=" + std::to_string(maxiter); }
};

// rows: unknowns (block rows); IDR(s) needs s <= rows
inline SolverCfg gen_solver(Tape &t, ptree &p, const std::string &pre, int rows, int max_iter = 25, bool allow_stateful = true) {
    SolverCfg s;
    s.si = static_cast<int>(t.u(0, 8));
    s.maxiter = static_cast<int>(t.u(1, max_iter));
    p.put(pre + "type", SOLVER[s.si]);
    if (s.si != 8) {
        p.put(pre + "maxiter", s.maxiter);
        int tk = static_cast<int>(t.u(0, 3));
        if (tk == 1) p.put(pre + "tol", 1e-3); else if (tk == 2) p.put(pre + "tol", 1e-13); else if (tk == 3) p.put(pre + "abstol", 1e-6);
        if (t.chance(1, 8)) p.put(pre + "ns_search", true);
    }
    if (s.si == 6) { p.put(pre + "s", static_cast<int>(t.u(1, std::max(1, std::min(rows, 6))))); if (t.b()) p.put(pre + "smoothing", true); if (t.b()) p.put(pre + "replacement", true); }
    if (s.si == 2) p.put(pre + "L", static_cast<int>(t.u(1, 3)));
    if (s.si == 3 || s.si == 4 || s.si == 5) p.put(pre + "M", static_cast<int>(t.u(1, 10)));
    if (s.si == 5) { p.put(pre + "K", static_cast<int>(t.u(1, 3))); if (allow_stateful && t.chance(1, 4)) { p.put(pre + "always_reset", false); s.stateful = true; } }
    if ((s.si == 1 || s.si == 2 || s.si == 3 || s.si == 5) && t.b()) p.put(pre + "pside", "left");
    if (s.si == 7 && t.b()) p.put(pre + "damping", t.uni(0.3, 1.0));
    return s;
}

// ------------------------------------------------------------------------------------------------ observing a solver object
// S: make_solver-like (precond().apply, operator()(f, x)); records two preconditioner applications (+ a repetition of the
// first one) and two solves from a zero start
template <class S, class R>
void observe_apply(Digest &D, const S &P, const std::vector<R> &f, const std::vector<R> &v1, const R &zero, const std::string &pfx = "") {
    size_t n = f.size();
    D.section(pfx + "apply");
    { std::vector<R> y(n, zero); P.apply(v1, y); D.vec(y); }
    D.section(pfx + "apply-rhs");
    { std::vector<R> y(n, zero); P.apply(f, y); D.vec(y); }
    D.section("second-" + pfx + "apply");
    { std::vector<R> y(n, zero); P.apply(v1, y); D.vec(y); }
}
template <class S, class R>
void observe_solves(Digest &D, const S &solve, const std::vector<R> &f, const R &zero, bool repeat = true, const std::string &pfx = "") {
    size_t n = f.size();
    for (int k = 0; k < (repeat ? 2 : 1); ++k) {
        D.section((k ? "second-" : "") + pfx + "solve");
        std::vector<R> x(n, zero);
        auto r = solve(f, x);
        size_t it = std::get<0>(r); double res = std::get<1>(r);
        D.pod(it); D.pod(res); D.vec(x);
    }
}
template <class S> void observe_print(Digest &D, const S &s, const std::string &pfx = "") {
    D.section(pfx + "print");
    std::ostringstream os; os << s; D.text(os.str());
}
// depth of the deepest hierarchy in the printed summary (for wrappers that do not expose their preconditioner); 0 = none printed
inline size_t printed_levels(const Digest &D) {
    size_t b, e;
    if (!D.range("print", b, e)) return 0;
    std::string s = D.d.substr(b, e - b);
    size_t best = 0;
    for (size_t p = s.find("Number of levels:"); p != std::string::npos; p = s.find("Number of levels:", p + 1)) best = std::max(best, static_cast<size_t>(std::atol(s.c_str() + p + 17)));
    return best;
}

// ------------------------------------------------------------------------------------------------ systems
// degenerate classes first (class 0 = 1x1, 1 = diagonal, 2 = disconnected union, 3 = small graph, 4..7 = any graph)
inline Graph gen_class_graph(Tape &t, int nmax, int &cls, std::string &dclass) {
    cls = static_cast<int>(t.u(0, 7));
    Graph g;
    if (cls == 0) { g.n = 1; g.family = "1x1"; dclass = "1x1"; }
    else if (cls == 1) { g = gen_graph(t, std::min(12, nmax), 9, 9); dclass = "diagonal"; }
    else if (cls == 2) { g = gen_graph(t, std::min(40, nmax), 8, 8); dclass = "disconnected"; }
    else { g = gen_graph(t, cls == 3 ? std::min(12, nmax) : nmax); dclass = "graph"; }
    return g;
}

// strictly row diagonally dominant real matrix on the graph; vcls 0 M-matrix, 1 mixed signs, 2 all-positive off-diagonals
inline Csr<double> gen_sdd(Tape &t, const Graph &g, int vcls) {
    std::vector<std::map<ptrdiff_t, double>> rows(g.n);
    for (auto &e : g.edges) {
        double w1 = t.logu(0.1, 10), w2 = t.b() ? w1 : t.logu(0.1, 10);
        if (vcls == 0) { w1 = -w1; w2 = -w2; }
        else if (vcls == 1) { if (t.b()) w1 = -w1; if (t.b()) w2 = -w2; }
        rows[e.first][e.second] = w1; rows[e.second][e.first] = w2;
    }
    for (int i = 0; i < g.n; ++i) { double s = 0; for (auto &kv : rows[i]) s += std::abs(kv.second); rows[i][i] = s + t.logu(0.05, 2.0); }
    return from_triplets<double>(g.n, g.n, rows);
}
// scalar rows of a block-structured system (BS unknowns per graph node): a coupled pair of nodes gets BS x BS entries, each present
// with probability fill8/8; diagonal blocks dense (3/4 per entry) if dense_diag; strictly row diagonally dominant, so every diagonal
// block is non-singular and LU without pivoting (cpr) works on it
inline std::vector<std::map<ptrdiff_t, double>> gen_block_sdd_rows(Tape &t, const Graph &g, int BS, int vcls, int fill8, bool dense_diag) {
    std::vector<std::map<ptrdiff_t, double>> rows(static_cast<size_t>(g.n) * BS);
    auto value = [&]() { double w = t.logu(0.1, 10); if (vcls == 0) w = -w; else if (vcls == 1 && t.b()) w = -w; return w; };
    for (auto &e : g.edges) for (int dir = 0; dir < 2; ++dir) {
        int bi = dir ? e.second : e.first, bj = dir ? e.first : e.second;
        for (int a = 0; a < BS; ++a) for (int b2 = 0; b2 < BS; ++b2) if (t.chance(fill8, 8)) rows[bi * BS + a][bj * BS + b2] = value();
    }
    for (int i = 0; i < g.n; ++i) for (int a = 0; a < BS; ++a) for (int b2 = 0; b2 < BS; ++b2) if (a != b2 && dense_diag && t.chance(3, 4)) rows[i * BS + a][i * BS + b2] = value();
    for (size_t r = 0; r < rows.size(); ++r) { double s = 0; for (auto &kv : rows[r]) s += std::abs(kv.second); rows[r][static_cast<ptrdiff_t>(r)] = s + t.logu(0.05, 2.0); }
    return rows;
}
inline const char *vcls_name(int vcls) { return vcls == 0 ? "mmatrix" : vcls == 1 ? "mixed" : "positive-offdiag"; }

} // namespace c10
