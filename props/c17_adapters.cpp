// C17 (adapter part) — every way of handing a matrix to the library describes the same linear operator.
//
// Oracles
//  * rows / cols / nonzeros, the (col,val) sequence (multiset where the foreign format sorts) of every row through
//    backend::row_begin, SpMV (long double reference, bound 2(m+3) u sum|a||x|) and the generic crs copy equal the source;
//  * zero_copy / zero_copy_direct: ptr/col/val pointer identity with the user arrays, own_data == false, user arrays
//    memcmp-unchanged and still owned by the user after every amgcl object built on them is gone (exact-size heap arrays:
//    the ASan twin reports a wrongful free or an access past the end);
//  * adapter::reorder<> : perm is a permutation, B(i,j) = A(perm i, perm j) exactly, and the solution of the permuted system
//    mapped back with inverse() solves the ORIGINAL system (true residual in long double);
//  * adapter::scale_diagonal / scaled_problem: As = D^-1/2 A D^-1/2 entry-wise within 3 ulp, and the post-scaled solution
//    solves the ORIGINAL system.
#include <amgcl/backend/builtin.hpp>
#include <amgcl/value_type/static_matrix.hpp>
#include <amgcl/adapter/crs_tuple.hpp>
#include <amgcl/adapter/zero_copy.hpp>
#include <amgcl/adapter/eigen.hpp>
#include <amgcl/adapter/ublas.hpp>
#include <amgcl/adapter/crs_builder.hpp>
#include <amgcl/adapter/block_matrix.hpp>
#include <amgcl/adapter/reorder.hpp>
#include <amgcl/adapter/scaled_problem.hpp>
#include <amgcl/make_solver.hpp>
#include <amgcl/amg.hpp>
#include <amgcl/coarsening/smoothed_aggregation.hpp>
#include <amgcl/relaxation/spai0.hpp>
#include <amgcl/relaxation/as_preconditioner.hpp>
#include <amgcl/solver/cg.hpp>
#include <array>
#include <map>
#include <boost/range/iterator_range.hpp>
#include "c17_common.hpp"
#include "c17_block2.hpp"

using namespace vf;
using namespace c17;
namespace ab = amgcl::backend;
namespace ad = amgcl::adapter;

// ------------------------------------------------------------------------------------------------ source matrices
// family 0: random sparse (square or rectangular, sorted or shuffled rows, empty rows, explicit zeros)
// family 1: SPD M-matrix on a graph (rows sorted or shuffled, optionally structurally non-symmetric)
// family 2: general values (log-uniform magnitudes, both signs) on a graph pattern
static Source gen_source(Tape &t, bool square_only, std::string &fam, bool &shuffled) {
    Source s;
    int f = static_cast<int>(t.u(0, 2));
    shuffled = false;
    if (f == 0) {
        ptrdiff_t n = t.u(1, t.b() ? 6 : 60), m = (square_only || t.chance(2, 3)) ? n : t.u(1, 60);
        bool sorted = t.b();
        s.A = gen_sparse_int(t, n, m, 9, sorted, true);
        shuffled = !sorted;
        fam = n == m ? "sparse-square" : "sparse-rect";
    } else {
        Graph g = gen_graph(t, t.b() ? 8 : 80);
        Csr<double> M = gen_mmat(t, g, 1e3, true);
        if (f == 2) { for (auto &v : M.val) v = t.slogu(1e-3, 1e3); }
        if (t.chance(1, 3)) M = make_structurally_nonsym(t, M, static_cast<int>(t.u(1, 4)));
        if (t.b()) shuffled = shuffle_rows(t, M);
        s.A = M;
        fam = (f == 1 ? "mmat:" : "general:") + g.family;
    }
    s.x = gen_vec(t, static_cast<size_t>(s.A.m)); s.y0 = gen_vec(t, static_cast<size_t>(s.A.n));
    s.alpha = t.b() ? 1.0 : static_cast<double>(t.u(-3, 3)); s.beta = t.b() ? 0.0 : static_cast<double>(t.u(-3, 3));
    s.finish();
    s.sched = gen_schedule(t, s.A.n);
    return s;
}

template <class PT, class CT>
void check_tuple_types(const Source &src, const std::string &tag, bool data_ptrs) {
    size_t n = static_cast<size_t>(src.A.n);
    std::vector<PT> ptr = conv<PT>(src.A.ptr); std::vector<CT> col = conv<CT>(src.A.col);
    const std::vector<double> &val = src.A.val;
    // std::tie: tuple of references to std::vector
    auto T1 = std::tie(n, ptr, col, val);
    require_operator(T1, src, "tuple<vector<" + tag + ">> (std::tie)");
    VF_REQUIRE(ab::ptr_data(T1) == ptr.data(), "tuple<" << tag << ">: ptr_data does not point at the user array");
    if (data_ptrs) VF_REQUIRE(ab::col_data(T1) == col.data() && ab::val_data(T1) == val.data(), "tuple<" << tag << ">: col_data/val_data do not point at the user arrays");
    for (ptrdiff_t i = 0; i < src.A.n; ++i) VF_REQUIRE(static_cast<ptrdiff_t>(ab::row_nonzeros(T1, i)) == src.A.ptr[i + 1] - src.A.ptr[i], "tuple<" << tag << ">: row_nonzeros(" << i << ")");
    // make_tuple of amgcl::iterator_range over raw pointers (documented form for raw arrays)
    auto T2 = std::make_tuple(n, amgcl::make_iterator_range(ptr.data(), ptr.data() + ptr.size()), amgcl::make_iterator_range(col.data(), col.data() + col.size()),
                              amgcl::make_iterator_range(val.data(), val.data() + val.size()));
    require_operator(T2, src, "tuple<amgcl::iterator_range<" + tag + "*>>");
    // boost::iterator_range over const pointers
    auto T3 = std::make_tuple(static_cast<int>(n), boost::make_iterator_range(static_cast<const PT *>(ptr.data()), static_cast<const PT *>(ptr.data()) + ptr.size()),
                              boost::make_iterator_range(static_cast<const CT *>(col.data()), static_cast<const CT *>(col.data()) + col.size()),
                              boost::make_iterator_range(val.data(), val.data() + val.size()));
    require_operator(T3, src, "tuple<boost::iterator_range<const " + tag + "*>>");
    // library CRS with the same index types, from ranges and from the tuple
    ab::crs<double, CT, PT> K(n, n, ptr, col, val);
    require_wellformed(K, "crs<double," + tag + ">(ranges)");
    require_same_rows(K, src, "crs<double," + tag + ">(ranges)", true, true);
    require_spmv(K, src, "crs<double," + tag + ">(ranges)");
    require_copy<double, CT, PT>(T1, src, "tuple<" + tag + "> -> crs<double," + tag + ">", true);
}

static void prop_adapters(Tape &t, Ctx &c) {
    std::string fam; bool shuffled;
    Source src = gen_source(t, false, fam, shuffled);
    const Csr<double> &A = src.A;
    const bool square = A.n == A.m;
    bool unsorted3 = has_unsorted_row(A, 3);
    c.desc << "adapters " << fam << " " << describe(A) << (shuffled ? " shuffled" : " sorted") << " alpha=" << src.alpha << " beta=" << src.beta << " A=" << dump_small(A, 8);
    c.nontrivial = unsorted3 && A.nnz() > A.n;
    c.label("fam:" + fam.substr(0, fam.find(':'))); c.label(square ? "square" : "rect"); c.label(unsorted3 ? "row-out-of-order(>=3)" : "rows-in-order");
    c.label(size_bucket(A.n));
    size_t n = static_cast<size_t>(A.n), m = static_cast<size_t>(A.m);
    // Former finding F-tuple-data-empty (fixed in /repo): col_data()/val_data() of the tuple adapter formed `&range[0]` on an empty range
    // when the matrix has no stored entries (UBSan: reference binding to null pointer).  Checked at the end of this function.
    const bool has_entries = A.nnz() > 0;

    if (square) {
        check_tuple_types<int, int>(src, "int", has_entries);
        check_tuple_types<long, long>(src, "long", has_entries);
        check_tuple_types<unsigned, unsigned>(src, "unsigned", has_entries);
        check_tuple_types<size_t, size_t>(src, "size_t", has_entries);
        check_tuple_types<ptrdiff_t, ptrdiff_t>(src, "ptrdiff_t", has_entries);
        check_tuple_types<size_t, int>(src, "size_t/int", has_entries);
        check_tuple_types<int, ptrdiff_t>(src, "int/ptrdiff_t", has_entries);
        c.label("tuple-index-types");
        // row-builder callback
        RowBuilder rb; rb.A = &A;
        auto Mb = ad::make_matrix(rb);
        require_operator(Mb, src, "adapter::make_matrix(row builder)", true, true);
        // uBlas compressed_matrix through backend::map (rows are assembled in ascending order, the format requires it)
        {
            typedef boost::numeric::ublas::compressed_matrix<double, boost::numeric::ublas::row_major> UM;
            Csr<double> As = sorted_copy(A);
            UM Ub(n, n, static_cast<size_t>(A.nnz()));
            for (ptrdiff_t i = 0; i < A.n; ++i) for (ptrdiff_t j = As.ptr[i]; j < As.ptr[i + 1]; ++j) Ub.push_back(static_cast<size_t>(i), static_cast<size_t>(As.col[j]), As.val[j]);
            Ub.complete_index1_data();
            auto Mu = ab::map(Ub);
            require_operator(Mu, src, "backend::map(ublas::compressed_matrix)", true, false);
            boost::numeric::ublas::vector<double> ux(n), uy(n);
            for (size_t i = 0; i < n; ++i) { ux[i] = src.x[i]; uy[i] = src.y0[i]; }
            ab::spmv(src.alpha, Mu, ux, src.beta, uy);
            std::vector<double> y(uy.begin(), uy.end());
            require_spmv_result(y, src, "spmv(map(ublas), ublas::vector)");
        }
        // block adapter over the scalar adapters (needs ascending columns: documented for block_matrix)
        if (A.n % 2 == 0 && !has_unsorted_row(A, 2)) {
            auto T = std::tie(n, A.ptr, A.col, A.val);
            check_block2(T, src, "block_matrix<2x2>(tuple)");
            check_block2(Mb, src, "block_matrix<2x2>(make_matrix(row builder))");
            std::vector<int> ip = conv<int>(A.ptr), ic = conv<int>(A.col);
            auto Ti = std::make_tuple(n, amgcl::make_iterator_range(ip.data(), ip.data() + ip.size()), amgcl::make_iterator_range(ic.data(), ic.data() + ic.size()),
                                      amgcl::make_iterator_range(A.val.data(), A.val.data() + A.val.size()));
            check_block2(Ti, src, "block_matrix<2x2>(tuple<iterator_range<int*>>)");
            auto Z = ad::zero_copy(n, A.ptr.data(), A.col.data(), A.val.data());
            check_block2(*Z, src, "block_matrix<2x2>(zero_copy crs)");
            c.label("block-adapter");
        }
    }
    // shared internal CRS (possibly rectangular)
    {
        auto K = std::make_shared<ab::crs<double>>(n, m, A.ptr, A.col, A.val);
        require_same_rows(*K, src, "shared crs", true, true);
        require_spmv(*K, src, "shared crs");
        ab::crs<double> K2(*K);
        require_same_rows(K2, src, "crs copy constructor", true, true);
        ab::crs<float, int, int> Kf(*K);
        VF_REQUIRE(Kf.nrows == n && Kf.ncols == m && static_cast<ptrdiff_t>(Kf.nnz) == A.nnz(), "crs<float,int>(crs<double>): shape");
        for (ptrdiff_t j = 0; j < A.nnz(); ++j) VF_REQUIRE(Kf.col[j] == A.col[j] && Kf.val[j] == static_cast<float>(A.val[j]), "crs<float,int>(crs<double>): entry " << j);
    }
    // Eigen row-major sparse matrices (assembly sorts each row) and Eigen::Map over the user's arrays (storage order kept)
    {
        typedef Eigen::SparseMatrix<double, Eigen::RowMajor, int> EM;
        std::vector<Eigen::Triplet<double, int>> tr;
        for (ptrdiff_t i = 0; i < A.n; ++i) for (ptrdiff_t j = A.ptr[i]; j < A.ptr[i + 1]; ++j) tr.emplace_back(static_cast<int>(i), static_cast<int>(A.col[j]), A.val[j]);
        EM E(A.n, A.m); E.setFromTriplets(tr.begin(), tr.end());
        require_same_rows(E, src, "Eigen::SparseMatrix<RowMajor,int>", true, false);
        require_copy<double, ptrdiff_t, ptrdiff_t>(E, src, "Eigen::SparseMatrix<RowMajor,int>", false);
        typedef Eigen::SparseMatrix<double, Eigen::RowMajor, ptrdiff_t> EL;
        std::vector<Eigen::Triplet<double, ptrdiff_t>> trl;
        for (ptrdiff_t i = 0; i < A.n; ++i) for (ptrdiff_t j = A.ptr[i]; j < A.ptr[i + 1]; ++j) trl.emplace_back(i, A.col[j], A.val[j]);
        EL El(A.n, A.m); El.setFromTriplets(trl.begin(), trl.end());
        require_same_rows(El, src, "Eigen::SparseMatrix<RowMajor,ptrdiff_t>", true, false);
        require_copy<double, int, int>(El, src, "Eigen::SparseMatrix<RowMajor,ptrdiff_t> -> crs<int>", false);
        std::vector<int> ip = conv<int>(A.ptr), ic = conv<int>(A.col); std::vector<double> v = A.val;
        int dummy_i = 0; double dummy_d = 0;
        Eigen::Map<EM> Mp(A.n, A.m, A.nnz(), ip.data(), ic.empty() ? &dummy_i : ic.data(), v.empty() ? &dummy_d : v.data());
        require_same_rows(Mp, src, "Eigen::Map<SparseMatrix<RowMajor,int>>", true, true);
        require_copy<double, ptrdiff_t, ptrdiff_t>(Mp, src, "Eigen::Map<SparseMatrix<RowMajor,int>>", true);
        VF_REQUIRE(ip == conv<int>(A.ptr) && ic == conv<int>(A.col) && v == A.val, "Eigen::Map: user arrays modified");
    }
    if (square && !has_entries) {
        c.label("matrix-without-entries");
        std::vector<int> ptr = conv<int>(A.ptr), col; std::vector<double> val;
        auto T = std::tie(n, ptr, col, val);
        (void)ab::col_data(T); (void)ab::val_data(T);
    }
}

// ------------------------------------------------------------------------------------------------ zero copy
template <class PT, class CT, bool Direct>
void check_zero_copy(Ctx &c, const Source &src, bool spd, const std::string &tag) {
    const Csr<double> &A = src.A;
    size_t n = static_cast<size_t>(A.n), m = static_cast<size_t>(A.m), nnz = static_cast<size_t>(A.nnz());
    // exact-size heap arrays owned by the "user"
    PT *p = new PT[n + 1]; CT *cl = new CT[nnz]; double *v = new double[nnz];
    for (size_t i = 0; i <= n; ++i) p[i] = static_cast<PT>(A.ptr[i]);
    for (size_t j = 0; j < nnz; ++j) { cl[j] = static_cast<CT>(A.col[j]); v[j] = A.val[j]; }
    std::vector<PT> p0(p, p + n + 1); std::vector<CT> c0(cl, cl + nnz); std::vector<double> v0(v, v + nnz);
    std::string fail;
    try {
        if constexpr (Direct) {
            auto Z = ad::zero_copy_direct(n, m, p, cl, v);
            VF_REQUIRE(static_cast<const void *>(Z->ptr) == p && static_cast<const void *>(Z->col) == cl && static_cast<const void *>(Z->val) == v, "zero_copy_direct<" << tag << ">: arrays were copied");
            VF_REQUIRE(!Z->own_data && Z->nrows == n && Z->ncols == m && Z->nnz == nnz, "zero_copy_direct<" << tag << ">: header");
            VF_REQUIRE(static_cast<const void *>(ab::ptr_data(*Z)) == p && static_cast<const void *>(ab::col_data(*Z)) == cl && static_cast<const void *>(ab::val_data(*Z)) == v, "zero_copy_direct: *_data()");
            require_same_rows(*Z, src, "zero_copy_direct<" + tag + ">", true, true);
            require_spmv(*Z, src, "zero_copy_direct<" + tag + ">");
            if (n == m) { auto Z2 = ad::zero_copy_direct(n, p, cl, v); VF_REQUIRE(Z2->ncols == n && static_cast<const void *>(Z2->val) == v, "zero_copy_direct(n,...)"); }
            auto Zc = std::make_shared<ab::crs<double>>(*Z); // deep copy must own its data
            VF_REQUIRE(static_cast<const void *>(Zc->val) != v || nnz == 0, "copy of a zero-copy matrix aliases user memory");
            if (spd) { // a preconditioner built from the zero-copy view (template constructor: copies)
                amgcl::amg<ab::builtin<double>, amgcl::coarsening::smoothed_aggregation, amgcl::relaxation::spai0> P(*Z);
                std::vector<double> y(n, 0.0); P.apply(src.x, y);
            }
        } else {
            auto Z = ad::zero_copy(n, m, p, cl, v);
            VF_REQUIRE(static_cast<const void *>(Z->ptr) == p && static_cast<const void *>(Z->col) == cl && static_cast<const void *>(Z->val) == v, "zero_copy<" << tag << ">: arrays were copied");
            VF_REQUIRE(!Z->own_data && Z->nrows == n && Z->ncols == m && Z->nnz == nnz, "zero_copy<" << tag << ">: header");
            require_same_rows(*Z, src, "zero_copy<" + tag + ">", true, true);
            require_spmv(*Z, src, "zero_copy<" + tag + ">");
            if (n == m) { auto Z2 = ad::zero_copy(n, p, cl, v); VF_REQUIRE(Z2->ncols == n && static_cast<const void *>(Z2->col) == cl, "zero_copy(n,...)"); }
            if (spd && !has_unsorted_row(A, 2)) {
                // shared_ptr constructor: "the matrix will not be copied and should out-live the amg instance"
                typedef amgcl::amg<ab::builtin<double>, amgcl::coarsening::smoothed_aggregation, amgcl::relaxation::spai0> Amg;
                Amg::params prm; prm.coarse_enough = 4;
                {
                    Amg P(Z, prm);
                    VF_REQUIRE(static_cast<const void *>(P.system_matrix().val) == v, "amg(shared_ptr<crs>) copied the zero-copy matrix");
                    VF_REQUIRE(P.system_matrix_ptr().get() == Z.get(), "amg(shared_ptr<crs>): system_matrix_ptr() is not the matrix that was passed in");
                    std::vector<double> y(n, 0.0); P.apply(src.x, y);
                }
                // make_solver(shared_ptr): the preconditioner's level-0 matrix IS the user's zero-copy matrix (identity of the object and
                // of the three arrays), for amg and for a relaxation used as preconditioner; after an in-place update of the user's values
                // the two-argument solve iterates on the updated matrix (judged by the true residual of the UPDATED system).
                {
                    typedef ab::builtin<double> DBk;
                    typedef amgcl::make_solver<Amg, amgcl::solver::cg<DBk>> S1;
                    typedef amgcl::make_solver<amgcl::relaxation::as_preconditioner<DBk, amgcl::relaxation::spai0>, amgcl::solver::cg<DBk>> S2;
                    S1::params p1; p1.precond.coarse_enough = 4; p1.solver.maxiter = 300;
                    S2::params p2; p2.solver.maxiter = 300;
                    S1 s1(Z, p1); S2 s2(Z, p2);
                    auto identity = [&](const std::shared_ptr<ab::crs<double>> &M, const char *who) {
                        VF_REQUIRE(M.get() == Z.get(), who << "(shared_ptr<crs>): system_matrix_ptr() is a different object (the zero-copy matrix was copied)");
                        VF_REQUIRE(static_cast<const void *>(M->ptr) == p && static_cast<const void *>(M->col) == cl && static_cast<const void *>(M->val) == v, who << "(shared_ptr<crs>): ptr/col/val do not alias the user arrays");
                        VF_REQUIRE(!M->own_data, who << "(shared_ptr<crs>): system matrix claims ownership of user memory");
                    };
                    identity(s1.system_matrix_ptr(), "make_solver<amg,cg>"); identity(s2.system_matrix_ptr(), "make_solver<as_preconditioner<spai0>,cg>");
                    VF_REQUIRE(&s1.system_matrix() == Z.get() && &s1.precond().system_matrix() == Z.get(), "make_solver<amg,cg>: system_matrix() is not the matrix passed in");
                    std::vector<double> f = src.y0; bool nz = false; for (double q : f) nz = nz || q != 0; if (!nz) f[0] = 1;
                    auto judged = [&](const char *who, const Csr<double> &Acur, size_t it, double res, const std::vector<double> &xs) {
                        for (double q : xs) VF_REQUIRE(std::isfinite(q), who << ": non-finite solution");
                        long double rho = true_relres(Acur, f, xs), allow = drift_allowance(Acur, f, xs, it);
                        VF_REQUIRE(rho <= static_cast<long double>(res) + allow && rho >= static_cast<long double>(res) - allow, who << ": true residual w.r.t. the matrix currently in the user's arrays "
                                   << static_cast<double>(rho) << ", reported " << res << " (iters " << it << ", allowance " << static_cast<double>(allow) << ")");
                    };
                    size_t it; double res;
                    { std::vector<double> xs(n, 0.0); std::tie(it, res) = s1(f, xs); judged("make_solver<amg,cg>(shared_ptr) solve(f,x)", A, it, res, xs); }
                    { std::vector<double> xs(n, 0.0); std::tie(it, res) = s2(f, xs); judged("make_solver<as_preconditioner,cg>(shared_ptr) solve(f,x)", A, it, res, xs); }
                    // in-place update of the user's values: diagonal x1.25 (still an SPD M-matrix, and the smoother built for the old values stays
                    // convergent -- with A <- 2A the stale SPAI-0 sweeps of a diagonal matrix cancel exactly and CG divides 0/0)
                    Csr<double> A2 = A;
                    for (ptrdiff_t i = 0; i < A.n; ++i) for (ptrdiff_t j = A.ptr[i]; j < A.ptr[i + 1]; ++j) { if (A.col[j] == i) A2.val[j] *= 1.25; v[j] = A2.val[j]; }
                    { std::vector<double> xs(n, 0.0); std::tie(it, res) = s1(f, xs); judged("make_solver<amg,cg>(shared_ptr) after in-place update of the user values", A2, it, res, xs); }
                    { std::vector<double> xs(n, 0.0); std::tie(it, res) = s2(f, xs); judged("make_solver<as_preconditioner,cg>(shared_ptr) after in-place update of the user values", A2, it, res, xs); }
                    for (size_t j = 0; j < nnz; ++j) v[j] = v0[j]; // restore: the arrays are compared with the originals below
                }
                c.label("zero-copy-into-amg(shared_ptr)");
            }
        }
    } catch (const vf::Fail &f) { fail = f.what(); }
      catch (const std::exception &e) { fail = std::string("unexpected exception: ") + e.what(); }
    // every amgcl object is gone: the arrays are untouched and still ours to free
    bool same = std::memcmp(p, p0.data(), (n + 1) * sizeof(PT)) == 0 && (nnz == 0 || (std::memcmp(cl, c0.data(), nnz * sizeof(CT)) == 0 && std::memcmp(v, v0.data(), nnz * sizeof(double)) == 0));
    delete[] p; delete[] cl; delete[] v;
    if (!fail.empty()) throw vf::Fail(fail);
    VF_REQUIRE(same, (Direct ? "zero_copy_direct<" : "zero_copy<") << tag << ">: user arrays were modified");
}

static void prop_zero_copy(Tape &t, Ctx &c) {
    std::string fam; bool shuffled;
    Source src = gen_source(t, false, fam, shuffled);
    const Csr<double> &A = src.A;
    bool spd = fam.compare(0, 5, "mmat:") == 0 && A.n == A.m;
    // structurally non-symmetric / shuffled M-matrices are still valid amg input (template constructor sorts); the shared_ptr path needs sorted rows
    c.desc << "zero copy " << fam << " " << describe(A) << (shuffled ? " shuffled" : " sorted") << " A=" << dump_small(A, 8);
    c.nontrivial = A.nnz() >= 2;
    c.label("fam:" + fam.substr(0, fam.find(':'))); c.label(A.n == A.m ? "square" : "rect"); c.label(has_unsorted_row(A, 3) ? "row-out-of-order(>=3)" : "rows-in-order");
    check_zero_copy<ptrdiff_t, ptrdiff_t, false>(c, src, spd, "ptrdiff_t");
    check_zero_copy<long, long, false>(c, src, false, "long");
    check_zero_copy<size_t, size_t, false>(c, src, false, "size_t");
    check_zero_copy<unsigned long, long, false>(c, src, false, "unsigned long/long");
    check_zero_copy<int, int, true>(c, src, spd, "int");
    check_zero_copy<unsigned, unsigned, true>(c, src, false, "unsigned");
    check_zero_copy<long, int, true>(c, src, false, "long/int");
    check_zero_copy<ptrdiff_t, ptrdiff_t, true>(c, src, false, "ptrdiff_t");
}

// ------------------------------------------------------------------------------------------------ reorder / scale
typedef ab::builtin<double> DB;
typedef amgcl::make_solver<amgcl::amg<DB, amgcl::coarsening::smoothed_aggregation, amgcl::relaxation::spai0>, amgcl::solver::cg<DB>> CgSolver;

// x0: initial approximation handed to the solver (the drift of the recursively updated residual scales with the largest iterate, which
// may be the initial one); empty = zero start
static void require_solves_original(Ctx &c, const std::string &what, const Csr<double> &A, const std::vector<double> &f, const std::vector<double> &x, size_t iters, double resid, double tol,
                                    const std::vector<double> &x0 = std::vector<double>()) {
    const long double extra = 1;
    for (double v : x) VF_REQUIRE(std::isfinite(v), what << ": non-finite solution");
    long double rho = true_relres(A, f, x);
    std::vector<double> xs = x;
    for (size_t i = 0; i < x0.size(); ++i) xs[i] = std::max(std::abs(xs[i]), std::abs(x0[i]));
    long double allow = drift_allowance(A, f, xs, iters);
    VF_REQUIRE(resid <= tol, what << ": solver reports " << resid << " > tol after " << iters << " iterations");
    VF_REQUIRE(rho <= (static_cast<long double>(resid) + allow) * extra, what << ": mapped-back solution does not solve the ORIGINAL system: true residual " << static_cast<double>(rho)
               << ", reported (for the transformed system) " << resid << ", allowance " << static_cast<double>(allow) << " factor " << static_cast<double>(extra));
    c.label("solved:" + what);
}

template <class Ordering>
void check_reorder(Tape &t, Ctx &c, const Csr<double> &A, const std::vector<double> &f, double tol, unsigned ce, const std::string &tag) {
    size_t n = static_cast<size_t>(A.n);
    auto T = std::tie(n, A.ptr, A.col, A.val);
    ad::reorder<Ordering> perm(T);
    // perm as data: forward(x)[i] = x[perm[i]]
    std::vector<ptrdiff_t> id(n), pv(n);
    for (size_t i = 0; i < n; ++i) id[i] = static_cast<ptrdiff_t>(i);
    perm.forward(id, pv);
    std::vector<char> seen(n, 0);
    for (size_t i = 0; i < n; ++i) { VF_REQUIRE(pv[i] >= 0 && static_cast<size_t>(pv[i]) < n && !seen[pv[i]], tag << ": perm is not a permutation at " << i << " (value " << pv[i] << ")"); seen[pv[i]] = 1; }
    std::vector<ptrdiff_t> ip(n); for (size_t i = 0; i < n; ++i) ip[pv[i]] = static_cast<ptrdiff_t>(i);
    bool moved = false; for (size_t i = 0; i < n; ++i) moved = moved || pv[i] != static_cast<ptrdiff_t>(i);
    c.label(moved ? tag + ":non-identity-perm" : tag + ":identity-perm");
    // the reordered matrix: B(i, j) = A(perm[i], perm[j]), row i lists the entries of row perm[i] in stored order
    auto Bv = perm(T);
    VF_REQUIRE(ab::rows(Bv) == n && ab::cols(Bv) == n && ab::nonzeros(Bv) == static_cast<size_t>(A.nnz()), tag << ": reordered matrix shape/nonzeros");
    Csr<double> Bref; Bref.n = Bref.m = A.n; Bref.ptr.assign(1, 0);
    for (size_t i = 0; i < n; ++i) {
        ptrdiff_t r = pv[i];
        auto a = ab::row_begin(Bv, i);
        for (ptrdiff_t j = A.ptr[r]; j < A.ptr[r + 1]; ++j, ++a) {
            VF_REQUIRE(static_cast<bool>(a), tag << ": reordered row " << i << " shorter than source row " << r);
            VF_REQUIRE(a.col() == ip[A.col[j]] && bits_equal(a.value(), A.val[j]), tag << ": reordered entry (" << i << "," << a.col() << ")=" << a.value() << ", expected A(" << r << "," << A.col[j]
                       << ")=" << A.val[j] << " at column " << ip[A.col[j]]);
            Bref.col.push_back(ip[A.col[j]]); Bref.val.push_back(A.val[j]);
        }
        VF_REQUIRE(!static_cast<bool>(a), tag << ": reordered row " << i << " longer than source row " << r);
        Bref.ptr.push_back(static_cast<ptrdiff_t>(Bref.col.size()));
    }
    // vector views and forward / inverse maps
    std::vector<double> fo(n), back(n);
    perm.forward(f, fo);
    for (size_t i = 0; i < n; ++i) VF_REQUIRE(bits_equal(fo[i], f[pv[i]]), tag << ": forward()");
    perm.inverse(fo, back);
    for (size_t i = 0; i < n; ++i) VF_REQUIRE(bits_equal(back[i], f[i]), tag << ": inverse(forward(f)) != f");
    auto fview = perm(f);
    VF_REQUIRE(fview.size() == n, tag << ": reordered_vector size");
    for (size_t i = 0; i < n; ++i) VF_REQUIRE(bits_equal(fview[i], f[pv[i]]), tag << ": reordered_vector[" << i << "]");
    // SpMV on the view equals the reordered product
    {
        std::vector<double> y(n, 0.0), xo = gen_vec(t, n, 2);
        ab::spmv(1.0, Bv, xo, 0.0, y);
        Source s2; s2.A = Bref; s2.x = xo; s2.y0.assign(n, 0.0); s2.finish();
        require_spmv_result(y, s2, tag + ": spmv(reordered_matrix)");
        s2.sched = gen_schedule(t, Bref.n);   // several row iterators of the view alive at once
        require_same_rows(Bv, s2, tag + ": reordered_matrix", true, true);
        require_copy<double, ptrdiff_t, ptrdiff_t>(Bv, s2, tag + ": reordered_matrix", true);
    }
    // documented use: Solver solve(perm(A)); solve(perm(rhs), x_ord); perm.inverse(x_ord, x)
    CgSolver::params p; p.solver.tol = tol; p.solver.maxiter = 200; p.precond.coarse_enough = ce;
    CgSolver solve(perm(T), p);
    size_t iters; double resid;
    {
        // note: perm(const std::vector<double>&) yields a view with value_type `const double`, which the solvers' inner
        // product cannot be instantiated with (does not compile) -- the rhs has to be a non-const vector, as in the docs.
        std::vector<double> xo(n, 0.0), x(n, 0.0), fm = f;
        std::tie(iters, resid) = solve(perm(fm), xo);
        VF_REQUIRE(fm == f, tag << ": solve(perm(rhs), x) modified the right-hand side");
        perm.inverse(xo, x);
        require_solves_original(c, tag + ":solve(perm(rhs))", A, f, x, iters, resid, tol);
    }
    {   // examples/solver.cpp: forward() both vectors, solve, inverse()
        std::vector<double> x0 = gen_vec(t, n, 2), xo(n), x(n, 0.0);
        perm.forward(x0, xo);
        std::tie(iters, resid) = solve(fo, xo);
        perm.inverse(xo, x);
        require_solves_original(c, tag + ":forward/solve/inverse", A, f, x, iters, resid, tol, x0);
    }
}

static void prop_reorder(Tape &t, Ctx &c) {
    Graph g = gen_graph(t, t.chance(1, 4) ? 8 : 150, 0, 8);
    MmatInfo mi; Csr<double> A = gen_mmat(t, g, 10.0, false, &mi);
    bool shuffled = t.b() ? shuffle_rows(t, A) : false;
    std::string fk; std::vector<double> f = nonzero_rhs(t, A, fk);
    double tol = t.b() ? 1e-8 : 1e-6;
    unsigned ce = t.b() ? 3000 : 10;
    c.desc << "reorder " << g.family << " " << describe(A) << (shuffled ? " shuffled" : "") << " rhs=" << fk << " tol=" << tol << " coarse_enough=" << ce << " A=" << dump_small(A, 8);
    c.nontrivial = A.n >= 3 && A.nnz() > A.n;
    c.label("fam:" + g.family); c.label(size_bucket(A.n)); c.label(has_unsorted_row(A, 3) ? "row-out-of-order(>=3)" : "rows-in-order");
    check_reorder<amgcl::reorder::cuthill_mckee<false>>(t, c, A, f, tol, ce, "reorder<CM>");
    check_reorder<amgcl::reorder::cuthill_mckee<true>>(t, c, A, f, tol, ce, "reorder<reverse CM>");
}

// Graphs with many breadth-first levels / connected components (Cuthill-McKee keeps a level number per node): long chains, thin strips,
// many small components, n up to ~1200; node numbering natural, reversed or rotated.
static void prop_reorder_long(Tape &t, Ctx &c) {
    int kind = static_cast<int>(t.u(0, 2));
    std::vector<std::pair<int, int>> E; int n = 0; std::string fam;
    if (kind == 0) { fam = "chain"; n = static_cast<int>(t.u(257, 1200)); for (int i = 0; i + 1 < n; ++i) E.push_back({i, i + 1}); }
    else if (kind == 1) {
        fam = "strip"; int w = static_cast<int>(t.u(2, 3)), L = static_cast<int>(t.u(257, 400)); n = w * L;
        for (int l = 0; l < L; ++l) for (int k = 0; k < w; ++k) { int id = l * w + k; if (k + 1 < w) E.push_back({id, id + 1}); if (l + 1 < L) E.push_back({id, id + w}); }
    } else {
        fam = "components"; int k = static_cast<int>(t.u(250, 400));
        for (int q = 0; q < k; ++q) { int sz = static_cast<int>(t.u(1, 3)); for (int a = 0; a + 1 < sz; ++a) E.push_back({n + a, n + a + 1}); if (sz == 3 && t.b()) E.push_back({n, n + 2}); n += sz; }
    }
    int relabel = static_cast<int>(t.u(0, 2)); int rot = relabel == 2 ? static_cast<int>(t.pick(static_cast<size_t>(n))) : 0;
    auto lab = [&](int i) { return relabel == 0 ? i : relabel == 1 ? n - 1 - i : (i + rot) % n; };
    std::vector<std::map<ptrdiff_t, double>> rows(n);
    for (int i = 0; i < n; ++i) rows[i][i] = t.logu(0.05, 2.0);   // shift on every node: well conditioned SPD M-matrix
    double contrast = t.logu(1.0, 10.0);
    for (auto &e : E) { double w = contrast > 1 ? t.logu(1.0, contrast) : 1.0; int a = lab(e.first), b = lab(e.second); rows[a][b] -= w; rows[b][a] -= w; rows[a][a] += w; rows[b][b] += w; }
    Csr<double> A = from_triplets<double>(n, n, rows);
    // breadth-first levels from node 0 plus restarts: what Cuthill-McKee has to count
    long levels = 0;
    {
        std::vector<int> lev(n, -1); std::vector<int> cur, nxt;
        for (int s0 = 0; s0 < n; ++s0) {
            if (lev[s0] >= 0) continue;
            cur.assign(1, s0); lev[s0] = 0;
            while (!cur.empty()) { ++levels; nxt.clear(); for (int u : cur) for (ptrdiff_t j = A.ptr[u]; j < A.ptr[u + 1]; ++j) { int w = static_cast<int>(A.col[j]); if (lev[w] < 0) { lev[w] = 1; nxt.push_back(w); } } cur.swap(nxt); }
        }
    }
    std::string fk; std::vector<double> f = nonzero_rhs(t, A, fk);
    double tol = 1e-8; unsigned ce = t.b() ? 3000 : 100;
    c.desc << "reorder long " << fam << " n=" << n << " " << describe(A) << " relabel=" << relabel << " rot=" << rot << " bfs-levels=" << levels << " rhs=" << fk << " coarse_enough=" << ce;
    c.nontrivial = levels >= 256;
    c.label("long:" + fam); c.label(levels >= 256 ? "bfs-levels>=256" : "bfs-levels<256"); c.label(relabel == 0 ? "numbering:natural" : relabel == 1 ? "numbering:reversed" : "numbering:rotated");
    check_reorder<amgcl::reorder::cuthill_mckee<false>>(t, c, A, f, tol, ce, "reorder<CM>");
    check_reorder<amgcl::reorder::cuthill_mckee<true>>(t, c, A, f, tol, ce, "reorder<reverse CM>");
}

static void prop_scale(Tape &t, Ctx &c) {
    Graph g = gen_graph(t, t.chance(1, 4) ? 8 : 150, 0, 8);
    MmatInfo mi; Csr<double> A = gen_mmat(t, g, 10.0, false, &mi);
    // badly scaled SPD system: A <- D A D, d_i log-uniform in [1/dmax, dmax]
    double dmax = t.b() ? 1.0 : t.logu(1.0, 1e3);
    std::vector<double> d(A.n, 1.0);
    if (dmax > 1) for (auto &v : d) v = t.logu(1.0 / dmax, dmax);
    for (ptrdiff_t i = 0; i < A.n; ++i) for (ptrdiff_t j = A.ptr[i]; j < A.ptr[i + 1]; ++j) A.val[j] *= d[i] * d[A.col[j]];
    bool shuffled = t.b() ? shuffle_rows(t, A) : false;
    std::string fk; std::vector<double> f = nonzero_rhs(t, A, fk);
    double tol = t.b() ? 1e-8 : 1e-6;
    unsigned ce = t.b() ? 3000 : 10;
    c.desc << "scale_diagonal " << g.family << " " << describe(A) << (shuffled ? " shuffled" : "") << " dmax=" << dmax << " rhs=" << fk << " tol=" << tol << " coarse_enough=" << ce << " A=" << dump_small(A, 8);
    c.nontrivial = A.n >= 2 && A.nnz() > A.n && dmax > 1;
    c.label("fam:" + g.family); c.label(size_bucket(A.n)); c.label(dmax > 1 ? (dmax > 30 ? "badly-scaled" : "mildly-scaled") : "unscaled");
    size_t n = static_cast<size_t>(A.n);
    auto T = std::tie(n, A.ptr, A.col, A.val);
    auto scale = ad::scale_diagonal<DB>(T);
    // reference scaling s_i = 1/sqrt(a_ii) in long double
    std::vector<long double> s(n, 1);
    for (ptrdiff_t i = 0; i < A.n; ++i) for (ptrdiff_t j = A.ptr[i]; j < A.ptr[i + 1]; ++j) if (A.col[j] == i) { s[i] = 1 / std::sqrt(static_cast<long double>(A.val[j])); break; }
    auto As = scale.matrix(T);
    VF_REQUIRE(ab::rows(As) == n && ab::cols(As) == n && ab::nonzeros(As) == static_cast<size_t>(A.nnz()), "scaled_matrix: shape/nonzeros");
    Csr<double> Sref = A; // scaled matrix as the library presents it (values as double), checked entry-wise
    for (ptrdiff_t i = 0; i < A.n; ++i) {
        auto a = ab::row_begin(As, i);
        for (ptrdiff_t j = A.ptr[i]; j < A.ptr[i + 1]; ++j, ++a) {
            VF_REQUIRE(static_cast<bool>(a) && static_cast<ptrdiff_t>(a.col()) == A.col[j], "scaled_matrix: structure of row " << i);
            long double ref = s[i] * A.val[j] * s[A.col[j]];
            // s_i, s_j each carry <= 2 roundings (sqrt, inverse), the two products 2 more
            VF_REQUIRE(std::abs(static_cast<long double>(a.value()) - ref) <= 8 * U * std::abs(ref), "scaled_matrix: entry (" << i << "," << A.col[j] << ") = " << a.value() << ", s_i a_ij s_j = " << static_cast<double>(ref));
            if (A.col[j] == i) VF_REQUIRE(std::abs(a.value() - 1.0) <= 8 * static_cast<double>(U), "scaled_matrix: diagonal entry " << i << " = " << a.value() << " (unit diagonal expected)");
            Sref.val[j] = a.value();
        }
        VF_REQUIRE(!static_cast<bool>(a), "scaled_matrix: row " << i << " too long");
    }
    {   // iterator protocol of the scaled view, and the block adapter on top of it (rows must be in ascending order for block_matrix)
        Source s3; s3.A = Sref; s3.x = gen_vec(t, n, 2); s3.y0.assign(n, 0.0); s3.finish();
        s3.sched = gen_schedule(t, Sref.n);
        require_same_rows(As, s3, "scaled_matrix", true, true);
        require_copy<double, ptrdiff_t, ptrdiff_t>(As, s3, "scaled_matrix", true); // no SpMV on the view itself (not a builtin-ops type)
        if (A.n % 2 == 0 && !has_unsorted_row(A, 2)) { check_block2(As, s3, "block_matrix<2x2>(scaled_matrix(tuple))"); c.label("block-over-scaled"); }
    }
    CgSolver::params p; p.solver.tol = tol; p.solver.maxiter = 200; p.precond.coarse_enough = ce;
    CgSolver solve(scale.matrix(T), p);
    // The solver's residual refers to the scaled system ||S(f - A x)|| / ||S f||; in the original norm it can grow by at most
    // max(1/s)/min(1/s) * ... : compare in the scaled norm (exactly what is claimed), and in the original norm with that factor.
    long double smax = 0, smin = 1e300L; for (auto v : s) { smax = std::max(smax, v); smin = std::min(smin, v); }
    std::vector<double> fs_ref(n); for (size_t i = 0; i < n; ++i) fs_ref[i] = static_cast<double>(s[i] * f[i]);
    size_t iters; double resid;
    auto check = [&](const std::string &what, const std::vector<double> &x) {
        // y = x / s solves the scaled system As y = S f
        std::vector<double> y(n); for (size_t i = 0; i < n; ++i) y[i] = static_cast<double>(x[i] / s[i]);
        for (double v : x) VF_REQUIRE(std::isfinite(v), what << ": non-finite solution");
        VF_REQUIRE(resid <= tol, what << ": solver reports " << resid << " > tol after " << iters << " iterations");
        long double rs = 0, fsn = 0; // ||S (f - A x)|| / ||S f|| from the ORIGINAL arrays
        for (ptrdiff_t i = 0; i < A.n; ++i) { long double r = f[i]; for (ptrdiff_t j = A.ptr[i]; j < A.ptr[i + 1]; ++j) r -= static_cast<long double>(A.val[j]) * x[A.col[j]]; rs += (s[i] * r) * (s[i] * r); fsn += (s[i] * f[i]) * (s[i] * f[i]); }
        long double rho_s = std::sqrt(rs / fsn);
        long double allow = drift_allowance(Sref, fs_ref, y, iters) + 16 * U * (c17::drift_allowance(Sref, fs_ref, y, 0) / (8 * U));
        VF_REQUIRE(rho_s <= static_cast<long double>(resid) + allow, what << ": post-scaled solution does not solve the ORIGINAL system: ||S(f-Ax)||/||Sf|| = " << static_cast<double>(rho_s)
                   << ", reported " << resid << ", allowance " << static_cast<double>(allow));
        long double rho = true_relres(A, f, x);
        VF_REQUIRE(rho <= (static_cast<long double>(resid) + allow) * (smax / smin) * 1.001L, what << ": true residual of the original system " << static_cast<double>(rho) << " above reported*cond(S) = "
                   << static_cast<double>((resid + allow) * smax / smin));
        c.label("solved:" + what);
    };
    {   // option 1: rhs untouched
        std::vector<double> x(n, 0.0);
        auto fs = scale.rhs(f);
        for (size_t i = 0; i < n; ++i) VF_REQUIRE(std::abs(static_cast<long double>((*fs)[i]) - s[i] * f[i]) <= 4 * U * std::abs(s[i] * f[i]), "scale.rhs(): entry " << i);
        std::tie(iters, resid) = solve(*fs, x);
        scale(x);
        check("scale:rhs()-copy", x);
    }
    {   // option 2: rhs prescaled in place
        std::vector<double> x(n, 0.0), b = f;
        scale(b);
        for (size_t i = 0; i < n; ++i) VF_REQUIRE(std::abs(static_cast<long double>(b[i]) - s[i] * f[i]) <= 4 * U * std::abs(s[i] * f[i]), "scale(b): entry " << i);
        std::tie(iters, resid) = solve(b, x);
        scale(x);
        check("scale:in-place", x);
    }
}

static std::vector<Prop> props() {
    return {
        Prop("adapters", prop_adapters, 700, 8000, 100, 60, {1}, 2, 8),
        Prop("zero_copy", prop_zero_copy, 500, 6000, 100, 60, {1}, 2, 8),
        Prop("reorder", prop_reorder, 300, 4000, 100, 40, {1}, 2, 8),
        Prop("reorder_long", prop_reorder_long, 60, 800, 100, 150, {1}, 2, 8),
        Prop("scale", prop_scale, 300, 4000, 100, 40, {1}, 2, 8),
    };
}
static std::vector<Enum> enums() { return {}; }

VF_MAIN(props(), enums())
