// C13 (complex part; the mixed-precision part is props/c13_mixed.cpp).
//
//  * complex: Hermitian positive definite (M-matrix pattern + i*skew) and shifted (Mmat + i*sigma*I) systems.
//    adapter::complex_matrix has exactly the entries of the real-equivalent form [re -im; im re] (interleaved re/im),
//    its SpMV on complex_range vectors equals the complex product (long double reference, rounding bound);
//    the solution obtained with builtin<complex<double>> and the one obtained from the real-equivalent 2n x 2n system
//    both have a truthful residual w.r.t. the COMPLEX system and agree within kappa_2 * (tol_c + tol_r).
//  * mixed precision: amg<builtin<float>> under cg / bicgstab<builtin<double>>, called as the tutorial does
//    (solve(A_double, rhs, x)), reaches the default 1e-8 on model problems with a truthful residual.
#include <complex>
#include <amgcl/backend/builtin.hpp>
#include <amgcl/value_type/complex.hpp>
#include <amgcl/adapter/crs_tuple.hpp>
#include <amgcl/adapter/complex.hpp>
#include <amgcl/make_solver.hpp>
#include <amgcl/amg.hpp>
#include <amgcl/coarsening/smoothed_aggregation.hpp>
#include <amgcl/relaxation/spai0.hpp>
#include <amgcl/solver/cg.hpp>
#include <amgcl/solver/bicgstab.hpp>
#include <amgcl/solver/gmres.hpp>
#include <Eigen/Dense>
#include "../common/harness.hpp"
#include "../common/gen.hpp"
#include "../common/dense.hpp"
#include "../common/amgcl_util.hpp"
#include "c13_common.hpp"

using namespace vf;
using namespace c13;
namespace ab = amgcl::backend;
typedef std::complex<double> cplx;

struct CplxCase { Csr<cplx> A; int kind; std::string family; double sigma = 0; double skew = 0; bool imag_diag = false; };

// kind 0: Hermitian, irreducibly diagonally dominant with real positive diagonal => HPD
// kind 1: shifted  M + i*sigma*I, M an SPD M-matrix  (complex symmetric, non-Hermitian, imaginary diagonal)
// kind 2: Hermitian part as kind 0 plus i*sigma_j on the diagonal (per-row shifts of both signs)
static CplxCase gen_cplx(Tape &t, int nmax) {
    CplxCase cc; cc.kind = static_cast<int>(t.u(0, 2));
    Graph g = gen_graph(t, nmax, 0, 8);
    cc.family = g.family;
    int n = g.n;
    std::vector<std::map<ptrdiff_t, cplx>> rows(n);
    if (cc.kind == 1) {
        Csr<double> M = gen_mmat(t, g, 10.0, false);
        // sigma relative to the smallest diagonal entry: Re(a_ii) >= |Im(a_ii)| keeps the real-equivalent form [M -sigma; sigma M] a model problem
        // (with |sigma| >> m_ii the point smoother SPAI-0 degenerates and GMRES/BiCGStab need hundreds of iterations on a diagonal matrix)
        double dmin = 1e300; for (int i = 0; i < n; ++i) for (ptrdiff_t j = M.ptr[i]; j < M.ptr[i + 1]; ++j) if (M.col[j] == i) dmin = std::min(dmin, M.val[j]);
        cc.sigma = t.slogu(0.05, 1.0) * dmin;
        for (int i = 0; i < n; ++i) for (ptrdiff_t j = M.ptr[i]; j < M.ptr[i + 1]; ++j)
            rows[i][M.col[j]] = cplx(M.val[j], M.col[j] == i ? cc.sigma : 0.0);
        cc.imag_diag = true;
    } else {
        cc.skew = t.uni(0.0, 1.0);
        double contrast = t.logu(1.0, 10.0);
        for (int i = 0; i < n; ++i) rows[i][i] = 0;
        for (auto &e : g.edges) {
            double w = contrast > 1 ? t.logu(1.0, contrast) : 1.0;
            double k = w * cc.skew * t.uni(-1.0, 1.0);
            rows[e.first][e.second] = cplx(-w, k); rows[e.second][e.first] = cplx(-w, -k);
        }
        int nc; std::vector<int> comp = components(g, nc);
        std::vector<char> has(nc, 0);
        int mode = static_cast<int>(t.u(0, 2));
        for (int i = 0; i < n; ++i) {
            double s = 0; for (auto &kv : rows[i]) if (kv.first != i) s += std::abs(kv.second);
            double sh = 0;
            if (mode == 2 || (mode == 1 && t.chance(1, 4))) { sh = t.logu(0.05, 2.0); has[comp[i]] = 1; }
            rows[i][i] = cplx(s + sh, 0);
        }
        for (int i = 0; i < n; ++i) if (!has[comp[i]]) { rows[i][i] += 1.0; has[comp[i]] = 1; }
        if (cc.kind == 2) { // imaginary part on the diagonal: field of values stays in the right half plane (Hermitian part unchanged)
            cc.sigma = t.logu(0.05, 1.0);
            for (int i = 0; i < n; ++i) { double s = cc.sigma * t.uni(-1.0, 1.0) * rows[i][i].real(); if (s != 0) cc.imag_diag = true; rows[i][i] += cplx(0, s); }
        }
    }
    cc.A = from_triplets<cplx>(n, n, rows);
    return cc;
}

static double kappa2(const Csr<cplx> &A, double &smin) {
    Eigen::MatrixXcd E = Eigen::MatrixXcd::Zero(A.n, A.n);
    for (ptrdiff_t i = 0; i < A.n; ++i) for (ptrdiff_t j = A.ptr[i]; j < A.ptr[i + 1]; ++j) E(i, A.col[j]) = A.val[j];
    Eigen::JacobiSVD<Eigen::MatrixXcd> svd(E);
    auto sv = svd.singularValues();
    smin = sv(sv.size() - 1);
    return sv(0) / smin;
}

static void prop_complex(Tape &t, Ctx &c) {
    CplxCase cc = gen_cplx(t, t.chance(1, 4) ? 6 : 60);
    const Csr<cplx> &A = cc.A;
    const ptrdiff_t n = A.n;
    std::vector<cplx> f(n), x0(n), y0(n);
    {
        int fk = static_cast<int>(t.u(0, 2));
        std::vector<double> re = gen_vec(t, n, fk), im = gen_vec(t, n, fk);
        bool nz = false;
        for (ptrdiff_t i = 0; i < n; ++i) { f[i] = cplx(re[i], im[i]); nz = nz || f[i] != cplx(0); }
        if (!nz) f[0] = cplx(1, -1);
        std::vector<double> a = gen_vec(t, n), b = gen_vec(t, n), p = gen_vec(t, n), q = gen_vec(t, n);
        for (ptrdiff_t i = 0; i < n; ++i) { x0[i] = cplx(a[i], b[i]); y0[i] = cplx(p[i], q[i]); }
    }
    double alpha = t.b() ? 1.0 : static_cast<double>(t.u(-3, 3)), beta = t.b() ? 0.0 : static_cast<double>(t.u(-3, 3));
    double tol = t.b() ? 1e-8 : 1e-10;
    int cec = static_cast<int>(t.u(0, 2));
    unsigned ce = cec == 0 ? 10 : cec == 1 ? 4 : 3000;
    const size_t maxiter = 200;
    double smin; double kap = kappa2(A, smin);
    c.desc << "complex kind=" << cc.kind << " " << cc.family << " " << describe(A) << " sigma=" << cc.sigma << " skew=" << cc.skew << " kappa2=" << kap
           << " tol=" << tol << " coarse_enough=" << ce << " alpha=" << alpha << " beta=" << beta << " A=" << dump_small(A, 6);
    c.nontrivial = cc.imag_diag && n >= 2;
    c.label("kind=" + std::string(cc.kind == 0 ? "hermitian" : cc.kind == 1 ? "shifted" : "hermitian+imag-diag"));
    c.label("fam:" + cc.family); c.label(size_bucket(n));
    c.label(cc.imag_diag ? "imag-diagonal" : "real-diagonal");
    c.label(kap < 10 ? "kappa<10" : kap < 100 ? "kappa<1e2" : kap < 1e3 ? "kappa<1e3" : "kappa>=1e3");

    size_t nn = static_cast<size_t>(n);
    auto Ac = std::tie(nn, A.ptr, A.col, A.val);
    auto Ar = amgcl::adapter::complex_matrix(Ac);

    // ---- representation
    VF_REQUIRE(ab::rows(Ar) == 2 * nn && ab::cols(Ar) == 2 * nn, "complex_matrix: shape " << ab::rows(Ar) << "x" << ab::cols(Ar));
    VF_REQUIRE(ab::nonzeros(Ar) == 4 * static_cast<size_t>(A.nnz()), "complex_matrix: nonzeros " << ab::nonzeros(Ar) << " expected " << 4 * A.nnz());
    ab::crs<double> R(Ar);
    require_wellformed(R, "crs<double>(complex_matrix)", true, true);
    VF_REQUIRE(R.nrows == 2 * nn && R.ncols == 2 * nn && R.nnz == 4 * static_cast<size_t>(A.nnz()), "crs<double>(complex_matrix): shape/nnz");
    for (ptrdiff_t i = 0; i < n; ++i) {
        for (int r = 0; r < 2; ++r) {
            ptrdiff_t h = R.ptr[2 * i + r];
            VF_REQUIRE(R.ptr[2 * i + r + 1] - h == 2 * (A.ptr[i + 1] - A.ptr[i]), "complex_matrix: row " << 2 * i + r << " length");
            for (ptrdiff_t j = A.ptr[i]; j < A.ptr[i + 1]; ++j, h += 2) {
                double re = A.val[j].real(), im = A.val[j].imag();
                double e0 = r == 0 ? re : im, e1 = r == 0 ? -im : re;
                VF_REQUIRE(R.col[h] == 2 * A.col[j] && R.col[h + 1] == 2 * A.col[j] + 1, "complex_matrix: columns of entry (" << i << "," << A.col[j] << ") in real row " << 2 * i + r);
                VF_REQUIRE(R.val[h] == e0 && R.val[h + 1] == e1, "complex_matrix: entry (" << i << "," << A.col[j] << ")=" << A.val[j] << " real row " << 2 * i + r
                           << " holds [" << R.val[h] << ", " << R.val[h + 1] << "], real-equivalent form is [" << e0 << ", " << e1 << "]");
            }
        }
    }
    // ---- SpMV through the adapter on complex_range views
    {
        std::vector<std::complex<long double>> ref; std::vector<long double> S;
        ref_spmv(A, x0, alpha, beta, y0, ref, S);
        std::vector<cplx> y = y0;
        const std::vector<cplx> &xc = x0;
        auto xr = amgcl::adapter::complex_range(xc);
        auto yr = amgcl::adapter::complex_range(y);
        VF_REQUIRE(static_cast<size_t>(xr.size()) == 2 * nn && static_cast<size_t>(yr.size()) == 2 * nn, "complex_range: size");
        ab::spmv(alpha, Ar, xr, beta, yr);
        require_spmv(y, ref, S, 4 * (static_cast<long double>(max_row_len(A)) + 3), "spmv(complex_matrix, complex_range)");
        std::vector<cplx> yc = y0;
        ab::spmv(alpha, Ac, x0, beta, yc);
        require_spmv(yc, ref, S, 4 * (static_cast<long double>(max_row_len(A)) + 3), "spmv(complex tuple)");
    }

    // ---- solves (a Krylov breakdown exception is a clean, accepted outcome; see the triage note in c13_common.hpp)
    const bool model_graph = cc.family != "star";
    try {
    typedef ab::builtin<cplx> CB; typedef ab::builtin<double> RB;
    size_t it_c, it_r; double res_c, res_r;
    std::vector<cplx> xc(n, cplx(0)), xr(n, cplx(0));
    // Krylov method for the complex system: CG (Hermitian positive definite only), GMRES, or BiCGStab.
    // Complex BiCGStab is not required to converge here: its alpha/omega use conjugated inner products (reported to the
    // lead as a C05 finding), which only slows it down; its residual must still be truthful.
    int ks = static_cast<int>(t.u(0, 2));
    if (ks == 0 && cc.kind != 0) ks = 1;
    // convergence clause only on bounded-degree graphs (model problems); a star's hub has degree n-1
    const bool model = cc.family != "star";
    bool need_conv = ks != 2 && model;
    c.label(model ? "model" : "non-model(truthfulness only)");
    if (ks == 0) {
        typedef amgcl::make_solver<amgcl::amg<CB, amgcl::coarsening::smoothed_aggregation, amgcl::relaxation::spai0>, amgcl::solver::cg<CB>> Solver;
        Solver::params p; p.solver.tol = tol; p.solver.maxiter = maxiter; p.precond.coarse_enough = ce;
        Solver solve(Ac, p);
        std::tie(it_c, res_c) = solve(f, xc);
        c.label("complex:cg");
    } else if (ks == 1) {
        typedef amgcl::make_solver<amgcl::amg<CB, amgcl::coarsening::smoothed_aggregation, amgcl::relaxation::spai0>, amgcl::solver::gmres<CB>> Solver;
        Solver::params p; p.solver.tol = tol; p.solver.maxiter = maxiter; p.precond.coarse_enough = ce;
        Solver solve(Ac, p);
        std::tie(it_c, res_c) = solve(Ac, f, xc);
        c.label("complex:gmres");
    } else {
        typedef amgcl::make_solver<amgcl::amg<CB, amgcl::coarsening::smoothed_aggregation, amgcl::relaxation::spai0>, amgcl::solver::bicgstab<CB>> Solver;
        Solver::params p; p.solver.tol = tol; p.solver.maxiter = maxiter; p.precond.coarse_enough = ce;
        Solver solve(Ac, p);
        std::tie(it_c, res_c) = solve(Ac, f, xc);
        c.label(res_c <= tol ? "complex:bicgstab" : "complex:bicgstab-not-converged");
    }
    long double rho_c = require_truthful(c, "builtin<complex>", A, f, xc, it_c, res_c, tol, maxiter, need_conv);
    // tests/test_complex_erf.cpp: real-equivalent system, 2x2 point blocks kept together by the aggregation.  Krylov method: GMRES, or
    // BiCGStab as in that test -- the latter without a convergence requirement (a real omega cannot damp the eigenvalues d +- i*sigma of the
    // shifted family when |sigma| is large; it stagnates just above 1e-10 on a diagonal example), its residual must still be truthful.
    bool real_gmres = !t.b();
    {
        const std::vector<cplx> &fc = f;
        auto fr = amgcl::adapter::complex_range(fc);
        auto xrr = amgcl::adapter::complex_range(xr);
        if (real_gmres) {
            typedef amgcl::make_solver<amgcl::amg<RB, amgcl::coarsening::smoothed_aggregation, amgcl::relaxation::spai0>, amgcl::solver::gmres<RB>> Solver;
            Solver::params p; p.solver.tol = tol; p.solver.maxiter = maxiter; p.precond.coarse_enough = 2 * ce;
            p.precond.coarsening.aggr.block_size = 2;
            Solver solve(Ar, p);
            std::tie(it_r, res_r) = solve(fr, xrr);
            c.label("real-equivalent:gmres");
        } else {
            typedef amgcl::make_solver<amgcl::amg<RB, amgcl::coarsening::smoothed_aggregation, amgcl::relaxation::spai0>, amgcl::solver::bicgstab<RB>> Solver;
            Solver::params p; p.solver.tol = tol; p.solver.maxiter = maxiter; p.precond.coarse_enough = 2 * ce;
            p.precond.coarsening.aggr.block_size = 2;
            Solver solve(Ar, p);
            std::tie(it_r, res_r) = solve(fr, xrr);
            c.label(res_r <= tol ? "real-equivalent:bicgstab" : "real-equivalent:bicgstab-not-converged");
        }
    }
    // the real-equivalent solution, read as complex numbers, must solve the COMPLEX system
    long double rho_r = require_truthful(c, "complex_matrix real-equivalent", A, f, xr, it_r, res_r, tol, maxiter, model && real_gmres);
    // agreement: ||x_c - x_r|| <= ||A^-1|| (||r_c|| + ||r_r||) <= kappa_2 (rho_c + rho_r) ||f|| / ||A||, stated relative to ||x||:
    // ||x_c - x_r|| / ||x_c|| <= kappa_2 * (tol_c + tol_r + drift allowances) * (1 + kappa_2 tol)
    if (res_c > tol || res_r > tol) return; // a solve that stalled (complex BiCGStab, non-model graph): only truthfulness was checked
    long double d = 0, xn = 0;
    for (ptrdiff_t i = 0; i < n; ++i) { d += std::norm(std::complex<long double>(xc[i]) - std::complex<long double>(xr[i])); xn += std::norm(std::complex<long double>(xc[i])); }
    d = std::sqrt(d); xn = std::sqrt(xn);
    long double allow = drift_allowance(A, f, xc, it_c) + drift_allowance(A, f, xr, it_r);
    long double bound = static_cast<long double>(kap) * (2 * static_cast<long double>(tol) + allow) * (1 + static_cast<long double>(kap) * tol) * 1.001L;
    VF_REQUIRE(d <= bound * xn, "complex and real-equivalent solutions differ by " << static_cast<double>(d / xn) << " (relative), tol*kappa bound " << static_cast<double>(bound)
               << " (kappa2=" << kap << ", true residuals " << static_cast<double>(rho_c) << " / " << static_cast<double>(rho_r) << ")");
    } catch (const vf::Fail &) { throw; }
      catch (const std::runtime_error &e) {
        if (std::string(e.what()).find("in BiCGStab") != std::string::npos) c.label(model_graph ? "breakdown(model):complex" : "breakdown:complex"); // see the triage note in c13_common.hpp
        else throw;
    }
}

static std::vector<Prop> props() {
    return {
        Prop("complex", prop_complex, 400, 6000, 100, 30, {1}, 3, 8),
    };
}
static std::vector<Enum> enums() { return {}; }

VF_MAIN(props(), enums())
