// C14 (d) — make_solver<runtime::preconditioner<B>, runtime::solver::wrapper<B>> against compile-time typed composites:
// all 9 solver types x amg<smoothed_aggregation, spai0>, and the preconditioner classes amg / relaxation / dummy / nested.
// Bitwise identical (iters, resid, x). Also: an invalid preconditioner class raises.
#define C14_NO_COMPOSITES
#include "c14_equiv.hpp"

using namespace vf;
using namespace c14;

namespace c14 {
typedef amgcl::amg<B, co::smoothed_aggregation, re::spai0> AMG0;
C14_AMG_DESC(AMG0)
#define C14_SOLVER_COMBO(S) typedef amgcl::make_solver<AMG0, so::S<B>> MS_##S; C14_MAKE_SOLVER_DESC(MS_##S)
C14_SOLVER_COMBO(cg) C14_SOLVER_COMBO(bicgstab) C14_SOLVER_COMBO(bicgstabl) C14_SOLVER_COMBO(gmres) C14_SOLVER_COMBO(lgmres)
C14_SOLVER_COMBO(fgmres) C14_SOLVER_COMBO(idrs) C14_SOLVER_COMBO(richardson) C14_SOLVER_COMBO(preonly)
typedef amgcl::make_solver<re::as_preconditioner<B, re::ilu0>, so::bicgstab<B>> MS_rel_ilu0;
typedef amgcl::make_solver<re::as_preconditioner<B, re::chebyshev>, so::gmres<B>> MS_rel_cheb;
typedef amgcl::make_solver<amgcl::preconditioner::dummy<B>, so::cg<B>> MS_dummy;
typedef amgcl::make_solver<MS_cg, so::fgmres<B>> MS_nested;
C14_MAKE_SOLVER_DESC(MS_rel_ilu0) C14_MAKE_SOLVER_DESC(MS_rel_cheb) C14_MAKE_SOLVER_DESC(MS_dummy) C14_MAKE_SOLVER_DESC(MS_nested)
}

template <class Typed>
static void solver_combo(Tape &t, Ctx &c, const char *solver) {
    TypeKeys tk = {{"precond.coarsening.type", "smoothed_aggregation"}, {"precond.relax.type", "spai0"}, {"solver.type", solver}};
    if (t.b()) tk.push_back({"precond.class", "amg"}); // "amg" is also the documented default class
    std::string label = std::string("amg+") + solver;
    equiv_case<Typed, RtSolver>(t, c, label.c_str(), tk, "precond.");
}

static void prop_equiv_solver(Tape &t, Ctx &c) {
    switch (t.u(0, 8)) {
    case 0: solver_combo<MS_cg>(t, c, "cg"); break;
    case 1: solver_combo<MS_bicgstab>(t, c, "bicgstab"); break;
    case 2: solver_combo<MS_bicgstabl>(t, c, "bicgstabl"); break;
    case 3: solver_combo<MS_gmres>(t, c, "gmres"); break;
    case 4: solver_combo<MS_lgmres>(t, c, "lgmres"); break;
    case 5: solver_combo<MS_fgmres>(t, c, "fgmres"); break;
    case 6: solver_combo<MS_idrs>(t, c, "idrs"); break;
    case 7: solver_combo<MS_richardson>(t, c, "richardson"); break;
    default: solver_combo<MS_preonly>(t, c, "preonly"); break;
    }
}

static void prop_equiv_precond_class(Tape &t, Ctx &c) {
    switch (t.u(0, 4)) {
    case 0: equiv_case<MS_rel_ilu0, RtSolver>(t, c, "class=relaxation(ilu0)+bicgstab", {{"precond.class", "relaxation"}, {"precond.type", "ilu0"}, {"solver.type", "bicgstab"}}, nullptr); break;
    case 1: equiv_case<MS_rel_cheb, RtSolver>(t, c, "class=relaxation(chebyshev)+gmres", {{"precond.class", "relaxation"}, {"precond.type", "chebyshev"}, {"solver.type", "gmres"}}, nullptr); break;
    case 2: equiv_case<MS_dummy, RtSolver>(t, c, "class=dummy+cg", {{"precond.class", "dummy"}, {"solver.type", "cg"}}, nullptr); break;
    case 3: equiv_case<MS_nested, RtSolver>(t, c, "class=nested(amg+cg)+fgmres", {{"precond.class", "nested"}, {"precond.precond.class", "amg"}, {"precond.precond.coarsening.type", "smoothed_aggregation"},
                                            {"precond.precond.relax.type", "spai0"}, {"precond.solver.type", "cg"}, {"solver.type", "fgmres"}}, "precond.precond."); break;
    default: equiv_case<MS_bicgstab, RtSolver>(t, c, "class=amg+bicgstab (all selectors absent: documented defaults)", TypeKeys(), "precond."); break;
    }
}

// invalid preconditioner class
static void prop_invalid_class(Tape &t, Ctx &c) {
    static const char *bad[] = {"AMG", "amg_", "am", "ilu0", "smoother", "relax", "nest", "Dummy", "0", ""};
    std::string s = bad[t.pick(sizeof(bad) / sizeof(bad[0]))];
    if (t.chance(1, 4)) { s.clear(); size_t len = static_cast<size_t>(t.u(1, 8)); for (size_t i = 0; i < len; ++i) s += static_cast<char>('a' + t.u(0, 25)); if (s == "amg" || s == "dummy" || s == "nested" || s == "relaxation") s += "q"; }
    System sys = gen_system(t, 60, 10);
    c.desc << "invalid precond.class=\"" << s << "\" on " << sys.desc;
    c.nontrivial = true; c.label("invalid-class");
    ptree p; p.put("precond.class", s);
    Result r = run_solver<RtSolver>(sys, p);
    VF_REQUIRE(r.threw, "invalid preconditioner class \"" << s << "\" was accepted without an exception");
}

static std::vector<Prop> props() {
    return {
        Prop("equiv_solver", prop_equiv_solver, 250, 4000, 100, 4, {1}, 4, 8),
        Prop("equiv_precond_class", prop_equiv_precond_class, 200, 3000, 100, 4, {1}, 4, 8),
        Prop("invalid_class", prop_invalid_class, 100, 1000, 100, 1, {1}, 1, 1),
    };
}
static std::vector<Enum> enums() { return {}; }
VF_MAIN(props(), enums())
