// C18 — helpers shared by the composite-preconditioner harnesses.
//
//  * dense long-double algebra used by the references (independent of amgcl),
//  * `inner<Backend>`: a user-defined inner solver / preconditioner class with the interface the composites
//    expect of their template arguments (make_solver-like: ctor(Matrix, params, backend_params), operator()(rhs,x),
//    operator()(A,rhs,x), apply(rhs,x), system_matrix()).  It is controlled from the harness through a `Control`
//    block reachable from its params (also through a property tree, as a void* like schur's "pmask"):
//        EXACT   solve densely (long double LU with partial pivoting) — "exact inner solve";
//                the 3-argument form assembles the operator it is given column by column through backend::spmv
//        PROBE   record the right-hand side it is handed and answer with a preset vector (hook-free observation
//                of the private sub-blocks Kup / Kpu / Fpp)
//        LINEAR  x := M * rhs for a dense M chosen by the harness (a *known* preconditioner action)
//        SCALE   x := omega * rhs          ZERO   x := 0
//    Every matrix handed to a constructor is recorded (expanded to scalars).
#pragma once
#include <cmath>
#include <map>
#include <memory>
#include <string>
#include <tuple>
#include <vector>
#include <amgcl/backend/builtin.hpp>
#include <amgcl/value_type/static_matrix.hpp>
#include <amgcl/util.hpp>
#include "../common/harness.hpp"
#include "../common/gen.hpp"
#include "../common/dense.hpp"
#include "../common/amgcl_util.hpp"

namespace vf18 {
using namespace vf;
typedef long double ld;
typedef Dense<ld> LD;
typedef std::vector<ld> LV;

static const ld U = 1.1102230246251565404e-16L; // 2^-53

// ------------------------------------------------------------------ dense helpers
inline LD absm(const LD &A) { LD B = A; for (auto &v : B.a) v = std::abs(v); return B; }
inline LV absv(const LV &x) { LV y = x; for (auto &v : y) v = std::abs(v); return y; }
inline LV addv(const LV &a, const LV &b) { LV c = a; for (size_t i = 0; i < c.size(); ++i) c[i] += b[i]; return c; }
inline LV subv(const LV &a, const LV &b) { LV c = a; for (size_t i = 0; i < c.size(); ++i) c[i] -= b[i]; return c; }
inline LV scalev(ld s, const LV &a) { LV c = a; for (auto &v : c) v *= s; return c; }
inline ld norminf(const LV &a) { ld m = 0; for (auto v : a) m = std::max(m, std::abs(v)); return m; }
inline ld norminf(const LD &A) { ld m = 0; for (ptrdiff_t i = 0; i < A.n; ++i) { ld s = 0; for (ptrdiff_t j = 0; j < A.m; ++j) s += std::abs(A(i, j)); m = std::max(m, s); } return m; }
inline LD subm(const LD &A, const LD &B) { LD C = A; for (size_t i = 0; i < C.a.size(); ++i) C.a[i] -= B.a[i]; return C; }
inline LD addm(const LD &A, const LD &B) { LD C = A; for (size_t i = 0; i < C.a.size(); ++i) C.a[i] += B.a[i]; return C; }
inline LD scalem(ld s, const LD &A) { LD C = A; for (auto &v : C.a) v *= s; return C; }
inline LV tolv(const std::vector<double> &x) { return LV(x.begin(), x.end()); }
inline std::vector<double> tod(const LV &x) { std::vector<double> y(x.size()); for (size_t i = 0; i < x.size(); ++i) y[i] = static_cast<double>(x[i]); return y; }

// inverse by Gauss-Jordan with partial pivoting; ok=false if a pivot vanishes
inline LD inverse(LD A, bool &ok) {
    const ptrdiff_t n = A.n;
    LD I(n, n);
    for (ptrdiff_t i = 0; i < n; ++i) I(i, i) = 1;
    ok = true;
    for (ptrdiff_t k = 0; k < n; ++k) {
        ptrdiff_t p = k; ld best = std::abs(A(k, k));
        for (ptrdiff_t i = k + 1; i < n; ++i) if (std::abs(A(i, k)) > best) { best = std::abs(A(i, k)); p = i; }
        if (!(best > 0)) { ok = false; return I; }
        if (p != k) for (ptrdiff_t j = 0; j < n; ++j) { std::swap(A(k, j), A(p, j)); std::swap(I(k, j), I(p, j)); }
        ld d = 1 / A(k, k);
        for (ptrdiff_t j = 0; j < n; ++j) { A(k, j) *= d; I(k, j) *= d; }
        for (ptrdiff_t i = 0; i < n; ++i) if (i != k) {
            ld f = A(i, k);
            if (f == 0) continue;
            for (ptrdiff_t j = 0; j < n; ++j) { A(i, j) -= f * A(k, j); I(i, j) -= f * I(k, j); }
        }
    }
    return I;
}

inline LD diagm(const LV &d) { LD D(static_cast<ptrdiff_t>(d.size()), static_cast<ptrdiff_t>(d.size())); for (size_t i = 0; i < d.size(); ++i) D(i, i) = d[i]; return D; }

inline double get_scalar(double v, int, int) { return v; }
template <int N> double get_scalar(const amgcl::static_matrix<double, N, N> &v, int a, int b) { return v(a, b); }

// expand a block-valued CRS into a scalar Csr<double> (every scalar of every stored block is kept)
template <class V>
Csr<double> expand(const amgcl::backend::crs<V> &A) {
    const int B = amgcl::math::static_rows<V>::value;
    Csr<double> S; S.n = static_cast<ptrdiff_t>(A.nrows) * B; S.m = static_cast<ptrdiff_t>(A.ncols) * B;
    S.ptr.assign(S.n + 1, 0);
    for (size_t i = 0; i < A.nrows; ++i) for (int a = 0; a < B; ++a) {
        for (ptrdiff_t j = A.ptr[i]; j < A.ptr[i + 1]; ++j) for (int b = 0; b < B; ++b) {
            S.col.push_back(A.col[j] * B + b);
            S.val.push_back(get_scalar(A.val[j], a, b));
        }
        S.ptr[i * B + a + 1] = static_cast<ptrdiff_t>(S.col.size());
    }
    return S;
}

// ------------------------------------------------------------------ control block + inner solver
struct Control {
    enum Mode { EXACT, PROBE, LINEAR, SCALE, ZERO };
    Mode mode = EXACT;
    std::vector<double> preset; // PROBE answer
    LD M;                       // LINEAR action
    double omega = 1;           // SCALE
    bool log_rhs = false;
    std::vector<Csr<double>> ctor_matrices;      // matrices seen by constructors (scalar expanded), in order
    std::vector<std::vector<double>> rhs_log;    // right-hand sides seen while log_rhs
    long calls = 0;             // number of apply / solve calls
    long singular = 0;          // EXACT solves that met a singular matrix
    long ctors = 0;
    long invalid = 0;           // constructor matrices with an out-of-range column index
};

template <class Backend>
class inner {
  public:
    typedef Backend backend_type;
    typedef typename Backend::matrix matrix;
    typedef typename Backend::vector vector;
    typedef typename Backend::value_type value_type;
    typedef typename Backend::params backend_params;
    typedef typename amgcl::backend::builtin<value_type>::matrix build_matrix;
    typedef typename amgcl::math::scalar_of<value_type>::type scalar_type;
    static const int B = amgcl::math::static_rows<value_type>::value;

    struct params {
        Control *ctl;
        params() : ctl(nullptr) {}
        params(const boost::property_tree::ptree &p) : ctl(nullptr) {
            void *v = nullptr;
            v = p.get("ctl", v);
            ctl = static_cast<Control *>(v);
            amgcl::check_params(p, {"ctl"});
        }
        void get(boost::property_tree::ptree &p, const std::string &path = "") const { p.put(path + "ctl", static_cast<void *>(ctl)); }
    } prm;

    template <class Matrix>
    inner(const Matrix &A, const params &p = params(), const backend_params &b = backend_params()) : prm(p) { init(std::make_shared<build_matrix>(A), b); }
    inner(std::shared_ptr<build_matrix> A, const params &p = params(), const backend_params &b = backend_params()) : prm(p) { init(A, b); }

    const matrix &system_matrix() const { return *A; }
    std::shared_ptr<matrix> system_matrix_ptr() const { return A; }
    size_t bytes() const { return 0; }
    size_t size() const { return n; }

    // preconditioner interface / solve with the own matrix
    template <class Vec1, class Vec2>
    void apply(const Vec1 &rhs, Vec2 &&x) const { act(nullptr, rhs, x); }

    template <class Vec1, class Vec2>
    std::tuple<size_t, scalar_type> operator()(const Vec1 &rhs, Vec2 &&x) const { act(nullptr, rhs, x); return std::make_tuple(size_t(0), scalar_type(0)); }

    // solve with the operator handed in (schur hands its matrix-free Schur complement)
    template <class Op, class Vec1, class Vec2>
    std::tuple<size_t, scalar_type> operator()(const Op &S, const Vec1 &rhs, Vec2 &&x) const {
        if (ctl().mode == Control::EXACT) {
            LD D(static_cast<ptrdiff_t>(n), static_cast<ptrdiff_t>(n));
            vector e(n / B), y(n / B);
            double *ep = reinterpret_cast<double *>(&e[0]), *yp = reinterpret_cast<double *>(&y[0]);
            for (size_t j = 0; j < n; ++j) {
                for (size_t i = 0; i < n; ++i) { ep[i] = (i == j) ? 1.0 : 0.0; yp[i] = std::nan(""); }
                amgcl::backend::spmv(1.0, S, e, 0.0, y);
                for (size_t i = 0; i < n; ++i) D(i, j) = yp[i];
            }
            act(&D, rhs, x);
        } else act(nullptr, rhs, x);
        return std::make_tuple(size_t(0), scalar_type(0));
    }

    friend std::ostream &operator<<(std::ostream &os, const inner &) { return os << "vf18::inner"; }

  private:
    size_t n = 0; // scalar unknowns
    std::shared_ptr<matrix> A;
    LD own;
    mutable Control dummy;

    Control &ctl() const { return prm.ctl ? *prm.ctl : dummy; }

    void init(std::shared_ptr<build_matrix> M, const backend_params &b) {
        A = Backend::copy_matrix(M, b);
        n = M->nrows * B;
        Csr<double> S = expand(*M);
        bool valid = true; // a malformed matrix (column out of range) is recorded as it is, for the harness to report
        for (ptrdiff_t c : S.col) valid = valid && c >= 0 && c < S.m;
        if (valid) own = to_dense<ld>(S); else { own = LD(S.n, S.m); ++ctl().invalid; }
        ctl().ctor_matrices.push_back(S);
        ++ctl().ctors;
    }

    template <class Vec1, class Vec2>
    void act(const LD *op, const Vec1 &rhs, Vec2 &x) const {
        Control &c = ctl();
        ++c.calls;
        const double *f = reinterpret_cast<const double *>(&rhs[0]);
        double *xp = reinterpret_cast<double *>(&x[0]);
        if (c.log_rhs) c.rhs_log.push_back(std::vector<double>(f, f + n));
        switch (c.mode) {
        case Control::EXACT: {
            LV b(f, f + n), s;
            if (!dense_solve(op ? *op : own, b, s)) { ++c.singular; for (size_t i = 0; i < n; ++i) xp[i] = std::nan(""); return; }
            for (size_t i = 0; i < n; ++i) xp[i] = static_cast<double>(s[i]);
            break; }
        case Control::PROBE:
            for (size_t i = 0; i < n; ++i) xp[i] = i < c.preset.size() ? c.preset[i] : 0.0;
            break;
        case Control::LINEAR: {
            for (size_t i = 0; i < n; ++i) { ld s = 0; for (size_t j = 0; j < n; ++j) s += c.M(i, j) * static_cast<ld>(f[j]); xp[i] = static_cast<double>(s); }
            break; }
        case Control::SCALE:
            for (size_t i = 0; i < n; ++i) xp[i] = c.omega * f[i];
            break;
        default:
            for (size_t i = 0; i < n; ++i) xp[i] = 0.0;
        }
    }
};

// dense matrix of a scalar Csr restricted to rows/cols given by index lists
inline LD submatrix(const LD &K, const std::vector<ptrdiff_t> &r, const std::vector<ptrdiff_t> &c) {
    LD S(static_cast<ptrdiff_t>(r.size()), static_cast<ptrdiff_t>(c.size()));
    for (size_t i = 0; i < r.size(); ++i) for (size_t j = 0; j < c.size(); ++j) S(i, j) = K(r[i], c[j]);
    return S;
}

inline std::string show(const std::vector<double> &v, size_t maxn = 12) {
    std::ostringstream os; os << "[";
    for (size_t i = 0; i < v.size() && i < maxn; ++i) os << (i ? " " : "") << v[i];
    if (v.size() > maxn) os << " ...";
    os << "]";
    return os.str();
}

} // namespace vf18
