// Matrix generators shared by the C03 and C04 harnesses (tape driven, constructive).
//
// Every matrix produced here is square, has sorted rows, a structurally present non-zero
// diagonal with one common sign (positive unless `negate`), and finite values.
#pragma once
#include <cmath>
#include <map>
#include <sstream>
#include <string>
#include <vector>
#include "../common/tape.hpp"
#include "../common/gen.hpp"

namespace cm {
using vf::Csr;
using vf::Graph;
using vf::Tape;

struct MatInfo {
    std::string family;     // mmat | mmat-int | convdiff | ddom | ddom-int
    std::string graph;      // graph family
    bool value_symmetric = false;   // a_ij == a_ji for every stored pair, pattern symmetric
    bool struct_symmetric = true;
    bool integer = false;           // every value is a small integer (exact arithmetic, exact zero row sums)
    bool nonsingular = true;        // irreducibly / strictly diagonally dominant by construction
    int zero_rowsum_rows = 0;
};

typedef std::vector<std::map<ptrdiff_t, double>> Rows;

inline Csr<double> rows_to_csr(const Rows &rows) { return vf::from_triplets<double>(static_cast<ptrdiff_t>(rows.size()), static_cast<ptrdiff_t>(rows.size()), rows); }

inline Rows csr_to_rows(const Csr<double> &A) {
    Rows r(A.n);
    for (ptrdiff_t i = 0; i < A.n; ++i) for (ptrdiff_t j = A.ptr[i]; j < A.ptr[i + 1]; ++j) r[i][A.col[j]] = A.val[j];
    return r;
}

inline bool is_value_symmetric(const Csr<double> &A) {
    Rows r = csr_to_rows(A);
    for (ptrdiff_t i = 0; i < A.n; ++i) for (auto &kv : r[i]) { auto it = r[kv.first].find(i); if (it == r[kv.first].end() || it->second != kv.second) return false; }
    return true;
}
inline bool is_struct_symmetric(const Csr<double> &A) {
    Rows r = csr_to_rows(A);
    for (ptrdiff_t i = 0; i < A.n; ++i) for (auto &kv : r[i]) if (!r[kv.first].count(i)) return false;
    return true;
}

// exact row sum in long double (exact for the integer families)
inline long double row_sum(const Csr<double> &A, ptrdiff_t i) { long double s = 0; for (ptrdiff_t j = A.ptr[i]; j < A.ptr[i + 1]; ++j) s += A.val[j]; return s; }

// Convection-diffusion like: M-matrix Laplacian + first order upwind convection along a tape-chosen
// orientation of every edge.  Rows stay (weakly) diagonally dominant M-matrix rows, values are non-symmetric.
inline Csr<double> gen_convdiff(Tape &t, const Graph &g, bool integer) {
    Csr<double> L = vf::gen_mmat(t, g, integer ? 1.0 : 100.0, !integer, nullptr, integer);
    Rows rows = csr_to_rows(L);
    double pe = integer ? 0 : t.logu(0.1, 10.0);
    for (auto &e : g.edges) {
        int i = e.first, j = e.second;
        if (t.b()) std::swap(i, j);                // flow from j to i: row i sees its upwind neighbour j
        double c = integer ? static_cast<double>(t.u(1, 3)) : pe * t.uni(0.1, 1.0);
        rows[i][j] -= c; rows[i][i] += c;
    }
    return rows_to_csr(rows);
}

// General diagonally dominant matrix with mixed signs.  Row modes (per row, tape chosen):
// 0 strictly dominant mixed signs, 1 all positive off-diagonals, 2 all negative, 3 zero row sum
// (needs negative off-diagonal mass; falls back to weak dominance |a_ii| = sum|a_ij| otherwise).
// sym: symmetric values (then dominance is by construction on both triangles).
inline Csr<double> gen_ddom(Tape &t, const Graph &g, bool integer, bool sym, MatInfo *info = nullptr) {
    int n = g.n;
    Rows rows(n);
    int global_mode = static_cast<int>(t.u(0, 4)); // 0: per-row modes, 1..4: one mode for all rows (mode-1)
    std::vector<int> mode(n);
    for (int i = 0; i < n; ++i) mode[i] = global_mode ? global_mode - 1 : static_cast<int>(t.u(0, 3));
    auto mag = [&]() { return integer ? static_cast<double>(t.u(1, 4)) : t.logu(0.1, 10.0); };
    for (auto &e : g.edges) {
        int i = e.first, j = e.second;
        double w1 = mag(), w2 = sym ? w1 : mag();
        bool neg1, neg2;
        auto sgn = [&](int m) { return m == 1 ? false : (m == 2 || m == 3) ? true : t.b(); };
        neg1 = sgn(mode[i]);
        neg2 = sym ? neg1 : sgn(mode[j]);
        rows[i][j] = neg1 ? -w1 : w1;
        rows[j][i] = neg2 ? -w2 : w2;
    }
    int zr = 0;
    for (int i = 0; i < n; ++i) {
        double sabs = 0, s = 0;
        for (auto &kv : rows[i]) { sabs += std::abs(kv.second); s += kv.second; }
        bool want_zero = (mode[i] == 3) || (sym && t.chance(1, 4));
        double slack = integer ? static_cast<double>(t.u(0, 3)) : (t.chance(1, 8) ? 0.0 : t.logu(0.05, 5.0));
        double d;
        // a zero row sum with a dominant diagonal needs all off-diagonals negative (-s == sum|a_ij|)
        if (want_zero && s < 0 && -s >= sabs) { d = -s; ++zr; }
        else d = sabs + slack;
        if (d == 0) d = 1;
        rows[i][i] = d;
    }
    // make sure every connected component has a strictly dominant row (non-singularity for the irreducible case)
    int nc; std::vector<int> comp = vf::components(g, nc);
    std::vector<char> has(nc, 0);
    for (int i = 0; i < n; ++i) { double sabs = 0; for (auto &kv : rows[i]) if (kv.first != i) sabs += std::abs(kv.second); if (rows[i][i] > sabs) has[comp[i]] = 1; }
    for (int i = 0; i < n; ++i) if (!has[comp[i]]) {
        double s = 0; for (auto &kv : rows[i]) s += kv.second;
        if (s == 0) --zr;
        rows[i][i] += 1.0; has[comp[i]] = 1;
    }
    if (info) info->zero_rowsum_rows = zr < 0 ? 0 : zr;
    return rows_to_csr(rows);
}

// Symmetric matrix with MIXED-sign off-diagonals and exactly zero row sums (dyadic values: every sum below is exact).
// Negative couplings are integers 1..4 (grid edges along the axes; most edges of other graphs), positive couplings are
// 1/4, 1/2 or 3/4 (the diagonal couplings of the nine-point grid; a tape-chosen share of the edges elsewhere).
// a_ii = -sum_j a_ij wherever that is positive (rows with negative mass: not diagonally dominant, still zero row sum);
// a tape-chosen share of rows gets an extra integer shift (non-zero row sum), rows without negative mass get sum|a_ij| + 1.
inline Csr<double> gen_sym_mixed_zero(Tape &t, const Graph &g, MatInfo *info = nullptr) {
    int n = g.n;
    Rows rows(n);
    int pos_share = static_cast<int>(t.u(1, 3)); // positive couplings on non-grid edges: pos_share/6
    for (size_t e = 0; e < g.edges.size(); ++e) {
        int i = g.edges[e].first, j = g.edges[e].second;
        bool diag_coupling = g.family == "grid2x9" && g.axis[e] < 0;
        bool pos = diag_coupling ? !t.chance(1, 8) : t.chance(pos_share, 6);
        double w = pos ? 0.25 * static_cast<double>(t.u(1, 3)) : -static_cast<double>(t.u(1, 4));
        rows[i][j] = w; rows[j][i] = w;
    }
    int zr = 0;
    for (int i = 0; i < n; ++i) {
        double s = 0, sabs = 0;
        for (auto &kv : rows[i]) { s += kv.second; sabs += std::abs(kv.second); }
        bool shift = t.chance(1, 6);
        if (s < 0) { rows[i][i] = -s + (shift ? static_cast<double>(t.u(1, 2)) : 0.0); if (!shift && sabs > 0) ++zr; }
        else rows[i][i] = sabs + 1.0;
    }
    if (info) info->zero_rowsum_rows = zr;
    return rows_to_csr(rows);
}

// One matrix from all families.  fam_mask selects which families may be drawn (bit per family), so that
// callers that need symmetric values can ask for them constructively.
//   0 mmat   1 mmat-int   2 convdiff   3 convdiff-int   4 ddom   5 ddom-int   6 ddom-sym   7 ddom-sym-int
//   8 sym-mixed-zero (not diagonally dominant, may be indefinite: only for callers that ask for it; bits above 8 repeat family 8 to weight it)
inline Csr<double> gen_matrix(Tape &t, int nmax, MatInfo &info, unsigned fam_mask = 0xff, bool allow_nonsym_pattern = true) {
    std::vector<int> fams;
    for (int f = 0; f < 12; ++f) if (fam_mask >> f & 1) fams.push_back(f < 8 ? f : 8);
    int fam = fams[t.pick(fams.size())];
    Graph g = vf::gen_graph(t, nmax);
    info.graph = g.family;
    Csr<double> A;
    switch (fam) {
    case 0: { info.family = "mmat"; vf::MmatInfo mi; A = vf::gen_mmat(t, g, 1e3, true, &mi); break; }
    case 1: { info.family = "mmat-int"; A = vf::gen_mmat(t, g, 1.0, false, nullptr, true); info.integer = true; break; }
    case 2: { info.family = "convdiff"; A = gen_convdiff(t, g, false); break; }
    case 3: { info.family = "convdiff-int"; A = gen_convdiff(t, g, true); info.integer = true; break; }
    case 4: { info.family = "ddom"; A = gen_ddom(t, g, false, false, &info); break; }
    case 5: { info.family = "ddom-int"; A = gen_ddom(t, g, true, false, &info); info.integer = true; break; }
    case 6: { info.family = "ddom-sym"; A = gen_ddom(t, g, false, true, &info); break; }
    case 7: { info.family = "ddom-sym-int"; A = gen_ddom(t, g, true, true, &info); info.integer = true; break; }
    default: { info.family = "sym-mixed-zero"; A = gen_sym_mixed_zero(t, g, &info); info.integer = true; info.nonsingular = false; break; } // dyadic: exact like the integer families
    }
    bool symfam = (fam == 0 || fam == 1 || fam == 6 || fam == 7 || fam == 8);
    if (allow_nonsym_pattern && !symfam && t.chance(1, 3)) A = vf::make_structurally_nonsym(t, A, static_cast<int>(t.u(1, 4)));
    info.value_symmetric = is_value_symmetric(A);
    info.struct_symmetric = is_struct_symmetric(A);
    int zr = 0;
    for (ptrdiff_t i = 0; i < A.n; ++i) if (A.ptr[i + 1] - A.ptr[i] > 1 && row_sum(A, i) == 0) ++zr;
    info.zero_rowsum_rows = zr;
    return A;
}

// A (x) B for a dense b x b block Bk (row major); entries of Bk that are exactly zero are not stored
// unless keep_zeros.  Rows stay sorted.
inline Csr<double> kron(const Csr<double> &A, int b, const std::vector<double> &Bk, bool keep_zeros = false) {
    Csr<double> K; K.n = A.n * b; K.m = A.m * b; K.ptr.assign(K.n + 1, 0);
    for (ptrdiff_t i = 0; i < A.n; ++i) for (int p = 0; p < b; ++p) {
        for (ptrdiff_t j = A.ptr[i]; j < A.ptr[i + 1]; ++j) for (int q = 0; q < b; ++q) {
            double v = Bk[p * b + q];
            if (v == 0 && !keep_zeros) continue;
            K.col.push_back(A.col[j] * b + q); K.val.push_back(A.val[j] * v);
        }
        K.ptr[i * b + p + 1] = static_cast<ptrdiff_t>(K.col.size());
    }
    return K;
}
inline Csr<double> kron_identity(const Csr<double> &A, int b, bool keep_zeros = false) {
    std::vector<double> I(b * b, 0.0);
    for (int p = 0; p < b; ++p) I[p * b + p] = 1.0;
    return kron(A, b, I, keep_zeros);
}

inline std::string fmt_float(float f) { std::ostringstream os; os.precision(9); os << f; return os.str(); }

// eps_strong in (0,1): default, dyadic values that make ties exact on integer matrices, or uniform
inline float gen_eps_strong(Tape &t) {
    switch (t.u(0, 4)) {
    case 0: return 0.08f;
    case 1: return 0.25f;
    case 2: return 0.5f;
    case 3: return 0.125f;
    default: return static_cast<float>(t.uni(0.01, 0.99));
    }
}

} // namespace cm
