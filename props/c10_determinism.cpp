// C10 — outputs are a function of the inputs only; no memory errors on valid (incl. degenerate) input.
//
// gcc flavor: poisoned-allocator differential. The same case is executed with every fresh heap block filled with
// 0x00 / 0xFF / 0xAA / a pseudo-random stream and after two different allocation pre-histories; the complete
// observable result (hierarchy matrices, preconditioner action, solver result or exception text) must be
// bitwise identical.  asan / fuzz flavors: the same cases under ASan+UBSan+LSan; any report is a violation.
#define VF_POISON_IMPLEMENT
#include "../common/poison.hpp"
#include <boost/property_tree/ptree.hpp>
#include <amgcl/backend/builtin.hpp>
#include <amgcl/adapter/crs_tuple.hpp>
#include <amgcl/amg.hpp>
#include <amgcl/make_solver.hpp>
#include <amgcl/coarsening/runtime.hpp>
#include <amgcl/relaxation/runtime.hpp>
#include <amgcl/relaxation/as_preconditioner.hpp>
#include <amgcl/solver/runtime.hpp>
#include "../common/harness.hpp"
#include "../common/gen.hpp"
#include "../common/amgcl_util.hpp"
#include "../common/access.hpp"

using namespace vf;
namespace ab = amgcl::backend;
typedef ab::builtin<double> B;
typedef amgcl_verif::access acc;
typedef amgcl::amg<B, amgcl::runtime::coarsening::wrapper, amgcl::runtime::relaxation::wrapper> AMG;
typedef amgcl::relaxation::as_preconditioner<B, amgcl::runtime::relaxation::wrapper> RLX;

static const char *COARSE[] = {"smoothed_aggregation", "aggregation", "ruge_stuben", "smoothed_aggr_emin"};
static const char *RELAX[] = {"spai0", "damped_jacobi", "gauss_seidel", "ilu0", "iluk", "ilup", "ilut", "chebyshev", "spai1"};
static const char *SOLVER[] = {"cg", "bicgstab", "bicgstabl", "gmres", "fgmres", "lgmres", "idrs", "richardson"};

struct Case {
    Csr<double> A;
    boost::property_tree::ptree prm;
    std::vector<double> f, v1;
    std::vector<double> ns; int ns_cols = 0;
    bool single_level = false;
    std::vector<uint32_t> prehist;
};

static void put_bytes(std::string &d, const void *p, size_t n) { d.append(static_cast<const char *>(p), n); }
static void put_crs(std::string &d, const ab::crs<double> &M, const char *tag) {
    d += tag;
    size_t sz[3] = {M.nrows, M.ncols, M.nnz};
    put_bytes(d, sz, sizeof sz);
    put_bytes(d, M.ptr, (M.nrows + 1) * sizeof(ptrdiff_t));
    put_bytes(d, M.col, M.nnz * sizeof(ptrdiff_t));
    put_bytes(d, M.val, M.nnz * sizeof(double));
}

template <class P> static void dump_hier(std::string &, const P &) {}
static void dump_hier(std::string &d, const AMG &amg) {
    for (const auto &l : acc::levels(amg)) {
        if (l.A) put_crs(d, *l.A, "|A");
        if (l.P) put_crs(d, *l.P, "|P");
        if (l.R) put_crs(d, *l.R, "|R");
        d += l.solve ? "|direct" : "|nodirect";
        d += l.relax ? "|relax" : "|norelax";
    }
}

// one execution of the case; returns the observable result as bytes (sections are tagged so that a mismatch can be located)
template <class Precond>
static std::string execute(const Case &cs, std::vector<std::pair<std::string, size_t>> &sections) {
    std::string d;
    // allocation pre-history: shifts addresses and leaves freed, dirty blocks behind
    {
        std::vector<char *> held;
        for (uint32_t w : cs.prehist) { size_t n = 1 + w % 5000; char *p = new char[n]; memset(p, 0x5A, n); if (w & 1) held.push_back(p); else delete[] p; }
        for (char *p : held) delete[] p;
    }
    try {
        auto tup = std::make_tuple(static_cast<size_t>(cs.A.n), cs.A.ptr, cs.A.col, cs.A.val);
        boost::property_tree::ptree prm = cs.prm;
        std::vector<double> ns = cs.ns; // the coarsening overwrites the user's near-null-space array
        if (cs.ns_cols && !cs.single_level) {
            prm.put("precond.coarsening.nullspace.cols", cs.ns_cols);
            prm.put("precond.coarsening.nullspace.rows", static_cast<int>(cs.A.n));
            prm.put("precond.coarsening.nullspace.B", static_cast<void *>(ns.data()));
        }
        typedef amgcl::make_solver<Precond, amgcl::runtime::solver::wrapper<B>> Solver;
        Solver S(tup, prm);
        sections.push_back({"hierarchy", d.size()});
        dump_hier(d, S.precond());
        sections.push_back({"apply", d.size()});
        std::vector<double> y(cs.A.n, 0.0);
        S.precond().apply(cs.v1, y);
        put_bytes(d, y.data(), y.size() * sizeof(double));
        S.precond().apply(cs.f, y);
        put_bytes(d, y.data(), y.size() * sizeof(double));
        sections.push_back({"solve", d.size()});
        std::vector<double> x(cs.A.n, 0.0);
        size_t it; double res;
        std::tie(it, res) = S(cs.f, x);
        put_bytes(d, &it, sizeof it); put_bytes(d, &res, sizeof res);
        put_bytes(d, x.data(), x.size() * sizeof(double));
        sections.push_back({"second-solve", d.size()});
        std::vector<double> x2(cs.A.n, 0.0);
        std::tie(it, res) = S(cs.f, x2);
        put_bytes(d, &it, sizeof it); put_bytes(d, &res, sizeof res);
        put_bytes(d, x2.data(), x2.size() * sizeof(double));
    } catch (const amgcl::error::empty_level &) {
        d += "|EXC:empty_level";
    } catch (const std::exception &e) {
        d += std::string("|EXC:") + e.what();
    }
    return d;
}

static Case decode(Tape &t, Ctx &c) {
    Case cs;
    int cls = static_cast<int>(t.u(0, 5)); // degenerate classes first
    Graph g;
    std::vector<std::map<ptrdiff_t, double>> rows;
    std::string dclass;
    if (cls == 0) { g.n = 1; g.family = "1x1"; dclass = "1x1"; }
    else if (cls == 1) { g = gen_graph(t, 12, 9, 9); dclass = "diagonal"; }
    else if (cls == 2) { g = gen_graph(t, 40, 8, 8); dclass = "disconnected"; }
    else { g = gen_graph(t, cls == 3 ? 12 : 64); dclass = "graph"; }
    int vcls = static_cast<int>(t.u(0, 2)); // 0 M-matrix, 1 strictly dominant mixed sign, 2 all-positive off-diagonals
    rows.assign(g.n, std::map<ptrdiff_t, double>());
    for (auto &e : g.edges) {
        double w1 = t.logu(0.1, 10), w2 = t.b() ? w1 : t.logu(0.1, 10);
        if (vcls == 0) { w1 = -w1; w2 = -w2; }
        else if (vcls == 1) { if (t.b()) w1 = -w1; if (t.b()) w2 = -w2; }
        rows[e.first][e.second] = w1; rows[e.second][e.first] = w2;
    }
    for (int i = 0; i < g.n; ++i) { double s = 0; for (auto &kv : rows[i]) s += std::abs(kv.second); rows[i][i] = s + t.logu(0.05, 2.0); }
    cs.A = from_triplets<double>(g.n, g.n, rows);
    int ci = static_cast<int>(t.u(0, 3)), ri = static_cast<int>(t.u(0, 8)), si = static_cast<int>(t.u(0, 7));
    cs.single_level = t.chance(1, 6);
    static const int CE[] = {3000, 0, 1, 2, 5, 20};
    static const int ML[] = {100, 1, 2, 3};
    int ce = CE[t.pick(6)], ml = ML[t.pick(4)];
    std::string pre = cs.single_level ? "precond." : "precond.relax.";
    if (!cs.single_level) {
        cs.prm.put("precond.coarsening.type", COARSE[ci]);
        cs.prm.put("precond.coarse_enough", ce);
        cs.prm.put("precond.max_levels", ml);
        if (t.b()) cs.prm.put("precond.direct_coarse", false);
        int npre = static_cast<int>(t.u(0, 2)), npost = static_cast<int>(t.u(0, 2));
        if (npre + npost == 0) npre = 1;
        cs.prm.put("precond.npre", npre); cs.prm.put("precond.npost", npost);
        // W-cycles cost 2^levels: only on shallow hierarchies (deep ones can shrink by a single unknown per level)
        int ncycle = static_cast<int>(t.u(1, 2));
        cs.prm.put("precond.ncycle", ml <= 3 ? ncycle : 1);
        if (ci != 2 && t.chance(1, 3)) { // near-null-space, possibly wider than an aggregate
            cs.ns_cols = static_cast<int>(t.u(1, 3));
            cs.ns.resize(static_cast<size_t>(g.n) * cs.ns_cols);
            for (int i = 0; i < g.n; ++i) for (int v = 0; v < cs.ns_cols; ++v) cs.ns[i * cs.ns_cols + v] = v == 0 ? 1.0 : t.uni(-1, 1) + (v == 1 ? i : i * i * 0.1);
        }
        if (ci == 1 && t.b()) cs.prm.put("precond.coarsening.aggr.eps_strong", t.uni(0.0, 0.9));
    }
    cs.prm.put(pre + "type", RELAX[ri]);
    cs.prm.put("solver.type", SOLVER[si]);
    cs.prm.put("solver.maxiter", static_cast<int>(t.u(1, 25)));
    if (si == 6) cs.prm.put("solver.s", static_cast<int>(t.u(1, std::max(1, std::min(g.n, 6)))));
    if (si == 2) cs.prm.put("solver.L", static_cast<int>(t.u(1, 3)));
    if (si == 3 || si == 4 || si == 5) cs.prm.put("solver.M", static_cast<int>(t.u(1, 10)));
    cs.f = gen_vec(t, g.n, static_cast<int>(t.u(0, 3)));
    cs.v1 = gen_vec(t, g.n, 2);
    int nh = static_cast<int>(t.u(0, 12));
    for (int i = 0; i < nh; ++i) cs.prehist.push_back(static_cast<uint32_t>(t.u(0, 1 << 20)));
    bool degenerate = cls <= 3 || vcls == 2 || ml == 1 || ce <= 2 || cs.ns_cols >= 2;
    c.nontrivial = degenerate || !cs.single_level;
    c.label("class:" + dclass); c.label("vals:" + std::string(vcls == 0 ? "mmatrix" : vcls == 1 ? "mixed" : "positive-offdiag"));
    c.label(cs.single_level ? "single-level" : std::string("c:") + COARSE[ci]);
    c.label(std::string("r:") + RELAX[ri]); c.label(std::string("s:") + SOLVER[si]);
    if (cs.ns_cols) c.label("nullspace");
    c.desc << dclass << "/" << g.family << " n=" << g.n << " nnz=" << cs.A.nnz() << " vcls=" << vcls << " " << (cs.single_level ? "relaxation" : COARSE[ci]) << "/" << RELAX[ri] << "/" << SOLVER[si]
           << " coarse_enough=" << ce << " max_levels=" << ml << " ns=" << cs.ns_cols << " prehist=" << nh << " A=" << dump_small(cs.A, 6);
    return cs;
}

static void prop_determinism(Tape &t, Ctx &c) {
    Case cs = decode(t, c);
    uint64_t rseed = static_cast<uint64_t>(t.u(1, 1 << 30));
    std::vector<std::pair<std::string, size_t>> sec0, sec;
    auto run = [&](int fill, bool with_prehist, std::vector<std::pair<std::string, size_t>> &s) {
        Case cc = cs; if (!with_prehist) cc.prehist.clear();
        poison_set(fill, rseed);
        std::string d = cs.single_level ? execute<RLX>(cc, s) : execute<AMG>(cc, s);
        poison_set(-1);
        return d;
    };
    std::string ref = run(0x00, false, sec0);
    // applying the same solver object twice to the same input gives bitwise the same (iters, resid, x)
    {
        size_t b1 = std::string::npos, b2 = std::string::npos;
        for (auto &s : sec0) { if (s.first == "solve") b1 = s.second; if (s.first == "second-solve") b2 = s.second; }
        if (b1 != std::string::npos && b2 != std::string::npos && ref.find("|EXC:") == std::string::npos) {
            std::string s1 = ref.substr(b1, b2 - b1), s2 = ref.substr(b2);
            VF_REQUIRE(s1 == s2, "second solve with the same solver object and the same input differs from the first one (state leaks between calls)");
        }
    }
    c.label(ref.find("|EXC:") != std::string::npos ? "outcome:exception" : "outcome:result");
    if (!poison_active()) { // sanitizer build: one more execution (different pre-history), reports are the oracle
        std::string d = run(-1, true, sec);
#ifdef VF_FUZZ
        // the stop-the-world leak scan costs ~0.1 s: in the libFuzzer campaign run it on every 64th input only
        static unsigned long execs = 0;
        if ((++execs & 63) == 0)
#endif
        VF_REQUIRE(!leaks_found(), "LeakSanitizer: memory leaked by this case (in the fuzz build: by one of the last 64 cases)");
        return;
    }
    static const int FILLS[] = {0xFF, 0xAA, 256, 0x00};
    static const char *NAMES[] = {"0xFF", "0xAA", "random bytes", "0x00 after another allocation history"};
    for (int q = 0; q < 4; ++q) {
        sec.clear();
        std::string d = run(FILLS[q], q == 3 || (q & 1), sec);
        if (d == ref) continue;
        // locate the first differing section
        size_t pos = 0; while (pos < d.size() && pos < ref.size() && d[pos] == ref[pos]) ++pos;
        std::string where = "outcome";
        for (auto &s : sec0) if (s.second <= pos) where = s.first;
        std::string e0 = ref.find("|EXC:") != std::string::npos ? ref.substr(ref.find("|EXC:")) : "", e1 = d.find("|EXC:") != std::string::npos ? d.substr(d.find("|EXC:")) : "";
        VF_REQUIRE(false, "result depends on heap contents: fresh memory filled with " << NAMES[q] << " changes the " << where << " (first difference at byte " << pos << " of " << ref.size() << "/" << d.size() << ")"
                   << (e0 != e1 ? " outcome '" + e0 + "' vs '" + e1 + "'" : ""));
    }
}

static std::vector<Prop> props() {
    return {Prop("determinism", prop_determinism, 900, 9000, 100, 20, {1}, 8, 16)};
}
static std::vector<Enum> enums() { return {}; }
VF_MAIN(props(), enums())
