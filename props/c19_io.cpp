// C19 — matrix/vector files round-trip exactly; bad files fail cleanly.
//
// Oracles: bitwise comparison (memcmp) of what was written with what is read back; range read == slice of the
// full read; harness-side expansion of symmetric storage; "must throw" for the documented failures; and for
// every damaged file "std::exception or a structurally valid result" (c19_oracle.hpp), never a crash.
// Helpers: c19_files.hpp (scratch dir, header parsers, regions), c19_oracle.hpp, c19_roundtrip.hpp, c19_faults.hpp.
#ifndef C19_FAULT_ONLY
#include "c19_roundtrip.hpp"
#endif
#include "c19_faults.hpp"

using namespace vf;
using namespace c19;

#ifndef C19_FAULT_ONLY // the sanitized enumeration target (c19_io_san) compiles only the damaged-file props
template <class F>
static std::string must_throw(F &&f, const std::string &what) {
    try { f(); } catch (const std::exception &e) { return e.what(); }
    VF_REQUIRE(false, what << ": the reader returned normally, the property requires an exception");
    return "";
}

// a small valid matrix with at least one entry in the last row (so that the last data line matters)
static Csr<double> doc_matrix(Tape &t, Classes &cl) {
    ptrdiff_t n = t.u(1, 6), m = t.u(1, 6);
    Csr<double> S = gen_sparse_int(t, n, m, 1, true);
    std::vector<std::map<ptrdiff_t, double>> rows(n);
    for (ptrdiff_t i = 0; i < n; ++i) for (ptrdiff_t j = S.ptr[i]; j < S.ptr[i + 1]; ++j) rows[i][S.col[j]] = gen_double(t, true, cl);
    if (rows[n - 1].empty()) rows[n - 1][0] = 1.5;
    return from_triplets<double>(n, m, rows);
}

static std::string text_sparse(const Csr<double> &A, const std::string &dtype, const std::string &sizes, ptrdiff_t bad_entry = -1, ptrdiff_t bi = 0, ptrdiff_t bj = 0) {
    std::ostringstream f;
    f << "%%MatrixMarket matrix coordinate " << dtype << " general\n" << sizes << "\n";
    ptrdiff_t k = 0;
    for (ptrdiff_t i = 0; i < A.n; ++i) for (ptrdiff_t j = A.ptr[i]; j < A.ptr[i + 1]; ++j, ++k) {
        if (k == bad_entry) f << bi << " " << bj; else f << i + 1 << " " << A.col[j] + 1;
        f << " " << fmt(A.val[j], 0) << "\n";
    }
    return f.str();
}

template <class V> static void read_sparse_as(const std::string &p) { SpRead<ptrdiff_t, V> R = read_sp<ptrdiff_t, V>(p); (void)R; }
template <class V> static void read_dense_as(const std::string &p) { DnRead<V> R = read_dn<V>(p); (void)R; }

// ------------------------------------------------------------------ documented failures: the reader must throw
static void prop_documented(Tape &t, Ctx &c) {
    Classes cl;
    int kind = static_cast<int>(t.u(0, 7));
    Csr<double> A = doc_matrix(t, cl);
    std::string p = scratch_file("doc.dat");
    std::string sizes = std::to_string(A.n) + " " + std::to_string(A.m) + " " + std::to_string(A.nnz());
    c.nontrivial = true;
    switch (kind) {
    case 0: { // text sparse truncated before the last data line
        write_mm_sparse(p, A, false);
        std::string b = read_bytes(p); Regions R = classify_text(b, true);
        size_t cut = static_cast<size_t>(t.u(0, static_cast<int64_t>(R.last_start)));
        ptrdiff_t rb = t.u(0, A.n), re = t.u(rb, A.n);
        c.desc << "sparse text " << describe(A) << " truncated at " << cut << " of " << b.size() << " (last line starts at " << R.last_start << "), also rows [" << rb << "," << re << ")";
        c.label("doc:truncated-text-sparse"); c.label(std::string("region:") + region_name(R.reg[std::min(cut, b.size() - 1)]));
        write_bytes(p, b.substr(0, cut));
        must_throw([&] { read_sparse_as<double>(p); }, "truncated sparse file, full read");
        must_throw([&] { SpRead<ptrdiff_t, double> X = read_sp<ptrdiff_t, double>(p, rb, re); (void)X; }, "truncated sparse file, range read");
        break; }
    case 1: { // text dense truncated before the last data line
        size_t n = static_cast<size_t>(A.n), m = static_cast<size_t>(t.u(1, 3));
        std::vector<double> v(n * m); for (auto &x : v) x = gen_double(t, true, cl);
        io::mm_write(fresh(p), v.data(), n, m);
        std::string b = read_bytes(p); Regions R = classify_text(b, false);
        size_t cut = static_cast<size_t>(t.u(0, static_cast<int64_t>(R.last_start)));
        c.desc << "dense text " << n << "x" << m << " truncated at " << cut << " of " << b.size();
        c.label("doc:truncated-text-dense");
        write_bytes(p, b.substr(0, cut));
        must_throw([&] { read_dense_as<double>(p); }, "truncated dense file, full read");
        must_throw([&] { DnRead<double> X = read_dn<double>(p, 0, 1); (void)X; }, "truncated dense file, range read");
        break; }
    case 2: { // binary crs, any strict truncation
        write_bin_crs<size_t, ptrdiff_t, ptrdiff_t, double>(p, A);
        std::string b = read_bytes(p);
        size_t cut = t.pick(b.size());
        c.desc << "binary crs " << describe(A) << " truncated at " << cut << " of " << b.size();
        c.label("doc:truncated-bin-crs");
        write_bytes(p, b.substr(0, cut));
        must_throw([&] { auto X = read_bc<size_t, ptrdiff_t, ptrdiff_t, double>(p); (void)X; }, "truncated binary crs file");
        if (cut < sizeof(size_t)) must_throw([&] { io::crs_size<size_t>(p); }, "crs_size of a file shorter than the size field");
        else VF_REQUIRE(io::crs_size<size_t>(p) == static_cast<size_t>(A.n), "crs_size of a file with intact size field");
        break; }
    case 3: { // binary dense, any strict truncation
        size_t n = static_cast<size_t>(A.n), m = static_cast<size_t>(t.u(1, 3));
        std::vector<double> v(n * m); for (auto &x : v) x = gen_double(t, false, cl);
        write_bin_dense<size_t, double>(p, n, m, v);
        std::string b = read_bytes(p);
        size_t cut = t.pick(b.size());
        c.desc << "binary dense " << n << "x" << m << " truncated at " << cut << " of " << b.size();
        c.label("doc:truncated-bin-dense");
        write_bytes(p, b.substr(0, cut));
        must_throw([&] { auto X = read_bd<size_t, double>(p); (void)X; }, "truncated binary dense file");
        if (cut < 2 * sizeof(size_t)) must_throw([&] { size_t a, b2; io::dense_size(p, a, b2); }, "dense_size of a file shorter than the size fields");
        break; }
    case 4: { // bad banner / header
        static const char *banners[] = {
            "%MatrixMarket matrix coordinate real general", "%%matrixmarket matrix coordinate real general", "MatrixMarket matrix coordinate real general",
            "%%MatrixMarket2 matrix coordinate real general", "%%MatrixMarket vector coordinate real general", "%%MatrixMarket Matrix coordinate real general",
            "%%MatrixMarket matrix coordinat real general", "%%MatrixMarket matrix dense real general", "%%MatrixMarket matrix Coordinate real general",
            "%%MatrixMarket matrix coordinate double general", "%%MatrixMarket matrix coordinate pattern general", "%%MatrixMarket matrix coordinate Real general",
            "%%MatrixMarket matrix coordinate real hermitian", "%%MatrixMarket matrix coordinate real skew-symmetric", "%%MatrixMarket matrix coordinate real General",
            "%%MatrixMarket matrix coordinate real", "%%MatrixMarket matrix coordinate", "%%MatrixMarket", "", "%", "1 1 1",
        };
        const int NB = sizeof(banners) / sizeof(banners[0]);
        int v = static_cast<int>(t.u(0, NB + 5));
        std::string body = text_sparse(A, "real", sizes);
        std::string rest = body.substr(body.find('\n') + 1), file;
        if (v < NB) file = std::string(banners[v]) + "\n" + rest;
        else if (v == NB) file = "";                                                       // empty file
        else if (v == NB + 1) file = body.substr(0, body.find('\n') + 1);                  // banner only
        else if (v == NB + 2) file = body.substr(0, body.find('\n') + 1) + "% only\n% comments\n";
        else if (v == NB + 3) file = body.substr(0, body.find('\n') + 1) + std::to_string(A.n) + "\n" + rest.substr(rest.find('\n') + 1); // one size only
        else if (v == NB + 4) file = body.substr(0, body.find('\n') + 1) + "rows cols nnz\n" + rest.substr(rest.find('\n') + 1);
        else { file = body; p = scratch_file("does-not-exist.mtx"); }
        c.desc << "bad header variant " << v << ": " << printable(file, 120);
        c.label("doc:bad-banner");
        if (v != NB + 5) write_bytes(p, file);
        must_throw([&] { read_sparse_as<double>(p); }, "bad banner/header");
        break; }
    case 5: { // wrong value kind / wrong container kind
        int fk = static_cast<int>(t.u(0, 2)); bool fdense = t.b();
        int vk = static_cast<int>(t.u(0, 4)); bool vdense = t.b(); // double, complex, int, float, int64
        static const char *dt[] = {"real", "complex", "integer"};
        std::ostringstream f;
        if (fdense) { f << "%%MatrixMarket matrix array " << dt[fk] << " general\n2 1\n" << (fk == 1 ? "1 2\n3 4\n" : "1\n2\n"); }
        else { f << "%%MatrixMarket matrix coordinate " << dt[fk] << " general\n2 2 2\n" << (fk == 1 ? "1 1 1 2\n2 2 3 4\n" : "1 1 1\n2 2 2\n"); }
        write_bytes(p, f.str());
        int vclass = vk == 1 ? 1 : (vk == 2 || vk == 4) ? 2 : 0;
        bool match = fdense == vdense && fk == vclass;
        c.desc << "file " << (fdense ? "array " : "coordinate ") << dt[fk] << " read into " << (vdense ? "dense " : "sparse ") << (vk == 0 ? "double" : vk == 1 ? "complex" : vk == 2 ? "int" : vk == 3 ? "float" : "int64");
        c.label(match ? "doc:kind-matches" : "doc:wrong-kind");
        auto go = [&] {
            if (vdense) { switch (vk) { case 0: read_dense_as<double>(p); break; case 1: read_dense_as<cplx>(p); break; case 2: read_dense_as<int>(p); break; case 3: read_dense_as<float>(p); break; default: read_dense_as<long long>(p); } }
            else { switch (vk) { case 0: read_sparse_as<double>(p); break; case 1: read_sparse_as<cplx>(p); break; case 2: read_sparse_as<int>(p); break; case 3: read_sparse_as<float>(p); break; default: read_sparse_as<long long>(p); } }
        };
        if (match) go(); else must_throw(go, "wrong value kind");
        c.nontrivial = !match;
        break; }
    case 6: { // inconsistent sizes, text
        int v = static_cast<int>(t.u(0, 9));
        ptrdiff_t k = t.u(1, 3), which = static_cast<ptrdiff_t>(t.pick(A.nnz()));
        std::string file; bool dense = false;
        switch (v) {
        case 0: file = text_sparse(A, "real", std::to_string(A.n) + " " + std::to_string(A.m) + " " + std::to_string(A.nnz() + k)); break; // more entries announced than present
        case 1: file = text_sparse(A, "real", sizes, which, A.n + k, 1); break;          // row index beyond the announced rows
        case 2: file = text_sparse(A, "real", sizes, which, 1, A.m + k); break;          // column index beyond the announced columns
        case 3: file = text_sparse(A, "real", sizes, which, 0, 1); break;                // indices are 1-based
        case 4: file = text_sparse(A, "real", sizes, which, 1, 0); break;
        case 5: file = text_sparse(A, "real", sizes, which, -k, 1); break;
        case 6: file = text_sparse(A, "real", "-" + sizes); break;                       // negative row count
        case 7: file = text_sparse(A, "real", std::to_string(A.n) + " -" + std::to_string(A.m) + " " + std::to_string(A.nnz())); break;
        case 8: { dense = true; std::ostringstream f; f << "%%MatrixMarket matrix array real general\n" << A.n + k << " 2\n"; for (ptrdiff_t i = 0; i < 2 * A.n; ++i) f << i << "\n"; file = f.str(); break; }
        default: { dense = true; std::ostringstream f; bool negn = t.b(); f << "%%MatrixMarket matrix array real general\n" << (negn ? -A.n : A.n) << " " << (negn ? 2 : -2) << "\n"; for (ptrdiff_t i = 0; i < 2 * A.n; ++i) f << i << "\n"; file = f.str(); break; }
        }
        c.desc << "inconsistent sizes (text) variant " << v << ": " << printable(file, 200);
        c.label("doc:inconsistent-text-" + std::to_string(v));
        write_bytes(p, file);
        if (dense) must_throw([&] { read_dense_as<double>(p); }, "inconsistent sizes in an array file");
        else must_throw([&] { read_sparse_as<double>(p); }, "inconsistent sizes in a coordinate file");
        break; }
    default: { // inconsistent sizes, binary; row range outside the matrix
        int v = static_cast<int>(t.u(0, 8));
        size_t k = static_cast<size_t>(t.u(1, 3));
        write_bin_crs<size_t, ptrdiff_t, ptrdiff_t, double>(p, A);
        std::string b = read_bytes(p);
        auto put = [&](size_t off, size_t val) { memcpy(&b[off], &val, 8); };
        size_t n = static_cast<size_t>(A.n), nnz = static_cast<size_t>(A.nnz());
        c.label("doc:inconsistent-bin-" + std::to_string(v));
        c.desc << "inconsistent sizes (binary) variant " << v << " on " << describe(A) << " k=" << k;
        switch (v) {
        case 0: put(0, n + k); write_bytes(p, b); must_throw([&] { auto X = read_bc<size_t, ptrdiff_t, ptrdiff_t, double>(p); (void)X; }, "row count larger than stored"); break;
        case 1: put(8 + n * 8, nnz + k); write_bytes(p, b); must_throw([&] { auto X = read_bc<size_t, ptrdiff_t, ptrdiff_t, double>(p); (void)X; }, "nnz larger than stored"); break;
        case 2: { // decreasing row pointers
            if (A.ptr[n - 1] == 0) { c.nontrivial = false; c.label("doc:skipped-no-earlier-entries"); break; } // ptr = [0,...,0,nnz]: lowering ptr[n] keeps it monotone
            put(8 + n * 8, static_cast<size_t>(A.ptr[n - 1] - 1));
            write_bytes(p, b); must_throw([&] { auto X = read_bc<size_t, ptrdiff_t, ptrdiff_t, double>(p); (void)X; }, "ptr[n] below ptr[n-1]"); break; }
        case 3: put(8, static_cast<size_t>(-static_cast<ptrdiff_t>(k))); write_bytes(p, b); must_throw([&] { auto X = read_bc<size_t, ptrdiff_t, ptrdiff_t, double>(p); (void)X; }, "negative ptr[0]"); break;
        case 4: must_throw([&] { auto X = read_bc<size_t, ptrdiff_t, ptrdiff_t, double>(p, 0, A.n + static_cast<ptrdiff_t>(k)); (void)X; }, "read_crs: row range beyond the matrix"); break;
        case 5: { write_mm_sparse(p, A, false); must_throw([&] { auto X = read_sp<ptrdiff_t, double>(p, 0, A.n + static_cast<ptrdiff_t>(k)); (void)X; }, "mm_reader sparse: row range beyond the matrix"); break; }
        case 6: { std::vector<double> x(n * 2, 1.0); io::mm_write(fresh(p), x.data(), n, 2); must_throw([&] { auto X = read_dn<double>(p, 0, A.n + static_cast<ptrdiff_t>(k)); (void)X; }, "mm_reader dense: row range beyond the matrix"); break; }
        case 7: { std::vector<double> x(n * 2, 1.0); write_bin_dense<size_t, double>(p, n, 2, x); must_throw([&] { auto X = read_bd<size_t, double>(p, 0, A.n + static_cast<ptrdiff_t>(k)); (void)X; }, "read_dense: row range beyond the matrix"); break; }
        default: { std::vector<double> x(n * 2, 1.0); bool rows = t.b(); write_bin_dense<size_t, double>(p, rows ? n + k : n, rows ? 2 : 2 + k, x); must_throw([&] { auto X = read_bd<size_t, double>(p); (void)X; }, "read_dense: sizes larger than stored"); break; }
        }
        break; }
    }
}

// ------------------------------------------------------------------ defects found by this harness: kinds 2,3,5,6 were fixed in /repo (b9cdd1e, b8ea7d5, f4ed298, 4171d32)
// and are asserted; kinds 0,1 (surplus data lines, former finding F-io-surplus-lines) were fixed later (mm_reader::check_no_more_data)
// and are asserted as well
static void prop_candidates(Tape &t, Ctx &c) {
    int kind = static_cast<int>(t.u(0, 6));
    std::string p = scratch_file("cand.dat");
    c.nontrivial = true;
    switch (kind) {
    case 0: { // coordinate file with more data lines than the announced nnz
        Classes cl; Csr<double> A = doc_matrix(t, cl);
        if (A.nnz() < 2) { std::vector<std::map<ptrdiff_t, double>> rows(2); rows[0][0] = 1; rows[1][0] = 2; A = from_triplets<double>(2, 1, rows); }
        ptrdiff_t k = t.u(1, A.nnz() - 1);
        write_bytes(p, text_sparse(A, "real", std::to_string(A.n) + " " + std::to_string(A.m) + " " + std::to_string(A.nnz() - k)));
        c.desc << "coordinate file " << describe(A) << " announcing nnz=" << A.nnz() - k << " but holding " << A.nnz() << " data lines";
        c.label("cand:surplus-lines-sparse");
        must_throw([&] { read_sparse_as<double>(p); }, "inconsistent sizes: more data lines than announced");
        break; }
    case 1: { // array file with more values than rows*cols
        ptrdiff_t n = t.u(1, 5), k = t.u(1, 3);
        std::ostringstream f; f << "%%MatrixMarket matrix array real general\n" << n << " 1\n"; for (ptrdiff_t i = 0; i < n + k; ++i) f << i << "\n";
        write_bytes(p, f.str());
        c.desc << "array file announcing " << n << "x1 but holding " << n + k << " values";
        c.label("cand:surplus-lines-dense");
        must_throw([&] { read_dense_as<double>(p); }, "inconsistent sizes: more values than announced");
        break; }
    case 2: { // array file with negative sizes: both negative is returned as a (2^64-n) x (2^64-m) array
        ptrdiff_t n = t.u(1, 5), m = t.u(1, 3);
        std::ostringstream f; f << "%%MatrixMarket matrix array real general\n-" << n << " -" << m << "\n"; for (ptrdiff_t i = 0; i < n * m; ++i) f << i << "\n";
        write_bytes(p, f.str());
        c.desc << "array file with size line '-" << n << " -" << m << "'";
        c.label("cand:negative-array-size");
        must_throw([&] { read_dense_as<double>(p); }, "negative sizes in an array file");
        break; }
    case 3: { // binary dense: one flipped bit in a size field makes chunk*m wrap around
        size_t n = static_cast<size_t>(t.u(1, 4)), m = static_cast<size_t>(t.u(1, 4));
        std::vector<double> v(n * m, 1.0);
        bool top_n = t.b();
        size_t fn = n, fm = m;
        if (top_n) fn |= size_t(1) << 63; else { fn = 4; fm = m | (size_t(1) << 62); v.assign(4 * m, 1.0); }
        write_bin_dense<size_t, double>(p, fn, fm, v);
        c.desc << "binary dense file, stored sizes n=" << fn << " m=" << fm << " with " << v.size() << " values";
        c.label("cand:dense-size-overflow");
        BdRead<size_t, double> R;
        try { R = read_bd<size_t, double>(p); } catch (const std::exception &) { return; }
        validate_bd(R, -1, -1, "read_dense with a corrupted size field");
        break; }
    case 5: { // "symmetric" coordinate file that is not square: mirrored entries get column indices >= ncols
        ptrdiff_t m = t.u(1, 3), n = m + t.u(1, 3), i = t.u(m + 1, n);
        std::ostringstream f; f << "%%MatrixMarket matrix coordinate real symmetric\n" << n << " " << m << " 1\n" << i << " 1 5\n";
        write_bytes(p, f.str());
        c.desc << "symmetric coordinate file " << n << "x" << m << " with the single entry (" << i << ",1)";
        c.label("cand:symmetric-nonsquare");
        SpRead<ptrdiff_t, double> R;
        try { R = read_sp<ptrdiff_t, double>(p); } catch (const std::exception &) { return; }
        validate_sp(R, -1, -1, "non-square symmetric file accepted");
        break; }
    default: { // mm_write<char> emits raw characters, mm_reader<char> expects 8-bit integers
        size_t n = static_cast<size_t>(t.u(1, 4));
        std::vector<char> v(n); for (auto &x : v) x = static_cast<char>(t.u(1, 127));
        io::mm_write(fresh(p), v.data(), n, 1);
        c.desc << "dense char array of " << n << " values, first=" << static_cast<int>(v[0]);
        c.label("cand:char-write");
        DnRead<char> R;
        try { R = read_dn<char>(p); } catch (const std::exception &e) { VF_REQUIRE(false, "file written by mm_write<char> is rejected by mm_reader: " << e.what()); }
        VF_REQUIRE(R.val == v, "char values differ after the round trip");
        break; }
    }
}

#endif

static std::vector<Prop> all_props() {
    if (const char *d = getenv("C19_DUMP_CORPUS")) { dump_corpus(d); exit(0); }
    typedef long long i64;
    std::vector<Prop> P = {
#ifndef C19_FAULT_ONLY
        Prop("rt_mm_sparse_double", prop_rt_mm_sparse<double>, 700, 8000, 100, 12, {1}, 2, 8),
        Prop("rt_mm_sparse_float", prop_rt_mm_sparse<float>, 300, 3000, 100, 12, {1}, 1, 2),
        Prop("rt_mm_sparse_complex", prop_rt_mm_sparse<cplx>, 400, 4000, 100, 20, {1}, 1, 4),
        Prop("rt_mm_sparse_int", prop_rt_mm_sparse<int>, 300, 3000, 100, 10, {1}, 1, 2),
        Prop("rt_mm_sparse_int64", prop_rt_mm_sparse<i64>, 300, 3000, 100, 12, {1}, 1, 2),
        Prop("rt_mm_dense_double", prop_rt_mm_dense<double>, 500, 5000, 100, 6, {1}, 1, 4),
        Prop("rt_mm_dense_float", prop_rt_mm_dense<float>, 250, 2500, 100, 6, {1}, 1, 2),
        Prop("rt_mm_dense_complex", prop_rt_mm_dense<cplx>, 250, 2500, 100, 10, {1}, 1, 2),
        Prop("rt_mm_dense_int", prop_rt_mm_dense<int>, 250, 2500, 100, 6, {1}, 1, 2),
        Prop("rt_symmetric_double", prop_rt_symmetric<double>, 500, 5000, 100, 8, {1}, 1, 4),
        Prop("rt_symmetric_complex", prop_rt_symmetric<cplx>, 250, 2500, 100, 12, {1}, 1, 2),
        Prop("rt_symmetric_int", prop_rt_symmetric<int>, 250, 2500, 100, 6, {1}, 1, 2),
        Prop("rt_bin_crs_double", prop_rt_bin_crs<size_t, ptrdiff_t, ptrdiff_t, double>, 700, 8000, 100, 12, {1}, 1, 4),
        Prop("rt_bin_crs_complex", prop_rt_bin_crs<size_t, ptrdiff_t, ptrdiff_t, cplx>, 300, 3000, 100, 20, {1}, 1, 2),
        Prop("rt_bin_crs_float32", prop_rt_bin_crs<int, int, int, float>, 300, 3000, 100, 10, {1}, 1, 2),
        Prop("rt_bin_dense_double", prop_rt_bin_dense<size_t, double>, 500, 5000, 100, 8, {1}, 1, 2),
        Prop("rt_bin_dense_complex", prop_rt_bin_dense<size_t, cplx>, 250, 2500, 100, 14, {1}, 1, 2),
        Prop("documented", prop_documented, 1500, 15000, 100, 8, {1}, 2, 4),
        Prop("candidates", prop_candidates, 200, 1000, 100, 4, {1}, 1, 1),
#endif
        Prop("fault", prop_fault, 1500, 15000, 100, 1, {1}, 1, 2),
        Prop("fuzz_edits", prop_fuzz_edits, 1500, 30000, 100, 1, {1}, 2, 8),
        Prop("fuzz_raw", prop_fuzz_raw, 200, 2000, 100, 3, {1}, 1, 1),
    };
    // keep the last decoded tape for the crash note (c19_files.hpp)
    for (auto &p : P) { PropFn fn = p.fn; p.fn = [fn](Tape &t, Ctx &c) { remember_case(t.v); fn(t, c); }; }
    return P;
}

static std::vector<Enum> enums() {
    Enum e;
    e.name = "single_faults"; e.prop = "fault";
    e.scope_quick = "11 base files (sparse real general by mm_write, sparse real with comments, sparse complex, sparse symmetric (two), sparse integer, dense real, dense integer, binary crs 64-bit, binary crs 32-bit, binary dense; 60..400 bytes each): "
                    "every truncation point 0..len and every single-byte substitution from {8 single-bit flips, '0','9','-','.','e',' ','\\n','%'} at every offset";
    e.scope_thorough = "quick scope plus 4 more base files (1x1, symmetric complex, commented dense vector, binary crs with empty rows)";
    e.gen = [](const std::string &tier, const Emit &emit) { enumerate_faults(tier, emit); };
    return {e};
}

VF_MAIN(all_props(), enums())
