// C13 (block part) — block formulations represent and solve the same scalar system.
// Compiled once per block size: -DC13_B=2|3|4 (targets c13_block2/3/4).
//
// Oracles
//  * representation: every block representation (adapter::block_matrix, crs<block> built from it, crs<block> handed
//    over as block-valued tuple, the hybrid backend's level matrix, unblock_matrix round trip) has exactly the entries of
//    the scalar matrix (bitwise, values are only copied) and structurally missing entries of a present block are zero;
//  * SpMV of each representation (block vectors, and scalar vectors through the reinterpretation path) against a
//    long-double product of the scalar CSR, bound c*u*sum|a||x|;
//  * every formulation's solution, read as a scalar vector, has a truthful residual w.r.t. the SCALAR system
//    (vf::true_relres in long double) and reaches the tolerance.
#ifndef C13_B
#define C13_B 3
#endif
#include <amgcl/backend/builtin.hpp>
#include <amgcl/backend/builtin_hybrid.hpp>
#include <amgcl/value_type/static_matrix.hpp>
#include <amgcl/adapter/crs_tuple.hpp>
#include <amgcl/adapter/block_matrix.hpp>
#include <amgcl/make_solver.hpp>
#include <amgcl/make_block_solver.hpp>
#include <amgcl/amg.hpp>
#include <amgcl/coarsening/smoothed_aggregation.hpp>
#include <amgcl/coarsening/as_scalar.hpp>
#include <amgcl/relaxation/spai0.hpp>
#include <amgcl/relaxation/ilu0.hpp>
#include <amgcl/relaxation/as_block.hpp>
#include <amgcl/solver/cg.hpp>
#include <amgcl/solver/bicgstab.hpp>
#include "../common/harness.hpp"
#include "../common/gen.hpp"
#include "../common/dense.hpp"
#include "../common/amgcl_util.hpp"
#include "c13_common.hpp"
#include <functional>

using namespace vf;
using namespace c13;
namespace ab = amgcl::backend;

static const int B = C13_B;
typedef amgcl::static_matrix<double, B, B> blk;
typedef amgcl::static_matrix<double, B, 1> rhsb;
typedef ab::builtin<blk> BB;
typedef ab::builtin<double> SB;
typedef ab::builtin_hybrid<blk> HB;

// -------------------------------------------------------------------------------------------- representation
// presence mask and dense copy of the scalar matrix
struct ScalarView {
    ptrdiff_t n, nb;
    Dense<double> D; Dense<int> P; // P(I,J): block structurally present
    explicit ScalarView(const Csr<double> &A) : n(A.n), nb(A.n / B), D(A.n, A.n), P(A.n / B, A.n / B) {
        for (ptrdiff_t i = 0; i < A.n; ++i) for (ptrdiff_t j = A.ptr[i]; j < A.ptr[i + 1]; ++j) { D(i, A.col[j]) = A.val[j]; P(i / B, A.col[j] / B) = 1; }
    }
};

static bool same_bits(double a, double b) { return std::memcmp(&a, &b, sizeof a) == 0 || (a == 0 && b == 0); } // -0.0 vs +0.0: explicit zero fill

// walk any block-valued matrix through the generic row iterator interface
template <class M>
void require_block_entries(const M &Bm, const ScalarView &sv, const std::string &what, bool need_sorted) {
    VF_REQUIRE(static_cast<ptrdiff_t>(ab::rows(Bm)) == sv.nb && static_cast<ptrdiff_t>(ab::cols(Bm)) == sv.nb,
               what << ": shape " << ab::rows(Bm) << "x" << ab::cols(Bm) << " expected " << sv.nb << "x" << sv.nb);
    for (ptrdiff_t I = 0; I < sv.nb; ++I) {
        std::vector<int> seen(sv.nb, 0);
        ptrdiff_t prev = -1;
        for (auto a = ab::row_begin(Bm, I); a; ++a) {
            ptrdiff_t J = a.col();
            VF_REQUIRE(J >= 0 && J < sv.nb, what << ": block column " << J << " out of range in block row " << I);
            VF_REQUIRE(!seen[J], what << ": block (" << I << "," << J << ") listed twice");
            seen[J] = 1;
            if (need_sorted) VF_REQUIRE(J > prev, what << ": block row " << I << " not in ascending column order");
            prev = J;
            VF_REQUIRE(sv.P(I, J), what << ": block (" << I << "," << J << ") invented (no scalar entry falls into it)");
            blk v = a.value();
            for (int k = 0; k < B; ++k) for (int l = 0; l < B; ++l)
                VF_REQUIRE(same_bits(v(k, l), sv.D(I * B + k, J * B + l)), what << ": block (" << I << "," << J << ") entry (" << k << "," << l << ") = " << v(k, l)
                           << ", scalar matrix has " << sv.D(I * B + k, J * B + l));
        }
        for (ptrdiff_t J = 0; J < sv.nb; ++J) VF_REQUIRE(seen[J] == sv.P(I, J), what << ": block (" << I << "," << J << ") missing");
    }
}

static std::vector<double> flat(const std::vector<rhsb> &v) { std::vector<double> o(v.size() * B); if (!v.empty()) std::memcpy(o.data(), v.data(), o.size() * sizeof(double)); return o; }
static std::vector<rhsb> blocked(const std::vector<double> &v) { std::vector<rhsb> o(v.size() / B); if (!v.empty()) std::memcpy(o.data(), v.data(), v.size() * sizeof(double)); return o; }

static void prop_representation(Tape &t, Ctx &c) {
    BlockCase bc = gen_block_case(t, B, t.b() ? 6 : 40);
    const Csr<double> &A = bc.A;
    std::vector<double> x = gen_vec(t, A.n), y0 = gen_vec(t, A.n);
    double alpha = t.b() ? 1.0 : static_cast<double>(t.u(-3, 3)), beta = t.b() ? 0.0 : static_cast<double>(t.u(-3, 3));
    c.desc << "block representation b=" << B << " kind=" << bc.kind << " " << bc.family << " nb=" << bc.nb << " " << describe(A) << " blocks=" << bc.blocks
           << " incomplete=" << bc.incomplete << " alpha=" << alpha << " beta=" << beta << " A=" << dump_small(A, 8);
    c.nontrivial = bc.incomplete > 0 && bc.nb >= 2;
    c.label("kind=" + std::to_string(bc.kind)); c.label("fam:" + bc.family);
    c.label(bc.incomplete ? "incomplete-block" : "all-blocks-full");
    if (bc.offdiag_incomplete) c.label("incomplete-offdiag-block");

    ScalarView sv(A);
    size_t n = static_cast<size_t>(A.n);
    auto As = std::tie(n, A.ptr, A.col, A.val);
    auto Ab = amgcl::adapter::block_matrix<blk>(As);
    require_block_entries(Ab, sv, "adapter::block_matrix", true);

    ab::crs<blk> Bc(Ab);                       // generic copy constructor over the adapter's row iterator
    require_wellformed(Bc, "crs<block>(block_matrix)", true, true);
    VF_REQUIRE(static_cast<long>(Bc.nnz) == bc.blocks, "crs<block>(block_matrix): " << Bc.nnz << " stored blocks, the scalar matrix touches " << bc.blocks);
    require_block_entries(Bc, sv, "crs<block>(block_matrix)", true);

    // block-valued tuple (the user assembles blocks himself): same operator again
    Csr<blk> Bt = from_crs(Bc);
    size_t nbs = static_cast<size_t>(bc.nb);
    auto At = std::tie(nbs, Bt.ptr, Bt.col, Bt.val);
    require_block_entries(At, sv, "block-valued tuple", true);

    // unblock_matrix: scalar matrix with explicit zeros, equal as a dense matrix
    auto Un = amgcl::adapter::unblock_matrix(Bc);
    require_wellformed(*Un, "unblock_matrix", true, true);
    VF_REQUIRE(static_cast<ptrdiff_t>(Un->nrows) == A.n && static_cast<ptrdiff_t>(Un->ncols) == A.n, "unblock_matrix: shape");
    VF_REQUIRE(static_cast<long>(Un->nnz) == bc.blocks * B * B, "unblock_matrix: nnz " << Un->nnz << " expected " << bc.blocks * B * B);
    {
        Dense<double> G(A.n, A.n); Dense<int> Gp(A.n, A.n);
        for (ptrdiff_t i = 0; i < A.n; ++i) for (ptrdiff_t j = Un->ptr[i]; j < Un->ptr[i + 1]; ++j) { G(i, Un->col[j]) = Un->val[j]; Gp(i, Un->col[j]) = 1; }
        for (ptrdiff_t i = 0; i < A.n; ++i) for (ptrdiff_t j = 0; j < A.n; ++j) {
            VF_REQUIRE(same_bits(G(i, j), sv.D(i, j)), "unblock_matrix: entry (" << i << "," << j << ") = " << G(i, j) << " scalar " << sv.D(i, j));
            VF_REQUIRE(Gp(i, j) == sv.P(i / B, j / B), "unblock_matrix: structural entry (" << i << "," << j << ")");
        }
    }
    // the hybrid backend converts the (sorted) scalar build matrix
    {
        auto As_crs = std::make_shared<ab::crs<double>>(As);
        auto Hm = HB::copy_matrix(As_crs, HB::params());
        require_block_entries(*Hm, sv, "builtin_hybrid::copy_matrix", true);
    }

    // ---- SpMV
    std::vector<std::complex<long double>> ref; std::vector<long double> S;
    ref_spmv(A, x, alpha, beta, y0, ref, S);
    // per scalar row at most B * (blocks in the block row) products, plus the alpha/beta combination
    long double cmax = 0;
    for (ptrdiff_t I = 0; I < bc.nb; ++I) cmax = std::max<long double>(cmax, static_cast<long double>(Bc.ptr[I + 1] - Bc.ptr[I]));
    long double cb = 2 * (B * cmax + 4);
    {   // adapter, block vectors
        std::vector<rhsb> X = blocked(x), Y = blocked(y0);
        ab::spmv(alpha, Ab, X, beta, Y);
        require_spmv(flat(Y), ref, S, cb, "spmv(block_matrix adapter, block vectors)");
    }
    {   // crs<block>, block vectors
        std::vector<rhsb> X = blocked(x), Y = blocked(y0);
        ab::spmv(alpha, Bc, X, beta, Y);
        require_spmv(flat(Y), ref, S, cb, "spmv(crs<block>, block vectors)");
    }
    {   // crs<block>, scalar vectors: reinterpretation path (builtin.hpp reinterpret_as_rhs)
        std::vector<double> Y = y0;
        ab::spmv(alpha, Bc, x, beta, Y);
        require_spmv(Y, ref, S, cb, "spmv(crs<block>, scalar vectors)");
        std::vector<double> R(A.n);
        ab::residual(y0, Bc, x, R);
        std::vector<std::complex<long double>> rr; std::vector<long double> rs;
        ref_spmv(A, x, -1.0, 1.0, y0, rr, rs);
        require_spmv(R, rr, rs, cb, "residual(crs<block>, scalar vectors)");
    }
    {   // block-valued tuple
        std::vector<rhsb> X = blocked(x), Y = blocked(y0);
        ab::spmv(alpha, At, X, beta, Y);
        require_spmv(flat(Y), ref, S, cb, "spmv(block tuple, block vectors)");
    }
    {   // unblocked matrix
        std::vector<double> Y = y0;
        ab::spmv(alpha, *Un, x, beta, Y);
        require_spmv(Y, ref, S, cb, "spmv(unblock_matrix)");
    }
    {   // scalar tuple itself (base line of the differential)
        std::vector<double> Y = y0;
        ab::spmv(alpha, As, x, beta, Y);
        require_spmv(Y, ref, S, 2 * (static_cast<long double>(max_row_len(A)) + 4), "spmv(scalar tuple)");
    }
}

// -------------------------------------------------------------------------------------------- solves
typedef amgcl::amg<BB, amgcl::coarsening::smoothed_aggregation, amgcl::relaxation::spai0> AmgBlock;
typedef amgcl::amg<BB, amgcl::coarsening::as_scalar<amgcl::coarsening::smoothed_aggregation>::type, amgcl::relaxation::ilu0> AmgAsScalar;
typedef amgcl::amg<HB, amgcl::coarsening::smoothed_aggregation, amgcl::relaxation::spai0> AmgHybrid;
typedef amgcl::amg<HB, amgcl::coarsening::smoothed_aggregation, amgcl::relaxation::as_block<BB, amgcl::relaxation::ilu0>::type> AmgAsBlock;

template <class Solver> void set_common(typename Solver::params &p, double tol, size_t maxiter, ptrdiff_t coarse_enough) {
    p.solver.tol = tol; p.solver.maxiter = maxiter; p.precond.coarse_enough = static_cast<unsigned>(coarse_enough);
}

static void prop_solve(Tape &t, Ctx &c) {
    BlockCase bc = gen_block_case(t, B, t.chance(1, 4) ? 8 : 72);
    const Csr<double> &A = bc.A;
    std::string fk; std::vector<double> f = gen_rhs(t, A, fk);
    // coarse_enough in block rows: 3000 (library default: one level, direct solve) or small enough for a hierarchy
    int cec = static_cast<int>(t.u(0, 2));
    ptrdiff_t ce = cec == 0 ? 12 : cec == 1 ? 4 : 3000;
    double tol = t.b() ? 1e-8 : 1e-6;
    // The system actually solved may differ from the one the solver was set up for (make_solver/make_block_solver: "the system matrix may
    // differ from the matrix used during initialization"): A1 has the pattern of A, and either A1 = 2A or the diagonal grown by 10..50 % per
    // row and the off-diagonals shrunk by a common factor in [0.6,1] (still symmetric, more diagonally dominant => SPD, spectrally within
    // a factor ~2.5 of A, so the preconditioner built for A stays adequate).  The reported residual must be truthful for the SCALAR A1.
    Csr<double> A1 = A;
    int a1mode = static_cast<int>(t.u(0, 1));
    if (a1mode == 0) { for (auto &v : A1.val) v *= 2.0; }
    else {
        double g = t.uni(0.6, 1.0);
        for (ptrdiff_t i = 0; i < A1.n; ++i) { double di = 1.0 + t.uni(0.1, 0.5); for (ptrdiff_t j = A1.ptr[i]; j < A1.ptr[i + 1]; ++j) A1.val[j] *= (A1.col[j] == i ? di : g); }
    }
    c.label(a1mode == 0 ? "A1=2A" : "A1=perturbed");
    const size_t maxiter = 1000; // CG with the (not exactly symmetric) block-valued cycle can need more than 200 steps on n=250 (seen once in 1e5 cases)
    c.desc << "block solve b=" << B << " kind=" << bc.kind << " " << bc.family << " nb=" << bc.nb << " " << describe(A) << " incomplete=" << bc.incomplete << "/" << bc.blocks
           << " contrast=" << bc.contrast << " rhs=" << fk << " coarse_enough=" << ce << " tol=" << tol << " A=" << dump_small(A, 8);
    c.nontrivial = bc.incomplete > 0 && bc.nb >= 2;
    c.label("kind=" + std::to_string(bc.kind)); c.label("fam:" + bc.family); c.label(size_bucket(bc.nb)); c.label("ce=" + std::to_string(ce));
    c.label(bc.model() ? "model" : "non-model(truthfulness only)");
    c.label(bc.incomplete ? "incomplete-block" : "all-blocks-full");

    size_t n = static_cast<size_t>(A.n), nb = static_cast<size_t>(bc.nb);
    auto As = std::tie(n, A.ptr, A.col, A.val);
    auto Ab = amgcl::adapter::block_matrix<blk>(As);
    auto As1 = std::tie(n, A1.ptr, A1.col, A1.val);
    auto Ab1 = amgcl::adapter::block_matrix<blk>(As1);
    size_t iters; double resid;
    size_t levels_seen = 0;
    // Convergence to the tolerance is demanded on the model kinds (M-matrix like, kappa small); for kind 3 (entries of both
    // signs, no smooth near-null space) only the truthfulness of whatever residual is reported, and a Krylov breakdown
    // ("Zero rho/omega in BiCGStab") is a clean, allowed outcome there.
    const bool conv = bc.model();
    auto guarded = [&](const char *name, const std::function<void()> &body) {
        try { body(); }
        catch (const std::runtime_error &e) {
            std::string w = e.what();
            if (dynamic_cast<const vf::Fail *>(&e) == nullptr && w.find("in BiCGStab") != std::string::npos) { c.label(std::string(conv ? "breakdown(model):" : "breakdown:") + name); return; } // see the triage note in c13_common.hpp
            throw;
        }
    };

    guarded("adapter", [&]() {   // 1. block value type through the adapter, called as tutorial/2.Serena does: solve(Ab, F, X)
        typedef amgcl::make_solver<AmgBlock, amgcl::solver::cg<BB>> Solver;
        Solver::params p; set_common<Solver>(p, tol, maxiter, ce);
        Solver solve(Ab, p);
        std::vector<double> x(n, 0.0);
        auto F = ab::reinterpret_as_rhs<blk>(f); auto X = ab::reinterpret_as_rhs<blk>(x);
        std::tie(iters, resid) = solve(Ab, F, X);
        require_truthful(c, "block_matrix+amg<block>+cg", A, f, x, iters, resid, tol, maxiter, conv);
        {   // solver set up for A, asked to solve A1
            std::vector<double> x1(n, 0.0);
            auto X1 = ab::reinterpret_as_rhs<blk>(x1);
            std::tie(iters, resid) = solve(Ab1, F, X1);
            require_truthful(c, "block_matrix+amg<block>+cg, other matrix", A1, f, x1, iters, resid, tol, maxiter, conv);
        }
        // the level-0 matrix of the hierarchy is the same operator
        require_block_entries(solve.system_matrix(), ScalarView(A), "amg<block>::system_matrix", true);
        std::ostringstream os; os << solve.precond(); std::string s = os.str();
        size_t pos = s.find("Number of levels:"); if (pos != std::string::npos) levels_seen = static_cast<size_t>(std::atoi(s.c_str() + pos + 17));
        c.label("levels=" + std::to_string(std::min<size_t>(levels_seen, 4)));
    });
    guarded("tuple", [&]() {   // 2. user-assembled block values (block-valued tuple), two-argument call
        ab::crs<blk> Bc(Ab);
        Csr<blk> Bt = from_crs(Bc);
        auto At = std::tie(nb, Bt.ptr, Bt.col, Bt.val);
        typedef amgcl::make_solver<AmgBlock, amgcl::solver::bicgstab<BB>> Solver;
        Solver::params p; set_common<Solver>(p, tol, maxiter, ce);
        Solver solve(At, p);
        std::vector<rhsb> F = blocked(f), X(nb, amgcl::math::zero<rhsb>());
        std::tie(iters, resid) = solve(F, X);
        require_truthful(c, "block tuple+amg<block>+bicgstab", A, f, flat(X), iters, resid, tol, maxiter, conv);
    });
    guarded("make_block_solver", [&]() {   // 3. make_block_solver: scalar matrix and scalar vectors in, block solver inside
        typedef amgcl::make_block_solver<AmgBlock, amgcl::solver::bicgstab<BB>> Solver;
        Solver::params p; p.solver.tol = tol; p.solver.maxiter = maxiter; p.precond.coarse_enough = static_cast<unsigned>(ce);
        Solver solve(As, p);
        std::vector<double> x(n, 0.0);
        std::tie(iters, resid) = solve(f, x);
        require_truthful(c, "make_block_solver", A, f, x, iters, resid, tol, maxiter, conv);
        // three-argument form with the block adapter as the system matrix
        std::vector<double> x2(n, 0.0);
        std::tie(iters, resid) = solve(Ab, f, x2);
        require_truthful(c, "make_block_solver(A,f,x)", A, f, x2, iters, resid, tol, maxiter, conv);
        // three-argument form with a matrix that differs from the setup matrix: block adapter and plain scalar tuple
        std::vector<double> x3(n, 0.0);
        std::tie(iters, resid) = solve(Ab1, f, x3);
        require_truthful(c, "make_block_solver(A1,f,x)", A1, f, x3, iters, resid, tol, maxiter, conv);
    });
    guarded("as_scalar", [&]() {   // 4. coarsening::as_scalar (tutorial/5.Nullspace/nullspace_block.cpp): scalar coarsening of a block matrix
        typedef amgcl::make_solver<AmgAsScalar, amgcl::solver::bicgstab<BB>> Solver;
        Solver::params p; set_common<Solver>(p, tol, maxiter, ce);
        p.precond.coarsening.aggr.block_size = B; // transfer operators must be convertible back to B x B blocks
        Solver solve(Ab, p);
        std::vector<double> x(n, 0.0);
        auto F = ab::reinterpret_as_rhs<blk>(f); auto X = ab::reinterpret_as_rhs<blk>(x);
        std::tie(iters, resid) = solve(Ab, F, X);
        require_truthful(c, "as_scalar<SA>+ilu0", A, f, x, iters, resid, tol, maxiter, conv);
    });
    guarded("hybrid", [&]() {   // 5. hybrid backend (tutorial/5.Nullspace/nullspace_hybrid.cpp): scalar setup, block storage; solve(A, rhs, x)
        typedef amgcl::make_solver<AmgHybrid, amgcl::solver::cg<HB>> Solver;
        Solver::params p; set_common<Solver>(p, tol, maxiter, ce * B);
        p.precond.coarsening.aggr.block_size = B;
        Solver solve(As, p);
        std::vector<double> x(n, 0.0);
        std::tie(iters, resid) = solve(As, f, x);
        require_truthful(c, "builtin_hybrid+spai0+cg", A, f, x, iters, resid, tol, maxiter, conv);
        require_block_entries(solve.system_matrix(), ScalarView(A), "amg<builtin_hybrid>::system_matrix", true);
        std::vector<double> x2(n, 0.0);
        std::tie(iters, resid) = solve(f, x2);  // iterates on the block copy held by the preconditioner
        require_truthful(c, "builtin_hybrid+spai0+cg(f,x)", A, f, x2, iters, resid, tol, maxiter, conv);
        std::vector<double> x3(n, 0.0);
        std::tie(iters, resid) = solve(As1, f, x3);
        require_truthful(c, "builtin_hybrid+spai0+cg, other matrix", A1, f, x3, iters, resid, tol, maxiter, conv);
    });
    guarded("as_block", [&]() {   // 6. relaxation::as_block: block ILU(0) as smoother inside the hybrid hierarchy
        typedef amgcl::make_solver<AmgAsBlock, amgcl::solver::bicgstab<HB>> Solver;
        Solver::params p; set_common<Solver>(p, tol, maxiter, ce * B);
        p.precond.coarsening.aggr.block_size = B;
        Solver solve(As, p);
        std::vector<double> x(n, 0.0);
        std::tie(iters, resid) = solve(As, f, x);
        require_truthful(c, "builtin_hybrid+as_block<ilu0>", A, f, x, iters, resid, tol, maxiter, conv);
    });
}

static std::vector<Prop> props() {
    return {
        Prop("representation", prop_representation, 500, 6000, 100, 60, {1}, 2, 4),
        Prop("solve", prop_solve, 300, 4000, 100, 100, {1}, 3, 8),
    };
}
static std::vector<Enum> enums() { return {}; }

VF_MAIN(props(), enums())
