// C05 — finite termination of all eight methods, complex systems. Body: c05_krylov.hpp (rev 3)
#include "c05_krylov.hpp"
static std::vector<vf::Prop> props() { return c05::props_fterm<std::complex<double>>("complex"); }
static std::vector<vf::Enum> enums() { return {}; }
VF_MAIN(props(), enums())
