// C05 — each Krylov method produces its defining iterates.   (body shared by the real and the complex TU)
//
// Observation: amgcl::make_solver<Precond, Solver>::operator()(rhs, x) with maxiter = k, tol = 0, abstol = 0.
// Oracles: (a) textbook long-double reference solvers (c05_refsolvers.hpp, no amgcl code) for CG, BiCGStab (both
// sides), GMRES(M) (both sides), FGMRES(M), Richardson;  (b) dense least-squares optimality (Eigen, long double):
// CG minimises the A-norm error over x0 + K_k(MA, M r0); GMRES / FGMRES / LGMRES (first cycle) return the minimal
// residual norm over the Krylov space, non-increasing in k;  (c) finite termination within n (+ceil(n/s) for IDR(s),
// +L-1 for BiCGStab(L), which advances L steps at a time) iterations with the exact or the identity preconditioner.
//
// Tolerances.  u = 2^-53.  Iterates: |x_k - x_k^ref| <= C_X u kappa2(A) kappa2(M) (k+1) max_j<=k |x_j|  +  C_T max_j<=k |x_j^ref(double) - x_j^ref(long double)|,
// the second term being the measured sensitivity of the iterates to rounding (the same textbook recurrence run in
// double): BiCGStab near a small (r^,v) or GMRES close to an invariant subspace amplify rounding by factors that no
// a-priori kappa bound covers, and once amplified, different rounding patterns diverge exponentially, so iterates are
// compared only while the measured divergence is below 1e-12 max|x_j| (the tolerance then stays below ~1e-8 relative).
// A wrong coefficient changes x_k by O(|x_k - x_0|), many orders above either term.
#pragma once
#include <complex>
#include <amgcl/backend/builtin.hpp>
#include <amgcl/value_type/complex.hpp>
#include <amgcl/make_solver.hpp>
#include <amgcl/preconditioner/dummy.hpp>
#include <amgcl/solver/cg.hpp>
#include <amgcl/solver/bicgstab.hpp>
#include <amgcl/solver/bicgstabl.hpp>
#include <amgcl/solver/gmres.hpp>
#include <amgcl/solver/fgmres.hpp>
#include <amgcl/solver/lgmres.hpp>
#include <amgcl/solver/idrs.hpp>
#include <amgcl/solver/richardson.hpp>
#include <Eigen/Dense>
#include "../common/harness.hpp"
#include "../common/gen.hpp"
#include "../common/dense.hpp"
#include "../common/amgcl_util.hpp"
#include "c05_refsolvers.hpp"

namespace c05 {
using namespace vf;
typedef std::complex<double> cplx;
static const double U = 1.1102230246251565e-16; // 2^-53

// calibration aid: C05_CALIB=1 prints the largest observed error / tolerance-scale ratios at exit
struct Calib {
    std::map<std::string, double> mx;
    bool on = getenv("C05_CALIB") != nullptr;
    void see(const std::string &k, double r) { if (on) { double &m = mx[k]; if (r > m) m = r; } }
    ~Calib() { if (on) for (auto &kv : mx) fprintf(stderr, "CALIB %s %.3g\n", kv.first.c_str(), kv.second); }
};
static Calib calib;

template <class V> struct VT;
template <> struct VT<double> {
    typedef long double S; typedef double D; static const bool complex = false;
    static const char *name() { return "real"; }
    static double phase(Tape &t, bool allow_neg) { return (allow_neg && t.chance(1, 3)) ? -1.0 : 1.0; }
};
template <> struct VT<cplx> {
    typedef std::complex<long double> S; typedef cplx D; static const bool complex = true;
    static const char *name() { return "complex"; }
    static cplx phase(Tape &t, bool) { double a = t.uni(0, 6.283185307179586); return cplx(std::cos(a), std::sin(a)); }
};
template <class T> inline T cj(const T &x) { return x; }
template <class T> inline std::complex<T> cj(const std::complex<T> &x) { return std::conj(x); }

// ---------------------------------------------------------------- user-defined preconditioner: applies a dense matrix
template <class Backend>
struct dense_precond {
    typedef Backend backend_type;
    typedef typename Backend::matrix matrix;
    typedef typename Backend::vector vector;
    typedef typename Backend::value_type value_type;
    typedef typename Backend::col_type col_type;
    typedef typename Backend::ptr_type ptr_type;
    typedef typename Backend::params backend_params;
    typedef typename amgcl::backend::builtin<value_type, col_type, ptr_type>::matrix build_matrix;
    struct params {
        std::shared_ptr<std::vector<value_type>> M; // row-major n x n
        params() {}
    } prm;
    dense_precond(std::shared_ptr<build_matrix> A, const params &p = params(), const backend_params &bp = backend_params())
        : prm(p), A_(Backend::copy_matrix(A, bp)) {}
    template <class V1, class V2>
    void apply(const V1 &rhs, V2 &&x) const {
        const std::vector<value_type> &M = *prm.M;
        size_t n = amgcl::backend::rows(*A_);
        for (size_t i = 0; i < n; ++i) { value_type s = value_type(); for (size_t j = 0; j < n; ++j) s += M[i * n + j] * rhs[j]; x[i] = s; }
    }
    std::shared_ptr<matrix> system_matrix_ptr() const { return A_; }
    const matrix &system_matrix() const { return *A_; }
    size_t bytes() const { return 0; }
    friend std::ostream &operator<<(std::ostream &os, const dense_precond &) { return os << "dense"; }
    std::shared_ptr<matrix> A_;
};

// ---------------------------------------------------------------- one generated system
template <class V>
struct Case {
    typedef typename VT<V>::S S;
    int n = 0;
    Csr<V> A;
    std::string fam;
    bool hpd = false;
    int pkind = 0;                        // 0 identity, 1 exact, 2 Jacobi, 3 random SPD/HPD
    std::shared_ptr<std::vector<V>> M;    // dense preconditioner in the library's value type
    std::vector<V> b, x0;
    double kappaA = 1, kappaM = 1;
    ref::Mat<S> Ad, Md;                   // long-double images of the same double data
    ref::Vec<S> bd, x0d;
    const ref::Mat<S> *Mp() const { return pkind ? &Md : nullptr; }
    static const char *pname(int k) { return k == 0 ? "identity" : k == 1 ? "exact" : k == 2 ? "jacobi" : "randspd"; }
};

template <class V>
double kappa2(const std::vector<V> &a, int n) { // sqrt(lambda_max / lambda_min) of A^H A: relative accuracy ~ kappa^2 u, ample for kappa <= 100
    typedef Eigen::Matrix<std::complex<double>, Eigen::Dynamic, Eigen::Dynamic> EMc;
    EMc E(n, n);
    for (int i = 0; i < n; ++i) for (int j = 0; j < n; ++j) E(i, j) = a[static_cast<size_t>(i) * n + j];
    EMc G = E.adjoint() * E;
    Eigen::SelfAdjointEigenSolver<EMc> es(G, Eigen::EigenvaluesOnly);
    double lo = es.eigenvalues()(0), hi = es.eigenvalues()(n - 1);
    return lo > 0 ? std::sqrt(hi / lo) : 1e300;
}

// value helpers that work for both real and complex V
template <class V> V make_val(double re, double im);
template <> inline double make_val<double>(double re, double) { return re; }
template <> inline cplx make_val<cplx>(double re, double im) { return cplx(re, im); }

template <class V>
std::vector<V> gen_rhs_vec(Tape &t, int n, bool nonzero) {
    int kind = static_cast<int>(t.u(0, 2));
    std::vector<V> x(n);
    bool any = false;
    for (int i = 0; i < n; ++i) {
        double re, im = 0;
        switch (kind) {
        case 0: re = static_cast<double>(t.u(-3, 3)); if (VT<V>::complex) im = static_cast<double>(t.u(-3, 3)); break;
        case 1: re = t.uni(-1, 1); if (VT<V>::complex) im = t.uni(-1, 1); break;
        default: re = t.slogu(1e-2, 1e2); if (VT<V>::complex) im = t.slogu(1e-2, 1e2); break;
        }
        x[i] = make_val<V>(re, im);
        any = any || re != 0 || im != 0;
    }
    if (nonzero && !any) x[0] = V(1);
    return x;
}

// Constructive well-conditioned matrices: A = S1 (d * Phi + N) S2 with |N|_2 <= R := max(max row sum, max column sum of |N|),
// Phi a unitary diagonal, S1, S2 diagonal scalings with entries in [1, 1.5]:  d = (1 + delta) R  =>  kappa2 <= 2.25 (2 + delta)/delta,
// so a large d is always well conditioned; d is then reduced while the measured kappa2 stays below a log-uniform target in [1.2, 95].
// want: 0 hermitian positive definite, 1 general, 2 general with positive definite Hermitian part ("positive real":
// mu := lambda_min((A + A^H)/2) / sigma_max(A) >= 0.1, the matrices on which the one-step minimal-residual polynomial of
// BiCGStab-type methods cannot break down)
template <class V>
void gen_system(Tape &t, Case<V> &c, int want, int nmax = 40) {
    typedef typename VT<V>::S S;
    bool dense = t.chance(1, 5);
    bool hpd = want == 0;
    int n;
    std::vector<std::map<ptrdiff_t, V>> rows;
    if (dense) {
        n = static_cast<int>(t.u(1, 8));
        rows.assign(n, std::map<ptrdiff_t, V>());
        for (int i = 0; i < n; ++i) for (int j = i + 1; j < n; ++j) {
            V v = make_val<V>(t.uni(-1, 1), t.uni(-1, 1));
            rows[i][j] = v;
            rows[j][i] = hpd ? cj(v) : make_val<V>(t.uni(-1, 1), t.uni(-1, 1));
        }
        c.fam = "dense";
    } else {
        Graph g = gen_graph(t, nmax);
        n = g.n;
        rows.assign(n, std::map<ptrdiff_t, V>());
        int vmode = static_cast<int>(t.u(0, 2)); // 0 negative off-diagonals (M-matrix like), 1 mixed signs / phases, 2 small integers
        for (auto &e : g.edges) {
            auto val = [&]() {
                double m = vmode == 2 ? t.ival(1, 4) : t.logu(0.1, 1.0);
                if (VT<V>::complex && vmode != 0) { double a = t.uni(0, 6.283185307179586); return make_val<V>(m * std::cos(a), m * std::sin(a)); }
                if (vmode == 0) return make_val<V>(-m, 0);
                return make_val<V>(t.b() ? -m : m, 0);
            };
            V v = val();
            if (hpd) { rows[e.first][e.second] = v; rows[e.second][e.first] = cj(v); }
            else {
                V w = val();
                bool d1 = t.chance(1, 6), d2 = t.chance(1, 6); // structural non-symmetry
                if (!d1) rows[e.first][e.second] = v;
                if (!d2) rows[e.second][e.first] = w;
            }
        }
        c.fam = g.family;
    }
    std::vector<double> rs(n, 0.0), cs(n, 0.0);
    for (int i = 0; i < n; ++i) for (auto &kv : rows[i]) { rs[i] += std::abs(kv.second); cs[kv.first] += std::abs(kv.second); }
    double R = 0;
    for (int i = 0; i < n; ++i) R = std::max(R, std::max(rs[i], cs[i]));
    if (R == 0) R = 1;
    bool posreal = want == 2;
    bool allow_neg = !hpd && !posreal && t.chance(1, 4);
    std::vector<V> phi(n);
    for (int i = 0; i < n; ++i) {
        if (hpd) phi[i] = make_val<V>(1, 0);
        else if (posreal) { double a = VT<V>::complex ? t.uni(-1.0, 1.0) : 0.0; phi[i] = make_val<V>(std::cos(a), std::sin(a)); }
        else phi[i] = V(VT<V>::phase(t, allow_neg));
    }
    bool scaled = t.b();
    std::vector<double> s1(n, 1.0), s2(n, 1.0);
    if (scaled) for (int i = 0; i < n; ++i) { s1[i] = t.uni(1.0, 1.5); s2[i] = hpd ? s1[i] : t.uni(1.0, 1.5); }
    // choose the diagonal weight d so that kappa2 lands near a log-uniform target <= 95 (measured with Eigen while constructing):
    // start from a d for which the bound above holds and shrink it geometrically while the measured kappa2 stays below the target.
    double ktarget = t.logu(1.2, 95.0);
    if (calib.on && getenv("C05_KMIN")) ktarget = std::max(ktarget, atof(getenv("C05_KMIN"))); // calibration soaks only
    typedef Eigen::Matrix<std::complex<double>, Eigen::Dynamic, Eigen::Dynamic> EMc;
    EMc N0 = EMc::Zero(n, n);
    for (int i = 0; i < n; ++i) for (auto &kv : rows[i]) N0(i, kv.first) = s1[i] * s2[kv.first] * std::complex<double>(kv.second);
    auto kap = [&](double d) {
        EMc E = N0;
        for (int i = 0; i < n; ++i) E(i, i) = d * s1[i] * s2[i] * std::complex<double>(phi[i]);
        if (hpd) { Eigen::SelfAdjointEigenSolver<EMc> es(E, Eigen::EigenvaluesOnly); double lo = es.eigenvalues()(0), hi = es.eigenvalues()(n - 1); return lo > 0 ? hi / lo : 1e300; }
        EMc G = E.adjoint() * E;
        Eigen::SelfAdjointEigenSolver<EMc> es(G, Eigen::EigenvaluesOnly); double lo = es.eigenvalues()(0), hi = es.eigenvalues()(n - 1);
        if (posreal) {
            EMc H = (E + E.adjoint()) * 0.5;
            Eigen::SelfAdjointEigenSolver<EMc> eh(H, Eigen::EigenvaluesOnly);
            if (!(eh.eigenvalues()(0) >= 0.1 * std::sqrt(hi))) return 1e300;
        }
        return lo > 0 ? std::sqrt(hi / lo) : 1e300;
    };
    double d = 3 * R;
    for (int it = 0; it < 12 && kap(d) > ktarget; ++it) d *= 1.6;
    for (int it = 0; it < 40; ++it) { double d2 = d * 0.88; if (kap(d2) <= ktarget) d = d2; else break; }
    for (int i = 0; i < n; ++i) rows[i][i] = V(d) * phi[i];
    for (int i = 0; i < n; ++i) for (auto &kv : rows[i]) kv.second = V(s1[i] * s2[kv.first]) * kv.second;
    c.n = n; c.hpd = hpd;
    c.A = from_triplets<V>(n, n, rows);
    c.fam += hpd ? "/hpd" : posreal ? "/posreal" : "/gen";
    c.Ad = ref::Mat<S>(n);
    std::vector<V> Afull(static_cast<size_t>(n) * n, V());
    for (int i = 0; i < n; ++i) for (auto &kv : rows[i]) { c.Ad(i, static_cast<int>(kv.first)) = S(kv.second); Afull[static_cast<size_t>(i) * n + kv.first] = kv.second; }
    c.kappaA = kappa2(Afull, n);
}

template <class V>
void gen_precond(Tape &t, Case<V> &c, int kind) {
    typedef typename VT<V>::S S;
    int n = c.n;
    c.pkind = kind;
    c.kappaM = 1;
    if (kind == 0) return;
    auto M = std::make_shared<std::vector<V>>(static_cast<size_t>(n) * n, V());
    if (kind == 1) {
        ref::Mat<S> inv;
        bool ok = ref::inverse(c.Ad, inv);
        (void)ok;
        for (int i = 0; i < n; ++i) for (int j = 0; j < n; ++j) (*M)[static_cast<size_t>(i) * n + j] = V(inv(i, j));
        if (c.hpd) for (int i = 0; i < n; ++i) for (int j = i; j < n; ++j) { // keep the rounded inverse exactly Hermitian
            V a = (*M)[static_cast<size_t>(i) * n + j], b = cj((*M)[static_cast<size_t>(j) * n + i]);
            V m = (a + b) * 0.5; if (i == j) m = V(std::real(m));
            (*M)[static_cast<size_t>(i) * n + j] = m; (*M)[static_cast<size_t>(j) * n + i] = cj(m);
        }
    } else if (kind == 2) {
        for (int i = 0; i < n; ++i) (*M)[static_cast<size_t>(i) * n + i] = V(S(1) / c.Ad(i, i));
    } else {
        // Hermitian positive definite: dm I + N, N Hermitian with |N|_inf = R, dm = (1 + deltam) R, deltam >= 0.5  =>  kappa <= 5
        std::vector<double> rs(n, 0.0);
        for (int i = 0; i < n; ++i) for (int j = i + 1; j < n; ++j) {
            V v = t.chance(1, 3) ? V() : make_val<V>(t.uni(-1, 1), t.uni(-1, 1));
            (*M)[static_cast<size_t>(i) * n + j] = v; (*M)[static_cast<size_t>(j) * n + i] = cj(v);
            rs[i] += std::abs(v); rs[j] += std::abs(v);
        }
        double R = 0; for (double r : rs) R = std::max(R, r);
        if (R == 0) R = 1;
        double dm = (1 + t.uni(0.5, 3.0)) * R;
        for (int i = 0; i < n; ++i) (*M)[static_cast<size_t>(i) * n + i] = make_val<V>(dm, 0);
        // overall size comparable with A^-1 (so that Richardson / omega stay in a sensible range)
        double sc = t.logu(0.3, 3.0) / (dm * std::abs(c.Ad(0, 0)));
        for (auto &v : *M) v *= sc;
    }
    c.M = M;
    c.Md = ref::Mat<S>(n);
    for (int i = 0; i < n; ++i) for (int j = 0; j < n; ++j) c.Md(i, j) = S((*M)[static_cast<size_t>(i) * n + j]);
    c.kappaM = kappa2(*M, n);
}

template <class V>
void gen_vectors(Tape &t, Case<V> &c) {
    typedef typename VT<V>::S S;
    c.b = gen_rhs_vec<V>(t, c.n, true);
    c.x0 = gen_rhs_vec<V>(t, c.n, true);
    c.bd.assign(c.n, S()); c.x0d.assign(c.n, S());
    for (int i = 0; i < c.n; ++i) { c.bd[i] = S(c.b[i]); c.x0d[i] = S(c.x0[i]); }
}

template <class V>
std::string describe_case(const Case<V> &c) {
    std::ostringstream os;
    os << VT<V>::name() << " " << c.fam << " n=" << c.n << " nnz=" << c.A.nnz() << " kappa2(A)=" << c.kappaA << " precond=" << Case<V>::pname(c.pkind) << " kappa2(M)=" << c.kappaM;
    os << " A=" << dump_small(c.A, 6);
    if (c.n <= 6) { os << " b={"; for (auto &v : c.b) os << v << " "; os << "} x0={"; for (auto &v : c.x0) os << v << " "; os << "}"; }
    return os.str();
}

template <class V> bool complex_nonhermitian(const Case<V> &c) { return VT<V>::complex && !(c.hpd && c.pkind == 0); }
// returns true when the case is inside the domain; labels the conditioning
template <class V>
bool in_domain(const Case<V> &c, Ctx &ctx) {
    ctx.label(std::string("val:") + VT<V>::name());
    ctx.label("fam:" + c.fam);
    ctx.label(std::string("precond:") + Case<V>::pname(c.pkind));
    ctx.label(c.kappaA <= 3 ? "kappa<=3" : c.kappaA <= 10 ? "kappa<=10" : c.kappaA <= 30 ? "kappa<=30" : c.kappaA <= 100 ? "kappa<=100" : "kappa>100");
    ctx.label(c.n <= 3 ? "n<=3" : c.n <= 10 ? "n<=10" : c.n <= 25 ? "n<=25" : "n<=40");
    if (VT<V>::complex) ctx.label(complex_nonhermitian(c) ? "complex:non-hermitian-operator" : "complex:hermitian+identity");
    if (!(c.kappaA <= 100)) { ctx.excluded = "domain:kappa2(A)>100"; return false; } // never expected: the construction bounds kappa
    return true;
}

// ---------------------------------------------------------------- running amgcl
template <class V>
struct Out { size_t iters = 0; double resid = 0; std::vector<V> x; std::string threw; };

// capture = true: a std::runtime_error thrown by the solver (the library's "breakdown" preconditions) is recorded in
// Out::threw together with the state of x at that moment (the solvers update x in place); the caller decides whether the
// breakdown is admissible (only the finite-termination prop does: when x already is the solution).  Otherwise it propagates.
template <class SolverT, class V>
Out<V> run_amgcl(const Case<V> &c, const typename SolverT::params &sp, bool capture = false) {
    typedef amgcl::backend::builtin<V> B;
    auto A = to_crs<V>(c.A);
    Out<V> o; o.x = c.x0;
    try {
    if (c.pkind == 0) {
        typedef amgcl::make_solver<amgcl::preconditioner::dummy<B>, SolverT> MS;
        typename MS::params prm; prm.solver = sp;
        MS S(A, prm);
        auto r = S(c.b, o.x);
        o.iters = std::get<0>(r); o.resid = std::get<1>(r);
    } else {
        typedef amgcl::make_solver<dense_precond<B>, SolverT> MS;
        typename MS::params prm; prm.solver = sp; prm.precond.M = c.M;
        MS S(A, prm);
        auto r = S(c.b, o.x);
        o.iters = std::get<0>(r); o.resid = std::get<1>(r);
    }
    } catch (const std::runtime_error &e) { if (!capture) throw; o.threw = e.what(); }
    return o;
}

// The same library templates instantiated for the extended value type (long double / complex<long double>) on the
// same data: lets the finite-termination claim, a statement about exact arithmetic, be tested on the library's own
// recurrences with rounding pushed from 1e-16 to 5e-20.
template <template <class, class> class SolverTT, class V, class SetP>
Out<typename VT<V>::S> run_amgcl_ext(const Case<V> &c, const SetP &setp) {
    typedef typename VT<V>::S X;
    typedef amgcl::backend::builtin<X> B;
    typedef SolverTT<B, amgcl::solver::detail::default_inner_product> SolverT;
    Csr<X> Ax; Ax.n = c.A.n; Ax.m = c.A.m; Ax.ptr = c.A.ptr; Ax.col = c.A.col; Ax.val.assign(c.A.val.begin(), c.A.val.end());
    auto A = to_crs<X>(Ax);
    Out<X> o; o.x.assign(c.x0d.begin(), c.x0d.end());
    std::vector<X> b(c.bd.begin(), c.bd.end());
    typename SolverT::params sp; setp(sp);
    try {
    if (c.pkind == 0) {
        typedef amgcl::make_solver<amgcl::preconditioner::dummy<B>, SolverT> MS;
        typename MS::params prm; prm.solver = sp;
        MS S(A, prm);
        auto r = S(b, o.x);
        o.iters = std::get<0>(r); o.resid = static_cast<double>(std::get<1>(r));
    } else {
        typedef amgcl::make_solver<dense_precond<B>, SolverT> MS;
        typename MS::params prm; prm.solver = sp;
        prm.precond.M = std::make_shared<std::vector<X>>(c.Md.a.begin(), c.Md.a.end());
        MS S(A, prm);
        auto r = S(b, o.x);
        o.iters = std::get<0>(r); o.resid = static_cast<double>(std::get<1>(r));
    }
    } catch (const std::runtime_error &e) { o.threw = e.what(); }
    return o;
}

template <class V, class S>
long double dist(const std::vector<V> &x, const ref::Vec<S> &y) {
    long double s = 0;
    for (size_t i = 0; i < x.size(); ++i) s += ref::abs2(S(x[i]) - y[i]);
    return std::sqrt(s);
}
template <class S, class S2>
long double dist2(const ref::Vec<S> &x, const ref::Vec<S2> &y) {
    long double s = 0;
    for (size_t i = 0; i < x.size(); ++i) s += ref::abs2(x[i] - S(y[i]));
    return std::sqrt(s);
}

// double-precision twin of a case (same data) for the sensitivity estimate
template <class V>
struct Twin {
    typedef typename VT<V>::D D;
    ref::Mat<D> A, M; ref::Vec<D> b, x0; bool has_m;
    explicit Twin(const Case<V> &c) : A(c.n), M(c.pkind ? c.n : 0), b(c.b.begin(), c.b.end()), x0(c.x0.begin(), c.x0.end()), has_m(c.pkind != 0) {
        for (int i = 0; i < c.n; ++i) for (int j = 0; j < c.n; ++j) { A(i, j) = D(c.Ad(i, j)); if (has_m) M(i, j) = D(c.Md(i, j)); }
    }
    const ref::Mat<D> *Mp() const { return has_m ? &M : nullptr; }
};


static const double C_X = 64.0;   // (x8 for complex arithmetic) multiplies u * kappa2(A) * kappa2(M) * (k+1) * max|x_j|
static const double C_T = 1e4;    // multiplies the measured double-vs-long-double divergence of the reference recurrence
static const double SENS_CUT = 1e-12; // iterates are compared while that divergence stays below SENS_CUT * max|x_j| (tolerance <= ~1e-8 relative)
static const double BREAKDOWN_EPS = 1e-10; // reference BiCGStab divisor / (product of norms) below this: the recurrence breaks down in that step
static const double SUBSPACE_EPS = 1e-9; // k counts as "inside the Krylov subspace" while |r_{k-1}| > SUBSPACE_EPS |r_0|

// compare the amgcl iterate with the reference trace.
// returns 0 when k lies beyond the numerical subspace size (nothing asserted), 1 after a decisive comparison
// (tolerance < 1e-6 |x_k - x_0|), 2 after a comparison whose tolerance is dominated by the measured rounding sensitivity.
template <class V, class S, class D>
int compare_iterate(const Case<V> &c, const std::string &what, int k, const Out<V> &o, const ref::Trace<S> &tr, const ref::Trace<D> &tw, bool &moved) {
    if (k >= static_cast<int>(tr.x.size()) || k >= static_cast<int>(tw.x.size())) return 0;              // reference broke down (exact zero divisor)
    if (!(tr.rn[k - 1] > SUBSPACE_EPS * tr.rn[0])) return 0;
    long double xmax = 0;
    for (int j = 0; j <= k; ++j) xmax = std::max(xmax, ref::nrm2(tr.x[j]));
    // measured rounding sensitivity: largest divergence so far between the textbook recurrence run in double and in long double
    long double sens = 0;
    for (int j = 1; j <= k; ++j) sens = std::max(sens, dist2(tr.x[j], tw.x[j]));
    // once the recurrence itself has amplified rounding by more than ~1e4 (BiCGStab near a breakdown) different
    // rounding patterns diverge exponentially and later iterates are no longer comparable: stop, nothing asserted from here on
    if (sens > SENS_CUT * xmax) return 0;
    long double base = U * c.kappaA * c.kappaM * (k + 1) * xmax;
    long double tol = (VT<V>::complex ? 8 : 1) * C_X * base + C_T * sens;
    long double err = dist(o.x, tr.x[k]);
    long double step = dist2(tr.x[k], tr.x[0]);
    if (getenv("C05_TRACE")) fprintf(stderr, "TRACE %s k=%d err=%.3Lg sens=%.3Lg base=%.3Lg xmax=%.3Lg step=%.3Lg\n", what.c_str(), k, err, sens, base, xmax, step);
    calib.see(what + ":err/(u kA kM (k+1) xmax)", static_cast<double>(err / base));
    calib.see(what + ":err/tol", static_cast<double>(err / tol));
    VF_REQUIRE(o.iters == static_cast<size_t>(k), what << ": maxiter=" << k << " but the solver reports " << o.iters << " iterations");
    VF_REQUIRE(err <= tol, what << ": iterate " << k << " differs from the reference: |x_k - x_k^ref| = " << static_cast<double>(err)
               << " > tol " << static_cast<double>(tol) << " (|x_k - x_0| = " << static_cast<double>(step) << ", rounding sensitivity " << static_cast<double>(sens) << ")");
    if (dist(o.x, tr.x[0]) > 0) moved = true;
    return tol < 1e-6L * step ? 1 : 2;
}

// The k-th iterate exists only while the method has not converged / broken down: once the reference recurrence has an
// exactly zero divisor (trace shorter than k) or a numerically zero residual before step k, "the k-th iterate of the
// algorithm" is undefined (the library then divides rounding noise by rounding noise or raises its breakdown exception,
// e.g. "Zero omega in BiCGStab" on A = c I one step after the exact solution was reached), so the solver is not run for
// such k.  Counted with the label below.
template <class S, class D>
bool iterate_exists(int k, const ref::Trace<S> &tr, const ref::Trace<D> &tw, Ctx &ctx) {
    if (getenv("C05_TRACE") && k < static_cast<int>(tr.cond.size()) && k < static_cast<int>(tw.cond.size())) fprintf(stderr, "TRACE cond k=%d ld=%.3Lg dbl=%.3g\n", k, static_cast<long double>(tr.cond[k]), static_cast<double>(tw.cond[k]));
    bool ok = k < static_cast<int>(tr.x.size()) && k < static_cast<int>(tw.x.size()) && tr.rn[k - 1] > SUBSPACE_EPS * tr.rn[0];
    // BiCGStab: a divisor (r^,r), (r^,v) or (t,s) that vanishes relative to the norms of its factors is a breakdown of the
    // recurrence itself (in exact arithmetic a division by zero; the library raises "Zero rho/omega" when it hits 0 exactly)
    if (ok && !tr.cond.empty() && !(tr.cond[k] > BREAKDOWN_EPS && tw.cond[k] > BREAKDOWN_EPS)) ok = false;
    if (!ok) ctx.label("stopped:reference-converged-or-broke-down");
    return ok;
}

// bookkeeping shared by the iterate props
struct Count {
    int decisive = 0, loose = 0;
    void add(int r) { if (r == 1) ++decisive; else if (r == 2) ++loose; }
    void finish(Ctx &ctx, bool moved) {
        ctx.nontrivial = decisive >= 2 && moved;
        ctx.label(decisive >= 2 ? "compared>=2" : "compared<2");
        ctx.label(decisive >= 10 ? "compared>=10" : "compared<10");
        if (loose) ctx.label("some-k-rounding-sensitive");
    }
};

// preconditioner kinds, identity/Jacobi/random twice as likely as exact (which converges in one step)
inline int pick_precond(Tape &t) { static const int kinds[] = {0, 2, 3, 1, 0, 2, 3}; return kinds[t.u(0, 6)]; }

// Regressions (replay/C05/): complex BiCGStab used conjugated coefficients (fixed in /repo by 07c1c61), IDR(s) a conjugated
// omega / smoothing gamma (ca77d68), the GMRES family non-unitary complex plane rotations (e99f835), BiCGStab(L >= 2) a
// symmetric instead of Hermitian Gram matrix (2aa2d99).  All of them coincided with the textbook methods whenever every
// inner product is real (real value type, or Hermitian matrix with the identity preconditioner), which is why the complex
// translation units draw non-Hermitian and preconditioned complex systems most of the time.
// family / preconditioner choice of the non-symmetric solvers
template <class V> int pick_family(Tape &t) { return t.chance(1, 4) ? 0 : 1; }
template <class V> int pick_precond_ns(Tape &t, const Case<V> &) { return pick_precond(t); }

template <class P> void zero_tol(P &p, size_t k) { p.maxiter = k; p.tol = 0; p.abstol = 0; }

// ================================================================= CG
template <class V>
void prop_cg(Tape &t, Ctx &ctx) {
    typedef typename VT<V>::S S; typedef typename VT<V>::D D;
    typedef amgcl::solver::cg<amgcl::backend::builtin<V>> Solver;
    Case<V> c;
    gen_system(t, c, 0);
    gen_precond(t, c, pick_precond(t));
    gen_vectors(t, c);
    int K = std::min(c.n, static_cast<int>(t.u(0, 2)) == 0 ? 6 : 40);
    ctx.desc << "cg " << describe_case(c) << " K=" << K;
    if (!in_domain(c, ctx)) return;
    ref::Trace<S> tr = ref::pcg<S>(c.Ad, c.Mp(), c.bd, c.x0d, K);
    Twin<V> w(c);
    ref::Trace<D> tw = ref::pcg<D>(w.A, w.Mp(), w.b, w.x0, K);
    // exact solution for the optimality oracle
    ref::Mat<S> Ainv; ref::inverse(c.Ad, Ainv);
    ref::Vec<S> xs = ref::mul(Ainv, c.bd);
    long double xsA = ref::anorm(c.Ad, xs), x0A = ref::anorm(c.Ad, c.x0d);
    bool moved = false; Count cnt;
    for (int k = 1; k <= K; ++k) {
        if (!iterate_exists(k, tr, tw, ctx)) break;
        typename Solver::params sp; zero_tol(sp, k);
        Out<V> o = run_amgcl<Solver>(c, sp);
        int cr = compare_iterate(c, "cg", k, o, tr, tw, moved);
        if (!cr) break;
        cnt.add(cr);
        // optimality: A-norm of the error is minimal over x0 + K_k(MA, M r0)
        ref::Vec<S> e(c.n);
        for (int i = 0; i < c.n; ++i) e[i] = xs[i] - S(o.x[i]);
        long double ea = ref::anorm(c.Ad, e);
        long double emin = ref::cg_min_aerr<S>(c.Ad, c.Mp(), c.bd, c.x0d, xs, k);
        // same constants as the iterate tolerance (x8 for complex arithmetic): |x* - x_k|_A <= min + |x_k - x_k^ref|_A
        long double slack = (VT<V>::complex ? 8 : 1) * 64 * U * c.kappaA * c.kappaM * (k + 1) * (xsA + x0A);
        calib.see("cg-opt:(ea-emin)/(u kA kM (k+1)(|x*|_A+|x0|_A))", static_cast<double>((ea - emin) / (U * c.kappaA * c.kappaM * (k + 1) * (xsA + x0A))));
        VF_REQUIRE(ea <= (1 + 1e-8) * emin + slack, "cg: A-norm error of iterate " << k << " is " << static_cast<double>(ea) << ", minimum over the preconditioned Krylov space is "
                   << static_cast<double>(emin) << " (slack " << static_cast<double>(slack) << ")");
        VF_REQUIRE(ea >= emin * (1 - 1e-8) - slack, "cg: harness error, A-norm error " << static_cast<double>(ea) << " below the least-squares minimum " << static_cast<double>(emin));
    }
    cnt.finish(ctx, moved);
}

// ================================================================= BiCGStab (both sides)
template <class V>
void prop_bicgstab(Tape &t, Ctx &ctx) {
    typedef typename VT<V>::S S; typedef typename VT<V>::D D;
    typedef amgcl::solver::bicgstab<amgcl::backend::builtin<V>> Solver;
    Case<V> c;
    gen_system(t, c, pick_family<V>(t));
    gen_precond(t, c, pick_precond_ns(t, c));
    gen_vectors(t, c);
    bool left = t.b();
    int K = std::min(c.n, static_cast<int>(t.u(0, 2)) == 0 ? 6 : 40);
    ctx.desc << "bicgstab side=" << (left ? "left" : "right") << " " << describe_case(c) << " K=" << K;
    if (!in_domain(c, ctx)) return;
    ctx.label(left ? "side:left" : "side:right");
    ref::Sys<S> s; s.A = &c.Ad; s.M = c.Mp(); s.b = c.bd; s.left = left;
    ref::Trace<S> tr = ref::bicgstab<S>(s, c.x0d, K);
    Twin<V> w(c);
    ref::Sys<D> sw; sw.A = &w.A; sw.M = w.Mp(); sw.b = w.b; sw.left = left;
    ref::Trace<D> tw = ref::bicgstab<D>(sw, w.x0, K);
    bool moved = false; Count cnt;
    for (int k = 1; k <= K; ++k) {
        if (!iterate_exists(k, tr, tw, ctx)) break;
        typename Solver::params sp; zero_tol(sp, k);
        sp.pside = left ? amgcl::preconditioner::side::left : amgcl::preconditioner::side::right;
        Out<V> o = run_amgcl<Solver>(c, sp);
        int cr = compare_iterate(c, left ? "bicgstab-left" : "bicgstab-right", k, o, tr, tw, moved);
        if (!cr) break;
        cnt.add(cr);
    }
    cnt.finish(ctx, moved);
}

// ================================================================= GMRES(M) both sides, FGMRES(M), LGMRES(M,K) (three cycles)
template <class V>
void prop_gmres(Tape &t, Ctx &ctx) {
    typedef typename VT<V>::S S; typedef typename VT<V>::D D;
    typedef amgcl::backend::builtin<V> B;
    Case<V> c;
    gen_system(t, c, pick_family<V>(t));
    gen_precond(t, c, pick_precond_ns(t, c));
    gen_vectors(t, c);
    int variant = static_cast<int>(t.u(0, 4)); // 0 gmres right, 1 gmres left, 2 fgmres, 3 lgmres right, 4 lgmres left
    static const int Ms[] = {1, 2, 4, 40};
    int M = Ms[t.u(0, 3)];
    int Kaug = static_cast<int>(t.u(0, 3));    // LGMRES: number of augmentation vectors
    bool left = variant == 1 || variant == 4;
    bool lg = variant >= 3;
    int cycle = lg ? M + Kaug : M;             // length of the first cycle
    int K = std::min(c.n, static_cast<int>(t.u(0, 2)) == 0 ? 6 : 40);
    if (lg) K = std::min(c.n, 3 * cycle + 1);  // LGMRES: three complete cycles and the first step of the fourth (augmentation vectors in use from cycle 2 on)
    const char *vn[] = {"gmres-right", "gmres-left", "fgmres", "lgmres-right", "lgmres-left"};
    std::string what = vn[variant];
    ctx.desc << what << " M=" << M << (lg ? " K=" + std::to_string(Kaug) : std::string()) << " " << describe_case(c) << " kmax=" << K;
    if (!in_domain(c, ctx)) return;
    ctx.label("variant:" + what);
    ctx.label("M=" + std::to_string(M));
    ref::Sys<S> s; s.A = &c.Ad; s.M = c.Mp(); s.b = c.bd; s.left = left;
    Twin<V> w(c);
    ref::Sys<D> sw; sw.A = &w.A; sw.M = w.Mp(); sw.b = w.b; sw.left = left;
    ref::Trace<S> tr = lg ? ref::lgmres<S>(s, c.x0d, M, Kaug, K) : ref::gmres<S>(s, c.x0d, cycle, K, variant == 2);
    ref::Trace<D> tw = lg ? ref::lgmres<D>(sw, w.x0, M, Kaug, K) : ref::gmres<D>(sw, w.x0, cycle, K, variant == 2);
    // LGMRES: the order in which the stored corrections are appended (oldest first, as the code does) only matters for k inside
    // the augmented tail of a cycle with >= 2 stored corrections; such cases are labelled (reference run with the other order)
    ref::Trace<S> tr_alt; if (lg && Kaug >= 2) tr_alt = ref::lgmres<S>(s, c.x0d, M, Kaug, K, true);
    long double nb = ref::nrm2(c.bd);
    // scale of the rounding error of a computed (preconditioned) residual
    long double an = 0, mn = 0;
    for (int i = 0; i < c.n; ++i) { long double r1 = 0, r2 = 0; for (int j = 0; j < c.n; ++j) { r1 += std::abs(c.Ad(i, j)); if (c.pkind) r2 += std::abs(c.Md(i, j)); } an = std::max(an, r1); mn = std::max(mn, r2); }
    if (!c.pkind || !left) mn = 1;
    bool moved = false; Count cnt; bool restarted = false;
    double prev = -1, prev_cycle = -1;
    bool lg_aug = false, lg_order = false, lg_cyc = false;
    for (int k = 1; k <= K; ++k) {
        if (!iterate_exists(k, tr, tw, ctx)) break;
        Out<V> o;
        switch (variant) {
        case 0: case 1: { typedef amgcl::solver::gmres<B> Sv; typename Sv::params sp; zero_tol(sp, k); sp.M = M; sp.pside = left ? amgcl::preconditioner::side::left : amgcl::preconditioner::side::right; o = run_amgcl<Sv>(c, sp); break; }
        case 2: { typedef amgcl::solver::fgmres<B> Sv; typename Sv::params sp; zero_tol(sp, k); sp.M = M; o = run_amgcl<Sv>(c, sp); break; }
        default: { typedef amgcl::solver::lgmres<B> Sv; typename Sv::params sp; zero_tol(sp, k); sp.M = M; sp.K = Kaug; sp.pside = left ? amgcl::preconditioner::side::left : amgcl::preconditioner::side::right; o = run_amgcl<Sv>(c, sp); break; }
        }
        int cr = compare_iterate(c, what, k, o, tr, tw, moved);
        if (!cr) break;
        cnt.add(cr);
        if (k > cycle) restarted = true;
        long double xmax = 0; for (int j = 0; j <= k; ++j) xmax = std::max(xmax, ref::nrm2(tr.x[j]));
        long double rscale = 64 * U * c.kappaA * c.kappaM * (k + 1) * mn * (nb + an * xmax); // residual rounding + effect of the iterate tolerance
        // returned residual = least-squares minimum over the Krylov space (first cycle)
        if (k <= cycle) {
            long double lsmin = ref::gmres_lsmin<S>(s, c.x0d, k);
            long double got = static_cast<long double>(o.resid) * nb;
            calib.see(what + ":|res-lsmin|/rscale*64", static_cast<double>(std::abs(got - lsmin) / rscale * 64));
            VF_REQUIRE(std::abs(got - lsmin) <= rscale + 1e-8L * lsmin, what << ": returned residual " << static_cast<double>(got) << " (absolute) at k=" << k
                       << " but the least-squares minimum over the Krylov space is " << static_cast<double>(lsmin) << " (tol " << static_cast<double>(rscale) << ")");
        }
        // non-increasing in k
        if (prev >= 0) VF_REQUIRE(static_cast<long double>(o.resid) * nb <= static_cast<long double>(prev) * nb * (1 + 1e-12L) + rscale,
                                  what << ": returned residual increased from " << prev << " (k=" << k - 1 << ") to " << o.resid << " (k=" << k << ")");
        prev = o.resid;
        if (lg) {
            if (k >= 2 * cycle && Kaug > 0) lg_aug = true;
            if (k < static_cast<int>(tr_alt.x.size()) && dist2(tr.x[k], tr_alt.x[k]) > 1e-9L * xmax) lg_order = true;
            if (k % cycle == 0) { // end of a complete cycle: the residual must not increase from cycle to cycle
                if (prev_cycle >= 0) VF_REQUIRE(static_cast<long double>(o.resid) * nb <= static_cast<long double>(prev_cycle) * nb * (1 + 1e-12L) + rscale,
                                                what << ": residual at the end of cycle " << k / cycle << " (" << o.resid << ") exceeds the one at the end of cycle " << k / cycle - 1 << " (" << prev_cycle << ")");
                prev_cycle = o.resid;
                if (k / cycle >= 2) lg_cyc = true;
            }
        }
    }
    cnt.finish(ctx, moved);
    if (restarted) ctx.label("restarted");
    if (lg_aug) ctx.label("lgmres:augmentation-vector-used");
    if (lg_cyc) ctx.label("lgmres:cycles>=2");
    if (lg_order) ctx.label("lgmres:some-k-depends-on-order-of-stored-corrections");
}

// ================================================================= Richardson
template <class V>
void prop_richardson(Tape &t, Ctx &ctx) {
    typedef typename VT<V>::S S; typedef typename VT<V>::D D;
    typedef amgcl::solver::richardson<amgcl::backend::builtin<V>> Solver;
    Case<V> c;
    gen_system(t, c, t.chance(1, 3) ? 0 : 1);
    gen_precond(t, c, pick_precond(t));
    gen_vectors(t, c);
    double omega = t.chance(1, 4) ? 1.0 : t.uni(0.1, 1.5);
    if (c.pkind == 0) omega /= std::abs(c.Ad(0, 0)); // identity: keep omega*A around the unit disk (diagonal entries have modulus >= d)
    int K = std::min(12, static_cast<int>(t.u(1, 12)));
    ctx.desc << "richardson omega=" << omega << " " << describe_case(c) << " K=" << K;
    if (!in_domain(c, ctx)) return;
    ref::Trace<S> tr = ref::richardson<S>(c.Ad, c.Mp(), c.bd, c.x0d, omega, K);
    Twin<V> w(c);
    ref::Trace<D> tw = ref::richardson<D>(w.A, w.Mp(), w.b, w.x0, omega, K);
    bool moved = false; Count cnt;
    for (int k = 1; k <= K; ++k) {
        if (!iterate_exists(k, tr, tw, ctx)) break;
        typename Solver::params sp; zero_tol(sp, k); sp.damping = omega;
        Out<V> o = run_amgcl<Solver>(c, sp);
        int cr = compare_iterate(c, "richardson", k, o, tr, tw, moved);
        if (!cr) break;
        cnt.add(cr);
    }
    cnt.finish(ctx, moved);
    ctx.label(tr.rn.back() > tr.rn[0] ? "diverging" : "converging");
}

// ================================================================= finite termination
// With the exact or the identity preconditioner every method reaches the solution (true relative residual <= 1e-8)
// within n iterations (+ceil(n/s) for IDR(s); BiCGStab(L) advances L steps per sweep, so its bound is ceil(n/L) L <= n+L-1).
// The restart length of the GMRES family is n (restarted GMRES(M<n) has no finite-termination property).
// The solver is asked for tol = 1e-10 (so that it stops when it has converged instead of iterating on rounding noise)
// and the TRUE residual, computed in long double from the CSR arrays, must be <= 1e-8.
//
// Calibration (unchanged tree, 6 seeds x 4000 cases): CG, GMRES, FGMRES, LGMRES and Richardson never needed more than
// the bound in double precision on any family (including indefinite matrices).  The short-recurrence methods BiCGStab,
// BiCGStab(L), IDR(s) did on 13% of the general matrices whose Hermitian part is indefinite (up to 24 extra iterations,
// equally in long double and equally for the textbook long-double BiCGStab: omega = (t,s)/(t,t) gets close to a
// breakdown there; this is a property of the methods, not of the implementation) but on none of 3300 matrices with
// mu = lambda_min((A+A^H)/2)/sigma_max(A) >= 0.05.  For these three methods the non-Hermitian family is therefore
// restricted by construction to mu >= 0.1 ("positive real" matrices), the bound itself is asserted on the library's own
// templates instantiated for long double (finite termination is a statement about exact arithmetic; rounding 5e-20
// instead of 1e-16, same data), and in double precision two extra iterations (BiCGStab(L): one extra sweep of L steps)
// are allowed for rounding.  On this domain
// no real case (0 of 5000) needed more than the bound in either precision; complex BiCGStab needed one extra iteration
// once in about 3000 cases (n = 10, eigenvalues on an arc of a circle, both precisions behave alike: the moment problem
// behind a bi-orthogonal method is ill-conditioned independently of kappa2), so the complex long-double stage also gets +2.
// CG (orthogonality kept only implicitly by the two-term recurrence) is treated the same way: in 2 x 25000 HPD cases it
// needed one extra iteration 3 times in double (n = 20..33, kappa2 = 30..53; first seen in a thorough run) and never in
// long double, so double gets 2 + n/8 extra iterations and the exact bound is asserted on the long-double instantiation.
// GMRES / FGMRES / LGMRES (explicit orthogonalisation) and Richardson never needed more than the bound in double.
template <class V>
void prop_fterm(Tape &t, Ctx &ctx) {
    typedef amgcl::backend::builtin<V> B;
    int method = static_cast<int>(t.u(0, 7)); // cg bicgstab bicgstabl gmres fgmres lgmres idrs richardson
    if (calib.on && getenv("C05_ONLY_METHOD")) method = atoi(getenv("C05_ONLY_METHOD")); // calibration soaks only
    const char *mn[] = {"cg", "bicgstab", "bicgstabl", "gmres", "fgmres", "lgmres", "idrs", "richardson"};
    Case<V> c;
    bool shortrec = method == 1 || method == 2 || method == 6;
    int fam = pick_family<V>(t);
    gen_system(t, c, method == 0 ? 0 : (shortrec && fam == 1) ? 2 : fam);
    int pk = method == 7 ? 1 : static_cast<int>(t.u(0, 1));
    gen_precond(t, c, pk);
    gen_vectors(t, c);
    bool left = t.b();
    int n = c.n;
    int bound = n;
    std::ostringstream par;
    auto side = left ? amgcl::preconditioner::side::left : amgcl::preconditioner::side::right;
    static const int Ls[] = {1, 2, 4};
    int L = Ls[t.u(0, 2)];
    int s = static_cast<int>(t.u(1, std::min(8, n)));
    int Kaug = static_cast<int>(t.u(0, 3));
    bool smoothing = t.chance(1, 4), replacement = t.chance(1, 4), om0 = t.chance(1, 4); // IDR(s) options
    bool convex = t.b();                                                                 // BiCGStab(L) option
    if (method == 2) { bound = ((n + L - 1) / L) * L; par << " L=" << L << " convex=" << convex << " side=" << (left ? "left" : "right"); }
    if (method == 6) { bound = n + (n + s - 1) / s; par << " s=" << s << " smoothing=" << smoothing << " replacement=" << replacement << " omega=" << (om0 ? 0.0 : 0.7); }
    if (method == 1 || method == 3 || method == 5) par << " side=" << (left ? "left" : "right");
    ctx.desc << "finite-termination " << mn[method] << par.str() << " bound=" << bound << " " << describe_case(c);
    if (!in_domain(c, ctx)) return;
    ctx.label(std::string("method:") + mn[method]);
    // methods whose finite termination rests on (bi-)orthogonality that is only maintained implicitly by short recurrences
    const bool sensitive = shortrec || method == 0;
    // rounding slack in double precision (see the calibration note above): BiCGStab(L) advances L steps per sweep, so its
    // smallest possible slack is one more sweep; CG loses orthogonality gradually with n and kappa
    const int slack = method == 2 ? L : method == 0 ? 2 + n / 8 : 2;
    const int maxit = sensitive ? bound + slack : bound;
    typedef typename VT<V>::S X;
    double soltol = 1e-10; // relative tolerance handed to the solver
    auto prep = [&](auto &sp, int mi) { sp.maxiter = mi; sp.tol = soltol; sp.abstol = 0; };
    auto run_d = [&](int mi) -> Out<V> {
        switch (method) {
        case 0: { typedef amgcl::solver::cg<B> Sv; typename Sv::params sp; prep(sp, mi); return run_amgcl<Sv>(c, sp, true); }
        case 1: { typedef amgcl::solver::bicgstab<B> Sv; typename Sv::params sp; prep(sp, mi); sp.pside = side; return run_amgcl<Sv>(c, sp, true); }
        case 2: { typedef amgcl::solver::bicgstabl<B> Sv; typename Sv::params sp; prep(sp, mi); sp.L = L; sp.pside = side; sp.convex = convex; return run_amgcl<Sv>(c, sp, true); }
        case 3: { typedef amgcl::solver::gmres<B> Sv; typename Sv::params sp; prep(sp, mi); sp.M = std::max(n, 1); sp.pside = side; return run_amgcl<Sv>(c, sp, true); }
        case 4: { typedef amgcl::solver::fgmres<B> Sv; typename Sv::params sp; prep(sp, mi); sp.M = std::max(n, 1); return run_amgcl<Sv>(c, sp, true); }
        case 5: { typedef amgcl::solver::lgmres<B> Sv; typename Sv::params sp; prep(sp, mi); sp.M = std::max(n, 1); sp.K = Kaug; sp.pside = side; return run_amgcl<Sv>(c, sp, true); }
        case 6: { typedef amgcl::solver::idrs<B> Sv; typename Sv::params sp; prep(sp, mi); sp.s = s; sp.smoothing = smoothing; sp.replacement = replacement; sp.omega = om0 ? 0.0 : 0.7; return run_amgcl<Sv>(c, sp, true); }
        default: { typedef amgcl::solver::richardson<B> Sv; typename Sv::params sp; prep(sp, mi); sp.damping = 1.0; return run_amgcl<Sv>(c, sp, true); }
        }
    };
    auto run_x = [&](int mi) -> Out<X> { // the library's templates in long double (sensitive methods only)
        switch (method) {
        case 0: return run_amgcl_ext<amgcl::solver::cg>(c, [&](auto &sp) { prep(sp, mi); });
        case 1: return run_amgcl_ext<amgcl::solver::bicgstab>(c, [&](auto &sp) { prep(sp, mi); sp.pside = side; });
        case 2: return run_amgcl_ext<amgcl::solver::bicgstabl>(c, [&](auto &sp) { prep(sp, mi); sp.L = L; sp.pside = side; sp.convex = convex; });
        default: return run_amgcl_ext<amgcl::solver::idrs>(c, [&](auto &sp) { prep(sp, mi); sp.s = s; sp.smoothing = smoothing; sp.replacement = replacement; sp.omega = om0 ? 0.0 : 0.7; });
        }
    };
    const std::vector<X> bx(c.bd.begin(), c.bd.end());
    long double r0 = true_relres(c.A, c.b, c.x0);
    const bool need_mode = calib.on && getenv("C05_NEED");
    if (need_mode) { // calibration: smallest j such that maxiter = bound + j reaches a true residual <= 1e-8 (long double templates / double)
        if (!sensitive) return;
        int need = -1, needd = -1;
        for (int j = 0; j <= 40 && need < 0; ++j) if (true_relres(c.A, bx, run_x(bound + j).x) <= 1e-8L) need = j;
        for (int j = 0; j <= 40 && needd < 0; ++j) if (true_relres(c.A, c.b, run_d(bound + j).x) <= 1e-8L) needd = j;
        fprintf(stderr, "NEED %s ext=%d dbl=%d n=%d L=%d s=%d kappa=%.1f %s %s\n", mn[method], need, needd, n, L, s, c.kappaA, c.fam.c_str(), Case<V>::pname(c.pkind));
        return;
    }
    // Attainable accuracy: no double-precision run can push the true residual below ~ u kappa |r0| (rounding of the first correction)
    const long double floor_d = 64 * U * c.kappaA * c.kappaM * std::max<long double>(1, r0);
    // Known finding F-recursion-gap (C01), seen through the finite-termination clause.  BiCGStab(L) and IDR(s) stop on a recursively
    // carried residual and keep iterating once the Krylov space is exhausted; when the tolerance handed to the solver (1e-10 here)
    // lies below the level u kappa |r0| at which the carried residual can still follow the true one, the solver does not stop when it
    // has the solution but iterates on rounding noise, the carried residual goes to 1e-13..1e-25 while x drifts away (true residual
    // 1e-8 .. 25).  Class of inputs: solver in {bicgstabl, idrs} and 64 u kappa2(A) kappa2(M) max(1, |f - A x0|/|f|) > 1e-10.
    // Inside the class the clause is asserted for an ATTAINABLE tolerance instead: handed tol = max(1e-10, 4 x that level) the solver
    // must return, within the same iteration budget, an x whose true residual is <= max(1e-8, 4 tol), i.e. the method does
    // terminate finitely with the solution; only asking for more makes it lose the solution again.  (Running with maxiter = 1, 2, ..
    // is not a usable weaker statement: BiCGStab(L) always completes a sweep of L steps, and with the space exhausted after the
    // first of them the rest of the sweep already destroys x: thorough-tier case known/C05-recursion-gap-bicgstabl.case.)
    const bool gap_class = (method == 2 || method == 6) && floor_d > 1e-10L;
    const bool gap_class_x = (method == 2 || method == 6) && 64 * 5.5e-20L * c.kappaA * c.kappaM * std::max<long double>(1, r0) > 1e-10L;
    Out<V> o = run_d(maxit);
    long double rr = true_relres(c.A, c.b, o.x);
    ctx.nontrivial = n >= 2 && o.iters >= 2 && r0 > 1e-6;
    if (shortrec) ctx.label(std::string("shortrec-family:") + (c.hpd ? "hpd" : "posreal"));
    ctx.label(o.iters >= 2 ? "iters>=2" : "iters<2");
    ctx.label(static_cast<int>(o.iters) >= n ? "used-all-n" : "early");
    if (calib.on) calib.see(std::string("fterm-") + mn[method] + ":relres", static_cast<double>(rr));
    if (gap_class) {
        ctx.label(std::string("recursion-gap-class:") + mn[method]);
        soltol = static_cast<double>(std::max(1e-10L, 4 * floor_d));
        Out<V> oa = run_d(maxit);
        soltol = 1e-10;
        long double ra = true_relres(c.A, c.b, oa.x), thr = std::max(1e-8L, 4 * std::max(1e-10L, 4 * floor_d));
        VF_REQUIRE(!oa.threw.empty() || static_cast<int>(oa.iters) <= maxit + (method == 2 ? L - 1 : 0), mn[method] << ": " << oa.iters << " iterations reported with maxiter=" << maxit);
        VF_REQUIRE(ra <= thr, mn[method] << par.str() << ": asked for the attainable tolerance " << std::max(1e-10, 4 * static_cast<double>(floor_d)) << " the solver returns a true relative residual "
                   << static_cast<double>(ra) << " > " << static_cast<double>(thr) << " after " << oa.iters << " iterations (allowed " << maxit << ", bound " << bound << " for n=" << n << ", initial " << static_cast<double>(r0) << ")");
    }
    // the library's recurrences in extended precision (sensitive methods): the same bound; the three short-recurrence methods keep
    // their slack because a near-breakdown of a bi-orthogonal recurrence delays termination by a step or two in ANY precision
    // (thorough-tier case replay/C05/bicgstab-real-n13-one-late-in-both-precisions.case: +1 in double and in long double)
    if (sensitive && !gap_class_x) {
        const int xbound = bound + (shortrec ? slack : (VT<V>::complex ? 2 : 0));
        Out<X> ox = run_x(xbound);
        long double rx = true_relres(c.A, bx, ox.x);
        if (calib.on) calib.see(std::string("fterm-ext-") + mn[method] + ":relres", static_cast<double>(rx));
        if (!ox.threw.empty()) {
            ctx.label(std::string("breakdown-after-convergence(long double):") + mn[method]);
            VF_REQUIRE(rx <= 1e-8L, mn[method] << par.str() << " (library templates in long double): the solver threw \"" << ox.threw << "\" with true relative residual " << static_cast<double>(rx));
        } else {
            VF_REQUIRE(static_cast<int>(ox.iters) <= xbound + (method == 2 ? L - 1 : 0), mn[method] << " (long double): " << ox.iters << " iterations reported with maxiter=" << xbound);
            VF_REQUIRE(rx <= 1e-8L, mn[method] << par.str() << " (library templates in long double): true relative residual " << static_cast<double>(rx) << " after " << ox.iters
                       << " iterations (allowed " << xbound << ", bound " << bound << " for n=" << n << "), initial " << static_cast<double>(r0) << ", reported " << ox.resid);
        }
    }
    if (sensitive && static_cast<int>(o.iters) > bound) ctx.label(std::string("double-needs-more-than-bound:") + mn[method]);
    // the clause itself in double precision: the solver returns the solution within the allowed number of iterations
    if (gap_class && ctx.known("F-recursion-gap-c05")) return;
    // A breakdown exception ("zero rho / omega / sigma / M[k,k]") is admissible exactly when the iterate at the moment of the
    // breakdown already is the solution (the method has nothing left to do: e.g. IDR(s) with the exact preconditioner reaches
    // r = 0 in one step while its smoothed residual is still above the requested 1e-10); otherwise it is a failure to terminate.
    if (!o.threw.empty()) {
        ctx.label(std::string("breakdown-after-convergence:") + mn[method]);
        ctx.nontrivial = false;
        VF_REQUIRE(rr <= 1e-8L, mn[method] << par.str() << ": the solver threw \"" << o.threw << "\" with true relative residual " << static_cast<double>(rr) << " (initial " << static_cast<double>(r0) << "): breakdown before the solution was reached");
    } else {
        VF_REQUIRE(static_cast<int>(o.iters) <= maxit + (method == 2 ? L - 1 : 0), mn[method] << ": " << o.iters << " iterations reported with maxiter=" << maxit);
        VF_REQUIRE(rr <= 1e-8L, mn[method] << par.str() << ": true relative residual " << static_cast<double>(rr) << " after " << o.iters << " iterations (allowed " << maxit
                   << ", bound " << bound << " for n=" << n << "), initial " << static_cast<double>(r0) << ", reported " << o.resid);
    }
}

// The iterate props and the finite-termination prop live in separate translation units (compile time).
template <class V>
std::vector<Prop> props_iter(const std::string &sfx) {
    return {
        Prop("cg_" + sfx, prop_cg<V>, 150, 1500, 100, 40, {1}, 2, 8),
        Prop("bicgstab_" + sfx, prop_bicgstab<V>, 150, 1500, 100, 40, {1}, 2, 8),
        Prop("gmres_" + sfx, prop_gmres<V>, 200, 2000, 100, 40, {1}, 2, 8),
        Prop("richardson_" + sfx, prop_richardson<V>, 150, 1500, 100, 40, {1}, 1, 4),
    };
}
template <class V>
std::vector<Prop> props_fterm(const std::string &sfx) {
    return { Prop("fterm_" + sfx, prop_fterm<V>, 400, 4000, 100, 40, {1}, 2, 8) };
}

} // namespace c05
