// C13 — helpers shared by the block / complex / mixed-precision harnesses.
//
// Everything here is independent of amgcl: generators for block-structured SPD systems,
// long-double reference products with the summation-order bound, and the truthfulness
// check of a (solution, reported residual) pair against the SCALAR system.
#pragma once
#include <cmath>
#include <complex>
#include <map>
#include <string>
#include <vector>
#include "../common/harness.hpp"
#include "../common/gen.hpp"
#include "../common/dense.hpp"

namespace c13 {
using namespace vf;

static const long double U = 1.1102230246251565404e-16L; // 2^-53

// ------------------------------------------------------------------ block systems
struct BlockCase {
    int b = 2;
    ptrdiff_t nb = 0;          // block rows
    Csr<double> A;             // scalar matrix, n = nb*b, rows sorted by column, diagonal present
    int kind = 0;              // 0: M (x) I_b, 1: M (x) Bm with SPD Bm, 2: block structured M-matrix with random incomplete blocks,
                               // 3: as 2 but with entries of both signs (SPD by strict dominance, but not an M-matrix: not a model problem for AMG)
    // model problems for the convergence clause: M-matrix like values on bounded-degree graphs (the hub of a star has degree n-1)
    bool model() const { return kind != 3 && family != "star"; }
    std::string family;
    long blocks = 0, incomplete = 0; // structurally present blocks / of those with a missing scalar entry
    long offdiag_incomplete = 0;
    double contrast = 1;
};

// SPD b x b matrix, strictly diagonally dominant (kappa <= ~6); `sparse`: drop some off-diagonal pairs structurally
inline std::vector<double> gen_spd_block(Tape &t, int b, bool sparse) {
    std::vector<double> Bm(b * b, 0.0);
    for (int i = 0; i < b; ++i) for (int j = i + 1; j < b; ++j) {
        bool drop = sparse && t.chance(1, 2);
        double v = drop ? 0.0 : t.uni(-1.0, 1.0);
        if (!drop && v == 0.0) v = 0.5;
        Bm[i * b + j] = Bm[j * b + i] = v;
    }
    for (int i = 0; i < b; ++i) {
        double s = 0; for (int j = 0; j < b; ++j) if (j != i) s += std::abs(Bm[i * b + j]);
        Bm[i * b + i] = 1.0 + s * t.uni(1.25, 2.0);
    }
    return Bm;
}

inline BlockCase gen_block_case(Tape &t, int b, int nbmax) {
    BlockCase bc; bc.b = b;
    bc.kind = static_cast<int>(t.u(0, 3));
    // families: path, grid2, grid2x9, grid3, er, tree, band, star, union (no bare diagonal: nothing to couple)
    Graph g = gen_graph(t, nbmax, 0, 8);
    bc.family = g.family; bc.nb = g.n;
    MmatInfo mi;
    Csr<double> M = gen_mmat(t, g, 10.0, false, &mi);
    bc.contrast = mi.contrast;
    const ptrdiff_t nb = g.n, n = nb * b;
    std::vector<std::map<ptrdiff_t, double>> rows(n);
    if (bc.kind == 0) {
        for (ptrdiff_t I = 0; I < nb; ++I) for (ptrdiff_t j = M.ptr[I]; j < M.ptr[I + 1]; ++j)
            for (int k = 0; k < b; ++k) rows[I * b + k][M.col[j] * b + k] = M.val[j];
    } else if (bc.kind == 1) {
        std::vector<double> Bm = gen_spd_block(t, b, t.b());
        for (ptrdiff_t I = 0; I < nb; ++I) for (ptrdiff_t j = M.ptr[I]; j < M.ptr[I + 1]; ++j)
            for (int k = 0; k < b; ++k) for (int l = 0; l < b; ++l)
                if (Bm[k * b + l] != 0.0) rows[I * b + k][M.col[j] * b + l] = M.val[j] * Bm[k * b + l];
    } else {
        // symmetric block structured matrix on the graph: off-diagonal block W_IJ = -w * R with a random
        // structural mask (at least one entry), W_JI = W_IJ^T; diagonal blocks strictly dominant => SPD.
        // kind 2: R > 0 (all off-diagonal entries negative: M-matrix); kind 3: R of both signs.
        const bool mixed = bc.kind == 3;
        for (auto &e : g.edges) {
            ptrdiff_t I = e.first, J = e.second;
            double w = 0; for (ptrdiff_t j = M.ptr[I]; j < M.ptr[I + 1]; ++j) if (M.col[j] == J) w = -M.val[j];
            int dens = static_cast<int>(t.u(0, 2)); // 0: sparse mask, 1: half, 2: full block
            bool any = false;
            for (int k = 0; k < b; ++k) for (int l = 0; l < b; ++l) {
                bool present = dens == 2 || (dens == 1 ? t.b() : t.chance(1, 4));
                if (k == b - 1 && l == b - 1 && !any) present = true;
                if (!present) continue;
                any = true;
                double r = mixed ? t.uni(-1.0, 1.0) : -t.uni(0.1, 1.0); if (r == 0.0) r = -0.75;
                rows[I * b + k][J * b + l] = w * r;
                rows[J * b + l][I * b + k] = w * r;
            }
        }
        for (ptrdiff_t I = 0; I < nb; ++I) {
            bool full = t.b();
            for (int k = 0; k < b; ++k) for (int l = k + 1; l < b; ++l) {
                if (!full && t.b()) continue;
                double r = mixed ? t.uni(-1.0, 1.0) : -t.uni(0.1, 1.0); if (r == 0.0) r = 0.25;
                rows[I * b + k][I * b + l] = r; rows[I * b + l][I * b + k] = r;
            }
        }
        for (ptrdiff_t i = 0; i < n; ++i) {
            double s = 0; for (auto &kv : rows[i]) if (kv.first != i) s += std::abs(kv.second);
            rows[i][i] = 0.05 + s * t.uni(1.1, 2.0);
        }
    }
    bc.A = from_triplets<double>(n, n, rows);
    // statistics on the block structure
    std::map<std::pair<ptrdiff_t, ptrdiff_t>, int> cnt;
    for (ptrdiff_t i = 0; i < n; ++i) for (ptrdiff_t j = bc.A.ptr[i]; j < bc.A.ptr[i + 1]; ++j) ++cnt[{i / b, bc.A.col[j] / b}];
    bc.blocks = static_cast<long>(cnt.size());
    for (auto &kv : cnt) if (kv.second < b * b) { ++bc.incomplete; if (kv.first.first != kv.first.second) ++bc.offdiag_incomplete; }
    return bc;
}

// non-zero right-hand side: random vector, or A * x_true
inline std::vector<double> gen_rhs(Tape &t, const Csr<double> &A, std::string &kind) {
    int k = static_cast<int>(t.u(0, 3));
    std::vector<double> f(A.n);
    if (k == 3) {
        kind = "A*x";
        std::vector<double> xt = gen_vec(t, A.n, 2);
        for (ptrdiff_t i = 0; i < A.n; ++i) { long double s = 0; for (ptrdiff_t j = A.ptr[i]; j < A.ptr[i + 1]; ++j) s += static_cast<long double>(A.val[j]) * xt[A.col[j]]; f[i] = static_cast<double>(s); }
    } else {
        kind = k == 0 ? "ones" : k == 1 ? "ints" : "uniform";
        f = gen_vec(t, A.n, k);
    }
    bool nz = false; for (double v : f) nz = nz || v != 0.0;
    if (!nz && A.n) f[0] = 1.0;
    return f;
}

// ------------------------------------------------------------------ reference products
// y = alpha*A*x + beta*y0 in long double, and the absolute scale S_i = |alpha| sum_j |a_ij||x_j| + |beta||y0_i|
template <class V>
void ref_spmv(const Csr<V> &A, const std::vector<V> &x, double alpha, double beta, const std::vector<V> &y0,
              std::vector<std::complex<long double>> &y, std::vector<long double> &S) {
    y.assign(A.n, 0); S.assign(A.n, 0);
    for (ptrdiff_t i = 0; i < A.n; ++i) {
        std::complex<long double> s = 0; long double a = 0;
        for (ptrdiff_t j = A.ptr[i]; j < A.ptr[i + 1]; ++j) {
            std::complex<long double> av(std::real(A.val[j]), std::imag(A.val[j])), xv(std::real(x[A.col[j]]), std::imag(x[A.col[j]]));
            s += av * xv; a += std::abs(av) * std::abs(xv);
        }
        std::complex<long double> y0v(std::real(y0[i]), std::imag(y0[i]));
        y[i] = static_cast<long double>(alpha) * s + static_cast<long double>(beta) * y0v;
        S[i] = std::abs(static_cast<long double>(alpha)) * a + std::abs(static_cast<long double>(beta)) * std::abs(y0v);
    }
}

// |got_i - ref_i| <= c * u * S_i   (c: number of floating point operations that can contribute per row)
template <class V>
void require_spmv(const std::vector<V> &got, const std::vector<std::complex<long double>> &ref, const std::vector<long double> &S,
                  long double c, const std::string &what) {
    VF_REQUIRE(got.size() == ref.size(), what << ": size " << got.size() << " vs " << ref.size());
    for (size_t i = 0; i < ref.size(); ++i) {
        std::complex<long double> g(std::real(got[i]), std::imag(got[i]));
        long double err = std::abs(g - ref[i]);
        VF_REQUIRE(err <= c * U * S[i], what << ": row " << i << " got " << std::real(got[i]) << " reference " << static_cast<double>(ref[i].real())
                   << " |err|=" << static_cast<double>(err) << " bound " << static_cast<double>(c * U * S[i]));
    }
}

template <class V>
ptrdiff_t max_row_len(const Csr<V> &A) { ptrdiff_t m = 0; for (ptrdiff_t i = 0; i < A.n; ++i) m = std::max(m, A.ptr[i + 1] - A.ptr[i]); return m; }

// ------------------------------------------------------------------ truthfulness
// The Krylov methods report the norm of the recursively updated residual.  It drifts from the true residual by at most
// ~ k u (m+4) ||A|| max_j ||x_j||  (k iterations, m entries per row).  Scale S = ||A||_inf ||x||_inf sqrt(n) / ||f||_2 (>= the
// 2-norm version, <= sqrt(n) kappa); allowance = 8 (m+4) (k+1) u S.  Small because kappa is small by construction.
template <class V>
long double drift_allowance(const Csr<V> &A, const std::vector<V> &f, const std::vector<V> &x, size_t iters) {
    long double an = 0, xn = 0, fn = 0;
    for (ptrdiff_t i = 0; i < A.n; ++i) { long double s = 0; for (ptrdiff_t j = A.ptr[i]; j < A.ptr[i + 1]; ++j) s += std::abs(A.val[j]); an = std::max(an, s); }
    for (auto &v : x) xn = std::max<long double>(xn, std::abs(v));
    for (auto &v : f) fn += std::norm(std::complex<long double>(std::real(v), std::imag(v)));
    fn = std::sqrt(fn);
    if (fn == 0) return 0;
    long double S = an * xn * std::sqrt(static_cast<long double>(A.n)) / fn;
    return 8 * (max_row_len(A) + 4) * static_cast<long double>(iters + 1) * U * S;
}

// returns the true relative residual
template <class V>
long double require_truthful(Ctx &c, const std::string &what, const Csr<V> &A, const std::vector<V> &f, const std::vector<V> &x,
                             size_t iters, double resid, double tol, size_t maxiter, bool need_converged = true) {
    if (!need_converged && !std::isfinite(resid)) { c.label("non-finite-residual-reported:" + what); return 0; } // divergence, reported as such
    VF_REQUIRE(std::isfinite(resid), what << ": reported residual is not finite");
    for (auto &v : x) VF_REQUIRE(std::isfinite(std::real(v)) && std::isfinite(std::imag(v)), what << ": non-finite solution entry but finite reported residual " << resid);
    long double rho = true_relres(A, f, x);
    long double allow = drift_allowance(A, f, x, iters);
    VF_REQUIRE(rho <= static_cast<long double>(resid) + allow, what << ": true residual of the scalar system " << static_cast<double>(rho)
               << " exceeds the reported " << resid << " (iters=" << iters << ", allowance " << static_cast<double>(allow) << ")");
    VF_REQUIRE(rho >= static_cast<long double>(resid) - allow, what << ": reported residual " << resid << " is larger than the true one "
               << static_cast<double>(rho) << " (iters=" << iters << ", allowance " << static_cast<double>(allow) << ")");
    if (need_converged) {
        VF_REQUIRE(resid <= tol, what << ": did not reach the tolerance " << tol << ": reported " << resid << " after " << iters << " iterations (maxiter " << maxiter << ")");
        VF_REQUIRE(iters <= maxiter, what << ": iteration count " << iters << " above maxiter " << maxiter);
    }
    c.label(std::string(resid <= tol ? "solved:" : "not-converged-but-truthful:") + what);
    return rho;
}

// Triage note (thorough tier, seed 2, replay/C13/bicgstab-zero-rho-model-case.case): "Zero rho in BiCGStab" also occurs on model inputs. In that case
// <r, r_shadow> decays to rounding noise (|rho| ~ 1e-22 = a few ulps of 2^-74, i.e. 1e-17 |r||r_shadow|) while |r| stagnates at 5e-8 |f|; ten iterations later the
// noise happens to be exactly 0 and the solver throws.  The static_matrix twin of the same system shows the same decay (rho 4e-17 at relres 1e-8) and merely reaches
// the tolerance first, and with 16 threads (another summation order) the Eigen run converges too: a genuine Lanczos breakdown of the method, reported cleanly by an
// exception.  C13 asks for a truthful residual of a RETURNED solution, so the exception is accepted (labelled) for every input.
inline vf::PropFn tolerate_breakdown(void (*fn)(Tape &, Ctx &)) {
    return [fn](Tape &t, Ctx &c) {
        try { fn(t, c); }
        catch (const vf::Fail &) { throw; }
        catch (const std::runtime_error &e) { if (std::string(e.what()).find("in BiCGStab") != std::string::npos) { c.label("breakdown-exception"); return; } throw; }
    };
}

inline std::string size_bucket(ptrdiff_t n) { return n <= 8 ? "n<=8" : n <= 40 ? "n<=40" : n <= 150 ? "n<=150" : n <= 600 ? "n<=600" : "n>600"; }

} // namespace c13
