// C03 — Galerkin coarse levels and rebuild histories: aggregation and smoothed_aggregation x {spai0, damped_jacobi, gauss_seidel, ilu0}.
// See c03_galerkin.hpp (property, oracles) and c03_record.hpp (recording / replaying policies, friend accessor).
#include "c03_galerkin.hpp"

static std::vector<vf::Prop> props() {
    // 1 thread: spgemm_saad; 17 threads: product() switches to spgemm_rmerge
    return {
        vf::Prop("history_aggr", c03::prop_history<amgcl::coarsening::aggregation, amgcl::coarsening::smoothed_aggregation>, 350, 6000, 100, 60, {1}, 2, 8),
        vf::Prop("history_aggr_t17", c03::prop_history<amgcl::coarsening::aggregation, amgcl::coarsening::smoothed_aggregation>, 120, 2000, 100, 60, {17}, 1, 4),
    };
}
static std::vector<vf::Enum> enums() { return {}; }
VF_MAIN(props(), enums())
