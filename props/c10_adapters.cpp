// C10 (extension c) — matrix adapters and array ownership, value type double, runtime coarsening / relaxation / solver.
//
// Every case hands one strictly diagonally dominant system to make_solver<amg|relaxation, solver> through one of
//   0 adapter::zero_copy(ptr,col,val)            -> shared_ptr<crs> used without a copy (rows sorted)
//   1 adapter::zero_copy(...)                    -> passed by reference (the library copies and sorts; rows may be shuffled)
//   2 adapter::zero_copy_direct<ptrdiff_t>(...)  -> shared_ptr<crs> used without a copy (rows sorted)
//   3 adapter::zero_copy_direct<int,int>(...)    -> crs<double,int,int> passed by reference (copied; rows may be shuffled)
//   4 adapter::reorder<cuthill_mckee<false|true>> (perm(A), perm(rhs), inverse)
//   5 adapter::scale_diagonal / scaled_problem   (matrix(A), rhs() copy or in-place scaling, post-scaled solution)
//   6 std::shared_ptr<crs<double>> owning its arrays, passed directly (not copied)
//   7 amg::rebuild() with a second matrix (allow_rebuild=true; now and then false: clean rejection), tuple or shared_ptr
// The arrays handed over are exact-size heap blocks owned by the harness: after all library objects are destroyed they
// must be bit-identical, and they are freed afterwards (a wrong own_data flag is a double free: glibc abort / ASan report).
// Differential over heap fills and allocation histories and sanitizer twin as in c10_determinism.cpp (see c10_common.hpp).
#include <amgcl/adapter/zero_copy.hpp>
#include <amgcl/adapter/reorder.hpp>
#include <amgcl/adapter/scaled_problem.hpp>
#include "c10_common.hpp"

using namespace c10;
namespace ab = amgcl::backend;
namespace ad = amgcl::adapter;
typedef ab::builtin<double> B;
typedef amgcl::amg<B, amgcl::runtime::coarsening::wrapper, amgcl::runtime::relaxation::wrapper> AMG;
typedef amgcl::relaxation::as_preconditioner<B, amgcl::runtime::relaxation::wrapper> RLX;
typedef amgcl::runtime::solver::wrapper<B> ISolver;

static const char *MODE[] = {"zero_copy(shared)", "zero_copy(by-ref)", "zero_copy_direct(shared)", "zero_copy_direct<int>(by-ref)", "reorder", "scaled_problem", "shared_ptr<crs>", "rebuild"};

struct Case {
    Csr<double> A, A2;   // A2: second matrix for rebuild
    int mode = 0;
    bool reverse_cm = false, scale_in_place = false, rebuild_shared = false;
    ptree prm;
    PrecondCfg pc; SolverCfg sc;
    std::vector<double> f, v1;
    std::vector<uint32_t> prehist;
};

// exact-size heap copies of the CSR arrays, owned by the "user"
template <class PT, class CT> struct UserArrays {
    size_t n, nnz; PT *ptr; CT *col; double *val;
    explicit UserArrays(const Csr<double> &A) : n(static_cast<size_t>(A.n)), nnz(static_cast<size_t>(A.nnz())), ptr(new PT[n + 1]), col(new CT[nnz]), val(new double[nnz]) {
        for (size_t i = 0; i <= n; ++i) ptr[i] = static_cast<PT>(A.ptr[i]);
        for (size_t j = 0; j < nnz; ++j) { col[j] = static_cast<CT>(A.col[j]); val[j] = A.val[j]; }
    }
    bool same(const Csr<double> &A) const {
        for (size_t i = 0; i <= n; ++i) if (ptr[i] != static_cast<PT>(A.ptr[i])) return false;
        for (size_t j = 0; j < nnz; ++j) if (col[j] != static_cast<CT>(A.col[j]) || std::memcmp(&val[j], &A.val[j], sizeof(double)) != 0) return false;
        return true;
    }
    void release() { delete[] ptr; delete[] col; delete[] val; ptr = nullptr; col = nullptr; val = nullptr; }
};

template <class Solver> static void observe_all(Digest &D, const Solver &S, const Case &cs, size_t &levels, const std::string &pfx = "") {
    typedef typename std::decay<decltype(S.precond())>::type P;
    if constexpr (std::is_same<P, AMG>::value) { D.section(pfx + "hierarchy"); dump_hier(D, S.precond()); levels = std::max(levels, n_levels(S.precond())); }
    observe_print(D, S, pfx);
    observe_apply(D, S.precond(), cs.f, cs.v1, 0.0, pfx);
    observe_solves(D, S, cs.f, 0.0, !cs.sc.stateful, pfx);
}

template <class Precond>
static void execute(const Case &cs, Digest &D, bool pre, size_t &levels) {
    typedef amgcl::make_solver<Precond, ISolver> Solver;
    if (pre) prehistory(cs.prehist);
    std::vector<double> ns;
    const size_t n = static_cast<size_t>(cs.A.n);
    UserArrays<ptrdiff_t, ptrdiff_t> U(cs.A);
    UserArrays<int, int> Ui(cs.A);
    Csr<double> T = cs.A, T2 = cs.A2; // vectors handed over as tuples
    std::vector<double> f = cs.f;
    std::string fail;
    try {
        ptree prm = cs.prm;
        bind_nullspace(cs.pc, prm, ns);
        switch (cs.mode) {
        case 0: case 2: {
            std::shared_ptr<ab::crs<double>> Z = cs.mode == 0 ? ad::zero_copy(n, U.ptr, U.col, U.val) : ad::zero_copy_direct(n, U.ptr, U.col, U.val);
            VF_REQUIRE(!Z->own_data && static_cast<const void *>(Z->val) == U.val, "zero-copy matrix owns or copied the user's arrays");
            {
                Solver S(Z, prm);
                VF_REQUIRE(static_cast<const void *>(S.system_matrix().val) == U.val, "make_solver(shared_ptr<crs>) copied the zero-copy matrix");
                observe_all(D, S, cs, levels);
            }
            // the solver is gone, the view is still usable
            D.section("view-after"); D.crs(*Z, "|Z");
        } break;
        case 1: {
            auto Z = ad::zero_copy(n, U.ptr, U.col, U.val);
            Solver S(*Z, prm);
            Z.reset(); // by-reference construction copies: the view may go away first
            observe_all(D, S, cs, levels);
        } break;
        case 3: {
            auto Z = ad::zero_copy_direct(n, Ui.ptr, Ui.col, Ui.val);
            VF_REQUIRE(!Z->own_data, "zero_copy_direct<int>: own_data set");
            Solver S(*Z, prm);
            Z.reset();
            observe_all(D, S, cs, levels);
        } break;
        case 4: {
            auto Tt = std::tie(n, T.ptr, T.col, T.val);
            auto body = [&](auto &perm) {
                std::vector<ptrdiff_t> id(n), pv(n);
                for (size_t i = 0; i < n; ++i) id[i] = static_cast<ptrdiff_t>(i);
                perm.forward(id, pv);
                D.section("perm"); D.vec(pv);
                Solver S(perm(Tt), prm);
                if constexpr (std::is_same<Precond, AMG>::value) { D.section("hierarchy"); dump_hier(D, S.precond()); levels = n_levels(S.precond()); }
                observe_print(D, S);
                std::vector<double> fo(n), vo(n);
                perm.forward(cs.f, fo); perm.forward(cs.v1, vo);
                observe_apply(D, S.precond(), fo, vo, 0.0);
                for (int k = 0; k < (cs.sc.stateful ? 1 : 2); ++k) { // documented use: solve(perm(rhs), x_ord); perm.inverse(x_ord, x)
                    D.section(k ? "second-solve" : "solve");
                    std::vector<double> xo(n, 0.0), x(n, 0.0);
                    auto r = S(perm(f), xo);
                    perm.inverse(xo, x);
                    D.pod(std::get<0>(r)); D.pod(std::get<1>(r)); D.vec(x);
                }
            };
            if (cs.reverse_cm) { ad::reorder<amgcl::reorder::cuthill_mckee<true>> perm(Tt); body(perm); }
            else { ad::reorder<amgcl::reorder::cuthill_mckee<false>> perm(Tt); body(perm); }
        } break;
        case 5: {
            auto Tt = std::tie(n, T.ptr, T.col, T.val);
            auto scale = ad::scale_diagonal<B>(Tt);
            Solver S(scale.matrix(Tt), prm);
            if constexpr (std::is_same<Precond, AMG>::value) { D.section("hierarchy"); dump_hier(D, S.precond()); levels = n_levels(S.precond()); }
            observe_print(D, S);
            observe_apply(D, S.precond(), cs.f, cs.v1, 0.0);
            for (int k = 0; k < (cs.sc.stateful ? 1 : 2); ++k) {
                D.section(k ? "second-solve" : "solve");
                std::vector<double> x(n, 0.0), b = cs.f;
                size_t it; double res;
                if (cs.scale_in_place) { scale(b); std::tie(it, res) = S(b, x); }
                else { auto fs = scale.rhs(b); std::tie(it, res) = S(*fs, x); }
                scale(x);
                D.pod(it); D.pod(res); D.vec(x);
            }
        } break;
        case 6: {
            auto M = std::make_shared<ab::crs<double>>(std::tie(n, T.ptr, T.col, T.val));
            VF_REQUIRE(M->own_data, "crs built from a tuple does not own its arrays");
            {
                Solver S(M, prm);
                VF_REQUIRE(S.system_matrix_ptr().get() == M.get(), "make_solver(shared_ptr<crs>) copied the matrix");
                observe_all(D, S, cs, levels);
            }
            D.section("matrix-after"); D.crs(*M, "|M");
            VF_REQUIRE(M->nrows == n && std::equal(M->ptr, M->ptr + n + 1, cs.A.ptr.begin()) && std::equal(M->col, M->col + M->nnz, cs.A.col.begin())
                       && std::memcmp(M->val, cs.A.val.data(), M->nnz * sizeof(double)) == 0, "the shared matrix was modified by the solver");
        } break;
        default: {
            if constexpr (std::is_same<Precond, AMG>::value) {
                Solver S(std::tie(n, T.ptr, T.col, T.val), prm);
                observe_all(D, S, cs, levels);
                auto M2 = std::make_shared<ab::crs<double>>(std::tie(n, T2.ptr, T2.col, T2.val));
                if (cs.rebuild_shared) { ab::sort_rows(*M2); S.precond().rebuild(M2); }
                else S.precond().rebuild(std::tie(n, T2.ptr, T2.col, T2.val));
                observe_all(D, S, cs, levels, "rebuilt-");
                ab::sort_rows(*M2);
                for (int k = 0; k < (cs.sc.stateful ? 1 : 2); ++k) { // solve with the system matrix given explicitly
                    D.section(k ? "second-solve-A2" : "solve-A2");
                    std::vector<double> x(n, 0.0);
                    auto r = S(*M2, cs.f, x);
                    D.pod(std::get<0>(r)); D.pod(std::get<1>(r)); D.vec(x);
                }
            }
        } break;
        }
    } catch (const vf::Fail &e) { fail = e.what();
    } catch (const amgcl::error::empty_level &) { D.exc("empty_level");
    } catch (const std::exception &e) { D.exc(e.what()); }
    // every library object is gone: the arrays are untouched and still ours to free
    bool same = U.same(cs.A) && Ui.same(cs.A) && T.ptr == cs.A.ptr && T.col == cs.A.col && std::memcmp(T.val.data(), cs.A.val.data(), T.val.size() * sizeof(double)) == 0
                && T2.ptr == cs.A2.ptr && T2.col == cs.A2.col && (T2.val.empty() || std::memcmp(T2.val.data(), cs.A2.val.data(), T2.val.size() * sizeof(double)) == 0);
    U.release(); Ui.release();
    if (!fail.empty()) throw vf::Fail(fail);
    VF_REQUIRE(same, MODE[cs.mode] << ": the user's matrix arrays were modified");
    VF_REQUIRE(f == cs.f, MODE[cs.mode] << ": the right-hand side was modified");
    VF_REQUIRE(ns == (cs.pc.ns_cols ? cs.pc.ns : std::vector<double>()), "the user's near-null-space array was modified");
}

static Case decode(Tape &t, Ctx &c, bool &degenerate) {
    Case cs;
    int cls; std::string dclass;
    Graph g = gen_class_graph(t, 64, cls, dclass);
    int vcls = static_cast<int>(t.u(0, 2));
    cs.A = gen_sdd(t, g, vcls);
    cs.pc = gen_precond(t, cs.prm, "precond.", PrecondOpts(g.n));
    // pointwise aggregation of a scalar matrix (aggr.block_size): the size must be divisible
    int bs = 0;
    if (!cs.pc.single_level && cs.pc.ci != 2 && t.chance(1, 5)) { bs = static_cast<int>(t.u(2, 3)); if (g.n % bs == 0) cs.prm.put("precond.coarsening.aggr.block_size", bs); else bs = 0; }
    cs.sc = gen_solver(t, cs.prm, "solver.", g.n);
    cs.mode = static_cast<int>(t.u(0, cs.pc.single_level ? 6 : 7));
    bool may_shuffle = cs.mode == 1 || cs.mode == 3 || cs.mode == 4 || cs.mode == 5 || cs.mode == 7;
    bool shuffled = may_shuffle && t.b() ? shuffle_rows(t, cs.A) : false;
    cs.reverse_cm = t.b(); cs.scale_in_place = t.b();
    bool no_rebuild = false;
    if (cs.mode == 7) {
        // second matrix: same size; values rescaled, some couplings dropped, diagonal re-established (strictly dominant)
        cs.rebuild_shared = t.b();
        bool drop = t.b();
        std::vector<std::map<ptrdiff_t, double>> rows(g.n);
        for (ptrdiff_t i = 0; i < cs.A.n; ++i) for (ptrdiff_t j = cs.A.ptr[i]; j < cs.A.ptr[i + 1]; ++j) if (cs.A.col[j] != i && !(drop && t.chance(1, 6))) rows[i][cs.A.col[j]] = cs.A.val[j] * t.logu(0.5, 2.0);
        for (int i = 0; i < g.n; ++i) { double s = 0; for (auto &kv : rows[i]) s += std::abs(kv.second); rows[i][i] = s + t.logu(0.05, 2.0); }
        cs.A2 = from_triplets<double>(g.n, g.n, rows);
        if (!cs.rebuild_shared && t.b()) shuffle_rows(t, cs.A2);
        if (t.chance(1, 8)) { cs.prm.put("precond.allow_rebuild", false); no_rebuild = true; }
        else if (t.b()) cs.prm.put("precond.allow_rebuild", true);
    }
    cs.f = gen_vec(t, g.n, static_cast<int>(t.u(0, 3)));
    cs.v1 = gen_vec(t, g.n, 2);
    cs.prehist = gen_prehist(t);
    degenerate = cls <= 3 || vcls == 2 || cs.pc.degenerate();
    c.label("class:" + dclass); c.label(std::string("vals:") + vcls_name(vcls)); c.label(std::string("adapter:") + MODE[cs.mode]);
    if (cs.mode == 4) c.label(cs.reverse_cm ? "reorder:reverse" : "reorder:forward");
    if (cs.mode == 5) c.label(cs.scale_in_place ? "scale:in-place" : "scale:rhs-copy");
    if (cs.mode == 7) c.label(no_rebuild ? "rebuild:not-allowed" : cs.rebuild_shared ? "rebuild:shared_ptr" : "rebuild:tuple");
    c.label(shuffled ? "rows:shuffled" : "rows:sorted");
    if (bs) c.label("pointwise-aggregates");
    c.label(cs.pc.single_level ? "single-level" : std::string("c:") + COARSE[cs.pc.ci]);
    c.label(std::string("r:") + RELAX[cs.pc.ri]); c.label(std::string("s:") + SOLVER[cs.sc.si]);
    if (cs.pc.ns_cols) c.label("nullspace");
    if (!cs.pc.single_level && cs.pc.ml == 1) c.label("max_levels=1");
    if (!cs.pc.single_level && cs.pc.ce <= 2) c.label("tiny-coarse_enough");
    c.desc << "adapter " << MODE[cs.mode] << " " << dclass << "/" << g.family << " n=" << g.n << " nnz=" << cs.A.nnz() << " vcls=" << vcls << (shuffled ? " shuffled" : "") << " " << cs.pc.str() << (bs ? " aggr.block_size=" + std::to_string(bs) : "")
           << " " << cs.sc.str() << " prehist=" << cs.prehist.size() << " A=" << dump_small(cs.A, 6) << (cs.mode == 7 ? " A2=" + dump_small(cs.A2, 6) : "");
    return cs;
}

static void prop_determinism_adapters(Tape &t, Ctx &c) {
    bool degenerate;
    Case cs = decode(t, c, degenerate);
    uint64_t rseed = static_cast<uint64_t>(t.u(1, 1 << 30));
    size_t levels = 1;
    differential(c, rseed, [&](Digest &D, bool pre) { if (cs.pc.single_level) execute<RLX>(cs, D, pre, levels); else execute<AMG>(cs, D, pre, levels); }, true);
    c.label("levels=" + std::to_string(std::min<size_t>(levels, 4)));
    c.nontrivial = degenerate || levels >= 2;
}

static std::vector<Prop> props() {
    return {Prop("determinism_adapters", prop_determinism_adapters, 1500, 15000, 100, 30, {1}, 4, 12)};
}
static std::vector<Enum> enums() { return {}; }
VF_MAIN(props(), enums())
