// C14 (e) compile probe + (a) for the deflated solver: deflated_solver<...>::get_params() / params::get(ptree) must instantiate
// (base tree: the value parameters nvec/vec were exported as child trees, which did not compile).
#define C14_NO_RUNTIME_PRECOND
#define C14_NO_COMPOSITES
#include "c14_check.hpp"
#include "c14_equiv.hpp"
#include <amgcl/deflated_solver.hpp>
using namespace vf;
using namespace c14;
namespace c14 {
typedef amgcl::amg<B, co::smoothed_aggregation, re::spai0> AMG;
typedef amgcl::deflated_solver<AMG, so::cg<B>> DS;
C14_AMG_DESC(AMG)
C14_DESC(DS::params) { v.value("nvec", &P::nvec, DIM); v.value("vec", &P::vec, PTR); v.child("precond", &P::precond); v.child("solver", &P::solver); }
}
// the parameter structure alone: nvec and vec are plain values here (the address is stored, not dereferenced)
static void prop_params(Tape &t, Ctx &c) { test_struct<DS::params>(t, c, "deflated_solver<amg<sa,spai0>,cg>"); }
// a constructed deflated solver: vec must describe nvec x n doubles
static void prop_object(Tape &t, Ctx &c) {
    auto fix = [](GenCtx &g, ptree &pt, DS::params &model, const System &s) {
        int nvec = static_cast<int>(g.t.u(1, 2));
        double *z = g.arena.doubles(static_cast<size_t>(nvec) * s.n);
        for (size_t i = 0; i < s.n; ++i) { z[i] = 1.0; if (nvec > 1) z[s.n + i] = (i % 2) ? 1.0 : -0.5; }
        if (!pt.get_optional<std::string>("nvec")) ++g.nset;
        if (!pt.get_optional<std::string>("vec")) ++g.nset;
        pt.put("nvec", nvec); pt.put("vec", z);
        model.nvec = nvec; model.vec = z;
        g.log << " nvec:=" << nvec << " vec:=<" << nvec << "x" << s.n << ">";
    };
    object_export_case<DS>(t, c, "deflated_solver::get_params", fix, [](const DS &s, ptree &out) { s.get_params(out); });
}
static std::vector<Prop> props() { return {Prop("probe_deflated_params", prop_params, 600, 6000, 100, 8, {1}, 1, 2), Prop("probe_deflated_object", prop_object, 150, 1500, 100, 4, {1}, 1, 2)}; }
static std::vector<Enum> enums() { return {}; }
VF_MAIN(props(), enums())
