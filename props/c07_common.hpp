// C07 — shared machinery for the backend-primitive harnesses (c07_builtin / c07_block / c07_eigen).
//
// Model: every vector of rhs-type elements (scalar, complex, b x 1 block) is "flattened" into a sequence of
// complex numbers held in __float128 (113-bit mantissa, so it is a strictly more precise reference for float,
// double and long double alike).  The defining formula of each primitive is evaluated on the flattened data
// straight from the harness-owned CSR arrays.  Two value modes:
//   exact : small integers everywhere  -> every operation of the kernel is exact in every tested type,
//           the comparison with the reference is bitwise (==);
//   real  : random reals              -> |got-ref| <= 2*(k+6)*u_T*S with k the number of accumulated terms and
//           S = sum of the absolute values of the terms of the formula (written next to each check).
#pragma once
#include <complex>
#include <limits>
#include <type_traits>
#include <amgcl/backend/builtin.hpp>
#include <amgcl/value_type/static_matrix.hpp>
#include <amgcl/value_type/complex.hpp>
#include "../common/harness.hpp"
#include "../common/gen.hpp"
#include "../common/amgcl_util.hpp"

#include <fstream>
#include <iterator>
#include <unistd.h>

namespace c07 {
using namespace vf;
namespace ab = amgcl::backend;

// Every case runs dozens of tiny OpenMP regions.  With libgomp's default active (spinning) wait policy the 4- and
// 17-thread jobs slow down by two orders of magnitude as soon as the machine is oversubscribed (measured: quick tier
// 809 s vs 21 s).  The policy is read when libgomp is loaded, so the only way to select passive waiting from inside the
// harness is to set the variable and re-exec once, before main().  Results do not depend on the policy.
#ifndef VF_FUZZ
namespace {
struct PassiveOmpWait {
    PassiveOmpWait() {
        if (getenv("OMP_WAIT_POLICY")) return;
        setenv("OMP_WAIT_POLICY", "passive", 1);
        std::ifstream f("/proc/self/cmdline", std::ios::binary);
        std::string s((std::istreambuf_iterator<char>(f)), std::istreambuf_iterator<char>());
        std::vector<std::string> args;
        for (size_t b = 0; b < s.size();) { size_t e = s.find('\0', b); if (e == std::string::npos) e = s.size(); args.push_back(s.substr(b, e - b)); b = e + 1; }
        if (args.empty()) return;
        std::vector<char *> argv;
        for (auto &a : args) argv.push_back(const_cast<char *>(a.c_str()));
        argv.push_back(nullptr);
        execv("/proc/self/exe", argv.data()); // on failure: carry on with the default policy
    }
} passive_omp_wait_;
} // namespace
#endif

typedef __float128 Ref;
inline Ref rabs(Ref x) { return x < 0 ? -x : x; }
inline long double ld(Ref x) { return static_cast<long double>(x); }

struct RC {
    Ref re, im;
    RC() : re(0), im(0) {}
    RC(Ref r, Ref i = 0) : re(r), im(i) {}
};
inline RC operator+(RC a, RC b) { return RC(a.re + b.re, a.im + b.im); }
inline RC operator-(RC a, RC b) { return RC(a.re - b.re, a.im - b.im); }
inline RC operator*(RC a, RC b) { return RC(a.re * b.re - a.im * b.im, a.re * b.im + a.im * b.re); }
inline RC conj(RC a) { return RC(a.re, -a.im); }
inline Ref mag(RC a) { return rabs(a.re) + rabs(a.im); }          // >= |a|, <= sqrt(2)|a|
inline bool iszero(RC a) { return a.re == 0 && a.im == 0; }
inline std::ostream &operator<<(std::ostream &os, RC a) {
    os.precision(21);
    if (a.im == 0) return os << ld(a.re);
    return os << "(" << ld(a.re) << "," << ld(a.im) << ")";
}
typedef std::vector<RC> Flat;

// ------------------------------------------------------------------ scalar helpers
template <class S> struct is_cplx : std::false_type {};
template <class S> struct is_cplx<std::complex<S>> : std::true_type {};

template <class S> const char *sname();
template <> inline const char *sname<float>() { return "float"; }
template <> inline const char *sname<double>() { return "double"; }
template <> inline const char *sname<long double>() { return "longdouble"; }

template <class S> Ref unit_roundoff() { return static_cast<Ref>(std::numeric_limits<S>::epsilon()) / 2; }

// real scalar: exact -> small integer, otherwise a random real that uses the whole mantissa of S
template <class S> S gen_real(Tape &t, bool exact, int maxabs) {
    if (exact) return static_cast<S>(t.u(-maxabs, maxabs));
    int kind = static_cast<int>(t.u(0, 3));
    long double v = kind == 3 ? static_cast<long double>(t.slogu(1e-3, 1e3)) : static_cast<long double>(t.uni(-1.0, 1.0));
    // second word fills the low mantissa bits (a long double silently truncated to double must be visible)
    v += static_cast<long double>(t.uni(-1.0, 1.0)) * 0x1p-33L * (kind == 3 ? 1e-3L : 1.0L);
    return static_cast<S>(v);
}

// a non-finite / garbage scalar for outputs that must be overwritten
template <class S> S poison_scalar(Tape &t) {
    switch (t.u(0, 3)) {
    case 0: return std::numeric_limits<S>::quiet_NaN();
    case 1: return std::numeric_limits<S>::infinity();
    case 2: return -std::numeric_limits<S>::infinity();
    default: return std::numeric_limits<S>::max();
    }
}

// ------------------------------------------------------------------ element traits (vector elements and matrix values)
template <class E, class Enable = void> struct ET;

template <class S>
struct ET<S, typename std::enable_if<std::is_floating_point<S>::value>::type> {
    typedef S scalar;
    static const int rows = 1, cols = 1, N = 1;
    static const bool cplx = false;
    static RC get(const S &e, int) { return RC(static_cast<Ref>(e)); }
    static void gen(Tape &t, S &e, bool exact, int m) { e = gen_real<S>(t, exact, m); }
    static void poison(Tape &t, S &e) { e = poison_scalar<S>(t); }
    static bool finite(const S &e) { return std::isfinite(e); }
    static bool same(const S &a, const S &b) { return a == b; }
    static std::string name() { return sname<S>(); }
};

template <class S>
struct ET<std::complex<S>> {
    typedef S scalar;
    static const int rows = 1, cols = 1, N = 1;
    static const bool cplx = true;
    static RC get(const std::complex<S> &e, int) { return RC(static_cast<Ref>(e.real()), static_cast<Ref>(e.imag())); }
    static void gen(Tape &t, std::complex<S> &e, bool exact, int m) { S re = gen_real<S>(t, exact, m), im = gen_real<S>(t, exact, m); e = std::complex<S>(re, im); }
    static void poison(Tape &t, std::complex<S> &e) { S re = poison_scalar<S>(t), im = poison_scalar<S>(t); e = std::complex<S>(re, im); }
    static bool finite(const std::complex<S> &e) { return std::isfinite(e.real()) && std::isfinite(e.imag()); }
    static bool same(const std::complex<S> &a, const std::complex<S> &b) { return a == b; }
    static std::string name() { return std::string("complex<") + sname<S>() + ">"; }
};

template <class S, int R, int C>
struct ET<amgcl::static_matrix<S, R, C>> {
    typedef amgcl::static_matrix<S, R, C> E;
    typedef S scalar;
    static const int rows = R, cols = C, N = R * C;
    static const bool cplx = false;
    static RC get(const E &e, int k) { return RC(static_cast<Ref>(e(k))); }
    static void gen(Tape &t, E &e, bool exact, int m) { for (int k = 0; k < N; ++k) e(k) = gen_real<S>(t, exact, m); }
    static void poison(Tape &t, E &e) { for (int k = 0; k < N; ++k) e(k) = poison_scalar<S>(t); }
    static bool finite(const E &e) { for (int k = 0; k < N; ++k) if (!std::isfinite(e(k))) return false; return true; }
    static bool same(const E &a, const E &b) { for (int k = 0; k < N; ++k) if (!(a(k) == b(k))) return false; return true; }
    static std::string name() { return "static_matrix<" + std::string(sname<S>()) + "," + std::to_string(R) + "," + std::to_string(C) + ">"; }
};

template <class S, int R, int C>
struct ET<amgcl::static_matrix<std::complex<S>, R, C>> {
    typedef amgcl::static_matrix<std::complex<S>, R, C> E;
    typedef S scalar;
    static const int rows = R, cols = C, N = R * C;
    static const bool cplx = true;
    static RC get(const E &e, int k) { return RC(static_cast<Ref>(e(k).real()), static_cast<Ref>(e(k).imag())); }
    static void gen(Tape &t, E &e, bool exact, int m) { for (int k = 0; k < N; ++k) { S re = gen_real<S>(t, exact, m), im = gen_real<S>(t, exact, m); e(k) = std::complex<S>(re, im); } }
    static void poison(Tape &t, E &e) { for (int k = 0; k < N; ++k) { S re = poison_scalar<S>(t), im = poison_scalar<S>(t); e(k) = std::complex<S>(re, im); } }
    static bool finite(const E &e) { for (int k = 0; k < N; ++k) if (!std::isfinite(e(k).real()) || !std::isfinite(e(k).imag())) return false; return true; }
    static bool same(const E &a, const E &b) { for (int k = 0; k < N; ++k) if (!(a(k) == b(k))) return false; return true; }
    static std::string name() { return "static_matrix<complex<" + std::string(sname<S>()) + ">," + std::to_string(R) + "," + std::to_string(C) + ">"; }
};

// matrix value type -> rhs type, block size
template <class V> struct VT {
    typedef typename amgcl::math::rhs_of<V>::type rhs;
    typedef typename amgcl::math::scalar_of<V>::type scalar;
    static const int B = amgcl::math::static_rows<V>::value;
    static const bool cplx = ET<V>::cplx;
    typedef typename std::conditional<ET<V>::cplx, std::complex<scalar>, scalar>::type cscalar; // complex coefficient type
    static std::string name() { return ET<V>::name(); }
};

// ------------------------------------------------------------------ containers
template <class E> std::vector<E> gen_vec(Tape &t, size_t n, bool exact, int maxabs) {
    std::vector<E> x(n);
    for (size_t i = 0; i < n; ++i) ET<E>::gen(t, x[i], exact, maxabs);
    return x;
}
template <class E> void poison_vec(Tape &t, std::vector<E> &x) {
    // one poison draw per vector plus a tape-chosen phase keeps the tape short but still mixes NaN and Inf
    for (size_t i = 0; i < x.size(); ++i) {
        if (i < 4) ET<E>::poison(t, x[i]); else x[i] = x[i % 4];
    }
}
template <class Vec> Flat flat(const Vec &x) {
    typedef typename ab::value_type<Vec>::type E;
    Flat f; f.reserve(x.size() * ET<E>::N);
    for (size_t i = 0; i < x.size(); ++i) for (int k = 0; k < ET<E>::N; ++k) f.push_back(ET<E>::get(x[i], k));
    return f;
}
template <class Vec> bool all_finite(const Vec &x) {
    typedef typename ab::value_type<Vec>::type E;
    for (size_t i = 0; i < x.size(); ++i) if (!ET<E>::finite(x[i])) return false;
    return true;
}
// flatten a vector of blocks into a plain scalar vector (the "scalar vector where a block vector is expected" form)
template <class E> std::vector<typename ET<E>::scalar> scalars_of(const std::vector<E> &x) {
    static_assert(!ET<E>::cplx, "real blocks only");
    std::vector<typename ET<E>::scalar> s; s.reserve(x.size() * ET<E>::N);
    for (size_t i = 0; i < x.size(); ++i) for (int k = 0; k < ET<E>::N; ++k) s.push_back(static_cast<typename ET<E>::scalar>(ld(ET<E>::get(x[i], k).re)));
    return s;
}

// ------------------------------------------------------------------ coefficients
// class: 0 zero (incl. -0.0), 1 one, 2 minus one, 3 other
template <class K> struct Coef { K v; int cls; RC r; };

template <class K>
typename std::enable_if<!is_cplx<K>::value, Coef<K>>::type gen_coef(Tape &t, bool exact) {
    Coef<K> c;
    int w = static_cast<int>(t.u(0, 9));
    if (w <= 2) { c.v = w == 2 ? static_cast<K>(-0.0) : static_cast<K>(0); c.cls = 0; }
    else if (w <= 4) { c.v = 1; c.cls = 1; }
    else if (w == 5) { c.v = -1; c.cls = 2; }
    else {
        c.v = exact ? static_cast<K>(t.u(-4, 4)) : gen_real<K>(t, false, 0) * 2;
        c.cls = c.v == 0 ? 0 : c.v == 1 ? 1 : c.v == -1 ? 2 : 3;
    }
    c.r = RC(static_cast<Ref>(c.v));
    return c;
}
template <class K>
typename std::enable_if<is_cplx<K>::value, Coef<K>>::type gen_coef(Tape &t, bool exact) {
    typedef typename K::value_type S;
    Coef<K> c;
    int w = static_cast<int>(t.u(0, 9));
    if (w <= 2) { c.v = K(w == 2 ? static_cast<S>(-0.0) : static_cast<S>(0), 0); c.cls = 0; }
    else if (w <= 4) { c.v = K(1, 0); c.cls = 1; }
    else if (w == 5) { c.v = K(-1, 0); c.cls = 2; }
    else {
        S re = exact ? static_cast<S>(t.u(-3, 3)) : gen_real<S>(t, false, 0) * 2;
        S im = exact ? static_cast<S>(t.u(-3, 3)) : gen_real<S>(t, false, 0) * 2;
        c.v = K(re, im);
        c.cls = (re == 0 && im == 0) ? 0 : (re == 1 && im == 0) ? 1 : (re == -1 && im == 0) ? 2 : 3;
    }
    c.r = RC(static_cast<Ref>(c.v.real()), static_cast<Ref>(c.v.imag()));
    return c;
}
inline const char *cls_name(int c) { return c == 0 ? "0" : c == 1 ? "1" : c == 2 ? "-1" : "r"; }

// ------------------------------------------------------------------ matrices
// random sparse n x m pattern (empty rows, any shape) with values of type V
template <class V>
Csr<V> gen_matrix(Tape &t, ptrdiff_t n, ptrdiff_t m, bool exact, bool sorted, int maxabs = 6) {
    Csr<double> S = gen_sparse_int(t, n, m, 1, sorted);
    Csr<V> A; A.n = n; A.m = m; A.ptr = S.ptr; A.col = S.col; A.val.resize(S.val.size());
    for (auto &v : A.val) ET<V>::gen(t, v, exact, maxabs);
    return A;
}

// y_ref = A x on flattened data straight from the CSR arrays; absum_i = sum_j |a_ij||x_j|, terms_i = number of scalar terms
template <class V>
void ref_matvec(const Csr<V> &A, const Flat &x, Flat &y, std::vector<Ref> &absum, std::vector<int> &terms) {
    const int B = ET<V>::rows; // square blocks
    y.assign(static_cast<size_t>(A.n * B), RC()); absum.assign(y.size(), 0); terms.assign(y.size(), 0);
    for (ptrdiff_t i = 0; i < A.n; ++i)
        for (ptrdiff_t j = A.ptr[i]; j < A.ptr[i + 1]; ++j)
            for (int a = 0; a < B; ++a) for (int b = 0; b < B; ++b) {
                RC v = ET<V>::get(A.val[j], a * B + b), xv = x[static_cast<size_t>(A.col[j] * B + b)];
                y[i * B + a] = y[i * B + a] + v * xv;
                absum[i * B + a] += mag(v) * mag(xv);
                ++terms[i * B + a];
            }
}

// ------------------------------------------------------------------ comparison
// exact: bitwise; otherwise |got-ref| (max of component errors) <= 2*(k+6)*u*S*(complex ? 4 : 1)
struct Cmp {
    bool exact; Ref u; bool cplx;
    void check(const Flat &got, const Flat &ref, const std::vector<Ref> &scale, const std::vector<int> &terms, const std::string &what) const {
        VF_REQUIRE(got.size() == ref.size(), what << ": size " << got.size() << " vs " << ref.size());
        for (size_t i = 0; i < ref.size(); ++i) {
            if (exact) {
                VF_REQUIRE(got[i].re == ref[i].re && got[i].im == ref[i].im, what << ": component " << i << " = " << got[i] << ", defining formula gives " << ref[i] << " (exact operands)");
            } else {
                Ref err = std::max(rabs(got[i].re - ref[i].re), rabs(got[i].im - ref[i].im));
                Ref tol = 2 * static_cast<Ref>(terms[i] + 6) * u * scale[i] * (cplx ? 4 : 1);
                VF_REQUIRE(err <= tol, what << ": component " << i << " = " << got[i] << ", reference " << ref[i] << ", |diff|=" << ld(err) << " > bound " << ld(tol) << " = 2*(" << terms[i] << "+6)*u*S, S=" << ld(scale[i]));
            }
        }
    }
};

template <class VecA, class VecB>
void require_same(const VecA &a, const VecB &b, const std::string &what) {
    Flat fa = flat(a), fb = flat(b);
    VF_REQUIRE(fa.size() == fb.size(), what << ": size " << fa.size() << " vs " << fb.size());
    for (size_t i = 0; i < fa.size(); ++i)
        VF_REQUIRE(fa[i].re == fb[i].re && fa[i].im == fb[i].im, what << ": component " << i << ": " << fa[i] << " vs " << fb[i] << " (must be identical)");
}

inline void gen_shape(Tape &t, ptrdiff_t &n, ptrdiff_t &m, int big) {
    int cls = static_cast<int>(t.u(0, 3));
    int hi = cls == 0 ? 3 : cls == 1 ? 9 : cls == 2 ? 40 : big;
    n = t.u(0, hi);
    m = t.b() ? t.u(0, hi) : n;
}

template <class V> std::string dump_vals(const Csr<V> &A, ptrdiff_t maxn = 6) {
    if (A.n > maxn || A.nnz() > 24) return "";
    std::ostringstream os; os << "{";
    for (ptrdiff_t i = 0; i < A.n; ++i) {
        os << (i ? "; " : "");
        for (ptrdiff_t j = A.ptr[i]; j < A.ptr[i + 1]; ++j) {
            os << (j > A.ptr[i] ? " " : "") << A.col[j] << ":";
            if (ET<V>::N == 1) os << ET<V>::get(A.val[j], 0);
            else { os << "["; for (int k = 0; k < ET<V>::N; ++k) os << (k ? "," : "") << ET<V>::get(A.val[j], k); os << "]"; }
        }
    }
    os << "}";
    return os.str();
}
template <class Vec> std::string dump_vec(const Vec &x, size_t maxn = 8) {
    Flat f = flat(x);
    if (f.size() > maxn) return "";
    std::ostringstream os; os << "[";
    for (size_t i = 0; i < f.size(); ++i) os << (i ? " " : "") << f[i];
    os << "]";
    return os.str();
}

// ================================================================== generic props for the builtin backend
// (instantiated for scalar / complex / static_matrix values in c07_builtin.cpp and for Eigen block values in c07_eigen.cpp)

// ---- spmv / residual on crs<V>
template <class V, class K>
void run_matvec(Tape &t, Ctx &c, bool exact, int op) {
    // coefficients are decoded first so that they never fall off the end of the tape
    Coef<K> alpha = gen_coef<K>(t, exact), beta = gen_coef<K>(t, exact);
    ptrdiff_t n_, m_; gen_shape(t, n_, m_, 150);
    bool sorted = !t.b();
    Csr<V> A = gen_matrix<V>(t, n_, m_, exact, sorted);
    ptrdiff_t empty_rows = 0; for (ptrdiff_t i = 0; i < A.n; ++i) empty_rows += A.ptr[i] == A.ptr[i + 1];
    c.desc << "builtin<" << VT<V>::name() << "> threads=" << c.threads << " " << describe(A) << (exact ? " exact" : " real") << (sorted ? " sorted" : " unsorted") << " A=" << dump_vals(A);
    c.label(A.n == 0 ? "zero-rows" : A.m == 0 ? "zero-cols" : A.n != A.m ? "rectangular" : "square");
    if (empty_rows > 0 && A.n > 0) c.label("has-empty-rows");
    typedef typename VT<V>::rhs R;
    typedef typename VT<V>::scalar S;
    const int B = VT<V>::B;
    const ptrdiff_t n = A.n, m = A.m;
    Cmp cmp{exact, unit_roundoff<S>(), VT<V>::cplx};
    auto a = to_crs<V>(A);
    std::vector<R> xh = gen_vec<R>(t, m, exact, 5);
    Flat xf = flat(xh), ax; std::vector<Ref> absum; std::vector<int> terms;
    ref_matvec(A, xf, ax, absum, terms);
    bool ragged_like = n != m;
    if (op == 0) { // y = alpha A x + beta y
        std::vector<R> y0 = gen_vec<R>(t, n, exact, 5);
        bool poisoned = beta.cls == 0;
        if (poisoned) poison_vec(t, y0);
        c.desc << " spmv alpha=" << alpha.r << " beta=" << beta.r << (poisoned ? " y:=non-finite" : "") << " x=" << dump_vec(xh) << (poisoned ? "" : " y=" + dump_vec(y0));
        c.label(std::string("spmv beta:") + cls_name(beta.cls)); c.label(std::string("spmv alpha:") + cls_name(alpha.cls));
        c.nontrivial = (poisoned && n > 0) || (B > 1 && n > 0) || (ragged_like && A.nnz() > 0);
        Flat yf = poisoned ? Flat(static_cast<size_t>(n * B)) : flat(y0), ref(yf.size()); std::vector<Ref> scale(yf.size());
        for (size_t i = 0; i < ref.size(); ++i) {
            ref[i] = alpha.r * ax[i]; scale[i] = mag(alpha.r) * absum[i];
            if (!poisoned) { ref[i] = ref[i] + beta.r * yf[i]; scale[i] += mag(beta.r) * mag(yf[i]); }
        }
        // (a) numa_vector input, std::vector output
        ab::numa_vector<R> xs(xh); std::vector<R> ys(y0);
        ab::spmv(alpha.v, *a, xs, beta.v, ys);
        VF_REQUIRE(all_finite(ys), "spmv: non-finite output (beta=" << beta.r << ", output pre-filled with " << (poisoned ? "non-finite garbage" : "finite data") << ")");
        cmp.check(flat(ys), ref, scale, terms, "spmv y=alpha*A*x+beta*y");
        // (b) std::vector input, numa_vector output: identical
        { std::vector<R> x2(xh); ab::numa_vector<R> y2(y0); ab::spmv(alpha.v, *a, x2, beta.v, y2); require_same(y2, ys, "spmv(std::vector x, numa_vector y) vs spmv(numa_vector x, std::vector y)"); }
        if constexpr (VT<V>::B > 1 && !VT<V>::cplx) {
            // scalar vectors where block vectors are expected (builtin reinterpretation): identical results
            std::vector<S> xsc = scalars_of(xh), y0sc = scalars_of(y0);
            int mix = static_cast<int>(t.u(0, 2));
            c.label("mixed-scalar-block");
            // regression region (fixed cdd07a9): reinterpret_as_rhs formed &x[0] of an empty std::vector (UBSan)
            if ((mix == 2 ? m : n) == 0) c.label("mixed-with-empty-std-vector");
            if (mix == 0) { ab::numa_vector<S> x3(xsc); std::vector<S> y3(y0sc); ab::spmv(alpha.v, *a, x3, beta.v, y3); require_same(y3, ys, "spmv with scalar x and scalar y vs block vectors"); }
            else if (mix == 1) { ab::numa_vector<S> x3(xsc); std::vector<R> y3(y0); ab::spmv(alpha.v, *a, x3, beta.v, y3); require_same(y3, ys, "spmv with scalar x and block y vs block vectors"); }
            else { std::vector<R> x3(xh); ab::numa_vector<S> y3(y0sc); ab::spmv(alpha.v, *a, x3, beta.v, y3); require_same(y3, ys, "spmv with block x and scalar y vs block vectors"); }
        }
    } else { // r = f - A x
        std::vector<R> fh = gen_vec<R>(t, n, exact, 5);
        std::vector<R> r0(n); poison_vec(t, r0);
        c.desc << " residual r:=non-finite f=" << dump_vec(fh) << " x=" << dump_vec(xh);
        c.label("residual");
        c.nontrivial = n > 0 && (A.nnz() > 0);
        Flat ff = flat(fh), ref(ff.size()); std::vector<Ref> scale(ff.size());
        for (size_t i = 0; i < ref.size(); ++i) { ref[i] = ff[i] - ax[i]; scale[i] = mag(ff[i]) + absum[i]; }
        std::vector<R> fs(fh); ab::numa_vector<R> xs(xh), rs(r0);
        ab::residual(fs, *a, xs, rs);
        VF_REQUIRE(all_finite(rs), "residual: non-finite output although f, A, x are finite (r was pre-filled with non-finite garbage)");
        cmp.check(flat(rs), ref, scale, terms, "residual r=f-A*x");
        if constexpr (VT<V>::B > 1 && !VT<V>::cplx) {
            std::vector<S> xsc = scalars_of(xh), fsc = scalars_of(fh), rsc = scalars_of(r0);
            int mix = static_cast<int>(t.u(0, 2));
            c.label("mixed-scalar-block");
            if (n == 0) c.label("mixed-with-empty-std-vector");
            if (mix == 0) { std::vector<S> f3(fsc), r3(rsc); ab::numa_vector<S> x3(xsc); ab::residual(f3, *a, x3, r3); require_same(r3, rs, "residual with scalar f,x,r vs block vectors"); }
            else if (mix == 1) { std::vector<S> f3(fsc); ab::numa_vector<R> x3(xh), r3(r0); ab::residual(f3, *a, x3, r3); require_same(r3, rs, "residual with scalar f, block x,r vs block vectors"); }
            else { std::vector<R> f3(fh); ab::numa_vector<R> x3(xh); std::vector<S> r3(rsc); ab::residual(f3, *a, x3, r3); require_same(r3, rs, "residual with block f,x and scalar r vs block vectors"); }
        }
    }
}

template <class V>
void prop_matvec(Tape &t, Ctx &c) {
    bool exact = !t.b();
    int op = static_cast<int>(t.u(0, 2)) == 2 ? 1 : 0; // spmv twice as often as residual
    c.label(exact ? "mode:exact" : "mode:real");
    if constexpr (VT<V>::cplx) {
        if (t.b()) { c.label("coef:complex"); run_matvec<V, typename VT<V>::cscalar>(t, c, exact, op); }
        else { c.label("coef:real"); run_matvec<V, typename VT<V>::scalar>(t, c, exact, op); }
    } else {
        run_matvec<V, typename VT<V>::scalar>(t, c, exact, op);
    }
}

// ---- vector primitives: axpby, axpbypcz, vmul, lin_comb, copy, clear
template <class V, class K>
void run_vecops(Tape &t, Ctx &c, bool exact) {
    typedef typename VT<V>::rhs R;
    typedef typename VT<V>::scalar S;
    const int B = VT<V>::B;
    Cmp cmp{exact, unit_roundoff<S>(), VT<V>::cplx};
    int op = static_cast<int>(t.u(0, 5));
    // coefficients are decoded first so that they never fall off the end of the tape
    Coef<K> k1 = gen_coef<K>(t, exact), k2 = gen_coef<K>(t, exact), k3 = gen_coef<K>(t, exact);
    int cls = static_cast<int>(t.u(0, 2));
    size_t n = static_cast<size_t>(t.u(0, cls == 0 ? 4 : cls == 1 ? 30 : 300));
    c.desc << "builtin<" << VT<V>::name() << "> threads=" << c.threads << " n=" << n << (exact ? " exact" : " real");
    c.label(exact ? "mode:exact" : "mode:real");
    std::vector<int> terms(n * B, 0);
    switch (op) {
    case 0: { // y = a x + b y
        Coef<K> a = k1, b = k2;
        std::vector<R> xh = gen_vec<R>(t, n, exact, 9), y0 = gen_vec<R>(t, n, exact, 9);
        bool poisoned = b.cls == 0; if (poisoned) poison_vec(t, y0);
        c.desc << " axpby a=" << a.r << " b=" << b.r << (poisoned ? " y:=non-finite" : "") << " x=" << dump_vec(xh);
        c.label(std::string("axpby b:") + cls_name(b.cls));
        c.nontrivial = n > 0 && (poisoned || B > 1 || (a.cls == 3 && b.cls == 3));
        Flat xf = flat(xh), yf = poisoned ? Flat(n * B) : flat(y0), ref(n * B); std::vector<Ref> scale(n * B);
        for (size_t i = 0; i < ref.size(); ++i) { ref[i] = a.r * xf[i]; scale[i] = mag(a.r) * mag(xf[i]); if (!poisoned) { ref[i] = ref[i] + b.r * yf[i]; scale[i] += mag(b.r) * mag(yf[i]); } }
        std::vector<R> xs(xh); ab::numa_vector<R> ys(y0);
        ab::axpby(a.v, xs, b.v, ys);
        VF_REQUIRE(all_finite(ys), "axpby: non-finite output (b=" << b.r << ")");
        cmp.check(flat(ys), ref, scale, terms, "axpby y=a*x+b*y");
        { ab::numa_vector<R> x2(xh); std::vector<R> y2(y0); ab::axpby(a.v, x2, b.v, y2); require_same(y2, ys, "axpby container variants"); }
        break; }
    case 1: { // z = a x + b y + c z
        Coef<K> a = k1, b = k2, cc = k3;
        std::vector<R> xh = gen_vec<R>(t, n, exact, 9), yh = gen_vec<R>(t, n, exact, 9), z0 = gen_vec<R>(t, n, exact, 9);
        bool poisoned = cc.cls == 0; if (poisoned) poison_vec(t, z0);
        c.desc << " axpbypcz a=" << a.r << " b=" << b.r << " c=" << cc.r << (poisoned ? " z:=non-finite" : "");
        c.label(std::string("axpbypcz c:") + cls_name(cc.cls));
        c.nontrivial = n > 0 && (poisoned || B > 1 || (a.cls == 3 && b.cls == 3));
        Flat xf = flat(xh), yf = flat(yh), zf = poisoned ? Flat(n * B) : flat(z0), ref(n * B); std::vector<Ref> scale(n * B);
        for (size_t i = 0; i < ref.size(); ++i) {
            ref[i] = a.r * xf[i] + b.r * yf[i]; scale[i] = mag(a.r) * mag(xf[i]) + mag(b.r) * mag(yf[i]);
            if (!poisoned) { ref[i] = ref[i] + cc.r * zf[i]; scale[i] += mag(cc.r) * mag(zf[i]); }
        }
        ab::numa_vector<R> xs(xh); std::vector<R> ys(yh), zs(z0);
        ab::axpbypcz(a.v, xs, b.v, ys, cc.v, zs);
        VF_REQUIRE(all_finite(zs), "axpbypcz: non-finite output (c=" << cc.r << ")");
        cmp.check(flat(zs), ref, scale, terms, "axpbypcz z=a*x+b*y+c*z");
        break; }
    case 2: { // z = a x .* y + b z ; x holds matrix values (the diagonal), y and z rhs values
        Coef<K> a = k1, b = k2;
        std::vector<V> xh = gen_vec<V>(t, n, exact, 9);
        std::vector<R> yh = gen_vec<R>(t, n, exact, 9), z0 = gen_vec<R>(t, n, exact, 9);
        bool poisoned = b.cls == 0; if (poisoned) poison_vec(t, z0);
        c.desc << " vmul a=" << a.r << " b=" << b.r << (poisoned ? " z:=non-finite" : "");
        c.label(std::string("vmul b:") + cls_name(b.cls));
        c.nontrivial = n > 0 && (poisoned || B > 1 || (a.cls == 3 && b.cls == 3));
        Flat yf = flat(yh), zf = poisoned ? Flat(n * B) : flat(z0), ref(n * B); std::vector<Ref> scale(n * B);
        for (size_t i = 0; i < n; ++i) for (int p = 0; p < B; ++p) {
            RC s; Ref as = 0;
            for (int q = 0; q < B; ++q) { RC v = ET<V>::get(xh[i], p * B + q); s = s + v * yf[i * B + q]; as += mag(v) * mag(yf[i * B + q]); }
            ref[i * B + p] = a.r * s; scale[i * B + p] = mag(a.r) * as; terms[i * B + p] = B;
            if (!poisoned) { ref[i * B + p] = ref[i * B + p] + b.r * zf[i * B + p]; scale[i * B + p] += mag(b.r) * mag(zf[i * B + p]); }
        }
        ab::numa_vector<V> xs(xh); ab::numa_vector<R> ys(yh); std::vector<R> zs(z0);
        ab::vmul(a.v, xs, ys, b.v, zs);
        VF_REQUIRE(all_finite(zs), "vmul: non-finite output (b=" << b.r << ")");
        cmp.check(flat(zs), ref, scale, terms, "vmul z=a*x.*y+b*z");
        if constexpr (VT<V>::B > 1 && !VT<V>::cplx) { // scalar y, z with block diagonal x
            c.label("mixed-scalar-block");
            std::vector<S> ysc = scalars_of(yh), zsc = scalars_of(z0);
            bool scalar_z = t.b();
            if (n == 0) c.label("mixed-with-empty-std-vector");
            if (scalar_z) { ab::numa_vector<S> y3(ysc); std::vector<S> z3(zsc); ab::vmul(a.v, xs, y3, b.v, z3); require_same(z3, zs, "vmul with scalar y,z vs block vectors"); }
            else { ab::numa_vector<S> y3(ysc); std::vector<R> z3(z0); ab::vmul(a.v, xs, y3, b.v, z3); require_same(z3, zs, "vmul with scalar y, block z vs block vectors"); }
        }
        break; }
    case 3: { // y = sum_j c_j v_j + alpha y
        size_t nv = static_cast<size_t>(t.u(1, 5));
        Coef<K> alpha = k1;
        std::vector<Coef<K>> cf; std::vector<K> coefs; std::vector<std::shared_ptr<ab::numa_vector<R>>> vs; std::vector<Flat> vf;
        for (size_t j = 0; j < nv; ++j) { cf.push_back(j == 0 ? k2 : j == 1 ? k3 : gen_coef<K>(t, exact)); coefs.push_back(cf.back().v); std::vector<R> h = gen_vec<R>(t, n, exact, 9); vf.push_back(flat(h)); vs.push_back(std::make_shared<ab::numa_vector<R>>(h)); }
        std::vector<R> y0 = gen_vec<R>(t, n, exact, 9);
        bool poisoned = alpha.cls == 0; if (poisoned) poison_vec(t, y0);
        c.desc << " lin_comb nv=" << nv << " alpha=" << alpha.r << (poisoned ? " y:=non-finite" : "");
        c.label(std::string("lin_comb alpha:") + cls_name(alpha.cls)); c.label("lin_comb nv=" + std::to_string(nv));
        c.nontrivial = n > 0 && (poisoned || B > 1 || nv >= 2);
        Flat yf = poisoned ? Flat(n * B) : flat(y0), ref(n * B); std::vector<Ref> scale(n * B);
        for (size_t i = 0; i < ref.size(); ++i) {
            RC s; Ref as = 0;
            for (size_t j = 0; j < nv; ++j) { s = s + cf[j].r * vf[j][i]; as += mag(cf[j].r) * mag(vf[j][i]); }
            if (!poisoned) { s = s + alpha.r * yf[i]; as += mag(alpha.r) * mag(yf[i]); }
            ref[i] = s; scale[i] = as; terms[i] = static_cast<int>(2 * nv);
        }
        std::vector<R> ys(y0);
        ab::lin_comb(nv, coefs, vs, alpha.v, ys);
        VF_REQUIRE(all_finite(ys), "lin_comb: non-finite output (alpha=" << alpha.r << ")");
        cmp.check(flat(ys), ref, scale, terms, "lin_comb y=sum c_j v_j+alpha*y");
        break; }
    case 4: { // copy
        std::vector<R> xh = gen_vec<R>(t, n, exact, 9), y0(n); poison_vec(t, y0);
        c.desc << " copy"; c.label("copy"); c.nontrivial = n > 0;
        ab::numa_vector<R> xs(xh); std::vector<R> ys(y0);
        ab::copy(xs, ys); require_same(ys, xh, "copy(numa_vector -> std::vector)");
        std::vector<R> x2(xh); ab::numa_vector<R> y2(y0);
        ab::copy(x2, y2); require_same(y2, xh, "copy(std::vector -> numa_vector)");
        require_same(x2, xh, "copy must not modify its source");
        break; }
    default: { // clear
        std::vector<R> x0(n); poison_vec(t, x0);
        c.desc << " clear"; c.label("clear"); c.nontrivial = n > 0;
        std::vector<R> xs(x0); ab::numa_vector<R> x2(x0);
        ab::clear(xs); ab::clear(x2);
        Flat f1 = flat(xs), f2 = flat(x2);
        for (size_t i = 0; i < f1.size(); ++i) VF_REQUIRE(iszero(f1[i]) && iszero(f2[i]), "clear: component " << i << " not zero: " << f1[i] << " / " << f2[i]);
        std::vector<V> d0(n); poison_vec(t, d0); ab::numa_vector<V> ds(d0);
        ab::clear(ds);
        Flat f3 = flat(ds);
        for (size_t i = 0; i < f3.size(); ++i) VF_REQUIRE(iszero(f3[i]), "clear(matrix-valued vector): component " << i << " not zero: " << f3[i]);
        break; }
    }
}

template <class V>
void prop_vecops(Tape &t, Ctx &c) {
    bool exact = !t.b();
    if constexpr (VT<V>::cplx) {
        if (t.b()) { c.label("coef:complex"); run_vecops<V, typename VT<V>::cscalar>(t, c, exact); }
        else { c.label("coef:real"); run_vecops<V, typename VT<V>::scalar>(t, c, exact); }
    } else {
        run_vecops<V, typename VT<V>::scalar>(t, c, exact);
    }
}

// ---- inner product: <x,y> = sum_i x_i conj(y_i)  (conjugate-linear in the second argument)
template <class V>
void prop_inner(Tape &t, Ctx &c) {
    typedef typename VT<V>::rhs R;
    typedef typename VT<V>::scalar S;
    const int B = VT<V>::B;
    bool exact = !t.b();
    int cls = static_cast<int>(t.u(0, 2));
    size_t n = static_cast<size_t>(t.u(0, cls == 0 ? 4 : cls == 1 ? 40 : 400));
    std::vector<R> xh = gen_vec<R>(t, n, exact, 9), yh = gen_vec<R>(t, n, exact, 9);
    c.desc << "inner_product builtin<" << VT<V>::name() << "> threads=" << c.threads << " n=" << n << (exact ? " exact" : " real") << " x=" << dump_vec(xh) << " y=" << dump_vec(yh);
    c.label(exact ? "mode:exact" : "mode:real"); c.label(c.threads > 1 ? "parallel-partial-sums" : "serial-kahan");
    c.nontrivial = n >= 2 && (VT<V>::cplx || B > 1 || c.threads > 1 || !exact);
    Flat xf = flat(xh), yf = flat(yh);
    RC ref; Ref as = 0;
    for (size_t i = 0; i < xf.size(); ++i) { ref = ref + xf[i] * conj(yf[i]); as += mag(xf[i]) * mag(yf[i]); }
    if (ref.im != 0) c.label("non-real-inner-product");
    ab::numa_vector<R> xs(xh); std::vector<R> ys(yh);
    auto got = ab::inner_product(xs, ys);
    RC g = ET<decltype(got)>::get(got, 0);
    // Kahan-compensated sums per thread (2u), products (u, b-term sums inside a block: b*u), plain sum of the per-thread partials ((threads-1)*u)
    Ref tol = 2 * static_cast<Ref>(B + 4 + c.threads) * unit_roundoff<S>() * as * (VT<V>::cplx ? 4 : 1);
    if (exact) VF_REQUIRE(g.re == ref.re && g.im == ref.im, "inner_product = " << g << ", sum x_i*conj(y_i) = " << ref << " (exact operands)");
    else VF_REQUIRE(std::max(rabs(g.re - ref.re), rabs(g.im - ref.im)) <= tol, "inner_product = " << g << ", reference " << ref << ", |diff| " << ld(std::max(rabs(g.re - ref.re), rabs(g.im - ref.im))) << " > bound " << ld(tol) << " = 2*(b+4+threads)*u*sum|x_i||y_i|");
    { std::vector<R> x2(xh); ab::numa_vector<R> y2(yh); auto g2 = ab::inner_product(x2, y2); VF_REQUIRE(ET<decltype(got)>::same(g2, got), "inner_product container variants differ"); }
    // the general n*u*sum|x_i y_i| agreement between the serial and the parallel formula follows from both being within tol of ref
    if constexpr (VT<V>::cplx) {
        // conjugate-linearity in the second argument, linearity in the first: <a x, y> = a <x,y>, <x, a y> = conj(a) <x,y>
        typedef typename VT<V>::cscalar CS;
        Coef<CS> a = gen_coef<CS>(t, true); // Gaussian integer: scaling is exact
        if (exact) {
            std::vector<R> ax(xh), ay(yh);
            for (size_t i = 0; i < n; ++i) { ax[i] = a.v * xh[i]; ay[i] = a.v * yh[i]; }
            auto g1 = ab::inner_product(ax, ys), g2 = ab::inner_product(xs, ay);
            RC e1 = a.r * ref, e2 = conj(a.r) * ref;
            VF_REQUIRE(ET<CS>::get(g1, 0).re == e1.re && ET<CS>::get(g1, 0).im == e1.im, "<a x,y> = " << ET<CS>::get(g1, 0) << " but a<x,y> = " << e1 << " (a=" << a.r << ")");
            VF_REQUIRE(ET<CS>::get(g2, 0).re == e2.re && ET<CS>::get(g2, 0).im == e2.im, "<x,a y> = " << ET<CS>::get(g2, 0) << " but conj(a)<x,y> = " << e2 << " (a=" << a.r << "): inner product must be conjugate-linear in the second argument");
            c.label("conjugate-linearity-checked");
        }
    }
}

} // namespace c07
