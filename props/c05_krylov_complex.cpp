// C05 — Krylov iterates vs textbook references and least-squares optimality, complex systems. Body: c05_krylov.hpp (rev 3)
#include "c05_krylov.hpp"
static std::vector<vf::Prop> props() { return c05::props_iter<std::complex<double>>("complex"); }
static std::vector<vf::Enum> enums() { return {}; }
VF_MAIN(props(), enums())
