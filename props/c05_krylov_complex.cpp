// C05 — Krylov iterates, complex systems (std::complex<double>). Body: c05_krylov.hpp (rev 1)
#include "c05_krylov.hpp"
static std::vector<vf::Prop> props() { return c05::props<std::complex<double>>("complex"); }
static std::vector<vf::Enum> enums() { return {}; }
VF_MAIN(props(), enums())
