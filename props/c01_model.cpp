// C01, sub-domain M — model problems converge inside the default budget and report truthfully.
//
// Isotropic 2-D / 3-D grid Laplacians (5-, 9-, 7-point, >= 8 points per axis) and connected bounded-degree random
// graphs with coefficient contrast <= 10 and non-negative diagonal shifts (SPD diagonally dominant M-matrices),
// n in (3000, 15000] with DEFAULT amg and solver parameters, or n in (1000, 15000] with the suite's own coarse_enough=500.
// Every coarsening x relaxation x Krylov method (x preconditioning side) must return reported < 1e-8 within 100
// iterations (+ L - 1 for BiCGStab(L)), and the reported value must be the true relative residual within the
// kappa-aware allowance; kappa_inf(A) is bounded by a certificate that is verified in long double (c01_common.hpp).
#include <iomanip>
#include "c01_common.hpp"

using namespace vf;
using namespace c02;
using namespace c01;

typedef amgcl::runtime::solver::wrapper<Backend> SolverW;
typedef amgcl::make_solver<RtAmg, SolverW> AmgSolver;

static void prop_model(Tape &t, Ctx &c) {
    bool ce500 = t.b();                       // word 0 -> all defaults
    AmgCfg cfg; cfg.defaults = !ce500; cfg.coars = static_cast<int>(t.u(0, 3)); cfg.relax = static_cast<int>(t.u(0, 8));
    if (ce500) cfg.coarse_enough = 500;
    SolverCfg sc; sc.defaults = true; sc.type = static_cast<int>(t.u(0, 6)); // the 7 Krylov methods; Richardson is clause (d)
    sc.left = t.b();
    int fkind = static_cast<int>(t.u(0, 1));
    int nlo = ce500 ? 1000 : 3000, nhi = static_cast<int>(t.u(0, 3)) == 3 ? 15000 : 7000;
    Tape sub = expand_tape(t, 64 + 12 * static_cast<size_t>(nhi) + 4096);
    Graph g = gen_model_graph(sub, nlo, nhi);
    MmatInfo mi; Csr<double> A = gen_mmat(sub, g, 10.0, false, &mi);
    t.mix(sub.h);
    const ptrdiff_t n = A.n;
    std::vector<double> f(n, 1.0); if (fkind == 1) f = seeded_vec(t, n);

    c.desc << "model " << g.family << " n=" << n << " nnz=" << A.nnz() << " contrast=" << mi.contrast << " shifts=" << mi.shifts << " f=" << fkind
           << " | " << (ce500 ? "coarse_enough=500 " : "defaults ") << coars_name[cfg.coars] << "+" << relax_name[cfg.relax] << " | " << sc.str();
    c.label("fam:" + g.family); c.label(std::string("coars:") + coars_name[cfg.coars]); c.label(std::string("relax:") + relax_name[cfg.relax]);
    c.label(std::string("solver:") + solver_name[sc.type] + (sc.has_pside() ? (sc.left ? "/left" : "/right") : ""));
    c.label(ce500 ? "variant:coarse_enough=500" : "variant:defaults");
    c.label(bucket(static_cast<double>(n), {3001, 7001}, "n"));

    auto Acrs = to_crs<double>(A);
    // ---- certified bound of kappa_inf(A): z ~ A^-1 1 from an untrusted default solve, inequalities verified in long double
    double kappa = 0, ainv = 0;
    {
        ptree p; p.put("precond.coarsening.type", "smoothed_aggregation"); p.put("precond.relax.type", "spai0"); p.put("solver.type", "cg"); p.put("solver.tol", 1e-6);
        AmgSolver s0(*Acrs, p); std::vector<double> one(n, 1.0), z(n, 0.0); s0(one, z);
        kappa = kappa_inf_certified(A, z);
        double zmax = 0; for (double v : z) zmax = std::max(zmax, v);
        ainv = 2 * zmax; // ||A^-1||_inf <= zmax / theta, theta >= 1/2 whenever the certificate is accepted below
    }
    VF_REQUIRE(kappa > 0, "harness: the conditioning certificate was not accepted (reference solve of A z = 1 failed)");
    c.label(bucket(kappa, {1e3, 1e4, 1e5, 1e6}, "kappa_inf<="));

    ptree prm; cfg.put_amg(prm, "precond"); sc.put(prm, "solver");
    std::unique_ptr<AmgSolver> solve;
    size_t iters = 0; double reported = 0; std::vector<double> x(n, 0.0);
    LevelInfo li; std::string emin_why;
    try {
        solve.reset(new AmgSolver(*Acrs, prm));
        li = level_info(solve->precond());
        if (cfg.coars == EMIN) emin_why = emin_degenerate(solve->precond(), 0.08);
        if (!emin_why.empty()) { c.label("emin:degenerate"); c.desc << " | emin degenerate: " << emin_why; } // fixed in /repo (a58f297): asserted like every other case
        std::tie(iters, reported) = (*solve)(f, x);
    } catch (const std::runtime_error &e) {
        VF_REQUIRE(false, "model problem not solved: exception '" << e.what() << "'");
    }
    c.label("levels=" + std::to_string(std::min<size_t>(li.levels, 5)));
    c.label(bucket(static_cast<double>(iters), {2, 10, 25, 50, 101}, "iters"));
    c.nontrivial = iters >= 2 && li.levels >= 2;
    c.desc << " | levels=" << li.levels << " iters=" << iters << " reported=" << reported;

    unsigned bound = sc.type == BICGSTABL ? 100 + 2 - 1 : 100;
    VF_REQUIRE(iters <= bound, "iterations " << iters << " exceed the default budget " << bound);
    VF_REQUIRE(std::isfinite(reported) && reported < 1e-8, "model problem not solved within the default budget: reported residual " << reported << " after " << iters << " iterations (" << li.levels << " levels)");

    Res<double> tr = residual_ld(A, f, x);
    double truth = static_cast<double>(tr.rel);
    bool left = sc.is_left();
    double unit = 1;
    if (left) { std::vector<double> z(n, 0.0); solve->precond().apply(tr.r, z); truth = norm2(z) / norm2(f); unit = std::max(1.0, 4 * ainv); }
    // K = kappa: the preconditioners of sub-domain M are multigrid cycles with ||A B|| = O(1); constant as in c01_truth.cpp
    double allow = 200.0 * U * kappa * (iters + 2.0) * unit + 64 * U;
    double diff = std::abs(reported - truth), big = std::max(reported, truth);
    c.label(bucket(allow / 1e-8, {0.01, 0.1, 1}, "allow/tol"));
    // no F-recursion-gap class here: with n > 1000 and <= 100 iterations the Krylov space is never exhausted
    VF_REQUIRE(diff <= 0.01 * big + allow, "reported residual " << std::setprecision(10) << reported << " but true " << (left ? "preconditioned " : "") << "relative residual is " << truth << " (allowance " << 0.01 * big + allow << ", kappa_inf <= " << kappa << ")");
    VF_REQUIRE(truth < 1.1e-8 + allow, "reported " << reported << " < 1e-8 but the true residual is " << truth);
}

static std::vector<Prop> props() {
    return { Prop("model_problem", prop_model, 40, 600, 100, 2, {1}, 8, 16) };
}
static std::vector<Enum> enums() { return {}; }

VF_MAIN(props(), enums())
