// C01, sub-domain T on the block backend builtin<static_matrix<double,2,2>> (reduced configuration set).
// Value families: "kron" = A (x) S with a random SPD 2x2 S (SPD), "coupled" = A (x) I + blockdiag(C_i) with SPD 2x2
// blocks C_i coupling the two unknowns of every node (SPD), "nonsym" = kron with a non-symmetric but positive
// definite 2x2 factor (rotation-like coupling).
#include <amgcl/value_type/static_matrix.hpp>
#include "c01_vt.hpp"

using namespace c01vt;
typedef amgcl::static_matrix<double, 2, 2> blk;
typedef amgcl::static_matrix<double, 2, 1> bvec;

struct BlockTraits {
    typedef blk value_type; typedef bvec rhs_type;
    static const int B = 2; static const bool is_complex = false;
    static const char *name() { return "block2x2"; }
    static cplx at(const blk &v, int i, int j) { return cplx(v(i, j), 0); }
    static cplx get(const bvec &r, int i) { return cplx(r(i), 0); }
    static void set(bvec &r, int i, cplx v) { r(i) = v.real(); }
    static int coars(int k) { static const int m[] = {SA, AGG, EMIN}; return m[k % 3]; }
    static const int nrelax = 7; // spai1 is not available for block values
    static int relax(int k) { static const int m[] = {SPAI0, JACOBI, GS, ILU0, ILUK, ILUT, CHEB}; return m[k % nrelax]; }
    static Csr<blk> make_matrix(Tape &t, const Csr<double> &A, std::string &kind) {
        Csr<blk> C; C.n = A.n; C.m = A.m; C.ptr = A.ptr; C.col = A.col; C.val.resize(A.val.size());
        int k = static_cast<int>(t.u(0, 2));
        kind = k == 0 ? "kron" : k == 1 ? "coupled" : "nonsym";
        double off = t.uni(-0.6, 0.6), d2 = t.logu(0.5, 2.0), skew = k == 2 ? t.uni(0.1, 0.5) : 0.0;
        blk S; S(0, 0) = 1; S(0, 1) = off + skew; S(1, 0) = off - skew; S(1, 1) = d2; // symmetric part [[1,off],[off,d2]] is SPD since off^2 < 0.36 < d2
        for (ptrdiff_t i = 0; i < A.n; ++i) for (ptrdiff_t j = A.ptr[i]; j < A.ptr[i + 1]; ++j) {
            double a = A.val[j];
            if (k == 1) {
                blk I2; I2(0, 0) = 1; I2(0, 1) = 0; I2(1, 0) = 0; I2(1, 1) = 1;
                C.val[j] = a * I2;
                if (A.col[j] == i) { double cc = 0.1 + 0.9 * static_cast<double>((i * 7919) % 100) / 100.0; blk Ci; Ci(0, 0) = cc; Ci(0, 1) = -0.5 * cc; Ci(1, 0) = -0.5 * cc; Ci(1, 1) = cc; C.val[j] += a * Ci; }
            } else C.val[j] = a * S;
        }
        return C;
    }
    static void shift_diagonal(Csr<blk> &A, double d) { for (ptrdiff_t i = 0; i < A.n; ++i) for (ptrdiff_t j = A.ptr[i]; j < A.ptr[i + 1]; ++j) if (A.col[j] == i) { A.val[j](0, 0) += d; A.val[j](1, 1) += d; } }
};

static std::vector<vf::Prop> props() { return { vf::Prop("truthful_block", Harness<BlockTraits>::prop, 2000, 20000, 100, 4, {1}, 4, 8) }; }
static std::vector<vf::Enum> enums() { return {}; }
VF_MAIN(props(), enums())
