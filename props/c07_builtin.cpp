// C07 (part 1a) — builtin backend, scalar and complex values (block values: c07_builtin_blk.cpp): spmv, residual, axpby, axpbypcz, vmul, lin_comb, copy, clear, inner_product
// for float, double, long double, complex<double> (block values: c07_builtin_blk.cpp).
// Machinery and oracles: c07_common.hpp.
#include "c07_common.hpp"

using namespace c07;
typedef std::complex<double> cplx;
typedef amgcl::static_matrix<double, 2, 2> blk2;
typedef amgcl::static_matrix<double, 3, 3> blk3;
typedef amgcl::static_matrix<double, 4, 4> blk4;
typedef amgcl::static_matrix<cplx, 2, 2> cblk2;

template <class V>
static void add_props(std::vector<Prop> &p, const std::string &tag, int q, int th) {
    std::vector<int> threads = {1, 4};
    p.push_back(Prop("matvec_" + tag, prop_matvec<V>, q, th, 100, 150, threads, 1, 2));
    p.push_back(Prop("vecops_" + tag, prop_vecops<V>, q, th, 100, 150, threads, 1, 2));
    p.push_back(Prop("inner_" + tag, prop_inner<V>, q / 2, th / 2, 100, 60, {1, 4, 17}, 1, 2));
}

static std::vector<Prop> props() {
    std::vector<Prop> p;
    add_props<double>(p, "double", 1600, 16000);
    add_props<float>(p, "float", 1000, 10000);
    add_props<long double>(p, "longdouble", 1000, 10000);
    add_props<cplx>(p, "complex", 1200, 12000);
    return p;
}
static std::vector<Enum> enums() { return {}; }

VF_MAIN(props(), enums())
