// C14 (e) compile probe: make_solver<...>::get_params() and its params::get(ptree) must instantiate.
// If this file does not compile against the library tree, that is the violation. When it compiles, the props below also run.
#define C14_NO_RUNTIME_PRECOND
#define C14_NO_COMPOSITES
#include "c14_check.hpp"
#include "c14_equiv.hpp"
using namespace vf;
using namespace c14;
namespace c14 {
typedef amgcl::amg<B, co::smoothed_aggregation, re::damped_jacobi> AMG;
typedef amgcl::make_solver<AMG, so::bicgstab<B>> MS;
C14_AMG_DESC(AMG) C14_MAKE_SOLVER_DESC(MS)
}
static void prop_params(Tape &t, Ctx &c) { test_struct<MS::params>(t, c, "make_solver<amg<sa,damped_jacobi>,bicgstab>"); }
static void prop_object(Tape &t, Ctx &c) {
    object_export_case<MS>(t, c, "make_solver::get_params", NoFix(), [](const MS &s, ptree &out) { s.get_params(out); });
}
static std::vector<Prop> props() { return {Prop("probe_make_solver_params", prop_params, 300, 3000, 100, 8, {1}, 1, 2), Prop("probe_make_solver_object", prop_object, 150, 1500, 100, 4, {1}, 1, 2)}; }
static std::vector<Enum> enums() { return {}; }
VF_MAIN(props(), enums())
