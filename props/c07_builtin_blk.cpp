// C07 (part 1b) - builtin backend, block values: spmv, residual, axpby, axpbypcz, vmul, lin_comb, copy, clear, inner_product
// for static_matrix<double,b,b> (b=2,3,4) and static_matrix<complex<double>,2,2>, including scalar vectors
// passed where block vectors are expected.  Machinery and oracles: c07_common.hpp.
#include "c07_common.hpp"

using namespace c07;
typedef std::complex<double> cplx;
typedef amgcl::static_matrix<double, 2, 2> blk2;
typedef amgcl::static_matrix<double, 3, 3> blk3;
typedef amgcl::static_matrix<double, 4, 4> blk4;
typedef amgcl::static_matrix<cplx, 2, 2> cblk2;

template <class V>
static void add_props(std::vector<Prop> &p, const std::string &tag, int q, int th) {
    std::vector<int> threads = {1, 4};
    p.push_back(Prop("matvec_" + tag, prop_matvec<V>, q, th, 100, 150, threads, 1, 2));
    p.push_back(Prop("vecops_" + tag, prop_vecops<V>, q, th, 100, 150, threads, 1, 2));
    p.push_back(Prop("inner_" + tag, prop_inner<V>, q / 2, th / 2, 100, 60, {1, 4, 17}, 1, 2));
}

static std::vector<Prop> props() {
    std::vector<Prop> p;
    add_props<blk2>(p, "blk2", 1200, 12000);
    add_props<blk3>(p, "blk3", 800, 8000);
    add_props<blk4>(p, "blk4", 800, 8000);
    add_props<cblk2>(p, "cblk2", 800, 8000);
    return p;
}
static std::vector<Enum> enums() { return {}; }

VF_MAIN(props(), enums())
