// C13 (mixed-precision part): amg<builtin<float>> under cg / bicgstab<builtin<double>>, called as the tutorial does
// (solve(A_double, rhs, x)), reaches the default 1e-8 on model problems with a truthful residual w.r.t. the double system.
#include <amgcl/backend/builtin.hpp>
#include <amgcl/adapter/crs_tuple.hpp>
#include <amgcl/make_solver.hpp>
#include <amgcl/amg.hpp>
#include <amgcl/coarsening/smoothed_aggregation.hpp>
#include <amgcl/relaxation/spai0.hpp>
#include <amgcl/solver/cg.hpp>
#include <amgcl/solver/bicgstab.hpp>
#include "../common/harness.hpp"
#include "../common/gen.hpp"
#include "../common/dense.hpp"
#include "../common/amgcl_util.hpp"
#include "c13_common.hpp"

using namespace vf;
using namespace c13;
namespace ab = amgcl::backend;

// ------------------------------------------------------------------------------------------ mixed precision
static void prop_mixed(Tape &t, Ctx &c) {
    int szc = static_cast<int>(t.u(0, 3));
    int nmax = szc == 0 ? 60 : szc == 1 ? 400 : szc == 2 ? 1200 : 3600;
    // model problems: isotropic 2-D / 3-D grids (5/9/7 point), bounded-degree random graphs, trees with chords, bands; contrast <= 10
    Graph g = gen_graph(t, nmax, 1, 6);
    MmatInfo mi;
    Csr<double> A = gen_mmat(t, g, 10.0, false, &mi);
    std::string fk; std::vector<double> f = gen_rhs(t, A, fk);
    int cec = static_cast<int>(t.u(0, 2));
    unsigned ce = cec == 0 ? 3000 : cec == 1 ? 500 : 100;
    bool use_cg = !t.b();
    c.desc << "mixed precision " << g.family << " " << describe(A) << " contrast=" << mi.contrast << " shifts=" << mi.shifts << " rhs=" << fk << " coarse_enough=" << ce
           << " solver=" << (use_cg ? "cg" : "bicgstab") << " A=" << dump_small(A, 6);
    c.nontrivial = A.n >= 2 && A.nnz() > A.n;
    c.label("mixed:fam:" + g.family); c.label("mixed:" + size_bucket(A.n)); c.label(use_cg ? "mixed:cg" : "mixed:bicgstab");
    c.label(static_cast<size_t>(A.n) > ce ? "mixed:multilevel" : "mixed:single-level");

    typedef ab::builtin<float> FB; typedef ab::builtin<double> DB;
    typedef amgcl::amg<FB, amgcl::coarsening::smoothed_aggregation, amgcl::relaxation::spai0> Amg;
    size_t n = static_cast<size_t>(A.n);
    auto Ad = std::tie(n, A.ptr, A.col, A.val);
    size_t iters; double resid;
    std::vector<double> x(n, 0.0), x2(n, 0.0);
    size_t it2; double res2;
    const double tol = 1e-8; const size_t maxiter = 100; // library defaults, not overridden
    if (use_cg) {
        typedef amgcl::make_solver<Amg, amgcl::solver::cg<DB>> Solver;
        Solver::params p; p.precond.coarse_enough = ce;
        VF_REQUIRE(p.solver.tol == tol && p.solver.maxiter == maxiter, "default solver parameters changed");
        Solver solve(Ad, p);
        std::tie(iters, resid) = solve(Ad, f, x);     // examples/mixed_precision.cpp, tutorial/1.poisson3Db
        std::tie(it2, res2) = solve(f, x2);            // iterates on the single precision copy held by the preconditioner
    } else {
        typedef amgcl::make_solver<Amg, amgcl::solver::bicgstab<DB>> Solver;
        Solver::params p; p.precond.coarse_enough = ce;
        Solver solve(Ad, p);
        std::tie(iters, resid) = solve(Ad, f, x);
        std::tie(it2, res2) = solve(f, x2);
    }
    require_truthful(c, use_cg ? "amg<float>+cg<double>" : "amg<float>+bicgstab<double>", A, f, x, iters, resid, tol, maxiter);
    // Two-argument form: documented to refer to the float copy of A (DESIGN C13) — recorded, not asserted against the double system.
    long double rho2 = true_relres(A, f, x2);
    c.label(rho2 <= 1e-8L ? "mixed:two-arg-form-true-relres<=1e-8" : rho2 <= 1e-6L ? "mixed:two-arg-form-true-relres<=1e-6" : "mixed:two-arg-form-true-relres>1e-6");
    (void)it2; (void)res2;
}

static std::vector<Prop> props() {
    return {
        Prop("mixed", prop_mixed, 150, 2500, 100, 300, {1}, 3, 8),
    };
}
static std::vector<Enum> enums() { return {}; }

VF_MAIN(props(), enums())
