// C13 (mixed-precision part): amg<builtin<float>> under cg / bicgstab<builtin<double>>, called as the tutorial does
// (solve(A_double, rhs, x)), reaches the default 1e-8 on model problems with a truthful residual w.r.t. the double system.
#include <amgcl/backend/builtin.hpp>
#include <amgcl/adapter/crs_tuple.hpp>
#include <amgcl/adapter/block_matrix.hpp>
#include <amgcl/value_type/static_matrix.hpp>
#include <amgcl/make_solver.hpp>
#include <amgcl/amg.hpp>
#include <amgcl/coarsening/smoothed_aggregation.hpp>
#include <amgcl/relaxation/spai0.hpp>
#include <amgcl/solver/cg.hpp>
#include <amgcl/solver/bicgstab.hpp>
#include "../common/harness.hpp"
#include "../common/gen.hpp"
#include "../common/dense.hpp"
#include "../common/amgcl_util.hpp"
#include "c13_common.hpp"

using namespace vf;
using namespace c13;
namespace ab = amgcl::backend;

// ------------------------------------------------------------------------------------------ mixed precision
static void prop_mixed(Tape &t, Ctx &c) {
    int szc = static_cast<int>(t.u(0, 3));
    int nmax = szc == 0 ? 60 : szc == 1 ? 400 : szc == 2 ? 1200 : 3600;
    // model problems: isotropic 2-D / 3-D grids (5/9/7 point), bounded-degree random graphs, trees with chords, bands; contrast <= 10
    Graph g = gen_graph(t, nmax, 1, 6);
    MmatInfo mi;
    Csr<double> A = gen_mmat(t, g, 10.0, false, &mi);
    std::string fk; std::vector<double> f = gen_rhs(t, A, fk);
    int cec = static_cast<int>(t.u(0, 2));
    unsigned ce = cec == 0 ? 3000 : cec == 1 ? 500 : 100;
    bool use_cg = !t.b();
    c.desc << "mixed precision " << g.family << " " << describe(A) << " contrast=" << mi.contrast << " shifts=" << mi.shifts << " rhs=" << fk << " coarse_enough=" << ce
           << " solver=" << (use_cg ? "cg" : "bicgstab") << " A=" << dump_small(A, 6);
    c.nontrivial = A.n >= 2 && A.nnz() > A.n;
    c.label("mixed:fam:" + g.family); c.label("mixed:" + size_bucket(A.n)); c.label(use_cg ? "mixed:cg" : "mixed:bicgstab");
    c.label(static_cast<size_t>(A.n) > ce ? "mixed:multilevel" : "mixed:single-level");

    typedef ab::builtin<float> FB; typedef ab::builtin<double> DB;
    typedef amgcl::amg<FB, amgcl::coarsening::smoothed_aggregation, amgcl::relaxation::spai0> Amg;
    size_t n = static_cast<size_t>(A.n);
    auto Ad = std::tie(n, A.ptr, A.col, A.val);
    size_t iters; double resid;
    std::vector<double> x(n, 0.0), x2(n, 0.0);
    size_t it2; double res2;
    const double tol = 1e-8; const size_t maxiter = 100; // library defaults, not overridden
    if (use_cg) {
        typedef amgcl::make_solver<Amg, amgcl::solver::cg<DB>> Solver;
        Solver::params p; p.precond.coarse_enough = ce;
        VF_REQUIRE(p.solver.tol == tol && p.solver.maxiter == maxiter, "default solver parameters changed");
        Solver solve(Ad, p);
        std::tie(iters, resid) = solve(Ad, f, x);     // examples/mixed_precision.cpp, tutorial/1.poisson3Db
        std::tie(it2, res2) = solve(f, x2);            // iterates on the single precision copy held by the preconditioner
    } else {
        typedef amgcl::make_solver<Amg, amgcl::solver::bicgstab<DB>> Solver;
        Solver::params p; p.precond.coarse_enough = ce;
        Solver solve(Ad, p);
        std::tie(iters, resid) = solve(Ad, f, x);
        std::tie(it2, res2) = solve(f, x2);
    }
    require_truthful(c, use_cg ? "amg<float>+cg<double>" : "amg<float>+bicgstab<double>", A, f, x, iters, resid, tol, maxiter);
    // Two-argument form: the double-precision Krylov method iterates on the preconditioner's single precision copy fl(A) (DESIGN C13).
    // W.r.t. the double system it is only as good as fl(A) is close to A (recorded as labels), but the residual it reports must be
    // truthful for the matrix it iterates on: fl(A) is exactly representable in double, the harness recomputes f - fl(A) x in long double,
    // and the allowance is the double-precision drift bound (u = 2^-53), not single-precision rounding.
    long double rho2 = true_relres(A, f, x2);
    c.label(rho2 <= 1e-8L ? "mixed:two-arg-form-true-relres<=1e-8" : rho2 <= 1e-6L ? "mixed:two-arg-form-true-relres<=1e-6" : "mixed:two-arg-form-true-relres>1e-6");
    Csr<double> Af = A;
    for (auto &v : Af.val) v = static_cast<double>(static_cast<float>(v));
    require_truthful(c, use_cg ? "amg<float>+cg<double>, two-argument form on fl(A)" : "amg<float>+bicgstab<double>, two-argument form on fl(A)", Af, f, x2, it2, res2, tol, maxiter, false);
    // the same with a generated, tighter tolerance
    {
        double tol3 = t.b() ? 1e-12 : 1e-10; size_t it3; double res3;
        std::vector<double> x3(n, 0.0);
        if (use_cg) {
            typedef amgcl::make_solver<Amg, amgcl::solver::cg<DB>> Solver;
            Solver::params p; p.precond.coarse_enough = ce; p.solver.tol = tol3; p.solver.maxiter = 200;
            Solver solve(Ad, p);
            std::tie(it3, res3) = solve(f, x3);
        } else {
            typedef amgcl::make_solver<Amg, amgcl::solver::bicgstab<DB>> Solver;
            Solver::params p; p.precond.coarse_enough = ce; p.solver.tol = tol3; p.solver.maxiter = 200;
            Solver solve(Ad, p);
            std::tie(it3, res3) = solve(f, x3);
        }
        require_truthful(c, use_cg ? "amg<float>+cg<double>, two-argument form on fl(A), tight tol" : "amg<float>+bicgstab<double>, two-argument form on fl(A), tight tol", Af, f, x3, it3, res3, tol3, 200, false);
    }
}

// ------------------------------------------------------------------------------------------ mixed precision kernels
// backend::spmv / residual with a single precision matrix (scalar and 2x2 / 3x3 block valued) and double precision vectors: the vectors
// decide the working precision, so the result must agree with a long double reference within the summation-order bound in DOUBLE
// precision, c * 2^-53 * sum|a||x| -- the float matrix entries are exact inputs.
template <int B>
static void mixed_block_kernels(const Csr<double> &Af, const std::vector<double> &x, const std::vector<double> &y0, double alpha, double beta,
                                const std::vector<std::complex<long double>> &ref, const std::vector<long double> &S,
                                const std::vector<std::complex<long double>> &rref, const std::vector<long double> &rS) {
    typedef amgcl::static_matrix<float, B, B> fblk;
    size_t n = static_cast<size_t>(Af.n);
    std::vector<float> fv(Af.val.begin(), Af.val.end());
    auto Tf = std::tie(n, Af.ptr, Af.col, fv);
    ab::crs<fblk> Kb(amgcl::adapter::block_matrix<fblk>(Tf));
    long double cmax = 0; for (size_t I = 0; I < Kb.nrows; ++I) cmax = std::max<long double>(cmax, static_cast<long double>(Kb.ptr[I + 1] - Kb.ptr[I]));
    long double cb = 2 * (B * cmax + 4);
    std::string tag = "crs<static_matrix<float," + std::to_string(B) + "," + std::to_string(B) + ">>";
    std::vector<double> y = y0;
    ab::spmv(alpha, Kb, x, beta, y);
    require_spmv(y, ref, S, cb, "spmv(" + tag + ", double vectors)");
    std::vector<double> r(n);
    ab::residual(y0, Kb, x, r);
    require_spmv(r, rref, rS, cb, "residual(" + tag + ", double vectors)");
}

static void prop_mixed_kernels(Tape &t, Ctx &c) {
    int b = static_cast<int>(t.u(2, 3));
    BlockCase bc = gen_block_case(t, b, t.b() ? 6 : 40);
    Csr<double> Af = bc.A;
    // general magnitudes: the products must not be exactly representable in float
    bool wide = t.b();
    for (auto &v : Af.val) { if (wide) v *= t.logu(1e-3, 1e3); v = static_cast<double>(static_cast<float>(v)); }
    std::vector<double> x = gen_vec(t, Af.n, static_cast<int>(t.u(2, 3))), y0 = gen_vec(t, Af.n, static_cast<int>(t.u(2, 3)));
    double alpha = t.b() ? 1.0 : static_cast<double>(t.u(-3, 3)), beta = t.b() ? 0.0 : static_cast<double>(t.u(-3, 3));
    c.desc << "mixed kernels b=" << b << " " << bc.family << " " << describe(Af) << " wide=" << wide << " alpha=" << alpha << " beta=" << beta << " A=" << dump_small(Af, 6);
    c.nontrivial = Af.nnz() > Af.n && Af.n >= 2 * b;
    c.label("kernels:b=" + std::to_string(b)); c.label("kernels:fam:" + bc.family);
    std::vector<std::complex<long double>> ref, rref; std::vector<long double> S, rS;
    ref_spmv(Af, x, alpha, beta, y0, ref, S);
    ref_spmv(Af, x, -1.0, 1.0, y0, rref, rS);
    size_t n = static_cast<size_t>(Af.n);
    std::vector<float> fv(Af.val.begin(), Af.val.end());
    long double cs = 2 * (static_cast<long double>(max_row_len(Af)) + 4);
    {   // scalar float matrix: library CRS, and the tuple adapter with float values
        ab::crs<float> K(n, n, Af.ptr, Af.col, fv);
        std::vector<double> y = y0;
        ab::spmv(alpha, K, x, beta, y);
        require_spmv(y, ref, S, cs, "spmv(crs<float>, double vectors)");
        std::vector<double> r(n);
        ab::residual(y0, K, x, r);
        require_spmv(r, rref, rS, cs, "residual(crs<float>, double vectors)");
        auto Tf = std::tie(n, Af.ptr, Af.col, fv);
        std::vector<double> y2 = y0;
        ab::spmv(alpha, Tf, x, beta, y2);
        require_spmv(y2, ref, S, cs, "spmv(tuple<float values>, double vectors)");
    }
}

// Single precision BLOCK matrix with double precision vectors (kernels, and a double-precision CG iterating on the float-block copy held by
// amg<builtin<static_matrix<float,2,2>>>: two-argument solve).
// Former finding F-float-block-times-double (fixed in /repo, see known_findings.json): static_matrix<T,N,K> * static_matrix<U,K,M> returned
// static_matrix<T,N,M>, i.e. a float block times a double vector was accumulated and rounded in FLOAT; the builtin spmv/residual then added these
// float results into the double accumulator (error ~6e-8 * sum|a||x| per row instead of ~1e-16). Checked without exclusion now.
static void prop_mixed_block(Tape &t, Ctx &c) {
    int b = static_cast<int>(t.u(2, 3));
    BlockCase bc = gen_block_case(t, b, t.b() ? 6 : 40);
    Csr<double> Af = bc.A;
    bool wide = t.b();
    for (auto &v : Af.val) { if (wide) v *= t.logu(1e-3, 1e3); v = static_cast<double>(static_cast<float>(v)); }
    std::vector<double> x = gen_vec(t, Af.n, static_cast<int>(t.u(2, 3))), y0 = gen_vec(t, Af.n, static_cast<int>(t.u(2, 3)));
    double alpha = t.b() ? 1.0 : static_cast<double>(t.u(-3, 3)), beta = t.b() ? 0.0 : static_cast<double>(t.u(-3, 3));
    c.desc << "mixed block kernels b=" << b << " kind=" << bc.kind << " " << bc.family << " " << describe(Af) << " wide=" << wide << " alpha=" << alpha << " beta=" << beta << " A=" << dump_small(Af, 6);
    c.nontrivial = Af.nnz() > Af.n && Af.n >= 2 * b;
    c.label("blockkernels:b=" + std::to_string(b));
    std::vector<std::complex<long double>> ref, rref; std::vector<long double> S, rS;
    ref_spmv(Af, x, alpha, beta, y0, ref, S);
    ref_spmv(Af, x, -1.0, 1.0, y0, rref, rS);
    if (b == 2) mixed_block_kernels<2>(Af, x, y0, alpha, beta, ref, S, rref, rS);
    else mixed_block_kernels<3>(Af, x, y0, alpha, beta, ref, S, rref, rS);
    if (b == 2 && !wide && bc.model()) {
        // solve level: amg<float 2x2 blocks> under cg<double 2x2 blocks>, two-argument form: truthful for fl(A) in double precision
        typedef amgcl::static_matrix<float, 2, 2> fblk; typedef amgcl::static_matrix<double, 2, 2> dblk;
        typedef amgcl::make_solver<amgcl::amg<ab::builtin<fblk>, amgcl::coarsening::smoothed_aggregation, amgcl::relaxation::spai0>, amgcl::solver::cg<ab::builtin<dblk>>> Solver;
        size_t n = static_cast<size_t>(bc.A.n);
        Csr<double> Afl = bc.A; for (auto &v : Afl.val) v = static_cast<double>(static_cast<float>(v));
        auto Ts = std::tie(n, bc.A.ptr, bc.A.col, bc.A.val);
        Solver::params p; p.solver.maxiter = 200;
        Solver solve(amgcl::adapter::block_matrix<dblk>(Ts), p);
        std::string fk; std::vector<double> f = gen_rhs(t, bc.A, fk);
        std::vector<double> xs(n, 0.0);
        auto F = ab::reinterpret_as_rhs<dblk>(f); auto X = ab::reinterpret_as_rhs<dblk>(xs);
        size_t it; double res;
        std::tie(it, res) = solve(F, X);
        require_truthful(c, "amg<float 2x2>+cg<double 2x2>, two-argument form on fl(A)", Afl, f, xs, it, res, 1e-8, 200, false);
    }
}

static std::vector<Prop> props() {
    return {
        Prop("mixed", tolerate_breakdown(prop_mixed), 150, 2500, 100, 300, {1}, 3, 8),
        Prop("mixed_kernels", prop_mixed_kernels, 300, 5000, 100, 60, {1}, 2, 8),
        Prop("mixed_block", tolerate_breakdown(prop_mixed_block), 150, 2500, 100, 60, {1}, 1, 4),
    };
}
static std::vector<Enum> enums() { return {}; }

VF_MAIN(props(), enums())
