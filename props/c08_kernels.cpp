// C08 — sparse matrix kernels equal their dense definitions.
//
// Oracle: dense reference on exactly representable values (small integers, so every
// product/sum the kernels perform is exact in double) -> bitwise comparison; CRS
// well-formedness predicate; eigen/singular values from Eigen for the spectral bounds.
#include <complex>
#include <amgcl/backend/builtin.hpp>
#include <amgcl/value_type/static_matrix.hpp>
#include <amgcl/value_type/complex.hpp>
#include <amgcl/detail/spgemm.hpp>
#include <amgcl/adapter/crs_tuple.hpp>
#include <Eigen/Dense>
#include "../common/harness.hpp"
#include "../common/gen.hpp"
#include "../common/dense.hpp"
#include "../common/amgcl_util.hpp"

using namespace vf;
namespace ab = amgcl::backend;
typedef std::complex<double> cplx;
typedef amgcl::static_matrix<double, 2, 2> blk2;
typedef amgcl::static_matrix<double, 3, 3> blk3;
typedef amgcl::static_matrix<std::complex<double>, 2, 2> cblk2; // block AND complex: the adjoint transposes the block and conjugates its entries

// ---- value-type helpers: expand a value into a b x b complex block -------------------------------
template <class V> struct VT;
template <> struct VT<double> {
    static const int B = 1;
    static double gen(Tape &t, int m) { double v = static_cast<double>(t.u(1, m)); return t.b() ? -v : v; }
    static cplx at(const double &v, int, int) { return cplx(v, 0); }
    static const char *name() { return "double"; }
};
template <> struct VT<cplx> {
    static const int B = 1;
    static cplx gen(Tape &t, int m) { double re = static_cast<double>(t.u(-m, m)), im = static_cast<double>(t.u(-m, m)); if (re == 0 && im == 0) re = 1; return cplx(re, im); }
    static cplx at(const cplx &v, int, int) { return v; }
    static const char *name() { return "complex"; }
};
template <int N> struct VT<amgcl::static_matrix<double, N, N>> {
    typedef amgcl::static_matrix<double, N, N> M;
    static const int B = N;
    static M gen(Tape &t, int m) { M v; bool nz = false; for (int i = 0; i < N * N; ++i) { v(i) = static_cast<double>(t.u(-m, m)); nz = nz || v(i) != 0; } if (!nz) v(0) = 1; return v; }
    static cplx at(const M &v, int i, int j) { return cplx(v(i, j), 0); }
    static const char *name() { return N == 2 ? "blk2" : "blk3"; }
};

template <int N> struct VT<amgcl::static_matrix<cplx, N, N>> {
    typedef amgcl::static_matrix<cplx, N, N> M;
    static const int B = N;
    static M gen(Tape &t, int m) { M v; bool nz = false; for (int i = 0; i < N * N; ++i) { v(i) = cplx(static_cast<double>(t.u(-m, m)), static_cast<double>(t.u(-m, m))); nz = nz || v(i) != cplx(0); } if (!nz) v(0) = 1; return v; }
    static cplx at(const M &v, int i, int j) { return v(i, j); }
    static const char *name() { return "cblk2"; }
};

template <class V>
Csr<V> gen_sparse(Tape &t, ptrdiff_t n, ptrdiff_t m, int maxabs, bool sorted) {
    Csr<double> S = gen_sparse_int(t, n, m, 1, sorted);
    Csr<V> A; A.n = n; A.m = m; A.ptr = S.ptr; A.col = S.col; A.val.resize(S.val.size());
    for (auto &v : A.val) v = VT<V>::gen(t, maxabs);
    return A;
}

template <class V>
Dense<cplx> dense_of(const Csr<V> &A) {
    const int B = VT<V>::B;
    Dense<cplx> D(A.n * B, A.m * B);
    for (ptrdiff_t i = 0; i < A.n; ++i)
        for (ptrdiff_t j = A.ptr[i]; j < A.ptr[i + 1]; ++j)
            for (int a = 0; a < B; ++a) for (int b = 0; b < B; ++b) D(i * B + a, A.col[j] * B + b) += VT<V>::at(A.val[j], a, b);
    return D;
}
template <class V>
Dense<cplx> dense_of(const ab::crs<V> &A) { return dense_of(from_crs(A)); }

// structural pattern (block level) as dense 0/1
template <class V>
Dense<int> pattern_of(const Csr<V> &A) {
    Dense<int> D(A.n, A.m);
    for (ptrdiff_t i = 0; i < A.n; ++i) for (ptrdiff_t j = A.ptr[i]; j < A.ptr[i + 1]; ++j) D(i, A.col[j]) = 1;
    return D;
}

static void require_equal(const Dense<cplx> &got, const Dense<cplx> &ref, const std::string &what) {
    VF_REQUIRE(got.n == ref.n && got.m == ref.m, what << ": shape " << got.n << "x" << got.m << " vs " << ref.n << "x" << ref.m);
    for (ptrdiff_t i = 0; i < ref.n; ++i) for (ptrdiff_t j = 0; j < ref.m; ++j)
        VF_REQUIRE(got(i, j) == ref(i, j), what << ": entry (" << i << "," << j << ") = " << got(i, j) << ", dense reference " << ref(i, j));
}

template <class V>
void require_pattern_subset(const ab::crs<V> &C, const Dense<int> &allowed, const std::string &what) {
    for (size_t i = 0; i < C.nrows; ++i) for (ptrdiff_t j = C.ptr[i]; j < C.ptr[i + 1]; ++j)
        VF_REQUIRE(allowed(i, C.col[j]) != 0, what << ": stored entry (" << i << "," << C.col[j] << ") outside the structural pattern");
}
template <class V>
void require_pattern_equal(const ab::crs<V> &C, const Dense<int> &expected, const std::string &what) {
    require_pattern_subset(C, expected, what);
    Dense<int> got = pattern_of(from_crs(C));
    for (ptrdiff_t i = 0; i < expected.n; ++i) for (ptrdiff_t j = 0; j < expected.m; ++j)
        VF_REQUIRE(got(i, j) == expected(i, j), what << ": structural entry (" << i << "," << j << ") missing");
}

// shape decoding shared by several props: small shapes most of the time, up to `big` occasionally
static void gen_shape(Tape &t, ptrdiff_t &n, ptrdiff_t &k, ptrdiff_t &m, int big) {
    int cls = static_cast<int>(t.u(0, 3));
    int hi = cls == 0 ? 3 : cls == 1 ? 8 : cls == 2 ? 30 : big;
    n = t.u(0, hi); k = t.u(0, hi); m = t.u(0, hi);
}

// ------------------------------------------------------------------ spgemm
template <class V>
void prop_spgemm(Tape &t, Ctx &c) {
    ptrdiff_t n, k, m; gen_shape(t, n, k, m, 120);
    bool a_sorted = t.b();
    bool b_sorted = t.b();
    Csr<V> A = gen_sparse<V>(t, n, k, 6, a_sorted);
    Csr<V> B = gen_sparse<V>(t, k, m, 6, b_sorted);
    c.desc << "spgemm<" << VT<V>::name() << "> threads=" << c.threads << " " << describe(A, "A") << (a_sorted ? "s" : "u") << " * " << describe(B, "B") << (b_sorted ? "s" : "u")
           << " A=" << dump_small(A, 6) << " B=" << dump_small(B, 6);
    Dense<cplx> ref = matmul(dense_of(A), dense_of(B));
    Dense<int> pa = pattern_of(A), pb = pattern_of(B), pref(n, m);
    long accum = 0; // entries with >=2 contributions
    for (ptrdiff_t i = 0; i < n; ++i) for (ptrdiff_t j = 0; j < m; ++j) { int s = 0; for (ptrdiff_t l = 0; l < k; ++l) s += pa(i, l) * pb(l, j); pref(i, j) = s > 0; if (s > 1) ++accum; }
    c.nontrivial = A.nnz() >= 2 && B.nnz() >= 2 && accum > 0;
    c.label(std::string("val:") + VT<V>::name());
    c.label(accum > 0 ? "accumulated-entry" : "no-accumulation");
    c.label(n == 0 || k == 0 || m == 0 ? "empty-dim" : "nonempty");
    c.label(a_sorted && b_sorted ? "sorted" : "unsorted-operand");

    auto a = to_crs<V>(A), b = to_crs<V>(B);
    for (int sort = 0; sort < 2; ++sort) {
        ab::crs<V> C;
        ab::spgemm_saad(*a, *b, C, sort != 0);
        std::string w = std::string("spgemm_saad(sort=") + (sort ? "true" : "false") + ")";
        require_wellformed(C, w, sort != 0, true);
        require_pattern_equal(C, pref, w);
        require_equal(dense_of(C), ref, w);
    }
    if (b_sorted) { // row-merge algorithm merges rows of B: needs them ordered (amg sorts P and R before the Galerkin product)
        ab::crs<V> C;
        ab::spgemm_rmerge(*a, *b, C);
        require_wellformed(C, "spgemm_rmerge", true, true);
        require_pattern_equal(C, pref, "spgemm_rmerge");
        require_equal(dense_of(C), ref, "spgemm_rmerge");
        c.label("rmerge");
        // the public entry point picks one of the two by thread count
        auto P = ab::product(*a, *b);
        require_wellformed(*P, "product", false, true);
        require_pattern_equal(*P, pref, "product");
        require_equal(dense_of(*P), ref, "product");
        auto Ps = ab::product(*a, *b, true);
        require_wellformed(*Ps, "product(sort)", true, true);
        require_equal(dense_of(*Ps), ref, "product(sort)");
    } else if (c.threads <= 16) {
        auto P = ab::product(*a, *b);
        require_wellformed(*P, "product", false, true);
        require_equal(dense_of(*P), ref, "product");
    }
}

// ------------------------------------------------------------------ transpose / sum / scale / sort / diagonal / copies
template <class V>
void prop_transpose(Tape &t, Ctx &c) {
    ptrdiff_t n, k, m; gen_shape(t, n, k, m, 200);
    bool sorted = t.b();
    Csr<V> A = gen_sparse<V>(t, n, m, 9, sorted);
    c.desc << "transpose<" << VT<V>::name() << "> " << describe(A) << (sorted ? "s" : "u") << " A=" << dump_small(A, 6);
    c.nontrivial = A.nnz() >= 2 && n != m;
    c.label(std::string("val:") + VT<V>::name());
    auto a = to_crs<V>(A);
    auto T = ab::transpose(*a);
    require_wellformed(*T, "transpose", true, true); // counting transpose emits rows in increasing source-row order
    Dense<cplx> D = dense_of(A), ref(D.m, D.n);
    for (ptrdiff_t i = 0; i < D.n; ++i) for (ptrdiff_t j = 0; j < D.m; ++j) ref(j, i) = std::conj(D(i, j));
    require_equal(dense_of(*T), ref, "transpose (conjugate transpose)");
    VF_REQUIRE(static_cast<ptrdiff_t>(T->nnz) == A.nnz(), "transpose: nnz " << T->nnz << " vs " << A.nnz());
    // involution
    auto TT = ab::transpose(*T);
    require_equal(dense_of(*TT), D, "transpose(transpose(A))");
}

template <class V>
void prop_sum(Tape &t, Ctx &c) {
    ptrdiff_t n, k, m; gen_shape(t, n, k, m, 200);
    bool sa = t.b(), sb = t.b(), sort = t.b();
    Csr<V> A = gen_sparse<V>(t, n, m, 9, sa), B = gen_sparse<V>(t, n, m, 9, sb);
    double alpha = static_cast<double>(t.u(-3, 3)), beta = static_cast<double>(t.u(-3, 3));
    c.desc << "sum<" << VT<V>::name() << "> " << alpha << "*" << describe(A, "A") << " + " << beta << "*" << describe(B, "B") << " sort=" << sort
           << " A=" << dump_small(A, 6) << " B=" << dump_small(B, 6);
    Dense<int> pa = pattern_of(A), pb = pattern_of(B), pu(n, m);
    long overlap = 0;
    for (ptrdiff_t i = 0; i < n; ++i) for (ptrdiff_t j = 0; j < m; ++j) { pu(i, j) = pa(i, j) | pb(i, j); overlap += pa(i, j) & pb(i, j); }
    c.nontrivial = overlap > 0 && A.nnz() >= 2 && B.nnz() >= 2;
    c.label(std::string("val:") + VT<V>::name());
    c.label(overlap ? "overlap" : "disjoint");
    auto a = to_crs<V>(A), b = to_crs<V>(B);
    V va = alpha * amgcl::math::identity<V>(), vb = beta * amgcl::math::identity<V>();
    auto S = ab::sum(va, *a, vb, *b, sort);
    require_wellformed(*S, "sum", sort, true);
    require_pattern_equal(*S, pu, "sum");
    Dense<cplx> da = dense_of(A), db = dense_of(B), ref(da.n, da.m);
    for (size_t i = 0; i < ref.a.size(); ++i) ref.a[i] = alpha * da.a[i] + beta * db.a[i];
    require_equal(dense_of(*S), ref, "sum");
}

template <class V>
void prop_scale_sort_diag(Tape &t, Ctx &c) {
    ptrdiff_t n = t.u(0, t.b() ? 8 : 120);
    Csr<V> A = gen_sparse<V>(t, n, n, 9, false);
    // make sure the diagonal is structurally present (diagonal() reads it unconditionally)
    {
        std::vector<std::map<ptrdiff_t, V>> rows(n);
        Csr<V> Bm; Bm.n = Bm.m = n; Bm.ptr.assign(n + 1, 0);
        for (ptrdiff_t i = 0; i < n; ++i) {
            bool has = false;
            for (ptrdiff_t j = A.ptr[i]; j < A.ptr[i + 1]; ++j) has = has || A.col[j] == i;
            ptrdiff_t len = A.ptr[i + 1] - A.ptr[i];
            ptrdiff_t at = has ? -1 : static_cast<ptrdiff_t>(t.pick(len + 1));
            for (ptrdiff_t j = 0; j <= len; ++j) {
                if (j == at) { Bm.col.push_back(i); Bm.val.push_back(VT<V>::gen(t, 9)); }
                if (j < len) { Bm.col.push_back(A.col[A.ptr[i] + j]); Bm.val.push_back(A.val[A.ptr[i] + j]); }
            }
            Bm.ptr[i + 1] = static_cast<ptrdiff_t>(Bm.col.size());
        }
        A = Bm;
    }
    double s = std::ldexp(static_cast<double>(t.u(-5, 5)), static_cast<int>(t.u(0, 6)) - 3);
    c.desc << "scale/sort/diagonal<" << VT<V>::name() << "> " << describe(A) << " s=" << s << " A=" << dump_small(A, 6);
    bool unsorted = false;
    for (ptrdiff_t i = 0; i < n; ++i) for (ptrdiff_t j = A.ptr[i] + 1; j < A.ptr[i + 1]; ++j) unsorted = unsorted || A.col[j - 1] > A.col[j];
    c.nontrivial = unsorted && A.nnz() > n;
    c.label(std::string("val:") + VT<V>::name());
    c.label(unsorted ? "unsorted" : "sorted");
    Dense<cplx> D = dense_of(A);
    // sort_rows: same multiset per row, ascending columns, values travel with their columns
    auto a = to_crs<V>(A);
    ab::sort_rows(*a);
    require_wellformed(*a, "sort_rows", true, true);
    VF_REQUIRE(static_cast<ptrdiff_t>(a->nnz) == A.nnz(), "sort_rows changed nnz");
    for (ptrdiff_t i = 0; i <= n; ++i) VF_REQUIRE(a->ptr[i] == A.ptr[i], "sort_rows changed ptr");
    require_equal(dense_of(*a), D, "sort_rows");
    // scale
    auto b = to_crs<V>(A);
    ab::scale(*b, s);
    Dense<cplx> ref = D; for (auto &x : ref.a) x *= s;
    require_equal(dense_of(*b), ref, "scale");
    for (ptrdiff_t j = 0; j < A.nnz(); ++j) VF_REQUIRE(b->col[j] == A.col[j], "scale changed structure");
    // diagonal
    auto a2 = to_crs<V>(A);
    auto d = ab::diagonal(*a2, false);
    const int B = VT<V>::B;
    for (ptrdiff_t i = 0; i < n; ++i) for (int p = 0; p < B; ++p) for (int q = 0; q < B; ++q)
        VF_REQUIRE(VT<V>::at((*d)[i], p, q) == D(i * B + p, i * B + q), "diagonal: row " << i);
    // inverted diagonal: d * inv == identity within rounding; exact for scalar powers of two
    auto di = ab::diagonal(*a2, true);
    for (ptrdiff_t i = 0; i < n; ++i) {
        V dv = (*d)[i];
        V iv = (*di)[i];
        if (amgcl::math::is_zero(dv)) {
            for (int p = 0; p < B; ++p) for (int q = 0; q < B; ++q) VF_REQUIRE(VT<V>::at(iv, p, q) == cplx(p == q ? 1.0 : 0.0), "diagonal(invert): zero entry must map to identity, row " << i);
            c.label("zero-diagonal");
            continue;
        }
        // singular non-zero blocks are outside the documented domain (inverse undefined): skip them
        if (B > 1) {
            Eigen::MatrixXcd E(B, B); // complex: a block with integer parts is singular iff its (Gaussian integer) determinant is 0
            for (int p = 0; p < B; ++p) for (int q = 0; q < B; ++q) E(p, q) = VT<V>::at(dv, p, q);
            if (std::abs(E.determinant()) < 0.5) { c.label("singular-block-skipped"); continue; }
        }
        V prod = dv * iv;
        for (int p = 0; p < B; ++p) for (int q = 0; q < B; ++q) {
            cplx e = VT<V>::at(prod, p, q) - cplx(p == q ? 1.0 : 0.0);
            VF_REQUIRE(std::abs(e) <= 1e-10, "diagonal(invert): d*inv(d) != I at row " << i << " err " << std::abs(e));
        }
    }
}

// copy / convert constructors
static void prop_copy(Tape &t, Ctx &c) {
    ptrdiff_t n, k, m; gen_shape(t, n, k, m, 150);
    Csr<double> A = gen_sparse_int(t, n, m, 9, t.b(), true);
    c.desc << "crs copy/convert " << describe(A) << " A=" << dump_small(A, 6);
    c.nontrivial = A.nnz() >= 2;
    auto a = to_crs<double>(A);
    Dense<cplx> D = dense_of(A);
    auto same = [&](const Csr<double> &X, const char *w) {
        VF_REQUIRE(X.n == A.n && X.m == A.m, w << ": shape");
        VF_REQUIRE(X.ptr == A.ptr && X.col == A.col, w << ": structure differs (storage order must be preserved)");
        VF_REQUIRE(X.val.size() == A.val.size() && std::equal(X.val.begin(), X.val.end(), A.val.begin()), w << ": values differ");
    };
    same(from_crs(*a), "range ctor");
    { ab::crs<double> b(*a); require_wellformed(b, "copy ctor"); same(from_crs(b), "copy ctor"); VF_REQUIRE(b.ptr != a->ptr && (b.nnz == 0 || b.col != a->col), "copy ctor aliases source"); }
    { ab::crs<double> b; b = *a; same(from_crs(b), "copy assignment"); ab::crs<double> c2; c2 = std::move(b); same(from_crs(c2), "move assignment"); }
    { ab::crs<double> b(*a); ab::crs<double> c2(std::move(b)); same(from_crs(c2), "move ctor"); VF_REQUIRE(b.ptr == nullptr && b.nrows == 0, "moved-from not emptied"); }
    { // converting ctor through the generic row-iterator interface: other index / value types
        ab::crs<float, int, int> f(*a);
        require_wellformed(f, "convert ctor<float,int>");
        Csr<float> F = from_crs(f);
        VF_REQUIRE(F.n == A.n && F.m == A.m && F.col == std::vector<ptrdiff_t>(A.col.begin(), A.col.end()), "convert ctor: structure");
        for (size_t i = 0; i < F.val.size(); ++i) VF_REQUIRE(F.val[i] == static_cast<float>(A.val[i]), "convert ctor: value " << i);
        ab::crs<long double, long, long> l(f);
        for (size_t i = 0; i < F.val.size(); ++i) VF_REQUIRE(l.val[i] == static_cast<long double>(A.val[i]), "convert ctor (float->long double): value " << i);
    }
    { // tuple adapter path
        auto tup = std::make_tuple(static_cast<size_t>(A.n), A.ptr, A.col, A.val);
        if (A.n == A.m) { // tuple adapter describes square matrices only (cols := rows)
            ab::crs<double> b(tup);
            same(from_crs(b), "tuple ctor");
        }
    }
    (void)D;
}

// ------------------------------------------------------------------ pointwise_matrix
static void prop_pointwise(Tape &t, Ctx &c) {
    int bs = static_cast<int>(t.u(1, 4));
    ptrdiff_t np = t.u(0, t.b() ? 4 : 40), mp = t.b() ? np : t.u(0, 40);
    ptrdiff_t n = np * bs, m = mp * bs;
    // rows must be sorted by column: the scan advances all b row cursors block column by block column
    Csr<double> A = gen_sparse_int(t, n, m, 9, true);
    c.desc << "pointwise_matrix bs=" << bs << " " << describe(A) << " A=" << dump_small(A, 8);
    // reference: block (I,J) present iff any stored entry falls into it; value = max |a|
    Dense<int> pres(np, mp); Dense<double> mx(np, mp);
    long multi = 0;
    for (ptrdiff_t i = 0; i < n; ++i) for (ptrdiff_t j = A.ptr[i]; j < A.ptr[i + 1]; ++j) {
        ptrdiff_t I = i / bs, J = A.col[j] / bs;
        if (pres(I, J)) ++multi;
        pres(I, J) = 1; mx(I, J) = std::max(mx(I, J), std::abs(A.val[j]));
    }
    long blocks_in_row_max = 0;
    for (ptrdiff_t I = 0; I < np; ++I) { long s = 0; for (ptrdiff_t J = 0; J < mp; ++J) s += pres(I, J); blocks_in_row_max = std::max(blocks_in_row_max, s); }
    c.nontrivial = bs >= 2 && blocks_in_row_max >= 2 && multi > 0;
    c.label("bs=" + std::to_string(bs));
    c.label(blocks_in_row_max >= 2 ? "multi-block-row" : "single-block-rows");
    auto a = to_crs<double>(A);
    auto P = ab::pointwise_matrix(*a, static_cast<unsigned>(bs));
    require_wellformed(*P, "pointwise_matrix", true, true);
    VF_REQUIRE(static_cast<ptrdiff_t>(P->nrows) == np && static_cast<ptrdiff_t>(P->ncols) == mp, "pointwise_matrix: shape " << P->nrows << "x" << P->ncols);
    Dense<int> got(np, mp); Dense<double> gv(np, mp);
    for (ptrdiff_t I = 0; I < np; ++I) for (ptrdiff_t j = P->ptr[I]; j < P->ptr[I + 1]; ++j) { got(I, P->col[j]) = 1; gv(I, P->col[j]) = P->val[j]; }
    for (ptrdiff_t I = 0; I < np; ++I) for (ptrdiff_t J = 0; J < mp; ++J) {
        VF_REQUIRE(got(I, J) == pres(I, J), "pointwise_matrix: block (" << I << "," << J << ") " << (pres(I, J) ? "missing" : "invented"));
        VF_REQUIRE(gv(I, J) == mx(I, J), "pointwise_matrix: block (" << I << "," << J << ") value " << gv(I, J) << " expected max-norm " << mx(I, J));
    }
}

// block-valued input with block_size 1: entry = Frobenius norm of the block
static void prop_pointwise_blockval(Tape &t, Ctx &c) {
    ptrdiff_t n = t.u(0, 30);
    Csr<blk2> A = gen_sparse<blk2>(t, n, n, 4, true);
    c.desc << "pointwise_matrix<blk2,bs=1> " << describe(A);
    c.nontrivial = A.nnz() >= 2;
    auto a = to_crs<blk2>(A);
    auto P = ab::pointwise_matrix(*a, 1u);
    require_wellformed(*P, "pointwise_matrix(block values)", true, true);
    VF_REQUIRE(static_cast<ptrdiff_t>(P->nnz) == A.nnz(), "pointwise_matrix(block values): nnz");
    for (ptrdiff_t j = 0; j < A.nnz(); ++j) {
        VF_REQUIRE(P->col[j] == A.col[j], "pointwise_matrix(block values): col");
        long double s = 0; for (int q = 0; q < 4; ++q) s += static_cast<long double>(A.val[j](q)) * A.val[j](q);
        double ref = static_cast<double>(std::sqrt(s));
        VF_REQUIRE(std::abs(P->val[j] - ref) <= 4e-16 * ref, "pointwise_matrix(block values): value " << P->val[j] << " vs " << ref);
    }
}

// ------------------------------------------------------------------ spectral radius bounds
static void prop_spectral(Tape &t, Ctx &c) {
    int nmax = t.b() ? 6 : 40;
    Graph g = gen_graph(t, nmax);
    int n = g.n;
    // general square matrix on the graph pattern (+ optional structural non-symmetry), non-zero diagonal
    std::vector<std::map<ptrdiff_t, double>> rows(n);
    int vclass = static_cast<int>(t.u(0, 2)); // 0 M-matrix like, 1 mixed signs, 2 small ints
    for (auto &e : g.edges) {
        double w1 = vclass == 2 ? t.ival(1, 5) : t.logu(0.1, 10), w2 = vclass == 2 ? t.ival(1, 5) : t.logu(0.1, 10);
        if (vclass == 0) { w1 = -w1; w2 = -w2; } else { if (t.b()) w1 = -w1; if (t.b()) w2 = -w2; }
        if (!t.chance(1, 6)) rows[e.first][e.second] = w1;
        if (!t.chance(1, 6)) rows[e.second][e.first] = w2;
    }
    for (int i = 0; i < n; ++i) { double d = vclass == 2 ? t.ival(1, 8) : t.logu(0.1, 20); if (vclass != 0 && t.b()) d = -d; rows[i][i] = d; }
    Csr<double> A = from_triplets<double>(n, n, rows);
    int iters = static_cast<int>(t.u(1, 20));
    c.desc << "spectral_radius " << g.family << " n=" << n << " nnz=" << A.nnz() << " vclass=" << vclass << " iters=" << iters << " threads=" << c.threads << " A=" << dump_small(A, 6);
    c.nontrivial = n >= 2 && A.nnz() > n;
    c.label("fam:" + g.family);
    auto a = to_crs<double>(A);
    Eigen::MatrixXd E = Eigen::MatrixXd::Zero(n, n), S = Eigen::MatrixXd::Zero(n, n);
    for (int i = 0; i < n; ++i) for (ptrdiff_t j = A.ptr[i]; j < A.ptr[i + 1]; ++j) { E(i, A.col[j]) = A.val[j]; S(i, A.col[j]) = A.val[j] / rows[i][i]; }
    auto rho = [](const Eigen::MatrixXd &M) { if (M.rows() == 0) return 0.0; Eigen::EigenSolver<Eigen::MatrixXd> es(M, false); double r = 0; for (int i = 0; i < M.rows(); ++i) r = std::max(r, std::abs(es.eigenvalues()[i])); return r; };
    auto smax = [](const Eigen::MatrixXd &M) { if (M.rows() == 0) return 0.0; Eigen::JacobiSVD<Eigen::MatrixXd> svd(M); return svd.singularValues()(0); };
    double g0 = ab::spectral_radius<false>(*a, 0), g1 = ab::spectral_radius<true>(*a, 0);
    double r0 = rho(E), r1 = rho(S);
    VF_REQUIRE(g0 >= r0 * (1 - 1e-12), "Gershgorin bound " << g0 << " below spectral radius " << r0);
    VF_REQUIRE(g1 >= r1 * (1 - 1e-12), "scaled Gershgorin bound " << g1 << " below spectral radius of D^-1 A " << r1);
    // Gershgorin value itself: max_i sum_j |a_ij| (/|a_ii|) — rounding only
    double e0 = 0, e1 = 0;
    for (int i = 0; i < n; ++i) { long double s = 0; for (ptrdiff_t j = A.ptr[i]; j < A.ptr[i + 1]; ++j) s += std::abs(A.val[j]); e0 = std::max<double>(e0, s); e1 = std::max<double>(e1, s / std::abs(rows[i][i])); }
    VF_REQUIRE(std::abs(g0 - e0) <= 1e-13 * e0, "Gershgorin value " << g0 << " expected max row sum " << e0);
    VF_REQUIRE(std::abs(g1 - e1) <= 1e-13 * e1, "scaled Gershgorin value " << g1 << " expected " << e1);
    double p0 = ab::spectral_radius<false>(*a, iters), p1 = ab::spectral_radius<true>(*a, iters);
    double s0 = smax(E), s1 = smax(S);
    // The power iteration normalises A^k b0; for a (numerically) nilpotent matrix that vector vanishes and the
    // estimate is undefined (0/0).  Such matrices are singular, i.e. outside the domain of system matrices.
    if (r0 > 1e-6 * s0) {
        VF_REQUIRE(p0 <= s0 * (1 + 1e-10), "power estimate " << p0 << " exceeds sigma_max(A) " << s0);
        VF_REQUIRE(p0 >= 0, "negative power estimate");
    } else c.label("nilpotent-skipped");
    if (r1 > 1e-6 * s1) {
        VF_REQUIRE(p1 <= s1 * (1 + 1e-10), "scaled power estimate " << p1 << " exceeds sigma_max(D^-1 A) " << s1);
        VF_REQUIRE(p1 >= 0, "negative power estimate");
    } else c.label("nilpotent-skipped");
}

// block-valued matrices: Gershgorin with Frobenius norms of the blocks, scaled by ||D_i^-1||_F
static void prop_spectral_blk(Tape &t, Ctx &c) {
    Graph g = gen_graph(t, t.b() ? 5 : 25);
    int n = g.n;
    Csr<blk2> A; A.n = A.m = n; A.ptr.assign(n + 1, 0);
    std::vector<std::map<ptrdiff_t, blk2>> rows(n);
    auto rnd_blk = [&](double lo, double hi) { blk2 b; for (int q = 0; q < 4; ++q) b(q) = t.slogu(lo, hi); return b; };
    for (auto &e : g.edges) { if (!t.chance(1, 6)) rows[e.first][e.second] = rnd_blk(0.05, 5); if (!t.chance(1, 6)) rows[e.second][e.first] = rnd_blk(0.05, 5); }
    for (int i = 0; i < n; ++i) { // well conditioned but anisotropic diagonal blocks: diag(d1, d2) + small coupling
        blk2 d; double d1 = t.logu(0.5, 200), d2 = t.logu(0.5, 200); d(0, 0) = d1; d(1, 1) = t.b() ? d2 : -d2; d(0, 1) = t.uni(-0.2, 0.2) * std::min(d1, d2); d(1, 0) = t.uni(-0.2, 0.2) * std::min(d1, d2);
        rows[i][i] = d;
    }
    for (int i = 0; i < n; ++i) { for (auto &kv : rows[i]) { A.col.push_back(kv.first); A.val.push_back(kv.second); } A.ptr[i + 1] = static_cast<ptrdiff_t>(A.col.size()); }
    int iters = static_cast<int>(t.u(1, 12));
    c.desc << "spectral_radius<blk2> " << g.family << " n=" << n << " nnz=" << A.nnz() << " iters=" << iters << " threads=" << c.threads;
    c.nontrivial = n >= 2 && A.nnz() > n;
    c.label("fam:" + g.family); c.label("val:blk2");
    auto a = to_crs<blk2>(A);
    auto fro = [](const blk2 &b) { long double s = 0; for (int q = 0; q < 4; ++q) s += static_cast<long double>(b(q)) * b(q); return static_cast<double>(std::sqrt(s)); };
    auto inv2 = [](const blk2 &b) { blk2 r; double det = b(0, 0) * b(1, 1) - b(0, 1) * b(1, 0); r(0, 0) = b(1, 1) / det; r(1, 1) = b(0, 0) / det; r(0, 1) = -b(0, 1) / det; r(1, 0) = -b(1, 0) / det; return r; };
    Eigen::MatrixXd E = Eigen::MatrixXd::Zero(2 * n, 2 * n), S = Eigen::MatrixXd::Zero(2 * n, 2 * n);
    double e0 = 0, e1 = 0;
    for (int i = 0; i < n; ++i) {
        blk2 di = inv2(rows[i][i]);
        double rs = 0;
        for (ptrdiff_t j = A.ptr[i]; j < A.ptr[i + 1]; ++j) {
            rs += fro(A.val[j]);
            blk2 sc = di * A.val[j];
            for (int p = 0; p < 2; ++p) for (int q = 0; q < 2; ++q) { E(2 * i + p, 2 * A.col[j] + q) = A.val[j](p, q); S(2 * i + p, 2 * A.col[j] + q) = sc(p, q); }
        }
        e0 = std::max(e0, rs); e1 = std::max(e1, rs * fro(di));
    }
    auto rho = [](const Eigen::MatrixXd &M) { if (M.rows() == 0) return 0.0; Eigen::EigenSolver<Eigen::MatrixXd> es(M, false); double r = 0; for (int i = 0; i < M.rows(); ++i) r = std::max(r, std::abs(es.eigenvalues()[i])); return r; };
    auto smax = [](const Eigen::MatrixXd &M) { if (M.rows() == 0) return 0.0; Eigen::JacobiSVD<Eigen::MatrixXd> svd(M); return svd.singularValues()(0); };
    double g0 = ab::spectral_radius<false>(*a, 0), g1 = ab::spectral_radius<true>(*a, 0);
    double r0 = rho(E), r1 = rho(S);
    VF_REQUIRE(std::abs(g0 - e0) <= 1e-12 * e0, "block Gershgorin value " << g0 << " expected max_i sum_j ||A_ij||_F = " << e0);
    VF_REQUIRE(std::abs(g1 - e1) <= 1e-10 * e1, "scaled block Gershgorin value " << g1 << " expected max_i ||D_i^-1||_F sum_j ||A_ij||_F = " << e1);
    VF_REQUIRE(g0 >= r0 * (1 - 1e-10), "block Gershgorin bound " << g0 << " below spectral radius " << r0);
    VF_REQUIRE(g1 >= r1 * (1 - 1e-10), "scaled block Gershgorin bound " << g1 << " below spectral radius of D^-1 A " << r1);
    double p0 = ab::spectral_radius<false>(*a, iters), p1 = ab::spectral_radius<true>(*a, iters);
    double s0 = smax(E), s1 = smax(S);
    if (r0 > 1e-6 * s0) VF_REQUIRE(p0 <= s0 * (1 + 1e-9) && p0 >= 0, "block power estimate " << p0 << " exceeds sigma_max(A) " << s0);
    if (r1 > 1e-6 * s1) VF_REQUIRE(p1 <= s1 * (1 + 1e-9) && p1 >= 0, "scaled block power estimate " << p1 << " exceeds sigma_max(D^-1 A) " << s1);
}

static std::vector<Prop> props() {
    std::vector<int> th = {1, 4, 17};
    return {
        Prop("spgemm_double", prop_spgemm<double>, 1500, 12000, 100, 40, th, 2, 4),
        Prop("spgemm_complex", prop_spgemm<cplx>, 500, 4000, 100, 40, {1, 17}, 1, 2),
        Prop("spgemm_blk2", prop_spgemm<blk2>, 500, 4000, 100, 60, {1, 17}, 1, 2),
        Prop("transpose_double", prop_transpose<double>, 1500, 10000, 100, 30, {1}, 1, 2),
        Prop("transpose_complex", prop_transpose<cplx>, 800, 6000, 100, 30, {1}, 1, 2),
        Prop("transpose_blk3", prop_transpose<blk3>, 500, 4000, 100, 60, {1}, 1, 2),
        Prop("transpose_cblk2", prop_transpose<cblk2>, 500, 4000, 100, 60, {1}, 1, 2),
        Prop("spgemm_cblk2", prop_spgemm<cblk2>, 300, 2500, 100, 60, {1, 17}, 1, 2),
        Prop("sum_double", prop_sum<double>, 1500, 10000, 100, 30, {1, 4}, 1, 2),
        Prop("sum_blk2", prop_sum<blk2>, 500, 4000, 100, 60, {1}, 1, 2),
        Prop("scale_sort_diag_double", prop_scale_sort_diag<double>, 1500, 10000, 100, 30, {1, 4}, 1, 2),
        Prop("scale_sort_diag_complex", prop_scale_sort_diag<cplx>, 500, 4000, 100, 30, {1}, 1, 2),
        Prop("scale_sort_diag_blk2", prop_scale_sort_diag<blk2>, 500, 4000, 100, 60, {1}, 1, 2),
        Prop("scale_sort_diag_cblk2", prop_scale_sort_diag<cblk2>, 300, 2500, 100, 60, {1}, 1, 1),
        Prop("copy", prop_copy, 1500, 10000, 100, 30, {1, 4}, 1, 2),
        Prop("pointwise", prop_pointwise, 3000, 30000, 100, 30, {1, 4}, 1, 4),
        Prop("pointwise_blockval", prop_pointwise_blockval, 500, 4000, 100, 30, {1}, 1, 1),
        Prop("spectral", prop_spectral, 1500, 12000, 100, 20, {1, 4}, 1, 4),
        Prop("spectral_blk2", prop_spectral_blk, 800, 6000, 100, 20, {1, 4}, 1, 2),
    };
}

// Exhaustive scopes ---------------------------------------------------------------------------
// spgemm_double decodes: cls, n, k, m, a_sorted, b_sorted, then gen_sparse_int(A): dens, per row: k_i, picks..., values.
// Direct bit-pattern enumeration is done through a dedicated prop that reads patterns as bitmasks.
static void prop_spgemm_bits(Tape &t, Ctx &c) {
    int n = static_cast<int>(t.u(1, 4)), k = static_cast<int>(t.u(1, 4)), m = static_cast<int>(t.u(1, 4));
    uint32_t ma = static_cast<uint32_t>(t.u(0, (1 << (n * k)) - 1)), mb = static_cast<uint32_t>(t.u(0, (1 << (k * m)) - 1));
    int vcls = static_cast<int>(t.u(0, 2)); // 0 all ones, 1 alternating signs (cancellation), 2 position dependent
    auto build = [&](int r, int q, uint32_t mask, int salt) {
        Csr<double> A; A.n = r; A.m = q; A.ptr.assign(r + 1, 0);
        for (int i = 0; i < r; ++i) {
            for (int j = 0; j < q; ++j) if (mask >> (i * q + j) & 1) {
                double v = vcls == 0 ? 1.0 : vcls == 1 ? (((i + j + salt) & 1) ? -1.0 : 1.0) : static_cast<double>((i * 3 + j * 5 + salt) % 7 - 3 == 0 ? 2 : (i * 3 + j * 5 + salt) % 7 - 3);
                A.col.push_back(j); A.val.push_back(v);
            }
            A.ptr[i + 1] = static_cast<ptrdiff_t>(A.col.size());
        }
        return A;
    };
    Csr<double> A = build(n, k, ma, 0), B = build(k, m, mb, 1);
    c.desc << "spgemm_bits " << n << "x" << k << "x" << m << " maskA=" << ma << " maskB=" << mb << " vcls=" << vcls << " threads=" << c.threads;
    Dense<cplx> ref = matmul(dense_of(A), dense_of(B));
    c.nontrivial = A.nnz() >= 2 && B.nnz() >= 2;
    auto a = to_crs<double>(A), b = to_crs<double>(B);
    { ab::crs<double> C; ab::spgemm_saad(*a, *b, C, true); require_wellformed(C, "spgemm_saad", true, true); require_equal(dense_of(C), ref, "spgemm_saad"); }
    { ab::crs<double> C; ab::spgemm_rmerge(*a, *b, C); require_wellformed(C, "spgemm_rmerge", true, true); require_equal(dense_of(C), ref, "spgemm_rmerge"); }
    { auto T = ab::transpose(*a); Dense<cplx> D = dense_of(A), r2(D.m, D.n); for (ptrdiff_t i = 0; i < D.n; ++i) for (ptrdiff_t j = 0; j < D.m; ++j) r2(j, i) = D(i, j); require_equal(dense_of(*T), r2, "transpose"); }
    if (n == k && k == m) {
        auto S = ab::sum(2.0, *a, -1.0, *b, true);
        Dense<cplx> da = dense_of(A), db = dense_of(B), r3(n, n);
        for (size_t i = 0; i < r3.a.size(); ++i) r3.a[i] = 2.0 * da.a[i] - db.a[i];
        require_wellformed(*S, "sum", true, true);
        require_equal(dense_of(*S), r3, "sum");
    }
}

static std::vector<Enum> enums() {
    Enum e;
    e.name = "spgemm_all_patterns"; e.prop = "spgemm_bits";
    e.scope_quick = "all pattern pairs A(3x3) x B(3x3) (2^9 x 2^9) x 3 value assignments, and all smaller square shapes";
    e.scope_thorough = "quick scope plus all pattern pairs 4x3 * 3x4 (2^12 x 2^12) x 3 value assignments";
    e.gen = [](const std::string &tier, const Emit &emit) {
        auto run = [&](int n, int k, int m) {
            for (uint32_t ma = 0; ma < (1u << (n * k)); ++ma) for (uint32_t mb = 0; mb < (1u << (k * m)); ++mb) for (uint32_t v = 0; v < 3; ++v)
                emit({static_cast<uint32_t>(n - 1), static_cast<uint32_t>(k - 1), static_cast<uint32_t>(m - 1), ma, mb, v});
        };
        run(1, 1, 1); run(2, 2, 2); run(3, 3, 3);
        if (tier == "thorough") run(4, 3, 4);
    };
    return {e};
}

static std::vector<Prop> all_props() {
    std::vector<Prop> p = props();
    p.push_back(Prop("spgemm_bits", prop_spgemm_bits, 300, 3000, 100, 1, {1, 17}, 1, 1));
    return p;
}

VF_MAIN(all_props(), enums())
