// C14 (d) — amg<Backend, runtime::coarsening::wrapper, runtime::relaxation::wrapper> + runtime::solver::wrapper
// (the composite behind the C interface) against compile-time typed make_solver<amg<B, C, R>, cg>:
// all 4 coarsenings x spai0 and all 9 relaxations x smoothed_aggregation. Bitwise identical (iters, resid, x).
#define C14_NO_RUNTIME_PRECOND
#define C14_NO_COMPOSITES
#include "c14_equiv.hpp"

using namespace vf;
using namespace c14;

namespace c14 {
#define C14_COMBO(NAME, C, R) \
    typedef amgcl::amg<B, co::C, re::R> AMG_##NAME; typedef amgcl::make_solver<AMG_##NAME, so::cg<B>> MS_##NAME; \
    C14_AMG_DESC(AMG_##NAME) C14_MAKE_SOLVER_DESC(MS_##NAME)
C14_COMBO(rs_spai0, ruge_stuben, spai0)
C14_COMBO(agg_spai0, aggregation, spai0)
C14_COMBO(sa_spai0, smoothed_aggregation, spai0)
C14_COMBO(emin_spai0, smoothed_aggr_emin, spai0)
C14_COMBO(sa_gs, smoothed_aggregation, gauss_seidel)
C14_COMBO(sa_ilu0, smoothed_aggregation, ilu0)
C14_COMBO(sa_iluk, smoothed_aggregation, iluk)
C14_COMBO(sa_ilup, smoothed_aggregation, ilup)
C14_COMBO(sa_ilut, smoothed_aggregation, ilut)
C14_COMBO(sa_dj, smoothed_aggregation, damped_jacobi)
C14_COMBO(sa_spai1, smoothed_aggregation, spai1)
C14_COMBO(sa_cheb, smoothed_aggregation, chebyshev)
}

template <class Typed>
static void combo(Tape &t, Ctx &c, const char *label, const char *coarsening, const char *relax) {
    TypeKeys tk = {{"precond.coarsening.type", coarsening}, {"precond.relax.type", relax}, {"solver.type", "cg"}};
    equiv_case<Typed, RtSolverAMG>(t, c, label, tk, "precond.");
}

static void prop_equiv_coarsening(Tape &t, Ctx &c) {
    switch (t.u(0, 3)) {
    case 0: combo<MS_sa_spai0>(t, c, "smoothed_aggregation+spai0", "smoothed_aggregation", "spai0"); break;
    case 1: combo<MS_rs_spai0>(t, c, "ruge_stuben+spai0", "ruge_stuben", "spai0"); break;
    case 2: combo<MS_agg_spai0>(t, c, "aggregation+spai0", "aggregation", "spai0"); break;
    default: combo<MS_emin_spai0>(t, c, "smoothed_aggr_emin+spai0", "smoothed_aggr_emin", "spai0"); break;
    }
}

static void prop_equiv_relaxation(Tape &t, Ctx &c) {
    switch (t.u(0, 8)) {
    case 0: combo<MS_sa_spai0>(t, c, "smoothed_aggregation+spai0", "smoothed_aggregation", "spai0"); break;
    case 1: combo<MS_sa_gs>(t, c, "smoothed_aggregation+gauss_seidel", "smoothed_aggregation", "gauss_seidel"); break;
    case 2: combo<MS_sa_ilu0>(t, c, "smoothed_aggregation+ilu0", "smoothed_aggregation", "ilu0"); break;
    case 3: combo<MS_sa_iluk>(t, c, "smoothed_aggregation+iluk", "smoothed_aggregation", "iluk"); break;
    case 4: combo<MS_sa_ilup>(t, c, "smoothed_aggregation+ilup", "smoothed_aggregation", "ilup"); break;
    case 5: combo<MS_sa_ilut>(t, c, "smoothed_aggregation+ilut", "smoothed_aggregation", "ilut"); break;
    case 6: combo<MS_sa_dj>(t, c, "smoothed_aggregation+damped_jacobi", "smoothed_aggregation", "damped_jacobi"); break;
    case 7: combo<MS_sa_spai1>(t, c, "smoothed_aggregation+spai1", "smoothed_aggregation", "spai1"); break;
    default: combo<MS_sa_cheb>(t, c, "smoothed_aggregation+chebyshev", "smoothed_aggregation", "chebyshev"); break;
    }
}

static std::vector<Prop> props() {
    return {
        Prop("equiv_coarsening", prop_equiv_coarsening, 300, 4000, 100, 4, {1}, 4, 8),
        Prop("equiv_relaxation", prop_equiv_relaxation, 450, 6000, 100, 4, {1}, 4, 8),
    };
}
static std::vector<Enum> enums() { return {}; }
VF_MAIN(props(), enums())
