// C17 (row order, part 2) — the composite preconditioners that accept a user matrix:
// preconditioner::cpr, preconditioner::cpr_drs, preconditioner::schur_pressure_correction (inner solvers: one
// application of a smoother / an AMG cycle, i.e. fixed linear operators, so that bitwise comparison is meaningful).
// Oracle: the preconditioner built from a matrix whose row entries are listed in another order gives bitwise the same
// apply() on 3 vectors (1 thread) as the one built from the sorted matrix.
#include <amgcl/backend/builtin.hpp>
#include <amgcl/value_type/static_matrix.hpp>
#include <amgcl/adapter/crs_tuple.hpp>
#include <amgcl/make_solver.hpp>
#include <amgcl/amg.hpp>
#include <amgcl/coarsening/smoothed_aggregation.hpp>
#include <amgcl/coarsening/aggregation.hpp>
#include <amgcl/relaxation/spai0.hpp>
#include <amgcl/relaxation/ilu0.hpp>
#include <amgcl/relaxation/damped_jacobi.hpp>
#include <amgcl/relaxation/as_preconditioner.hpp>
#include <amgcl/preconditioner/cpr.hpp>
#include <amgcl/preconditioner/cpr_drs.hpp>
#include <amgcl/preconditioner/schur_pressure_correction.hpp>
#include <amgcl/solver/preonly.hpp>
#include "c17_roworder.hpp"
#include "c13_common.hpp"

using namespace vf;
using namespace c17;
namespace ab = amgcl::backend;
typedef ab::builtin<double> DB;

typedef amgcl::amg<DB, amgcl::coarsening::smoothed_aggregation, amgcl::relaxation::spai0> PAmg;
typedef amgcl::relaxation::as_preconditioner<DB, amgcl::relaxation::spai0> SSpai0;
typedef amgcl::relaxation::as_preconditioner<DB, amgcl::relaxation::ilu0> SIlu0;
typedef amgcl::relaxation::as_preconditioner<DB, amgcl::relaxation::damped_jacobi> SJacobi;

// block structured system with the "pressure" unknown first in every cell (block size 2..4), M-matrix like
static OrderCase gen_cell_case(Tape &t, int &b, int nbmax) {
    b = static_cast<int>(t.u(2, 4));
    c13::BlockCase bc = c13::gen_block_case(t, b, nbmax);
    OrderCase oc; oc.family = bc.family + "/kind" + std::to_string(bc.kind);
    oc.sorted = bc.A;
    finish_order_case(t, oc);
    return oc;
}

static void labels(Ctx &c, const OrderCase &oc, int b) {
    c.nontrivial = oc.nontrivial;
    c.label("fam:" + oc.family.substr(0, oc.family.find('/')));
    c.label("b=" + std::to_string(b));
    c.label(oc.nontrivial ? "row-out-of-order(>=3)" : (oc.changed ? "row-out-of-order(2)" : "rows-in-order"));
    c.label(size_bucket(oc.sorted.n));
}

// Regression note: until repo commit e99d2f4 the copying constructors of cpr, cpr_drs and schur_pressure_correction did not sort the
// rows of their private copy (cpr/cpr_drs: wrong pressure matrix / exceptions; schur: rounding-level dependence).  Witnesses: replay/C17/unsorted-*.case.
template <class Precond>
static void compare(Ctx &c, const OrderCase &oc, const typename Precond::params &prm, const std::string &what) {
    auto build = [&](const Csr<double> &A) {
        size_t n = static_cast<size_t>(A.n);
        auto P = std::make_shared<Precond>(std::tie(n, A.ptr, A.col, A.val), prm);
        return [P](const std::vector<double> &f, std::vector<double> &x) { P->apply(f, x); };
    };
    Applied a = build_and_apply(oc.sorted, oc.probes, build);
    Applied b = build_and_apply(oc.shuffled, oc.probes, build);
    require_bitwise_equal(c, a, b, what);
}

static void prop_cpr(Tape &t, Ctx &c) {
    int b; OrderCase oc = gen_cell_case(t, b, t.chance(1, 4) ? 5 : 40);
    int sk = static_cast<int>(t.u(0, 2));
    unsigned ce = t.b() ? 6 : 3000;
    c.desc << "cpr row order b=" << b << " " << oc.family << " " << describe(oc.sorted) << " sprecond=" << (sk == 0 ? "spai0" : sk == 1 ? "ilu0" : "damped_jacobi") << " coarse_enough=" << ce
           << " changed=" << oc.changed << " A(shuffled)=" << dump_small(oc.shuffled, 8);
    labels(c, oc, b);
    c.label(std::string("cpr:sprecond=") + (sk == 0 ? "spai0" : sk == 1 ? "ilu0" : "damped_jacobi"));
    if (sk == 0) { typedef amgcl::preconditioner::cpr<PAmg, SSpai0> P; P::params p; p.block_size = b; p.pprecond.coarse_enough = ce; compare<P>(c, oc, p, "cpr<amg,spai0>"); }
    else if (sk == 1) { typedef amgcl::preconditioner::cpr<PAmg, SIlu0> P; P::params p; p.block_size = b; p.pprecond.coarse_enough = ce; compare<P>(c, oc, p, "cpr<amg,ilu0>"); }
    else { typedef amgcl::preconditioner::cpr<PAmg, SJacobi> P; P::params p; p.block_size = b; p.pprecond.coarse_enough = ce; compare<P>(c, oc, p, "cpr<amg,damped_jacobi>"); }
}

static void prop_cpr_drs(Tape &t, Ctx &c) {
    int b; OrderCase oc = gen_cell_case(t, b, t.chance(1, 4) ? 5 : 40);
    int sk = static_cast<int>(t.u(0, 1));
    unsigned ce = t.b() ? 6 : 3000;
    double eps_dd = t.b() ? 0.2 : t.uni(0.0, 1.5), eps_ps = t.b() ? 0.02 : t.uni(0.0, 0.5);
    bool weights = t.chance(1, 3);
    std::vector<double> w;
    if (weights) { w.resize(oc.sorted.n); for (auto &v : w) v = t.uni(0.5, 2.0); }
    c.desc << "cpr_drs row order b=" << b << " " << oc.family << " " << describe(oc.sorted) << " sprecond=" << (sk == 0 ? "spai0" : "ilu0") << " coarse_enough=" << ce << " eps_dd=" << eps_dd << " eps_ps=" << eps_ps
           << " weights=" << weights << " changed=" << oc.changed << " A(shuffled)=" << dump_small(oc.shuffled, 8);
    labels(c, oc, b);
    c.label(std::string("cpr_drs:sprecond=") + (sk == 0 ? "spai0" : "ilu0"));
    if (sk == 0) { typedef amgcl::preconditioner::cpr_drs<PAmg, SSpai0> P; P::params p; p.block_size = b; p.pprecond.coarse_enough = ce; p.eps_dd = eps_dd; p.eps_ps = eps_ps; p.weights = w; compare<P>(c, oc, p, "cpr_drs<amg,spai0>"); }
    else { typedef amgcl::preconditioner::cpr_drs<PAmg, SIlu0> P; P::params p; p.block_size = b; p.pprecond.coarse_enough = ce; p.eps_dd = eps_dd; p.eps_ps = eps_ps; p.weights = w; compare<P>(c, oc, p, "cpr_drs<amg,ilu0>"); }
}

// partial_update(K, update_transfer_ops): the object built from the sorted matrix and updated with the sorted A' must act bitwise like the
// object built from the shuffled matrix and updated with the shuffled A' (A' = A, or perturbed values on the same pattern).
template <class Precond>
static void compare_update(Ctx &c, const OrderCase &oc, const typename Precond::params &prm, const std::string &what, const Csr<double> &Ap, const Csr<double> &Aps, bool transfer) {
    auto builder = [&](const Csr<double> &U) {
        return [&, transfer](const Csr<double> &A) {
            size_t n = static_cast<size_t>(A.n);
            auto P = std::make_shared<Precond>(std::tie(n, A.ptr, A.col, A.val), prm);
            P->partial_update(std::tie(n, U.ptr, U.col, U.val), transfer);
            return [P](const std::vector<double> &f, std::vector<double> &x) { P->apply(f, x); };
        };
    };
    Applied a = build_and_apply(oc.sorted, oc.probes, builder(Ap));
    Applied b = build_and_apply(oc.shuffled, oc.probes, builder(Aps));
    require_bitwise_equal(c, a, b, what);
}

static void prop_cpr_update(Tape &t, Ctx &c) {
    int b; OrderCase oc = gen_cell_case(t, b, t.chance(1, 4) ? 5 : 40);
    int sk = static_cast<int>(t.u(0, 2));
    unsigned ce = t.b() ? 6 : 3000;
    bool transfer = !t.b(), same = t.b();
    bool drs = t.b();
    Csr<double> Ap, Aps; perturbed_pair(t, oc, same, Ap, Aps);
    c.desc << (drs ? "cpr_drs" : "cpr") << " partial_update row order b=" << b << " " << oc.family << " " << describe(oc.sorted) << " sprecond=" << (sk == 0 ? "spai0" : sk == 1 ? "ilu0" : "damped_jacobi")
           << " coarse_enough=" << ce << " update_transfer_ops=" << transfer << " same_values=" << same << " changed=" << oc.changed << " A'(shuffled)=" << dump_small(Aps, 8);
    labels(c, oc, b);
    c.label(drs ? "update:cpr_drs" : "update:cpr"); c.label(transfer ? "update:transfer-ops" : "update:sprecond-only"); c.label(same ? "update:same-matrix" : "update:new-values");
    std::string tag = std::string(drs ? "cpr_drs" : "cpr") + "::partial_update<" + (sk == 0 ? "spai0" : sk == 1 ? "ilu0" : "damped_jacobi") + ">";
    if (!drs) {
        if (sk == 0) { typedef amgcl::preconditioner::cpr<PAmg, SSpai0> P; P::params p; p.block_size = b; p.pprecond.coarse_enough = ce; compare_update<P>(c, oc, p, tag, Ap, Aps, transfer); }
        else if (sk == 1) { typedef amgcl::preconditioner::cpr<PAmg, SIlu0> P; P::params p; p.block_size = b; p.pprecond.coarse_enough = ce; compare_update<P>(c, oc, p, tag, Ap, Aps, transfer); }
        else { typedef amgcl::preconditioner::cpr<PAmg, SJacobi> P; P::params p; p.block_size = b; p.pprecond.coarse_enough = ce; compare_update<P>(c, oc, p, tag, Ap, Aps, transfer); }
    } else {
        if (sk == 1) { typedef amgcl::preconditioner::cpr_drs<PAmg, SIlu0> P; P::params p; p.block_size = b; p.pprecond.coarse_enough = ce; compare_update<P>(c, oc, p, tag, Ap, Aps, transfer); }
        else { typedef amgcl::preconditioner::cpr_drs<PAmg, SSpai0> P; P::params p; p.block_size = b; p.pprecond.coarse_enough = ce; compare_update<P>(c, oc, p, tag, Ap, Aps, transfer); }
    }
}

static void prop_schur(Tape &t, Ctx &c) {
    int b; OrderCase oc = gen_cell_case(t, b, t.chance(1, 4) ? 5 : 40);
    const ptrdiff_t n = oc.sorted.n;
    // pressure mask: first unknown of every cell (interleaved), or a contiguous leading / trailing part
    int mk = static_cast<int>(t.u(0, 2));
    std::vector<char> pm(n, 0);
    if (mk == 0) for (ptrdiff_t i = 0; i < n; i += b) pm[i] = 1;
    else if (mk == 1) { ptrdiff_t k = std::max<ptrdiff_t>(1, n / b); for (ptrdiff_t i = 0; i < k && i < n - 1; ++i) pm[i] = 1; }
    else { ptrdiff_t k = std::max<ptrdiff_t>(1, n / b); for (ptrdiff_t i = n - 1; i >= n - k && i > 0; --i) pm[i] = 1; }
    int type = static_cast<int>(t.u(1, 2)), adjust_p = static_cast<int>(t.u(0, 2));
    bool approx = t.b(), simplec = t.b();
    int uk = static_cast<int>(t.u(0, 1));
    c.desc << "schur row order b=" << b << " " << oc.family << " " << describe(oc.sorted) << " mask=" << mk << " type=" << type << " adjust_p=" << adjust_p << " approx_schur=" << approx << " simplec_dia=" << simplec
           << " usolver=" << (uk ? "ilu0" : "spai0") << " changed=" << oc.changed << " A(shuffled)=" << dump_small(oc.shuffled, 8);
    labels(c, oc, b);
    c.label("schur:type=" + std::to_string(type)); c.label("schur:adjust_p=" + std::to_string(adjust_p)); c.label(mk == 0 ? "schur:mask=interleaved" : "schur:mask=contiguous");
    typedef amgcl::make_solver<PAmg, amgcl::solver::preonly<DB>> PSolver;
    if (uk == 0) {
        typedef amgcl::make_solver<SSpai0, amgcl::solver::preonly<DB>> USolver;
        typedef amgcl::preconditioner::schur_pressure_correction<USolver, PSolver> P;
        P::params p; p.pmask = pm; p.type = type; p.adjust_p = adjust_p; p.approx_schur = approx; p.simplec_dia = simplec; p.psolver.precond.coarse_enough = 6;
        compare<P>(c, oc, p, "schur<spai0,amg>");
    } else {
        typedef amgcl::make_solver<SIlu0, amgcl::solver::preonly<DB>> USolver;
        typedef amgcl::preconditioner::schur_pressure_correction<USolver, PSolver> P;
        P::params p; p.pmask = pm; p.type = type; p.adjust_p = adjust_p; p.approx_schur = approx; p.simplec_dia = simplec; p.psolver.precond.coarse_enough = 6;
        compare<P>(c, oc, p, "schur<ilu0,amg>");
    }
}

static std::vector<Prop> props() {
    return {
        Prop("cpr", prop_cpr, 400, 5000, 100, 80, {1}, 2, 8),
        Prop("cpr_drs", prop_cpr_drs, 400, 5000, 100, 80, {1}, 2, 8),
        Prop("cpr_update", prop_cpr_update, 400, 5000, 100, 80, {1}, 2, 8),
        Prop("schur", prop_schur, 400, 5000, 100, 80, {1}, 2, 8),
    };
}
static std::vector<Enum> enums() { return {}; }

VF_MAIN(props(), enums())
