// C10 (extension a) — builtin<std::complex<double>> through the runtime coarsening / relaxation / solver wrappers.
//
// Same poisoned-allocator differential as c10_determinism.cpp (see c10_common.hpp): hierarchy matrices, the printed
// summary, preconditioner applications and two solves (or the exception text: ruge_stuben is not available for complex
// values and must be rejected with the same message every time) are compared bitwise across heap fills and allocation
// histories; the sanitizer twin runs the same cases under ASan+UBSan+LSan with a leak check per case.
#include <amgcl/value_type/complex.hpp>
#include "c10_common.hpp"

using namespace c10;
namespace ab = amgcl::backend;
typedef std::complex<double> cplx;
typedef ab::builtin<cplx> B;
typedef amgcl::amg<B, amgcl::runtime::coarsening::wrapper, amgcl::runtime::relaxation::wrapper> AMG;
typedef amgcl::relaxation::as_preconditioner<B, amgcl::runtime::relaxation::wrapper> RLX;

struct Case {
    Csr<cplx> A;
    ptree prm;
    PrecondCfg pc; SolverCfg sc;
    std::vector<cplx> f, v1;
    std::vector<uint32_t> prehist;
};

template <class Precond>
static void execute(const Case &cs, Digest &D, bool pre, size_t &levels) {
    if (pre) prehistory(cs.prehist);
    std::vector<double> ns;
    try {
        auto tup = std::make_tuple(static_cast<size_t>(cs.A.n), cs.A.ptr, cs.A.col, cs.A.val);
        ptree prm = cs.prm;
        bind_nullspace(cs.pc, prm, ns);
        typedef amgcl::make_solver<Precond, amgcl::runtime::solver::wrapper<B>> Solver;
        Solver S(tup, prm);
        if constexpr (std::is_same<Precond, AMG>::value) { D.section("hierarchy"); dump_hier(D, S.precond()); levels = n_levels(S.precond()); }
        observe_print(D, S);
        observe_apply(D, S.precond(), cs.f, cs.v1, cplx(0));
        observe_solves(D, S, cs.f, cplx(0), !cs.sc.stateful);
    } catch (const vf::Fail &) { throw;
    } catch (const amgcl::error::empty_level &) { D.exc("empty_level");
    } catch (const std::exception &e) { D.exc(e.what()); }
    VF_REQUIRE(ns == (cs.pc.ns_cols ? cs.pc.ns : std::vector<double>()), "the user's near-null-space array was modified");
}

static std::vector<cplx> gen_cvec(Tape &t, size_t n, int kind) {
    std::vector<double> re = gen_vec(t, n, kind), im = gen_vec(t, n, kind == 0 ? 1 : kind);
    std::vector<cplx> v(n);
    for (size_t i = 0; i < n; ++i) v[i] = cplx(re[i], im[i]);
    return v;
}

static Case decode(Tape &t, Ctx &c, bool &degenerate) {
    Case cs;
    int cls; std::string dclass;
    Graph g = gen_class_graph(t, 64, cls, dclass);
    int vcls = static_cast<int>(t.u(0, 2));  // 0 negative real off-diagonals, 1 complex phases, 2 positive real off-diagonals
    int ckind = static_cast<int>(t.u(0, 3)); // 0 real values stored as complex, 1 complex shift on the diagonal, 2 Hermitian (vcls 1), 3 general
    std::vector<std::map<ptrdiff_t, cplx>> rows(g.n);
    for (auto &e : g.edges) {
        double w1 = t.logu(0.1, 10), w2 = t.b() ? w1 : t.logu(0.1, 10);
        cplx a, b;
        if (vcls == 0) { a = -w1; b = -w2; }
        else if (vcls == 2) { a = w1; b = w2; }
        else {
            double th1 = t.uni(0, 6.283185307179586), th2 = t.uni(0, 6.283185307179586);
            a = std::polar(w1, th1);
            b = ckind == 2 ? std::conj(a) : std::polar(w2, th2);
        }
        rows[e.first][e.second] = a; rows[e.second][e.first] = b;
    }
    for (int i = 0; i < g.n; ++i) {
        double s = 0; for (auto &kv : rows[i]) s += std::abs(kv.second);
        double d = s + t.logu(0.05, 2.0);
        double sigma = (ckind == 1 || ckind == 3) ? t.uni(-1, 1) * d : 0.0;
        rows[i][i] = cplx(d, sigma); // |a_ii| >= d > sum |a_ij|: strictly diagonally dominant, non-zero diagonal
    }
    cs.A = from_triplets<cplx>(g.n, g.n, rows);
    cs.pc = gen_precond(t, cs.prm, "precond.", PrecondOpts(g.n).no_rs());
    cs.sc = gen_solver(t, cs.prm, "solver.", g.n);
    cs.f = gen_cvec(t, g.n, static_cast<int>(t.u(0, 3)));
    cs.v1 = gen_cvec(t, g.n, 2);
    cs.prehist = gen_prehist(t);
    degenerate = cls <= 3 || vcls == 2 || cs.pc.degenerate();
    c.label("class:" + dclass); c.label(std::string("vals:") + vcls_name(vcls)); c.label("ckind:" + std::to_string(ckind));
    c.label(cs.pc.single_level ? "single-level" : std::string("c:") + COARSE[cs.pc.ci]);
    c.label(std::string("r:") + RELAX[cs.pc.ri]); c.label(std::string("s:") + SOLVER[cs.sc.si]);
    if (cs.pc.ns_cols) c.label("nullspace");
    if (!cs.pc.single_level && cs.pc.ml == 1) c.label("max_levels=1");
    if (!cs.pc.single_level && cs.pc.ce <= 2) c.label("tiny-coarse_enough");
    c.desc << "complex " << dclass << "/" << g.family << " n=" << g.n << " nnz=" << cs.A.nnz() << " vcls=" << vcls << " ckind=" << ckind << " " << cs.pc.str() << " " << cs.sc.str() << " prehist=" << cs.prehist.size();
    if (g.n <= 6) { c.desc << " A={"; for (ptrdiff_t i = 0; i < cs.A.n; ++i) { c.desc << (i ? "; " : ""); for (ptrdiff_t j = cs.A.ptr[i]; j < cs.A.ptr[i + 1]; ++j) c.desc << " " << cs.A.col[j] << ":" << cs.A.val[j]; } c.desc << "}"; }
    return cs;
}

static void prop_determinism_complex(Tape &t, Ctx &c) {
    bool degenerate;
    Case cs = decode(t, c, degenerate);
    uint64_t rseed = static_cast<uint64_t>(t.u(1, 1 << 30));
    size_t levels = 1;
    differential(c, rseed, [&](Digest &D, bool pre) { if (cs.pc.single_level) execute<RLX>(cs, D, pre, levels); else execute<AMG>(cs, D, pre, levels); }, true);
    c.label("levels=" + std::to_string(std::min<size_t>(levels, 4)));
    c.nontrivial = degenerate || levels >= 2;
}

static std::vector<Prop> props() {
    return {Prop("determinism_complex", prop_determinism_complex, 1500, 15000, 100, 30, {1}, 4, 12)};
}
static std::vector<Enum> enums() { return {}; }
VF_MAIN(props(), enums())
