// C14 (a)(b)(c) — every parameter of every component can be set through a property tree, takes effect in the typed
// structure, is written back unchanged by the export, import(export) is the identity; unknown keys reach the
// AMGCL_PARAM_UNKNOWN hook; invalid enumeration strings raise.
//
// Oracle: the table in c14_components.hpp (field name, C++ type, generator) + a model structure (default constructed,
// generated fields overwritten); exported text is re-read by strtod/strtoll, not by boost.
#include <cctype>
#include "c14_check.hpp"
#include "../common/gen.hpp"

using namespace vf;
using namespace c14;

namespace c14 {
// compile-time composites whose params structures are checked (class templates are only instantiated, nothing is built)
typedef amgcl::amg<B, co::smoothed_aggregation, re::gauss_seidel> AMG_SA_GS;
typedef amgcl::amg<B, co::ruge_stuben, re::chebyshev> AMG_RS_CHEB;
typedef amgcl::amg<B, co::aggregation, re::iluk> AMG_AGG_ILUK;
typedef amgcl::amg<B, co::smoothed_aggr_emin, re::ilup> AMG_EMIN_ILUP;
typedef amgcl::amg<B, co::smoothed_aggregation, re::spai0> AMG_SA_SPAI0;
typedef amgcl::make_solver<AMG_AGG_ILUK, so::lgmres<B>> MS_AGG_ILUK_LGMRES;
typedef amgcl::make_solver<AMG_SA_SPAI0, so::cg<B>> MS_SA_SPAI0_CG;
typedef re::as_preconditioner<B, re::damped_jacobi> ASP_DJ;   // params is a typedef of the smoother's params
typedef re::as_preconditioner<B, re::ilu0> ASP_ILU0;
typedef amgcl::make_solver<ASP_DJ, so::bicgstab<B>> MS_DJ_BICGSTAB;
typedef amgcl::preconditioner::cpr<AMG_SA_SPAI0, ASP_ILU0> CPR;
typedef amgcl::preconditioner::cpr_drs<AMG_SA_SPAI0, ASP_ILU0> CPR_DRS;
typedef amgcl::preconditioner::schur_pressure_correction<MS_DJ_BICGSTAB, MS_SA_SPAI0_CG> SCHUR;

C14_AMG_DESC(AMG_SA_GS)
C14_AMG_DESC(AMG_RS_CHEB)
C14_AMG_DESC(AMG_AGG_ILUK)
C14_AMG_DESC(AMG_EMIN_ILUP)
C14_AMG_DESC(AMG_SA_SPAI0)
C14_MAKE_SOLVER_DESC(MS_AGG_ILUK_LGMRES)
C14_MAKE_SOLVER_DESC(MS_SA_SPAI0_CG)
C14_MAKE_SOLVER_DESC(MS_DJ_BICGSTAB)
C14_DESC(CPR::params) { v.child("pprecond", &P::pprecond); v.child("sprecond", &P::sprecond); v.value("block_size", &P::block_size, DIM); v.value("active_rows", &P::active_rows, ROWS); }
C14_DESC(CPR_DRS::params) {
    v.child("pprecond", &P::pprecond); v.child("sprecond", &P::sprecond); v.value("block_size", &P::block_size, DIM); v.value("active_rows", &P::active_rows, ROWS);
    v.value("eps_dd", &P::eps_dd, FRAC); v.value("eps_ps", &P::eps_ps, FRAC); v.weights_bundle();
}
C14_DESC(SCHUR::params) {
    v.child("usolver", &P::usolver); v.child("psolver", &P::psolver); v.value("type", &P::type, SCHUR_TYPE); v.value("approx_schur", &P::approx_schur, FLAG);
    v.value("adjust_p", &P::adjust_p, ADJUST_P); v.value("simplec_dia", &P::simplec_dia, FLAG); v.value("verbose", &P::verbose, VERB); v.pmask_bundle();
}
static_assert(std::is_same<ASP_ILU0::params, re::ilu0<B>::params>::value, "as_preconditioner::params is the smoother's params");
} // namespace c14

#define C14_STRUCTS(X) \
    X(so::cg<B>::params, "cg") X(so::bicgstab<B>::params, "bicgstab") X(so::bicgstabl<B>::params, "bicgstabl") X(so::gmres<B>::params, "gmres") \
    X(so::fgmres<B>::params, "fgmres") X(so::lgmres<B>::params, "lgmres") X(so::idrs<B>::params, "idrs") X(so::richardson<B>::params, "richardson") \
    X(so::preonly<B>::params, "preonly") \
    X(re::damped_jacobi<B>::params, "damped_jacobi") X(re::gauss_seidel<B>::params, "gauss_seidel") X(re::spai0<B>::params, "spai0") X(re::spai1<B>::params, "spai1") \
    X(re::chebyshev<B>::params, "chebyshev") X(re::ilu0<B>::params, "ilu0") X(re::iluk<B>::params, "iluk") X(re::ilup<B>::params, "ilup") \
    X(re::detail::ilu_solve<B>::params, "ilu_solve") X(re::detail::ilu_solve<other_backend>::params, "ilu_solve_generic") \
    X(co::plain_aggregates::params, "plain_aggregates") X(co::pointwise_aggregates::params, "pointwise_aggregates") X(co::nullspace_params, "nullspace") \
    X(co::aggregation<B>::params, "aggregation") X(co::smoothed_aggregation<B>::params, "smoothed_aggregation") X(co::smoothed_aggr_emin<B>::params, "smoothed_aggr_emin") \
    X(co::ruge_stuben<B>::params, "ruge_stuben") \
    X(AMG_SA_GS::params, "amg<sa,gauss_seidel>") X(AMG_RS_CHEB::params, "amg<rs,chebyshev>") X(AMG_EMIN_ILUP::params, "amg<emin,ilup>") \
    X(MS_AGG_ILUK_LGMRES::params, "make_solver<amg<aggr,iluk>,lgmres>") X(MS_DJ_BICGSTAB::params, "make_solver<as_preconditioner<damped_jacobi>,bicgstab>") \
    X(ASP_ILU0::params, "as_preconditioner<ilu0>") \
    X(CPR::params, "cpr") X(CPR_DRS::params, "cpr_drs") X(SCHUR::params, "schur_pressure_correction") \
    X(RtAMG::params, "amg<runtime>") X(RtSolverAMG::params, "make_solver<amg<runtime>,runtime>") X(RtSolver::params, "make_solver<runtime::preconditioner,runtime>") \
    X(amgcl::backend::block_crs<double>::params, "backend::block_crs") X(B::params, "backend::builtin")

static void prop_params_table(Tape &t, Ctx &c) {
    typedef void (*Fn)(Tape &, Ctx &, const char *);
    struct Entry { Fn fn; const char *label; };
#define X(T, L) {&test_struct<T>, L},
    // ilut: import, typed access and unknown keys here; its export / re-import (same table, same test_struct) runs in the compile probe
    // c14_probe_ilut.cpp, so that an export that does not compile is reported as a violation and not as a broken harness. Same for deflated_solver.
    static const Entry table[] = {C14_STRUCTS(X) {&test_struct<re::ilut<B>::params, false>, "ilut(import)"}};
#undef X
    const size_t n = sizeof(table) / sizeof(table[0]);
    size_t id = t.pick(n);
    table[id].fn(t, c, table[id].label);
}

// ------------------------------------------------------------------------------------------------------------------
// run-time wrappers: the component named by "type" receives exactly the parameters a compile-time user would pass
static std::shared_ptr<amgcl::backend::crs<double>> small_matrix(int n) {
    std::vector<ptrdiff_t> ptr(1, 0), col; std::vector<double> val;
    for (int i = 0; i < n; ++i) {
        if (i > 0) { col.push_back(i - 1); val.push_back(-1.0); }
        col.push_back(i); val.push_back(2.5);
        if (i + 1 < n) { col.push_back(i + 1); val.push_back(-1.0); }
        ptr.push_back(static_cast<ptrdiff_t>(col.size()));
    }
    return std::make_shared<amgcl::backend::crs<double>>(std::make_tuple(static_cast<size_t>(n), ptr, col, val));
}

template <class Component>
static void require_same_params(const void *handle, const ptree &typed_tree, const char *what) {
    typedef typename Component::params P;
    P expect(typed_tree);
    const Component *h = static_cast<const Component *>(handle);
    CmpV<P> cv{expect, h->prm, "", what};
    Desc<P>::visit(cv);
}

static void prop_runtime_wrappers(Tape &t, Ctx &c) {
    RtKind kind = static_cast<RtKind>(t.u(0, 2));
    Arena arena; ptree in;
    GenCtx g(t, in, arena);
    g.set_num = static_cast<int>(t.u(1, 3)); g.set_den = 3;
    std::string name = gen_runtime_tree(g, kind, "");
    std::string eff = name.empty() ? rt_default(kind) : name;
    std::set<std::string> known = local_names(g.keys), injected;
    int nextra = static_cast<int>(t.u(0, 2)), maxdepth = 0;
    std::ostringstream xs;
    for (int i = 0; i < nextra; ++i) {
        std::string node = g.nodes[t.pick(g.nodes.size())].path;
        std::string nm = extra_name(t, g, known, injected);
        inject_extra(t, in, node, nm); injected.insert(nm);
        maxdepth = std::max<int>(maxdepth, static_cast<int>(std::count(node.begin(), node.end(), '.')));
        xs << " +" << node << nm;
    }
    const char *kn = kind == RT_COARSENING ? "coarsening" : kind == RT_RELAX ? "relaxation" : "solver";
    c.desc << "runtime::" << kn << "::wrapper type=" << (name.empty() ? "(absent)" : name) << " set=" << g.nset << ":" << g.log.str() << " extra:" << xs.str();
    c.nontrivial = g.nset >= 3 || nextra > 0;
    c.label(std::string("wrapper:") + kn); c.label("type:" + (name.empty() ? std::string("(default)") : name));
    if (nextra) c.label("extra-depth:" + std::to_string(maxdepth));

    ptree typed = in; typed.erase("type"); // what a compile-time user passes to Component::params
    for (auto &k : injected) if (typed.count(k)) typed.erase(k);
    std::set<std::string> reported;
    unknown_log().clear();
    if (kind == RT_COARSENING) {
        rt::coarsening::wrapper<B> w(in);
        reported.insert(unknown_log().begin(), unknown_log().end());
        std::ostringstream os; os << w.c;
        VF_REQUIRE(os.str() == eff, "coarsening wrapper selected '" << os.str() << "' for type '" << name << "'");
        if (eff == "ruge_stuben") require_same_params<co::ruge_stuben<B>>(w.handle, typed, "runtime coarsening");
        else if (eff == "aggregation") require_same_params<co::aggregation<B>>(w.handle, typed, "runtime coarsening");
        else if (eff == "smoothed_aggregation") require_same_params<co::smoothed_aggregation<B>>(w.handle, typed, "runtime coarsening");
        else require_same_params<co::smoothed_aggr_emin<B>>(w.handle, typed, "runtime coarsening");
    } else if (kind == RT_SOLVER) {
        rt::solver::wrapper<B> w(static_cast<size_t>(t.u(1, 20)), in);
        reported.insert(unknown_log().begin(), unknown_log().end());
        std::ostringstream os; os << w.s;
        VF_REQUIRE(os.str() == eff, "solver wrapper selected '" << os.str() << "' for type '" << name << "'");
        if (eff == "cg") require_same_params<so::cg<B>>(w.handle, typed, "runtime solver");
        else if (eff == "bicgstab") require_same_params<so::bicgstab<B>>(w.handle, typed, "runtime solver");
        else if (eff == "bicgstabl") require_same_params<so::bicgstabl<B>>(w.handle, typed, "runtime solver");
        else if (eff == "gmres") require_same_params<so::gmres<B>>(w.handle, typed, "runtime solver");
        else if (eff == "lgmres") require_same_params<so::lgmres<B>>(w.handle, typed, "runtime solver");
        else if (eff == "fgmres") require_same_params<so::fgmres<B>>(w.handle, typed, "runtime solver");
        else if (eff == "idrs") require_same_params<so::idrs<B>>(w.handle, typed, "runtime solver");
        else if (eff == "richardson") require_same_params<so::richardson<B>>(w.handle, typed, "runtime solver");
    } else {
        auto A = small_matrix(static_cast<int>(t.u(3, 9)));
        rt::relaxation::wrapper<B> w(*A, in);
        reported.insert(unknown_log().begin(), unknown_log().end());
        std::ostringstream os; os << w.r;
        VF_REQUIRE(os.str() == eff, "relaxation wrapper selected '" << os.str() << "' for type '" << name << "'");
        if (eff == "damped_jacobi") require_same_params<re::damped_jacobi<B>>(w.handle, typed, "runtime relaxation");
        else if (eff == "chebyshev") require_same_params<re::chebyshev<B>>(w.handle, typed, "runtime relaxation");
        else if (eff == "ilu0") require_same_params<re::ilu0<B>>(w.handle, typed, "runtime relaxation");
        else if (eff == "iluk") require_same_params<re::iluk<B>>(w.handle, typed, "runtime relaxation");
        else if (eff == "ilup") require_same_params<re::ilup<B>>(w.handle, typed, "runtime relaxation");
        else if (eff == "ilut") require_same_params<re::ilut<B>>(w.handle, typed, "runtime relaxation");
    }
    for (auto &k : reported) VF_REQUIRE(injected.count(k), "key '" << k << "' was reported as unknown by the run-time " << kn << " wrapper although " << (known.count(k) ? "it is a parameter" : "it was never given"));
    for (auto &k : injected) VF_REQUIRE(reported.count(k), "unknown key '" << k << "' was silently dropped by the run-time " << kn << " wrapper; reported=" << set_to_string(reported));
}

// ------------------------------------------------------------------------------------------------------------------
// (c) invalid enumeration strings
static std::string invalid_name(Tape &t, const std::vector<std::string> &valid, const std::vector<std::string> &foreign, std::string &cls) {
    auto is_valid = [&](const std::string &s) { return std::find(valid.begin(), valid.end(), s) != valid.end(); };
    std::string s;
    switch (t.u(0, 6)) {
    case 0: cls = "typo-append"; s = valid[t.pick(valid.size())] + static_cast<char>('a' + t.u(0, 25)); break;
    case 1: cls = "typo-truncate"; s = valid[t.pick(valid.size())]; s.pop_back(); break;
    case 2: cls = "upper-case"; s = valid[t.pick(valid.size())]; for (auto &ch : s) ch = static_cast<char>(toupper(ch)); break;
    case 3: cls = "other-family"; s = foreign[t.pick(foreign.size())]; break;
    case 4: { cls = "random-token"; size_t len = static_cast<size_t>(t.u(1, 10)); for (size_t i = 0; i < len; ++i) s += static_cast<char>('a' + t.u(0, 25)); break; }
    case 5: cls = "number"; s = std::to_string(t.u(0, 12)); break;
    default: cls = "empty"; s = ""; break;
    }
    while (is_valid(s)) s += "q";
    return s;
}

static void prop_invalid_enum(Tape &t, Ctx &c) {
    int where = static_cast<int>(t.u(0, 4)); // 0 coarsening type, 1 relaxation type, 2 solver type, 3 pside (typed params), 4 pside through the solver wrapper
    std::vector<std::string> valid, foreign;
    if (where == 0) { valid = rt_names(RT_COARSENING); foreign = rt_names(RT_RELAX); }
    else if (where == 1) { valid = rt_names(RT_RELAX); foreign = rt_names(RT_SOLVER); }
    else if (where == 2) { valid = rt_names(RT_SOLVER); foreign = rt_names(RT_COARSENING); }
    else { valid = {"left", "right"}; foreign = {"both", "none", "0", "1", "centre"}; }
    std::string cls;
    bool trailing = t.chance(1, 8); // a valid name followed by a second token
    std::string s;
    if (trailing) { cls = "valid-then-token"; s = valid[t.pick(valid.size())] + " " + (t.b() ? "x" : valid[t.pick(valid.size())]); }
    else s = invalid_name(t, valid, foreign, cls);
    static const char *wn[] = {"coarsening.type", "relaxation.type", "solver.type", "pside(params)", "pside(wrapper)"};
    c.desc << "invalid enumeration " << wn[where] << "=\"" << s << "\" (" << cls << ")";
    c.nontrivial = true;
    c.label(std::string("enum:") + wn[where]); c.label("invalid:" + cls);
    if (trailing && c.known("F-enum-trailing-token")) return;
    ptree p;
    bool threw = false; std::string what;
    try {
        if (where == 0) { p.put("type", s); rt::coarsening::wrapper<B> w(p); }
        else if (where == 1) { p.put("type", s); auto A = small_matrix(4); rt::relaxation::wrapper<B> w(*A, p); }
        else if (where == 2) { p.put("type", s); rt::solver::wrapper<B> w(5, p); }
        else if (where == 3) {
            p.put("pside", s);
            switch (t.u(0, 3)) { case 0: { so::bicgstab<B>::params q(p); break; } case 1: { so::bicgstabl<B>::params q(p); break; } case 2: { so::gmres<B>::params q(p); break; } default: { so::lgmres<B>::params q(p); } }
        } else {
            static const char *sv[] = {"bicgstab", "bicgstabl", "gmres", "lgmres"};
            p.put("type", sv[t.u(0, 3)]); p.put("pside", s); rt::solver::wrapper<B> w(5, p);
        }
    } catch (const std::exception &e) { threw = true; what = e.what(); }
    VF_REQUIRE(threw, "invalid enumeration value \"" << s << "\" for " << wn[where] << " was accepted without an exception");
}

static std::vector<Prop> props() {
    return {
        Prop("params_table", prop_params_table, 4000, 40000, 100, 10, {1}, 2, 8),
        Prop("runtime_wrappers", prop_runtime_wrappers, 1500, 15000, 100, 5, {1}, 2, 4),
        Prop("invalid_enum", prop_invalid_enum, 1000, 8000, 100, 1, {1}, 1, 2),
    };
}
static std::vector<Enum> enums() { return {}; }
VF_MAIN(props(), enums())
