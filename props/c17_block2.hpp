// C17 — helpers for compositions with the block adapter (shared by c17_adapters.cpp and c17_compose.cpp).
#pragma once
#include <array>
#include <map>
#include <amgcl/value_type/static_matrix.hpp>
#include <amgcl/adapter/block_matrix.hpp>
#include "c17_common.hpp"

namespace c17 {
namespace ad = amgcl::adapter;

// Composition  block_matrix<2x2>( scalar adapter ): the block adapter keeps two scalar row iterators of the underlying adapter alive.
// Entries are compared exactly with the block form of the reference, three block-row iterators are walked interleaved, and the SpMV of
// the crs<2x2> copy is compared with the scalar reference.  Requires an even size and ascending columns (documented for block_matrix).
typedef amgcl::static_matrix<double, 2, 2> blk2;
template <class Inner>
void check_block2(const Inner &inner, const Source &src, const std::string &what) {
    const Csr<double> &A = src.A;
    const size_t n = static_cast<size_t>(A.n), nb = n / 2;
    auto Bm = ad::block_matrix<blk2>(inner);
    VF_REQUIRE(ab::rows(Bm) == nb && ab::cols(Bm) == nb, what << ": shape " << ab::rows(Bm) << "x" << ab::cols(Bm));
    // reference block rows from the scalar CSR: ascending block columns, missing scalar entries are zero
    std::vector<std::map<ptrdiff_t, std::array<double, 4>>> ref(nb);
    for (ptrdiff_t i = 0; i < A.n; ++i) for (ptrdiff_t j = A.ptr[i]; j < A.ptr[i + 1]; ++j) {
        auto it = ref[i / 2].find(A.col[j] / 2);
        if (it == ref[i / 2].end()) it = ref[i / 2].insert(std::make_pair(A.col[j] / 2, std::array<double, 4>{{0, 0, 0, 0}})).first;
        it->second[(i % 2) * 2 + A.col[j] % 2] = A.val[j];
    }
    typedef std::pair<ptrdiff_t, std::array<double, 4>> E;
    auto get = [](const typename std::decay<decltype(ab::row_begin(Bm, 0))>::type &a) { blk2 v = a.value(); return E(static_cast<ptrdiff_t>(a.col()), std::array<double, 4>{{v(0, 0), v(0, 1), v(1, 0), v(1, 1)}}); };
    auto same = [&](const std::vector<E> &got, size_t I, const std::string &how) {
        VF_REQUIRE(got.size() == ref[I].size(), what << how << ": block row " << I << " has " << got.size() << " blocks, reference " << ref[I].size());
        size_t k = 0;
        for (auto &kv : ref[I]) {
            VF_REQUIRE(got[k].first == kv.first, what << how << ": block row " << I << " block " << k << " has column " << got[k].first << ", reference " << kv.first);
            for (int q = 0; q < 4; ++q) VF_REQUIRE(got[k].second[q] == kv.second[q], what << how << ": block (" << I << "," << kv.first << ") entry (" << q / 2 << "," << q % 2 << ") = " << got[k].second[q]
                                                   << ", scalar matrix has " << kv.second[q]);
            ++k;
        }
    };
    for (size_t I = 0; I < nb; ++I) {
        std::vector<E> got;
        for (auto a = ab::row_begin(Bm, I); a; ++a) got.push_back(get(a));
        same(got, I, "");
    }
    if (nb > 0) {
        Schedule sc = src.sched;
        for (int q = 0; q < 3; ++q) sc.rows[q] = std::min<ptrdiff_t>(sc.rows[q] / 2 + (q == 2 ? sc.rows[q] % 2 : 0), static_cast<ptrdiff_t>(nb) - 1);
        std::vector<E> got[3];
        walk_interleaved(Bm, sc, got, get);
        for (int q = 0; q < 3; ++q) same(got[q], static_cast<size_t>(sc.rows[q]), " (3 block-row iterators open)");
    }
    ab::crs<blk2> K(Bm);
    require_wellformed(K, what + " -> crs<2x2>", true, true);
    std::vector<double> y = src.y0;
    ab::spmv(src.alpha, K, src.x, src.beta, y);
    require_spmv_result(y, src, what + ": spmv(crs<2x2>)");
}

struct RowBuilder {
    typedef double val_type;
    typedef long col_type;
    const Csr<double> *A;
    size_t rows() const { return static_cast<size_t>(A->n); }
    size_t nonzeros() const { return static_cast<size_t>(A->nnz()); }
    void operator()(size_t row, std::vector<col_type> &col, std::vector<val_type> &val) const {
        for (ptrdiff_t j = A->ptr[row]; j < A->ptr[row + 1]; ++j) { col.push_back(static_cast<long>(A->col[j])); val.push_back(A->val[j]); }
    }
};

inline std::vector<double> nonzero_rhs(Tape &t, const Csr<double> &A, std::string &kind) {
    int k = static_cast<int>(t.u(0, 3));
    std::vector<double> f(A.n);
    if (k == 3) { kind = "A*x"; std::vector<double> xt = gen_vec(t, A.n, 2); for (ptrdiff_t i = 0; i < A.n; ++i) { long double s = 0; for (ptrdiff_t j = A.ptr[i]; j < A.ptr[i + 1]; ++j) s += static_cast<long double>(A.val[j]) * xt[A.col[j]]; f[i] = static_cast<double>(s); } }
    else { kind = k == 0 ? "ones" : k == 1 ? "ints" : "uniform"; f = gen_vec(t, A.n, k); }
    bool nz = false; for (double v : f) nz = nz || v != 0; if (!nz) f[0] = 1;
    return f;
}


} // namespace c17
