// C03 — Galerkin coarse levels and rebuild histories: smoothed_aggr_emin and ruge_stuben x {spai0, damped_jacobi, gauss_seidel, ilu0}.
// See c03_galerkin.hpp (property, oracles) and c03_record.hpp (recording / replaying policies, friend accessor).
#include "c03_galerkin.hpp"

static std::vector<vf::Prop> props() {
    // 1 thread: spgemm_saad; 17 threads: product() switches to spgemm_rmerge
    return {
        vf::Prop("history_emin_rs", c03::prop_history<amgcl::coarsening::smoothed_aggr_emin, amgcl::coarsening::ruge_stuben>, 350, 6000, 100, 60, {1}, 2, 8),
        vf::Prop("history_emin_rs_t17", c03::prop_history<amgcl::coarsening::smoothed_aggr_emin, amgcl::coarsening::ruge_stuben>, 120, 2000, 100, 60, {17}, 1, 4),
    };
}
static std::vector<vf::Enum> enums() { return {}; }
VF_MAIN(props(), enums())
