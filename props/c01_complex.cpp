// C01, sub-domain T on the complex backend builtin<std::complex<double>> (reduced configuration set).
// Value families on an SPD M-matrix pattern: "shifted" = A + i sigma I (complex symmetric), "herm" = Hermitian positive
// definite A' + i S with a real skew-symmetric S on the pattern (diagonal strengthened so that the matrix stays strictly
// diagonally dominant), "real" = A itself stored in complex numbers.
#include <amgcl/value_type/complex.hpp>
#include "c01_vt.hpp"

using namespace c01vt;

struct ComplexTraits {
    typedef cplx value_type; typedef cplx rhs_type;
    static const int B = 1; static const bool is_complex = true;
    static const char *name() { return "complex"; }
    static cplx at(const cplx &v, int, int) { return v; }
    static cplx get(const cplx &r, int) { return r; }
    static void set(cplx &r, int, cplx v) { r = v; }
    static int coars(int k) { static const int m[] = {SA, AGG, EMIN}; return m[k % 3]; } // ruge_stuben is not available for non-arithmetic value types
    static const int nrelax = 7;
    static int relax(int k) { static const int m[] = {SPAI0, JACOBI, GS, ILU0, SPAI1, ILUK, CHEB}; return m[k % nrelax]; }
    static Csr<cplx> make_matrix(Tape &t, const Csr<double> &A, std::string &kind) {
        Csr<cplx> C; C.n = A.n; C.m = A.m; C.ptr = A.ptr; C.col = A.col; C.val.resize(A.val.size());
        int k = static_cast<int>(t.u(0, 2));
        kind = k == 0 ? "shifted" : k == 1 ? "herm" : "real";
        double sigma = t.logu(0.1, 2.0);
        for (ptrdiff_t i = 0; i < A.n; ++i) for (ptrdiff_t j = A.ptr[i]; j < A.ptr[i + 1]; ++j) {
            ptrdiff_t col = A.col[j]; double a = A.val[j];
            if (k == 0) C.val[j] = col == i ? cplx(a, sigma) : cplx(a, 0);
            else if (k == 1) {
                if (col == i) C.val[j] = cplx(1.4 * a, 0);
                else { // deterministic antisymmetric imaginary part: s_ij = -s_ji, |s_ij| <= 0.3 |a_ij|
                    ptrdiff_t lo = std::min(i, col), hi = std::max(i, col);
                    double frac = 0.3 * (static_cast<double>((lo * 7919 + hi * 104729) % 1000) / 1000.0);
                    C.val[j] = cplx(a, (i < col ? 1.0 : -1.0) * frac * std::abs(a));
                }
            } else C.val[j] = cplx(a, 0);
        }
        return C;
    }
    static void shift_diagonal(Csr<cplx> &A, double d) { for (ptrdiff_t i = 0; i < A.n; ++i) for (ptrdiff_t j = A.ptr[i]; j < A.ptr[i + 1]; ++j) if (A.col[j] == i) A.val[j] += d; }
};

static std::vector<vf::Prop> props() { return { vf::Prop("truthful_complex", Harness<ComplexTraits>::prop, 2000, 20000, 100, 4, {1}, 4, 8) }; }
static std::vector<vf::Enum> enums() { return {}; }
VF_MAIN(props(), enums())
