// C03 — Galerkin coarse levels, R == P^T blockwise (every 2x2 block transposed) and rebuild histories for static_matrix<double,2,2> values:
// {aggregation, smoothed_aggregation} x {spai0, damped_jacobi, gauss_seidel}.  See c03_valuetypes.hpp.
#include "c03_valuetypes.hpp"
using namespace c03v;

template <template <class> class C>
static void with_relax(vf::Tape &t, vf::Ctx &c) {
    switch (t.u(0, 2)) {
    case 0: run_history<blk2, C, rx::spai0>(t, c); break;
    case 1: run_history<blk2, C, rx::damped_jacobi>(t, c); break;
    default: run_history<blk2, C, rx::gauss_seidel>(t, c); break;
    }
}
static void prop_history(vf::Tape &t, vf::Ctx &c) {
    if (t.u(0, 2) < 2) with_relax<co::smoothed_aggregation>(t, c); // 2/3 smoothed aggregation: blocks of P are not symmetric
    else with_relax<co::aggregation>(t, c);
}
static std::vector<vf::Prop> props() {
    return {
        vf::Prop("history", prop_history, 1200, 16000, 100, 60, {1}, 1, 4),
        vf::Prop("history_t17", prop_history, 100, 2000, 100, 60, {17}, 1, 2),
    };
}
static std::vector<vf::Enum> enums() { return {}; }
VF_MAIN(props(), enums())
