// C19 helpers: scratch directory, byte-level file handling, address-space limit, independent header
// parsers (to recognise size fields that would make the reader allocate gigabytes), fault alphabet and
// the classification of every byte of a base file into regions (banner / size line / index / value / ...).
#pragma once
#include <cerrno>
#include <csignal>
#include <cstdint>
#include <cstdio>
#include <cstdlib>
#include <cstring>
#include <dirent.h>
#include <fcntl.h>
#include <sstream>
#include <stdexcept>
#include <string>
#include <sys/resource.h>
#include <sys/stat.h>
#include <sys/types.h>
#include <unistd.h>
#include <vector>

#if defined(__SANITIZE_ADDRESS__)
#  define C19_SANITIZED 1
#elif defined(__has_feature)
#  if __has_feature(address_sanitizer)
#    define C19_SANITIZED 1
#  endif
#endif
#ifndef C19_SANITIZED
#  define C19_SANITIZED 0
#endif

namespace c19 {

// ------------------------------------------------------------------ scratch directory /verif/build/tmp/c19.<pid>/
inline void rm_dir(const std::string &d) {
    DIR *h = opendir(d.c_str());
    if (!h) return;
    while (dirent *e = readdir(h)) {
        std::string n = e->d_name;
        if (n == "." || n == "..") continue;
        unlink((d + "/" + n).c_str());
    }
    closedir(h);
    rmdir(d.c_str());
}

inline char *scratch_buf() { static char b[512] = {0}; return b; }

inline const char *scratch() {
    char *b = scratch_buf();
    if (b[0]) return b;
    const char *env = getenv("C19_TMP");
    std::string base = env ? env : "/verif/build/tmp";
    mkdir("/verif/build", 0755);
    mkdir(base.c_str(), 0755);
    // directories left behind by processes that were killed (sanitizer abort, watchdog)
    if (DIR *h = opendir(base.c_str())) {
        while (dirent *e = readdir(h)) {
            long pid = 0;
            if (sscanf(e->d_name, "c19.%ld", &pid) == 1 && pid > 0 && kill(static_cast<pid_t>(pid), 0) != 0 && errno == ESRCH)
                rm_dir(base + "/" + e->d_name);
        }
        closedir(h);
    }
    snprintf(b, 512, "%s/c19.%ld", base.c_str(), static_cast<long>(getpid()));
    mkdir(b, 0755);
    atexit([]() { rm_dir(scratch_buf()); });
    return b;
}

inline std::string scratch_file(const char *name) { return std::string(scratch()) + "/" + name; }

// open + write + ftruncate: O_TRUNC on a just-written file triggers ext4's flush-on-truncate heuristic (1-5 ms per call)
inline void write_bytes(const std::string &path, const std::string &bytes) {
    int fd = ::open(path.c_str(), O_WRONLY | O_CREAT, 0644);
    if (fd < 0) throw std::runtime_error("harness: cannot create " + path);
    size_t done = 0;
    while (done < bytes.size()) {
        ssize_t k = ::write(fd, bytes.data() + done, bytes.size() - done);
        if (k <= 0) { ::close(fd); throw std::runtime_error("harness: short write " + path); }
        done += static_cast<size_t>(k);
    }
    if (ftruncate(fd, static_cast<off_t>(bytes.size())) != 0) { ::close(fd); throw std::runtime_error("harness: ftruncate " + path); }
    ::close(fd);
}

// the library's writers open with O_TRUNC; removing the old file first avoids the same stall
inline const std::string &fresh(const std::string &path) { unlink(path.c_str()); return path; }

inline std::string read_bytes(const std::string &path) {
    FILE *f = fopen(path.c_str(), "rb");
    if (!f) throw std::runtime_error("harness: cannot open " + path);
    std::string s; char buf[4096]; size_t k;
    while ((k = fread(buf, 1, sizeof buf, f)) > 0) s.append(buf, k);
    fclose(f);
    return s;
}

// ------------------------------------------------------------------ crash note (plain build only)
// An out-of-bounds write in the reader corrupts the heap silently in the non-sanitized build; glibc may notice
// only later, between two cases, when the driver's pending-case file is already cleared.  The last decoded
// tape is kept here and written as a case file to the --fail path by a SIGABRT/SIGSEGV handler, so that the
// driver has a candidate to replay instead of a "harness error".
struct CrashNote {
    static const size_t CAP = 4096;
    uint32_t tape[CAP]; size_t n = 0;
    char fail[512]; char prop[128]; bool installed = false;
};
inline CrashNote &crash_note() { static CrashNote c; return c; }

inline void crash_handler(int sig) {
    CrashNote &c = crash_note();
    if (c.fail[0] && c.prop[0]) {
        int fd = ::open(c.fail, O_WRONLY | O_CREAT | O_TRUNC, 0644);
        if (fd >= 0) {
            auto puts_ = [&](const char *s) { ssize_t r = ::write(fd, s, strlen(s)); (void)r; };
            auto putu = [&](unsigned long v) { char b[24]; int k = 23; b[k] = 0; do { b[--k] = static_cast<char>('0' + v % 10); v /= 10; } while (v); puts_(b + k); };
#ifdef VF_TARGET
            puts_("verif-case 1\ntarget " VF_TARGET "\nprop ");
#else
            puts_("verif-case 1\ntarget unknown\nprop ");
#endif
            puts_(c.prop); puts_("\nthreads 1\ntape "); putu(c.n); puts_("\n");
            for (size_t i = 0; i < c.n; ++i) { putu(c.tape[i]); puts_(" "); }
            puts_("\nend\n# process died with signal "); putu(static_cast<unsigned long>(sig));
            puts_(" (heap corruption noticed by glibc?); this is the last case that was decoded, not shrunk\n");
            ::close(fd);
        }
    }
    signal(sig, SIG_DFL);
    raise(sig);
}

inline void remember_case(const std::vector<uint32_t> &words) {
    if (C19_SANITIZED) return;
    CrashNote &c = crash_note();
    if (!c.installed) {
        c.installed = true; c.fail[0] = 0; c.prop[0] = 0;
        // command line: --run <prop> | --enum <name> (prop "fault"), --fail <path>
        std::string cl;
        if (FILE *f = fopen("/proc/self/cmdline", "rb")) { char buf[4096]; size_t k = fread(buf, 1, sizeof buf, f); fclose(f); cl.assign(buf, k); }
        std::vector<std::string> args; size_t p = 0;
        while (p < cl.size()) { size_t e = cl.find('\0', p); if (e == std::string::npos) e = cl.size(); args.push_back(cl.substr(p, e - p)); p = e + 1; }
        for (size_t i = 0; i + 1 < args.size(); ++i) {
            if (args[i] == "--run") snprintf(c.prop, sizeof c.prop, "%s", args[i + 1].c_str());
            if (args[i] == "--enum") snprintf(c.prop, sizeof c.prop, "fault");
            if (args[i] == "--fail") snprintf(c.fail, sizeof c.fail, "%s", args[i + 1].c_str());
        }
        if (c.fail[0]) { signal(SIGABRT, crash_handler); signal(SIGSEGV, crash_handler); signal(SIGBUS, crash_handler); }
    }
    c.n = words.size() < CrashNote::CAP ? words.size() : CrashNote::CAP;
    if (c.n) memcpy(c.tape, words.data(), c.n * sizeof(uint32_t));
}

// ------------------------------------------------------------------ address-space limit (plain build only)
struct AsLimit {
    bool on = false;
    rlimit old;
    explicit AsLimit(unsigned long long bytes) {
        if (!bytes || C19_SANITIZED) return;
        if (getrlimit(RLIMIT_AS, &old) != 0) return;
        rlimit r = old;
        if (r.rlim_max != RLIM_INFINITY && bytes > r.rlim_max) bytes = r.rlim_max;
        r.rlim_cur = static_cast<rlim_t>(bytes);
        on = setrlimit(RLIMIT_AS, &r) == 0;
    }
    ~AsLimit() { if (on) setrlimit(RLIMIT_AS, &old); }
};

// ------------------------------------------------------------------ independent header parsers
static const unsigned long long HUGE_LIM = 1ull << 24;

// The size line as mm_reader finds it: first line after the banner that does not start with '%'.
struct MmHeader {
    bool have_line = false;   // a size line exists
    bool nm = false;          // two signed integers parsed
    bool have_nnz = false;    // a third (unsigned) integer parsed
    ptrdiff_t n = 0, m = 0;
    size_t nnz = 0;
    std::string banner;
};

inline MmHeader mm_header(const std::string &bytes) {
    MmHeader h;
    std::istringstream f(bytes);
    std::string line;
    if (!std::getline(f, line)) return h;
    h.banner = line;
    do {
        if (!std::getline(f, line)) return h;
    } while (line[0] == '%');
    h.have_line = true;
    std::istringstream is(line);
    if (is >> h.n >> h.m) {
        h.nm = true;
        if (is >> h.nnz) h.have_nnz = true;
    }
    return h;
}

inline unsigned long long uabs(ptrdiff_t x) { return x < 0 ? 0ull - static_cast<unsigned long long>(x) : static_cast<unsigned long long>(x); }

inline bool mm_sparse_huge(const MmHeader &h) {
    return h.nm && h.have_nnz && (uabs(h.n) > HUGE_LIM || h.nnz > HUGE_LIM);
}
inline bool mm_dense_huge(const MmHeader &h) {
    if (!h.nm) return false;
    unsigned long long a = uabs(h.n), b = uabs(h.m);
    return a > HUGE_LIM || b > HUGE_LIM || a * b > HUGE_LIM;
}

template <class T> T load(const std::string &bytes, size_t off) { T v; memcpy(&v, bytes.data() + off, sizeof(T)); return v; }

template <class SizeT, class Ptr>
bool bin_crs_huge(const std::string &bytes) {
    if (bytes.size() < sizeof(SizeT)) return false;
    SizeT n = load<SizeT>(bytes, 0);
    if (static_cast<ptrdiff_t>(n) < 0) return false; // rejected before anything is allocated
    if (static_cast<unsigned long long>(n) > HUGE_LIM) return true;
    size_t off = sizeof(SizeT) + static_cast<size_t>(n) * sizeof(Ptr);
    if (bytes.size() >= off + sizeof(Ptr)) {
        Ptr nnz = load<Ptr>(bytes, off);
        if (nnz > 0 && static_cast<unsigned long long>(nnz) > HUGE_LIM) return true;
    }
    return false;
}

struct BinDenseHeader { bool ok = false; size_t n = 0, m = 0; bool huge = false, overflow = false; };
inline BinDenseHeader bin_dense_header(const std::string &bytes) {
    BinDenseHeader h;
    if (bytes.size() < 2 * sizeof(size_t)) return h;
    h.ok = true;
    h.n = load<size_t>(bytes, 0); h.m = load<size_t>(bytes, sizeof(size_t));
    unsigned __int128 p = static_cast<unsigned __int128>(h.n) * h.m;
    h.huge = h.n > HUGE_LIM || h.m > HUGE_LIM || p > HUGE_LIM;
    // the reader converts n to ptrdiff_t and multiplies in 64 bits
    h.overflow = (h.n >> 63) != 0 || (p >> 64) != 0;
    return h;
}

// ------------------------------------------------------------------ fault alphabet
static const int N_ALT = 16; // 8 single-bit flips + 8 characters
inline unsigned char substitute(unsigned char orig, int alt) {
    static const char chars[] = {'0', '9', '-', '.', 'e', ' ', '\n', '%'};
    return alt < 8 ? static_cast<unsigned char>(orig ^ (1u << alt)) : static_cast<unsigned char>(chars[alt - 8]);
}
inline const char *alt_name(int alt) {
    static const char *n[] = {"bit0", "bit1", "bit2", "bit3", "bit4", "bit5", "bit6", "bit7", "'0'", "'9'", "'-'", "'.'", "'e'", "' '", "'\\n'", "'%'"};
    return n[alt];
}

// ------------------------------------------------------------------ regions
enum Region : uint8_t { R_BANNER, R_COMMENT, R_SIZE, R_INDEX, R_VALUE, R_SEP, R_EOL, R_PTR, R_NNZ, R_COUNT };
inline const char *region_name(int r) {
    static const char *n[] = {"banner", "comment", "size-line", "index", "value", "separator", "end-of-line", "row-pointer", "nnz-field"};
    return r >= 0 && r < R_COUNT ? n[r] : "?";
}

struct Regions {
    std::vector<uint8_t> reg;   // Region per byte
    std::vector<uint8_t> last;  // byte belongs to the last data line / last stored element
    size_t last_start = 0;      // offset where the last data line (element) starts
    std::vector<std::pair<size_t, size_t>> lines; // [begin,end) incl. newline (text) or 8/4-byte words (binary)
};

// text MatrixMarket file (as written by mm_write or by the harness)
inline Regions classify_text(const std::string &b, bool sparse) {
    Regions R; R.reg.assign(b.size(), R_SEP); R.last.assign(b.size(), 0);
    size_t pos = 0; int state = 0; // 0 banner, 1 comments/size, 2 entries
    size_t last_b = 0, last_e = 0;
    while (pos < b.size()) {
        size_t e = b.find('\n', pos);
        size_t end = e == std::string::npos ? b.size() : e + 1;
        R.lines.push_back(std::make_pair(pos, end));
        if (state == 0) { for (size_t i = pos; i < end; ++i) R.reg[i] = R_BANNER; state = 1; }
        else if (state == 1 && b[pos] == '%') { for (size_t i = pos; i < end; ++i) R.reg[i] = R_COMMENT; }
        else if (state == 1) { for (size_t i = pos; i < end; ++i) R.reg[i] = R_SIZE; state = 2; }
        else {
            int tok = 0; bool in = false;
            for (size_t i = pos; i < end; ++i) {
                char ch = b[i];
                if (ch == '\n') { R.reg[i] = R_EOL; in = false; }
                else if (ch == ' ' || ch == '\t') { R.reg[i] = R_SEP; in = false; }
                else { if (!in) { ++tok; in = true; } R.reg[i] = (sparse && tok <= 2) ? R_INDEX : R_VALUE; }
            }
            if (end - pos > 1) { last_b = pos; last_e = end; }
        }
        pos = end;
    }
    for (size_t i = last_b; i < last_e; ++i) R.last[i] = 1;
    R.last_start = last_b;
    return R;
}

// binary CRS: SizeT n | Ptr ptr[n+1] | Col col[nnz] | Val val[nnz]
inline Regions classify_bin_crs(const std::string &b, size_t szS, size_t szP, size_t szC, size_t szV, size_t n, size_t nnz) {
    Regions R; R.reg.assign(b.size(), R_VALUE); R.last.assign(b.size(), 0);
    size_t o = 0;
    auto span = [&](size_t len, uint8_t r, size_t word) { for (size_t i = 0; i < len && o + i < b.size(); ++i) R.reg[o + i] = r; for (size_t w = 0; w + word <= len; w += word) R.lines.push_back(std::make_pair(o + w, o + w + word)); o += len; };
    span(szS, R_SIZE, szS);
    span(n * szP, R_PTR, szP);
    span(szP, R_NNZ, szP);
    span(nnz * szC, R_INDEX, szC);
    span(nnz * szV, R_VALUE, szV);
    R.last_start = b.size() >= szV ? b.size() - szV : 0;
    for (size_t i = R.last_start; i < b.size(); ++i) R.last[i] = 1;
    return R;
}

// binary dense: size_t n, m | Val v[n*m]
inline Regions classify_bin_dense(const std::string &b, size_t szS, size_t szV) {
    Regions R; R.reg.assign(b.size(), R_VALUE); R.last.assign(b.size(), 0);
    for (size_t i = 0; i < 2 * szS && i < b.size(); ++i) R.reg[i] = R_SIZE;
    R.lines.push_back(std::make_pair(size_t(0), szS)); R.lines.push_back(std::make_pair(szS, 2 * szS));
    for (size_t o = 2 * szS; o + szV <= b.size(); o += szV) R.lines.push_back(std::make_pair(o, o + szV));
    R.last_start = b.size() >= szV ? b.size() - szV : 0;
    for (size_t i = R.last_start; i < b.size(); ++i) R.last[i] = 1;
    return R;
}

inline bool region_nontrivial(const Regions &R, size_t pos) {
    if (pos >= R.reg.size()) return false;
    uint8_t r = R.reg[pos];
    return r == R_SIZE || r == R_INDEX || r == R_PTR || r == R_NNZ || R.last[pos] != 0;
}

} // namespace c19
