// C16 (part 1) — skyline LU, Cuthill-McKee, small dense inverse.
//
// skyline LU, exact family: the matrix is *constructed* in the ordering the solver will use (default Cuthill-McKee,
// reverse Cuthill-McKee, or a harness-supplied ordering policy) by running the Crout recurrences forward: off-diagonal
// entries are small integers on the requested sparsity pattern and every diagonal entry is chosen such that the pivot
// is a unit times a power of two (scalar: +-2^e, complex: {1,-1,i,-i}*2^e, block: signed permutation * diag(2^e)).
// Then L, U, D^-1, the forward/backward substitution and therefore the solution are exactly representable, the rhs is
// b = A*x_true with integer x_true, and the solver must return x_true bitwise.  A pivot chosen as exactly zero must
// make the constructor throw.  Other families (M-matrix SPD, row/column strictly diagonally dominant, structurally
// non-symmetric, disconnected; real / complex / block): residual bound  ||b-Ax||_inf <= c N^2 u ||A||_inf ||x||_inf
// (LU without pivoting of a diagonally dominant matrix: |L||U| <= (2N-1)||A||, backward error 3N u |L||U|).
#include <complex>
#include <amgcl/backend/builtin.hpp>
#include <amgcl/value_type/static_matrix.hpp>
#include <amgcl/value_type/complex.hpp>
#include <amgcl/solver/skyline_lu.hpp>
#include <amgcl/reorder/cuthill_mckee.hpp>
#include <amgcl/detail/inverse.hpp>
#include "c16_common.hpp"
#include "../common/amgcl_util.hpp"

#ifndef C16_TOLSCALE
#define C16_TOLSCALE 1.0L   // calibration only: compile with -DC16_TOLSCALE=1e-3L to measure the slack of the rounding bounds
#endif
using namespace c16;
namespace ab = amgcl::backend;
typedef amgcl::static_matrix<double, 2, 2> blk2;
typedef amgcl::static_matrix<double, 3, 3> blk3;

// ------------------------------------------------------------------ stored structure
struct Ent { int col; bool zero; };            // zero: explicitly stored zero value
struct Pat {
    int n = 0;
    std::vector<std::vector<Ent>> rows;         // storage order preserved
    size_t nnz() const { size_t s = 0; for (auto &r : rows) s += r.size(); return s; }
};
static std::string dump_pat(const Pat &P, int maxn = 8) {
    if (P.n > maxn) return "";
    std::ostringstream os; os << "{";
    for (int i = 0; i < P.n; ++i) { os << (i ? ";" : ""); for (size_t k = 0; k < P.rows[i].size(); ++k) os << (k ? " " : "") << P.rows[i][k].col << (P.rows[i][k].zero ? "z" : ""); }
    os << "}";
    return os.str();
}
static std::shared_ptr<ab::crs<double>> pattern_crs(const Pat &P) {
    std::vector<ptrdiff_t> ptr(1, 0), col; std::vector<double> val;
    for (int i = 0; i < P.n; ++i) { for (auto &e : P.rows[i]) { col.push_back(e.col); val.push_back(e.zero ? 0.0 : 1.0); } ptr.push_back(static_cast<ptrdiff_t>(col.size())); }
    return std::make_shared<ab::crs<double>>(static_cast<size_t>(P.n), static_cast<size_t>(P.n), ptr, col, val);
}

// ordering policy supplied by the harness (the second template argument of skyline_lu is its documented extension point)
struct fixed_order {
    static std::vector<int> &p() { static thread_local std::vector<int> v; return v; }
    template <class Matrix, class Vector> static void get(const Matrix &, Vector &perm) { for (size_t i = 0; i < p().size(); ++i) perm[i] = p()[i]; }
};

// variant: 0 default Cuthill-McKee, 1 reverse Cuthill-McKee, 2 identity (fixed_order), 3 tape permutation (fixed_order)
static const char *variant_name(int v) { return v == 0 ? "cm" : v == 1 ? "rcm" : v == 2 ? "identity" : "given-perm"; }
// Calls the library ordering on a vector with n+slack entries pre-filled with -1: a defective ordering that emits more than n
// nodes is then *reported* (tail touched / first n entries not a permutation) instead of corrupting the heap of the harness.
template <bool reverse, class I>
static std::vector<I> call_cm(const ab::crs<double> &S, int n, std::string &why) {
    const size_t slack = static_cast<size_t>(n) + 8;
    std::vector<I> perm(static_cast<size_t>(n) + slack, static_cast<I>(-1));
    amgcl::reorder::cuthill_mckee<reverse>::get(S, perm);
    why.clear();
    for (size_t k = n; k < perm.size(); ++k) if (perm[k] != static_cast<I>(-1)) { why = "wrote perm[" + std::to_string(k) + "] = " + std::to_string(static_cast<long>(perm[k])) + " past the end (n=" + std::to_string(n) + ")"; break; }
    perm.resize(n);
    if (why.empty()) { std::vector<int> p(perm.begin(), perm.end()); is_permutation_of_n(p, n, why); }
    return perm;
}
static std::vector<int> ordering_of(int variant, const Pat &P, Tape *t) {
    std::vector<int> perm(P.n, -1);
    if (variant <= 1) {
        auto S = pattern_crs(P);
        std::string why;
        perm = variant == 0 ? call_cm<false, int>(*S, P.n, why) : call_cm<true, int>(*S, P.n, why);
        VF_REQUIRE(why.empty(), "cuthill_mckee<" << (variant ? "true" : "false") << "> did not return a permutation of 0.." << P.n - 1 << ": " << why << " pattern=" << dump_pat(P));
    } else if (variant == 2) { for (int i = 0; i < P.n; ++i) perm[i] = i; }
    else perm = gen_perm(*t, P.n);
    return perm;
}

// ------------------------------------------------------------------ library value types
template <class V> struct LT;
template <> struct LT<double> {
    typedef double rhs; static const int B = 1; static const bool cx = false; static const char *name() { return "double"; }
    static double from(const cplx *b) { return b[0].real(); }
    static double rfrom(const cplx *b) { return b[0].real(); }
    static cplx rget(const double &r, int) { return cplx(r, 0); }
};
template <> struct LT<cplx> {
    typedef cplx rhs; static const int B = 1; static const bool cx = true; static const char *name() { return "complex"; }
    static cplx from(const cplx *b) { return b[0]; }
    static cplx rfrom(const cplx *b) { return b[0]; }
    static cplx rget(const cplx &r, int) { return r; }
};
template <int N> struct LT<amgcl::static_matrix<double, N, N>> {
    typedef amgcl::static_matrix<double, N, N> V; typedef amgcl::static_matrix<double, N, 1> rhs;
    static const int B = N; static const bool cx = false; static const char *name() { return N == 2 ? "blk2" : "blk3"; }
    static V from(const cplx *b) { V v; for (int k = 0; k < N * N; ++k) v(k) = b[k].real(); return v; }
    static rhs rfrom(const cplx *b) { rhs r; for (int k = 0; k < N; ++k) r(k) = b[k].real(); return r; }
    static cplx rget(const rhs &r, int k) { return cplx(r(k), 0); }
};

// dense block matrix in permuted space: (n*B) x (n*B) complex doubles (real types keep imaginary part 0; all operations exact)
struct BM {
    int n, B; std::vector<cplx> a;
    BM(int n_, int B_) : n(n_), B(B_), a(static_cast<size_t>(n_) * n_ * B_ * B_, cplx(0, 0)) {}
    cplx &operator()(int i, int j, int p, int q) { return a[(static_cast<size_t>(i) * B + p) * n * B + static_cast<size_t>(j) * B + q]; }
    cplx operator()(int i, int j, int p, int q) const { return a[(static_cast<size_t>(i) * B + p) * n * B + static_cast<size_t>(j) * B + q]; }
    void get(int i, int j, cplx *blk) const { for (int p = 0; p < B; ++p) for (int q = 0; q < B; ++q) blk[p * B + q] = (*this)(i, j, p, q); }
    void set(int i, int j, const cplx *blk) { for (int p = 0; p < B; ++p) for (int q = 0; q < B; ++q) (*this)(i, j, p, q) = blk[p * B + q]; }
};
static void bmulsub(int B, cplx *s, const cplx *x, const cplx *y) { // s -= x*y
    for (int p = 0; p < B; ++p) for (int q = 0; q < B; ++q) { cplx acc(0, 0); for (int r = 0; r < B; ++r) acc += x[p * B + r] * y[r * B + q]; s[p * B + q] -= acc; }
}
static void bmul(int B, cplx *d, const cplx *x, const cplx *y) { for (int k = 0; k < B * B; ++k) d[k] = cplx(0, 0); std::vector<cplx> neg(B * B); for (int k = 0; k < B * B; ++k) neg[k] = -x[k]; bmulsub(B, d, neg.data(), y); }
static double bmax(int B, const cplx *x) { double m = 0; for (int k = 0; k < B * B; ++k) m = std::max(m, std::max(std::abs(x[k].real()), std::abs(x[k].imag()))); return m; }

// source of the free values of a constructed case
struct Values {
    virtual ~Values() {}
    virtual void off(int i, int j, cplx *blk) = 0;                 // non-zero off-diagonal block (small integers)
    virtual void pivot(int k, cplx *P, cplx *Pinv) = 0;            // unit * power of two, with its exact inverse
    virtual cplx xval(int k, int p) = 0;
};

struct ExactCase {
    BM A; std::vector<cplx> x, b; double G; bool fill; int zp;
    ExactCase(int n, int B) : A(n, B), x(static_cast<size_t>(n) * B), b(static_cast<size_t>(n) * B), G(1), fill(false), zp(-1) {}
};

// Sp: non-zero off-diagonal pattern in permuted space; zp: index of the pivot to make exactly zero (-1: none)
static ExactCase build_exact(int n, int B, const std::vector<std::vector<char>> &Sp, Values &vals, int zp) {
    ExactCase E(n, B); E.zp = zp;
    BM &A = E.A; BM Lc(n, B), Uu(n, B);
    std::vector<int> fl(n), fu(n);
    for (int i = 0; i < n; ++i) { fl[i] = i; for (int j = 0; j < i; ++j) if (Sp[i][j]) { fl[i] = j; break; } }
    for (int j = 0; j < n; ++j) { fu[j] = j; for (int i = 0; i < j; ++i) if (Sp[i][j]) { fu[j] = i; break; } }
    for (int i = 0; i < n; ++i) { for (int j = fl[i]; j < i; ++j) if (!Sp[i][j]) E.fill = true; for (int k = fu[i]; k < i; ++k) if (!Sp[k][i]) E.fill = true; }
    std::vector<cplx> blk(B * B), s(B * B), l(B * B), u(B * B), P(B * B);
    std::vector<std::vector<cplx>> Pinv(n, std::vector<cplx>(B * B));
    auto track = [&](const cplx *x) { E.G = std::max(E.G, bmax(B, x)); };
    // off-diagonal values first (row-major over the pattern), so the value stream does not depend on the elimination order
    for (int i = 0; i < n; ++i) for (int j = 0; j < n; ++j) if (i != j && Sp[i][j]) { vals.off(i, j, blk.data()); A.set(i, j, blk.data()); track(blk.data()); }
    bool dead = false; // after a zero pivot the factors no longer matter
    for (int k = 0; k < n; ++k) {
        vals.pivot(k, P.data(), Pinv[k].data());
        if (dead) { A.set(k, k, P.data()); continue; }
        for (int i = fu[k]; i < k; ++i) { // column k of U
            A.get(i, k, s.data());
            for (int m = std::max(fl[i], fu[k]); m < i; ++m) { Lc.get(i, m, l.data()); Uu.get(m, k, u.data()); bmulsub(B, s.data(), l.data(), u.data()); }
            bmul(B, blk.data(), Pinv[i].data(), s.data());
            Uu.set(i, k, blk.data()); track(blk.data()); track(s.data());
        }
        for (int j = fl[k]; j < k; ++j) { // row k of L
            A.get(k, j, s.data());
            for (int m = std::max(fl[k], fu[j]); m < j; ++m) { Lc.get(k, m, l.data()); Uu.get(m, j, u.data()); bmulsub(B, s.data(), l.data(), u.data()); }
            Lc.set(k, j, s.data()); track(s.data());
        }
        for (int q = 0; q < B * B; ++q) s[q] = cplx(0, 0);
        for (int m = std::max(fl[k], fu[k]); m < k; ++m) { Lc.get(k, m, l.data()); Uu.get(m, k, u.data()); bmulsub(B, s.data(), l.data(), u.data()); }
        for (int q = 0; q < B * B; ++q) s[q] = (k == zp ? cplx(0, 0) : P[q]) - s[q]; // a_kk = pivot + sum L U
        A.set(k, k, s.data()); track(s.data()); track(P.data()); track(Pinv[k].data());
        if (k == zp) dead = true;
    }
    for (int k = 0; k < n; ++k) for (int p = 0; p < B; ++p) { E.x[k * B + p] = vals.xval(k, p); E.G = std::max(E.G, std::max(std::abs(E.x[k * B + p].real()), std::abs(E.x[k * B + p].imag()))); }
    const int N = n * B;
    for (int r = 0; r < N; ++r) { cplx acc(0, 0); double aa = 0; for (int q = 0; q < N; ++q) { cplx v = A.a[static_cast<size_t>(r) * N + q]; acc += v * E.x[q]; aa += (std::abs(v.real()) + std::abs(v.imag())) * (std::abs(E.x[q].real()) + std::abs(E.x[q].imag())); } E.b[r] = acc; E.G = std::max(E.G, aa); }
    // y = U x (the intermediate of the substitution)
    for (int i = 0; i < n; ++i) for (int p = 0; p < B; ++p) { double aa = std::abs(E.x[i * B + p].real()) + std::abs(E.x[i * B + p].imag()); for (int j = i + 1; j < n; ++j) for (int q = 0; q < B; ++q) aa += (std::abs(Uu(i, j, p, q).real()) + std::abs(Uu(i, j, p, q).imag())) * (std::abs(E.x[j * B + q].real()) + std::abs(E.x[j * B + q].imag())); E.G = std::max(E.G, aa); }
    return E;
}

// assemble the library matrix in ORIGINAL indexing from the permuted-space dense blocks
template <class V>
std::shared_ptr<ab::crs<V>> assemble(const Pat &P, const std::vector<int> &perm, const BM &Bp) {
    const int B = LT<V>::B;
    std::vector<int> inv(P.n); for (int i = 0; i < P.n; ++i) inv[perm[i]] = i;
    std::vector<ptrdiff_t> ptr(1, 0), col; std::vector<V> val; std::vector<cplx> blk(B * B);
    for (int i = 0; i < P.n; ++i) {
        for (auto &e : P.rows[i]) {
            if (e.zero) for (auto &z : blk) z = cplx(0, 0); else Bp.get(inv[i], inv[e.col], blk.data());
            col.push_back(e.col); val.push_back(LT<V>::from(blk.data()));
        }
        ptr.push_back(static_cast<ptrdiff_t>(col.size()));
    }
    return std::make_shared<ab::crs<V>>(static_cast<size_t>(P.n), static_cast<size_t>(P.n), ptr, col, val);
}

template <class V, class Ord>
bool try_solve(const ab::crs<V> &A, const std::vector<typename LT<V>::rhs> &b, std::vector<typename LT<V>::rhs> &x, std::string &err) {
    try { amgcl::solver::skyline_lu<V, Ord> S(A); S(b, x); return true; }
    catch (const std::runtime_error &e) { err = e.what(); return false; }
}
template <class V>
bool solve_variant(int variant, const std::vector<int> &perm, const ab::crs<V> &A, const std::vector<typename LT<V>::rhs> &b, std::vector<typename LT<V>::rhs> &x, std::string &err) {
    if (variant == 0) return try_solve<V, amgcl::reorder::cuthill_mckee<false>>(A, b, x, err);
    if (variant == 1) return try_solve<V, amgcl::reorder::cuthill_mckee<true>>(A, b, x, err);
    fixed_order::p() = perm;
    return try_solve<V, fixed_order>(A, b, x, err);
}

// run one constructed exact case against the library
template <class V>
void check_exact(Ctx &c, const Pat &P, int variant, const std::vector<int> &perm, Values &vals, int zp) {
    const int B = LT<V>::B, n = P.n;
    std::vector<int> inv(n); for (int i = 0; i < n; ++i) inv[perm[i]] = i;
    std::vector<std::vector<char>> Sp(n, std::vector<char>(n, 0));
    bool nonsym = false;
    for (int i = 0; i < n; ++i) for (auto &e : P.rows[i]) if (!e.zero && e.col != i) Sp[inv[i]][inv[e.col]] = 1;
    for (int i = 0; i < n; ++i) for (int j = 0; j < n; ++j) if (Sp[i][j] != Sp[j][i]) nonsym = true;
    ExactCase E = build_exact(n, B, Sp, vals, zp);
    bool exact_ok = static_cast<double>(n) * B * E.G * E.G < 0x1p52;
    c.desc << " G=" << E.G << " perm="; for (int i = 0; i < n && n <= 8; ++i) c.desc << perm[i] << (i + 1 < n ? "," : "");
    c.label(std::string("val:") + LT<V>::name()); c.label(std::string("order:") + variant_name(variant));
    c.label(E.fill ? "fill-inside-skyline" : "no-fill"); if (nonsym) c.label("structurally-nonsymmetric");
    c.label(zp >= 0 ? "zero-pivot" : "regular");
    // intermediates too large to be exact in double (dense fill makes them grow doubly exponentially): the matrix the solver
    // would see is not the constructed one (a_kk = pivot + sum loses the pivot, or overflows), so the case is not run; counted,
    // and kept to a small fraction by the generator
    if (!exact_ok) { c.label("exact-guard-exceeded"); return; }
    auto A = assemble<V>(P, perm, E.A);
    typedef typename LT<V>::rhs R;
    std::vector<R> b(n), x(n);
    for (int i = 0; i < n; ++i) { b[perm[i]] = LT<V>::rfrom(&E.b[static_cast<size_t>(i) * B]); }
    // poison x: every entry must be written
    { std::vector<cplx> nanv(B, cplx(std::numeric_limits<double>::quiet_NaN(), 0)); for (int i = 0; i < n; ++i) x[i] = LT<V>::rfrom(nanv.data()); }
    std::string err;
    bool ok = solve_variant<V>(variant, perm, *A, b, x, err);
    if (zp >= 0) {
        c.nontrivial = true;
        VF_REQUIRE(!ok, "skyline_lu accepted a matrix whose pivot " << zp << " (in its own ordering) is exactly zero; no exception");
        return;
    }
    c.nontrivial = n >= 2 && (E.fill || nonsym || B > 1);
    VF_REQUIRE(ok, "skyline_lu threw \"" << err << "\" on a matrix whose pivots (in its own ordering) are all units * 2^e");
    for (int i = 0; i < n; ++i) for (int p = 0; p < B; ++p) {
        cplx got = LT<V>::rget(x[perm[i]], p), want = E.x[static_cast<size_t>(i) * B + p];
        VF_REQUIRE(got == want, "skyline_lu solution component (" << perm[i] << "," << p << ") = " << zs(got) << ", exact solution " << zs(want) << " (all factors and intermediates exactly representable)");
    }
}

// ---- values from the tape
struct TapeValues : Values {
    Tape &t; int B; bool cx, pow2; int amp;
    TapeValues(Tape &t_, int B_, bool cx_, bool pow2_, int amp_) : t(t_), B(B_), cx(cx_), pow2(pow2_), amp(amp_) {}
    void off(int, int, cplx *blk) override {
        bool nz = false;
        for (int k = 0; k < B * B; ++k) { double re = static_cast<double>(t.u(-amp, amp)), im = cx ? static_cast<double>(t.u(-amp, amp)) : 0.0; blk[k] = cplx(re, im); nz = nz || re != 0 || im != 0; }
        if (!nz) blk[0] = cplx(1, 0);
    }
    void pivot(int, cplx *P, cplx *Pinv) override {
        for (int k = 0; k < B * B; ++k) P[k] = Pinv[k] = cplx(0, 0);
        std::vector<int> sg = gen_perm(t, B);
        for (int p = 0; p < B; ++p) {
            int e = pow2 ? static_cast<int>(t.u(-1, 1)) : 0;
            cplx unit = cx ? std::vector<cplx>{cplx(1, 0), cplx(-1, 0), cplx(0, 1), cplx(0, -1)}[t.u(0, 3)] : (t.b() ? cplx(-1, 0) : cplx(1, 0));
            P[p * B + sg[p]] = unit * std::ldexp(1.0, e);
            Pinv[sg[p] * B + p] = std::conj(unit) * std::ldexp(1.0, -e); // 1/unit = conj(unit) for |unit| = 1
        }
    }
    cplx xval(int, int) override { return cplx(static_cast<double>(t.u(-3, 3)), cx ? static_cast<double>(t.u(-3, 3)) : 0.0); }
};

// ---- deterministic values for the exhaustive scope
struct FormulaValues : Values {
    int B, vcls; bool cx;
    FormulaValues(int B_, int vcls_, bool cx_) : B(B_), vcls(vcls_), cx(cx_) {}
    void off(int i, int j, cplx *blk) override {
        for (int p = 0; p < B; ++p) for (int q = 0; q < B; ++q) {
            int re = (i * 7 + j * 3 + p * 5 + q * 2 + vcls) % 5 - 2, im = cx ? (i + 2 * j + p + q + vcls) % 3 - 1 : 0;
            if (vcls == 0) { re = 1; im = cx ? 1 : 0; }
            blk[p * B + q] = cplx(re, im);
        }
        bool nz = false; for (int k = 0; k < B * B; ++k) nz = nz || blk[k] != cplx(0, 0);
        if (!nz) blk[0] = cplx(2, 0);
    }
    void pivot(int k, cplx *P, cplx *Pinv) override {
        for (int q = 0; q < B * B; ++q) P[q] = Pinv[q] = cplx(0, 0);
        for (int p = 0; p < B; ++p) {
            int tgt = (vcls == 2 && (k & 1)) ? (p + 1) % B : p;     // a cyclic shift inside the block: the block inverse has to pivot
            int e = vcls == 0 ? 0 : (k + p + vcls) % 3 - 1;
            cplx unit = vcls == 0 ? cplx(1, 0) : cx ? std::vector<cplx>{cplx(1, 0), cplx(0, 1), cplx(-1, 0), cplx(0, -1)}[(k + p) % 4] : (((k + p) & 1) ? cplx(-1, 0) : cplx(1, 0));
            P[p * B + tgt] = unit * std::ldexp(1.0, e);
            Pinv[tgt * B + p] = std::conj(unit) * std::ldexp(1.0, -e);
        }
    }
    cplx xval(int k, int p) override { return cplx((k * 3 + p + vcls) % 7 - 3, cx ? (k + 2 * p + vcls) % 5 - 2 : 0); }
};

// ------------------------------------------------------------------ props: exact family
static Pat gen_pattern(Tape &t, int nmax, std::string &fam, bool &disconnected) {
    Graph g = gen_graph(t, nmax);
    fam = g.family;
    int nc; components(g, nc); disconnected = nc > 1;
    Pat P; P.n = g.n; P.rows.assign(g.n, {});
    int dropq = static_cast<int>(t.u(0, 3)); // 0: structurally symmetric, else each direction is dropped with probability dropq/8
    std::vector<std::set<int>> cols(g.n);
    for (auto &e : g.edges) {
        bool d1 = dropq && t.chance(dropq, 8), d2 = dropq && t.chance(dropq, 8);
        if (!d1) cols[e.first].insert(e.second);
        if (!d2) cols[e.second].insert(e.first);
    }
    bool zeros = t.chance(1, 4);   // a few explicitly stored zeros (counted by Cuthill-McKee, ignored by the profile)
    bool shuffle = t.b();
    for (int i = 0; i < g.n; ++i) {
        std::vector<Ent> r;
        std::set<int> all = cols[i]; all.insert(i);
        if (zeros && g.n > 1 && t.chance(1, 3)) { int z = static_cast<int>(t.pick(g.n)); if (!all.count(z)) { all.insert(z); r.push_back(Ent{z, true}); } }
        for (int cidx : all) { bool isz = false; for (auto &e : r) isz = isz || e.col == cidx; if (!isz) r.push_back(Ent{cidx, false}); }
        std::sort(r.begin(), r.end(), [](const Ent &a, const Ent &b) { return a.col < b.col; });
        if (shuffle) for (size_t a = r.size(); a > 1; --a) std::swap(r[a - 1], r[t.pick(a)]);
        P.rows[i] = r;
    }
    return P;
}

template <class V>
void prop_lu_exact(Tape &t, Ctx &c) {
    int variant = static_cast<int>(t.u(0, 3));
    int nmax = t.b() ? 20 : 6;
    std::string fam; bool disc;
    Pat P = gen_pattern(t, nmax, fam, disc);
    int zp = t.chance(1, 6) ? static_cast<int>(t.pick(P.n)) : -1;
    std::vector<int> perm = ordering_of(variant, P, &t);
    bool pow2 = P.n <= 5;
    c.desc << "skyline_lu<" << LT<V>::name() << "> exact " << fam << " n=" << P.n << " nnz=" << P.nnz() << " order=" << variant_name(variant) << " zero_pivot=" << zp << " pattern=" << dump_pat(P);
    c.label("fam:" + fam); if (disc) c.label("disconnected");
    TapeValues vals(t, LT<V>::B, LT<V>::cx, pow2, P.n <= 8 ? 2 : 1); // smaller entries for larger n: dense fill grows doubly exponentially
    check_exact<V>(c, P, variant, perm, vals, zp);
}

// exhaustive: all off-diagonal patterns of an n x n matrix, n <= 4 (5 in the thorough tier)
static void prop_lu_bits(Tape &t, Ctx &c) {
    int n = static_cast<int>(t.u(1, 5));
    uint32_t mask = static_cast<uint32_t>(t.u(0, (1u << (n * (n - 1))) - 1));
    int variant = static_cast<int>(t.u(0, 2));
    int vcls = static_cast<int>(t.u(0, 2));
    int zp = static_cast<int>(t.u(0, n)) - 1;
    int vt = static_cast<int>(t.u(0, 2));
    Pat P; P.n = n; P.rows.assign(n, {});
    int bit = 0;
    for (int i = 0; i < n; ++i) for (int j = 0; j < n; ++j) { if (i == j) { P.rows[i].push_back(Ent{i, false}); continue; } if (mask >> bit & 1) P.rows[i].push_back(Ent{j, false}); ++bit; }
    std::vector<int> perm = ordering_of(variant, P, nullptr);
    c.desc << "skyline_lu bits n=" << n << " mask=" << mask << " order=" << variant_name(variant) << " vcls=" << vcls << " zero_pivot=" << zp << " vt=" << vt << " pattern=" << dump_pat(P);
    if (vt == 0) { FormulaValues v(1, vcls, false); check_exact<double>(c, P, variant, perm, v, zp); }
    else if (vt == 1) { FormulaValues v(1, vcls, true); check_exact<cplx>(c, P, variant, perm, v, zp); }
    else { FormulaValues v(2, vcls, false); check_exact<blk2>(c, P, variant, perm, v, zp); }
}

// ------------------------------------------------------------------ props: floating-point families (backward error)
template <class V>
void prop_lu_float(Tape &t, Ctx &c) {
    const int B = LT<V>::B; const bool cx = LT<V>::cx;
    int variant = static_cast<int>(t.u(0, 3));
    int fam_v = static_cast<int>(t.u(0, 2)); // 0 SPD M-matrix (real scalar) / Hermitian-like dd (others), 1 row strictly dd, 2 column strictly dd
    int nmax = t.b() ? 80 : 12;
    std::string fam; bool disc;
    Pat P = gen_pattern(t, nmax / (B > 1 ? 2 : 1), fam, disc);
    for (auto &r : P.rows) for (auto &e : r) e.zero = false;
    const int n = P.n, N = n * B;
    std::vector<int> perm = ordering_of(variant, P, &t);
    // scalar dense matrix in original indexing
    std::vector<cplx> M(static_cast<size_t>(N) * N, cplx(0, 0));
    auto at = [&](int r, int q) -> cplx & { return M[static_cast<size_t>(r) * N + q]; };
    for (int i = 0; i < n; ++i) for (auto &e : P.rows[i]) for (int p = 0; p < B; ++p) for (int q = 0; q < B; ++q) {
        if (e.col == i && p == q) continue;
        double re = t.slogu(0.01, 10), im = cx ? t.slogu(0.01, 10) : 0.0;
        if (fam_v == 0 && !cx && B == 1) re = -std::abs(re);
        at(i * B + p, e.col * B + q) = cplx(re, im);
    }
    if (fam_v == 0) { // symmetrise values where the pattern is symmetric (Hermitian part), keep structural non-symmetry
        for (int r = 0; r < N; ++r) for (int q = r + 1; q < N; ++q) if (at(r, q) != cplx(0, 0) && at(q, r) != cplx(0, 0)) at(q, r) = std::conj(at(r, q));
    }
    for (int r = 0; r < N; ++r) {
        long double s = 0;
        if (fam_v == 2) { for (int q = 0; q < N; ++q) if (q != r) s += std::abs(L(at(q, r))); }
        else { for (int q = 0; q < N; ++q) if (q != r) s += std::abs(L(at(r, q))); }
        if (fam_v == 0) { long double s2 = 0; for (int q = 0; q < N; ++q) if (q != r) s2 += std::abs(L(at(q, r))); s = std::max(s, s2); }
        double d = static_cast<double>(s) * (1.0 + t.logu(1e-3, 1.0)) + t.logu(1e-3, 1.0);
        cplx ph = (fam_v == 0) ? cplx(1, 0) : cx ? std::polar(1.0, t.uni(0, 6.283185307179586)) : (t.b() ? cplx(-1, 0) : cplx(1, 0));
        at(r, r) = d * ph;
    }
    // library matrix
    std::vector<ptrdiff_t> ptr(1, 0), col; std::vector<V> val; std::vector<cplx> blk(B * B);
    for (int i = 0; i < n; ++i) { for (auto &e : P.rows[i]) { for (int p = 0; p < B; ++p) for (int q = 0; q < B; ++q) blk[p * B + q] = at(i * B + p, e.col * B + q); col.push_back(e.col); val.push_back(LT<V>::from(blk.data())); } ptr.push_back(static_cast<ptrdiff_t>(col.size())); }
    ab::crs<V> A(static_cast<size_t>(n), static_cast<size_t>(n), ptr, col, val);
    typedef typename LT<V>::rhs R;
    std::vector<cplx> xt(N), bf(N);
    for (int r = 0; r < N; ++r) xt[r] = cplx(t.uni(-1, 1), cx ? t.uni(-1, 1) : 0.0);
    for (int r = 0; r < N; ++r) { lcplx s(0, 0); for (int q = 0; q < N; ++q) s += L(at(r, q)) * L(xt[q]); bf[r] = cplx(static_cast<double>(s.real()), static_cast<double>(s.imag())); }
    std::vector<R> b(n), x(n);
    for (int i = 0; i < n; ++i) b[i] = LT<V>::rfrom(&bf[static_cast<size_t>(i) * B]);
    // skyline envelope statistics (labels only)
    std::vector<int> inv(n); for (int i = 0; i < n; ++i) inv[perm[i]] = i;
    std::vector<std::vector<char>> Sp(n, std::vector<char>(n, 0)); bool nonsym = false, fill = false;
    for (int i = 0; i < n; ++i) for (auto &e : P.rows[i]) if (e.col != i) Sp[inv[i]][inv[e.col]] = 1;
    for (int i = 0; i < n; ++i) { int f = i; for (int j = 0; j < i; ++j) if (Sp[i][j]) { f = j; break; } for (int j = f; j < i; ++j) if (!Sp[i][j]) fill = true; for (int j = 0; j < n; ++j) if (Sp[i][j] != Sp[j][i]) nonsym = true; }
    c.desc << "skyline_lu<" << LT<V>::name() << "> float " << fam << " n=" << n << " nnz=" << P.nnz() << " order=" << variant_name(variant) << " values=" << (fam_v == 0 ? "spd/hermitian-dd" : fam_v == 1 ? "row-dd" : "col-dd") << " pattern=" << dump_pat(P);
    c.label(std::string("val:") + LT<V>::name()); c.label(std::string("order:") + variant_name(variant)); c.label("fam:" + fam);
    c.label(fam_v == 0 ? "values:spd-or-hermitian-dd" : fam_v == 1 ? "values:row-dd" : "values:col-dd");
    if (disc) c.label("disconnected"); if (nonsym) c.label("structurally-nonsymmetric"); c.label(fill ? "fill-inside-skyline" : "no-fill");
    c.label(n <= 12 ? "n<=12" : n <= 40 ? "n<=40" : "n<=80");
    c.nontrivial = n >= 3 && (fill || nonsym || disc);
    std::string err;
    bool ok = solve_variant<V>(variant, perm, A, b, x, err);
    VF_REQUIRE(ok, "skyline_lu threw \"" << err << "\" on a strictly diagonally dominant matrix");
    long double normA = 0, normx = 0, res = 0;
    for (int r = 0; r < N; ++r) { long double s = 0; for (int q = 0; q < N; ++q) s += std::abs(L(at(r, q))); normA = std::max(normA, s); }
    std::vector<lcplx> xs(N);
    for (int i = 0; i < n; ++i) for (int p = 0; p < B; ++p) { cplx g = LT<V>::rget(x[i], p); VF_REQUIRE(std::isfinite(g.real()) && std::isfinite(g.imag()), "skyline_lu: non-finite solution component " << i); xs[i * B + p] = L(g); normx = std::max(normx, std::abs(xs[i * B + p])); }
    for (int r = 0; r < N; ++r) { lcplx s = L(bf[r]); for (int q = 0; q < N; ++q) s -= L(at(r, q)) * xs[q]; res = std::max(res, std::abs(s)); }
    long double cst = (cx ? 32.0L : 8.0L) * (B > 1 ? 8.0L : 1.0L);
    long double tol = cst * N * N * U53 * normA * normx * C16_TOLSCALE;
    if (B > 1) {
        // block pivots are inverted explicitly (D[i] = inverse(pivot)), which is only conditionally backward stable: the residual
        // carries the condition number of the pivot blocks.  They are Schur complements of a strictly diagonally dominant matrix,
        // hence dominant with at least the same margin: kappa(pivot) <= 2||A|| / gap, gap = min_r (|a_rr| - sum of the off-diagonals)
        long double gapm = 1e300L;
        for (int r = 0; r < N; ++r) {
            long double sr = 0, sc = 0; for (int q = 0; q < N; ++q) if (q != r) { sr += std::abs(L(at(r, q))); sc += std::abs(L(at(q, r))); }
            long double g = fam_v == 1 ? std::abs(L(at(r, r))) - sr : fam_v == 2 ? std::abs(L(at(r, r))) - sc : std::abs(L(at(r, r))) - std::max(sr, sc);
            gapm = std::min(gapm, g);
        }
        tol *= std::max(1.0L, 2 * normA / gapm);
    }
    VF_REQUIRE(res <= tol, "skyline_lu residual ||b-Ax||_inf = " << static_cast<double>(res) << " > " << static_cast<double>(tol) << " = " << static_cast<double>(cst) << "*N^2*u*||A||*||x|| (N=" << N << ", ||A||=" << static_cast<double>(normA) << ", ||x||=" << static_cast<double>(normx) << ")");
    // forward error against the generating solution: strictly dd => kappa_inf <= ||A|| / min_i (|a_ii| - sum_j |a_ij|)  (row-dd case)
    if (fam_v == 1) {
        long double gap = 1e300L;
        for (int r = 0; r < N; ++r) { long double s = 0; for (int q = 0; q < N; ++q) if (q != r) s += std::abs(L(at(r, q))); gap = std::min(gap, std::abs(L(at(r, r))) - s); }
        long double ferr = 0; for (int r = 0; r < N; ++r) ferr = std::max(ferr, std::abs(xs[r] - L(xt[r])));
        // ||x - xt|| <= ||A^-1|| (||b - A x|| + ||bf - A xt||), ||A^-1||_inf <= 1/gap, rounding of bf: N u ||A|| ||xt||
        long double ftol = (tol + 2 * N * U53 * normA) / gap;
        VF_REQUIRE(ferr <= ftol, "skyline_lu forward error " << static_cast<double>(ferr) << " > " << static_cast<double>(ftol) << " (row diagonally dominant, ||A^-1|| <= 1/" << static_cast<double>(gap) << ")");
    }
}

// ------------------------------------------------------------------ props: large-diameter class (hundreds of breadth-first level sets)
// chains, narrow bands, thin strips, caterpillars and unions of > 255 tiny components with n in [250, 1500]: the level-set
// bookkeeping of Cuthill-McKee and the skyline profile are exercised far beyond the sizes of the other generators.  Sparse
// storage throughout; strictly diagonally dominant values.  Oracle: the ordering is a bijection (both variants), the solver does
// not throw, residual ||b-Ax||_inf <= min(8 N^2, 16 (W+1)^3) u ||A|| ||x||  (W = half-width of the skyline in the solver's
// ordering: every inner product has <= W terms, backward error 3 gamma_{W+1} |L||U|, |L||U|_ij <= 2 W max|a| on <= 2W+1 columns
// per row for matrices dominant by rows or columns), and for row-dominant values the forward error through ||A^-1|| <= 1/gap.
static void check_cm(const Pat &P, const std::string &what);
struct Lcg { uint64_t s; explicit Lcg(uint64_t seed) : s(seed * 2862933555777941757ULL + 3037000493ULL) {} uint32_t next() { s = s * 6364136223846793005ULL + 1442695040888963407ULL; return static_cast<uint32_t>(s >> 32); } double uni() { return next() / 4294967296.0; } };

template <class V>
void prop_lu_long(Tape &t, Ctx &c) {
    static_assert(LT<V>::B == 1, "scalar values");
    const bool cx = LT<V>::cx;
    int fam = static_cast<int>(t.u(0, 4));       // 0 chain, 1 band, 2 strip, 3 many components, 4 caterpillar
    int n0 = static_cast<int>(t.u(250, 1500));
    int w = static_cast<int>(t.u(2, 3));          // band width / strip width
    int relabel = static_cast<int>(t.u(0, 2));    // 0 natural numbering, 1 reversed, 2 random relabelling
    int vsel = static_cast<int>(t.u(0, 7));
    int variant = vsel <= 2 ? 0 : vsel <= 5 ? 1 : vsel == 6 ? 2 : 3;
    int fam_v = static_cast<int>(t.u(1, 2));      // 1 row strictly dominant, 2 column strictly dominant
    int dropq = t.chance(1, 3) ? static_cast<int>(t.u(1, 2)) : 0; // structural non-symmetry: each direction dropped with probability dropq/8
    uint64_t stream = static_cast<uint64_t>(t.u(0, 0xffffffffLL));
    Lcg rng(stream);         // values, relabelling and drops: a stream fixed by this tape word
    // ---- graph
    std::vector<std::pair<int, int>> edges; int n = n0; std::string fname;
    switch (fam) {
    case 0: fname = "chain"; for (int i = 0; i + 1 < n; ++i) edges.push_back({i, i + 1}); break;
    case 1: fname = "band" + std::to_string(w); for (int i = 0; i < n; ++i) for (int d = 1; d <= w && i + d < n; ++d) edges.push_back({i, i + d}); break;
    case 2: { fname = "strip" + std::to_string(w); int k = std::max(2, n0 / w); n = k * w; for (int i = 0; i < k; ++i) for (int j = 0; j < w; ++j) { if (j + 1 < w) edges.push_back({i * w + j, i * w + j + 1}); if (i + 1 < k) edges.push_back({i * w + j, (i + 1) * w + j}); } break; }
    case 3: { fname = "components"; int i = 0; while (i < n) { int sz = std::min(n - i, 1 + static_cast<int>(rng.next() % 4)); bool clique = rng.next() & 1; for (int a = 0; a < sz; ++a) for (int b = a + 1; b < sz; ++b) if (clique || b == a + 1) edges.push_back({i + a, i + b}); i += sz; } break; }
    default: { fname = "caterpillar"; int spine = std::max(2, (2 * n) / 3); for (int i = 0; i + 1 < spine; ++i) edges.push_back({i, i + 1}); for (int i = spine; i < n; ++i) edges.push_back({static_cast<int>(rng.next() % spine), i}); break; }
    }
    std::vector<int> lab(n); for (int i = 0; i < n; ++i) lab[i] = relabel == 1 ? n - 1 - i : i;
    if (relabel == 2) for (int i = n; i > 1; --i) std::swap(lab[i - 1], lab[rng.next() % i]);
    std::vector<std::map<int, cplx>> rows(n);
    bool nonsym = false;
    auto val = [&]() { double m = 0.05 + 2.0 * rng.uni(); double re = (rng.next() & 1) ? m : -m, im = cx ? (2.0 * rng.uni() - 1.0) : 0.0; return cplx(re, im); };
    for (auto &e : edges) {
        int a = lab[e.first], b = lab[e.second];
        bool d1 = dropq && static_cast<int>(rng.next() % 8) < dropq, d2 = dropq && static_cast<int>(rng.next() % 8) < dropq;
        if (!d1) rows[a][b] = val();
        if (!d2) rows[b][a] = val();
        if (d1 != d2) nonsym = true;
    }
    // strictly dominant diagonal (by rows or by columns)
    std::vector<long double> osum(n, 0.0L);
    for (int i = 0; i < n; ++i) for (auto &kv : rows[i]) osum[fam_v == 1 ? i : kv.first] += std::abs(L(kv.second));
    for (int i = 0; i < n; ++i) {
        double d = static_cast<double>(osum[i]) * (1.0 + 0.01 + rng.uni()) + 0.01 + rng.uni();
        cplx ph = cx ? std::polar(1.0, 6.283185307179586 * rng.uni()) : ((rng.next() & 1) ? cplx(-1, 0) : cplx(1, 0));
        rows[i][i] = d * ph;
    }
    Pat P; P.n = n; P.rows.assign(n, {});
    bool shuffle = rng.next() & 1;
    for (int i = 0; i < n; ++i) { for (auto &kv : rows[i]) P.rows[i].push_back(Ent{kv.first, false}); if (shuffle) for (size_t a = P.rows[i].size(); a > 1; --a) std::swap(P.rows[i][a - 1], P.rows[i][rng.next() % a]); }
    // number of breadth-first level sets from node 0 with restart at the lowest unvisited node (what the ordering has to count)
    int levels = 0;
    { std::vector<char> seen(n, 0); std::vector<int> cur; int nextfree = 0, done = 0;
      while (done < n) {
          if (cur.empty()) { while (seen[nextfree]) ++nextfree; cur.push_back(nextfree); seen[nextfree] = 1; ++done; ++levels; }
          std::vector<int> nxt; for (int u : cur) for (auto &kv : rows[u]) if (!seen[kv.first]) { seen[kv.first] = 1; ++done; nxt.push_back(kv.first); }
          if (!nxt.empty()) ++levels; cur.swap(nxt);
      } }
    c.desc << "skyline_lu<" << LT<V>::name() << "> long " << fname << " n=" << n << " nnz=" << P.nnz() << " relabel=" << relabel << " order=" << variant_name(variant) << " values=" << (fam_v == 1 ? "row-dd" : "col-dd")
           << " dropq=" << dropq << " level_sets=" << levels << " stream=" << stream;
    c.label(std::string("val:") + LT<V>::name()); c.label("long:" + fname); c.label(std::string("order:") + variant_name(variant)); c.label(fam_v == 1 ? "values:row-dd" : "values:col-dd");
    c.label(levels >= 256 ? "level-sets>=256" : "level-sets<256"); if (levels >= 512) c.label("level-sets>=512"); if (nonsym) c.label("structurally-nonsymmetric");
    c.label(relabel == 0 ? "numbering:natural" : relabel == 1 ? "numbering:reversed" : "numbering:random");
    c.nontrivial = levels >= 256;
    // ---- the ordering is a bijection (both variants, whatever ordering the solve below uses)
    check_cm(P, "large-diameter " + fname + " n=" + std::to_string(n));
    std::vector<int> perm;
    if (variant == 3) { perm.resize(n); for (int i = 0; i < n; ++i) perm[i] = i; for (int i = n; i > 1; --i) std::swap(perm[i - 1], perm[rng.next() % i]); } // from the stream: keeps the tape short
    else perm = ordering_of(variant, P, &t);
    // ---- library matrix, right-hand side
    std::vector<ptrdiff_t> ptr(1, 0), col; std::vector<V> vals;
    for (int i = 0; i < n; ++i) { for (auto &e : P.rows[i]) { cplx v = rows[i][e.col]; col.push_back(e.col); vals.push_back(LT<V>::from(&v)); } ptr.push_back(static_cast<ptrdiff_t>(col.size())); }
    ab::crs<V> A(static_cast<size_t>(n), static_cast<size_t>(n), ptr, col, vals);
    typedef typename LT<V>::rhs R;
    std::vector<cplx> xt(n), bf(n);
    for (int i = 0; i < n; ++i) xt[i] = cplx(2.0 * rng.uni() - 1.0, cx ? 2.0 * rng.uni() - 1.0 : 0.0);
    for (int i = 0; i < n; ++i) { lcplx s(0, 0); for (auto &kv : rows[i]) s += L(kv.second) * L(xt[kv.first]); bf[i] = cplx(static_cast<double>(s.real()), static_cast<double>(s.imag())); }
    std::vector<R> b(n), x(n);
    for (int i = 0; i < n; ++i) { b[i] = LT<V>::rfrom(&bf[i]); cplx nanv(std::numeric_limits<double>::quiet_NaN(), 0); x[i] = LT<V>::rfrom(&nanv); }
    std::string err;
    bool ok = solve_variant<V>(variant, perm, A, b, x, err);
    VF_REQUIRE(ok, "skyline_lu threw \"" << err << "\" on a strictly diagonally dominant " << fname << " matrix with n=" << n);
    // ---- skyline half-width in the solver's ordering
    std::vector<int> inv(n); for (int i = 0; i < n; ++i) inv[perm[i]] = i;
    int W = 0; for (int i = 0; i < n; ++i) for (auto &kv : rows[i]) W = std::max(W, std::abs(inv[i] - inv[kv.first]));
    c.label(W <= 4 ? "skyline-halfwidth<=4" : W <= 16 ? "skyline-halfwidth<=16" : "skyline-halfwidth>16");
    long double normA = 0, normx = 0, res = 0, gap = 1e300L;
    for (int i = 0; i < n; ++i) { long double sr = 0; for (auto &kv : rows[i]) sr += std::abs(L(kv.second)); normA = std::max(normA, sr); if (fam_v == 1) gap = std::min(gap, 2 * std::abs(L(rows[i][i])) - sr); }
    std::vector<lcplx> xs(n);
    for (int i = 0; i < n; ++i) { cplx g = LT<V>::rget(x[i], 0); VF_REQUIRE(std::isfinite(g.real()) && std::isfinite(g.imag()), "skyline_lu: non-finite solution component " << i << " (" << fname << ", n=" << n << ")"); xs[i] = L(g); normx = std::max(normx, std::abs(xs[i])); }
    for (int i = 0; i < n; ++i) { lcplx s = L(bf[i]); for (auto &kv : rows[i]) s -= L(kv.second) * xs[kv.first]; res = std::max(res, std::abs(s)); }
    long double cN = 8.0L * n * n, cW = 16.0L * (W + 1) * (W + 1) * (W + 1);
    long double tol = (cx ? 4.0L : 1.0L) * std::min(cN, cW) * U53 * normA * normx * C16_TOLSCALE;
    VF_REQUIRE(res <= tol, "skyline_lu residual ||b-Ax||_inf = " << static_cast<double>(res) << " > " << static_cast<double>(tol) << " = min(8 N^2, 16 (W+1)^3) u ||A|| ||x|| (N=" << n << ", W=" << W << ", ||A||=" << static_cast<double>(normA) << ", ||x||=" << static_cast<double>(normx) << ", " << fname << ")");
    if (fam_v == 1) {
        long double ferr = 0; for (int i = 0; i < n; ++i) ferr = std::max(ferr, std::abs(xs[i] - L(xt[i])));
        long double ftol = (tol + 2 * (2 * W + 2) * U53 * normA) / gap; // rounding of bf: at most 2W+1 terms per row
        VF_REQUIRE(ferr <= ftol, "skyline_lu forward error " << static_cast<double>(ferr) << " > " << static_cast<double>(ftol) << " (row diagonally dominant, ||A^-1|| <= 1/" << static_cast<double>(gap) << ", " << fname << ", n=" << n << ")");
    }
}

// ------------------------------------------------------------------ Cuthill-McKee
static void check_cm(const Pat &P, const std::string &what) {
    auto S = pattern_crs(P);
    for (int rev = 0; rev < 2; ++rev) {
        std::string why, why2;
        std::vector<int> perm = rev ? call_cm<true, int>(*S, P.n, why) : call_cm<false, int>(*S, P.n, why);
        VF_REQUIRE(why.empty(), "cuthill_mckee<" << (rev ? "true" : "false") << ">::get is not a permutation of 0.." << P.n - 1 << ": " << why << " (" << what << ")");
        std::vector<ptrdiff_t> perm2 = rev ? call_cm<true, ptrdiff_t>(*S, P.n, why2) : call_cm<false, ptrdiff_t>(*S, P.n, why2); // other index type of the output vector
        VF_REQUIRE(why2.empty(), "cuthill_mckee<" << (rev ? "true" : "false") << ">::get (ptrdiff_t output) is not a permutation: " << why2 << " (" << what << ")");
        for (int i = 0; i < P.n; ++i) VF_REQUIRE(perm2[i] == perm[i], "cuthill_mckee: result depends on the index type of the output vector");
    }
}
static void prop_cm(Tape &t, Ctx &c) {
    std::string fam; bool disc;
    Pat P = gen_pattern(t, t.b() ? 60 : 8, fam, disc);
    // optionally remove some diagonal entries (the ordering must not rely on them)
    bool nodiag = t.chance(1, 4);
    if (nodiag) for (int i = 0; i < P.n; ++i) if (t.b()) { auto &r = P.rows[i]; r.erase(std::remove_if(r.begin(), r.end(), [&](const Ent &e) { return e.col == i; }), r.end()); }
    bool nonsym = false;
    { std::set<std::pair<int, int>> S; for (int i = 0; i < P.n; ++i) for (auto &e : P.rows[i]) S.insert({i, e.col}); for (auto &pr : S) if (!S.count({pr.second, pr.first})) nonsym = true; }
    c.desc << "cuthill_mckee " << fam << " n=" << P.n << " nnz=" << P.nnz() << " threads=" << c.threads << " pattern=" << dump_pat(P);
    c.label("fam:" + fam); if (disc) c.label("disconnected"); if (nonsym) c.label("structurally-nonsymmetric"); if (nodiag) c.label("missing-diagonals");
    c.nontrivial = P.n >= 3 && (disc || nonsym || P.nnz() > static_cast<size_t>(2 * P.n));
    check_cm(P, "random");
}
// exhaustive: undirected graphs on <= 6 nodes (bit per pair) or directed graphs on <= 4 nodes (bit per ordered pair); diagonal stored or not
static void prop_cm_bits(Tape &t, Ctx &c) {
    int directed = static_cast<int>(t.u(0, 1));
    int n = static_cast<int>(t.u(1, 6));
    int nb = directed ? n * (n - 1) : n * (n - 1) / 2;
    uint32_t mask = static_cast<uint32_t>(t.u(0, (1u << std::min(nb, 20)) - 1));
    int diag = static_cast<int>(t.u(0, 1));
    Pat P; P.n = n; P.rows.assign(n, {});
    std::vector<std::set<int>> cols(n);
    int bit = 0;
    if (directed) { for (int i = 0; i < n; ++i) for (int j = 0; j < n; ++j) if (i != j) { if (mask >> bit & 1) cols[i].insert(j); ++bit; } }
    else { for (int i = 0; i < n; ++i) for (int j = i + 1; j < n; ++j) { if (mask >> bit & 1) { cols[i].insert(j); cols[j].insert(i); } ++bit; } }
    for (int i = 0; i < n; ++i) { if (!diag) cols[i].insert(i); for (int j : cols[i]) P.rows[i].push_back(Ent{j, false}); }
    c.desc << "cuthill_mckee bits " << (directed ? "directed" : "undirected") << " n=" << n << " mask=" << mask << " diag=" << (diag ? "absent" : "stored") << " pattern=" << dump_pat(P);
    c.nontrivial = n >= 3;
    check_cm(P, "enumerated");
}

// ------------------------------------------------------------------ dense inverse
inline bool is_complex_type(double) { return false; }
inline bool is_complex_type(cplx) { return true; }
// A X = I column by column with partial pivoting: |A x_k - e_k| <= 3n u |L||U||x_k|, |L| <= 1, |U| <= 2^(n-1) max|a|
template <class T>
void check_inverse(const std::vector<T> &A, const std::vector<T> &X, int n, bool exact_expected, const std::vector<T> &Xexact, const std::string &what) {
    long double amax = 0; for (auto &v : A) amax = std::max(amax, static_cast<long double>(std::abs(v)));
    for (auto &v : X) VF_REQUIRE(std::isfinite(std::real(v)) && std::isfinite(std::imag(v)), what << ": non-finite entry in the inverse of a nonsingular matrix");
    if (exact_expected) { for (int k = 0; k < n * n; ++k) VF_REQUIRE(X[k] == Xexact[k], what << ": entry " << k / n << "," << k % n << " = " << zs(cplx(std::real(X[k]), std::imag(X[k]))) << " but the exact inverse (signed permutation * powers of two) is " << zs(cplx(std::real(Xexact[k]), std::imag(Xexact[k])))); return; }
    long double cst = (is_complex_type(T()) ? 16.0L : 4.0L);
    for (int k = 0; k < n; ++k) {
        long double x1 = 0; for (int i = 0; i < n; ++i) x1 += std::abs(lcplx(std::real(X[i * n + k]), std::imag(X[i * n + k])));
        long double tol = cst * n * n * std::ldexp(1.0L, n - 1) * U53 * amax * x1;
        for (int i = 0; i < n; ++i) {
            lcplx s(i == k ? -1.0L : 0.0L, 0);
            for (int j = 0; j < n; ++j) s += lcplx(std::real(A[i * n + j]), std::imag(A[i * n + j])) * lcplx(std::real(X[j * n + k]), std::imag(X[j * n + k]));
            VF_REQUIRE(std::abs(s) <= tol, what << ": (A*inv(A) - I)(" << i << "," << k << ") = " << static_cast<double>(std::abs(s)) << " > " << static_cast<double>(tol) << " = c n^2 2^(n-1) u max|a| ||x_k||_1");
        }
    }
}
template <class T> T make_val(double re, double im);
template <> double make_val<double>(double re, double) { return re; }
template <> cplx make_val<cplx>(double re, double im) { return cplx(re, im); }

// generate a nonsingular n x n matrix; fam 0: signed permutation * 2^e (exact inverse known), 1: P*L*U small integers, 2: random reals, 3: graded random reals
template <class T>
void gen_nonsingular(Tape &t, int n, int fam, std::vector<T> &A, std::vector<T> &Xexact, bool &needs_pivot) {
    const bool cx = is_complex_type(T());
    A.assign(n * n, T(0)); Xexact.assign(n * n, T(0));
    std::vector<int> p = gen_perm(t, n);
    needs_pivot = false;
    if (fam == 0) {
        for (int i = 0; i < n; ++i) {
            int e = static_cast<int>(t.u(-3, 3));
            cplx unit = cx ? std::vector<cplx>{cplx(1, 0), cplx(-1, 0), cplx(0, 1), cplx(0, -1)}[t.u(0, 3)] : (t.b() ? cplx(-1, 0) : cplx(1, 0));
            cplx v = unit * std::ldexp(1.0, e), vi = std::conj(unit) * std::ldexp(1.0, -e);
            A[i * n + p[i]] = make_val<T>(v.real(), v.imag()); Xexact[p[i] * n + i] = make_val<T>(vi.real(), vi.imag());
            if (p[i] != i) needs_pivot = true;
        }
    } else if (fam == 1) {
        std::vector<T> Lm(n * n, T(0)), Um(n * n, T(0));
        for (int i = 0; i < n; ++i) for (int j = 0; j < n; ++j) {
            if (j < i) Lm[i * n + j] = make_val<T>(t.u(-2, 2), cx ? t.u(-2, 2) : 0);
            else if (j == i) { Lm[i * n + j] = T(1); double d = static_cast<double>(t.u(1, 3)) * (t.b() ? -1 : 1); Um[i * n + j] = make_val<T>(d, 0); }
            else Um[i * n + j] = make_val<T>(t.u(-2, 2), cx ? t.u(-2, 2) : 0);
        }
        for (int i = 0; i < n; ++i) for (int j = 0; j < n; ++j) { T s(0); for (int k = 0; k < n; ++k) s += Lm[i * n + k] * Um[k * n + j]; A[p[i] * n + j] = s; }
        for (int i = 0; i < n; ++i) if (A[i * n + i] == T(0)) needs_pivot = true;
        for (int i = 0; i < n; ++i) if (p[i] != i) needs_pivot = true;
    } else {
        // strictly column diagonally dominant after a row permutation: nonsingular by construction, general otherwise
        for (int i = 0; i < n; ++i) for (int j = 0; j < n; ++j) A[i * n + j] = make_val<T>(t.uni(-1, 1), cx ? t.uni(-1, 1) : 0);
        for (int j = 0; j < n; ++j) { double s = 0; for (int i = 0; i < n; ++i) if (p[i] != j) s += std::abs(A[i * n + j]); int r = 0; for (int i = 0; i < n; ++i) if (p[i] == j) r = i; A[r * n + j] = make_val<T>((s + t.logu(1e-3, 1.0)) * (t.b() ? -1 : 1), 0); if (r != j) needs_pivot = true; }
        if (fam == 3) { for (int i = 0; i < n; ++i) { double sc = std::ldexp(1.0, static_cast<int>(t.u(-20, 20))); for (int j = 0; j < n; ++j) A[i * n + j] *= sc; } }
    }
}

template <class T>
void prop_inverse_dyn(Tape &t, Ctx &c) {
    int n = static_cast<int>(t.u(1, 8));
    int fam = static_cast<int>(t.u(0, 3));
    std::vector<T> A, Xe; bool np;
    gen_nonsingular<T>(t, n, fam, A, Xe, np);
    c.desc << "detail::inverse<" << (is_complex_type(T()) ? "complex" : "double") << "> n=" << n << " fam=" << fam << " needs_pivoting=" << np;
    if (n <= 4) { c.desc << " A=["; for (int k = 0; k < n * n; ++k) c.desc << (k ? (k % n ? " " : "; ") : "") << zs(cplx(std::real(A[k]), std::imag(A[k]))); c.desc << "]"; }
    c.label("n=" + std::to_string(n)); c.label("fam=" + std::to_string(fam)); c.label(np ? "needs-pivoting" : "no-pivoting");
    c.nontrivial = n >= 2 && np;
    std::vector<T> W(A), tmp(n * n, T(std::numeric_limits<double>::quiet_NaN())); std::vector<int> p(n, -7);
    amgcl::detail::inverse(n, W.data(), tmp.data(), p.data());
    check_inverse<T>(A, W, n, fam == 0, Xe, "detail::inverse");
}

template <int N>
void prop_inverse_static(Tape &t, Ctx &c) {
    typedef amgcl::static_matrix<double, N, N> M;
    int fam = static_cast<int>(t.u(0, 3));
    std::vector<double> A, Xe; bool np;
    gen_nonsingular<double>(t, N, fam, A, Xe, np);
    c.desc << "math::inverse<static_matrix<double," << N << "," << N << ">> fam=" << fam << " needs_pivoting=" << np;
    c.label("fam=" + std::to_string(fam)); c.label(np ? "needs-pivoting" : "no-pivoting");
    c.nontrivial = np;
    M a; for (int k = 0; k < N * N; ++k) a(k) = A[k];
    M x = amgcl::math::inverse(a);
    for (int k = 0; k < N * N; ++k) VF_REQUIRE(a(k) == A[k], "math::inverse modified its argument");
    std::vector<double> X(N * N); for (int k = 0; k < N * N; ++k) X[k] = x(k);
    check_inverse<double>(A, X, N, fam == 0, Xe, "math::inverse(static_matrix)");
    // same code path as detail::inverse on a raw buffer: identical bits
    std::vector<double> W(A), tmp(N * N); std::vector<int> p(N);
    amgcl::detail::inverse(N, W.data(), tmp.data(), p.data());
    for (int k = 0; k < N * N; ++k) VF_REQUIRE(W[k] == X[k], "math::inverse(static_matrix) differs from detail::inverse on the same data");
}
static void prop_inverse_scalar(Tape &t, Ctx &c) {
    double a = t.slogu(1e-6, 1e6); cplx z(t.slogu(1e-3, 1e3), t.slogu(1e-3, 1e3));
    c.desc << "math::inverse scalar a=" << a << " z=" << zs(z); c.nontrivial = true;
    double ia = amgcl::math::inverse(a); cplx iz = amgcl::math::inverse(z);
    VF_REQUIRE(std::abs(static_cast<long double>(ia) * a - 1.0L) <= 2 * U53, "inverse(double): a*inv(a)-1 = " << static_cast<double>(static_cast<long double>(ia) * a - 1.0L));
    VF_REQUIRE(std::abs(L(iz) * L(z) - lcplx(1, 0)) <= 8 * U53, "inverse(complex): |z*inv(z)-1| = " << static_cast<double>(std::abs(L(iz) * L(z) - lcplx(1, 0))));
}

// ------------------------------------------------------------------ registration
static std::vector<Prop> props() {
    return {
        Prop("lu_exact_double", prop_lu_exact<double>, 4000, 40000, 100, 40, {1}, 2, 4),
        Prop("lu_exact_complex", prop_lu_exact<cplx>, 3000, 30000, 100, 60, {1}, 1, 2),
        Prop("lu_exact_blk2", prop_lu_exact<blk2>, 3000, 30000, 100, 120, {1}, 1, 2),
        Prop("lu_exact_blk3", prop_lu_exact<blk3>, 1500, 15000, 100, 200, {1}, 1, 2),
        Prop("lu_float_double", prop_lu_float<double>, 2500, 25000, 100, 60, {1, 4}, 2, 4),
        Prop("lu_float_complex", prop_lu_float<cplx>, 2400, 24000, 100, 100, {1}, 1, 2),
        Prop("lu_float_blk2", prop_lu_float<blk2>, 1800, 18000, 100, 150, {1}, 1, 2),
        Prop("lu_float_blk3", prop_lu_float<blk3>, 1000, 10000, 100, 250, {1}, 1, 2),
        Prop("lu_long_double", prop_lu_long<double>, 250, 2500, 100, 2, {1, 4}, 2, 4),
        Prop("lu_long_complex", prop_lu_long<cplx>, 120, 1200, 100, 2, {1}, 1, 2),
        Prop("cm", prop_cm, 3000, 30000, 100, 20, {1, 4}, 1, 2),
        Prop("inverse_double", prop_inverse_dyn<double>, 3000, 30000, 100, 2, {1}, 1, 2),
        Prop("inverse_complex", prop_inverse_dyn<cplx>, 2000, 20000, 100, 3, {1}, 1, 2),
        Prop("inverse_static2", prop_inverse_static<2>, 1000, 10000, 100, 1, {1}, 1, 1),
        Prop("inverse_static3", prop_inverse_static<3>, 1000, 10000, 100, 1, {1}, 1, 1),
        Prop("inverse_static4", prop_inverse_static<4>, 1000, 10000, 100, 1, {1}, 1, 1),
        Prop("inverse_static5", prop_inverse_static<5>, 600, 6000, 100, 1, {1}, 1, 1),
        Prop("inverse_static6", prop_inverse_static<6>, 600, 6000, 100, 1, {1}, 1, 1),
        Prop("inverse_static8", prop_inverse_static<8>, 600, 6000, 100, 2, {1}, 1, 1),
        Prop("inverse_scalar", prop_inverse_scalar, 500, 5000, 100, 1, {1}, 1, 1),
        // decoders of the exhaustive scopes (also sampled randomly)
        Prop("lu_bits", prop_lu_bits, 500, 5000, 100, 1, {1}, 1, 1),
        Prop("cm_bits", prop_cm_bits, 500, 5000, 100, 1, {1}, 1, 1),
    };
}

static std::vector<Enum> enums() {
    Enum e;
    e.name = "lu_all_patterns"; e.prop = "lu_bits";
    e.scope_quick = "all off-diagonal sparsity patterns of n x n matrices, n=1..4 (2^12 for n=4), x ordering {Cuthill-McKee, reverse Cuthill-McKee, identity} x 3 value assignments x "
                    "{no zero pivot, zero pivot at each position} x value type {double, complex, 2x2 block}";
    e.scope_thorough = "quick scope plus all 2^20 off-diagonal patterns of 5 x 5 matrices (double, Cuthill-McKee ordering, value assignment 1, no zero pivot and zero pivot at the last position)";
    e.gen = [](const std::string &tier, const Emit &emit) {
        for (int n = 1; n <= 4; ++n) for (int vt = 0; vt < 3; ++vt)
            for (uint32_t mask = 0; mask < (1u << (n * (n - 1))); ++mask) for (uint32_t var = 0; var < 3; ++var) for (uint32_t vc = 0; vc < 3; ++vc) for (uint32_t zp = 0; zp <= static_cast<uint32_t>(n); ++zp)
                emit({static_cast<uint32_t>(n - 1), mask, var, vc, zp, static_cast<uint32_t>(vt)});
        if (tier == "thorough") for (uint32_t mask = 0; mask < (1u << 20); ++mask) for (uint32_t zp = 0; zp <= 5; zp += 5) emit({4u, mask, 0u, 1u, zp, 0u});
    };
    Enum g;
    g.name = "cm_all_graphs"; g.prop = "cm_bits";
    g.scope_quick = "all undirected graphs on 1..6 nodes (2^15 for n=6) and all directed graphs on 1..4 nodes (2^12), each with the diagonal stored and not stored, both Cuthill-McKee variants";
    g.scope_thorough = "quick scope plus all directed graphs on 5 nodes (2^20)";
    g.gen = [](const std::string &tier, const Emit &emit) {
        for (uint32_t n = 1; n <= 6; ++n) for (uint32_t mask = 0; mask < (1u << (n * (n - 1) / 2)); ++mask) for (uint32_t d = 0; d < 2; ++d) emit({0u, n - 1, mask, d});
        for (uint32_t n = 1; n <= (tier == "thorough" ? 5u : 4u); ++n) for (uint32_t mask = 0; mask < (1u << (n * (n - 1))); ++mask) for (uint32_t d = 0; d < 2; ++d) emit({1u, n - 1, mask, d});
    };
    return {e, g};
}

VF_MAIN(props(), enums())
